(** Proofs/TiesNNS.v — ties between the literals of Model/NNS.v (properties C10,
    C11, C12) and the constants of the Go sources as extracted into Gen/Params.v
    (regenerated from /repo's working tree on every run): contracts/nns/contract.go,
    contracts/nns/namestate.go, contracts/nns/recordtype/recordtype.go.  A
    constant edited in the source breaks the lemma that names it.

    Named definitions of the model (the price and length limits, the time
    units, the record type codes, [DOT]) are tied directly.  Inline literals
    ([years] in 1..10 and the fragment count of [Renew]; [resolve .. 3]; the
    [6 0 0] of [put_soa]; the seven fields and the serial position of
    [update_soa_serial]; base 10 of [itoa]; the one-fragment tests; [2 <? l],
    [+1] / [-1] of the NEP-11 accounting; the bounds of [SetPrice]; [id =? 0]
    of the CNAME rule; ...) are tied through closed observable terms: the
    result of the model's own step function on a small concrete world (the
    Section variables instantiated: [hash] the identity, the three syntax
    predicates constantly true), at the extracted value and one beyond, or
    against the per-function literal lists p_nns_<func>_intlits / _strlits
    (the literals of the Go function body in source order, with the length of
    the list asserted so that an inserted literal is noticed).

    NOT TIED, platform constants (not in /repo's sources):
    - [hash_len]: 20 = interop.Hash160Len (neo-go);
    - [to_byte]: -128..255 and [mod 256], the VM's Buffer SETITEM / byte
      conversion; [vm_mul] / [vm_add] / [int_ok]: 32-byte VM integers;
    - [itoa] / [digitsN]: '0' = 48 and '-' = 45 of std.Itoa (neo-go native
      std contract); only the base is a literal of /repo (tied below);
    - RIPEMD-160 ([hash], a Section variable), stdMaxInputLength ([str_ok]).
    NOT TIED, abstracted away by the model:
    - the storage prefixes prefixTotalSupply, prefixBalance, prefixAccountToken,
      prefixRegisterPrice, prefixRoot, prefixName, prefixRecord
      (p_nns_prefixName etc., p_nns_updateTotalSupply_tsKey): [nstate] has one typed
      map / field per prefix, the prefixes occur in comments only;
    - the committee multi-signature size l-(l-1)/2
      (p_nns_checkCommittee_multisig_m_expr): [nctx] carries the committee
      account as one opaque script hash ([committee]); the expression is tied
      to Model/Witness.v's [Multisig.nns_m] in Proofs/TiesWitness.v;
    - the syntax limits maxRootLength, maxDomainNameFragmentLength,
      minDomainNameLength, maxTXTRecordLength and the character classes:
      behind the Section variables [valid_name] / [valid_data] (property C18,
      Proofs/TiesNNSSyntax.v);
    - token symbol "NNS" and decimals 0: no such methods in [nop];
    - event names "Transfer" / "Renew" / "SetAdmin", "onNEP11Payment", the
      map keys "name" / "expiration" / "admin" of Properties: [nnotif] is a
      typed constructor per event, [notif_val]'s leading 0 / 1 / 2 and the
      positional lists of [ent_val] / Properties are the encoding agreed with
      the harness, not values of the source;
    - the value 0 stored under a TLD key (saveCommitteeDomain): [roots] is a
      set ([gmap bytes unit]);
    - _deploy's update path (version >= 18_000, the TLD owner migration) and
      the tldSet loop with its local refresh / retry / expire / ttl
      (p_nns__deploy_refresh etc.): [ninit] is the state after [_deploy(nil, false)];
      RenewDefault (p_nns_RenewDefault_intlits): not an operation of [nop].
    NOT TIED, missing from Gen/Params.v:
    - [SPACE] = 32, the separator " " of the SOA record data: the string
      literals " " of putSoaRecord (contracts/nns/contract.go:808-812) and of
      updateSoaSerial (:827 std.StringSplitNonEmpty(rec.Data, " "), :832-835)
      contain a space and the translator only lists space-free string literals
      (p_nns_putSoaRecord_strlits / p_nns_updateSoaSerial_strlits do not exist).
      The field order, the field count, the serial position and the base of
      the numbers are tied below relative to the model's own [SPACE].
    Structural literals (positions in the fragment list: fragments[0],
    fragments[l-1], [len(fragments[0])+1], the loop bounds of parentExpired /
    tokenIDFromName, [len(name)-1] of resolve, [diff < 0] of updateBalance)
    are [List.last] / [drop 1] / [seq] / [removelast] in the model; they are
    covered only as far as the observables below exercise them. *)
From Coq Require Import ZArith NArith List String.
Import ListNotations.
From Verif Require Import Base.Prelude Base.IntCodec Gen.Params Model.NNS Proofs.TiesLib.
Local Open Scope Z_scope.

(* ------------------------------------------------------------------ *)
(** * Named definitions *)

(** maxRegisterPrice = int64(1_0000_0000_0000) *)
Lemma tie_maxRegisterPrice : maxRegisterPrice = p_nns_maxRegisterPrice.
Proof. reflexivity. Qed.
(** defaultRegisterPrice = 10_0000_0000 *)
Lemma tie_defaultRegisterPrice : defaultRegisterPrice = p_nns_defaultRegisterPrice.
Proof. reflexivity. Qed.
(** maxDomainNameLength = 255 (Renew, UpdateSOA, SetAdmin) *)
Lemma tie_maxDomainNameLength : maxDomainNameLength = p_nns_maxDomainNameLength.
Proof. reflexivity. Qed.
(** maxRecordID = 15 *)
Lemma tie_maxRecordID : maxRecordID = p_nns_maxRecordID.
Proof. reflexivity. Qed.
(** millisecondsInSecond = 1000 *)
Lemma tie_millisecondsInSecond : millisecondsInSecond = p_nns_millisecondsInSecond.
Proof. reflexivity. Qed.
(** millisecondsInYear = int64(365 * 24 * 3600 * millisecondsInSecond) *)
Lemma tie_millisecondsInYear : millisecondsInYear = p_nns_millisecondsInYear.
Proof. reflexivity. Qed.
(** millisecondsInTenYears = 10 * millisecondsInYear *)
Lemma tie_millisecondsInTenYears : millisecondsInTenYears = p_nns_millisecondsInTenYears.
Proof. reflexivity. Qed.

(** recordtype.A / CNAME / SOA / TXT / AAAA *)
Lemma tie_T_A : T_A = p_recordtype_A.
Proof. reflexivity. Qed.
Lemma tie_T_CNAME : T_CNAME = p_recordtype_CNAME.
Proof. reflexivity. Qed.
Lemma tie_T_SOA : T_SOA = p_recordtype_SOA.
Proof. reflexivity. Qed.
Lemma tie_T_TXT : T_TXT = p_recordtype_TXT.
Proof. reflexivity. Qed.
Lemma tie_T_AAAA : T_AAAA = p_recordtype_AAAA.
Proof. reflexivity. Qed.

(** [DOT]: the separator "." of every std.StringSplit(.., ".") whose result the
    model computes with [split_dot] (first string literal of each body; in
    parentExpired it is the [fragments[i] + "." + name] of [join_dot]), and the
    character '.' of resolve's trailing-dot test (fourth literal). *)
Lemma tie_DOT :
  map (fun l => bytes_of_string (nth 0 l EmptyString))
      [p_nns_safeSplitAndCheck_strlits; p_nns_OwnerOf_strlits; p_nns_Properties_strlits;
       p_nns_Transfer_strlits; p_nns_parentExpired_strlits; p_nns_SetAdmin_strlits;
       p_nns_checkRecord_strlits; p_nns_GetRecords_strlits; p_nns_DeleteRecords_strlits;
       p_nns_Resolve_strlits; p_nns_GetAllRecords_strlits; p_nns_getFragmentedNameState_strlits]
  = repeat [DOT] 12
  /\ DOT = byte_of_z (nth 3 p_nns_resolve_intlits 0).
Proof. split; vm_compute; reflexivity. Qed.

(* ------------------------------------------------------------------ *)
(** * A small concrete world *)

Definition hid (b : bytes) : bytes := b.                 (* stands for RIPEMD-160 *)
Definition any_name (_ : bytes) : bool := true.
Definition any_data (_ : Z) (_ : bytes) : bool := true.
Definition exec := nexec hid any_name any_data any_name.
Definition step := nstep hid any_name any_data any_name.
Definition run := nrun_from hid any_name any_data any_name.

Definition halts {X} (o : outcome X) : bool := match o with Halt _ => true | Fault => false end.
Definition res (r : nstate * val * list nnotif) : val := snd (fst r).
Definition vlen (v : val) : Z := match v with VList l => Z.of_nat (length l) | _ => -1 end.

Definition COM : bytes := repeat 9%N 20.                 (* the committee account *)
Definition A : bytes := repeat 1%N 20.
Definition B : bytes := repeat 2%N 20.
Definition ABC : bytes := [97; 98; 99]%N.
Definition XYZ : bytes := [120; 121; 122]%N.
Definition EM : bytes := [101; 64; 120]%N.                (* "e@x" *)
(** "abc", "abc.abc", "abc.abc.abc", ..: [k] fragments *)
Definition dom (k : Z) : bytes := join_dot (repeat ABC (Z.to_nat k)).
(** "xyz", "xyz.abc", "xyz.abc.abc", ..: [k] fragments *)
Definition xdom (k : Z) : bytes := join_dot (XYZ :: repeat ABC (Z.to_nat (k - 1))).
(** "xyz", "xyz.xyz", .. *)
Definition xx (k : Z) : bytes := join_dot (repeat XYZ (Z.to_nat k)).
Definition cx (t : Z) (w : list bytes) : nctx := mkNC t w COM [].

(** The TLD "abc" (expires at 1000 + 1013 s), then "abc.abc" of [A] (expires
    at 1000 + 23 s). *)
Definition s1 : nstate := run ninit [(cx 1000 [COM], RegisterTLD (dom 1) EM 11 12 1013 14)].
Definition s2 : nstate := run s1 [(cx 1000 [A], Register (dom 2) (Some A) EM 21 22 23 24)].

(* ------------------------------------------------------------------ *)
(** * _deploy, the price *)

(** _deploy: [storage.Put(ctx, []byte{prefixTotalSupply}, 0)] (last literal of
    the body), [storage.Put(ctx, []byte{prefixRegisterPrice}, defaultRegisterPrice)]. *)
Lemma tie_deploy :
  let l := p_nns__deploy_intlits in
  (res (step ninit (cx 0 [], GetPrice)), res (step ninit (cx 0 [], TotalSupply)))
  = (VInt p_nns_defaultRegisterPrice, VInt (nth 5 l 0)) /\ length l = 6%nat.
Proof. split; vm_compute; reflexivity. Qed.

(** SetPrice: [price < 0 || price > maxRegisterPrice] *)
Lemma tie_set_price_bounds :
  let l := p_nns_SetPrice_intlits in
  map (fun p => halts (exec (cx 0 [COM]) ninit (SetPrice p)))
      [nth 0 l 0 - 1; nth 0 l 0; p_nns_maxRegisterPrice; p_nns_maxRegisterPrice + 1]
  = [false; true; true; false] /\ length l = 1%nat.
Proof. split; vm_compute; reflexivity. Qed.

(** BalanceOf: [return 0] for an account without a balance key. *)
Lemma tie_balance_of_default :
  let l := p_nns_BalanceOf_intlits in
  res (step ninit (cx 0 [], BalanceOf (Some B))) = VInt (nth 0 l 0) /\ length l = 1%nat.
Proof. split; vm_compute; reflexivity. Qed.

(* ------------------------------------------------------------------ *)
(** * Expiration and renewal *)

(** saveDomain: [Expiration: runtime.GetTime() + expire*millisecondsInSecond] *)
Lemma tie_expiration :
  (ns_exp <$> (names s1 !! dom 1), ns_exp <$> (names s2 !! dom 2))
  = (Some (1000 + 1013 * p_nns_millisecondsInSecond), Some (1000 + 23 * p_nns_millisecondsInSecond)).
Proof. vm_compute. reflexivity. Qed.

(** Renew: [years < 1 || years > 10] (first two literals of the body), on the
    TLD (witnessed by the committee; not subject to the ten years' cap). *)
Lemma tie_renew_years :
  let l := p_nns_Renew_intlits in
  map (fun y => halts (exec (cx 1000 [COM]) s1 (Renew (dom 1) y)))
      [nth 0 l 0 - 1; nth 0 l 0; nth 1 l 0; nth 1 l 0 + 1]
  = [false; true; true; false] /\ length l = 3%nat.
Proof. split; vm_compute; reflexivity. Qed.

(** Renew: [ns.Expiration += millisecondsInYear * int64(years)] *)
Lemma tie_renew_year :
  step s1 (cx 1000 [COM], Renew (dom 1) 3)
  = (put_ns hid s1 (mkNS None (dom 1) (1000 + 1013 * p_nns_millisecondsInSecond + p_nns_millisecondsInYear * 3) None),
     VInt (1000 + 1013 * p_nns_millisecondsInSecond + p_nns_millisecondsInYear * 3),
     [NRenew (dom 1) (1000 + 1013 * p_nns_millisecondsInSecond)
             (1000 + 1013 * p_nns_millisecondsInSecond + p_nns_millisecondsInYear * 3)]).
Proof. vm_compute. reflexivity. Qed.

(** Renew: [len(fragments) > 1 && ns.Expiration > GetTime()+millisecondsInTenYears]
    (third literal of the body).  Both names registered for [e] seconds at time
    1000 and renewed for one year at time 1000: "abc.abc" up to exactly ten
    years from now and not one second more; the TLD ([nth 2 l 0] fragments) is
    not capped. *)
Definition cap_st (e : Z) : nstate :=
  run ninit [(cx 1000 [COM], RegisterTLD (dom 1) EM 11 12 e 14);
             (cx 1000 [A], Register (dom 2) (Some A) EM 21 22 e 24)].
Definition nine_years_s : Z :=
  (p_nns_millisecondsInTenYears - p_nns_millisecondsInYear) / p_nns_millisecondsInSecond.

Lemma tie_renew_ten_years_cap :
  let l := p_nns_Renew_intlits in
  [halts (exec (cx 1000 [A]) (cap_st nine_years_s) (Renew (dom (nth 2 l 0 + 1)) 1));
   halts (exec (cx 1000 [A]) (cap_st (nine_years_s + 1)) (Renew (dom (nth 2 l 0 + 1)) 1));
   halts (exec (cx 1000 [COM]) (cap_st (nine_years_s + 1)) (Renew (dom (nth 2 l 0)) 1))]
  = [true; false; true]
  /\ 1000 + nine_years_s * p_nns_millisecondsInSecond + p_nns_millisecondsInYear
     = 1000 + p_nns_millisecondsInTenYears.
Proof. split; vm_compute; reflexivity. Qed.

(* ------------------------------------------------------------------ *)
(** * The one-fragment tests *)

(** [len(fragments) == 1] -> panic("token not found") / ("TLD denied"): every
    gated method faults on the name of [lit] fragments and halts on the name of
    [lit + 1] fragments (both names exist in [s2]; the witnesses of [A] and of
    the committee are present). *)
Definition tld_gated : list ((bytes -> nop) * Z) :=
  [ (OwnerOf, nth 0 p_nns_OwnerOf_intlits 0);
    (Properties, nth 0 p_nns_Properties_intlits 0);
    (Transfer (Some B), nth 0 p_nns_Transfer_intlits 0);
    (fun n => SetAdmin n None, nth 0 p_nns_SetAdmin_intlits 0);
    (fun n => GetRecords n p_recordtype_TXT, nth 0 p_nns_GetRecords_intlits 0);
    (fun n => DeleteRecords n p_recordtype_TXT, nth 0 p_nns_DeleteRecords_intlits 0);
    (fun n => Resolve n p_recordtype_TXT, nth 0 p_nns_Resolve_intlits 0);
    (GetAllRecords, nth 0 p_nns_GetAllRecords_intlits 0);
    (fun n => AddRecord n p_recordtype_TXT [120%N], nth 1 p_nns_checkRecord_intlits 0);
    (fun n => Register n (Some A) EM 1 2 3 4, nth 0 p_nns_Register_intlits 0) ].

Lemma tie_tld_gate :
  map (fun p : (bytes -> nop) * Z =>
         (halts (exec (cx 1000 [A; COM]) s2 (fst p (dom (snd p)))),
          halts (exec (cx 1000 [A; COM]) s2 (fst p (dom (snd p + 1))))))
      tld_gated
  = [(false, true); (false, true); (false, true); (false, true); (false, true); (false, true);
     (false, true); (false, true); (false, true); (false, true)]
  /\ map (@length Z)
         [p_nns_OwnerOf_intlits; p_nns_Properties_intlits; p_nns_SetAdmin_intlits;
          p_nns_GetRecords_intlits; p_nns_DeleteRecords_intlits; p_nns_GetAllRecords_intlits;
          p_nns_checkRecord_intlits; p_nns_Resolve_intlits]
     = [1; 1; 1; 1; 1; 1; 2; 2]%nat.
Proof. split; vm_compute; reflexivity. Qed.

(** saveCommitteeDomain: [len(fragments) != 1] -> panic("not a TLD") (first
    literal), and [parentExpired(ctx, 0, fragments)] (second literal: the TLD
    itself is examined): "abc" cannot be registered again while it lives and
    can after it has expired. *)
Lemma tie_register_tld :
  let l := p_nns_saveCommitteeDomain_intlits in
  [halts (exec (cx 1000 [COM]) s1 (RegisterTLD (xdom (nth 0 l 0)) EM 1 2 3 4));
   halts (exec (cx 1000 [COM]) s1 (RegisterTLD (xdom (nth 0 l 0 + 1)) EM 1 2 3 4));
   halts (exec (cx 1000 [COM]) s1 (RegisterTLD (dom 1) EM 1 2 3 4));
   halts (exec (cx (1000 + 1013 * p_nns_millisecondsInSecond) [COM]) s1 (RegisterTLD (dom 1) EM 1 2 3 4))]
  = [true; false; false; true]
  /\ map (fun t => parent_expired hid (cx t []) s1 (Z.to_nat (nth 1 l 0)) [dom 1])
         [1000; 1000 + 1013 * p_nns_millisecondsInSecond] = [false; true]
  /\ length l = 3%nat.
Proof. repeat split; vm_compute; reflexivity. Qed.

(** IsAvailable: an unknown TLD is available, a name under an unknown TLD is
    "TLD not found" ([l != 1], second literal); [parentExpired(ctx, 0, ..)]
    (third literal) examines the name itself: "abc.abc" is taken while it
    lives and available once it has expired. *)
Lemma tie_is_available :
  let l := p_nns_IsAvailable_intlits in
  [res (step s2 (cx 1000 [], IsAvailable (xx (nth 1 l 0))));
   res (step s2 (cx 1000 [], IsAvailable (xx (nth 1 l 0 + 1))));
   res (step s2 (cx 1000 [], IsAvailable (dom 2)));
   res (step s2 (cx (1000 + 23 * p_nns_millisecondsInSecond) [], IsAvailable (dom 2)))]
  = [VBool true; VFault; VBool false; VBool true]
  /\ map (fun t => parent_expired hid (cx t []) s2 (Z.to_nat (nth 2 l 0)) [ABC; ABC])
         [1000; 1000 + 23 * p_nns_millisecondsInSecond] = [false; true]
  /\ length l = 4%nat.
Proof. repeat split; vm_compute; reflexivity. Qed.

(* ------------------------------------------------------------------ *)
(** * Register, Transfer: access rule and NEP-11 accounting *)

(** Register: [if l > 2 { .. ns.checkAdmin() }] (sixth literal): a stranger
    registers a name of [lit] fragments, not one of [lit + 1] fragments (whose
    parent "abc.abc" belongs to [A]), unless [A] signs as well. *)
Lemma tie_register_admin_level :
  let l := p_nns_Register_intlits in
  [res (step s2 (cx 1000 [B], Register (xdom (nth 5 l 0)) (Some B) EM 1 2 3 4));
   res (step s2 (cx 1000 [B], Register (xdom (nth 5 l 0 + 1)) (Some B) EM 1 2 3 4));
   res (step s2 (cx 1000 [A; B], Register (xdom (nth 5 l 0 + 1)) (Some B) EM 1 2 3 4))]
  = [VBool true; VFault; VBool true]
  /\ length l = 10%nat.
Proof. split; vm_compute; reflexivity. Qed.

(** Register: [updateTotalSupply(ctx, +1)], [updateBalance(ctx, name, owner, +1)]
    (ninth and tenth literals) on a fresh name; [updateBalance(ctx, name,
    oldOwner, -1)] (eighth) when an expired name goes to [B] (the TLD still
    lives: [parentExpired(ctx, 1, fragments)], third literal, skips the name
    itself and examines the TLD). *)
Definition s3 : nstate :=
  run s2 [(cx (1000 + 23 * p_nns_millisecondsInSecond) [B], Register (dom 2) (Some B) EM 1 2 3 4)].

Lemma tie_register_accounting :
  let l := p_nns_Register_intlits in
  let q s o := res (step s (cx 1000 [], o)) in
  [q s1 TotalSupply; q s2 TotalSupply; q s2 (BalanceOf (Some A));
   q s3 TotalSupply; q s3 (BalanceOf (Some A)); q s3 (BalanceOf (Some B)); q s3 (OwnerOf (dom 2))]
  = [VInt 0; VInt (0 + nth 8 l 0); VInt (0 + nth 9 l 0);
     VInt (0 + nth 8 l 0); VInt (0 + nth 9 l 0 - nth 7 l 0); VInt (0 + nth 9 l 0); VBytes B]
  /\ map (fun t => parent_expired hid (cx t []) s2 (Z.to_nat (nth 2 l 0)) [ABC; ABC])
         [1000 + 23 * p_nns_millisecondsInSecond; 1000 + 1013 * p_nns_millisecondsInSecond] = [false; true].
Proof. split; vm_compute; reflexivity. Qed.

(** Transfer: [updateBalance(ctx, tokenID, from, -1)], [(.., to, +1)] (second
    and third literals); postTransfer: [runtime.Notify("Transfer", from, to, 1,
    tokenID)] (first literal; the second is the amount handed to
    onNEP11Payment, which the model does not carry). *)
Lemma tie_transfer_accounting :
  let l := p_nns_Transfer_intlits in
  let r := step s2 (cx 1000 [A], Transfer (Some B) (dom 2)) in
  let q o := res (step (fst (fst r)) (cx 1000 [], o)) in
  (res r, [q (BalanceOf (Some A)); q (BalanceOf (Some B)); q TotalSupply], map notif_val (snd r))
  = (VBool true, [VInt (1 - nth 1 l 0); VInt (0 + nth 2 l 0); VInt 1],
     [VList [VInt 0; VBytes A; VBytes B; VInt (nth 0 p_nns_postTransfer_intlits 0); VBytes (dom 2)]])
  /\ length l = 3%nat /\ length p_nns_postTransfer_intlits = 2%nat.
Proof. repeat split; vm_compute; reflexivity. Qed.

(** updateBalance: [if balance == 0 { storage.Delete(..) }] (first literal):
    the balance key goes when the balance reaches that value. *)
Lemma tie_update_balance_delete :
  let l := p_nns_updateBalance_intlits in
  let st b := set_bal ninit {[A := b]} ∅ in
  (balances (update_balance hid (st (nth 0 l 0 + 1)) (dom 2) (Some A) (-1)) !! A,
   balances (update_balance hid (st (nth 0 l 0 + 2)) (dom 2) (Some A) (-1)) !! A)
  = (None, Some (nth 0 l 0 + 1)) /\ length l = 2%nat.
Proof. split; vm_compute; reflexivity. Qed.

(** NameState.checkAdmin: [if len(n.Owner) == 0 { checkCommittee() }]: an owner
    of that length is the committee's business, a longer one is not a script
    hash. *)
Lemma tie_check_admin_committee_owned :
  let l := p_nns_NameState_checkAdmin_intlits in
  let ns n := mkNS (Some (repeat 1%N (Z.to_nat n))) (dom 1) 5000 None in
  [halts (check_admin (cx 1000 [COM]) (ns (nth 0 l 0)));
   halts (check_admin (cx 1000 []) (ns (nth 0 l 0)));
   halts (check_admin (cx 1000 [COM]) (ns (nth 0 l 0 + 1)))]
  = [true; false; false] /\ length l = 1%nat.
Proof. split; vm_compute; reflexivity. Qed.

(** getParentConflictingRecord: [ind > 0 && ind+len(suffix) == len(r.Name)]
    (third literal): a record name that is [name] after [k] more bytes
    conflicts iff [k > 0]. *)
Lemma tie_parent_conflict_index :
  let l := p_nns_getParentConflictingRecord_intlits in
  let r k := (repeat 113%N (Z.to_nat k) ++ dom 2)%list in
  (proper_suffix (dom 2) (r (nth 2 l 0)), proper_suffix (dom 2) (r (nth 2 l 0 + 1))) = (false, true)
  /\ length l = 3%nat.
Proof. split; vm_compute; reflexivity. Qed.

(** getFragmentedNameState: [parentExpired(ctx, 1, fragments)] (second literal):
    the model's definition with the extracted index in the literal's place. *)
Lemma tie_get_frag_ns_first c s tokenID frags :
  get_frag_ns hid c s tokenID frags
  = (ns <-! get_ns_with_key c s (hid tokenID);
     let frags := match frags with [] => split_dot tokenID | _ => frags end in
     if parent_expired hid c s (Z.to_nat (nth 1 p_nns_getFragmentedNameState_intlits 0)) frags
     then Fault else Halt ns).
Proof. reflexivity. Qed.

(* ------------------------------------------------------------------ *)
(** * Records *)

Definition byte_range : list Z := map Z.of_nat (seq 0 256).

(** checkRecord: [switch typ { case recordtype.A: .. CNAME .. TXT .. AAAA ..
    default: panic("unsupported record type") }]: the type codes (of one byte)
    with which "abc.abc" accepts a record. *)
Lemma tie_record_types_accepted :
  List.filter (fun t => halts (exec (cx 2000 [A]) s2 (AddRecord (dom 2) t [120%N]))) byte_range
  = [p_recordtype_A; p_recordtype_CNAME; p_recordtype_TXT; p_recordtype_AAAA].
Proof. vm_compute. reflexivity. Qed.

(** DeleteRecords: [if typ == recordtype.SOA { panic(..) }]: the only type code
    that cannot be deleted. *)
Lemma tie_soa_not_deletable :
  List.filter (fun t => negb (halts (exec (cx 2000 [A]) s2 (DeleteRecords (dom 2) t)))) byte_range
  = [p_recordtype_SOA].
Proof. vm_compute. reflexivity. Qed.

(** AddRecord: [if id > maxRecordID { panic(..) }] with id = the number of
    records of the type: maxRecordID + 1 TXT records can be added, not one
    more. *)
Definition add_recs (typ : Z) (k : Z) : list (nctx * nop) :=
  map (fun i => (cx 2000 [A], AddRecord (dom 2) typ [N.of_nat i])) (seq 0 (Z.to_nat k)).
Definition n_recs (typ : Z) (k : Z) : Z :=
  vlen (res (step (run s2 (add_recs typ k)) (cx 2000 [], GetRecords (dom 2) typ))).

Lemma tie_max_record_id :
  (n_recs p_recordtype_TXT (p_nns_maxRecordID + 1), n_recs p_recordtype_TXT (p_nns_maxRecordID + 2))
  = (p_nns_maxRecordID + 1, p_nns_maxRecordID + 1).
Proof. vm_compute. reflexivity. Qed.

(** AddRecord: [if typ == recordtype.CNAME && id != 0 { panic(..) }]: a CNAME
    record is accepted exactly when that many are there already; the other
    types are not so restricted. *)
Lemma tie_cname_single :
  let l := p_nns_AddRecord_intlits in
  (halts (exec (cx 2000 [A]) (run s2 (add_recs p_recordtype_CNAME (nth 0 l 0))) (AddRecord (dom 2) p_recordtype_CNAME [200%N])),
   halts (exec (cx 2000 [A]) (run s2 (add_recs p_recordtype_CNAME (nth 0 l 0 + 1))) (AddRecord (dom 2) p_recordtype_CNAME [200%N])))
  = (true, false)
  /\ map (fun t => n_recs t 2) [p_recordtype_A; p_recordtype_CNAME; p_recordtype_TXT; p_recordtype_AAAA]
     = [2; nth 0 l 0 + 1; 2; 2]
  /\ length l = 1%nat.
Proof. repeat split; vm_compute; reflexivity. Qed.

(* ------------------------------------------------------------------ *)
(** * The SOA record *)

(** The number written by [itoa], read back in base [b]. *)
Definition undec (b : Z) (ds : bytes) : Z := fold_left (fun a d => a * b + (Z.of_N d - 48)) ds 0.

(** putSoaRecord: [storeRecord(ctx, tokenId, name, recordtype.SOA, 0, data)]
    (last literal of the body): the key and the fields of the record that
    RegisterTLD / Register leave behind. *)
Lemma tie_soa_record_key :
  let l := p_nns_putSoaRecord_intlits in
  let z := nth 5 l 0 in
  map (fun kv : rkey * rstate => (fst kv, r_name (snd kv), r_type (snd kv), r_id (snd kv))) (map_to_list (records s2))
  = [((dom 2, dom 2, byte_of_z p_recordtype_SOA, byte_of_z z), dom 2, p_recordtype_SOA, z);
     ((dom 1, dom 1, byte_of_z p_recordtype_SOA, byte_of_z z), dom 1, p_recordtype_SOA, z)]
  /\ length l = 6%nat.
Proof. split; vm_compute; reflexivity. Qed.

(** putSoaRecord: [name + " " + email + " " + std.Itoa(runtime.GetTime(), 10) +
    " " + std.Itoa(refresh, 10) + " " + std.Itoa(retry, 10) + " " +
    std.Itoa(expire, 10) + " " + std.Itoa(ttl, 10)]: seven fields in this
    order, each number in the base written next to it (the first five
    literals).  The separator is the model's [SPACE] (not tied, see the
    header). *)
Lemma tie_soa_fields :
  let l := p_nns_putSoaRecord_intlits in
  map (fun kv : rkey * rstate =>
         let fs := split_nonempty (r_data (snd kv)) in
         (take 2 fs, zip_with undec (take 5 l) (drop 2 fs), length fs))
      (map_to_list (records s2))
  = [([dom 2; EM], [1000; 21; 22; 23; 24], 7%nat);
     ([dom 1; EM], [1000; 11; 12; 1013; 14], 7%nat)].
Proof. vm_compute. reflexivity. Qed.

(** updateSoaSerial: a state whose only record is the SOA record of "abc.abc"
    with [n] fields "A", "B", "C", .. *)
Definition fld (i : nat) : bytes := [N.of_nat (65 + i)].
Definition soa_st (n : Z) : nstate :=
  set_records ninit
    {[ (dom 2, dom 2, byte_of_z p_recordtype_SOA, 0%N) :=
         mkR (dom 2) p_recordtype_SOA (join_with SPACE (map fld (seq 0 (Z.to_nat n)))) 0 ]}.
Definition soa_fields (o : outcome nstate) : option (list (list bytes)) :=
  match o with
  | Halt s => Some (map (fun kv : rkey * rstate => split_nonempty (r_data (snd kv))) (map_to_list (records s)))
  | Fault => None
  end.

(** [if len(split) != 7 { panic("invalid soa record") }] (first literal) *)
Lemma tie_soa_serial_field_count :
  let l := p_nns_updateSoaSerial_intlits in
  map (fun n => halts (update_soa_serial hid any_name (cx 2000 []) (soa_st n) (dom 2)))
      [nth 0 l 0 - 1; nth 0 l 0; nth 0 l 0 + 1]
  = [false; true; false] /\ length l = 10%nat.
Proof. split; vm_compute; reflexivity. Qed.

(** [split[2] = std.Itoa(runtime.GetTime(), 10)] (second and third literals),
    [rec.Data = split[0] + " " + split[1] + " " + .. + split[6]] (the last
    seven literals, in this order). *)
Lemma tie_soa_serial_layout :
  let l := p_nns_updateSoaSerial_intlits in
  let fs := map fld (seq 0 (Z.to_nat (nth 0 l 0))) in
  let upd := <[Z.to_nat (nth 1 l 0) := itoa 2000]> fs in
  soa_fields (update_soa_serial hid any_name (cx 2000 []) (soa_st (nth 0 l 0)) (dom 2))
  = Some [map (fun i => nth (Z.to_nat i) upd []) (drop 3 l)]
  /\ undec (nth 2 l 0) (itoa 2000) = 2000.
Proof. split; vm_compute; reflexivity. Qed.

(** ... and through a whole step: AddRecord at time 2000 rewrites the serial
    (field [nth 1 l 0]) of the SOA record written at time 1000. *)
Lemma tie_soa_serial_run :
  let l := p_nns_updateSoaSerial_intlits in
  let s := run s2 [(cx 2000 [A], AddRecord (dom 2) p_recordtype_TXT [120%N])] in
  (fun r => zip_with undec (repeat (nth 2 l 0) 5) (drop 2 (split_nonempty (r_data r))))
    <$> (records s !! (dom 2, dom 2, byte_of_z p_recordtype_SOA, 0%N))
  = Some (<[Z.to_nat (nth 1 l 0 - 2) := 2000]> [1000; 21; 22; 23; 24]).
Proof. vm_compute. reflexivity. Qed.

(* ------------------------------------------------------------------ *)
(** * Resolve *)

(** Six names "dxx.abc", "exx.abc", .. of [A], each but the last with a CNAME
    record to the next, each with one TXT record [[i]]. *)
Definition cn (i : nat) : bytes := (N.of_nat (100 + i) :: [120; 120]%N) ++ DOT :: dom 1.
Definition chain_st : nstate :=
  run s1 (map (fun i => (cx 1000 [A], Register (cn i) (Some A) EM 1 2 500 4)) (seq 0 6) ++
          map (fun i => (cx 1000 [A], AddRecord (cn i) p_recordtype_CNAME (cn (S i)))) (seq 0 5) ++
          map (fun i => (cx 1000 [A], AddRecord (cn i) p_recordtype_TXT [N.of_nat i])) (seq 0 6)).
(** Resolve from the name that is [k] redirects away from the end of the chain. *)
Definition resolve_from (k : Z) : val :=
  res (step chain_st (cx 1000 [], Resolve (cn (5 - Z.to_nat k)) p_recordtype_TXT)).

(** Resolve: [resolve(ctx, []string{}, name, typ, 2)] (second literal of the
    body) with resolve's [redirect < 0 -> panic], [redirect-1]: that many
    redirects are followed and not one more. *)
Lemma tie_resolve_redirects :
  let l := p_nns_Resolve_intlits in
  (resolve_from (nth 1 l 0), resolve_from (nth 1 l 0 + 1))
  = (VList (map (fun i => VBytes [N.of_nat i]) (seq (5 - Z.to_nat (nth 1 l 0)) (S (Z.to_nat (nth 1 l 0))))), VFault)
  /\ length l = 2%nat.
Proof. split; vm_compute; reflexivity. Qed.

(** resolve: [if name[len(name)-1] == '.' { name = name[:len(name)-1] }]
    (fourth literal): one trailing byte of that value is dropped, another one
    is part of the name. *)
Lemma tie_resolve_trailing_dot :
  let l := p_nns_resolve_intlits in
  let q n := res (step chain_st (cx 1000 [], Resolve n p_recordtype_TXT)) in
  [q (cn 5); q (cn 5 ++ [byte_of_z (nth 3 l 0)]); q (cn 5 ++ [byte_of_z (nth 3 l 0 + 1)])]
  = [VList [VBytes [5%N]]; VList [VBytes [5%N]]; VFault]
  /\ length l = 6%nat.
Proof. split; vm_compute; reflexivity. Qed.

(** * The separator of the SOA record data: the " " literals of putSoaRecord (6, one between
      each pair of the 7 fields) and of updateSoaSerial (StringSplitNonEmpty(rec.Data, " ")
      and the 6 of the reassembly). *)
Lemma tie_SPACE :
  forallb (fun s => bytes_eqb (bytes_of_string s) [SPACE]) p_nns_putSoaRecord_strlits = true /\
  forallb (fun s => bytes_eqb (bytes_of_string s) [SPACE]) p_nns_updateSoaSerial_strlits = true /\
  (List.length p_nns_putSoaRecord_strlits, List.length p_nns_updateSoaSerial_strlits) = (6%nat, 7%nat).
Proof. split; [vm_compute; reflexivity|]. split; vm_compute; reflexivity. Qed.
