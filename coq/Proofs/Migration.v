(** Proofs/Migration.v — lemmas behind Props/C16.v. *)
From Verif Require Import Base.Prelude Base.IntCodec Model.MigStore Model.Migration Proofs.MigStore.
From Coq Require Import ZifyBool ZifyNat ZifyN.
Local Open Scope Z_scope.

(** * Outcome plumbing *)

Lemma obind_halt {A B} (o : outcome A) (f : A -> outcome B) b :
  obind o f = Halt b -> exists a, o = Halt a /\ f a = Halt b.
Proof. destruct o as [a|]; cbn; [eauto|discriminate]. Qed.

Lemma oassert_halt b u : oassert b = Halt u -> b = true.
Proof. destruct b; [reflexivity|discriminate]. Qed.

Lemma fold_left_fault {A} (step : outcome store -> A -> outcome store) l :
  (forall x, step Fault x = Fault) -> fold_left step l Fault = Fault.
Proof. intros H. induction l as [|x l IH]; cbn; [reflexivity|]. rewrite H. exact IH. Qed.

(** A loop whose iterations are "either fault or apply a pure step". *)
Lemma fold_outcome_pure {A} (step : outcome store -> A -> outcome store) (pure : store -> A -> store) l :
  (forall x, step Fault x = Fault) ->
  (forall s x s', step (Halt s) x = Halt s' -> s' = pure s x) ->
  forall s s', fold_left step l (Halt s) = Halt s' -> s' = fold_left pure l s.
Proof.
  intros Hf Hp. induction l as [|x l IH]; intros s s' H; cbn in *.
  - congruence.
  - destruct (step (Halt s) x) as [s1|] eqn:E.
    + rewrite (Hp _ _ _ E) in H. exact (IH _ _ H).
    + rewrite fold_left_fault in H by exact Hf. discriminate.
Qed.

Lemma fold_outcome_live {A} (step : outcome store -> A -> outcome store) (pure : store -> A -> store)
      (P : A -> Prop) l :
  (forall s x, P x -> step (Halt s) x = Halt (pure s x)) ->
  Forall P l ->
  forall s, fold_left step l (Halt s) = Halt (fold_left pure l s).
Proof.
  intros Hs. induction 1 as [|x l Hx Hl IH]; intros s; cbn; [reflexivity|].
  rewrite (Hs _ _ Hx). apply IH.
Qed.

(** * Balance: switchToAccPrefixes *)

Definition f_bal (k : bytes) : option bytes :=
  if (length k =? 20)%nat then Some (acc_prefix :: k) else None.
Definition g_bal (q : bytes) : option bytes :=
  match q with
  | a :: k => if (a =? acc_prefix)%N && (length k =? 20)%nat then Some k else None
  | [] => None
  end.

Lemma fg_bal k q : f_bal k = Some q <-> g_bal q = Some k.
Proof.
  unfold f_bal, g_bal. split.
  - destruct (Nat.eqb_spec (length k) 20) as [Hl|]; [|discriminate]. intros [= <-].
    rewrite N.eqb_refl. cbn. rewrite Hl. reflexivity.
  - destruct q as [|a k']; [discriminate|].
    destruct (N.eqb_spec a acc_prefix) as [->|]; [|discriminate]. cbn.
    destruct (Nat.eqb_spec (length k') 20) as [Hl|]; [|discriminate]. intros [= ->].
    rewrite Hl. reflexivity.
Qed.

Lemma f_img_bal k q : f_bal k = Some q -> f_bal q = None.
Proof.
  unfold f_bal. destruct (Nat.eqb_spec (length k) 20) as [Hl|]; [|discriminate]. intros [= <-].
  cbn [length]. rewrite Hl. reflexivity.
Qed.

Lemma acc_step_fault x : acc_step Fault x = Fault.
Proof. reflexivity. Qed.

Lemma acc_step_pure s x s' : acc_step (Halt s) x = Halt s' -> s' = rekey_pure f_bal s x.
Proof.
  unfold acc_step, rekey_pure, f_bal. cbn. destruct (length x.1 =? 20)%nat; [|congruence].
  intros H. apply obind_halt in H as (s1 & H1 & H2). apply sput_halt in H1 as [-> _].
  unfold sdel in H2. congruence.
Qed.

Lemma acc_step_live s x : kv_ok (fst x) (snd x) = true -> acc_step (Halt s) x = Halt (rekey_pure f_bal s x).
Proof.
  intros Hok. unfold acc_step, rekey_pure, f_bal. cbn.
  destruct (Nat.eqb_spec (length x.1) 20) as [Hl|]; [|reflexivity].
  rewrite sput_ok; [reflexivity|]. apply kv_ok_longer; [exact Hok|lia].
Qed.

(** The storage after switchToAccPrefixes, key by key. *)
Definition acc_prefixed (s : store) (q : bytes) : option bytes := rekeyed f_bal g_bal s q.

Lemma switch_to_acc_prefixes_spec s s' :
  switch_to_acc_prefixes s = Halt s' -> forall q : bytes, s' !! q = acc_prefixed s q.
Proof.
  intros H q. unfold switch_to_acc_prefixes in H.
  apply (fold_outcome_pure acc_step (rekey_pure f_bal)) in H; [|exact acc_step_fault|exact acc_step_pure].
  subst s'. apply rekey_snapshot; [exact fg_bal|exact f_img_bal].
Qed.

Lemma sfind_all_ok s : store_ok s -> Forall (fun x => kv_ok (fst x) (snd x) = true) (sfind [] s).
Proof.
  intros Hok. apply Forall_forall. intros [k v] Hin. apply elem_of_sfind in Hin as [Hv _]. exact (Hok _ _ Hv).
Qed.

Lemma switch_to_acc_prefixes_live s :
  store_ok s -> exists s', switch_to_acc_prefixes s = Halt s'.
Proof.
  intros Hok. eexists. unfold switch_to_acc_prefixes.
  apply (fold_outcome_live acc_step (rekey_pure f_bal) (fun x => kv_ok (fst x) (snd x) = true)).
  - intros st x Hx. apply acc_step_live. exact Hx.
  - apply sfind_all_ok. exact Hok.
Qed.

(** * Container: key migration *)

Definition f_cnr (k : bytes) : option bytes :=
  if (length k =? 32)%nat then Some (cnr_prefix :: k)
  else if (length k =? 57)%nat then Some (owner_prefix :: k) else None.
Definition g_cnr (q : bytes) : option bytes :=
  match q with
  | a :: k =>
      if (a =? cnr_prefix)%N && (length k =? 32)%nat then Some k
      else if (a =? owner_prefix)%N && (length k =? 57)%nat then Some k else None
  | [] => None
  end.

Lemma fg_cnr k q : f_cnr k = Some q <-> g_cnr q = Some k.
Proof.
  unfold f_cnr, g_cnr, cnr_prefix, owner_prefix. split.
  - destruct (Nat.eqb_spec (length k) 32) as [Hl|Hn].
    + intros [= <-]. cbn. rewrite Hl. reflexivity.
    + destruct (Nat.eqb_spec (length k) 57) as [Hl|]; [|discriminate]. intros [= <-]. cbn.
      rewrite Hl. reflexivity.
  - destruct q as [|a k']; [discriminate|].
    destruct (N.eqb_spec a 120) as [->|Ha]; cbn.
    + destruct (Nat.eqb_spec (length k') 32) as [Hl|Hn]; [intros [= ->]; rewrite Hl; reflexivity|discriminate].
    + destruct (N.eqb_spec a 111) as [->|]; [|discriminate]. cbn.
      destruct (Nat.eqb_spec (length k') 57) as [Hl|Hn]; [|discriminate]. intros [= ->].
      rewrite Hl. reflexivity.
Qed.

Lemma f_img_cnr k q : f_cnr k = Some q -> f_cnr q = None.
Proof.
  unfold f_cnr. destruct (Nat.eqb_spec (length k) 32) as [Hl|Hn].
  - intros [= <-]. cbn [length]. rewrite Hl. reflexivity.
  - destruct (Nat.eqb_spec (length k) 57) as [Hl|]; [|discriminate]. intros [= <-].
    cbn [length]. rewrite Hl. reflexivity.
Qed.

Lemma cnr_step_fault x : cnr_step Fault x = Fault.
Proof. reflexivity. Qed.

Lemma cnr_step_pure s x s' : cnr_step (Halt s) x = Halt s' -> s' = rekey_pure f_cnr s x.
Proof.
  unfold cnr_step, rekey_pure, f_cnr, sdel. cbn. intros H.
  destruct (Nat.eqb_spec (length x.1) 32) as [Hl|Hn].
  - rewrite Hl in H. cbn in H. apply obind_halt in H as (s1 & H1 & H2).
    apply sput_halt in H1 as [-> _]. injection H2 as <-.
    rewrite delete_insert_ne; [reflexivity|]. intros E. apply (f_equal length) in E. cbn in E. lia.
  - cbn in H. destruct (Nat.eqb_spec (length x.1) 57) as [Hl|Hn']; [|congruence].
    apply sput_halt in H as [-> _].
    rewrite delete_insert_ne; [reflexivity|]. intros E. apply (f_equal length) in E. cbn in E. lia.
Qed.

Lemma cnr_step_live s x : kv_ok (fst x) (snd x) = true -> cnr_step (Halt s) x = Halt (rekey_pure f_cnr s x).
Proof.
  intros Hok. unfold cnr_step, rekey_pure, f_cnr, sdel. cbn.
  destruct (Nat.eqb_spec (length x.1) 32) as [Hl|Hn].
  - rewrite sput_ok by (apply kv_ok_longer; [exact Hok|lia]). cbn. rewrite Hl. cbn.
    rewrite delete_insert_ne; [reflexivity|]. intros E. apply (f_equal length) in E. cbn in E. lia.
  - cbn. destruct (Nat.eqb_spec (length x.1) 57) as [Hl|Hn']; [|reflexivity].
    rewrite sput_ok by (apply kv_ok_longer; [exact Hok|lia]).
    rewrite delete_insert_ne; [reflexivity|]. intros E. apply (f_equal length) in E. cbn in E. lia.
Qed.

Definition cnr_migrated (s : store) (q : bytes) : option bytes := rekeyed f_cnr g_cnr s q.

Lemma migrate_container_keys_spec s s' :
  migrate_container_keys s = Halt s' -> forall q : bytes, s' !! q = cnr_migrated s q.
Proof.
  intros H q. unfold migrate_container_keys in H.
  apply (fold_outcome_pure cnr_step (rekey_pure f_cnr)) in H; [|exact cnr_step_fault|exact cnr_step_pure].
  subst s'. apply rekey_snapshot; [exact fg_cnr|exact f_img_cnr].
Qed.

Lemma migrate_container_keys_live s :
  store_ok s -> exists s', migrate_container_keys s = Halt s'.
Proof.
  intros Hok. eexists. unfold migrate_container_keys.
  apply (fold_outcome_live cnr_step (rekey_pure f_cnr) (fun x => kv_ok (fst x) (snd x) = true)).
  - intros st x Hx. apply cnr_step_live. exact Hx.
  - apply sfind_all_ok. exact Hok.
Qed.

(** * switchToNotary *)

Lemma fold_sdel_lookup (l : list bytes) (s : store) q :
  fold_left (fun acc k => sdel k acc) l s !! q = if bool_decide (q ∈ l) then None else s !! q.
Proof.
  revert s. induction l as [|k l IH]; intros s; cbn [fold_left].
  - rewrite bool_decide_eq_false_2 by (intros H; inversion H). reflexivity.
  - rewrite IH. unfold sdel. destruct (decide (q = k)) as [->|Hne].
    + rewrite lookup_delete. rewrite (bool_decide_eq_true_2 (k ∈ k :: l)) by left.
      destruct (bool_decide (k ∈ l)); reflexivity.
    + rewrite lookup_delete_ne by congruence.
      destruct (bool_decide (q ∈ l)) eqn:E.
      * apply bool_decide_eq_true_1 in E. rewrite bool_decide_eq_true_2 by (right; exact E). reflexivity.
      * apply bool_decide_eq_false_1 in E.
        rewrite bool_decide_eq_false_2 by (intros [H|H]%elem_of_cons; [congruence|contradiction]). reflexivity.
Qed.

Lemma try_purge_votes_spec h s ok s1 :
  try_purge_votes h s = Halt (ok, s1) ->
  (ok = false /\ s1 = s) \/ (ok = true /\ s1 = delete k_ballots s).
Proof.
  unfold try_purge_votes. intros H.
  apply obind_halt in H as (cands & _ & H). apply obind_halt in H as (p & _ & H).
  destruct p; injection H as <- <-; [left|right]; auto.
Qed.

(** Everything switchToNotary can do to the storage. *)
Lemma switch_to_notary_spec purge extra h s s' :
  switch_to_notary purge extra h s = Halt s' ->
  (s !! k_notary = None /\ s' = s) \/
  (exists s1, is_Some (s !! k_notary) /\ (s1 = s \/ s1 = delete k_ballots s) /\
              s' = fold_left (fun acc k => sdel k acc) (k_notary :: extra) s1).
Proof.
  unfold switch_to_notary, sget. destruct (s !! k_notary) as [nv|] eqn:En.
  - intros H. right. apply obind_halt in H as (b & _ & H). apply obind_halt in H as (s1 & H1 & H2).
    injection H2 as <-. exists s1. split; [eauto|]. split; [|reflexivity].
    destruct (purge && b); [|injection H1 as <-; auto].
    apply obind_halt in H1 as ([ok s2] & Hp & H1). cbn in H1.
    destruct ok; [|discriminate]. injection H1 as <-.
    apply try_purge_votes_spec in Hp as [[? _]|[_ ->]]; [discriminate|auto].
  - intros [= <-]. auto.
Qed.

Lemma switch_to_notary_frame purge extra h s s' q :
  switch_to_notary purge extra h s = Halt s' ->
  q ∉ k_notary :: k_ballots :: extra -> s' !! q = s !! q.
Proof.
  intros H Hq. apply switch_to_notary_spec in H as [[_ ->]|(s1 & _ & Hs1 & ->)]; [reflexivity|].
  rewrite fold_sdel_lookup. rewrite bool_decide_eq_false_2.
  - destruct Hs1 as [->| ->]; [reflexivity|]. apply lookup_delete_ne. intros <-. apply Hq. right. left.
  - intros [->|Hin]%elem_of_cons; apply Hq; [left|right; right; exact Hin].
Qed.

Lemma switch_to_notary_only_deletes purge extra h s s' q :
  switch_to_notary purge extra h s = Halt s' -> s' !! q = None \/ s' !! q = s !! q.
Proof.
  intros H. apply switch_to_notary_spec in H as [[_ ->]|(s1 & _ & Hs1 & ->)]; [auto|].
  rewrite fold_sdel_lookup. destruct (bool_decide _); [auto|].
  destruct Hs1 as [->| ->]; [auto|]. destruct (decide (q = k_ballots)) as [->|Hne].
  - left. apply lookup_delete.
  - right. apply lookup_delete_ne. congruence.
Qed.

Lemma switch_to_notary_done purge extra h s s' :
  switch_to_notary purge extra h s = Halt s' -> s' !! k_notary = None.
Proof.
  intros H. apply switch_to_notary_spec in H as [[Hn ->]|(s1 & _ & _ & ->)]; [exact Hn|].
  rewrite fold_sdel_lookup. rewrite bool_decide_eq_true_2 by left. reflexivity.
Qed.

(** ** Pending votes *)

(** A ballot younger than [blockDiff] is met by the scan of TryPurgeVotes
    before anything it cannot read. *)
Definition pending_votes (h : Z) (s : store) : Prop :=
  exists nv cands,
    s !! k_notary = Some nv /\ bytes_to_bool nv = Halt true /\
    get_ballots s = Halt cands /\ any_pending h cands = Halt true.

Lemma switch_to_notary_pending extra h s :
  pending_votes h s -> switch_to_notary true extra h s = Fault.
Proof.
  intros (nv & cands & Hn & Hb & Hg & Hp). unfold switch_to_notary, sget. rewrite Hn. cbn.
  rewrite Hb. cbn. unfold try_purge_votes. rewrite Hg. cbn. rewrite Hp. reflexivity.
Qed.

(** Readable sufficient condition: every ballot is a struct whose third
    field is an integer height within [h - 2^255, h + 2^255), and one of
    them is at most [blockDiff] blocks old. *)
Definition ballot_ok (h : Z) (c : item) : Prop :=
  exists ht, ballot_height c = Halt ht /\ int_ok (h - ht) = true.
Definition ballot_young (h : Z) (c : item) : Prop :=
  exists ht, ballot_height c = Halt ht /\ h - ht <= block_diff.

Lemma any_pending_young h cands :
  Forall (ballot_ok h) cands -> Exists (ballot_young h) cands -> any_pending h cands = Halt true.
Proof.
  induction 1 as [|c cands (ht & Hh & Hok) Hall IH]; intros Hex; [inversion Hex|].
  cbn. rewrite Hh. cbn. unfold vm_sub. rewrite Hok. cbn.
  destruct (Z.leb_spec (h - ht) block_diff) as [|Hgt]; [reflexivity|].
  apply IH. apply Exists_cons in Hex as [(ht' & Hh' & Hy)|Hex]; [|exact Hex].
  rewrite Hh in Hh'. injection Hh' as <-. lia.
Qed.

(** * CheckVersion and the gate *)

Lemma check_version_halt prevN verN v u : check_version prevN verN v = Halt u -> prevN <= v < verN.
Proof.
  unfold check_version. destruct (Z.ltb_spec v prevN); [discriminate|].
  destruct (Z.geb_spec v verN); [discriminate|]. lia.
Qed.

Lemma check_version_ok prevN verN v : prevN <= v < verN -> check_version prevN verN v = Halt tt.
Proof.
  intros H. unfold check_version. destruct (Z.ltb_spec v prevN); [lia|].
  destruct (Z.geb_spec v verN); [lia|reflexivity].
Qed.

Section Gate.
  Context (msaddr : Z -> list bytes -> bytes) (stdacc : bytes -> option bytes) (h160 : bytes -> bytes).
  Context (prevN verN : Z).

  Ltac version_head H :=
    let v := fresh "v" in let Hv := fresh "Hv" in let Hc := fresh "Hc" in let u := fresh "u" in
    apply obind_halt in H as (v & Hv & H); apply obind_halt in H as (u & Hc & H);
    exists v; split; [exact Hv|exact (check_version_halt _ _ _ _ Hc)].

  (** [_deploy(data, true)] of every contract starts with
      [CheckVersion(args[len(args)-1].(int))]. *)
  Lemma deploy_update_version c e args s s' :
    deploy_update stdacc h160 prevN verN c e args s = Halt s' ->
    exists v, args_version args = Halt v /\ prevN <= v < verN.
  Proof.
    destruct c; cbn [deploy_update]; intros H.
    - apply obind_halt in H as (r & H & _). unfold deploy_alphabet in H. version_head H.
    - unfold deploy_audit in H. version_head H.
    - unfold deploy_balance in H. version_head H.
    - unfold deploy_container in H. version_head H.
    - unfold deploy_trivial in H. version_head H.
    - unfold deploy_neofsid in H. version_head H.
    - unfold deploy_netmap in H. version_head H.
    - unfold deploy_nns in H. version_head H.
    - unfold deploy_trivial in H. version_head H.
    - unfold deploy_trivial in H. version_head H.
    - unfold deploy_reputation in H. version_head H.
  Qed.

  Lemma append_version_last data vold args :
    append_version data vold = Halt args -> args_version args = Halt vold.
  Proof.
    unfold append_version, args_version. destruct data; try discriminate; intros [= <-];
      try rewrite last_snoc; reflexivity.
  Qed.

  (** The multisignature account demanded by [Update] is an m-of-n account
      of the committee (of the designated NeoFS Alphabet for neofs and
      processing) with m = n/2 + 1, a strict majority. *)
  Definition gate_keys (c : contract) (e : env) : list bytes :=
    match c with CNeoFS | CProcessing => e_designated e (e_height e + 1) | _ => e_committee e end.

  Lemma nns_threshold l : 1 <= l -> l - (l - 1) / 2 = l / 2 + 1.
  Proof.
    intros Hl. pose proof (Z.div_mod l 2 ltac:(lia)). pose proof (Z.mod_pos_bound l 2 ltac:(lia)).
    pose proof (Z.div_mod (l - 1) 2 ltac:(lia)). pose proof (Z.mod_pos_bound (l - 1) 2 ltac:(lia)). lia.
  Qed.

  Lemma gate_address_majority c e a :
    gate_address msaddr c e = Halt a ->
    let keys := gate_keys c e in
    let n := Z.of_nat (length keys) in
    let m := n / 2 + 1 in
    a = msaddr m keys /\ 1 <= m <= n /\ n < 2 * m.
  Proof.
    intros H keys n m.
    assert (Hmaj : n < 2 * m).
    { unfold m. pose proof (Z.div_mod n 2 ltac:(lia)). pose proof (Z.mod_pos_bound n 2 ltac:(lia)). lia. }
    assert (Hgen : forall ks, create_multisig msaddr (Z.of_nat (length ks) / 2 + 1) ks = Halt a ->
                              a = msaddr (Z.of_nat (length ks) / 2 + 1) ks /\
                              1 <= Z.of_nat (length ks) / 2 + 1 <= Z.of_nat (length ks)).
    { intros ks. unfold create_multisig. destruct (_ && _) eqn:E; [|discriminate]. intros [= <-]. split; [reflexivity|lia]. }
    destruct c; cbn [gate_address gate_keys] in *; unfold multiaddress in H;
      try (apply Hgen in H as [-> ?]; auto).
    (* NNS *)
    unfold keys, n, m in *. cbn [gate_keys] in *.
    assert (Hl : 1 <= Z.of_nat (length (e_committee e))).
    { unfold create_multisig in H. destruct (_ && _) eqn:E; [|discriminate].
      pose proof (Z.div_mod (Z.of_nat (length (e_committee e)) - 1) 2 ltac:(lia)).
      pose proof (Z.mod_pos_bound (Z.of_nat (length (e_committee e)) - 1) 2 ltac:(lia)). lia. }
    rewrite (nns_threshold _ Hl) in H. apply Hgen in H as [-> ?]. auto.
  Qed.

  (** C16_gate, parametric in the two constants. *)
  Lemma update_halt_gate c e ok data st st' :
    update msaddr stdacc h160 prevN verN c e ok data st = Halt st' ->
    (exists a, gate_address msaddr c e = Halt a /\ witnessed e a = true) /\
    prevN <= c_version st < verN /\ ok = true /\ c_version st' = verN.
  Proof.
    unfold update. intros H.
    apply obind_halt in H as (u & Hg & H). apply obind_halt in H as (args & Ha & H).
    apply obind_halt in H as (u2 & Hok & H). apply obind_halt in H as (s' & Hd & H).
    injection H as <-. cbn.
    unfold gate in Hg. apply obind_halt in Hg as (a & Hga & Hw). apply oassert_halt in Hw.
    apply oassert_halt in Hok. apply deploy_update_version in Hd as (v & Hv & Hr).
    rewrite (append_version_last _ _ _ Ha) in Hv. injection Hv as <-. eauto 10.
  Qed.

  Lemma update_tx_spec c e ok data st st' b :
    update_tx msaddr stdacc h160 prevN verN c e ok data st = (st', b) ->
    (b = false -> st' = st) /\
    (b = true ->
       (exists a, gate_address msaddr c e = Halt a /\ witnessed e a = true) /\
       prevN <= c_version st < verN /\ c_version st' = verN).
  Proof.
    unfold update_tx, atomic.
    destruct (update msaddr stdacc h160 prevN verN c e ok data st) as [st1|] eqn:E; intros [= <- <-].
    - split; [discriminate|]. intros _. apply update_halt_gate in E. tauto.
    - split; [reflexivity|discriminate].
  Qed.

  (** Conversely, for the contracts whose [_deploy] does nothing on update
      (neofs, processing, proxy) the gate is all there is. *)
  Lemma update_trivial_live c e data st a args :
    c = CNeoFS \/ c = CProcessing \/ c = CProxy ->
    gate_address msaddr c e = Halt a -> witnessed e a = true ->
    append_version data (c_version st) = Halt args ->
    prevN <= c_version st < verN ->
    update msaddr stdacc h160 prevN verN c e true data st = Halt (mkC (c_store st) verN).
  Proof.
    intros Hc Hg Hw Ha Hr. unfold update, gate. rewrite Hg. cbn. rewrite Hw. cbn. rewrite Ha. cbn.
    assert (Hd : deploy_trivial prevN verN e args (c_store st) = Halt (c_store st)).
    { unfold deploy_trivial. rewrite (append_version_last _ _ _ Ha). cbn.
      rewrite check_version_ok by exact Hr. reflexivity. }
    destruct Hc as [->|[->| ->]]; cbn [deploy_update]; rewrite Hd; reflexivity.
  Qed.
End Gate.

(** * Per-contract consequences *)

Section Preserve.
  Context (stdacc : bytes -> option bytes) (h160 : bytes -> bytes).
  Context (prevN verN : Z).

  Lemma switch_to_notary_nopurge extra h s s' :
    switch_to_notary false extra h s = Halt s' ->
    s' = s \/ s' = fold_left (fun acc k => sdel k acc) (k_notary :: extra) s.
  Proof.
    unfold switch_to_notary, sget. destruct (s !! k_notary) as [nv|]; [|intros [= <-]; auto].
    intros H. apply obind_halt in H as (b & _ & H). cbn in H. injection H as <-. auto.
  Qed.

  (** ** Balance *)

  Definition bal_legacy_keys : list bytes := [k_notary; k_ballots; k_netmapSH; k_containerSH].

  Lemma bal_legacy_keys_len q : q ∈ bal_legacy_keys -> (length q < 20)%nat.
  Proof.
    unfold bal_legacy_keys. rewrite !elem_of_cons, elem_of_nil.
    intros [->|[->|[->|[->|[]]]]]; vm_compute; lia.
  Qed.

  Lemma deploy_balance_spec e args s s' :
    deploy_balance prevN verN e args s = Halt s' ->
    exists v s1, args_version args = Halt v /\ prevN <= v < verN /\
      (if v <? 17000 then switch_to_notary true [k_netmapSH; k_containerSH] (e_height e) s = Halt s1 else s1 = s) /\
      (if v <? 20000 then switch_to_acc_prefixes s1 = Halt s' else s' = s1).
  Proof.
    unfold deploy_balance. intros H.
    apply obind_halt in H as (v & Hv & H). apply obind_halt in H as (u & Hc & H).
    apply check_version_halt in Hc. apply obind_halt in H as (s1 & H1 & H2).
    exists v, s1. split; [exact Hv|]. split; [exact Hc|]. split.
    - destruct (v <? 17000); [exact H1|congruence].
    - destruct (v <? 20000); [exact H2|congruence].
  Qed.

  (** The whole storage after a Balance upgrade from [v < 0.20], key by key. *)
  Lemma deploy_balance_lookup e args s s' v :
    deploy_balance prevN verN e args s = Halt s' -> args_version args = Halt v -> v < 20000 ->
    forall q : bytes, (length q = 20)%nat \/ (length q = 21)%nat \/ q ∉ bal_legacy_keys ->
      s' !! q = acc_prefixed s q.
  Proof.
    intros H Hv Hlt q Hq. apply deploy_balance_spec in H as (v' & s1 & Hv' & _ & H1 & H2).
    rewrite Hv in Hv'. injection Hv' as <-.
    rewrite (proj2 (Z.ltb_lt v 20000) Hlt) in H2.
    rewrite (switch_to_acc_prefixes_spec _ _ H2).
    assert (Hfr : forall k : bytes, (length k = 20)%nat \/ (length k = 21)%nat \/ k ∉ bal_legacy_keys -> s1 !! k = s !! k).
    { intros k Hk. destruct (v <? 17000); [|congruence].
      apply (switch_to_notary_frame _ _ _ _ _ _ H1). intros Hin.
      assert (Hin' : k ∈ bal_legacy_keys) by exact Hin.
      pose proof (bal_legacy_keys_len _ Hin'). destruct Hk as [?|[?|?]]; [lia|lia|contradiction]. }
    unfold acc_prefixed, rekeyed. destruct (f_bal q) eqn:Ef; [reflexivity|].
    destruct (g_bal q) as [k|] eqn:Eg.
    - apply fg_bal in Eg. unfold f_bal in Eg.
      destruct (Nat.eqb_spec (length k) 20) as [Hl|]; [|discriminate]. injection Eg as <-.
      rewrite (Hfr k) by auto. rewrite (Hfr (acc_prefix :: k)) by (right; left; cbn; lia). reflexivity.
    - apply Hfr. exact Hq.
  Qed.

  Lemma acc_prefixed_account s (a : bytes) :
    (length a = 20)%nat ->
    acc_prefixed s (acc_prefix :: a) = match s !! a with Some v => Some v | None => s !! (acc_prefix :: a) end.
  Proof.
    intros Hl. unfold acc_prefixed, rekeyed, f_bal, g_bal. cbn [length]. rewrite Hl. cbn.
    reflexivity.
  Qed.

  Lemma acc_prefixed_old s (a : bytes) : (length a = 20)%nat -> acc_prefixed s a = None.
  Proof. intros Hl. unfold acc_prefixed, rekeyed, f_bal. rewrite Hl. reflexivity. Qed.

  Lemma acc_prefixed_other s (q : bytes) :
    (length q <> 20)%nat -> g_bal q = None -> acc_prefixed s q = s !! q.
  Proof.
    intros Hl Hg. unfold acc_prefixed, rekeyed, f_bal.
    destruct (Nat.eqb_spec (length q) 20); [contradiction|]. rewrite Hg. reflexivity.
  Qed.

  (** ** Container *)

  Definition cnr_legacy_keys : list bytes := [k_notary; k_ballots].

  Lemma deploy_container_spec e args s s' :
    deploy_container prevN verN e args s = Halt s' ->
    exists v s1, args_version args = Halt v /\ prevN <= v < verN /\
      migrate_container_keys s = Halt s1 /\
      (if v <? 17000 then switch_to_notary true [] (e_height e) s1 = Halt s' else s' = s1).
  Proof.
    unfold deploy_container. intros H.
    apply obind_halt in H as (v & Hv & H). apply obind_halt in H as (u & Hc & H).
    apply check_version_halt in Hc. apply obind_halt in H as (s1 & H1 & H2).
    exists v, s1. repeat split; try assumption; try lia.
    destruct (v <? 17000); [exact H2|congruence].
  Qed.

  Lemma deploy_container_lookup e args s s' :
    deploy_container prevN verN e args s = Halt s' ->
    forall q : bytes, q ∉ cnr_legacy_keys -> s' !! q = cnr_migrated s q.
  Proof.
    intros H q Hq. apply deploy_container_spec in H as (v & s1 & _ & _ & H1 & H2).
    rewrite <- (migrate_container_keys_spec _ _ H1).
    destruct (v <? 17000); [|congruence].
    apply (switch_to_notary_frame _ _ _ _ _ _ H2). exact Hq.
  Qed.

  Lemma cnr_migrated_container s (cid : bytes) :
    (length cid = 32)%nat ->
    cnr_migrated s (cnr_prefix :: cid) = match s !! cid with Some v => Some v | None => s !! (cnr_prefix :: cid) end.
  Proof.
    intros Hl. unfold cnr_migrated, rekeyed, f_cnr, g_cnr. cbn [length]. rewrite Hl. cbn. reflexivity.
  Qed.

  Lemma cnr_migrated_owner s (k : bytes) :
    (length k = 57)%nat ->
    cnr_migrated s (owner_prefix :: k) = match s !! k with Some v => Some v | None => s !! (owner_prefix :: k) end.
  Proof.
    intros Hl. unfold cnr_migrated, rekeyed, f_cnr, g_cnr. cbn [length]. rewrite Hl. cbn. reflexivity.
  Qed.

  Lemma cnr_migrated_old s (q : bytes) : (length q = 32)%nat \/ (length q = 57)%nat -> cnr_migrated s q = None.
  Proof. intros [Hl|Hl]; unfold cnr_migrated, rekeyed, f_cnr; rewrite Hl; reflexivity. Qed.

  Lemma cnr_migrated_other s (q : bytes) :
    (length q <> 32)%nat -> (length q <> 57)%nat -> g_cnr q = None -> cnr_migrated s q = s !! q.
  Proof.
    intros H1 H2 Hg. unfold cnr_migrated, rekeyed, f_cnr.
    destruct (Nat.eqb_spec (length q) 32); [contradiction|].
    destruct (Nat.eqb_spec (length q) 57); [contradiction|]. rewrite Hg. reflexivity.
  Qed.

  (** ** Contracts whose [_deploy] only checks the version, and versions
      from which a contract has nothing to migrate *)

  Definition nothing_to_migrate (c : contract) (v : Z) : Prop :=
    match c with
    | CNeoFS | CProcessing | CProxy => True
    | CAlphabet | CAudit | CReputation => 17000 <= v
    | CNNS => 18000 <= v
    | CNeoFSID | CNetmap => 19000 <= v
    | CBalance => 20000 <= v
    | CContainer => False          (* the key migration is not version-gated *)
    end.

  Lemma deploy_update_noop c e args s s' v :
    deploy_update stdacc h160 prevN verN c e args s = Halt s' ->
    args_version args = Halt v -> nothing_to_migrate c v -> s' = s.
  Proof.
    intros H Hv Hn. destruct c; cbn [deploy_update nothing_to_migrate] in *.
    - apply obind_halt in H as ([s1 trs] & H & H2). injection H2 as <-. unfold deploy_alphabet in H.
      rewrite Hv in H. cbn in H. apply obind_halt in H as (u & _ & H).
      destruct (Z.ltb_spec v 17000); [lia|]. congruence.
    - unfold deploy_audit in H. rewrite Hv in H. cbn in H. apply obind_halt in H as (u & _ & H).
      destruct (Z.ltb_spec v 17000); [lia|]. congruence.
    - unfold deploy_balance in H. rewrite Hv in H. cbn in H. apply obind_halt in H as (u & _ & H).
      destruct (Z.ltb_spec v 17000); [lia|]. cbn in H. destruct (Z.ltb_spec v 20000); [lia|]. congruence.
    - contradiction.
    - unfold deploy_trivial in H. rewrite Hv in H. cbn in H. apply obind_halt in H as (u & _ & H). congruence.
    - unfold deploy_neofsid in H. rewrite Hv in H. cbn in H. apply obind_halt in H as (u & _ & H).
      destruct (Z.ltb_spec v 17000); [lia|]. cbn in H. destruct (Z.ltb_spec v 19000); [lia|]. congruence.
    - unfold deploy_netmap in H. rewrite Hv in H. cbn in H. apply obind_halt in H as (u & _ & H).
      destruct (Z.ltb_spec v 16000); [lia|]. cbn in H. destruct (Z.ltb_spec v 17000); [lia|]. cbn in H.
      destruct (Z.ltb_spec v 19000); [lia|]. congruence.
    - unfold deploy_nns in H. rewrite Hv in H. cbn in H. apply obind_halt in H as (u & _ & H).
      destruct (Z.geb_spec v 18000); [|lia]. congruence.
    - unfold deploy_trivial in H. rewrite Hv in H. cbn in H. apply obind_halt in H as (u & _ & H). congruence.
    - unfold deploy_trivial in H. rewrite Hv in H. cbn in H. apply obind_halt in H as (u & _ & H). congruence.
    - unfold deploy_reputation in H. rewrite Hv in H. cbn in H. apply obind_halt in H as (u & _ & H).
      destruct (Z.ltb_spec v 17000); [lia|]. congruence.
  Qed.

  (** ** NeoFSID, Audit, Reputation: only the listed legacy keys disappear *)

  Lemma deploy_neofsid_frame e args s s' q :
    deploy_neofsid prevN verN e args s = Halt s' ->
    q ∉ [k_notary; k_ballots; k_containerSH; k_netmapSH] -> s' !! q = s !! q.
  Proof.
    unfold deploy_neofsid. intros H Hq.
    apply obind_halt in H as (v & _ & H). apply obind_halt in H as (u & _ & H).
    apply obind_halt in H as (s1 & H1 & H2).
    assert (Hs1 : s1 !! q = s !! q).
    { destruct (v <? 17000); [|congruence]. apply (switch_to_notary_frame _ _ _ _ _ _ H1).
      intros Hin. apply Hq. set_solver. }
    destruct (v <? 19000); injection H2 as <-; [|exact Hs1].
    unfold sdel. rewrite lookup_delete_ne; [exact Hs1|]. intros <-. apply Hq. set_solver.
  Qed.

  Lemma deploy_audit_frame e args s s' q :
    deploy_audit prevN verN e args s = Halt s' ->
    q ∉ [k_notary; k_netmapSH] -> s' !! q = s !! q.
  Proof.
    unfold deploy_audit. intros H Hq.
    apply obind_halt in H as (v & _ & H). apply obind_halt in H as (u & _ & H).
    destruct (v <? 17000); [|congruence].
    apply switch_to_notary_nopurge in H as [->| ->]; [reflexivity|].
    rewrite fold_sdel_lookup. rewrite bool_decide_eq_false_2 by exact Hq. reflexivity.
  Qed.

  Lemma deploy_reputation_frame e args s s' q :
    deploy_reputation prevN verN e args s = Halt s' ->
    q ∉ [k_notary; k_ballots] -> s' !! q = s !! q.
  Proof.
    unfold deploy_reputation. intros H Hq.
    apply obind_halt in H as (v & _ & H). apply obind_halt in H as (u & _ & H).
    destruct (v <? 17000); [|congruence].
    apply (switch_to_notary_frame _ _ _ _ _ _ H). exact Hq.
  Qed.
End Preserve.

(** * Netmap *)

Section Netmap.
  Context (prevN verN : Z).

  Lemma snapshot_key_len i key : snapshot_key i = Halt key -> length key = 10%nat.
  Proof.
    unfold snapshot_key. destruct (_ && _); [|discriminate]. intros [= <-].
    reflexivity.
  Qed.

  Lemma upgrade_snapshots_frame n : forall i s s' (q : bytes),
    upgrade_snapshots n i s = Halt s' -> length q <> 10%nat -> s' !! q = s !! q.
  Proof.
    induction n as [|n IH]; intros i s s' q H Hq; cbn in H; [congruence|].
    apply obind_halt in H as (key & Hk & H). apply obind_halt in H as (s1 & H1 & H2).
    rewrite (IH _ _ _ _ H2 Hq). apply snapshot_key_len in Hk.
    unfold sget in H1. destruct (s !! key) as [d|]; [|congruence].
    apply obind_halt in H1 as (nd & _ & H1). apply sput_halt in H1 as [-> _].
    apply lookup_insert_ne. intros <-. contradiction.
  Qed.

  Lemma cand_fold_frame l : forall s s' (q : bytes),
    fold_left cand_step l (Halt s) = Halt s' -> q ∉ map fst l -> s' !! q = s !! q.
  Proof.
    induction l as [|[k v] l IH]; intros s s' q H Hq; cbn [fold_left] in H; [congruence|].
    destruct (cand_step (Halt s) (k, v)) as [s1|] eqn:E.
    - rewrite (IH _ _ _ H) by (intros Hin; apply Hq; right; exact Hin).
      unfold cand_step in E. cbn in E. apply obind_halt in E as (nd & _ & E).
      apply sput_halt in E as [-> _]. apply lookup_insert_ne. intros <-. apply Hq. left.
    - rewrite fold_left_fault in H by reflexivity. discriminate.
  Qed.

  Lemma upgrade_candidates_frame s s' (q : bytes) :
    upgrade_candidates s = Halt s' -> is_prefix p_candidate q = false -> s' !! q = s !! q.
  Proof.
    unfold upgrade_candidates. intros H Hq. apply (cand_fold_frame _ _ _ _ H).
    intros Hin. apply elem_of_list_fmap in Hin as ([k v] & -> & Hin). apply elem_of_sfind in Hin as [_ Hp].
    cbn [fst] in Hq. congruence.
  Qed.

  Lemma move_subscriber_spec src idx s s' :
    move_subscriber src idx s = Halt s' ->
    exists h, s !! src = Some h /\ s' = delete src (<[p_subscribers ++ [idx] ++ h := []]> s).
  Proof.
    unfold move_subscriber, sget. destruct (s !! src) as [h|]; [|discriminate]. intros H.
    apply obind_halt in H as (s1 & H1 & H2). apply sput_halt in H1 as [-> _]. injection H2 as <-.
    eauto.
  Qed.

  (** Keys the Netmap upgrade may write or delete. *)
  Definition netmap_touched (q : bytes) : bool :=
    (length q =? 10)%nat || is_prefix p_candidate q || is_prefix p_subscribers q ||
    bool_decide (q ∈ [k_notary; k_ballots; k_innerring; k_balanceSH; k_containerSH]).

  Lemma deploy_netmap_spec e args s s' :
    deploy_netmap prevN verN e args s = Halt s' ->
    exists v s1 s2, args_version args = Halt v /\ prevN <= v < verN /\
      (if v <? 16000 then
         exists cnt s0, snapshot_count s = Halt cnt /\ upgrade_snapshots (Z.to_nat cnt) 0 s = Halt s0 /\
                        upgrade_candidates s0 = Halt s1
       else s1 = s) /\
      (if v <? 17000 then switch_to_notary true [k_innerring] (e_height e) s1 = Halt s2 else s2 = s1) /\
      (if v <? 19000 then
         exists s3, move_subscriber k_balanceSH 0%N s2 = Halt s3 /\ move_subscriber k_containerSH 1%N s3 = Halt s'
       else s' = s2).
  Proof.
    unfold deploy_netmap. intros H.
    apply obind_halt in H as (v & Hv & H). apply obind_halt in H as (u & Hc & H).
    apply check_version_halt in Hc. apply obind_halt in H as (s1 & H1 & H).
    apply obind_halt in H as (s2 & H2 & H3). exists v, s1, s2. split; [exact Hv|]. split; [exact Hc|].
    split; [|split].
    - destruct (v <? 16000); [|congruence].
      apply obind_halt in H1 as (cnt & Hcnt & H1). apply obind_halt in H1 as (s0 & Hs0 & H1). eauto.
    - destruct (v <? 17000); [exact H2|congruence].
    - destruct (v <? 19000); [|congruence]. apply obind_halt in H3 as (s3 & H31 & H32). eauto.
  Qed.

  Lemma deploy_netmap_frame e args s s' (q : bytes) :
    deploy_netmap prevN verN e args s = Halt s' -> netmap_touched q = false -> s' !! q = s !! q.
  Proof.
    intros H Hq. apply deploy_netmap_spec in H as (v & s1 & s2 & _ & _ & H1 & H2 & H3).
    unfold netmap_touched in Hq. apply orb_false_iff in Hq as [Hq Hq4]. apply orb_false_iff in Hq as [Hq Hq3].
    apply orb_false_iff in Hq as [Hq1 Hq2]. apply bool_decide_eq_false_1 in Hq4.
    apply Nat.eqb_neq in Hq1.
    assert (E1 : s1 !! q = s !! q).
    { destruct (v <? 16000); [|congruence]. destruct H1 as (cnt & s0 & _ & Hs0 & Hs1).
      rewrite (upgrade_candidates_frame _ _ _ Hs1 Hq2). exact (upgrade_snapshots_frame _ _ _ _ _ Hs0 Hq1). }
    assert (E2 : s2 !! q = s1 !! q).
    { destruct (v <? 17000); [|congruence]. apply (switch_to_notary_frame _ _ _ _ _ _ H2).
      intros Hin. apply Hq4. set_solver. }
    rewrite <- E1, <- E2. destruct (v <? 19000); [|congruence].
    destruct H3 as (s3 & H31 & H32).
    apply move_subscriber_spec in H31 as (hb & _ & ->). apply move_subscriber_spec in H32 as (hc & _ & ->).
    rewrite lookup_delete_ne by (intros <-; apply Hq4; set_solver).
    rewrite lookup_insert_ne by (intros <-; rewrite is_prefix_refl_app in Hq3; discriminate).
    rewrite lookup_delete_ne by (intros <-; apply Hq4; set_solver).
    rewrite lookup_insert_ne by (intros <-; rewrite is_prefix_refl_app in Hq3; discriminate).
    reflexivity.
  Qed.

  (** Below 0.19 the two stored hashes become subscribers 0 and 1 and the
      legacy keys disappear. *)
  Lemma deploy_netmap_subscribers e args s s' v :
    deploy_netmap prevN verN e args s = Halt s' -> args_version args = Halt v -> v < 19000 ->
    exists hb hc : bytes, s !! k_balanceSH = Some hb /\ s !! k_containerSH = Some hc /\
      s' !! (p_subscribers ++ [0%N] ++ hb) = Some [] /\
      s' !! (p_subscribers ++ [1%N] ++ hc) = Some [] /\
      s' !! k_balanceSH = None /\ s' !! k_containerSH = None.
  Proof.
    intros H Hv Hlt. apply deploy_netmap_spec in H as (v' & s1 & s2 & Hv' & _ & H1 & H2 & H3).
    rewrite Hv in Hv'. injection Hv' as <-. rewrite (proj2 (Z.ltb_lt _ _) Hlt) in H3.
    destruct H3 as (s3 & H31 & H32).
    apply move_subscriber_spec in H31 as (hb & Hb & ->). apply move_subscriber_spec in H32 as (hc & Hc & ->).
    assert (Hne : k_balanceSH <> k_containerSH) by (vm_compute; discriminate).
    rewrite lookup_delete_ne in Hc by congruence.
    assert (Hkeys : forall (k : bytes), k = k_balanceSH \/ k = k_containerSH -> s2 !! k = s !! k).
    { intros k Hk.
      assert (Hk10 : length k <> 10%nat) by (destruct Hk as [->| ->]; vm_compute; discriminate).
      assert (Hkc : is_prefix p_candidate k = false) by (destruct Hk as [->| ->]; vm_compute; reflexivity).
      assert (E1 : s1 !! k = s !! k).
      { destruct (v <? 16000); [|congruence]. destruct H1 as (cnt & s0 & _ & Hs0 & Hs1).
        rewrite (upgrade_candidates_frame _ _ _ Hs1 Hkc). exact (upgrade_snapshots_frame _ _ _ _ _ Hs0 Hk10). }
      rewrite <- E1. destruct (v <? 17000); [|congruence]. apply (switch_to_notary_frame _ _ _ _ _ _ H2).
      destruct Hk as [->| ->]; vm_compute; intros Hin;
        repeat (apply elem_of_cons in Hin as [Hin|Hin]; [discriminate|]); inversion Hin. }
    assert (Hpb : forall (i : N) (h : bytes) (k : bytes), k = k_balanceSH \/ k = k_containerSH -> p_subscribers ++ [i] ++ h <> k).
    { intros i h k Hk E. assert (Hp : is_prefix p_subscribers k = true) by (rewrite <- E; apply is_prefix_refl_app).
      destruct Hk as [->| ->]; vm_compute in Hp; discriminate. }
    rewrite lookup_insert_ne in Hc by (apply Hpb; auto).
    exists hb, hc.
    split; [rewrite <- (Hkeys k_balanceSH (or_introl eq_refl)); exact Hb|].
    split; [rewrite <- (Hkeys k_containerSH (or_intror eq_refl)); exact Hc|].
    assert (Hpb2 : forall (i : N) (h : bytes) (k : bytes), k = k_balanceSH \/ k = k_containerSH -> k <> p_subscribers ++ [i] ++ h).
    { intros i h k Hk E. exact (Hpb i h k Hk (eq_sym E)). }
    split; [|split; [|split]].
    - rewrite lookup_delete_ne by (apply Hpb2; auto).
      destruct (decide (p_subscribers ++ [1%N] ++ hc = p_subscribers ++ [0%N] ++ hb)) as [E|E].
      + apply app_inv_head in E. discriminate.
      + rewrite lookup_insert_ne by exact E. rewrite lookup_delete_ne by (apply Hpb2; auto).
        apply lookup_insert.
    - rewrite lookup_delete_ne by (apply Hpb2; auto). apply lookup_insert.
    - rewrite lookup_delete_ne by congruence. rewrite lookup_insert_ne by (apply Hpb; auto).
      apply lookup_delete.
    - apply lookup_delete.
  Qed.
End Netmap.

(** * Pending votes block the upgrade *)

Section Pending.
  Context (stdacc : bytes -> option bytes) (h160 : bytes -> bytes).
  Context (prevN verN : Z).

  (** Contracts whose switchToNotary calls TryPurgeVotes (audit's does not). *)
  Definition purging (c : contract) : bool :=
    match c with
    | CBalance | CContainer | CNetmap | CReputation | CNeoFSID | CAlphabet => true
    | _ => false
    end.

  Lemma pending_votes_ext (h : Z) (s s1 : store) :
    s1 !! k_notary = s !! k_notary -> s1 !! k_ballots = s !! k_ballots ->
    pending_votes h s -> pending_votes h s1.
  Proof.
    intros E1 E2 (nv & cands & Hn & Hb & Hg & Hp). exists nv, cands.
    rewrite E1. split; [exact Hn|]. split; [exact Hb|]. split; [|exact Hp].
    unfold get_ballots, sget in *. rewrite E2. exact Hg.
  Qed.

  Ltac step_fault :=
    repeat match goal with
           | |- obind ?o _ = Fault => destruct o; cbn [obind]; [|reflexivity]
           end.

  Lemma alphabet_switch_pending e args s :
    pending_votes (e_height e) s -> alphabet_switch stdacc e args s = Fault.
  Proof.
    intros (nv & cands & Hn & Hb & Hg & Hp). unfold alphabet_switch.
    destruct (onth args 3) as [nm|]; cbn [obind]; [|reflexivity].
    destruct (match nm with IArray _ | IStruct _ => Fault | _ => Halt tt end); cbn [obind]; [|reflexivity].
    unfold sget. rewrite Hn, Hb. cbn [obind].
    destruct (onth args 2) as [pa|]; cbn [obind]; [|reflexivity].
    destruct (hash_arg pa) as [p0|]; cbn [obind]; [|reflexivity].
    match goal with |- obind ?o _ = Fault => destruct o; cbn [obind]; [|reflexivity] end.
    unfold try_purge_votes. rewrite Hg. cbn [obind]. rewrite Hp. cbn. reflexivity.
  Qed.

  Lemma deploy_update_pending c e args s v :
    purging c = true -> args_version args = Halt v -> v < 17000 ->
    pending_votes (e_height e) s ->
    deploy_update stdacc h160 prevN verN c e args s = Fault.
  Proof.
    intros Hc Hv Hlt Hp. apply Z.ltb_lt in Hlt.
    destruct c; try discriminate; cbn [deploy_update].
    - (* alphabet *)
      unfold deploy_alphabet. rewrite Hv. cbn [obind].
      destruct (check_version prevN verN v); cbn [obind]; [|reflexivity].
      rewrite Hlt. rewrite alphabet_switch_pending by exact Hp. reflexivity.
    - (* balance *)
      unfold deploy_balance. rewrite Hv. cbn [obind].
      destruct (check_version prevN verN v); cbn [obind]; [|reflexivity].
      rewrite Hlt. rewrite switch_to_notary_pending by exact Hp. reflexivity.
    - (* container: the key migration runs first and does not touch the two keys *)
      unfold deploy_container. rewrite Hv. cbn [obind].
      destruct (check_version prevN verN v); cbn [obind]; [|reflexivity].
      destruct (migrate_container_keys s) as [s1|] eqn:Em; cbn [obind]; [|reflexivity].
      rewrite Hlt. apply switch_to_notary_pending.
      apply (pending_votes_ext _ s); [| |exact Hp];
        rewrite (migrate_container_keys_spec _ _ Em); apply cnr_migrated_other; vm_compute; congruence.
    - (* neofsid *)
      unfold deploy_neofsid. rewrite Hv. cbn [obind].
      destruct (check_version prevN verN v); cbn [obind]; [|reflexivity].
      rewrite Hlt. rewrite switch_to_notary_pending by exact Hp. reflexivity.
    - (* netmap: the 0.16 re-encoding runs first *)
      unfold deploy_netmap. rewrite Hv. cbn [obind].
      destruct (check_version prevN verN v); cbn [obind]; [|reflexivity].
      match goal with |- obind ?o _ = Fault => destruct o as [s1|] eqn:E1; cbn [obind]; [|reflexivity] end.
      rewrite Hlt. rewrite switch_to_notary_pending; [reflexivity|].
      destruct (v <? 16000); [|injection E1 as <-; exact Hp].
      apply obind_halt in E1 as (cnt & _ & E1). apply obind_halt in E1 as (s0 & Hs0 & Hs1).
      apply (pending_votes_ext _ s); [| |exact Hp].
      + rewrite (upgrade_candidates_frame _ _ _ Hs1) by (vm_compute; reflexivity).
        apply (upgrade_snapshots_frame _ _ _ _ _ Hs0). vm_compute. congruence.
      + rewrite (upgrade_candidates_frame _ _ _ Hs1) by (vm_compute; reflexivity).
        apply (upgrade_snapshots_frame _ _ _ _ _ Hs0). vm_compute. congruence.
    - (* reputation *)
      unfold deploy_reputation. rewrite Hv. cbn [obind].
      destruct (check_version prevN verN v); cbn [obind]; [|reflexivity].
      rewrite Hlt. apply switch_to_notary_pending. exact Hp.
  Qed.
End Pending.

(** * Netmap below 0.16: re-encoding of snapshots and candidates *)

Section NetmapReencode.
  Context (prevN verN : Z).

  (** First field of a node structure ([nodes[j].BLOB]). *)
  Definition blob_of (n : item) : item :=
    match n with
    | IArray (b :: _) | IStruct (b :: _) => b
    | _ => INull
    end.
  Definition up_node (n : item) : item := IStruct [blob_of n; IInt 1].

  Lemma field0_blob n b : field n 0 = Halt b -> b = blob_of n.
  Proof.
    unfold field. destruct n as [| | | | |l|l]; cbn; try discriminate; destruct l; cbn; intros E; try discriminate; injection E as <-; reflexivity.
  Qed.

  Lemma upgrade_nodes_spec nodes nn : upgrade_nodes nodes = Halt nn -> nn = map up_node nodes.
  Proof.
    revert nn. induction nodes as [|n nodes IH]; intros nn H; cbn in H; [injection H as <-; reflexivity|].
    apply obind_halt in H as (b & Hb & H). apply obind_halt in H as (r & Hr & H).
    injection H as <-. cbn. rewrite (IH _ Hr). unfold up_node. rewrite (field0_blob _ _ Hb). reflexivity.
  Qed.

  Lemma wf_blob_of n : wf_item n -> wf_item (blob_of n).
  Proof.
    destruct n as [| | | | |l|l]; cbn; try tauto; destruct l; cbn; tauto.
  Qed.

  Lemma wf_up_nodes nodes : Forall wf_item nodes -> wf_item (IArray (map up_node nodes)).
  Proof.
    intros H. cbn [wf_item]. apply wf_item_list. apply Forall_fmap. eapply Forall_impl; [exact H|].
    intros n Hn. cbn. split; [apply wf_blob_of; exact Hn|]. split; [lia|exact I].
  Qed.

  (** What the loop body does to one stored snapshot that was written by
      std.Serialize as an array of node structures. *)
  Lemma upgrade_snapshot_spec nodes d' :
    Forall wf_item nodes -> item_count (IArray nodes) <= max_items ->
    upgrade_snapshot (ser (IArray nodes)) = Halt d' ->
    deserialize d' = Halt (IArray (map up_node nodes)).
  Proof.
    intros Hwf Hc H. unfold upgrade_snapshot in H.
    rewrite deserialize_ser in H by (try exact Hc; cbn [wf_item]; apply wf_item_list; exact Hwf).
    cbn [obind item_to_list] in H. apply obind_halt in H as (nn & Hnn & H).
    apply upgrade_nodes_spec in Hnn. subst nn.
    apply serialize_halt in H as [-> Hc'].
    apply deserialize_ser; [|exact Hc']. exact (wf_up_nodes nodes Hwf).
  Qed.

  Definition snap_key (j : Z) : bytes := p_snapshot ++ [Z.to_N j].

  Lemma snapshot_key_spec j key : snapshot_key j = Halt key -> key = snap_key j /\ 0 <= j.
  Proof.
    unfold snapshot_key. destruct (Z.leb_spec 0 j); cbn; [|discriminate].
    destruct (j <=? 255); [|discriminate]. intros [= <-]. auto.
  Qed.

  Lemma snap_key_inj i j : 0 <= i -> 0 <= j -> snap_key i = snap_key j -> i = j.
  Proof. unfold snap_key. intros Hi Hj E. apply app_inv_head in E. injection E as E. lia. Qed.

  Lemma upgrade_snapshots_frame2 n : forall i s s' (q : bytes),
    upgrade_snapshots n i s = Halt s' ->
    (forall j, i <= j < i + Z.of_nat n -> q <> snap_key j) -> s' !! q = s !! q.
  Proof.
    induction n as [|n IH]; intros i s s' q H Hq; cbn [upgrade_snapshots] in H; [congruence|].
    apply obind_halt in H as (key & Hk & H). apply obind_halt in H as (s1 & H1 & H2).
    rewrite (IH _ _ _ _ H2) by (intros j Hj; apply Hq; lia).
    apply snapshot_key_spec in Hk as [-> Hi].
    unfold sget in H1. destruct (s !! snap_key i) as [d|]; [|congruence].
    apply obind_halt in H1 as (nd & _ & H1). apply sput_halt in H1 as [-> _].
    apply lookup_insert_ne. apply not_eq_sym, Hq. lia.
  Qed.

  Lemma upgrade_snapshots_spec n : forall i s s',
    upgrade_snapshots n i s = Halt s' ->
    forall j, i <= j < i + Z.of_nat n ->
      match s !! snap_key j with
      | Some d => exists d', upgrade_snapshot d = Halt d' /\ s' !! snap_key j = Some d'
      | None => s' !! snap_key j = None
      end.
  Proof.
    induction n as [|n IH]; intros i s s' H j Hj; [lia|]. cbn [upgrade_snapshots] in H.
    apply obind_halt in H as (key & Hk & H). apply obind_halt in H as (s1 & H1 & H2).
    apply snapshot_key_spec in Hk as [-> Hi].
    destruct (Z.eq_dec j i) as [->|Hne].
    - rewrite (upgrade_snapshots_frame2 _ _ _ _ _ H2)
        by (intros j' Hj' E; apply snap_key_inj in E; lia).
      unfold sget in H1. destruct (s !! snap_key i) as [d|] eqn:Ed.
      + apply obind_halt in H1 as (nd & Hnd & H1). apply sput_halt in H1 as [-> _].
        exists nd. split; [exact Hnd|apply lookup_insert].
      + injection H1 as <-. exact Ed.
    - specialize (IH _ _ _ H2 j ltac:(lia)).
      assert (E : s1 !! snap_key j = s !! snap_key j).
      { unfold sget in H1. destruct (s !! snap_key i) as [d|]; [|congruence].
        apply obind_halt in H1 as (nd & _ & H1). apply sput_halt in H1 as [-> _].
        apply lookup_insert_ne. intros E. apply snap_key_inj in E; lia. }
      rewrite E in IH. exact IH.
  Qed.

  (** After the whole upgrade the snapshot keys still hold what the loop
      wrote: no later phase touches them. *)
  Lemma snap_key_not_touched_later j :
    is_prefix p_candidate (snap_key j) = false /\ length (snap_key j) = 10%nat /\
    is_prefix p_subscribers (snap_key j) = false.
  Proof. split; [reflexivity|]. split; reflexivity. Qed.

  Lemma deploy_netmap_snapshot e args s s' v cnt j :
    deploy_netmap prevN verN e args s = Halt s' -> args_version args = Halt v -> v < 16000 ->
    snapshot_count s = Halt cnt -> 0 <= j < cnt ->
    match s !! snap_key j with
    | Some d => exists d', upgrade_snapshot d = Halt d' /\ s' !! snap_key j = Some d'
    | None => s' !! snap_key j = None
    end.
  Proof.
    intros H Hv Hlt Hcnt Hj. apply deploy_netmap_spec in H as (v' & s1 & s2 & Hv' & _ & H1 & H2 & H3).
    rewrite Hv in Hv'. injection Hv' as <-. rewrite (proj2 (Z.ltb_lt _ _) Hlt) in H1.
    destruct H1 as (cnt' & s0 & Hcnt' & Hs0 & Hs1). rewrite Hcnt in Hcnt'. injection Hcnt' as <-.
    pose proof (upgrade_snapshots_spec _ _ _ _ Hs0 j ltac:(lia)) as Hspec.
    destruct (snap_key_not_touched_later j) as (Hc & Hl & Hsub).
    assert (E : s' !! snap_key j = s0 !! snap_key j).
    { rewrite <- (upgrade_candidates_frame _ _ _ Hs1 Hc).
      assert (E2 : s2 !! snap_key j = s1 !! snap_key j).
      { destruct (v <? 17000); [|congruence]. apply (switch_to_notary_frame _ _ _ _ _ _ H2).
        intros Hin. repeat (apply elem_of_cons in Hin as [Hin|Hin]; [apply (f_equal length) in Hin; rewrite Hl in Hin; vm_compute in Hin; discriminate|]).
        inversion Hin. }
      rewrite <- E2. destruct (v <? 19000); [|congruence].
      destruct H3 as (s3 & H31 & H32).
      apply move_subscriber_spec in H31 as (hb & _ & ->). apply move_subscriber_spec in H32 as (hc & _ & ->).
      rewrite lookup_delete_ne by (intros E; apply (f_equal length) in E; rewrite Hl in E; vm_compute in E; discriminate).
      rewrite lookup_insert_ne by (intros E; rewrite <- E, is_prefix_refl_app in Hsub; discriminate).
      rewrite lookup_delete_ne by (intros E; apply (f_equal length) in E; rewrite Hl in E; vm_compute in E; discriminate).
      rewrite lookup_insert_ne by (intros E; rewrite <- E, is_prefix_refl_app in Hsub; discriminate).
      reflexivity. }
    destruct (s !! snap_key j) as [d|]; [|congruence].
    destruct Hspec as (d' & Hd' & Hs0j). exists d'. split; [exact Hd'|congruence].
  Qed.

  (** Candidates: [oldCandidate{f1: oldNode{BLOB}, f2: state}] -> [Node{BLOB, State}]. *)
  Lemma upgrade_candidate_spec blob rest st d' :
    wf_item blob -> Forall wf_item rest -> wf_item st ->
    item_count (IStruct [IStruct (blob :: rest); st]) <= max_items ->
    upgrade_candidate (ser (IStruct [IStruct (blob :: rest); st])) = Halt d' ->
    deserialize d' = Halt (IStruct [blob; st]).
  Proof.
    intros Hb Hr Hs Hc H. unfold upgrade_candidate in H.
    rewrite deserialize_ser in H; [|cbn; rewrite wf_item_list; tauto|exact Hc].
    cbn in H. apply serialize_halt in H as [-> Hc']. apply deserialize_ser; [cbn; tauto|exact Hc'].
  Qed.

  Lemma cand_fold_spec l : forall s s',
    NoDup (map fst l) -> fold_left cand_step l (Halt s) = Halt s' ->
    forall k d, (k, d) ∈ l -> exists d', upgrade_candidate d = Halt d' /\ s' !! k = Some d'.
  Proof.
    induction l as [|[k0 d0] l IH]; intros s s' Hnd H k d Hin; [inversion Hin|].
    cbn [fold_left] in H. apply NoDup_cons in Hnd as [Hk0 Hnd]. cbn [fst] in Hk0.
    destruct (cand_step (Halt s) (k0, d0)) as [s1|] eqn:E;
      [|rewrite fold_left_fault in H by reflexivity; discriminate].
    apply elem_of_cons in Hin as [[= -> ->]|Hin].
    - unfold cand_step in E. cbn in E. apply obind_halt in E as (nd & Hnd' & E).
      apply sput_halt in E as [-> _]. exists nd. split; [exact Hnd'|].
      rewrite (cand_fold_frame _ _ _ _ H Hk0). apply lookup_insert.
    - exact (IH _ _ Hnd H _ _ Hin).
  Qed.

  Lemma upgrade_candidates_spec s s' k d :
    upgrade_candidates s = Halt s' -> s !! k = Some d -> is_prefix p_candidate k = true ->
    exists d', upgrade_candidate d = Halt d' /\ s' !! k = Some d'.
  Proof.
    intros H Hk Hp. unfold upgrade_candidates in H.
    apply (cand_fold_spec _ _ _ (NoDup_sfind_keys _ _) H). apply elem_of_sfind. auto.
  Qed.
End NetmapReencode.

(** * NNS below 0.18: TLD owners become nil *)

Section NNS.
  Context (h160 : bytes -> bytes).
  Context (prevN verN : Z).

  (** Keys the NNS upgrade may write or delete: balances (0x01), the
      owner->token index (0x02) and name states (0x21). *)
  Definition nns_touched (q : bytes) : bool :=
    match q with
    | x :: _ => (x =? p_nns_balance)%N || (x =? p_nns_acctoken)%N || (x =? p_nns_name)%N
    | [] => false
    end.

  (** Outcome of one name state [d] stored under [k]. *)
  Definition nns_entry (d : bytes) (before after : option bytes) : Prop :=
    exists it fs nm name,
      deserialize d = Halt it /\ item_to_list it = Halt fs /\ onth fs 1 = Halt nm /\
      field_bytes nm = Halt name /\
      if is_tld name then
        exists d', serialize (match it with IArray _ => IArray (INull :: tail fs) | _ => IStruct (INull :: tail fs) end) = Halt d' /\
                   after = Some d'
      else after = before.

  Lemma nns_update_balance_frame token acc s s' (q : bytes) :
    nns_update_balance_dec h160 token acc s = Halt s' ->
    head q <> Some p_nns_balance -> head q <> Some p_nns_acctoken -> s' !! q = s !! q.
  Proof.
    unfold nns_update_balance_dec. intros H H1 H2.
    apply obind_halt in H as (bal & _ & H). apply obind_halt in H as (nb & _ & H).
    apply obind_halt in H as (s1 & Hs1 & H). injection H as <-. unfold sdel.
    rewrite lookup_delete_ne by (intros <-; apply H2; reflexivity).
    destruct (nb =? 0).
    - injection Hs1 as <-. unfold sdel. apply lookup_delete_ne. intros <-. apply H1. reflexivity.
    - apply sput_halt in Hs1 as [-> _]. apply lookup_insert_ne. intros <-. apply H1. reflexivity.
  Qed.

  Lemma nns_step_spec s k d s1 :
    nns_step h160 (Halt s) (k, d) = Halt s1 -> head k = Some p_nns_name ->
    (forall q : bytes, head q <> Some p_nns_balance -> head q <> Some p_nns_acctoken -> q <> k -> s1 !! q = s !! q) /\
    nns_entry d (s !! k) (s1 !! k).
  Proof.
    unfold nns_step. cbn [fst snd obind]. intros H Hk.
    apply obind_halt in H as (it & Hit & H). apply obind_halt in H as (fs & Hfs & H).
    apply obind_halt in H as (ow & How & H). apply obind_halt in H as (nm & Hnm & H).
    apply obind_halt in H as (name & Hname & H).
    destruct (is_tld name) eqn:Et.
    - apply obind_halt in H as (owner & _ & H). apply obind_halt in H as (s0 & Hs0 & H).
      apply obind_halt in H as (nd & Hnd & H). apply sput_halt in H as [-> _]. split.
      + intros q Hq1 Hq2 Hne. rewrite lookup_insert_ne by congruence.
        exact (nns_update_balance_frame _ _ _ _ _ Hs0 Hq1 Hq2).
      + exists it, fs, nm, name. rewrite Et. repeat (split; [assumption|]).
        exists nd. split; [exact Hnd|apply lookup_insert].
    - injection H as <-. split; [reflexivity|].
      exists it, fs, nm, name. rewrite Et. auto.
  Qed.

  Lemma nns_fold_spec (l : list (bytes * bytes)) : forall s s',
    NoDup (map fst l) -> Forall (fun kv => head (fst kv) = Some p_nns_name) l ->
    fold_left (nns_step h160) l (Halt s) = Halt s' ->
    (forall q : bytes, head q <> Some p_nns_balance -> head q <> Some p_nns_acctoken -> q ∉ map fst l -> s' !! q = s !! q) /\
    (forall (k d : bytes), (k, d) ∈ l -> nns_entry d (s !! k) (s' !! k)).
  Proof.
    induction l as [|[k0 d0] l IH]; intros s s' Hnd Hall H.
    - cbn in H. injection H as <-. split; [reflexivity|]. intros k d Hin. inversion Hin.
    - cbn [fold_left] in H. apply NoDup_cons in Hnd as [Hk0 Hnd]. cbn [fst] in Hk0.
      apply Forall_cons in Hall as [Hh0 Hall]. cbn [fst] in Hh0.
      destruct (nns_step h160 (Halt s) (k0, d0)) as [s1|] eqn:E;
        [|rewrite fold_left_fault in H by reflexivity; discriminate].
      destruct (nns_step_spec _ _ _ _ E Hh0) as [Hfr Hent].
      destruct (IH _ _ Hnd Hall H) as [IHfr IHent].
      assert (Hname_ne : forall q : bytes, head q = Some p_nns_name ->
                head q <> Some p_nns_balance /\ head q <> Some p_nns_acctoken).
      { intros q Hq. rewrite Hq. split; discriminate. }
      split.
      + intros q Hq1 Hq2 Hq. rewrite IHfr by (try assumption; intros Hin; apply Hq; right; exact Hin).
        apply Hfr; try assumption. intros ->. apply Hq. left.
      + intros k d [[= -> ->]|Hin]%elem_of_cons.
        * destruct (Hname_ne _ Hh0) as [Hn1 Hn2].
          pose proof (IHfr k0 Hn1 Hn2 Hk0) as E0. unfold nns_entry in *.
          destruct Hent as (it & fs & nm & name & ? & ? & ? & ? & Hcase).
          exists it, fs, nm, name. repeat (split; [assumption|]).
          destruct (is_tld name); [destruct Hcase as (d' & ? & ?); exists d'; split; [assumption|congruence]|congruence].
        * assert (Hhk : head k = Some p_nns_name).
          { rewrite Forall_forall in Hall. exact (Hall _ Hin). }
          destruct (Hname_ne _ Hhk) as [Hn1 Hn2].
          assert (Hne : k <> k0).
          { intros ->. apply Hk0. apply elem_of_list_fmap. exists (k0, d). auto. }
          pose proof (Hfr k Hn1 Hn2 Hne) as E1. pose proof (IHent _ _ Hin) as Hent'. unfold nns_entry in *.
          destruct Hent' as (it & fs & nm & name & ? & ? & ? & ? & Hcase).
          exists it, fs, nm, name. repeat (split; [assumption|]).
          destruct (is_tld name); [exact Hcase|congruence].
  Qed.

  Lemma is_prefix_head x (k : bytes) : is_prefix [x] k = true -> head k = Some x.
  Proof. destruct k as [|y k]; cbn; [discriminate|]. rewrite andb_true_r. intros ->%N.eqb_eq. reflexivity. Qed.

  Lemma deploy_nns_spec e args s s' v :
    deploy_nns h160 prevN verN e args s = Halt s' -> args_version args = Halt v -> v < 18000 ->
    (forall q : bytes, nns_touched q = false -> s' !! q = s !! q) /\
    (forall k d, s !! k = Some d -> head k = Some p_nns_name -> nns_entry d (Some d) (s' !! k)).
  Proof.
    unfold deploy_nns. intros H Hv Hlt. rewrite Hv in H. cbn [obind] in H.
    apply obind_halt in H as (u & _ & H). destruct (Z.geb_spec v 18000); [lia|].
    apply nns_fold_spec in H as [Hfr Hent].
    - split.
      + intros q Hq. apply Hfr.
        * destruct q as [|x q]; [discriminate|]. cbn in Hq |- *. intros [= ->]. discriminate.
        * destruct q as [|x q]; [discriminate|]. cbn in Hq |- *. intros [= ->]. discriminate.
        * intros Hin. apply elem_of_list_fmap in Hin as ([k d] & -> & Hin). apply elem_of_sfind in Hin as [_ Hp].
          apply is_prefix_head in Hp. cbn [fst] in Hq. destruct k as [|x k]; [discriminate|].
          cbn in Hp. injection Hp as ->. discriminate.
      + intros k d Hk Hh. rewrite <- Hk. apply Hent. apply elem_of_sfind. split; [exact Hk|].
        destruct k as [|x k]; [discriminate|]. cbn in Hh. injection Hh as ->. reflexivity.
    - apply NoDup_sfind_keys.
    - apply Forall_forall. intros [k d] Hin. apply elem_of_sfind in Hin as [_ Hp]. exact (is_prefix_head _ _ Hp).
  Qed.
End NNS.

(** * Container: the listings (List, ContainersOf, Count) *)

Section ContainerLists.
  Context (prevN verN : Z).

  (** Layout predicate of a pre-upgrade Container storage (decidable):
      (a) a key that starts with 'x' or 'o' is a legacy container id (32
          bytes) or owner-index key (57 bytes) that happens to start with
          that byte — nothing else lives under the two prefixes the new
          layout uses;
      (b) every key of length 57 is a genuine owner-index entry
          [owner(25) ++ cid(32) |-> cid] of a stored container — no other
          shape of the contract (e.g. an estimation key with a 12-byte
          epoch) has that length. *)
  Definition legacy_wf_prefixes (s : store) : Prop :=
    forall (q v : bytes), s !! q = Some v ->
      head q = Some cnr_prefix \/ head q = Some owner_prefix ->
      length q = 32%nat \/ length q = 57%nat.

  Definition legacy_wf_owner_index (s : store) : Prop :=
    forall (q v : bytes), s !! q = Some v -> length q = 57%nat ->
      v = drop 25 q /\ is_Some (s !! drop 25 q).

  Definition legacy_wf_container (s : store) : Prop :=
    legacy_wf_prefixes s /\ legacy_wf_owner_index s.

  Definition legacy_wf_containerb (s : store) : bool :=
    forallb (fun kv : bytes * bytes =>
               match fst kv with
               | x :: _ => if (x =? cnr_prefix)%N || (x =? owner_prefix)%N
                           then (length (fst kv) =? 32)%nat || (length (fst kv) =? 57)%nat else true
               | [] => true
               end &&
               (if (length (fst kv) =? 57)%nat
                then bytes_eqb (snd kv) (drop 25 (fst kv)) &&
                     match s !! drop 25 (fst kv) with Some _ => true | None => false end
                else true)) (map_to_list s).

  Lemma legacy_wf_containerb_spec s : legacy_wf_containerb s = true -> legacy_wf_container s.
  Proof.
    unfold legacy_wf_containerb. rewrite forallb_forall. intros H. split.
    - intros q v Hq Hh.
      specialize (H (q, v) ltac:(apply elem_of_list_In, elem_of_map_to_list; exact Hq)). cbn [fst snd] in H.
      apply andb_true_iff in H as [H _].
      destruct q as [|x q]; [destruct Hh; discriminate|]. cbn [head] in Hh.
      assert (Hx : ((x =? cnr_prefix)%N || (x =? owner_prefix)%N) = true).
      { destruct Hh as [[= ->]|[= ->]]; reflexivity. }
      rewrite Hx in H. apply orb_true_iff in H as [H|H]; apply Nat.eqb_eq in H; auto.
    - intros q v Hq Hl.
      specialize (H (q, v) ltac:(apply elem_of_list_In, elem_of_map_to_list; exact Hq)). cbn [fst snd] in H.
      apply andb_true_iff in H as [_ H]. rewrite (proj2 (Nat.eqb_eq _ _) Hl) in H.
      apply andb_true_iff in H as [H1 H2]. apply bytes_eqb_eq in H1. split; [exact H1|].
      destruct (s !! drop 25 q); [eauto|discriminate].
  Qed.

  Lemma cnr_migrated_x s (k0 : bytes) :
    legacy_wf_prefixes s ->
    cnr_migrated s (cnr_prefix :: k0) = if (length k0 =? 32)%nat then s !! k0 else None.
  Proof.
    intros Hwf.
    assert (Hnone : (length k0 <> 32)%nat \/ s !! k0 = None ->
                    (length (cnr_prefix :: k0) <> 32)%nat -> (length (cnr_prefix :: k0) <> 57)%nat ->
                    s !! (cnr_prefix :: k0) = None).
    { intros _ H1 H2. destruct (s !! (cnr_prefix :: k0)) as [v|] eqn:E; [|reflexivity].
      destruct (Hwf _ _ E (or_introl eq_refl)); contradiction. }
    destruct (Nat.eqb_spec (length k0) 32) as [Hl|Hl].
    - rewrite cnr_migrated_container by exact Hl. destruct (s !! k0) eqn:E; [reflexivity|].
      apply Hnone; [auto|cbn; lia|cbn; lia].
    - destruct (decide (length (cnr_prefix :: k0) = 32%nat \/ length (cnr_prefix :: k0) = 57%nat)) as [Ho|Ho].
      + apply cnr_migrated_old. exact Ho.
      + rewrite cnr_migrated_other; [apply Hnone; [auto|tauto|tauto]|tauto|tauto|].
        unfold g_cnr. rewrite N.eqb_refl. cbn [andb].
        destruct (Nat.eqb_spec (length k0) 32); [contradiction|]. reflexivity.
  Qed.

  Lemma cnr_migrated_o s (k0 : bytes) :
    legacy_wf_prefixes s ->
    cnr_migrated s (owner_prefix :: k0) = if (length k0 =? 57)%nat then s !! k0 else None.
  Proof.
    intros Hwf.
    assert (Hnone : (length (owner_prefix :: k0) <> 32)%nat -> (length (owner_prefix :: k0) <> 57)%nat ->
                    s !! (owner_prefix :: k0) = None).
    { intros H1 H2. destruct (s !! (owner_prefix :: k0)) as [v|] eqn:E; [|reflexivity].
      destruct (Hwf _ _ E (or_intror eq_refl)); contradiction. }
    destruct (Nat.eqb_spec (length k0) 57) as [Hl|Hl].
    - rewrite cnr_migrated_owner by exact Hl. destruct (s !! k0) eqn:E; [reflexivity|].
      apply Hnone; cbn; lia.
    - destruct (decide (length (owner_prefix :: k0) = 32%nat \/ length (owner_prefix :: k0) = 57%nat)) as [Ho|Ho].
      + apply cnr_migrated_old. exact Ho.
      + rewrite cnr_migrated_other; [apply Hnone; tauto|tauto|tauto|].
        unfold g_cnr. change (owner_prefix =? cnr_prefix)%N with false. cbn [andb]. rewrite N.eqb_refl. cbn [andb].
        destruct (Nat.eqb_spec (length k0) 57); [contradiction|]. reflexivity.
  Qed.

  Lemma prefixed_not_legacy (x : N) (k0 : bytes) :
    x = cnr_prefix \/ x = owner_prefix -> x :: k0 ∉ cnr_legacy_keys.
  Proof.
    intros Hx Hin. unfold cnr_legacy_keys in Hin.
    apply elem_of_cons in Hin as [E|Hin]; [|apply elem_of_cons in Hin as [E|Hin]; [|inversion Hin]];
      vm_compute in E; injection E as E _; destruct Hx as [->| ->]; vm_compute in E; discriminate.
  Qed.

  Lemma map_tail_rekey x (l : list (bytes * bytes)) :
    map (fun kv : bytes * bytes => (tail (fst kv), snd kv)) (map (rekey_pair x) l) = l.
  Proof. induction l as [|[k v] l IH]; cbn; [reflexivity|]. f_equal. exact IH. Qed.

  Lemma container_lists_preserved e args s s' :
    deploy_container prevN verN e args s = Halt s' -> legacy_wf_prefixes s ->
    cnr_all_new s' = cnr_all_old s /\
    (forall owner, cnr_owned_new s' owner = cnr_owned_old s owner).
  Proof.
    intros H Hwf. pose proof (deploy_container_lookup _ _ _ _ _ _ H) as Hl. split.
    - unfold cnr_all_new, cnr_all_old.
      rewrite (sfind_rekeyed cnr_prefix 32 [] s s').
      + apply map_tail_rekey.
      + intros k0. rewrite Hl by (apply prefixed_not_legacy; auto). apply cnr_migrated_x. exact Hwf.
    - intros owner. unfold cnr_owned_new, cnr_owned_old.
      rewrite (sfind_rekeyed owner_prefix 57 owner s s').
      + apply map_tail_rekey.
      + intros k0. rewrite Hl by (apply prefixed_not_legacy; auto). apply cnr_migrated_o. exact Hwf.
  Qed.

  (** Under the full layout predicate every entry the owner listing returns
      after the upgrade is a genuine [owner ++ cid |-> cid] of a container
      that [Get] finds. *)
  Lemma container_owner_entries_genuine e args s s' owner (k v : bytes) :
    deploy_container prevN verN e args s = Halt s' -> legacy_wf_container s ->
    (k, v) ∈ cnr_owned_new s' owner ->
    v = drop 25 k /\ is_Some (cnr_get_new s' (drop 25 k)).
  Proof.
    intros H [Hwp Hwo] Hin.
    destruct (container_lists_preserved _ _ _ _ H Hwp) as [_ Ho]. rewrite Ho in Hin.
    unfold cnr_owned_old in Hin. apply elem_of_list_filter in Hin as [Hl Hin]. cbn [fst] in Hl.
    apply elem_of_sfind in Hin as [Hs _]. destruct (Hwo _ _ Hs Hl) as [-> [c Hc]].
    split; [reflexivity|].
    pose proof (deploy_container_lookup _ _ _ _ _ _ H) as Hlk.
    unfold cnr_get_new, sget. rewrite Hlk by (apply prefixed_not_legacy; auto).
    rewrite cnr_migrated_container by (rewrite drop_length; lia).
    set (cid := drop 25 k : bytes) in *.
    assert (Hc' : s !! cid = Some c) by exact Hc. rewrite Hc'. eauto.
  Qed.
End ContainerLists.

(** * Alphabet: storage frame of the notary switch *)

Section Alphabet.
  Context (stdacc : bytes -> option bytes).
  Context (prevN verN : Z).

  Lemma alphabet_switch_frame e args s s' trs (q : bytes) :
    alphabet_switch stdacc e args s = Halt (s', trs) ->
    q ∉ [k_notary; k_ballots; k_proxySH] -> s' !! q = s !! q.
  Proof.
    unfold alphabet_switch. intros H Hq.
    apply obind_halt in H as (nm & _ & H). apply obind_halt in H as (u & _ & H).
    unfold sget in H. destruct (s !! k_notary) as [nv|] eqn:En.
    - apply obind_halt in H as (b & _ & H). destruct b.
      + repeat (apply obind_halt in H as (? & ? & H)).
        injection H as <- _.
        match goal with Hp : try_purge_votes _ _ = Halt ?r, Hput : sput k_proxySH _ _ = Halt _ |- _ =>
          destruct r as [ok s1]; apply try_purge_votes_spec in Hp as [[-> ->]|[-> ->]];
          apply sput_halt in Hput as [-> _] end.
        * match goal with Ha : oassert (fst (false, _)) = Halt _ |- _ => cbn in Ha; discriminate end.
        * cbn [snd]. unfold sdel. rewrite lookup_delete_ne by (intros <-; apply Hq; set_solver).
          rewrite lookup_insert_ne by (intros <-; apply Hq; set_solver).
          apply lookup_delete_ne. intros <-. apply Hq. set_solver.
      + injection H as <- _. unfold sdel. apply lookup_delete_ne. intros <-. apply Hq. set_solver.
    - apply obind_halt in H as (? & _ & H). injection H as <- _. reflexivity.
  Qed.

  Lemma deploy_alphabet_frame e args s s' trs (q : bytes) :
    deploy_alphabet stdacc prevN verN e args s = Halt (s', trs) ->
    q ∉ [k_notary; k_ballots; k_proxySH] -> s' !! q = s !! q.
  Proof.
    unfold deploy_alphabet. intros H Hq.
    apply obind_halt in H as (v & _ & H). apply obind_halt in H as (u & _ & H).
    destruct (v <? 17000); [exact (alphabet_switch_frame _ _ _ _ _ _ H Hq)|].
    injection H as <- _. reflexivity.
  Qed.
End Alphabet.

(** * Alphabet: the GAS distribution never exceeds 3/4 of the balance *)

Section AlphabetGas.
  Context (stdacc : bytes -> option bytes).

  Definition tr_sum (trs : list transfer) : Z := fold_right (fun t acc => tr_amount t + acc) 0 trs.

  Lemma tr_sum_app a b : tr_sum (a ++ b) = tr_sum a + tr_sum b.
  Proof. induction a as [|t a IH]; cbn; [reflexivity|]. unfold tr_sum in *. rewrite IH. lia. Qed.

  Lemma pay_nodes_sum cur keys simple notary till trs :
    pay_nodes stdacc cur keys simple notary till = Halt trs ->
    tr_sum trs = Z.of_nat (length keys) * (simple + notary).
  Proof.
    revert trs. induction keys as [|k keys IH]; intros trs H; cbn [pay_nodes] in H.
    - injection H as <-. cbn. lia.
    - destruct (stdacc k) as [addr|]; [|discriminate].
      apply obind_halt in H as (r & Hr & H). injection H as <-.
      cbn [tr_sum fold_right tr_amount length]. fold (tr_sum r). rewrite (IH _ Hr). lia.
  Qed.

  Lemma node_keys_length nodes ks : node_keys nodes = Halt ks -> length ks = length nodes.
  Proof.
    revert ks. induction nodes as [|n nodes IH]; intros ks H; cbn [node_keys] in H.
    - injection H as <-. reflexivity.
    - apply obind_halt in H as (b & _ & H). apply obind_halt in H as (blob & _ & H).
      apply obind_halt in H as (u & _ & H). apply obind_halt in H as (r & Hr & H).
      injection H as <-. cbn. rewrite (IH _ Hr). reflexivity.
  Qed.

  Lemma alphabet_switch_bounded e args s s' trs :
    alphabet_switch stdacc e args s = Halt (s', trs) -> 0 <= e_gas e ->
    0 <= tr_sum trs <= e_gas e * 3 / 4.
  Proof.
    unfold alphabet_switch. intros H Hg.
    assert (Hcur : 0 <= e_gas e * 3 / 4) by (apply Z.div_pos; lia).
    apply obind_halt in H as (nm & _ & H). apply obind_halt in H as (u & _ & H).
    destruct (sget k_notary s) as [nv|].
    - apply obind_halt in H as (b & _ & H). destruct b.
      + apply obind_halt in H as (pa & _ & H). apply obind_halt in H as (proxy0 & _ & H).
        apply obind_halt in H as (proxy & _ & H). apply obind_halt in H as (r & _ & H).
        apply obind_halt in H as (u1 & _ & H). apply obind_halt in H as (na & _ & H).
        apply obind_halt in H as (nm0 & _ & H). apply obind_halt in H as (netmap & _ & H).
        apply obind_halt in H as (nodes & _ & H). apply obind_halt in H as (ir & _ & H).
        apply obind_halt in H as (u2 & _ & H). apply obind_halt in H as (u3 & Hn & H).
        apply obind_halt in H as (t_ir & Hir & H). apply obind_halt in H as (sk & Hsk & H).
        apply obind_halt in H as (t_sn & Hsn & H). apply obind_halt in H as (u4 & _ & H).
        apply obind_halt in H as (s2 & _ & H). apply obind_halt in H as (u5 & _ & H).
        injection H as _ <-.
        apply pay_nodes_sum in Hir, Hsn. apply node_keys_length in Hsk. apply oassert_halt in Hn.
        set (current := e_gas e * 3 / 4) in *.
        set (n := Z.of_nat (length nodes) + Z.of_nat (length ir)) in *.
        assert (Hnpos : 0 < n) by (unfold n in *; destruct (Z.eqb_spec (Z.of_nat (length nodes) + Z.of_nat (length ir)) 0); [discriminate|lia]).
        set (rest := current - current / 2) in *.
        set (per_node := rest / n) in *.
        assert (Hhalf : 0 <= current / 2 <= current).
        { split; [apply Z.div_pos; lia|]. apply Z.div_le_upper_bound; lia. }
        assert (Hrest : 0 <= rest) by (unfold rest; lia).
        assert (Hpn : 0 <= per_node /\ n * per_node <= rest).
        { split; [apply Z.div_pos; lia|]. unfold per_node. apply Z.mul_div_le. lia. }
        cbn [tr_sum fold_right tr_amount]. fold (tr_sum (t_ir ++ t_sn)). rewrite tr_sum_app, Hir, Hsn, Hsk.
        match goal with |- context [?a - ?b + ?b] => replace (a - b + b) with a by lia end.
        fold per_node. nia.
      + injection H as _ <-. cbn. lia.
    - apply obind_halt in H as (? & _ & H). injection H as _ <-. cbn. lia.
  Qed.
End AlphabetGas.
