(** Proofs/VoteReentry.v — lemmas about Model/VoteReentry.v (cheques to contract
    payees that call back into the NeoFS contract) used by Props/C17.v. *)
From Verif Require Import Base.Prelude Base.IntCodec Model.Vote Model.NeoFSVote Model.VoteReentry
  Spec.Tally Proofs.Vote.
From Coq Require Import ZifyBool ZifyNat.
Local Open Scope Z_scope.

(** * 1. Without contract payees this is the model of Model/NeoFSVote.v *)

Definition lift_res (cs : gmap bytes payee) (r : outcome (nstate * bool * list nnotif))
  : outcome (rstate * list nnotif) :=
  match r with
  | Halt (st', _, ns) => Halt (mkR st' cs, ns)
  | Fault => Fault
  end.

Definition plain_call (s : rstate) (o : rcall) : Prop :=
  match o with
  | RCheque _ user _ _ => contracts s !! user = None
  | RSetConfig _ _ _ => True
  end.

Lemma rexec_plain vp sa di f c s o :
  plain_call s o ->
  rexec vp (S f) c s o = lift_res (contracts s) (nexec vp sa di c (base s) (rcall_nop o)).
Proof.
  intros Hp. cbn [rexec]. unfold rexec_body, nexec. destruct o as [id user amount lockAcc|id key val];
    cbn [rcall_nop rcall_id gexec plain_call] in *.
  - destruct (alphabet_invoker vp c (base s)) as [k|]; cbn [obind lift_res]; [|reflexivity].
    destruct (collect (alphabet (base s)) (box (base s)) id k (height c)) as [[b1 go]|]; cbn [obind lift_res]; [|reflexivity].
    destruct go; cbn [negb]; [|reflexivity].
    destruct (gas_transfer (gas (base s)) true (self c) user amount) as [[g1 ok]|]; cbn [obind lift_res]; [|reflexivity].
    destruct ok; cbn [oassert obind lift_res]; [|reflexivity].
    rewrite Hp. reflexivity.
  - destruct (alphabet_invoker vp c (base s)) as [k|]; cbn [obind lift_res]; [|reflexivity].
    destruct (collect (alphabet (base s)) (box (base s)) id k (height c)) as [[b1 go]|]; cbn [obind lift_res]; [|reflexivity].
    destruct go; cbn [negb]; [|reflexivity].
    destruct (length key <=? 58)%nat; reflexivity.
Qed.

(** A contract payee that is unarmed, or armed with the empty program, is
    paid like a plain account; only its payment counter moves. *)
Definition inert_payee (p : payee) : Prop :=
  parmed p = None \/ parmed p = Some (mkProg [] false).

Lemma rexec_inert_payee vp sa di f c s id user amount lockAcc p :
  contracts s !! user = Some p -> inert_payee p ->
  rexec vp (S f) c s (RCheque id user amount lockAcc) =
  match nexec vp sa di c (base s) (Cheque id user amount lockAcc) with
  | Halt (st', fired, ns) =>
      Halt (mkR st' (if fired then <[user := mkPayee None (pcount p + 1)]> (contracts s) else contracts s), ns)
  | Fault => Fault
  end.
Proof.
  intros Hu Hp. cbn [rexec]. unfold rexec_body, nexec. cbn [rcall_id gexec].
  destruct (alphabet_invoker vp c (base s)) as [k|]; cbn [obind]; [|reflexivity].
  destruct (collect (alphabet (base s)) (box (base s)) id k (height c)) as [[b1 go]|]; cbn [obind]; [|reflexivity].
  destruct go; cbn [negb]; [|reflexivity].
  destruct (gas_transfer (gas (base s)) true (self c) user amount) as [[g1 ok]|]; cbn [obind]; [|reflexivity].
  destruct ok; cbn [oassert obind]; [|reflexivity].
  rewrite Hu. destruct Hp as [-> | ->]; [reflexivity|]. cbn [pcalls pfault run_with obind app]. reflexivity.
Qed.

(** Step form: with no payee contract deployed, a history of the re-entrancy
    model is the history of the plain model. *)
Lemma rstep_plain vp sa di f s c o :
  contracts s = ∅ ->
  let r1 := rstep vp (S f) s (c, RInvoke o) in
  let r2 := nstep vp sa di (base s) (c, rcall_nop o) in
  base (fst (fst r1)) = fst (fst r2) /\ contracts (fst (fst r1)) = ∅ /\
  (snd (fst r1) = None <-> snd (fst r2) = None) /\ snd r1 = snd r2.
Proof.
  intros He r1 r2. subst r1 r2. unfold rstep, nstep, gstep. cbn [fst snd].
  rewrite (rexec_plain vp sa di f c s o).
  2:{ destruct o; cbn; [rewrite He; apply lookup_empty|exact I]. }
  unfold nexec. destruct (gexec vp sa di collect c (base s) (rcall_nop o)) as [[[st' fired] ns]|]; cbn [lift_res fst snd base contracts].
  - repeat split; auto; discriminate.
  - repeat split; auto.
Qed.

(** * 2. What one vote does to the live tallies *)

Lemma tcollect_other a tb id from h tb' go i :
  tcollect a tb id from h = Halt (tb', go) -> i <> id -> tb' i = tb i.
Proof.
  unfold tcollect. intros H Hne. apply bytes_eqb_neq in Hne.
  destruct (Z.of_nat (length (tally_incl tb id from h)) <? thr (Z.of_nat (length a)));
    injection H as <- _; destruct (existsb (bytes_eqb from) (tlive tb id h)); unfold tupd; rewrite ?Hne; reflexivity.
Qed.

Lemma collect_live a bs id k h bs' go :
  NoDup (map bid bs) -> collect a bs id k h = Halt (bs', go) ->
  NoDup (map bid bs') /\
  go = negb (Z.of_nat (length (tally_incl (abs_box bs) id k h)) <? threshold a) /\
  (forall i, i <> id -> stored_tally bs' i h = stored_tally bs i h) /\
  stored_tally bs' id h = if go then [] else tally_incl (abs_box bs) id k h.
Proof.
  intros Hnd Hc. pose proof (collect_abs a h bs id k Hnd) as Habs. rewrite Hc in Habs.
  destruct (tcollect a (abs_box bs) id k h) as [[tb' g2]|] eqn:Et; [|contradiction].
  destruct Habs as [[Hnd' Heq] <-]. destruct (tcollect_go _ _ _ _ _ _ _ Et) as (Hgo & Hfire & Hcnt).
  split; [exact Hnd'|]. split; [rewrite threshold_thr; exact Hgo|]. split.
  - intros i Hne. unfold stored_tally. rewrite (tlive_eq _ _ _ i Heq). unfold tlive.
    rewrite (tcollect_other _ _ _ _ _ _ _ i Et Hne). reflexivity.
  - unfold stored_tally. rewrite (tlive_eq _ _ _ id Heq). destruct go.
    + unfold tlive. rewrite (Hfire eq_refl). reflexivity.
    + apply Hcnt. reflexivity.
Qed.

(** * 3. Within one transaction every decision is executed at most once *)

Definition notif_id (n : nnotif) : bytes :=
  match n with NCheque id _ _ _ => id | NAlphabetUpdate id _ => id | NSetConfig id _ _ => id end.

(** The live tally of [id] holds nothing but possibly [k]. *)
Definition atmost (k : bytes) (l : list bytes) : Prop := l = [] \/ l = [k].

Lemma atmost_tally_incl k tb id h :
  atmost k (tlive tb id h) -> tally_incl tb id k h = [k].
Proof.
  unfold tally_incl. intros [-> | ->]; [reflexivity|]. cbn [existsb]. rewrite bytes_eqb_refl. reflexivity.
Qed.

(** Invariant inside a transaction witnessed by the Alphabet key [k] at
    height [h]: no two stored ballots share an id, and the decisions [F]
    already executed in this transaction have nothing but fresh votes of [k]. *)
Definition tx_inv (k : bytes) (h : Z) (F : list bytes) (s : rstate) : Prop :=
  NoDup (map bid (box (base s))) /\
  forall id, id ∈ F -> atmost k (stored_tally (box (base s)) id h).

Lemma tx_inv_sub k h F1 F2 s : (forall i, i ∈ F2 -> i ∈ F1) -> tx_inv k h F1 s -> tx_inv k h F2 s.
Proof. intros Hs [H1 H2]. split; [exact H1|]. intros id Hin. apply H2. auto. Qed.

Section Once.
  Variable vp : bytes -> bool.
  Variable c : nctx.
  Variable k : bytes.
  Variable A : list bytes.
  Hypothesis Hthr : 2 <= threshold A.

  Definition once_post (F : list bytes) (s' : rstate) (ns : list nnotif) : Prop :=
    alphabet (base s') = A /\
    tx_inv k (height c) (map notif_id ns ++ F) s' /\
    NoDup (map notif_id ns) /\
    (forall i, i ∈ map notif_id ns -> i ∉ F).

  Definition once_pre (F : list bytes) (s : rstate) : Prop :=
    alphabet (base s) = A /\ alphabet_invoker vp c (base s) = Halt k /\ tx_inv k (height c) F s.

  Definition once_spec (rec : nctx -> rstate -> rcall -> outcome (rstate * list nnotif)) : Prop :=
    forall s o s' ns F, once_pre F s -> rec c s o = Halt (s', ns) -> once_post F s' ns.

  Lemma invoker_alphabet (s1 s2 : nstate) :
    alphabet s1 = alphabet s2 -> alphabet_invoker vp c s1 = alphabet_invoker vp c s2.
  Proof. intros H. unfold alphabet_invoker. rewrite H. reflexivity. Qed.

  Lemma run_once rec : once_spec rec ->
    forall cs s s' ns F, once_pre F s -> run_with rec c s cs = Halt (s', ns) -> once_post F s' ns.
  Proof.
    intros Hrec. induction cs as [|x rest IH]; intros s s' ns F Hpre Hrun.
    - cbn in Hrun. injection Hrun as <- <-. destruct Hpre as (Ha & _ & Hinv).
      split; [exact Ha|]. split; [exact Hinv|]. split; [constructor|]. intros i Hi. inversion Hi.
    - cbn [run_with] in Hrun.
      destruct (rec c s x) as [[sa na]|] eqn:Ex; cbn [obind] in Hrun; [|discriminate].
      destruct (run_with rec c sa rest) as [[sb nb]|] eqn:Er; cbn [obind] in Hrun; [|discriminate].
      injection Hrun as <- <-.
      destruct (Hrec _ _ _ _ _ Hpre Ex) as (Ha1 & Hinv1 & Hnd1 & Hd1).
      assert (Hpre1 : once_pre (map notif_id na ++ F) sa).
      { split; [exact Ha1|]. split; [|exact Hinv1].
        destruct Hpre as (Ha & Hk & _). rewrite <- Hk. apply invoker_alphabet. congruence. }
      destruct (IH _ _ _ _ Hpre1 Er) as (Ha2 & Hinv2 & Hnd2 & Hd2).
      split; [exact Ha2|]. rewrite map_app. split.
      + eapply tx_inv_sub; [|exact Hinv2]. intros i Hi. rewrite !elem_of_app in *. tauto.
      + split.
        * apply NoDup_app. split; [exact Hnd1|]. split; [|exact Hnd2].
          intros i Hi Hi'. apply (Hd2 i Hi'). apply elem_of_app. auto.
        * intros i Hi HF. apply elem_of_app in Hi as [Hi|Hi]; [exact (Hd1 i Hi HF)|].
          apply (Hd2 i Hi). apply elem_of_app. auto.
  Qed.

  Lemma body_once rec : once_spec rec -> once_spec (rexec_body vp rec).
  Proof.
    intros Hrec s o s' ns F (Ha & Hk & Hnd & Hq) Hex. unfold rexec_body in Hex.
    rewrite Hk in Hex. cbn [obind] in Hex.
    destruct (collect (alphabet (base s)) (box (base s)) (rcall_id o) k (height c)) as [[b1 go]|] eqn:Ec;
      cbn [obind] in Hex; [|discriminate].
    destruct (collect_live _ _ _ _ _ _ _ Hnd Ec) as (Hnd1 & Hgo & Hoth & Hsame).
    set (id := rcall_id o) in *.
    (* after the vote, whatever else is kept of the state *)
    assert (Hq1 : forall F', (forall i, i ∈ F' -> i = id /\ go = true \/ i ∈ F) ->
                  forall st1 cs1, box st1 = b1 -> tx_inv k (height c) F' (mkR st1 cs1)).
    { intros F' HF' st1 cs1 Hb. split; cbn [base]; rewrite Hb; [exact Hnd1|].
      intros i Hi. destruct (decide (i = id)) as [->|Hne].
      - rewrite Hsame. destruct go; [left; reflexivity|].
        destruct (HF' id Hi) as [[_ Hgt]|Hin]; [discriminate|].
        right. apply atmost_tally_incl. exact (Hq id Hin).
      - rewrite (Hoth i Hne). destruct (HF' i Hi) as [[Hid _]|Hin]; [contradiction|exact (Hq i Hin)]. }
    destruct go; cbn [negb] in Hex.
    2:{ (* below the threshold *)
      injection Hex as <- <-. split; [exact Ha|]. cbn [map app]. split.
      - apply Hq1; [auto|reflexivity].
      - split; [constructor|]. intros i Hi. inversion Hi. }
    (* decided: [id] was not executed before in this transaction *)
    assert (HidF : id ∉ F).
    { intros Hin. pose proof (atmost_tally_incl k _ id (height c) (Hq id Hin)) as Hone.
      unfold stored_tally in Hone. rewrite Hone in Hgo. cbn [length] in Hgo. rewrite Ha in Hgo. lia. }
    assert (Hinv1 : forall st1 cs1, box st1 = b1 -> tx_inv k (height c) (id :: F) (mkR st1 cs1)).
    { intros st1 cs1 Hb. apply Hq1; [|exact Hb]. intros i Hi. apply elem_of_cons in Hi as [->|Hi]; auto. }
    assert (Hsingle : forall n0 st1 cs1, notif_id n0 = id -> box st1 = b1 -> alphabet st1 = A ->
                      once_post F (mkR st1 cs1) [n0]).
    { intros n0 st1 cs1 Hn Hb Hal. split; [exact Hal|]. cbn [map app]. rewrite Hn.
      split; [apply Hinv1; exact Hb|]. split; [apply NoDup_singleton|].
      intros i Hi. apply elem_of_list_singleton in Hi. subst i. exact HidF. }
    destruct o as [cid user amount lockAcc|sid key val]; cbn [rcall_id] in id.
    - destruct (gas_transfer (gas (base s)) true (self c) user amount) as [[g1 ok]|]; cbn [obind] in Hex; [|discriminate].
      destruct ok; cbn [oassert obind] in Hex; [|discriminate].
      destruct (contracts s !! user) as [p|].
      2:{ injection Hex as <- <-. apply Hsingle; auto. }
      destruct (parmed p) as [prog|].
      2:{ injection Hex as <- <-. apply Hsingle; auto. }
      destruct (run_with rec c _ (pcalls prog)) as [[s2 ns0]|] eqn:Er; cbn [obind] in Hex; [|discriminate].
      destruct (pfault prog); [discriminate|]. injection Hex as <- <-.
      match type of Er with run_with _ _ ?s1 _ = _ =>
        assert (Hpre1 : once_pre (id :: F) s1)
      end.
      { split; [exact Ha|]. split; [|apply Hinv1; reflexivity].
        rewrite <- Hk. apply invoker_alphabet. reflexivity. }
      destruct (run_once rec Hrec _ _ _ _ _ Hpre1 Er) as (Ha2 & Hinv2 & Hnd2 & Hd2).
      split; [exact Ha2|]. rewrite map_app. cbn [map notif_id]. fold id. split.
      + eapply tx_inv_sub; [|exact Hinv2]. intros i Hi.
        apply elem_of_app in Hi as [Hi|Hi]; [apply elem_of_app in Hi as [Hi|Hi]|].
        * apply elem_of_app. left. exact Hi.
        * apply elem_of_list_singleton in Hi. subst i. apply elem_of_app. right. apply elem_of_cons. left. reflexivity.
        * apply elem_of_app. right. apply elem_of_cons. right. exact Hi.
      + split.
        * apply NoDup_app. split; [exact Hnd2|]. split; [|apply NoDup_singleton].
          intros i Hi Hi'. apply elem_of_list_singleton in Hi'. subst i.
          apply (Hd2 id Hi). apply elem_of_cons. auto.
        * intros i Hi HF. apply elem_of_app in Hi as [Hi|Hi].
          -- apply (Hd2 i Hi). apply elem_of_cons. auto.
          -- apply elem_of_list_singleton in Hi. subst i. exact (HidF HF).
    - destruct (length key <=? 58)%nat; cbn [oassert obind] in Hex; [|discriminate].
      injection Hex as <- <-. apply Hsingle; auto.
  Qed.

  Lemma rexec_once fuel : once_spec (rexec vp fuel).
  Proof.
    induction fuel as [|f IH]; [intros s o s' ns F _ H; discriminate|].
    cbn [rexec]. apply body_once. exact IH.
  Qed.
End Once.

(** Every decision id is notified (executed) at most once per transaction,
    whatever the payee programs, when the threshold is at least 2. *)
Lemma reentry_once_thm vp fuel c s o s' ns :
  NoDup (map bid (box (base s))) -> 2 <= threshold (alphabet (base s)) ->
  rexec vp fuel c s o = Halt (s', ns) ->
  NoDup (map notif_id ns) /\ NoDup (map bid (box (base s'))) /\ alphabet (base s') = alphabet (base s).
Proof.
  intros Hnd Hthr Hex. destruct fuel as [|f]; [discriminate|].
  destruct (alphabet_invoker vp c (base s)) as [k|] eqn:Ek.
  2:{ cbn [rexec] in Hex. unfold rexec_body in Hex. rewrite Ek in Hex. discriminate. }
  assert (Hpre : once_pre vp c k (alphabet (base s)) [] s).
  { split; [reflexivity|]. split; [exact Ek|]. split; [exact Hnd|]. intros id Hin. inversion Hin. }
  destruct (rexec_once vp c k (alphabet (base s)) Hthr (S f) s o s' ns [] Hpre Hex) as (Ha & [Hn _] & Hnd' & _).
  auto.
Qed.

(** The top-level invocation: nothing is executed below the threshold; at the
    threshold the invocation's own action is the last thing notified. *)
Lemma reentry_top_thm vp f c s o s' ns k :
  NoDup (map bid (box (base s))) -> alphabet_invoker vp c (base s) = Halt k ->
  rexec vp (S f) c s o = Halt (s', ns) ->
  let cnt := Z.of_nat (length (tally_incl (abs_box (box (base s))) (rcall_id o) k (height c))) in
  (cnt < threshold (alphabet (base s)) /\ ns = [] /\ contracts s' = contracts s) \/
  (threshold (alphabet (base s)) <= cnt /\ stored_tally (box (base s)) (rcall_id o) (height c) ⊆ tally_incl (abs_box (box (base s))) (rcall_id o) k (height c) /\
   exists ns0, ns = ns0 ++ notifs_of (rcall_nop o)).
Proof.
  intros Hnd Hk Hex cnt. cbn [rexec] in Hex. unfold rexec_body in Hex. rewrite Hk in Hex. cbn [obind] in Hex.
  destruct (collect (alphabet (base s)) (box (base s)) (rcall_id o) k (height c)) as [[b1 go]|] eqn:Ec;
    cbn [obind] in Hex; [|discriminate].
  destruct (collect_live _ _ _ _ _ _ _ Hnd Ec) as (_ & Hgo & _ & _). fold cnt in Hgo.
  destruct go; cbn [negb] in Hex.
  2:{ left. injection Hex as <- <-. split; [lia|]. auto. }
  right. split; [lia|]. split.
  { unfold stored_tally, tally_incl. destruct (existsb _ _); [reflexivity|]. intros x Hx. apply elem_of_app. auto. }
  destruct o as [cid user amount lockAcc|sid key val]; cbn [rcall_nop notifs_of].
  - destruct (gas_transfer (gas (base s)) true (self c) user amount) as [[g1 ok]|]; cbn [obind] in Hex; [|discriminate].
    destruct ok; cbn [oassert obind] in Hex; [|discriminate].
    destruct (contracts s !! user) as [p|]; [|injection Hex as <- <-; exists []; reflexivity].
    destruct (parmed p) as [prog|]; [|injection Hex as <- <-; exists []; reflexivity].
    destruct (run_with _ c _ (pcalls prog)) as [[s2 ns0]|]; cbn [obind] in Hex; [|discriminate].
    destruct (pfault prog); [discriminate|]. injection Hex as <- <-. exists ns0. reflexivity.
  - destruct (length key <=? 58)%nat; cbn [oassert obind] in Hex; [|discriminate].
    injection Hex as <- <-. exists []. reflexivity.
Qed.

(** * 4. Histories of the re-entrancy model *)

Section NoDupInv.
  Variable vp : bytes -> bool.
  Variable c : nctx.

  Definition nd_spec (rec : nctx -> rstate -> rcall -> outcome (rstate * list nnotif)) : Prop :=
    forall s o s' ns, NoDup (map bid (box (base s))) -> rec c s o = Halt (s', ns) ->
                      NoDup (map bid (box (base s'))).

  Lemma run_nd rec : nd_spec rec ->
    forall cs s s' ns, NoDup (map bid (box (base s))) -> run_with rec c s cs = Halt (s', ns) ->
                       NoDup (map bid (box (base s'))).
  Proof.
    intros Hrec. induction cs as [|x rest IH]; intros s s' ns Hnd Hrun.
    - cbn in Hrun. injection Hrun as <- _. exact Hnd.
    - cbn [run_with] in Hrun.
      destruct (rec c s x) as [[sa na]|] eqn:Ex; cbn [obind] in Hrun; [|discriminate].
      destruct (run_with rec c sa rest) as [[sb nb]|] eqn:Er; cbn [obind] in Hrun; [|discriminate].
      injection Hrun as <- _. eapply IH; [|exact Er]. eapply Hrec; eauto.
  Qed.

  Lemma body_nd rec : nd_spec rec -> nd_spec (rexec_body vp rec).
  Proof.
    intros Hrec s o s' ns Hnd Hex. unfold rexec_body in Hex.
    destruct (alphabet_invoker vp c (base s)) as [k|]; cbn [obind] in Hex; [|discriminate].
    destruct (collect (alphabet (base s)) (box (base s)) (rcall_id o) k (height c)) as [[b1 go]|] eqn:Ec;
      cbn [obind] in Hex; [|discriminate].
    destruct (collect_live _ _ _ _ _ _ _ Hnd Ec) as (Hnd1 & _).
    destruct go; cbn [negb] in Hex; [|injection Hex as <- _; exact Hnd1].
    destruct o as [cid user amount lockAcc|sid key val].
    - destruct (gas_transfer (gas (base s)) true (self c) user amount) as [[g1 ok]|]; cbn [obind] in Hex; [|discriminate].
      destruct ok; cbn [oassert obind] in Hex; [|discriminate].
      destruct (contracts s !! user) as [p|]; [|injection Hex as <- _; exact Hnd1].
      destruct (parmed p) as [prog|]; [|injection Hex as <- _; exact Hnd1].
      destruct (run_with rec c _ (pcalls prog)) as [[s2 ns0]|] eqn:Er; cbn [obind] in Hex; [|discriminate].
      destruct (pfault prog); [discriminate|]. injection Hex as <- _.
      eapply (run_nd rec Hrec); [|exact Er]. exact Hnd1.
    - destruct (length key <=? 58)%nat; cbn [oassert obind] in Hex; [|discriminate].
      injection Hex as <- _. exact Hnd1.
  Qed.

  Lemma rexec_nd fuel : nd_spec (rexec vp fuel).
  Proof.
    induction fuel as [|f IH]; [intros s o s' ns _ H; discriminate|].
    cbn [rexec]. apply body_nd. exact IH.
  Qed.
End NoDupInv.

(** State after a history of transactions. *)
Definition rhist vp (fuel : nat) (s : rstate) (ops : list (nctx * rop)) : rstate :=
  fold_left (fun s co => fst (fst (rstep vp fuel s co))) ops s.

Lemma rstep_nd vp fuel s co :
  NoDup (map bid (box (base s))) -> NoDup (map bid (box (base (fst (fst (rstep vp fuel s co)))))).
Proof.
  intros Hnd. destruct co as [c [o|addr p|addr]]; unfold rstep; cbn [fst snd]; try exact Hnd.
  destruct (rexec vp fuel c s o) as [[s' ns]|] eqn:E; cbn [fst]; [|exact Hnd].
  eapply rexec_nd; eauto.
Qed.

Lemma rhist_nd vp fuel keys cfg g payees ops :
  NoDup (map bid (box (base (rhist vp fuel (rinit keys cfg g payees) ops)))).
Proof.
  unfold rhist. induction ops as [|co ops IH] using rev_ind; [constructor|].
  rewrite fold_left_app. cbn [fold_left]. apply rstep_nd. exact IH.
Qed.

(** Over every history, every payee program: one transaction executes every
    decision id at most once (threshold >= 2). *)
Lemma reentry_history_once_thm vp fuel keys cfg g payees ops c o :
  let s := rhist vp fuel (rinit keys cfg g payees) ops in
  2 <= threshold (alphabet (base s)) ->
  NoDup (map notif_id (snd (rstep vp fuel s (c, RInvoke o)))).
Proof.
  intros s Hthr. unfold rstep. cbn [fst snd].
  destruct (rexec vp fuel c s o) as [[s' ns]|] eqn:E; cbn [snd]; [|constructor].
  eapply reentry_once_thm; [apply rhist_nd|exact Hthr|exact E].
Qed.
