(** Proofs/Witness.v — lemmas behind Props/C03.v. *)
From Coq Require Import String.
From Verif Require Import Base.Prelude Model.Balance Proofs.BalanceSum Proofs.Balance Model.Witness.
From Coq Require Import ZifyBool ZifyNat ZifyN.
Import Multisig.

Ltac Zify.zify_post_hook ::= Z.div_mod_to_equations.

(** * (a) Threshold arithmetic *)
Section Thresholds.
  Local Open Scope nat_scope.

  Lemma maj_le_alpha n : 1 <= n -> maj_m n <= alpha_m n.
  Proof. unfold maj_m, alpha_m. lia. Qed.

  Lemma alpha_le_n n : 1 <= n -> alpha_m n <= n.
  Proof. unfold alpha_m. lia. Qed.

  Lemma maj_le_n n : 1 <= n -> maj_m n <= n.
  Proof. unfold maj_m. lia. Qed.

  Lemma alpha_pos n : 1 <= alpha_m n.
  Proof. unfold alpha_m. lia. Qed.

  Lemma maj_pos n : 1 <= maj_m n.
  Proof. unfold maj_m. lia. Qed.

  Lemma alpha_eq_maj_iff n : 1 <= n -> (alpha_m n = maj_m n <-> n = 1 \/ n = 2 \/ n = 4).
  Proof. unfold maj_m, alpha_m. lia. Qed.

  Lemma alpha_gt_maj_iff n : 1 <= n -> (maj_m n < alpha_m n <-> n = 3 \/ 5 <= n).
  Proof. unfold maj_m, alpha_m. lia. Qed.

  Lemma nns_m_eq_maj n : 1 <= n -> nns_m n = maj_m n.
  Proof. unfold nns_m, maj_m. lia. Qed.

  Lemma alpha_twice n : n < alpha_m n + alpha_m n.
  Proof. unfold alpha_m. lia. Qed.

  Lemma maj_twice n : n < maj_m n + maj_m n.
  Proof. unfold maj_m. lia. Qed.

  (** Byzantine margin: two 2n/3+1 quorums share more than a third. *)
  Lemma alpha_twice_margin n : n + n / 3 < alpha_m n + alpha_m n.
  Proof. unfold alpha_m. lia. Qed.

  (** Whoever can assemble the Alphabet account can assemble the committee one. *)
  Lemma can_form_alpha_maj n k : 1 <= n ->
    can_form (alpha_m n) k = true -> can_form (maj_m n) k = true.
  Proof.
    intros Hn. unfold can_form. rewrite !Nat.leb_le. pose proof (maj_le_alpha n Hn). lia.
  Qed.

  (** ... and not conversely exactly when the thresholds differ. *)
  Lemma can_form_maj_not_alpha n : 1 <= n -> (n = 3 \/ 5 <= n) ->
    can_form (maj_m n) (maj_m n) = true /\ can_form (alpha_m n) (maj_m n) = false.
  Proof.
    intros Hn Hd. unfold can_form. rewrite Nat.leb_le, Nat.leb_gt.
    apply alpha_gt_maj_iff in Hd; [|exact Hn]. lia.
  Qed.
End Thresholds.

(** Two sub-lists without repetition of a list [C] whose lengths add up to
    more than [C]'s share an element. *)
Lemma quorums_intersect {K} `{EqDecision K} (C A B : list K) :
  NoDup A -> NoDup B -> A ⊆ C -> B ⊆ C ->
  (length C < length A + length B)%nat -> exists x, x ∈ A /\ x ∈ B.
Proof.
  intros HA HB HAC HBC Hlen.
  destruct (decide (Exists (fun x => x ∈ B) A)) as [Hex|Hnex].
  - apply Exists_exists in Hex. exact Hex.
  - exfalso.
    assert (Hdis : forall x, x ∈ A -> x ∈ B -> False).
    { intros x HxA HxB. apply Hnex. apply Exists_exists. eauto. }
    assert (Hnd : NoDup (A ++ B)).
    { apply NoDup_app. split; [exact HA|]. split; [|exact HB]. intros x HxA HxB. eauto. }
    assert (Hsub : A ++ B ⊆+ C).
    { apply NoDup_submseteq; [exact Hnd|]. intros x Hx. apply elem_of_app in Hx as [Hx|Hx]; auto. }
    apply submseteq_length in Hsub. rewrite app_length in Hsub. lia.
Qed.

Lemma alpha_quorums_intersect {K} `{EqDecision K} (C A B : list K) :
  NoDup A -> NoDup B -> A ⊆ C -> B ⊆ C ->
  (alpha_m (length C) <= length A)%nat -> (alpha_m (length C) <= length B)%nat ->
  exists x, x ∈ A /\ x ∈ B.
Proof.
  intros HA HB HAC HBC H1 H2. apply (quorums_intersect C A B); auto.
  pose proof (alpha_twice (length C)). lia.
Qed.

Lemma maj_quorums_intersect {K} `{EqDecision K} (C A B : list K) :
  NoDup A -> NoDup B -> A ⊆ C -> B ⊆ C ->
  (maj_m (length C) <= length A)%nat -> (maj_m (length C) <= length B)%nat ->
  exists x, x ∈ A /\ x ∈ B.
Proof.
  intros HA HB HAC HBC H1 H2. apply (quorums_intersect C A B); auto.
  pose proof (maj_twice (length C)). lia.
Qed.

(** An Alphabet quorum and a committee-majority quorum intersect as well. *)
Lemma alpha_maj_quorums_intersect {K} `{EqDecision K} (C A B : list K) :
  NoDup A -> NoDup B -> A ⊆ C -> B ⊆ C -> (1 <= length C)%nat ->
  (alpha_m (length C) <= length A)%nat -> (maj_m (length C) <= length B)%nat ->
  exists x, x ∈ A /\ x ∈ B.
Proof.
  intros HA HB HAC HBC Hn H1 H2. apply (quorums_intersect C A B); auto.
  pose proof (maj_twice (length C)). pose proof (maj_le_alpha (length C) Hn). lia.
Qed.

(** * (b) Monotonicity and non-vacuity of requirements *)

(** [c'] carries at least the witnesses of [c] (same calling contract). *)
Definition ctx_le (c c' : ctx) : Prop :=
  wx_caller c = wx_caller c' /\ forall h, In h (wx_signers c) -> In h (wx_signers c').

Lemma existsb_mono {A} (f : A -> bool) (l l' : list A) :
  (forall x, In x l -> In x l') -> existsb f l = true -> existsb f l' = true.
Proof.
  intros Hsub H. apply existsb_exists in H as (x & Hx & Hf). apply existsb_exists. eauto.
Qed.

Lemma witnessed_mono c c' h : ctx_le c c' -> witnessed c h = true -> witnessed c' h = true.
Proof.
  intros [Hc Hs]. unfold witnessed. rewrite !andb_true_iff. intros [Hl He]. split; [exact Hl|].
  revert He. apply existsb_mono. intros x [Hx|Hx]; [left; congruence|right; auto].
Qed.

Lemma existsb_ext_mono {A} (f g : A -> bool) (l : list A) :
  (forall x, f x = true -> g x = true) -> existsb f l = true -> existsb g l = true.
Proof.
  intros Hfg H. apply existsb_exists in H as (x & Hx & Hf). apply existsb_exists. eauto.
Qed.

Lemma eval_req_mono c c' a r : ctx_le c c' -> eval_req c a r = true -> eval_req c' a r = true.
Proof.
  intros Hle. induction r as [| | | | | | | |i|i|i o|i j|i| | |i| | |t|x IHx y IHy|x IHx y IHy|x IHx y IHy];
    cbn [eval_req]; try (apply witnessed_mono; exact Hle); try (intros H; exact H).
  - apply existsb_ext_mono. intros h. apply witnessed_mono. exact Hle.
  - rewrite !andb_true_iff. intros [H1 H2]. split; [|exact H2]. revert H1. apply witnessed_mono. exact Hle.
  - destruct (length (a_owner a) =? 0)%nat.
    + apply witnessed_mono. exact Hle.
    + rewrite !orb_true_iff. intros [H|H]; [left|right]; revert H; apply witnessed_mono; exact Hle.
  - destruct Hle as [Hc _]. rewrite Hc. intros H; exact H.
  - destruct (ch_notary_off (a_chain a)); auto.
  - rewrite !andb_true_iff. intros [H1 H2]. auto.
  - rewrite !orb_true_iff. intros [H|H]; auto.
Qed.

Lemma witnessed_empty h : witnessed empty_ctx h = false.
Proof.
  unfold witnessed, empty_ctx, hash_len20. cbn [wx_caller wx_signers existsb].
  destruct (length h =? 20)%nat eqn:E; [|reflexivity]. cbn [andb]. rewrite orb_false_r.
  apply bytes_eqb_neq. intros ->. discriminate E.
Qed.

Lemma existsb_false_all {A} (f : A -> bool) l : (forall x, f x = false) -> existsb f l = false.
Proof. intros H. induction l as [|x l IH]; [reflexivity|]. cbn. rewrite H, IH. reflexivity. Qed.

Lemma eval_req_empty a r : needs_witness r = true -> eval_req empty_ctx a r = false.
Proof.
  induction r as [| | | | | | | |i|i|i o|i j|i| | |i| | |t|x IHx y IHy|x IHx y IHy|x IHx y IHy];
    cbn [eval_req needs_witness]; intros Hn; try discriminate Hn;
    try reflexivity; try apply witnessed_empty.
  - apply existsb_false_all. apply witnessed_empty.
  - rewrite witnessed_empty. reflexivity.
  - destruct (length (a_owner a) =? 0)%nat; rewrite ?witnessed_empty; reflexivity.
  - cbn [empty_ctx wx_caller]. unfold hash_len20.
    destruct (length (token_hash (a_chain a) t) =? 20)%nat eqn:E; [|reflexivity]. cbn [andb].
    apply bytes_eqb_neq. intros Heq. rewrite <- Heq in E. discriminate E.
  - apply andb_true_iff in Hn as [H1 H2]. destruct (ch_notary_off (a_chain a)); auto.
  - apply orb_true_iff in Hn as [H|H]; [rewrite (IHx H)|rewrite (IHy H), andb_false_r]; reflexivity.
  - apply andb_true_iff in Hn as [H1 H2]. rewrite (IHx H1), (IHy H2). reflexivity.
Qed.

(** Keys *)
Lemma contract_eqb_eq a b : contract_eqb a b = true <-> a = b.
Proof. destruct a, b; cbn; split; intros H; try reflexivity; try discriminate H. Qed.

Lemma mkey_eqb_eq a b : mkey_eqb a b = true <-> a = b.
Proof.
  destruct a as [[c1 m1] n1], b as [[c2 m2] n2]. unfold mkey_eqb.
  rewrite !andb_true_iff, contract_eqb_eq, String.eqb_eq, Nat.eqb_eq.
  split; [intros [[-> ->] ->]; reflexivity|intros H; injection H as -> -> ->; auto].
Qed.

Lemma lookup_In k t r : lookup k t = Some r -> In (k, r) t.
Proof.
  induction t as [|[k' r'] t IH]; cbn [lookup]; [discriminate|].
  destruct (mkey_eqb k k') eqn:E.
  - intros H. injection H as ->. apply mkey_eqb_eq in E as ->. left. reflexivity.
  - intros H. right. auto.
Qed.

Definition row_ok (x : mkey * req) : bool := needs_witness (snd x) || is_open (fst x).

Lemma table_rows_ok : forallb row_ok table = true.
Proof. vm_compute. reflexivity. Qed.

Lemma required_not_vacuous k r a :
  required k = Some r -> is_open k = false -> eval_req empty_ctx a r = false.
Proof.
  intros Hr Ho. apply lookup_In in Hr.
  pose proof table_rows_ok as Ht. rewrite forallb_forall in Ht. specialize (Ht _ Hr).
  unfold row_ok in Ht. cbn [fst snd] in Ht. rewrite Ho, orb_false_r in Ht.
  apply eval_req_empty. exact Ht.
Qed.

(** The open rows are rows, and their requirement indeed ignores witnesses. *)
Lemma open_rows_are_rows :
  forallb (fun k => match required k with Some r => negb (needs_witness r) | None => false end) open_rows = true.
Proof. vm_compute. reflexivity. Qed.

(** No method has two rows. *)
Fixpoint keys_distinct (l : list mkey) : bool :=
  match l with
  | [] => true
  | k :: l' => negb (existsb (mkey_eqb k) l') && keys_distinct l'
  end.
Lemma table_keys_distinct : keys_distinct (map fst table) = true.
Proof. vm_compute. reflexivity. Qed.

(** * (c) The Balance model obeys its rows *)
Definition to_bctx (c : ctx) (ch : chain) : bctx :=
  mkCtx (wx_caller c :: wx_signers c) (witnessed c (ch_alpha ch)).

Local Open Scope string_scope.
Definition bop_key (o : bop) : mkey :=
  match o with
  | Transfer _ _ _ => (KBalance, "transfer", 4)
  | TransferX _ _ _ _ => (KBalance, "transferX", 4)
  | Mint _ _ _ => (KBalance, "mint", 3)
  | Burn _ _ _ => (KBalance, "burn", 3)
  | Lock _ _ _ _ _ => (KBalance, "lock", 5)
  | NewEpoch _ => (KBalance, "newEpoch", 1)
  end%nat.

(** Principals named by the positional arguments of a Balance call. *)
Definition bop_princ (o : bop) : list bytes :=
  match o with
  | Transfer f t _ => [f; t]
  | TransferX f t _ _ => [f; t]
  | Mint t _ _ => [t]
  | Burn f _ _ => [f]
  | Lock _ f t _ _ => [[]; f; t]
  | NewEpoch _ => []
  end.

Lemma bstate_eta s : mkB (accts s) (supply s) = s.
Proof. destruct s. reflexivity. Qed.

Lemma usable_witnessed c ch f : usable (to_bctx c ch) f = witnessed c f.
Proof. reflexivity. Qed.

Lemma can_transfer_unusable c m f t z :
  usable c f = false -> can_transfer c m f t z false = None.
Proof.
  intros H. unfold can_transfer. cbn [negb]. rewrite H. cbn [negb]. rewrite orb_true_r. reflexivity.
Qed.

Lemma transfer_unusable c m f t z d fn tn :
  usable c f = false ->
  transfer c m f t z false d fn tn = Fault \/ transfer c m f t z false d fn tn = Halt (m, false, []).
Proof.
  intros H. unfold transfer. destruct (z <? 0)%Z; [left; reflexivity|].
  rewrite (can_transfer_unusable _ _ _ _ _ H). right. reflexivity.
Qed.

Lemma balance_inert s c a o r :
  a_princ a = bop_princ o ->
  required (bop_key o) = Some r ->
  eval_req c a r = false ->
  bstep s (to_bctx c (a_chain a), o) = (s, VFault, []) \/
  bstep s (to_bctx c (a_chain a), o) = (s, VBool false, []).
Proof.
  intros Hp Hr He. destruct o as [f t z|f t z d|t z d|f z d|d f t z u|e];
    vm_compute in Hr; injection Hr as <-; cbn [eval_req] in He;
    unfold bstep; cbn [fst snd bexec to_bctx alpha];
    try (rewrite He; cbn [oassert obind]; left; reflexivity).
  (* transfer: the guard is on [from] *)
  unfold arg_princ in He. rewrite Hp in He. cbn [bop_princ nth] in He.
  rewrite <- (usable_witnessed c (a_chain a)) in He.
  destruct (transfer_unusable _ (accts s) _ t z [] false false He) as [E|E]; rewrite E; cbn [obind].
  - left. reflexivity.
  - rewrite bstate_eta. right. reflexivity.
Qed.

(** * Soundness of the cases-file checker *)
Lemma check_case_sound x r :
  check_case x = None -> required (cs_key x) = Some r ->
  eval_req (cs_ctx x) (cs_args x) r = false ->
  cs_effect x = false /\ (cs_class x = OHaltOther -> is_silent_noop (cs_key x) = true).
Proof.
  unfold check_case. intros Hc Hr He. rewrite Hr, He in Hc.
  destruct (cs_effect x); [discriminate|]. split; [reflexivity|].
  intros Hcl. rewrite Hcl in Hc. destruct (is_silent_noop (cs_key x)); [reflexivity|discriminate Hc].
Qed.
