(** Proofs/BalanceLife.v — the lifecycle of one lock account over whole
    histories (C09): before expiry, at the releasing tick, afterwards. *)
From Verif Require Import Base.Prelude Base.IntCodec Model.Balance Proofs.BalanceSum Proofs.Balance
  Proofs.BalanceLock.
From Coq Require Import ZifyBool.
Local Open Scope Z_scope.

(** ** Lock metadata ([Until], [Parent]) is never rewritten: after any
    transfer every account either keeps it or ends up unmarked. *)
Definition metaR (m m' : gmap bytes account) : Prop :=
  forall k, (until (get_acc m' k) = until (get_acc m k) /\ parent (get_acc m' k) = parent (get_acc m k))
            \/ parent (get_acc m' k) = [].

Lemma is_lock_true a : is_lock a = true -> parent a <> [].
Proof. unfold is_lock. destruct (parent a); [discriminate|discriminate]. Qed.
Lemma is_lock_nil a : parent a = [] -> is_lock a = false.
Proof. unfold is_lock. intros ->. reflexivity. Qed.

Lemma metaR_refl m : metaR m m.
Proof. intros k. left. auto. Qed.

Lemma metaR_trans m1 m2 m3 : metaR m1 m2 -> metaR m2 m3 -> metaR m1 m3.
Proof.
  intros H12 H23 k. destruct (H23 k) as [[U P]|Z]; [|right; exact Z].
  destruct (H12 k) as [[U' P']|Z'].
  - left. split; congruence.
  - right. congruence.
Qed.

Lemma transfer_meta c m f t a ir d fn tn m' r ns :
  transfer c m f t a ir d fn tn = Halt (m', r, ns) -> metaR m m'.
Proof.
  unfold transfer. intros H.
  destruct (a <? 0) eqn:Ea; [discriminate|].
  destruct (can_transfer c m f t a ir) as [af|] eqn:Ec.
  2:{ injection H as <- <- <-. apply metaR_refl. }
  assert (Haf : hash_len f = true -> af = get_acc m f).
  { intros Hf. apply can_transfer_some in Ec as [(_ & -> & _)|(-> & _)]; [discriminate|reflexivity]. }
  set (m1 := if hash_len f then
               if bal af =? a then delete f m
               else <[f:=mkAcc (bal af - a) (until af) (parent af)]> m
             else m) in *.
  assert (H1 : metaR m m1).
  { subst m1. destruct (hash_len f) eqn:Hf; [|apply metaR_refl]. rewrite (Haf eq_refl).
    intros k. destruct (bal (get_acc m f) =? a).
    - rewrite get_acc_delete. destruct (bytes_eqb k f) eqn:E; [right; reflexivity|left; auto].
    - rewrite get_acc_insert. destruct (bytes_eqb k f) eqn:E; [|left; auto].
      apply bytes_eqb_eq in E. subst k. left. auto. }
  clearbody m1.
  destruct (hash_len t) eqn:Et; simpl in H.
  - destruct (vm_add (bal (get_acc m1 t)) a) as [nb|] eqn:Ev; simpl in H; [|discriminate].
    destruct (oassert ((fn || hash_len f) && (tn || true))); simpl in H; [|discriminate].
    injection H as <- <- <-. eapply metaR_trans; [exact H1|].
    intros k. rewrite get_acc_insert. destruct (bytes_eqb k t) eqn:E; [|left; auto].
    apply bytes_eqb_eq in E. subst k. left. auto.
  - destruct (oassert ((fn || hash_len f) && (tn || false))); simpl in H; [|discriminate].
    injection H as <- <- <-. exact H1.
Qed.

Lemma epoch_visit_meta c e m ns x m' ns' :
  epoch_visit c e (Halt (m, ns)) x = Halt (m', ns') -> metaR m m'.
Proof.
  unfold epoch_visit. simpl. intros H.
  destruct (negb (hash_len x)); [injection H as <- <-; apply metaR_refl|].
  destruct (negb (is_lock (get_acc m x))); [injection H as <- <-; apply metaR_refl|].
  destruct (e >=? until (get_acc m x)); [|injection H as <- <-; apply metaR_refl].
  destruct (transfer c m x (parent (get_acc m x)) (bal (get_acc m x)) true
              (unlock_details e) false false) as [[[m2 r2] ns2]|] eqn:Et; simpl in H; [|discriminate].
  injection H as <- <-. eapply transfer_meta; eauto.
Qed.

Lemma fold_epoch_meta c e l m ns m' ns' :
  fold_left (epoch_visit c e) l (Halt (m, ns)) = Halt (m', ns') -> metaR m m'.
Proof.
  revert m ns. induction l as [|x l IH]; cbn [fold_left]; intros m ns H.
  - injection H as <- <-. apply metaR_refl.
  - destruct (epoch_visit c e (Halt (m, ns)) x) as [[m1 ns1]|] eqn:E1.
    2:{ rewrite fold_epoch_fault in H. discriminate. }
    eapply metaR_trans; [eapply epoch_visit_meta; eauto|eapply IH; eauto].
Qed.

(** Per invocation: metadata is kept, cleared, or — for the target of a
    [Lock] — set to the locking account. *)
Lemma bexec_meta c s o s' r ns k :
  bexec c s o = Halt (s', r, ns) ->
  (until (get_acc (accts s') k) = until (get_acc (accts s) k) /\
   parent (get_acc (accts s') k) = parent (get_acc (accts s) k))
  \/ parent (get_acc (accts s') k) = []
  \/ (exists d f a u, o = Lock d f k a u /\ parent (get_acc (accts s') k) = f).
Proof.
  intros H.
  destruct o as [f t a|f t a d|t a d|f a d|d f t a u|e]; simpl in H.
  - destruct (transfer c (accts s) f t a false [] false false) as [[[m r0] ns0]|] eqn:Et; simpl in H; [|discriminate].
    injection H as <- <- <-. simpl. destruct (transfer_meta _ _ _ _ _ _ _ _ _ _ _ _ Et k); auto.
  - destruct (oassert (alpha c)); simpl in H; [|discriminate].
    destruct (transfer c (accts s) f t a true d false false) as [[[m r0] ns0]|] eqn:Et; simpl in H; [|discriminate].
    destruct (oassert r0); simpl in H; [|discriminate].
    injection H as <- <- <-. simpl. destruct (transfer_meta _ _ _ _ _ _ _ _ _ _ _ _ Et k); auto.
  - destruct (oassert (alpha c)); simpl in H; [|discriminate].
    destruct (transfer c (accts s) [] t a true (1%N :: d) true false) as [[[m r0] ns0]|] eqn:Et; simpl in H; [|discriminate].
    destruct (oassert r0); simpl in H; [|discriminate].
    destruct (vm_add (supply s) a); simpl in H; [|discriminate].
    injection H as <- <- <-. simpl. destruct (transfer_meta _ _ _ _ _ _ _ _ _ _ _ _ Et k); auto.
  - destruct (oassert (alpha c)); simpl in H; [|discriminate].
    destruct (transfer c (accts s) f [] a true (2%N :: d) false true) as [[[m r0] ns0]|] eqn:Et; simpl in H; [|discriminate].
    destruct (oassert r0); simpl in H; [|discriminate].
    destruct (oassert (negb (supply s <? a))); simpl in H; [|discriminate].
    injection H as <- <- <-. simpl. destruct (transfer_meta _ _ _ _ _ _ _ _ _ _ _ _ Et k); auto.
  - destruct (oassert (alpha c)); simpl in H; [|discriminate].
    destruct (transfer c (<[t:=mkAcc 0 u f]> (accts s)) f t a true (3%N :: d) false false) as [[[m r0] ns0]|] eqn:Et; simpl in H; [|discriminate].
    destruct (oassert r0); simpl in H; [|discriminate].
    destruct (oassert (hash_len f && hash_len t)); simpl in H; [|discriminate].
    injection H as <- <- <-. simpl.
    destruct (transfer_meta _ _ _ _ _ _ _ _ _ _ _ _ Et k) as [[U P]|Z]; [|auto].
    rewrite get_acc_insert in U, P. destruct (bytes_eqb k t) eqn:E.
    + apply bytes_eqb_eq in E. subst k. simpl in P. right. right. eauto 8.
    + left. auto.
  - destruct (oassert (alpha c)); simpl in H; [|discriminate].
    destruct (new_epoch c (accts s) e) as [[m ns0]|] eqn:En; simpl in H; [|discriminate].
    injection H as <- <- <-. simpl. unfold new_epoch in En.
    destruct (fold_epoch_meta _ _ _ _ _ _ _ En k); auto.
Qed.

(** ** A tick touches only due accounts and the parents of due accounts. *)
Lemma transfer_untouched c m f t a ir d fn tn m' r ns k :
  transfer c m f t a ir d fn tn = Halt (m', r, ns) -> k <> f -> k <> t -> m' !! k = m !! k.
Proof. intros H Hf Ht. eapply transfer_frame; eauto. Qed.

Definition tickI (m0 : gmap bytes account) (k : bytes) (m : gmap bytes account) : Prop :=
  (forall x, parent (get_acc m x) <> [] ->
     until (get_acc m x) = until (get_acc m0 x) /\ parent (get_acc m x) = parent (get_acc m0 x)) /\
  m !! k = m0 !! k.

Lemma epoch_visit_untouched c e m0 k m ns x m' ns' :
  due e m0 k = false ->
  (forall d, due e m0 d = true -> parent (get_acc m0 d) <> k) ->
  epoch_visit c e (Halt (m, ns)) x = Halt (m', ns') -> tickI m0 k m -> tickI m0 k m'.
Proof.
  intros Hk Hp H [I1 I2]. pose proof (epoch_visit_meta _ _ _ _ _ _ _ H) as HM.
  split.
  { intros y Hy. destruct (HM y) as [[U P]|Z]; [|congruence].
    rewrite P in Hy. destruct (I1 y Hy) as [U0 P0]. split; congruence. }
  unfold epoch_visit in H. simpl in H.
  destruct (negb (hash_len x)) eqn:Ex; [injection H as <- <-; exact I2|].
  destruct (negb (is_lock (get_acc m x))) eqn:Eu; [injection H as <- <-; exact I2|].
  destruct (e >=? until (get_acc m x)) eqn:Ee; [|injection H as <- <-; exact I2].
  destruct (transfer c m x (parent (get_acc m x)) (bal (get_acc m x)) true
              (unlock_details e) false false) as [[[m2 r2] ns2]|] eqn:Et; simpl in H; [|discriminate].
  injection H as <- <-.
  apply negb_false_iff in Eu.
  assert (Hu : parent (get_acc m x) <> []) by (apply is_lock_true; exact Eu).
  destruct (I1 x Hu) as [U0 P0].
  assert (Hdx : due e m0 x = true).
  { unfold due. rewrite <- U0, <- (is_lock_parent _ _ P0). apply negb_false_iff in Ex. rewrite Ex, Eu, Ee. reflexivity. }
  rewrite <- I2. eapply transfer_untouched; [exact Et| |].
  - intros ->. congruence.
  - rewrite P0. intros E. symmetry in E. exact (Hp x Hdx E).
Qed.

Lemma tick_untouched c m e m' ns k :
  new_epoch c m e = Halt (m', ns) -> due e m k = false ->
  (forall d, due e m d = true -> parent (get_acc m d) <> k) ->
  m' !! k = m !! k.
Proof.
  unfold new_epoch. intros H Hk Hp.
  assert (G : forall l m1 ns1 m2 ns2,
             fold_left (epoch_visit c e) l (Halt (m1, ns1)) = Halt (m2, ns2) ->
             tickI m k m1 -> tickI m k m2).
  { induction l as [|x l IH]; cbn [fold_left]; intros m1 ns1 m2 ns2 HF HI.
    - injection HF as <- <-. exact HI.
    - destruct (epoch_visit c e (Halt (m1, ns1)) x) as [[m3 ns3]|] eqn:E1.
      2:{ rewrite fold_epoch_fault in HF. discriminate. }
      eapply IH; [exact HF|]. eapply epoch_visit_untouched; eauto. }
  apply (G _ _ _ _ _ H). split; auto.
Qed.

(** ** The lifecycle of a lock account [l]. *)

(** No marked account refunds to [l] (true when [l] is a fresh address). *)
Definition norefund (l : bytes) (m : gmap bytes account) : Prop :=
  forall k, parent (get_acc m k) <> [] -> parent (get_acc m k) <> l.

Lemma norefund_empty l : norefund l ∅.
Proof. intros k H. exfalso. apply H. reflexivity. Qed.

Definition bruns (s : bstate) (ops : list (bctx * bop)) : bstate :=
  fold_left (fun s co => fst (fst (bstep s co))) ops s.

Lemma bruns_brun ops : bruns binit ops = brun ops.
Proof. reflexivity. Qed.

(** Operations allowed while the lock is pending: any tick with an earlier
    epoch, any burn (also from [l]), anything that does not name [l]. *)
Definition before_ok (l : bytes) (u : Z) (co : bctx * bop) : bool :=
  match snd co with
  | NewEpoch e => e <? u
  | Burn _ _ _ => true
  | o => negb (names l o)
  end.

(** ... and once it is gone: any tick, any burn, anything not naming [l]. *)
Definition after_ok (l : bytes) (co : bctx * bop) : bool :=
  match snd co with
  | NewEpoch _ => true
  | Burn _ _ _ => true
  | o => negb (names l o)
  end.

(** What successful burns from [l] took away along a history. *)
Fixpoint burned (l : bytes) (s : bstate) (ops : list (bctx * bop)) : Z :=
  match ops with
  | [] => 0
  | co :: rest =>
      let '(s', rv, _) := bstep s co in
      (match snd co with
       | Burn g x _ => if bytes_eqb g l && negb (val_eqb rv VFault) then x else 0
       | _ => 0
       end) + burned l s' rest
  end.

Lemma norefund_step l s co :
  (after_ok l co = true \/ exists d f a u, snd co = Lock d f l a u /\ f <> l) ->
  norefund l (accts s) -> norefund l (accts (fst (fst (bstep s co)))).
Proof.
  intros Hok HQ.
  destruct (bstep_cases s co) as [(s' & r & ns & He & ->)|(_ & ->)]; [|exact HQ].
  simpl. intros k Hk.
  destruct (bexec_meta _ _ _ _ _ _ k He) as [[U P]|[Z|(d & f & a & u & Ho & P)]].
  - rewrite P. apply HQ. congruence.
  - congruence.
  - rewrite P. destruct Hok as [Hok|(d' & f' & a' & u' & Ho' & Hf)].
    + unfold after_ok in Hok. rewrite Ho in Hok. simpl in Hok.
      apply negb_true_iff, orb_false_iff in Hok as [Hf _]. apply bytes_eqb_neq in Hf. exact Hf.
    + rewrite Ho in Ho'. injection Ho' as <- <- <- <- <-. exact Hf.
Qed.

Lemma before_after l u co : before_ok l u co = true -> after_ok l co = true.
Proof. unfold before_ok, after_ok. destruct (snd co); auto. Qed.

Lemma burn_absent c s l x d s' r ns :
  bexec c s (Burn l x d) = Halt (s', r, ns) -> hash_len l = true -> accts s !! l = None ->
  x = 0 /\ accts s' !! l = None.
Proof.
  simpl. intros H Hl Hn.
  destruct (alpha c) eqn:Ea; simpl in H; [|discriminate].
  destruct (transfer c (accts s) l [] x true (2%N :: d) false true) as [[[m r0] ns0]|] eqn:Et; simpl in H; [|discriminate].
  destruct (oassert r0) eqn:Er; simpl in H; [|discriminate]. apply oassert_halt in Er. subst r0.
  destruct (oassert (negb (supply s <? x))); simpl in H; [|discriminate].
  injection H as <- <- <-. simpl.
  unfold transfer, can_transfer in Et. simpl in Et.
  destruct (x <? 0) eqn:Eneg; [discriminate|].
  rewrite (hash_len_length _ Hl) in Et. rewrite (get_acc_none _ _ Hn) in Et. simpl in Et.
  destruct (0 <? x) eqn:Elt; [discriminate|].
  rewrite Hl in Et. simpl in Et.
  assert (x = 0) by lia. subst x. simpl in Et. injection Et as <- <-.
  split; [reflexivity|apply lookup_delete].
Qed.

(** State of the lock account during its life: still there with what was
    locked minus what was burnt, or deleted by a burn of everything. *)
Definition life_state (l : bytes) (b u : Z) (f : bytes) (s : bstate) (brn : Z) : Prop :=
  accts s !! l = Some (mkAcc (b - brn) u f) \/ (accts s !! l = None /\ brn = b).

Lemma life_step l u f b s co brn :
  hash_len l = true ->
  norefund l (accts s) -> life_state l b u f s brn -> before_ok l u co = true ->
  life_state l b u f (fst (fst (bstep s co))) (brn + burned l s [co]).
Proof.
  intros Hl HQ HS Hok. cbn [burned].
  destruct (bstep_cases s co) as [(s' & r & ns & He & Hb)|(_ & Hb)]; rewrite Hb; cbn [fst snd].
  2:{ destruct (snd co); try (rewrite Z.add_0_r; exact HS).
      rewrite andb_false_r. rewrite Z.add_0_r. exact HS. }
  destruct co as [c o]. cbn [fst snd] in *. unfold before_ok in Hok. cbn [snd] in Hok.
  assert (Hframe : names l o = false -> accts s' !! l = accts s !! l).
  { intros Hn. eapply bexec_frame; eauto. }
  assert (Hsame : forall z, z = 0 -> accts s' !! l = accts s !! l -> life_state l b u f s' (brn + z)).
  { intros z -> E. rewrite Z.add_0_r. unfold life_state. rewrite E. exact HS. }
  destruct o as [f0 t0 a0|f0 t0 a0 d0|t0 a0 d0|g x d0|d0 f0 t0 a0 u0|e].
  - apply negb_true_iff in Hok. apply Hsame; [reflexivity|]. apply Hframe, Hok.
  - apply negb_true_iff in Hok. apply Hsame; [reflexivity|]. apply Hframe, Hok.
  - apply negb_true_iff in Hok. apply Hsame; [reflexivity|]. apply Hframe, Hok.
  - (* Burn *)
    assert (Hr : val_eqb r VFault = false).
    { destruct (bexec_ret _ _ _ _ _ _ He) as [(-> & _)|(bb & ? & ? & ? & -> & _)]; reflexivity. }
    rewrite Hr. cbn [negb]. rewrite andb_true_r. rewrite Z.add_0_r.
    destruct (bytes_eqb g l) eqn:Eg.
    + apply bytes_eqb_eq in Eg. subst g. destruct HS as [HS|[HS Hb0]].
      * destruct (burn_lock _ _ _ _ _ _ _ _ _ He Hl HS) as (_ & Hx & Hl' & _). cbn [bal until parent] in Hl', Hx.
        destruct (b - brn =? x) eqn:Ex.
        -- right. split; [exact Hl'|lia].
        -- left. rewrite Hl'. f_equal. f_equal. lia.
      * destruct (burn_absent _ _ _ _ _ _ _ _ He Hl HS) as [-> Hl']. right. split; [exact Hl'|lia].
    + apply Hsame; [reflexivity|]. apply Hframe. simpl. exact Eg.
  - apply negb_true_iff in Hok. apply Hsame; [reflexivity|]. apply Hframe, Hok.
  - (* early tick *)
    apply Hsame; [reflexivity|].
    simpl in He. destruct (oassert (alpha c)); simpl in He; [|discriminate].
    destruct (new_epoch c (accts s) e) as [[m ns0]|] eqn:En; simpl in He; [|discriminate].
    injection He as <- <- <-. simpl.
    eapply tick_untouched; [exact En| |].
    + unfold due. destruct HS as [HS|[HS _]].
      * rewrite (get_acc_some _ _ _ HS). cbn [until]. replace (e >=? u) with false by lia.
        rewrite andb_false_r. reflexivity.
      * rewrite (get_acc_none _ _ HS). rewrite (is_lock_nil empty_acc eq_refl). rewrite andb_false_r. reflexivity.
    + intros d Hd. apply HQ. unfold due in Hd. apply andb_true_iff in Hd as [Hd _].
      apply andb_true_iff in Hd as [_ Hd]. apply is_lock_true. exact Hd.
Qed.

Lemma burned_cons l s co rest :
  burned l s (co :: rest) = burned l s [co] + burned l (fst (fst (bstep s co))) rest.
Proof. cbn [burned]. destruct (bstep s co) as [[s' rv] ns]. cbn [fst]. lia. Qed.

Lemma life_before_gen l u f b :
  hash_len l = true ->
  forall ops s brn, norefund l (accts s) -> life_state l b u f s brn ->
    forallb (before_ok l u) ops = true ->
    norefund l (accts (bruns s ops)) /\ life_state l b u f (bruns s ops) (brn + burned l s ops).
Proof.
  intros Hl. induction ops as [|co ops IH]; intros s brn HQ HS Hok.
  - simpl. rewrite Z.add_0_r. auto.
  - cbn [forallb] in Hok. apply andb_true_iff in Hok as [Hc Hr].
    cbn [bruns fold_left]. rewrite burned_cons.
    pose proof (life_step l u f b s co brn Hl HQ HS Hc) as HS'.
    pose proof (norefund_step l s co (or_introl (before_after _ _ _ Hc)) HQ) as HQ'.
    destruct (IH _ _ HQ' HS' Hr) as [Q2 S2]. split; [exact Q2|].
    rewrite Z.add_assoc. exact S2.
Qed.

(** Before expiry: whatever else happens, the lock account holds exactly
    what was locked minus what was burnt from it, with its expiry and owner
    intact — or it was deleted by a burn of everything that was left. *)
Lemma life_before l u f b ops s :
  hash_len l = true -> norefund l (accts s) ->
  accts s !! l = Some (mkAcc b u f) -> forallb (before_ok l u) ops = true ->
  norefund l (accts (bruns s ops)) /\
  (accts (bruns s ops) !! l = Some (mkAcc (b - burned l s ops) u f) \/
   (accts (bruns s ops) !! l = None /\ burned l s ops = b)).
Proof.
  intros Hl HQ HS Hok.
  destruct (life_before_gen l u f b Hl ops s 0 HQ) as [Q S]; [|exact Hok|].
  - left. rewrite Z.sub_0_r. exact HS.
  - split; [exact Q|]. rewrite Z.add_0_l in S. exact S.
Qed.

(** Afterwards: a released (or burnt-out) lock account stays absent for
    ever — no later tick, burn or foreign operation finds anything to debit. *)
Lemma life_after l ops s :
  hash_len l = true -> norefund l (accts s) -> accts s !! l = None ->
  forallb (after_ok l) ops = true ->
  norefund l (accts (bruns s ops)) /\ accts (bruns s ops) !! l = None.
Proof.
  intros Hl. revert s. induction ops as [|co ops IH]; intros s HQ HN Hok; [simpl; auto|].
  cbn [forallb] in Hok. apply andb_true_iff in Hok as [Hc Hr]. cbn [bruns fold_left].
  apply IH; [apply norefund_step; auto| |exact Hr].
  destruct (bstep_cases s co) as [(s' & r & ns & He & ->)|(_ & ->)]; [|exact HN]. simpl.
  destruct co as [c o]. cbn [fst snd] in *. unfold after_ok in Hc. cbn [snd] in Hc.
  destruct o as [f0 t0 a0|f0 t0 a0 d0|t0 a0 d0|g x d0|d0 f0 t0 a0 u0|e];
    try (apply negb_true_iff in Hc; rewrite <- HN; eapply bexec_frame; eauto).
  - destruct (bytes_eqb g l) eqn:Eg.
    + apply bytes_eqb_eq in Eg. subst g. eapply burn_absent; eauto.
    + rewrite <- HN. eapply bexec_frame; eauto.
  - simpl in He. destruct (oassert (alpha c)); simpl in He; [|discriminate].
    destruct (new_epoch c (accts s) e) as [[m ns0]|] eqn:En; simpl in He; [|discriminate].
    injection He as <- <- <-. simpl. rewrite <- HN.
    eapply tick_untouched; [exact En| |].
    + unfold due. rewrite (get_acc_none _ _ HN). rewrite (is_lock_nil empty_acc eq_refl). rewrite andb_false_r. reflexivity.
    + intros d Hd. apply HQ. unfold due in Hd. apply andb_true_iff in Hd as [Hd _].
      apply andb_true_iff in Hd as [_ Hd]. apply is_lock_true. exact Hd.
Qed.

(** Creating the lock keeps [norefund] (the new account refunds to [f <> l]). *)
Lemma lock_norefund c s d f l a u :
  f <> l -> norefund l (accts s) -> norefund l (accts (fst (fst (bstep s (c, Lock d f l a u))))).
Proof. intros Hf HQ. apply norefund_step; [|exact HQ]. right. simpl. eauto 8. Qed.

(** At the releasing tick: if [l] is the only due lock refunding to [f],
    [f] receives exactly the remaining balance. *)
Lemma paid_only e m V f l :
  NoDup V -> l ∈ V -> due e m l = true -> parent (get_acc m l) = f ->
  (forall k, k ∈ V -> k <> l -> due e m k = true -> parent (get_acc m k) <> f) ->
  paid e m V f = bal (get_acc m l).
Proof.
  intros Hnd Hin Hd Hp Hone.
  assert (Z0 : forall W, (forall k, k ∈ W -> k <> l) -> (forall k, k ∈ W -> k ∈ V) -> paid e m W f = 0).
  { induction W as [|w W IHW]; intros Hne Hsub; [reflexivity|]. simpl.
    rewrite IHW; [|intros k Hk; apply Hne; right; exact Hk|intros k Hk; apply Hsub; right; exact Hk].
    destruct (due e m w) eqn:Edw; simpl; [|reflexivity].
    destruct (bytes_eqb (parent (get_acc m w)) f) eqn:Ep; [|reflexivity].
    apply bytes_eqb_eq in Ep. exfalso. eapply (Hone w); [apply Hsub; left| apply Hne; left| |]; eauto. }
  induction V as [|v V IHV]; [inversion Hin|].
  apply NoDup_cons in Hnd as [Hv Hnd]. simpl.
  destruct (decide (v = l)) as [->|Hvl].
  - rewrite Hd, Hp, bytes_eqb_refl. simpl.
    rewrite (Z0 V); [lia| |].
    + intros k Hk ->. contradiction.
    + intros k Hk. right. exact Hk.
  - apply elem_of_cons in Hin as [->|Hin]; [congruence|].
    rewrite IHV; auto.
    + destruct (due e m v) eqn:Edv; simpl; [|lia].
      destruct (bytes_eqb (parent (get_acc m v)) f) eqn:Ep; [|lia].
      apply bytes_eqb_eq in Ep. exfalso. eapply (Hone v); eauto. left.
    + intros k Hk. apply Hone. right. exact Hk.
    + intros W Hne Hsub. apply Z0; auto. intros k Hk. right. auto.
Qed.
