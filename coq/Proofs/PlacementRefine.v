(** Proofs/PlacementRefine.v — every invocation preserves the storage
    invariant [Rc] between the contract storage and the list specification,
    hence after any history the roster read back is the specification's
    (C14_roster). *)
From Verif Require Import Base.Prelude Base.IntCodec Model.Placement Proofs.PlacementVerify
  Proofs.PlacementCodec Proofs.PlacementStore Proofs.PlacementRoster.
From Coq Require Import ZifyBool ZifyNat ZifyN.
Local Open Scope Z_scope.

Notation l2m l := (@list_to_map bytes bytes store _ _ l) (only parsing).
Notation lkp m k := (@lookup bytes bytes store _ k m) (only parsing).

(** * Transport of the invariant along unchanged keys *)

Lemma Rc_ext (s s' : store) a a' cid :
  (forall k, roster_pfx cid k = true -> s' !! k = s !! k) ->
  (forall v, pend a' cid v = pend a cid v) -> (forall v, comm a' cid v = comm a cid v) ->
  areps a' cid = areps a cid ->
  Rc s a cid -> Rc s' a' cid.
Proof.
  intros Hs Hp Hc Hr [RU RN RR]. unfold roster_pfx in Hs. split.
  - intros k val. split.
    + intros [H1 H2]. rewrite Hs in H2 by (by rewrite H1).
      destruct (proj1 (RU k val) (conj H1 H2)) as (v & j & He & Hj). exists v, j. rewrite Hp. auto.
    + intros (v & j & He & Hj). rewrite Hp in Hj. destruct (proj2 (RU k val)) as [H1 H2]; [eauto|].
      split; [exact H1|]. rewrite Hs; [exact H2|]. by rewrite H1.
  - intros k val. split.
    + intros [H1 H2]. rewrite Hs in H2 by (by rewrite H1, orb_true_r).
      destruct (proj1 (RN k val) (conj H1 H2)) as (v & j & He & Hj). exists v, j. rewrite Hc. auto.
    + intros (v & j & He & Hj). rewrite Hc in Hj. destruct (proj2 (RN k val)) as [H1 H2]; [eauto|].
      split; [exact H1|]. rewrite Hs; [exact H2|]. by rewrite H1, orb_true_r.
  - intros k val. split.
    + intros [H1 H2]. rewrite Hs in H2 by (by rewrite H1, orb_true_r).
      destruct (proj1 (RR k val) (conj H1 H2)) as (i & He & Hi). exists i. rewrite Hr. auto.
    + intros (i & He & Hi). rewrite Hr in Hi. destruct (proj2 (RR k val)) as [H1 H2]; [eauto|].
      split; [exact H1|]. rewrite Hs; [exact H2|]. by rewrite H1, orb_true_r.
Qed.

Lemma awf_ext a a' cid :
  (forall v, pend a' cid v = pend a cid v) -> (forall v, comm a' cid v = comm a cid v) ->
  areps a' cid = areps a cid -> awf a cid -> awf a' cid.
Proof.
  intros Hp Hc Hr [W1 W2 W3 W4]. split.
  - intros v. rewrite Hp. apply W1.
  - intros v x. rewrite Hp. apply W2.
  - intros v. rewrite Hc. apply W3.
  - rewrite Hr. exact W4.
Qed.

Lemma roster_pfx_disjoint cid cid' x :
  length cid = length cid' -> cid <> cid' -> roster_pfx cid x = true -> roster_pfx cid' x = false.
Proof.
  intros Hl Hne Hx. unfold roster_pfx in *.
  destruct pfx_heads as (N1 & N2 & N3 & N4 & N5 & N6).
  assert (H : forall c c', is_prefix (c :: cid) x = true -> is_prefix (c' :: cid') x = false).
  { intros c c' Hc. destruct (is_prefix (c' :: cid') x) eqn:E; [|reflexivity].
    exfalso. eapply (prefix_cid_disjoint c c' cid cid'); eauto. }
  apply orb_true_iff in Hx as [Hx|Hx]; [apply orb_true_iff in Hx as [Hx|Hx]|];
    rewrite !(H _ _ Hx); reflexivity.
Qed.

Lemma upd_same {B} (f : bytes -> B) cid x : upd f cid x cid = x.
Proof. unfold upd. by rewrite bytes_eqb_refl. Qed.
Lemma upd_other {B} (f : bytes -> B) cid cid' x : cid <> cid' -> upd f cid' x cid = f cid.
Proof. intros Hne. unfold upd. by rewrite (proj2 (bytes_eqb_neq cid cid') Hne). Qed.
Lemma upd2_same f cid b x v : upd2 f cid b x cid v = if N.eqb v b then x else f cid v.
Proof. unfold upd2. by rewrite bytes_eqb_refl. Qed.
Lemma upd2_other f cid cid' b x v : cid <> cid' -> upd2 f cid' b x cid v = f cid v.
Proof. intros Hne. unfold upd2. by rewrite (proj2 (bytes_eqb_neq cid cid') Hne). Qed.

(** * addNextEpochNodes on the container under consideration *)

Ltac ib H x Hx := apply obind_halt in H as (x & Hx & H).

Lemma last_counter_spec s a cid b :
  Rc s a cid -> awf a cid ->
  last_counter (pU :: cid ++ [b]) s = Halt (Z.of_nat (length (pend a cid b))).
Proof.
  intros HR Hwf. unfold last_counter.
  rewrite (vec_find pU s (pend a cid) cid b (rc_u _ _ _ HR) (wf_pend_len _ _ Hwf b)).
  destruct (last (pend a cid b)) as [x|] eqn:El.
  - rewrite (last_ents _ _ x 0 El). rewrite drop_app. simpl.
    apply cfb_ctb. pose proof (wf_pend_len _ _ Hwf b). lia.
  - apply last_None in El. rewrite El. reflexivity.
Qed.

Lemma validate_index_spec s a cid vec :
  Rc s a cid -> awf a cid -> -128 < vec -> vec < 255 ->
  validate_index s cid vec =
    if (vec =? 0) || negb (bool_decide (pend a cid (vec_byte (vec - 1)) = [])) then Halt tt else Fault.
Proof.
  intros HR Hwf H1 H2. unfold validate_index. destruct (vec =? 0); [reflexivity|]. simpl.
  rewrite byte_of_ok by lia. simpl.
  rewrite (vec_find pU s (pend a cid) cid _ (rc_u _ _ _ HR) (wf_pend_len _ _ Hwf _)).
  destruct (pend a cid (vec_byte (vec - 1))) as [|x l] eqn:E.
  - reflexivity.
  - rewrite ents_cons. rewrite bool_decide_eq_false_2 by done. reflexivity.
Qed.

Lemma add_same_halt s a cid alpha vec keys :
  Rc s a cid -> awf a cid -> length cid = 32%nat ->
  add_ok a alpha cid vec keys = true ->
  Z.of_nat (length (pend a cid (vec_byte vec) ++ keys)) <= 65535 ->
  add_next_epoch_nodes alpha s cid vec keys =
    Halt (l2m (ents (pU :: cid ++ [vec_byte vec]) (length (pend a cid (vec_byte vec))) keys) ∪ s).
Proof.
  intros HR Hwf Hc Hok Hrange. unfold add_ok in Hok.
  repeat (apply andb_true_iff in Hok as [Hok ?]).
  rename H into Hkeys, H0 into Hval, H1 into Hhi, H2 into Hlo, H3 into Hcid. subst alpha.
  apply Z.ltb_lt in Hhi, Hlo.
  unfold add_next_epoch_nodes. rewrite Hcid. cbn [oassert obind].
  destruct (Z.leb_spec 255 vec); [lia|]. cbn [negb oassert obind].
  rewrite (validate_index_spec s a cid vec HR Hwf Hlo Hhi), Hval. cbn [oassert obind].
  rewrite byte_of_ok by lia. cbn [obind].
  rewrite (last_counter_spec s a cid _ HR Hwf). cbn [obind].
  apply add_loop_exact; [simpl; rewrite app_length; simpl; lia| |exact Hkeys].
  rewrite app_length in Hrange. lia.
Qed.

Lemma add_same_inv s a cid alpha vec keys s' :
  Rc s a cid -> awf a cid -> length cid = 32%nat ->
  add_next_epoch_nodes alpha s cid vec keys = Halt s' ->
  add_ok a alpha cid vec keys = true.
Proof.
  intros HR Hwf Hc H. unfold add_next_epoch_nodes in H.
  ib H u1 Hcid. apply oassert_halt in Hcid.
  ib H u2 Hhi. apply oassert_halt in Hhi.
  destruct (Z.leb_spec 255 vec) as [|Hhi']; [discriminate|]. clear Hhi. rename Hhi' into Hhi.
  ib H u3 Hval.
  ib H u4 Halpha. apply oassert_halt in Halpha. subst alpha.
  ib H b Hb. apply byte_of_spec in Hb as [-> Hb].
  ib H n Hn. apply add_loop_halt_len in H.
  assert (Hlo : -128 < vec).
  { unfold validate_index in Hval. destruct (Z.eqb_spec vec 0) as [->|]; [lia|].
    apply obind_halt in Hval as (b' & Hb' & _). apply byte_of_spec in Hb'. lia. }
  rewrite (validate_index_spec s a cid vec HR Hwf Hlo Hhi) in Hval.
  unfold add_ok. rewrite Hcid, H. rewrite (proj2 (Z.ltb_lt _ _) Hlo), (proj2 (Z.ltb_lt _ _) Hhi).
  simpl. destruct (_ || _); [reflexivity|discriminate].
Qed.

Lemma ents_frame P n keys k :
  is_prefix P k = false -> lkp (l2m (ents P n keys)) k = None.
Proof.
  intros Hp. apply not_elem_of_list_to_map. intros ([k' x] & -> & Hin)%elem_of_list_fmap.
  apply elem_of_ents in Hin as (t & -> & _). simpl in Hp. by rewrite is_prefix_refl_app in Hp.
Qed.

Lemma ents_NoDup P n keys :
  Z.of_nat (n + length keys) <= 65535 -> NoDup (map fst (ents P n keys)).
Proof. intros Hr. by apply strict_sorted, ents_sorted. Qed.

Lemma ukey_inj c cid v v' j j' :
  Z.of_nat j < 65535 -> Z.of_nat j' < 65535 -> ukey c cid v j = ukey c cid v' j' -> v = v' /\ j = j'.
Proof.
  intros Hj Hj' He. unfold ukey in He. simpl in He. injection He as He.
  rewrite <- !app_assoc in He. apply app_inv_head in He. simpl in He. injection He as -> He.
  split; [reflexivity|]. apply ctb_inj in He; lia.
Qed.

Lemma add_same_Rc s a cid vec keys :
  Rc s a cid -> awf a cid -> length cid = 32%nat ->
  forallb pubkey_len keys = true ->
  Z.of_nat (length (pend a cid (vec_byte vec) ++ keys)) <= 65535 ->
  let a' := mkA (upd2 (pend a) cid (vec_byte vec) (pend a cid (vec_byte vec) ++ keys)) (comm a) (areps a) in
  Rc (l2m (ents (pU :: cid ++ [vec_byte vec]) (length (pend a cid (vec_byte vec))) keys) ∪ s) a' cid /\ awf a' cid.
Proof.
  intros HR Hwf Hc Hkeys Hrange. set (b := vec_byte vec) in *. intros a'.
  set (l := pend a cid b) in *. set (n := length l).
  set (P := pU :: cid ++ [b]). set (M := l2m (ents P n keys)).
  assert (Hn : Z.of_nat (n + length keys) <= 65535) by (rewrite app_length in Hrange; unfold n; lia).
  assert (Hpa : forall v, pend a' cid v = if N.eqb v b then l ++ keys else pend a cid v)
    by (intros v; unfold a'; simpl; apply upd2_same).
  assert (HMfr : forall k, is_prefix (pU :: cid) k = false -> (M ∪ s) !! k = s !! k).
  { intros k Hk. apply lookup_union_r, ents_frame.
    destruct (is_prefix P k) eqn:E; [|reflexivity]. rewrite <- Hk. symmetry.
    eapply is_prefix_trans; [|exact E]. unfold P. rewrite is_prefix_cons_same. apply is_prefix_refl_app. }
  destruct pfx_heads as (N1 & N2 & N3 & N4 & N5 & N6).
  split; [split|].
  - (* pending *)
    intros k val. split.
    + intros [Hp Hs]. destruct (lkp M k) as [x|] eqn:EM.
      * rewrite (lookup_union_Some_l _ _ _ _ EM) in Hs. injection Hs as ->.
        apply elem_of_list_to_map_2, elem_of_ents in EM as (t & -> & Ht).
        exists b, (n + t)%nat. split; [reflexivity|]. rewrite Hpa, N.eqb_refl.
        rewrite lookup_app_r by (unfold n; lia). replace (n + t - length l)%nat with t by (unfold n; lia). exact Ht.
      * rewrite (lookup_union_r _ _ _ EM) in Hs.
        destruct (proj1 (rc_u _ _ _ HR k val) (conj Hp Hs)) as (v & j & -> & Hj).
        exists v, j. split; [reflexivity|]. rewrite Hpa. destruct (N.eqb_spec v b) as [->|]; [|exact Hj].
        by apply lookup_app_l_Some.
    + intros (v & j & -> & Hj). split; [apply ukey_prefix|]. rewrite Hpa in Hj.
      destruct (N.eqb_spec v b) as [->|Hvb].
      * destruct (le_lt_dec n j) as [Hge|Hlt].
        -- rewrite lookup_app_r in Hj by (unfold n in Hge; lia).
           apply lookup_union_Some_l. apply elem_of_list_to_map_1; [by apply ents_NoDup|].
           apply elem_of_ents. exists (j - n)%nat. split; [|exact Hj].
           unfold ukey, P. do 3 f_equal. lia.
        -- rewrite lookup_app_l in Hj by (unfold n in Hlt; lia).
           rewrite lookup_union_r.
           ++ apply (proj2 (rc_u _ _ _ HR _ val)). eauto.
           ++ destruct (lkp M (ukey pU cid b j)) as [x|] eqn:EM; [|reflexivity]. exfalso.
              apply elem_of_list_to_map_2, elem_of_ents in EM as (t & He & Ht).
              apply lookup_lt_Some in Ht.
              change (P ++ ctb (Z.of_nat (n + t) + 1)) with (ukey pU cid b (n + t)) in He.
              apply ukey_inj in He as [_ He]; lia.
      * rewrite lookup_union_r.
        -- apply (proj2 (rc_u _ _ _ HR _ val)). eauto.
        -- apply ents_frame. destruct (is_prefix P (ukey pU cid v j)) eqn:E; [|reflexivity].
           apply ukey_vec_prefix in E. congruence.
  - (* committed: untouched *)
    intros k val. unfold a'. cbn [comm]. rewrite <- (rc_n _ _ _ HR k val). split; intros [H1 H2]; (split; [exact H1|]).
    + rewrite <- HMfr; [exact H2|]. apply is_prefix_cons_inv in H1 as (x' & -> & _). by apply is_prefix_cons_ne.
    + rewrite HMfr; [exact H2|]. apply is_prefix_cons_inv in H1 as (x' & -> & _). by apply is_prefix_cons_ne.
  - intros k val. unfold a'. cbn [areps]. rewrite <- (rc_r _ _ _ HR k val). split; intros [H1 H2]; (split; [exact H1|]).
    + rewrite <- HMfr; [exact H2|]. apply is_prefix_cons_inv in H1 as (x' & -> & _). by apply is_prefix_cons_ne.
    + rewrite HMfr; [exact H2|]. apply is_prefix_cons_inv in H1 as (x' & -> & _). by apply is_prefix_cons_ne.
  - destruct Hwf as [W1 W2 W3 W4]. split; try assumption.
    + intros v. rewrite Hpa. destruct (N.eqb v b); [exact Hrange|apply W1].
    + intros v x. rewrite Hpa. destruct (N.eqb v b); [|apply W2].
      intros [Hx|Hx]%elem_of_app; [by apply (W2 b)|].
      rewrite forallb_forall in Hkeys. apply elem_of_list_In, Hkeys in Hx.
      unfold pubkey_len in Hx. by apply Nat.eqb_eq in Hx.
Qed.

(** * addNextEpochNodes on another container *)

Lemma add_frame alpha (s s' : store) cid' vec keys :
  add_next_epoch_nodes alpha s cid' vec keys = Halt s' ->
  length cid' = 32%nat /\ forall k, is_prefix (pU :: cid') k = false -> s' !! k = s !! k.
Proof.
  unfold add_next_epoch_nodes. intros H.
  ib H u1 Hc. apply oassert_halt in Hc. unfold hash256_len in Hc. apply Nat.eqb_eq in Hc.
  ib H u2 H2. ib H u3 H3. ib H u4 H4. ib H b Hb. ib H n Hn.
  split; [exact Hc|]. intros k Hk. eapply add_loop_frame; [exact H|].
  destruct (is_prefix (pU :: cid' ++ [b]) k) eqn:E; [|reflexivity]. rewrite <- Hk. symmetry.
  eapply is_prefix_trans; [|exact E]. rewrite is_prefix_cons_same. apply is_prefix_refl_app.
Qed.

(** * commitContainerListUpdate on the container under consideration *)

Lemma commit_same_halt s a cid alpha reps :
  Rc s a cid -> awf a cid -> length cid = 32%nat ->
  commit_ok alpha cid reps = true ->
  exists s4, commit_list_update alpha s cid reps = Halt (s4, [NNodesUpdate cid]).
Proof.
  intros HR Hwf Hc Hok. unfold commit_ok in Hok.
  apply andb_true_iff in Hok as [Hok Hreps]. apply andb_true_iff in Hok as [-> Hcid].
  unfold commit_list_update. rewrite Hcid. cbn [oassert obind].
  set (s1 := del_all (map fst (sfind (pN :: cid) s)) s).
  destruct pfx_heads as (N1 & N2 & N3 & N4 & N5 & N6).
  destruct (move_loop_halts (sfind (pU :: cid) s1) s1) as [s2 Hs2].
  { intros [k v] [Hs Hp]%elem_of_sfind. cbn [fst snd].
    unfold s1 in Hs. rewrite del_sfind_lookup in Hs.
    apply is_prefix_cons_inv in Hp as (k' & -> & Hp). rewrite is_prefix_cons_ne in Hs by done.
    destruct (proj1 (rc_u _ _ _ HR (pU :: k') v)) as (v' & j & He & Hj).
    { split; [by rewrite is_prefix_cons_same|exact Hs]. }
    pose proof (wf_pend_len _ _ Hwf v') as Hl. pose proof (lookup_lt_Some _ _ _ Hj) as Hjl.
    pose proof (ctb_length (Z.of_nat j + 1) ltac:(lia)) as Hcl.
    rewrite He. unfold ukey. split; [|split; [|done]].
    - simpl. rewrite !app_length. simpl. lia.
    - rewrite (wf_pend_33 _ _ Hwf v' v); [lia|]. by eapply elem_of_list_lookup_2. }
  rewrite Hs2. cbn [obind].
  set (s3 := del_all (map fst (sfind (pR :: cid) s2)) s2).
  destruct reps as [l|]; [|eauto].
  simpl in Hreps. apply andb_true_iff in Hreps as [Hlen Hall]. apply Nat.leb_le in Hlen.
  destruct (reps_loop_halts cid l 0 s3 Hc ltac:(simpl; lia) Hall) as [s4 Hs4].
  change (Z.of_nat 0) with 0 in Hs4. rewrite Hs4. eauto.
Qed.

Lemma ukey_cons c cid v j : ukey c cid v j = c :: (cid ++ [v]) ++ ctb (Z.of_nat j + 1).
Proof. reflexivity. Qed.

Lemma commit_lookup_N (s : store) cid l k' :
  is_prefix cid k' = true -> commit_lookup s cid l (pN :: k') = s !! (pU :: k').
Proof.
  intros Hp. unfold commit_lookup. destruct pfx_heads as (N1 & N2 & N3 & N4 & N5 & N6).
  rewrite is_prefix_cons_ne, is_prefix_cons_same, Hp by done. reflexivity.
Qed.

Lemma commit_same_Rc s a cid (l : list Z) s4 :
  Rc s a cid -> awf a cid -> length cid = 32%nat ->
  (length l <= 256)%nat -> forallb rep_val_ok l = true ->
  (forall x, s4 !! x = commit_lookup s cid l x) ->
  let a' := mkA (upd (pend a) cid (fun _ => [])) (upd (comm a) cid (pend a cid)) (upd (areps a) cid l) in
  Rc s4 a' cid /\ awf a' cid.
Proof.
  intros HR Hwf Hc Hlen Hall Hs4 a'.
  assert (Hp' : pend a' cid = fun _ => []) by (unfold a'; simpl; apply upd_same).
  assert (Hc' : comm a' cid = pend a cid) by (unfold a'; simpl; apply upd_same).
  assert (Hr' : areps a' cid = l) by (unfold a'; simpl; apply upd_same).
  destruct pfx_heads as (N1 & N2 & N3 & N4 & N5 & N6).
  split; [split|].
  - intros k val. rewrite Hp'. split.
    + intros [Hp Hs]. rewrite Hs4 in Hs. unfold commit_lookup in Hs. rewrite Hp in Hs. discriminate.
    + intros (v & j & _ & Hj). by rewrite lookup_nil in Hj.
  - intros k val. rewrite Hc'. split.
    + intros [Hp Hs]. rewrite Hs4 in Hs. unfold commit_lookup in Hs.
      apply is_prefix_cons_inv in Hp as (k' & -> & Hp).
      rewrite is_prefix_cons_ne, is_prefix_cons_same, Hp in Hs by done. simpl in Hs.
      destruct (proj1 (rc_u _ _ _ HR (pU :: k') val)) as (v & j & He & Hj).
      { split; [by rewrite is_prefix_cons_same|exact Hs]. }
      exists v, j. split; [|exact Hj]. rewrite ukey_cons in He |- *. injection He as ->. reflexivity.
    + intros (v & j & -> & Hj). split; [apply ukey_prefix|].
      rewrite Hs4, ukey_cons, commit_lookup_N.
      * destruct (proj2 (rc_u _ _ _ HR (ukey pU cid v j) val)) as [_ Hs]; [eauto|]. exact Hs.
      * rewrite <- app_assoc. apply is_prefix_refl_app.
  - intros k val. rewrite Hr'. split.
    + intros [Hp Hs]. rewrite Hs4 in Hs. unfold commit_lookup in Hs.
      pose proof Hp as Hp2. apply is_prefix_cons_inv in Hp2 as (k' & -> & Hp2).
      rewrite !is_prefix_cons_ne in Hs by done. rewrite Hp in Hs.
      apply elem_of_list_to_map_2, elem_of_rents in Hs as (t & r & He & Ht & ->).
      exists t. split; [exact He|]. by rewrite Ht.
    + intros (i & -> & Hi). split; [apply (is_prefix_refl_app (pR :: cid))|].
      rewrite Hs4. unfold commit_lookup. rewrite !is_prefix_cons_ne by done.
      rewrite is_prefix_cons_same, is_prefix_refl_app.
      destruct (l !! i) as [r|] eqn:Er; [|discriminate]. injection Hi as <-.
      apply elem_of_list_to_map_1; [apply strict_sorted, rents_sorted|].
      apply elem_of_rents. exists i, r. auto.
  - destruct Hwf as [W1 W2 W3 W4]. split.
    + intros v. rewrite Hp'. simpl. lia.
    + intros v x. rewrite Hp'. intros Hx. inversion Hx.
    + intros v. rewrite Hc'. apply W1.
    + rewrite Hr'. auto.
Qed.

(** * Other operations *)

Lemma apply_writes_lookup w : forall (s : store) k,
  (forall kv, kv ∈ w -> fst kv <> k) -> apply_writes w s !! k = s !! k.
Proof.
  induction w as [|[k0 o] w IH]; intros s k Hk; [reflexivity|].
  unfold apply_writes in *. simpl. rewrite IH by (intros kv Hkv; apply Hk; by right).
  assert (k0 <> k) by (apply (Hk (k0, o)); left).
  destruct o; [by apply lookup_insert_ne|by apply lookup_delete_ne].
Qed.

Lemma range_ok_from_app cid ops o : forall a,
  range_ok_from cid a (ops ++ [o]) = range_ok_from cid a ops && range_ok_op cid (fold_left astep ops a) o.
Proof.
  induction ops as [|o' ops IH]; intros a; simpl; [by rewrite andb_true_r|].
  rewrite IH. by rewrite andb_assoc.
Qed.

Section Refine.
  Variable sigvalid : bytes -> bytes -> bytes -> bool.
  Variable pubvalid : bytes -> bool.
  Variable deser : bytes -> option (list (bytes * val)).
  Variable notify_fits : bytes -> bool.
  Variable network : Z.

  Notation pexec := (pexec sigvalid pubvalid deser notify_fits network).
  Notation pstep := (pstep sigvalid pubvalid deser notify_fits network).
  Notation prun_from := (prun_from sigvalid pubvalid deser notify_fits network).
  Notation prun := (prun sigvalid pubvalid deser notify_fits network).

  (** What one invocation answers, in terms of the specification. *)
  Definition step_result (a : astate) (o : pop) (r : val) : Prop :=
    match o with
    | OAdd alpha cid vec keys => r = if add_ok a alpha cid vec keys then VNull else VFault
    | OCommit alpha cid reps => r = if commit_ok alpha cid reps then VNull else VFault
    | _ => True
    end.

  Definition about (cid : bytes) (o : pop) : bool :=
    match o with
    | OAdd _ c _ _ | OCommit _ c _ => bytes_eqb c cid
    | _ => false
    end.

  Lemma step_inv cid s a o :
    length cid = 32%nat -> Rc s a cid -> awf a cid ->
    frame_ok_op cid o = true -> range_ok_op cid a o = true ->
    Rc (fst (fst (pstep s o))) (astep a o) cid /\ awf (astep a o) cid /\
    (about cid o = true -> step_result a o (snd (fst (pstep s o)))).
  Proof.
    intros Hc HR Hwf Hframe Hrange. unfold pstep.
    destruct o as [alpha cid' vec keys|alpha cid' reps|cid' vec|cid'|cid' msg sigs|raw sigs cur|w|pfx];
      cbn [pexec astep about step_result].
    - (* OAdd *)
      destruct (decide (cid' = cid)) as [->|Hne].
      + cbn [range_ok_op] in Hrange. rewrite bytes_eqb_refl in Hrange. simpl in Hrange.
        destruct (add_ok a alpha cid vec keys) eqn:Eok.
        * simpl in Hrange. apply Z.leb_le in Hrange.
          rewrite (add_same_halt s a cid alpha vec keys HR Hwf Hc Eok Hrange). cbn [obind fst snd].
          unfold add_ok in Eok. apply andb_true_iff in Eok as [_ Hkeys].
          destruct (add_same_Rc s a cid vec keys HR Hwf Hc Hkeys Hrange) as [R' W'].
          split; [exact R'|]. split; [exact W'|]. intros _. reflexivity.
        * destruct (add_next_epoch_nodes alpha s cid vec keys) as [s'|] eqn:E.
          { apply (add_same_inv s a cid alpha vec keys s' HR Hwf Hc) in E. congruence. }
          cbn [obind fst snd]. split; [exact HR|]. split; [exact Hwf|]. intros _. reflexivity.
      + assert (Hb : bytes_eqb cid' cid = false) by by apply bytes_eqb_neq.
        rewrite Hb.
        assert (Ha' : forall a', a' = (if add_ok a alpha cid' vec keys
                       then mkA (upd2 (pend a) cid' (vec_byte vec) (pend a cid' (vec_byte vec) ++ keys)) (comm a) (areps a)
                       else a) ->
                      (forall v, pend a' cid v = pend a cid v) /\ (forall v, comm a' cid v = comm a cid v) /\
                      areps a' cid = areps a cid).
        { intros a' ->. destruct (add_ok a alpha cid' vec keys); [|auto]. simpl.
          split; [|auto]. intros v. apply upd2_other. congruence. }
        destruct (Ha' _ eq_refl) as (E1 & E2 & E3).
        destruct (add_next_epoch_nodes alpha s cid' vec keys) as [s'|] eqn:E; cbn [obind fst snd].
        * apply add_frame in E as [Hc' Hfr].
          split; [|split; [by eapply awf_ext|discriminate]].
          apply (Rc_ext s s' a _ cid); [|exact E1|exact E2|exact E3|exact HR]. intros k Hk. apply Hfr.
          pose proof (roster_pfx_disjoint cid cid' k ltac:(congruence) ltac:(congruence) Hk) as Hd.
          unfold roster_pfx in Hd. apply orb_false_iff in Hd as [Hd _]. by apply orb_false_iff in Hd as [Hd _].
        * split; [|split; [by eapply awf_ext|discriminate]]. by apply (Rc_ext s s a _ cid).
    - (* OCommit *)
      destruct (decide (cid' = cid)) as [->|Hne].
      + rewrite bytes_eqb_refl. destruct (commit_ok alpha cid reps) eqn:Eok.
        * destruct (commit_same_halt s a cid alpha reps HR Hwf Hc Eok) as [s4 Hs4].
          rewrite Hs4. cbn [obind fst snd].
          apply commit_inv in Hs4 as (_ & _ & Hrok & _ & Hlk).
          assert (Hl : (length (default [] reps) <= 256)%nat /\ forallb rep_val_ok (default [] reps) = true).
          { destruct reps as [l|]; simpl in *; [|split; [lia|reflexivity]].
            apply andb_true_iff in Hrok as [H1 H2]. apply Nat.leb_le in H1. auto. }
          destruct (commit_same_Rc s a cid (default [] reps) s4 HR Hwf Hc (proj1 Hl) (proj2 Hl) Hlk) as [R' W'].
          split; [exact R'|]. split; [exact W'|]. intros _. reflexivity.
        * destruct (commit_list_update alpha s cid reps) as [[s4 ns]|] eqn:E.
          { apply commit_inv in E as (-> & Hh & Hrok & _). unfold commit_ok in Eok.
            rewrite Hh, Hrok in Eok. discriminate. }
          cbn [obind fst snd]. split; [exact HR|]. split; [exact Hwf|]. intros _. reflexivity.
      + assert (Hb : bytes_eqb cid' cid = false) by by apply bytes_eqb_neq.
        rewrite Hb.
        assert (E123 : (forall v, pend (if commit_ok alpha cid' reps
                          then mkA (upd (pend a) cid' (fun _ => [])) (upd (comm a) cid' (pend a cid')) (upd (areps a) cid' (default [] reps))
                          else a) cid v = pend a cid v) /\
                       (forall v, comm (if commit_ok alpha cid' reps
                          then mkA (upd (pend a) cid' (fun _ => [])) (upd (comm a) cid' (pend a cid')) (upd (areps a) cid' (default [] reps))
                          else a) cid v = comm a cid v) /\
                       areps (if commit_ok alpha cid' reps
                          then mkA (upd (pend a) cid' (fun _ => [])) (upd (comm a) cid' (pend a cid')) (upd (areps a) cid' (default [] reps))
                          else a) cid = areps a cid).
        { destruct (commit_ok alpha cid' reps); [|auto]. simpl.
          rewrite !upd_other by congruence. auto. }
        destruct E123 as (E1 & E2 & E3).
        destruct (commit_list_update alpha s cid' reps) as [[s4 ns]|] eqn:E; cbn [obind fst snd].
        * apply commit_inv in E as (_ & Hh & _ & _ & Hlk).
          unfold hash256_len in Hh. apply Nat.eqb_eq in Hh.
          split; [|split; [by eapply awf_ext|discriminate]].
          apply (Rc_ext s s4 a _ cid); [|exact E1|exact E2|exact E3|exact HR]. intros k Hk. rewrite Hlk. unfold commit_lookup.
          pose proof (roster_pfx_disjoint cid cid' k ltac:(congruence) ltac:(congruence) Hk) as Hd.
          unfold roster_pfx in Hd. apply orb_false_iff in Hd as [Hd ->]. apply orb_false_iff in Hd as [-> ->].
          reflexivity.
        * split; [|split; [by eapply awf_ext|discriminate]]. by apply (Rc_ext s s a _ cid).
    - destruct (nodes s cid' vec); cbn [obind fst snd]; auto.
    - destruct (replicas_numbers s cid'); cbn [obind fst snd]; auto.
    - destruct (verify _ _ s cid' msg sigs); cbn [obind fst snd]; auto.
    - destruct (submit _ _ _ _ _ s raw sigs cur); cbn [obind fst snd]; auto.
    - cbn [fst snd]. split; [|auto]. apply (Rc_ext s _ a a cid); [|reflexivity|reflexivity|reflexivity|exact HR].
      intros k Hk. apply apply_writes_lookup. intros kv Hkv Heq.
      cbn [frame_ok_op] in Hframe. rewrite forallb_forall in Hframe.
      apply elem_of_list_In, Hframe in Hkv. rewrite Heq, Hk in Hkv. discriminate.
    - cbn [fst snd]. auto.
  Qed.

  Lemma Rc_init cid : Rc ∅ ainit cid /\ awf ainit cid.
  Proof.
    split; [split|split]; simpl.
    - intros k val. split; [intros [_ H]; by rewrite lookup_empty in H|intros (v & j & _ & H); by rewrite lookup_nil in H].
    - intros k val. split; [intros [_ H]; by rewrite lookup_empty in H|intros (v & j & _ & H); by rewrite lookup_nil in H].
    - intros k val. split; [intros [_ H]; by rewrite lookup_empty in H|intros (i & _ & H); by rewrite lookup_nil in H].
    - intros _. simpl. lia.
    - intros v x H. inversion H.
    - intros _. simpl. lia.
    - split; [lia|reflexivity].
  Qed.

  Lemma run_inv cid ops : forall s a,
    length cid = 32%nat -> Rc s a cid -> awf a cid ->
    frame_ok cid ops = true -> range_ok_from cid a ops = true ->
    Rc (prun_from s ops) (fold_left astep ops a) cid /\ awf (fold_left astep ops a) cid.
  Proof.
    induction ops as [|o ops IH]; intros s a Hc HR Hwf Hf Hr; [auto|].
    simpl in Hf, Hr. apply andb_true_iff in Hf as [Hf1 Hf2]. apply andb_true_iff in Hr as [Hr1 Hr2].
    destruct (step_inv cid s a o Hc HR Hwf Hf1 Hr1) as (R' & W' & _).
    unfold Placement.prun_from. simpl. apply IH; auto.
  Qed.

  (** ** After any history: the storage encodes the specification state. *)
  Theorem roster_refines cid ops :
    length cid = 32%nat -> frame_ok cid ops = true -> range_ok cid ops = true ->
    Rc (prun ops) (arun ops) cid /\ awf (arun ops) cid.
  Proof.
    intros Hc Hf Hr. destruct (Rc_init cid) as [R0 W0]. by apply run_inv.
  Qed.

  Theorem roster_nodes cid ops vec :
    length cid = 32%nat -> frame_ok cid ops = true -> range_ok cid ops = true ->
    -128 <= vec <= 255 ->
    nodes (prun ops) cid vec = Halt (comm (arun ops) cid (vec_byte vec)).
  Proof.
    intros Hc Hf Hr Hv. destruct (roster_refines cid ops Hc Hf Hr) as [R W]. by apply nodes_spec.
  Qed.

  Theorem roster_reps cid ops :
    length cid = 32%nat -> frame_ok cid ops = true -> range_ok cid ops = true ->
    replicas_numbers (prun ops) cid = Halt (map int_to_bytes (areps (arun ops) cid)).
  Proof.
    intros Hc Hf Hr. destruct (roster_refines cid ops Hc Hf Hr) as [R W]. by apply reps_spec.
  Qed.

  Theorem roster_pending cid ops v :
    length cid = 32%nat -> frame_ok cid ops = true -> range_ok cid ops = true ->
    map snd (sfind (pU :: cid ++ [v]) (prun ops)) = pend (arun ops) cid v.
  Proof.
    intros Hc Hf Hr. destruct (roster_refines cid ops Hc Hf Hr) as [R W]. by apply pending_spec.
  Qed.

  (** The answer of the next add/commit on [cid] is the specification's. *)
  Theorem roster_answer cid ops o :
    length cid = 32%nat -> frame_ok cid ops = true -> range_ok cid (ops ++ [o]) = true ->
    about cid o = true ->
    step_result (arun ops) o (snd (fst (pstep (prun ops) o))).
  Proof.
    intros Hc Hf Hr Hab. unfold range_ok in Hr.
    rewrite range_ok_from_app in Hr. apply andb_true_iff in Hr as [Hr1 Hr2].
    destruct (roster_refines cid ops Hc Hf Hr1) as [R W].
    assert (Hfo : frame_ok_op cid o = true) by (destruct o; try reflexivity; discriminate).
    destruct (step_inv cid (prun ops) (arun ops) o Hc R W Hfo Hr2) as (_ & _ & H). by apply H.
  Qed.

  (** A commit empties the pending roster (in the storage itself). *)
  Theorem commit_empties_pending cid ops alpha reps :
    length cid = 32%nat -> frame_ok cid ops = true -> range_ok cid ops = true ->
    commit_ok alpha cid reps = true ->
    sfind (pU :: cid) (prun (ops ++ [OCommit alpha cid reps])) = [].
  Proof.
    intros Hc Hf Hr Hok.
    assert (Hf' : frame_ok cid (ops ++ [OCommit alpha cid reps]) = true).
    { unfold frame_ok. rewrite forallb_app. fold (frame_ok cid ops). rewrite Hf. reflexivity. }
    assert (Hr' : range_ok cid (ops ++ [OCommit alpha cid reps]) = true).
    { unfold range_ok in *. rewrite range_ok_from_app, Hr. reflexivity. }
    destruct (roster_refines cid _ Hc Hf' Hr') as [R W].
    apply sfind_nil. intros k Hk. destruct (prun _ !! k) as [val|] eqn:E; [|reflexivity]. exfalso.
    destruct (proj1 (rc_u _ _ _ R k val) (conj Hk E)) as (v & j & _ & Hj).
    unfold arun in Hj. rewrite fold_left_app in Hj. simpl in Hj. rewrite Hok in Hj. simpl in Hj.
    rewrite upd_same in Hj. by rewrite lookup_nil in Hj.
  Qed.

  (** ** Soundness on reachable states, in terms of what was committed:
      REP numbers and members are those of the last commit. *)
  Theorem verify_sound_history cid ops msg sigs :
    length cid = 32%nat -> frame_ok cid ops = true -> range_ok cid ops = true ->
    verify sigvalid pubvalid (prun ops) cid msg sigs = Halt true ->
    (length (areps (arun ops) cid) <= length sigs)%nat /\
    forall (i : nat) (r : Z), areps (arun ops) cid !! i = Some r ->
      exists si, sigs !! i = Some si /\
        vector_ok sigvalid msg (comm (arun ops) cid (N.of_nat i)) si r.
  Proof.
    intros Hc Hf Hr Hv. destruct (roster_refines cid ops Hc Hf Hr) as [R W].
    apply verify_sound in Hv as (reps & Hreps & Hlen & Hvec).
    rewrite (reps_spec _ _ _ R W Hc) in Hreps. injection Hreps as <-.
    rewrite map_length in Hlen. split; [exact Hlen|].
    intros i r Hi. destruct (Hvec i (int_to_bytes r)) as (si & pubs & Hsi & Hn & _ & Hok).
    { rewrite list_lookup_fmap, Hi. reflexivity. }
    exists si. split; [exact Hsi|].
    assert (Hi256 : (i < 256)%nat).
    { apply lookup_lt_Some in Hi. pose proof (proj1 (wf_reps _ _ W)). lia. }
    rewrite (nodes_spec _ _ _ _ R W Hc) in Hn by lia. injection Hn as <-.
    rewrite bytes_to_int_to_bytes in Hok.
    replace (vec_byte (Z.of_nat i)) with (N.of_nat i) in Hok; [exact Hok|].
    unfold vec_byte. rewrite Z.mod_small by lia. lia.
  Qed.
End Refine.
