(** Proofs/GasLedger.v — lemmas about the GAS ledger of Model/Gas.v:
    balances after a move, conservation of the total, the shape of the result
    of [gas_transfer]/[gas_mint], and the accounting of Transfer events. *)
From Verif Require Import Base.Prelude Base.IntCodec Model.Gas.
From Coq Require Import ZifyBool ZifyNat ZifyN.
Local Open Scope Z_scope.

Lemma gbal_insert l k v k' :
  gbal (<[k:=v]> l) k' = if bytes_eqb k' k then v else gbal l k'.
Proof.
  unfold gbal. destruct (bytes_eqb k' k) eqn:E.
  - apply bytes_eqb_eq in E. subst. rewrite lookup_insert. reflexivity.
  - apply bytes_eqb_neq in E. rewrite lookup_insert_ne by congruence. reflexivity.
Qed.

Definition ind (b : bool) (a : Z) : Z := if b then a else 0.

Lemma gbal_move l f t a k :
  gbal (gas_move l f t a) k = gbal l k - ind (bytes_eqb k f) a + ind (bytes_eqb k t) a.
Proof.
  unfold gas_move, ind. rewrite !gbal_insert.
  destruct (bytes_eqb k t) eqn:Et, (bytes_eqb k f) eqn:Ef;
    try (apply bytes_eqb_eq in Et); try (apply bytes_eqb_eq in Ef); subst.
  - rewrite bytes_eqb_refl. lia.
  - apply bytes_eqb_neq in Ef. assert (bytes_eqb t f = false) as -> by (apply bytes_eqb_neq; congruence). lia.
  - lia.
  - lia.
Qed.

(** Total GAS held in a ledger. *)
Definition lsum (l : ledger) : Z := map_fold (fun _ v acc => v + acc) 0 l.

Lemma lsum_insert_fresh l k v : l !! k = None -> lsum (<[k:=v]> l) = v + lsum l.
Proof.
  intros H. unfold lsum. rewrite map_fold_insert_L; [reflexivity| |exact H]. intros; lia.
Qed.

Lemma lsum_delete l k : lsum (delete k l) = lsum l - gbal l k.
Proof.
  unfold gbal. destruct (l !! k) as [v|] eqn:E; simpl.
  - rewrite <- (insert_delete l k v E) at 2.
    rewrite lsum_insert_fresh by apply lookup_delete. lia.
  - rewrite delete_notin by assumption. lia.
Qed.

Lemma lsum_insert l k v : lsum (<[k:=v]> l) = lsum l - gbal l k + v.
Proof.
  rewrite <- insert_delete_insert.
  rewrite lsum_insert_fresh by apply lookup_delete.
  rewrite lsum_delete. lia.
Qed.

Lemma lsum_move l f t a : lsum (gas_move l f t a) = lsum l.
Proof.
  unfold gas_move. rewrite !lsum_insert, !gbal_insert.
  destruct (bytes_eqb t f) eqn:E.
  - apply bytes_eqb_eq in E. subst. lia.
  - lia.
Qed.

(** ** Accounting of the native Transfer events *)
Definition inflow (k : bytes) (ns : list ev) : Z :=
  fold_right (fun n acc => match n with EGas _ t a => ind (bytes_eqb k t) a + acc | _ => acc end) 0 ns.
Definition outflow (k : bytes) (ns : list ev) : Z :=
  fold_right (fun n acc => match n with EGas f _ a => ind (bytes_eqb k f) a + acc | _ => acc end) 0 ns.
Definition cheques (ns : list ev) : Z :=
  fold_right (fun n acc => match n with ECheque _ _ a _ => a + acc | _ => acc end) 0 ns.

Lemma inflow_app k a b : inflow k (a ++ b) = inflow k a + inflow k b.
Proof. induction a as [|n a IH]; simpl; [lia|]. destruct n; lia. Qed.
Lemma outflow_app k a b : outflow k (a ++ b) = outflow k a + outflow k b.
Proof. induction a as [|n a IH]; simpl; [lia|]. destruct n; lia. Qed.
Lemma cheques_app a b : cheques (a ++ b) = cheques a + cheques b.
Proof. induction a as [|n a IH]; simpl; [lia|]. destruct n; lia. Qed.

(** Events a payment callback may emit: Deposit notifications only. *)
Definition is_deposit (n : ev) : bool := match n with EDeposit _ _ _ _ => true | _ => false end.
Definition quiet (ns : list ev) : Prop := forallb is_deposit ns = true.
Definition cb_quiet (cb : callback) : Prop :=
  forall tok t f a d ns, cb tok t f a d = Halt ns -> quiet ns.

Lemma quiet_flows k ns : quiet ns -> inflow k ns = 0 /\ outflow k ns = 0 /\ cheques ns = 0.
Proof.
  unfold quiet. induction ns as [|n ns IH]; simpl; [lia|].
  intros H. apply andb_true_iff in H as [H1 H2]. destruct n; try discriminate. auto.
Qed.

Lemma quiet_app a b : quiet a -> quiet b -> quiet (a ++ b).
Proof. unfold quiet. rewrite forallb_app. intros -> ->. reflexivity. Qed.

(** "Every balance change is announced": the ledger moved from [l] to [l']
    exactly as the Transfer events of [ns] say. *)
Definition gas_sound (l : ledger) (ns : list ev) (l' : ledger) : Prop :=
  forall k, gbal l' k = gbal l k + inflow k ns - outflow k ns.

Lemma gas_sound_nil l : gas_sound l [] l.
Proof. intros k. simpl. lia. Qed.

Lemma gas_sound_app l1 a l2 b l3 :
  gas_sound l1 a l2 -> gas_sound l2 b l3 -> gas_sound l1 (a ++ b) l3.
Proof. intros H1 H2 k. rewrite inflow_app, outflow_app, H2, H1. lia. Qed.

Lemma gas_sound_quiet l ns l' q : gas_sound l ns l' -> quiet q -> gas_sound l (ns ++ q) l'.
Proof.
  intros H Hq k. rewrite inflow_app, outflow_app.
  destruct (quiet_flows k q Hq) as (-> & -> & _). rewrite H. lia.
Qed.

(** ** Shape of the result of the native calls *)
Lemma gas_transfer_spec cb g wt l f t a d l' ok ns :
  gas_transfer cb g wt l f t a d = Halt (l', ok, ns) ->
  hash_len f = true /\ hash_len t = true /\
  ((ok = false /\ l' = l /\ ns = [] /\ (a < 0 \/ wt = false \/ gbal l f < a)) \/
   (ok = true /\ 0 <= a <= gbal l f /\ wt = true /\ l' = gas_move l f t a /\
    exists cns, cb g t f a d = Halt cns /\ ns = EGas f t a :: cns)).
Proof.
  unfold gas_transfer.
  destruct (hash_len f) eqn:Hf; [|discriminate].
  destruct (hash_len t) eqn:Ht; [|discriminate]. cbn [andb negb].
  destruct ((a <? 0) || negb wt || (gbal l f <? a)) eqn:E.
  - intros [= <- <- <-]. split; [reflexivity|]. split; [reflexivity|]. left.
    repeat split. destruct wt; cbn in E; lia.
  - destruct (cb g t f a d) as [cns|] eqn:Ecb; [|discriminate].
    cbn [obind]. intros [= <- <- <-]. split; [reflexivity|]. split; [reflexivity|]. right.
    destruct wt; cbn in E; [|lia].
    repeat split; try lia. exists cns. auto.
Qed.

Lemma gas_transfer_sound cb g wt l f t a d l' ok ns :
  cb_quiet cb -> gas_transfer cb g wt l f t a d = Halt (l', ok, ns) -> gas_sound l ns l'.
Proof.
  intros Hq H. apply gas_transfer_spec in H as (_ & _ & [(-> & -> & -> & _)|(-> & Ha & _ & -> & cns & Hc & ->)]).
  - apply gas_sound_nil.
  - intros k. cbn [inflow outflow fold_right].
    destruct (quiet_flows k cns (Hq _ _ _ _ _ _ Hc)) as (Hi & Ho & _).
    fold (inflow k cns). fold (outflow k cns). rewrite Hi, Ho, gbal_move. lia.
Qed.

Lemma gas_mint_spec cb g l t a l' ns :
  gas_mint cb g l t a = Halt (l', ns) ->
  (a = 0 /\ l' = l /\ ns = []) \/
  (a <> 0 /\ l' = <[t := gbal l t + a]> l /\ exists cns, cb g t [] a DNull = Halt cns /\ ns = EGas [] t a :: cns).
Proof.
  unfold gas_mint. destruct (a =? 0) eqn:E.
  - intros [= <- <-]. left. repeat split. lia.
  - destruct (cb g t [] a DNull) as [cns|] eqn:Ecb; [|discriminate].
    cbn [obind]. intros [= <- <-]. right. split; [lia|]. split; [reflexivity|]. eauto.
Qed.

(** A mint is announced as an inflow (from Null, written [[]]); it is sound
    for every account that is not the empty address. *)
Definition gas_sound_but_null (l : ledger) (ns : list ev) (l' : ledger) : Prop :=
  forall k, k <> [] -> gbal l' k = gbal l k + inflow k ns - outflow k ns.

Lemma gas_sound_weaken l ns l' : gas_sound l ns l' -> gas_sound_but_null l ns l'.
Proof. intros H k _. apply H. Qed.

Lemma gas_mint_sound cb g l t a l' ns :
  cb_quiet cb -> gas_mint cb g l t a = Halt (l', ns) -> gas_sound_but_null l ns l'.
Proof.
  intros Hq H. apply gas_mint_spec in H as [(_ & -> & ->)|(_ & -> & cns & Hc & ->)].
  - intros k _. simpl. lia.
  - intros k Hk. cbn [inflow outflow fold_right].
    destruct (quiet_flows k cns (Hq _ _ _ _ _ _ Hc)) as (Hi & Ho & _).
    fold (inflow k cns). fold (outflow k cns). rewrite Hi, Ho, gbal_insert.
    assert (bytes_eqb k [] = false) as -> by (apply bytes_eqb_neq; exact Hk).
    unfold ind. destruct (bytes_eqb k t) eqn:Et; [apply bytes_eqb_eq in Et; subst|]; lia.
Qed.

Lemma gas_sound_but_null_app l1 a l2 b l3 :
  gas_sound_but_null l1 a l2 -> gas_sound_but_null l2 b l3 -> gas_sound_but_null l1 (a ++ b) l3.
Proof. intros H1 H2 k Hk. rewrite inflow_app, outflow_app, H2, H1 by assumption. lia. Qed.
