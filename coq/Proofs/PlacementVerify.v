(** Proofs/PlacementVerify.v — VerifyPlacementSignatures and SubmitObjectPut
    (C14): soundness and completeness of the counting loop, for every store,
    every matrix and every verification relation [sigvalid]. *)
From Verif Require Import Base.Prelude Base.IntCodec Model.Placement.
From Coq Require Import ZifyBool ZifyNat ZifyN.
Local Open Scope Z_scope.

(** * Outcome monad inversion *)

Lemma obind_halt {A B} (o : outcome A) (f : A -> outcome B) b :
  obind o f = Halt b -> exists a, o = Halt a /\ f a = Halt b.
Proof. destruct o as [a|]; simpl; [eauto|discriminate]. Qed.

Lemma oassert_halt b u : oassert b = Halt u -> b = true.
Proof. destruct b; simpl; [reflexivity|discriminate]. Qed.

Ltac inv_bind H :=
  let a := fresh "a" in let Ha := fresh "Ha" in
  apply obind_halt in H as (a & Ha & H).

Lemma existsb_bytes_eqb k l : existsb (bytes_eqb k) l = true <-> k ∈ l.
Proof.
  rewrite existsb_exists. split.
  - intros (x & Hin & He). apply bytes_eqb_eq in He as ->. by apply elem_of_list_In.
  - intros Hin. exists k. split; [by apply elem_of_list_In|apply bytes_eqb_refl].
Qed.

Lemma existsb_bytes_eqb_false k l : existsb (bytes_eqb k) l = false <-> k ∉ l.
Proof.
  rewrite <- existsb_bytes_eqb. destruct (existsb _ _); split; done.
Qed.

Section Verify.
  Variable sigvalid : bytes -> bytes -> bytes -> bool.
  Variable pubvalid : bytes -> bool.

  Notation scan_pubs := (scan_pubs sigvalid pubvalid).
  Notation scan_sigs := (scan_sigs sigvalid pubvalid).
  Notation verify_loop := (verify_loop sigvalid pubvalid).
  Notation verify := (verify sigvalid pubvalid).

  (** [k] produced a valid signature of [msg] among [sigs]. *)
  Definition signed_by (msg : bytes) (sigs : list bytes) (k : bytes) : Prop :=
    exists sg, sg ∈ sigs /\ sigvalid msg k sg = true.

  (** [m] DISTINCT members of [pubs], each with a valid signature of [msg]
      among [sigs]. *)
  Definition vector_ok (msg : bytes) (pubs sigs : list bytes) (m : Z) : Prop :=
    exists ks : list bytes,
      NoDup ks /\ Z.of_nat (length ks) = m /\
      forall k, k ∈ ks -> k ∈ pubs /\ signed_by msg sigs k.

  (** * The inner loop over the members *)

  Lemma scan_pubs_some msg sg counted ps pub :
    scan_pubs msg sg counted ps = Halt (Some pub) ->
    pub ∈ ps /\ pub ∉ counted /\ sigvalid msg pub sg = true.
  Proof.
    induction ps as [|p ps IH]; simpl; [discriminate|].
    destruct (existsb (bytes_eqb p) counted) eqn:Ec.
    - intros H. destruct (IH H) as (H1 & H2 & H3). split; [by right|auto].
    - destruct (pubvalid p); simpl; [|discriminate].
      destruct (sigvalid msg p sg) eqn:Ev.
      + intros [= <-]. split; [by left|]. split; [by apply existsb_bytes_eqb_false|exact Ev].
      + intros H. destruct (IH H) as (H1 & H2 & H3). split; [by right|auto].
  Qed.

  Lemma scan_pubs_none msg sg counted ps :
    scan_pubs msg sg counted ps = Halt None ->
    forall p, p ∈ ps -> p ∈ counted \/ sigvalid msg p sg = false.
  Proof.
    induction ps as [|p ps IH]; simpl; [intros _ q Hq; inversion Hq|].
    destruct (existsb (bytes_eqb p) counted) eqn:Ec.
    - intros H q [->|Hq]%elem_of_cons; [left; by apply existsb_bytes_eqb|by apply IH].
    - destruct (pubvalid p); simpl; [|discriminate].
      destruct (sigvalid msg p sg) eqn:Ev; [discriminate|].
      intros H q [->|Hq]%elem_of_cons; [by right|by apply IH].
  Qed.

  Lemma scan_pubs_halts msg sg counted ps :
    (forall p, p ∈ ps -> pubvalid p = true) -> exists r, scan_pubs msg sg counted ps = Halt r.
  Proof.
    induction ps as [|p ps IH]; intros Hv; simpl; [eauto|].
    assert (IH' := IH (fun q Hq => Hv q (elem_of_list_further _ _ _ Hq))).
    destruct (existsb (bytes_eqb p) counted); [exact IH'|].
    rewrite (Hv p) by left. simpl. destruct (sigvalid msg p sg); eauto.
  Qed.

  (** * The loop over the signatures of one vector *)

  Lemma scan_sigs_true_pubs msg pubsO m counter counted sigs :
    scan_sigs msg pubsO m counter counted sigs = Halt true -> exists ps, pubsO = Halt ps.
  Proof.
    destruct sigs as [|sg sigs]; simpl; [discriminate|]. destruct pubsO as [ps|]; simpl; [eauto|discriminate].
  Qed.

  (** Invariant of the loop: the members counted so far are pairwise
      distinct members of the vector, each with a valid signature among the
      signatures of the whole vector [all], and [counter] is their number. *)
  Lemma scan_sigs_sound msg ps m all sigs : forall counter counted,
    (forall sg, sg ∈ sigs -> sg ∈ all) ->
    NoDup counted -> counter = Z.of_nat (length counted) ->
    (forall k, k ∈ counted -> k ∈ ps /\ signed_by msg all k) ->
    scan_sigs msg (Halt ps) m counter counted sigs = Halt true ->
    vector_ok msg ps all m.
  Proof.
    induction sigs as [|sg sigs IH]; intros counter counted Hall Hnd Hc Hin; simpl; [discriminate|].
    intros H. inv_bind H. rename a into r.
    assert (Hall' : forall s0, s0 ∈ sigs -> s0 ∈ all) by (intros s0 Hs0; apply Hall; by right).
    destruct r as [pub|].
    - apply scan_pubs_some in Ha as (Hp1 & Hp2 & Hp3).
      assert (Hnd' : NoDup (counted ++ [pub])).
      { apply NoDup_app. split; [exact Hnd|]. split; [|apply NoDup_singleton].
        intros x Hx ->%elem_of_list_singleton. contradiction. }
      assert (Hin' : forall k, k ∈ counted ++ [pub] -> k ∈ ps /\ signed_by msg all k).
      { intros k [Hk| ->%elem_of_list_singleton]%elem_of_app; [by apply Hin|].
        split; [exact Hp1|]. exists sg. split; [apply Hall; by left|exact Hp3]. }
      assert (Hc' : counter + 1 = Z.of_nat (length (counted ++ [pub]))).
      { rewrite app_length. simpl. lia. }
      destruct (counter + 1 =? m) eqn:Em.
      + exists (counted ++ [pub]). split; [exact Hnd'|]. split; [lia|exact Hin'].
      + eapply IH; eauto.
    - destruct (counter =? m) eqn:Em.
      + exists counted. split; [exact Hnd|]. split; [lia|exact Hin].
      + eapply IH; eauto.
  Qed.

  (** * The loop over the REP numbers *)

  (** What [verify = true] guarantees for the vector with index [i]. *)
  Definition vector_verified (s : store) (cid msg : bytes) (sigs : list (list bytes)) (i : nat)
      (rb : bytes) : Prop :=
    exists si pubs,
      sigs !! i = Some si /\ nodes s cid (Z.of_nat i) = Halt pubs /\
      (length rb <= 32)%nat /\
      vector_ok msg pubs si (bytes_to_int rb).

  Lemma to_int_halt b z : to_int b = Halt z -> (length b <= 32)%nat /\ z = bytes_to_int b.
  Proof. unfold to_int. destruct (Nat.leb_spec (length b) 32); [|discriminate]. intros [= <-]. auto. Qed.

  Lemma verify_loop_sound s cid msg sigs reps : forall i,
    (i <= length sigs)%nat ->
    verify_loop s cid msg sigs i reps = Halt true ->
    (i + length reps <= length sigs)%nat /\
    forall j rb, reps !! j = Some rb -> vector_verified s cid msg sigs (i + j) rb.
  Proof.
    induction reps as [|rb reps IH]; intros i Hi; simpl.
    - intros _. split; [lia|intros j rb' Hj; by rewrite lookup_nil in Hj].
    - destruct (Nat.eqb_spec (length sigs) i) as [|Hne]; [discriminate|].
      intros H. inv_bind H. rename a into m. apply to_int_halt in Ha as [Hlen ->].
      destruct (sigs !! i) as [si|] eqn:Esi; [|discriminate].
      destruct (Z.of_nat (length si) <? bytes_to_int rb); [discriminate|].
      inv_bind H. rename a into ok. destruct ok; [|discriminate].
      destruct (scan_sigs_true_pubs _ _ _ _ _ _ Ha) as [ps Hps].
      rewrite Hps in Ha.
      apply (scan_sigs_sound msg ps (bytes_to_int rb) si) in Ha;
        [|auto|constructor|reflexivity|intros k Hk; inversion Hk].
      destruct (IH (S i) ltac:(lia) H) as [Hb Hrest].
      split; [lia|].
      intros [|j] rb' Hj.
      + injection Hj as <-. rewrite Nat.add_0_r. exists si, ps. auto.
      + replace (i + S j)%nat with (S i + j)%nat by lia. by apply Hrest.
  Qed.

  (** ** Soundness: for every store, container id, message and matrix. *)
  Theorem verify_sound s cid msg sigs :
    verify s cid msg sigs = Halt true ->
    exists reps,
      replicas_numbers s cid = Halt reps /\
      (length reps <= length sigs)%nat /\
      forall i rb, reps !! i = Some rb -> vector_verified s cid msg sigs i rb.
  Proof.
    unfold verify. intros H. inv_bind H. rename a into reps.
    exists reps. split; [exact Ha|].
    apply verify_loop_sound in H as [Hb Hv]; [|lia]. split; [lia|exact Hv].
  Qed.

  (** * Completeness

      What the greedy loop really accepts. Hypotheses, per REP vector [i]
      with number [m]:
      - [m >= 1] (a REP number 0 is satisfied only by a NON-empty signature
        vector whose first signature is invalid: see [verify_rep0_empty]);
      - every member key of the vector decodes ([pubvalid]), otherwise the
        call faults when the scan reaches it;
      - no signature of the vector is valid for two different members of the
        vector ([unambiguous]; true for ECDSA up to negligible probability,
        but not a consequence of an abstract [sigvalid]: see
        [verify_ambiguous_refuted]);
      - at least [m] distinct members have a valid signature somewhere in
        [sigs[i]] — in any order, with any number of invalid, foreign,
        repeated or malleated signatures interleaved.
      Extra trailing vectors in [sigs] are ignored. *)

  Definition unambiguous (msg : bytes) (pubs sigs : list bytes) : Prop :=
    forall sg k1 k2, sg ∈ sigs -> k1 ∈ pubs -> k2 ∈ pubs ->
      sigvalid msg k1 sg = true -> sigvalid msg k2 sg = true -> k1 = k2.

  Lemma NoDup_incl_length (ks l : list bytes) :
    NoDup ks -> (forall k, k ∈ ks -> k ∈ l) -> (length ks <= length l)%nat.
  Proof. intros Hnd Hin. apply submseteq_length. by apply NoDup_submseteq. Qed.

  Lemma scan_sigs_complete msg ps m sigs : forall counter counted ks,
    (forall p, p ∈ ps -> pubvalid p = true) ->
    unambiguous msg ps sigs ->
    counter = Z.of_nat (length counted) -> counter < m ->
    NoDup ks -> Z.of_nat (length ks) = m ->
    (forall k, k ∈ ks -> k ∈ counted \/ (k ∈ ps /\ signed_by msg sigs k)) ->
    scan_sigs msg (Halt ps) m counter counted sigs = Halt true.
  Proof.
    induction sigs as [|sg sigs IH]; intros counter counted ks Hpv Hun Hc Hlt Hnd Hlen Hks.
    - exfalso. assert (length ks <= length counted)%nat; [|lia].
      apply NoDup_incl_length; [exact Hnd|]. intros k Hk.
      destruct (Hks k Hk) as [?|[_ (sg & Hsg & _)]]; [done|inversion Hsg].
    - simpl. destruct (scan_pubs_halts msg sg counted ps Hpv) as [r Hr]. rewrite Hr. simpl.
      assert (Hun' : unambiguous msg ps sigs).
      { intros s0 k1 k2 Hs0. apply Hun. by right. }
      destruct r as [pub|].
      + destruct (Z.eqb_spec (counter + 1) m) as [|Hne]; [reflexivity|].
        apply scan_pubs_some in Hr as (Hp1 & Hp2 & Hp3).
        apply (IH _ _ ks); auto; [rewrite app_length; simpl; lia|lia|].
        intros k Hk. destruct (Hks k Hk) as [Hk1|[Hk1 (s0 & Hs0 & Hv0)]].
        * left. apply elem_of_app. by left.
        * apply elem_of_cons in Hs0 as [->|Hs0].
          -- left. apply elem_of_app. right. apply elem_of_list_singleton.
             apply (Hun sg k pub); auto. by left.
          -- right. split; [exact Hk1|]. by exists s0.
      + destruct (Z.eqb_spec counter m) as [|Hne]; [lia|].
        apply (IH _ _ ks); auto.
        intros k Hk. destruct (Hks k Hk) as [Hk1|[Hk1 (s0 & Hs0 & Hv0)]]; [by left|].
        apply elem_of_cons in Hs0 as [->|Hs0].
        * left. destruct (scan_pubs_none _ _ _ _ Hr k Hk1) as [?|Hf]; [done|congruence].
        * right. split; [exact Hk1|]. by exists s0.
  Qed.

  Definition vector_honest (s : store) (cid msg : bytes) (sigs : list (list bytes)) (i : nat)
      (rb : bytes) : Prop :=
    exists si pubs,
      sigs !! i = Some si /\ nodes s cid (Z.of_nat i) = Halt pubs /\
      (length rb <= 32)%nat /\ 1 <= bytes_to_int rb /\
      (forall p, p ∈ pubs -> pubvalid p = true) /\
      unambiguous msg pubs si /\
      vector_ok msg pubs si (bytes_to_int rb).

  Lemma vector_ok_length msg pubs si m :
    unambiguous msg pubs si -> vector_ok msg pubs si m -> m <= Z.of_nat (length si).
  Proof.
    intros Hun (ks & Hnd & Hlen & Hks).
    (* choose for every key its signature: an injective map into [si] *)
    assert (H : forall l : list bytes, NoDup l -> (forall k, k ∈ l -> k ∈ ks) ->
              exists sl, length sl = length l /\ NoDup sl /\ (forall x, x ∈ sl -> x ∈ si) /\
                         (forall x, x ∈ sl -> exists k, k ∈ l /\ sigvalid msg k x = true)).
    { induction l as [|k l IHl]; intros Hndl Hsub.
      - exists []. split; [reflexivity|]. split; [constructor|]. split; intros x Hx; inversion Hx.
      - apply NoDup_cons in Hndl as [Hkl Hndl].
        destruct IHl as (sl & Hl1 & Hl2 & Hl3 & Hl4); [exact Hndl|intros k' Hk'; apply Hsub; by right|].
        destruct (Hks k (Hsub k ltac:(left))) as [Hkp (sg & Hsg & Hv)].
        exists (sg :: sl). split; [simpl; lia|]. split.
        + constructor; [|exact Hl2]. intros Hin. destruct (Hl4 sg Hin) as (k' & Hk' & Hv').
          assert (k' = k); [|subst; contradiction].
          apply (Hun sg k' k); auto. apply (Hks k'). apply Hsub. by right.
        + split.
          * intros x [->|Hx]%elem_of_cons; auto.
          * intros x [->|Hx]%elem_of_cons; [exists k; split; [by left|exact Hv]|].
            destruct (Hl4 x Hx) as (k' & Hk' & Hv'). exists k'. split; [by right|exact Hv']. }
    destruct (H ks Hnd ltac:(auto)) as (sl & Hl1 & Hl2 & Hl3 & _).
    assert (length sl <= length si)%nat by (apply NoDup_incl_length; auto). lia.
  Qed.

  Lemma verify_loop_complete s cid msg sigs reps : forall i,
    (forall j rb, reps !! j = Some rb -> vector_honest s cid msg sigs (i + j) rb) ->
    verify_loop s cid msg sigs i reps = Halt true.
  Proof.
    induction reps as [|rb reps IH]; intros i Hh; simpl; [reflexivity|].
    destruct (Hh 0%nat rb eq_refl) as (si & pubs & Hsi & Hn & Hl & Hm & Hpv & Hun & Hok).
    rewrite Nat.add_0_r in Hsi, Hn.
    assert (Hi : (i < length sigs)%nat) by (apply lookup_lt_is_Some; eauto).
    destruct (Nat.eqb_spec (length sigs) i) as [|_]; [lia|].
    unfold to_int. destruct (Nat.leb_spec (length rb) 32) as [_|]; [|lia]. simpl.
    rewrite Hsi.
    pose proof (vector_ok_length _ _ _ _ Hun Hok) as Hle.
    destruct (Z.ltb_spec (Z.of_nat (length si)) (bytes_to_int rb)) as [|_]; [lia|].
    rewrite Hn. destruct Hok as (ks & Hnd & Hlen & Hks).
    rewrite (scan_sigs_complete msg pubs (bytes_to_int rb) si 0 [] ks); auto; [|lia].
    simpl. apply IH. intros j rb' Hj. replace (S i + j)%nat with (i + S j)%nat by lia. by apply Hh.
  Qed.

  Theorem verify_complete s cid msg sigs reps :
    replicas_numbers s cid = Halt reps ->
    (forall i rb, reps !! i = Some rb -> vector_honest s cid msg sigs i rb) ->
    verify s cid msg sigs = Halt true.
  Proof.
    intros Hr Hh. unfold verify. rewrite Hr. simpl. by apply verify_loop_complete.
  Qed.

End Verify.

(** * SubmitObjectPut *)
Section Submit.
  Variable sigvalid : bytes -> bytes -> bytes -> bool.
  Variable pubvalid : bytes -> bool.
  Variable deser : bytes -> option (list (bytes * val)).
  Variable notify_fits : bytes -> bool.
  Variable network : Z.

  Notation verify := (verify sigvalid pubvalid).
  Notation submit := (submit sigvalid pubvalid deser notify_fits network).

  Definition submit_facts (s : store) (raw : bytes) (sigs : list (list bytes)) (cur : Z)
      (ns : list pnotif) : Prop :=
    exists (m : list (bytes * val)) (cid oid : bytes),
      deser raw = Some m /\
      (exists v, mget m k_cid = Halt v /\ conv_hash256 v = Halt cid) /\
      (exists v, mget m k_oid = Halt v /\ conv_hash256 v = Halt oid) /\
      length cid = 32%nat /\ length oid = 32%nat /\
      is_Some (s !! (pM :: cid)) /\                      (* container has meta-on-chain *)
      (exists v, mget m k_network = Halt v /\ conv_int v = Halt (Some network)) /\
      (exists v z, mget m k_validuntil = Halt v /\ conv_int v = Halt (Some z) /\ cur < z) /\
      verify s cid raw sigs = Halt true /\               (* the signed message is the raw meta *)
      ns = [NObjectPut cid oid].

  Lemma conv_hash256_len v b : conv_hash256 v = Halt b -> length b = 32%nat.
  Proof.
    unfold conv_hash256. intros H.
    apply obind_halt in H as (b0 & _ & H). apply obind_halt in H as (u & Hu & H).
    injection H as <-. apply oassert_halt in Hu. unfold hash256_len in Hu. by apply Nat.eqb_eq in Hu.
  Qed.

  Ltac ib H x Hx := apply obind_halt in H as (x & Hx & H).

  Theorem submit_halt s raw sigs cur ns :
    submit s raw sigs cur = Halt ns -> submit_facts s raw sigs cur ns.
  Proof.
    unfold submit. destruct (deser raw) as [m|] eqn:Ed; [|discriminate]. intros H.
    ib H vcid Hvcid. ib H cid Hcid.
    ib H u1 Hmeta. apply oassert_halt, bool_decide_eq_true in Hmeta.
    ib H void Hvoid. ib H oid Hoid.
    ib H vnet Hvnet. ib H magic Hmagic. ib H u2 Hm2.
    ib H vsz Hvsz. ib H sz Hsz.
    ib H vdel Hvdel. ib H u3 Hdel.
    ib H vlck Hvlck. ib H u4 Hlck.
    ib H vvub Hvvub. ib H vub Hvub. ib H u5 Hv2.
    ib H ok Hver. ib H u6 Hok. apply oassert_halt in Hok. subst ok.
    ib H u7 Hfit. injection H as <-.
    exists m, cid, oid. split; [exact Ed|].
    split; [eauto|]. split; [eauto|].
    split; [eapply conv_hash256_len; eauto|]. split; [eapply conv_hash256_len; eauto|].
    split; [exact Hmeta|]. split.
    { exists vnet. split; [exact Hvnet|]. destruct magic as [z|]; [|discriminate].
      apply oassert_halt, Z.eqb_eq in Hm2. by subst. }
    split.
    { destruct vub as [z|]; [|discriminate]. exists vvub, z. split; [exact Hvvub|].
      split; [exact Hvub|]. apply oassert_halt in Hv2. lia. }
    split; [exact Hver|reflexivity].
  Qed.
End Submit.
