(** Proofs/NNSSyntaxIP4.v — lemmas for C18, part 3 (A records): [checkIPv4]
    of Model/NNSSyntax.v returns [true] exactly on [valid_A] of
    Spec/Grammar.v (a canonical dotted quad of a public unicast address). *)
From Verif Require Import Base.Prelude Model.NNSSyntax Spec.Grammar Proofs.NNSSyntaxLib.
From Coq Require Import ZifyBool ZifyNat ZifyN.
Local Open Scope Z_scope.

(* ------------------------------------------------------------------ *)
(** * Decimal strings *)

Lemma is_digit_spec c : is_digit c = true <-> digit c.
Proof. unfold is_digit, byte_in, digit. lia. Qed.

Lemma digits_forallb f : forallb is_digit f = true <-> Forall digit f.
Proof.
  induction f as [|c f IH]; simpl; [split; [constructor|reflexivity]|].
  rewrite andb_true_iff, Forall_cons, is_digit_spec, IH. tauto.
Qed.

Definition dstep (acc : Z) (c : N) : Z := 10 * acc + (Z.of_N c - 48).

Lemma dec_val_fold f : dec_val f = fold_left dstep f 0.
Proof. reflexivity. Qed.
Lemma dec_value_val f : dec_value f = dec_val f.
Proof. reflexivity. Qed.

(** A digit string read with accumulator [a >= 0] is at least [a * 10^len]. *)
Lemma fold_dstep_lower f : Forall digit f -> forall a, 0 <= a ->
  a * 10 ^ Z.of_nat (length f) <= fold_left dstep f a.
Proof.
  induction 1 as [|c f Hc _ IH]; intros a Ha; cbn [fold_left length].
  - rewrite Z.pow_0_r. lia.
  - rewrite Nat2Z.inj_succ, Z.pow_succ_r by lia.
    unfold digit in Hc. assert (H0 : 0 <= dstep a c) by (unfold dstep; lia).
    specialize (IH _ H0). unfold dstep in IH at 1.
    assert (Hp : 0 < 10 ^ Z.of_nat (length f)) by (apply Z.pow_pos_nonneg; lia).
    nia.
Qed.

Lemma dec_val_nonneg f : Forall digit f -> 0 <= dec_val f.
Proof.
  intros H. pose proof (fold_dstep_lower f H 0 ltac:(lia)) as Hl.
  rewrite dec_val_fold. lia.
Qed.

(** No leading zero: the value is at least [10^(len-1)]. *)
Lemma dec_val_lower c r : Forall digit (c :: r) -> c <> 48%N ->
  10 ^ Z.of_nat (length r) <= dec_val (c :: r).
Proof.
  intros HF Hc. apply Forall_cons in HF as [Hd HF].
  rewrite dec_val_fold. cbn [fold_left].
  unfold digit in Hd. assert (H1 : 1 <= dstep 0 c) by (unfold dstep; lia).
  pose proof (fold_dstep_lower r HF (dstep 0 c) ltac:(lia)) as Hl.
  assert (Hp : 0 < 10 ^ Z.of_nat (length r)) by (apply Z.pow_pos_nonneg; lia).
  nia.
Qed.

(** A canonical octet has at most three digits. *)
Lemma octet_length f n : octet f n -> (1 <= length f <= 3)%nat.
Proof.
  intros (Hne & HF & Hz & -> & Hle).
  destruct f as [|c r]; [congruence|]. cbn [length]. split; [lia|].
  destruct (N.eq_dec c 48) as [->|Hc].
  - specialize (Hz eq_refl). injection Hz as ->. simpl. lia.
  - pose proof (dec_val_lower c r HF Hc) as Hl.
    destruct (le_lt_dec (length r) 2) as [|Hlong]; [lia|].
    assert (10 ^ 3 <= 10 ^ Z.of_nat (length r)) by (apply Z.pow_le_mono_r; lia).
    lia.
Qed.

Lemma digit_ascii c : digit c -> (c < 128)%N /\ c <> 46%N.
Proof. unfold digit. lia. Qed.

Lemma digits_ascii f : Forall digit f ->
  Forall (fun c => (c < 128)%N) f /\ Forall (fun c => c <> 46%N) f.
Proof.
  intros H. split; eapply Forall_impl; try exact H; intros c Hc; apply digit_ascii in Hc; tauto.
Qed.

(* ------------------------------------------------------------------ *)
(** * [std.Atoi10] on a string that starts with a digit *)

Lemma atoi10_digit_first c r :
  is_digit c = true ->
  std_atoi10 (c :: r) =
    (s' <-! to_limited_string (c :: r);
     if forallb is_digit (c :: r) then Halt (dec_value (c :: r)) else Fault).
Proof.
  intros Hc. unfold std_atoi10.
  destruct (to_limited_string (c :: r)) as [s'|] eqn:E; [|reflexivity].
  apply to_limited_inv in E. subst s'. cbn [obind].
  unfold big_set_string10.
  assert (Hs : ((c =? 43) || (c =? 45))%N = false) by (unfold is_digit, byte_in in Hc; lia).
  assert (Hn : (c =? 45)%N = false) by (unfold is_digit, byte_in in Hc; lia).
  rewrite Hs, Hn.
  replace (len (c :: r) =? 0) with false by (unfold len; cbn [length]; lia).
  cbn [orb]. destruct (forallb is_digit (c :: r)); reflexivity.
Qed.

(* ------------------------------------------------------------------ *)
(** * One iteration of the loop of checkIPv4 *)

Definition octet_step (f : bytes) : outcome (option Z) :=
  if len f =? 0 then Halt None
  else if negb (is_digit (nth 0 f 0%N)) then Halt None
  else
    number <-! std_atoi10 f;
    if (number <? 0) || (255 <? number) then Fault
    else if (0 <? number) && (nth 0 f 0 =? 48)%N then Halt None
    else if (number =? 0) && (1 <? len f) then Halt None
    else Halt (Some number).

Lemma ipv4_loop_cons f fs :
  ipv4_loop (f :: fs) =
    (r <-! octet_step f;
     match r with
     | None => Halt None
     | Some n => r' <-! ipv4_loop fs; Halt (option_map (cons n) r')
     end).
Proof.
  cbn [ipv4_loop]. unfold octet_step.
  destruct (len f =? 0); [reflexivity|].
  destruct (negb (is_digit (nth 0 f 0%N))); [reflexivity|].
  destruct (std_atoi10 f) as [number|]; [|reflexivity]. cbn [obind].
  destruct ((number <? 0) || (255 <? number)); [reflexivity|].
  destruct ((0 <? number) && (nth 0 f 0 =? 48)%N); [reflexivity|].
  destruct ((number =? 0) && (1 <? len f)); reflexivity.
Qed.

Lemma octet_step_spec f n : octet_step f = Halt (Some n) <-> octet f n.
Proof.
  unfold octet_step. split.
  - destruct f as [|c r]; [discriminate|].
    replace (len (c :: r) =? 0) with false by (unfold len; cbn [length]; lia).
    cbn [nth]. destruct (is_digit c) eqn:Hc; [|discriminate]. cbn [negb].
    rewrite atoi10_digit_first by assumption.
    destruct (to_limited_string (c :: r)) as [s'|]; [|discriminate]. cbn [obind].
    destruct (forallb is_digit (c :: r)) eqn:HF; [|discriminate]. cbn [obind].
    apply digits_forallb in HF. rewrite dec_value_val.
    set (v := dec_val (c :: r)).
    destruct ((v <? 0) || (255 <? v)) eqn:E1; [discriminate|].
    destruct ((0 <? v) && (c =? 48)%N) eqn:E2; [discriminate|].
    destruct ((v =? 0) && (1 <? len (c :: r))) eqn:E3; [discriminate|].
    intros [= <-]. unfold octet. repeat split; try assumption; try discriminate; try lia.
    intros [= ->]. assert (Hv : v = 0) by lia. rewrite Hv in E3.
    unfold len in E3. cbn [length] in E3.
    destruct r; [reflexivity|cbn [length] in E3; lia].
  - intros Ho. pose proof (octet_length f n Ho) as Hlen.
    destruct Ho as (Hne & HF & Hz & -> & Hle).
    destruct f as [|c r]; [congruence|].
    replace (len (c :: r) =? 0) with false by (unfold len; cbn [length]; lia).
    cbn [nth]. pose proof HF as HF'. apply Forall_cons in HF' as [Hc _].
    apply is_digit_spec in Hc. rewrite Hc. cbn [negb].
    rewrite atoi10_digit_first by assumption.
    destruct (digits_ascii _ HF) as [Hasc _].
    rewrite to_limited_ok by (try assumption; unfold len; lia). cbn [obind].
    apply digits_forallb in HF as HFb. rewrite HFb. cbn [obind]. rewrite dec_value_val.
    pose proof (dec_val_nonneg _ HF) as H0.
    set (v := dec_val (c :: r)) in *.
    replace ((v <? 0) || (255 <? v)) with false by lia.
    destruct (N.eqb_spec c 48) as [->|Hc48].
    + specialize (Hz eq_refl). injection Hz as ->. subst v. cbn. reflexivity.
    + rewrite andb_false_r.
      pose proof (dec_val_lower c r HF Hc48) as Hl.
      assert (Hp : 0 < 10 ^ Z.of_nat (length r)) by (apply Z.pow_pos_nonneg; lia).
      replace (v =? 0) with false by (subst v; lia). reflexivity.
Qed.

(* ------------------------------------------------------------------ *)
(** * The public-unicast test *)

Lemma public4_spec a b c d :
  public_unicast4b a b c d = true <-> public_unicast4 a b c d.
Proof. unfold public_unicast4b, public_unicast4. lia. Qed.

Lemma model_public4 n0 n1 n3 :
  ((n0 =? 0) || (n0 =? 10) || (n0 =? 127) || (224 <=? n0)
   || ((n0 =? 169) && (n1 =? 254))
   || ((n0 =? 172) && (16 <=? n1) && (n1 <=? 31))
   || ((n0 =? 192) && (n1 =? 168))
   || (n3 =? 0) || (n3 =? 255)) = false <->
  forall n2, public_unicast4 n0 n1 n2 n3.
Proof.
  unfold public_unicast4. split; [intros H n2; lia|intros H; specialize (H 0); lia].
Qed.

(* ------------------------------------------------------------------ *)
(** * checkIPv4 *)

Lemma list_len4 {A} (l : list A) : length l = 4%nat -> exists a b c d, l = [a; b; c; d].
Proof. destruct l as [|a [|b [|c [|d [|]]]]]; try discriminate. eauto 6. Qed.

Theorem ipv4_equiv s : checkIPv4 s = Halt true <-> valid_A s.
Proof.
  unfold checkIPv4, valid_A, canonical_ipv4. split.
  - destruct ((len s <? 7) || (15 <? len s)) eqn:El; [discriminate|].
    destruct (std_string_split s 46) as [fs|] eqn:Es; [|discriminate]. cbn [obind].
    apply std_split_inv in Es.
    destruct (len fs =? 4) eqn:E4; [|discriminate]. cbn [negb].
    destruct (list_len4 fs ltac:(unfold len in E4; lia)) as (fa & fb & fc & fd & Hfs).
    rewrite Hfs. rewrite !ipv4_loop_cons. cbn [ipv4_loop].
    destruct (octet_step fa) as [[a|]|] eqn:Ea; try discriminate. cbn [obind].
    destruct (octet_step fb) as [[b|]|] eqn:Eb; try discriminate. cbn [obind].
    destruct (octet_step fc) as [[c|]|] eqn:Ec; try discriminate. cbn [obind].
    destruct (octet_step fd) as [[d|]|] eqn:Ed; try discriminate. cbn [obind option_map nth].
    apply octet_step_spec in Ea, Eb, Ec, Ed.
    match goal with |- (if ?b then _ else _) = _ -> _ => destruct b eqn:Ep end; [discriminate|].
    intros _. exists a, b, c, d. split.
    + exists fa, fb, fc, fd. rewrite <- Hfs, Es, join_split. auto.
    + pose proof (proj1 (model_public4 a b d) Ep) as Hp. apply Hp.
  - intros (a & b & c & d & (fa & fb & fc & fd & -> & Ha & Hb & Hc & Hd) & Hp).
    pose proof (octet_length _ _ Ha) as La. pose proof (octet_length _ _ Hb) as Lb.
    pose proof (octet_length _ _ Hc) as Lc. pose proof (octet_length _ _ Hd) as Ld.
    assert (Dig : Forall (Forall digit) [fa; fb; fc; fd]).
    { repeat constructor; [apply Ha|apply Hb|apply Hc|apply Hd]. }
    assert (Hfree : Forall (Forall (fun c => c <> 46%N)) [fa; fb; fc; fd]).
    { eapply Forall_impl; [exact Dig|]. intros f Hf. apply digits_ascii, Hf. }
    assert (Hasc : Forall (fun c => (c < 128)%N) (join 46 [fa; fb; fc; fd])).
    { apply join_all; [lia|]. eapply Forall_impl; [exact Dig|]. intros f Hf. apply digits_ascii, Hf. }
    assert (Hlen : (length (join 46 [fa; fb; fc; fd]) + 1 =
                    length fa + 1 + (length fb + 1 + (length fc + 1 + (length fd + 1 + 0))))%nat).
    { apply (join_length 46 [fa; fb; fc; fd]). discriminate. }
    set (s := join 46 [fa; fb; fc; fd]) in *.
    replace ((len s <? 7) || (15 <? len s)) with false by (unfold len; lia).
    rewrite std_split_ok by (try assumption; unfold len; lia). cbn [obind].
    subst s. rewrite split_join by (assumption || discriminate).
    change (len [fa; fb; fc; fd] =? 4) with true. cbn [negb].
    rewrite !ipv4_loop_cons. cbn [ipv4_loop].
    apply octet_step_spec in Ha, Hb, Hc, Hd. rewrite Ha, Hb, Hc, Hd.
    cbn [obind option_map nth].
    match goal with |- (if ?b then _ else _) = _ => destruct b eqn:Ep end; [|reflexivity].
    exfalso. assert (Hall : forall n2, public_unicast4 a b n2 d).
    { intros n2. unfold public_unicast4 in *. tauto. }
    apply model_public4 in Hall. congruence.
Qed.

(** The three possible outcomes; only [Halt true] lets the record in. *)
Lemma ipv4_rejection s : ~ valid_A s <-> (checkIPv4 s = Halt false \/ checkIPv4 s = Fault).
Proof.
  rewrite <- ipv4_equiv. destruct (checkIPv4 s) as [[|]|]; intuition (try discriminate; eauto).
Qed.
