(** Proofs/GasAlphabet.v — permission and arithmetic of alphabet.Emit, for
    every callback, ledger, context, index, balance and Inner Ring size. *)
From Verif Require Import Base.Prelude Base.IntCodec Model.Gas Model.Alphabet
  Proofs.GasLedger Proofs.GasNeoFS.
From Coq Require Import ZifyBool ZifyNat ZifyN.
Local Open Scope Z_scope.

Lemma check_permission_spec e c index :
  check_permission e c index = Halt true ->
  0 <= index < Z.of_nat (length (committee c)) /\
  exists node, nth_error (committee c) (Z.to_nat index) = Some node /\
               check_witness e c node = Halt true.
Proof.
  unfold check_permission.
  destruct (Z.of_nat (length (committee c)) <=? index) eqn:E1; [discriminate|].
  destruct (index <? 0) eqn:E2; [discriminate|].
  destruct (nth_error (committee c) (Z.to_nat index)) as [node|] eqn:En; [|discriminate].
  intros H. split; [lia|]. eauto.
Qed.

(** ** Arithmetic of the split (all [g >= 0], [n >= 1]) *)
Definition emit_half (g : Z) : Z := g / 2.
Definition emit_per (g n : Z) : Z := (g - g / 2) * 7 / 8 / n.

Lemma emit_quot_half g : 0 <= g -> Z.quot g 2 = emit_half g.
Proof. intros H. unfold emit_half. apply Z.quot_div_nonneg; lia. Qed.

Lemma emit_quot_per g n : 0 <= g -> 0 < n ->
  Z.quot (Z.quot ((g - g / 2) * 7) 8) n = emit_per g n.
Proof.
  intros Hg Hn. unfold emit_per.
  assert (0 <= g - g / 2) by (pose proof (Z.div_le_upper_bound g 2 g); lia).
  rewrite (Z.quot_div_nonneg ((g - g / 2) * 7) 8) by lia.
  apply Z.quot_div_nonneg; [|lia].
  apply Z.div_pos; lia.
Qed.

Lemma emit_half_zero g : 0 <= g -> (emit_half g = 0 <-> g < 2).
Proof.
  intros H. unfold emit_half. split; intros H1.
  - destruct (Z_lt_ge_dec g 2); [assumption|].
    pose proof (Z.div_le_lower_bound g 2 1). lia.
  - apply Z.div_small. lia.
Qed.

Lemma emit_half_bounds g : 0 <= g -> 0 <= emit_half g <= g /\ 2 * emit_half g <= g < 2 * emit_half g + 2.
Proof.
  intros H. unfold emit_half.
  pose proof (Z.div_mod g 2 ltac:(lia)). pose proof (Z.mod_pos_bound g 2 ltac:(lia)). lia.
Qed.

(** The per-node share is non-negative and [n] shares fit in 7/8 of what is
    left after the proxy's half: the contract keeps a non-negative rest. *)
Lemma emit_per_bounds g n : 0 <= g -> 0 < n ->
  0 <= emit_per g n /\ emit_per g n * n <= (g - emit_half g) * 7 / 8 /\
  (g - emit_half g) * 7 / 8 <= g - emit_half g.
Proof.
  intros Hg Hn. unfold emit_per, emit_half.
  destruct (emit_half_bounds g Hg) as ((H0 & H1) & _). unfold emit_half in *.
  set (r := g - g / 2) in *. assert (0 <= r) by lia.
  set (q := r * 7 / 8). assert (0 <= q) by (apply Z.div_pos; lia).
  split; [apply Z.div_pos; lia|]. split.
  - rewrite Z.mul_comm. apply Z.mul_div_le. lia.
  - subst q. apply Z.div_le_upper_bound; lia.
Qed.

(** The same share written as one floor: floor(7 (g - floor(g/2)) / (8 n)). *)
Lemma emit_per_one_floor g n : 0 < n -> emit_per g n = (g - g / 2) * 7 / (8 * n).
Proof. intros Hn. unfold emit_per. rewrite Z.div_div by lia. reflexivity. Qed.

Section Emit.
  Variable cb : callback.
  Variable e : env.

  Lemma emit_nodes_spec self per nodes : forall l ns0 l' ns,
    0 <= per -> per * Z.of_nat (length nodes) <= gbal l self ->
    emit_nodes cb e self per nodes l ns0 = Halt (l', ns) ->
    exists rcpts evs,
      mapM (std_acc e) nodes = Some rcpts /\ l' = moves self per rcpts l /\
      pay_all cb (gasH e) self per DNull rcpts = Halt evs /\ ns = ns0 ++ evs.
  Proof.
    induction nodes as [|node rest IH]; intros l ns0 l' ns Hp Hb H; cbn [emit_nodes] in H.
    - injection H as <- <-. exists [], []. cbn. rewrite app_nil_r. auto.
    - unfold std_acc_o in H. destruct (std_acc e node) as [addr|] eqn:Ea; [|discriminate].
      cbn [obind] in H. ob H as [[l1 ok] ns1] Et.
      cbn [length] in Hb. rewrite Nat2Z.inj_succ, Z.mul_succ_r in Hb.
      assert (0 <= per * Z.of_nat (length rest)) by (apply Z.mul_nonneg_nonneg; lia).
      apply gas_transfer_spec in Et as (Hs & Hr & [(_ & _ & _ & Hk)|(_ & Hx & _ & -> & cns & Hc & ->)]);
        [destruct Hk as [Hk|[Hk|Hk]]; [lia|discriminate|lia]|].
      apply IH in H as (rcpts & evs & Hm & -> & Hpa & ->); [|assumption|].
      + exists (addr :: rcpts), (EGas self addr per :: cns ++ evs). split.
        { cbn. rewrite Ea. cbn. rewrite Hm. reflexivity. }
        split; [reflexivity|]. split.
        { cbn [pay_all]. rewrite Hc. cbn [obind]. rewrite Hpa. reflexivity. }
        rewrite <- app_assoc. reflexivity.
      + rewrite gbal_move, bytes_eqb_refl. unfold ind. destruct (bytes_eqb self addr); lia.
  Qed.

  Variable c : ctx.

  (** What a halting [Emit] did.  [g]: the contract's GAS after the NEO self
      transfer. *)
  Lemma emit_spec self index proxy minted l l' ns :
    0 <= gbal l self -> 0 <= minted ->
    alphabet_emit cb e c self index proxy minted l = Halt (l', ns) ->
    let g := gbal l self + minted in
    let n := Z.of_nat (length (ir c)) in
    check_permission e c index = Halt true /\ 2 <= g /\ 1 <= n /\
    hash_len self = true /\ hash_len proxy = true /\
    exists rcpts pevs evs,
      (if emit_per g n =? 0 then rcpts = [] else mapM (std_acc e) (ir c) = Some rcpts) /\
      cb (gasH e) proxy self (emit_half g) DNull = Halt pevs /\
      pay_all cb (gasH e) self (emit_per g n) DNull rcpts = Halt evs /\
      ns = (if minted =? 0 then [] else [EGas [] self minted]) ++
           EGas self proxy (emit_half g) :: pevs ++ evs /\
      lsum l' = lsum l + minted /\
      forall k, gbal l' k =
        gbal l k + ind (bytes_eqb k self) minted
        - ind (bytes_eqb k self) (emit_half g) + ind (bytes_eqb k proxy) (emit_half g)
        + emit_per g n * count_occ_b k rcpts
        - ind (bytes_eqb k self) (emit_per g n * Z.of_nat (length rcpts)).
  Proof.
    intros Hl Hm H. unfold alphabet_emit in H.
    ob H as ok Ep. ob H as u1 Eo. apply oassert_halt in Eo. subst ok.
    unfold alphabet_on_payment in H. rewrite !bytes_eqb_refl in H.
    cbn [negb andb] in H. rewrite andb_false_r in H. cbn [obind] in H.
    set (l0 := if minted =? 0 then l else <[self:=gbal l self + minted]> l) in *.
    assert (Hg0 : gbal l0 self = gbal l self + minted).
    { subst l0. destruct (minted =? 0) eqn:Em; [lia|]. rewrite gbal_insert, bytes_eqb_refl. reflexivity. }
    assert (Hl0 : forall k, gbal l0 k = gbal l k + ind (bytes_eqb k self) minted).
    { intros k. subst l0. unfold ind. destruct (minted =? 0) eqn:Em.
      - destruct (bytes_eqb k self); lia.
      - rewrite gbal_insert. destruct (bytes_eqb k self) eqn:Ek; [apply bytes_eqb_eq in Ek; subst|]; lia. }
    assert (Hs0 : lsum l0 = lsum l + minted).
    { subst l0. destruct (minted =? 0) eqn:Em; [lia|]. rewrite lsum_insert. lia. }
    rewrite Hg0 in H. cbv zeta. set (g := gbal l self + minted) in *.
    assert (Hg : 0 <= g) by lia.
    rewrite (emit_quot_half g Hg) in H.
    destruct (emit_half g =? 0) eqn:Eh; [discriminate|].
    assert (2 <= g) by (destruct (Z_lt_ge_dec g 2) as [Hlt|]; [apply emit_half_zero in Hlt; lia|lia]).
    destruct (emit_half_bounds g Hg) as ((Hh0 & Hh1) & _).
    ob H as [[l1 ok1] ns1] Et.
    apply gas_transfer_spec in Et as (Hs & Hpx & [(_ & _ & _ & Hk)|(_ & Hx & _ & -> & pevs & Hc & ->)]);
      [destruct Hk as [Hk|[Hk|Hk]]; [lia|discriminate|lia]|].
    set (n := Z.of_nat (length (ir c))) in *.
    destruct (n =? 0) eqn:En; [discriminate|]. assert (Hn : 0 < n) by lia.
    replace (Z.quot (Z.quot ((g - emit_half g) * 7) 8) n) with (emit_per g n) in H
      by (symmetry; apply emit_quot_per; assumption).
    destruct (emit_per_bounds g n Hg Hn) as (Hp0 & Hp1 & Hp2).
    split; [reflexivity|]. split; [assumption|]. split; [lia|]. split; [exact Hs|]. split; [exact Hpx|].
    destruct (emit_per g n =? 0) eqn:Epz.
    - injection H as <- <-. exists [], pevs, []. cbn [pay_all]. rewrite app_nil_r.
      split; [reflexivity|]. split; [exact Hc|]. split; [reflexivity|]. split; [reflexivity|].
      split; [rewrite lsum_move; exact Hs0|].
      intros k. rewrite gbal_move, Hl0. cbn [count_occ_b length]. unfold ind.
      destruct (bytes_eqb k self), (bytes_eqb k proxy); lia.
    - apply emit_nodes_spec in H as (rcpts & evs & Hmm & -> & Hpa & ->); [|lia|].
      + exists rcpts, pevs, evs. split; [exact Hmm|]. split; [exact Hc|]. split; [exact Hpa|]. split.
        { rewrite <- app_assoc. reflexivity. }
        split; [rewrite lsum_moves, lsum_move; exact Hs0|].
        intros k. rewrite gbal_moves, gbal_move, Hl0. unfold ind.
        destruct (bytes_eqb k self), (bytes_eqb k proxy); lia.
      + rewrite gbal_move, bytes_eqb_refl, Hg0. fold n. unfold ind at 1.
        unfold ind. destruct (bytes_eqb self proxy); lia.
  Qed.

  Lemma count_occ_b_notin k l : k ∉ l -> count_occ_b k l = 0.
  Proof.
    induction l as [|x l IH]; cbn [count_occ_b]; [reflexivity|].
    intros H. apply not_elem_of_cons in H as [H1 H2]. rewrite (IH H2).
    assert (bytes_eqb k x = false) as -> by (apply bytes_eqb_neq; exact H1). reflexivity.
  Qed.

  Lemma count_occ_b_nodup k l : NoDup l -> k ∈ l -> count_occ_b k l = 1.
  Proof.
    induction l as [|x l IH]; intros Hd Hin; [inversion Hin|].
    apply NoDup_cons in Hd as [Hx Hd]. cbn [count_occ_b].
    apply elem_of_cons in Hin as [->|Hin].
    - rewrite bytes_eqb_refl, (count_occ_b_notin _ _ Hx). reflexivity.
    - rewrite (IH Hd Hin).
      assert (bytes_eqb k x = false) as -> by (apply bytes_eqb_neq; intros ->; contradiction). reflexivity.
  Qed.

  (** The split, account by account, when the contract, the proxy and the
      node accounts are pairwise different. *)
  Lemma emit_distinct (self proxy : bytes) (minted : Z) (l l' : gmap bytes Z) (half per : Z)
      (rcpts : list bytes) :
    (forall k, gbal l' k =
        gbal l k + ind (bytes_eqb k self) minted
        - ind (bytes_eqb k self) half + ind (bytes_eqb k proxy) half
        + per * count_occ_b k rcpts
        - ind (bytes_eqb k self) (per * Z.of_nat (length rcpts))) ->
    NoDup (self :: proxy :: rcpts) ->
    gbal l' proxy = gbal l proxy + half /\
    (forall r, r ∈ rcpts -> gbal l' r = gbal l r + per) /\
    gbal l' self = gbal l self + minted - half - per * Z.of_nat (length rcpts) /\
    (forall k, k ∉ self :: proxy :: rcpts -> gbal l' k = gbal l k).
  Proof.
    intros H Hd. apply NoDup_cons in Hd as [Hs Hd]. apply NoDup_cons in Hd as [Hp Hd].
    apply not_elem_of_cons in Hs as [Hsp Hsr].
    repeat split.
    - rewrite H, bytes_eqb_refl, (count_occ_b_notin _ _ Hp).
      assert (bytes_eqb proxy self = false) as -> by (apply bytes_eqb_neq; congruence). unfold ind. lia.
    - intros r Hr. rewrite H, (count_occ_b_nodup _ _ Hd Hr).
      assert (bytes_eqb r self = false) as -> by (apply bytes_eqb_neq; intros ->; contradiction).
      assert (bytes_eqb r proxy = false) as -> by (apply bytes_eqb_neq; intros ->; contradiction).
      unfold ind. lia.
    - rewrite H, bytes_eqb_refl, (count_occ_b_notin _ _ Hsr).
      assert (bytes_eqb self proxy = false) as -> by (apply bytes_eqb_neq; exact Hsp). unfold ind. lia.
    - intros k Hk. apply not_elem_of_cons in Hk as [Hk1 Hk]. apply not_elem_of_cons in Hk as [Hk2 Hk3].
      rewrite H, (count_occ_b_notin _ _ Hk3).
      assert (bytes_eqb k self = false) as -> by (apply bytes_eqb_neq; exact Hk1).
      assert (bytes_eqb k proxy = false) as -> by (apply bytes_eqb_neq; exact Hk2).
      unfold ind. lia.
  Qed.

  (** The fault branches: too little GAS, no Inner Ring. *)
  Lemma emit_small self index proxy minted l :
    0 <= gbal l self -> 0 <= minted -> gbal l self + minted < 2 ->
    alphabet_emit cb e c self index proxy minted l = Fault.
  Proof.
    intros Hl Hm Hs. destruct (alphabet_emit cb e c self index proxy minted l) as [[l' ns]|] eqn:E; [|reflexivity].
    apply emit_spec in E; [|assumption|assumption]. cbv zeta in E. lia.
  Qed.

  Lemma emit_no_ring self index proxy minted l :
    0 <= gbal l self -> 0 <= minted -> ir c = [] ->
    alphabet_emit cb e c self index proxy minted l = Fault.
  Proof.
    intros Hl Hm Hs. destruct (alphabet_emit cb e c self index proxy minted l) as [[l' ns]|] eqn:E; [|reflexivity].
    apply emit_spec in E; [|assumption|assumption]. cbv zeta in E. rewrite Hs in E. cbn in E. lia.
  Qed.
End Emit.
