(** Proofs/PlacementRoster.v — the storage-level roster (AddNextEpochNodes /
    CommitContainerListUpdate / Nodes / ReplicasNumbers) refines the list
    specification [astep] of Model/Placement.v, for every history (C14). *)
From Verif Require Import Base.Prelude Base.IntCodec Model.Placement Proofs.PlacementVerify
  Proofs.PlacementCodec Proofs.PlacementStore.
From Coq Require Import ZifyBool ZifyNat ZifyN.
Local Open Scope Z_scope.

Notation l2m l := (@list_to_map bytes bytes store _ _ l) (only parsing).
Notation lkp m k := (@lookup bytes bytes store _ k m) (only parsing).

(** * Entries of one vector: key = prefix ++ counter, counters n+1, n+2, .. *)

Definition ents (P : bytes) (n : nat) (keys : list bytes) : list (bytes * bytes) :=
  imap (fun t x => (P ++ ctb (Z.of_nat (n + t) + 1), x)) keys.

Lemma ents_cons P n k keys :
  ents P n (k :: keys) = (P ++ ctb (Z.of_nat n + 1), k) :: ents P (S n) keys.
Proof.
  unfold ents. rewrite imap_cons. f_equal; [by rewrite Nat.add_0_r|].
  apply imap_ext. intros t x _. simpl. do 3 f_equal. lia.
Qed.

Lemma elem_of_ents P n keys k x :
  (k, x) ∈ ents P n keys <-> exists t, k = P ++ ctb (Z.of_nat (n + t) + 1) /\ keys !! t = Some x.
Proof.
  unfold ents. rewrite elem_of_lookup_imap. split.
  - intros (t & y & [= -> ->] & Hy). eauto.
  - intros (t & -> & Hy). eauto.
Qed.

Lemma ents_keys_lt P n keys k :
  Z.of_nat (S n + length keys) <= 65535 ->
  k ∈ map fst (ents P (S n) keys) -> bytes_lt (P ++ ctb (Z.of_nat n + 1)) k.
Proof.
  intros Hr ([k' x] & -> & Hin)%elem_of_list_fmap. apply elem_of_ents in Hin as (t & -> & Ht).
  apply lookup_lt_Some in Ht. cbn [fst]. apply bytes_lt_app_l, ctb_lt; lia.
Qed.

Lemma ents_sorted P keys : forall n,
  Z.of_nat (n + length keys) <= 65535 -> StronglySorted bytes_lt (map fst (ents P n keys)).
Proof.
  induction keys as [|k keys IH]; intros n Hr; [constructor|].
  rewrite ents_cons. simpl. constructor.
  - apply IH. simpl in Hr. lia.
  - apply Forall_forall. intros k' Hk'. eapply ents_keys_lt; [|exact Hk']. simpl in Hr. lia.
Qed.

Lemma ents_nil_iff P n keys : ents P n keys = [] <-> keys = [].
Proof. destruct keys; [done|]. rewrite ents_cons. done. Qed.

Lemma last_ents P keys x n :
  last keys = Some x ->
  last (ents P n keys) = Some (P ++ ctb (Z.of_nat (n + length keys)), x).
Proof.
  rewrite !last_lookup. unfold ents. rewrite imap_length, list_lookup_imap. intros Hl. rewrite Hl.
  apply lookup_lt_Some in Hl. cbn [fmap option_fmap option_map]. do 4 f_equal. lia.
Qed.

(** * [sput] *)

Lemma sput_halt k v (s s' : store) : sput k v s = Halt s' -> s' = <[k := v]> s.
Proof. unfold sput. destruct (_ && _); [|discriminate]. by intros [= <-]. Qed.

Lemma sput_ok k v (s : store) :
  (length k <= 64)%nat -> Z.of_nat (length v) <= 65535 -> sput k v s = Halt (<[k := v]> s).
Proof.
  intros Hk Hv. unfold sput.
  destruct (Nat.leb_spec (length k) 64); [|lia]. destruct (Z.leb_spec (Z.of_nat (length v)) 65535); [|lia].
  reflexivity.
Qed.

(** * The add loop *)

Lemma add_loop_halt_len P keys : forall n s s',
  add_loop P n keys s = Halt s' -> forallb pubkey_len keys = true.
Proof.
  induction keys as [|k keys IH]; intros n s s' H; [reflexivity|].
  simpl in H. inv_bind H. apply oassert_halt in Ha. inv_bind H. simpl. rewrite Ha. eauto.
Qed.

Lemma add_loop_frame P keys : forall n s s',
  add_loop P n keys s = Halt s' -> forall k, is_prefix P k = false -> s' !! k = s !! k.
Proof.
  induction keys as [|k0 keys IH]; intros n s s' H k Hk; simpl in H; [by injection H as <-|].
  inv_bind H. inv_bind H. apply sput_halt in Ha0 as ->.
  rewrite (IH _ _ _ H k Hk). apply lookup_insert_ne. intros <-. by rewrite is_prefix_refl_app in Hk.
Qed.

Lemma add_loop_exact P keys : forall (n : nat) (s : store),
  (length P = 34)%nat -> Z.of_nat (n + length keys) <= 65535 ->
  forallb pubkey_len keys = true ->
  add_loop P (Z.of_nat n) keys s = Halt (list_to_map (ents P n keys) ∪ s).
Proof.
  induction keys as [|k keys IH]; intros n s HP Hr Hlen.
  - simpl. by rewrite (left_id_L ∅ (∪)).
  - simpl in Hlen. apply andb_true_iff in Hlen as [Hk Hlen]. simpl in Hr.
    assert (Hkl : (length k = 33)%nat) by (unfold pubkey_len in Hk; by apply Nat.eqb_eq in Hk).
    pose proof (ctb_length (Z.of_nat n + 1) ltac:(lia)) as Hcl.
    assert (E : Z.of_nat n + 1 = Z.of_nat (S n)) by lia.
    rewrite ents_cons, list_to_map_cons.
    cbn [add_loop]. cbv zeta. rewrite Hk. cbn [oassert obind].
    rewrite sput_ok by (rewrite ?app_length; lia). cbn [obind].
    rewrite E at 1. rewrite IH by (auto; lia). f_equal.
    rewrite <- insert_union_l. rewrite insert_union_r; [reflexivity|].
    apply not_elem_of_list_to_map. intros Hin.
    apply (ents_keys_lt P n keys) in Hin; [|lia]. by apply bytes_lt_irrefl in Hin.
Qed.

Lemma uw_some_l v (o : option bytes) : union_with (fun x _ : bytes => Some x) (Some v) o = Some v.
Proof. by destruct o. Qed.
Lemma uw_none_l (o : option bytes) : union_with (fun x _ : bytes => Some x) None o = o.
Proof. by destruct o. Qed.

Lemma uw_none_r (o : option bytes) : union_with (fun x _ : bytes => Some x) o None = o.
Proof. by destruct o. Qed.

Lemma opt_eta {A} (o : option A) : match o with Some v => Some v | None => None end = o.
Proof. by destruct o. Qed.

Lemma bytes_lt_single (a b : N) : (a < b)%N -> bytes_lt [a] [b].
Proof.
  intros Hab. split; [|intros [= ->]; lia]. cbn [bytes_leb].
  by rewrite (proj2 (N.ltb_lt a b) Hab).
Qed.

(** * The move loop of the commit *)

Definition mv (kv : bytes * bytes) : bytes * bytes := (pN :: tail (fst kv), snd kv).

Lemma move_loop_inv L : forall (s s2 : store),
  (forall kv, kv ∈ L -> exists r, fst kv = pU :: r) -> NoDup (map fst L) ->
  move_loop L s = Halt s2 ->
  s2 = list_to_map (map mv L) ∪ del_all (map fst L) s.
Proof.
  induction L as [|[k v] L IH]; intros s s2 Hh Hnd H.
  - simpl in H. injection H as <-. simpl. by rewrite (left_id_L ∅ (∪)).
  - simpl in H. inv_bind H. apply sput_halt in Ha as ->.
    simpl in Hnd. apply NoDup_cons in Hnd as [Hk Hnd].
    assert (Hh' : forall kv, kv ∈ L -> exists r, fst kv = pU :: r) by (intros kv Hkv; apply Hh; by right).
    rewrite (IH _ _ Hh' Hnd H). clear IH H.
    destruct (Hh (k, v) ltac:(left)) as [r Hr]. simpl in Hr. subst k. simpl.
    change (del_all (((pU :: r) :: map fst L)) s) with (del_all (map fst L) (delete (pU :: r) s)).
    set (s0 := delete (pU :: r) s). clearbody s0.
    assert (Hkn1 : (pN :: r) ∉ map fst L).
    { intros ([k' v'] & Hk' & Hin)%elem_of_list_fmap. simpl in Hk'.
      destruct (Hh' _ Hin) as [r' Hr']. simpl in Hr'. subst k'. discriminate. }
    assert (Hkn2 : @lookup bytes bytes store _ (pN :: r) (l2m (map mv L)) = None).
    { apply not_elem_of_list_to_map. intros Hin.
      apply elem_of_list_fmap in Hin as (kv' & Hk' & Hin).
      apply elem_of_list_fmap in Hin as ([k2 v2] & -> & Hin2).
      destruct (Hh' _ Hin2) as [r' Hr']. simpl in Hr'. subst k2.
      unfold mv in Hk'. simpl in Hk'. injection Hk' as Hk'. subst r'. apply Hk.
      apply elem_of_list_fmap. by exists (pU :: r, v2). }
    apply map_eq. intros x. rewrite !lookup_union, !del_all_lookup.
    destruct (decide (x = pN :: r)) as [->|Hne].
    + rewrite Hkn2, lookup_insert. rewrite bool_decide_eq_false_2 by exact Hkn1.
      rewrite lookup_insert. by destruct (delete _ _ !! _).
    + rewrite !lookup_insert_ne by congruence. reflexivity.
Qed.

Lemma move_loop_halts L : forall (s : store),
  (forall kv, kv ∈ L -> (length (fst kv) <= 64)%nat /\ Z.of_nat (length (snd kv)) <= 65535 /\ fst kv <> []) ->
  exists s2, move_loop L s = Halt s2.
Proof.
  induction L as [|[k v] L IH]; intros s Hl; simpl; [eauto|].
  destruct (Hl (k, v) ltac:(left)) as (H1 & H2 & H3). simpl in *.
  rewrite sput_ok; [|destruct k; simpl in *; [done|lia]|lia]. simpl.
  apply IH. intros kv Hkv. apply Hl. by right.
Qed.

(** What the three loops of the commit leave in the store, key by key. *)
Lemma move_result_lookup (s1 s2 : store) cid :
  move_loop (sfind (pU :: cid) s1) s1 = Halt s2 ->
  forall x,
    s2 !! x =
      if is_prefix (pU :: cid) x then None
      else if is_prefix (pN :: cid) x then
             match s1 !! (pU :: tail x) with Some v => Some v | None => s1 !! x end
      else s1 !! x.
Proof.
  intros H x. set (L := sfind (pU :: cid) s1) in *.
  assert (HL : forall k v, (k, v) ∈ L <-> s1 !! k = Some v /\ is_prefix (pU :: cid) k = true)
    by (intros; apply elem_of_sfind).
  assert (Hh : forall kv, kv ∈ L -> exists r, fst kv = pU :: r).
  { intros [k v] [_ Hp]%HL. apply is_prefix_app in Hp as [r ->]. simpl. eauto. }
  assert (Hnd : NoDup (map fst L)) by apply NoDup_sfind_keys.
  apply (move_loop_inv L s1 s2 Hh Hnd) in H. subst s2.
  assert (HM : forall y v, (l2m (map mv L)) !! y = Some v ->
             exists k, (k, v) ∈ L /\ y = pN :: tail k).
  { intros y v Hy. apply elem_of_list_to_map_2 in Hy.
    apply elem_of_list_fmap in Hy as ([k v'] & Heq & Hin). unfold mv in Heq. simpl in Heq.
    injection Heq as -> ->. eauto. }
  assert (HMnd : NoDup (map fst (map mv L))).
  { replace (map fst (map mv L)) with (map (fun k => pN :: tail k) (map fst L)).
    - apply NoDup_fmap_2_strong; [|exact Hnd].
      intros k1 k2 ([k1' v1] & -> & H1)%elem_of_list_fmap ([k2' v2] & -> & H2)%elem_of_list_fmap He.
      destruct (Hh _ H1) as [r1 Hr1], (Hh _ H2) as [r2 Hr2]. simpl in *. subst. by injection He as ->.
    - rewrite !map_map. reflexivity. }
  rewrite lookup_union. fold (del_all (map fst L) s1). unfold L at 2. rewrite del_sfind_lookup. fold L.
  destruct (is_prefix (pU :: cid) x) eqn:EU.
  - destruct (lkp (l2m (map mv L)) x) as [v|] eqn:EM; [|reflexivity].
    destruct (HM _ _ EM) as (k & _ & ->). simpl in EU. discriminate.
  - destruct (is_prefix (pN :: cid) x) eqn:EN.
    + apply is_prefix_app in EN as [r ->]. simpl.
      destruct (s1 !! (pU :: cid ++ r)) as [v|] eqn:E1.
      * assert (Hin : (pU :: cid ++ r, v) ∈ L) by (apply HL; split; [exact E1|apply (is_prefix_refl_app (pU :: cid))]).
        rewrite (elem_of_list_to_map_1 (map mv L) (pN :: cid ++ r) v HMnd); [apply uw_some_l|].
        apply elem_of_list_fmap. exists (pU :: cid ++ r, v). split; [reflexivity|exact Hin].
      * destruct (lkp (l2m (map mv L)) (pN :: cid ++ r)) as [v|] eqn:EM.
        -- destruct (HM _ _ EM) as (k & Hk & Heq). destruct (Hh _ Hk) as [r' Hr']. simpl in Hr'. subst k.
           simpl in Heq. injection Heq as <-. apply HL in Hk as [Hk _].
           pose proof (eq_trans (eq_sym Hk) E1) as Hc. discriminate Hc.
        -- apply uw_none_l.
    + destruct (lkp (l2m (map mv L)) x) as [v|] eqn:EM.
      * destruct (HM _ _ EM) as (k & Hk & ->). apply HL in Hk as [_ Hp].
        apply is_prefix_app in Hp as [r ->].
        pose proof (is_prefix_refl_app (pN :: cid) r) as Hc.
        pose proof (eq_trans (eq_sym Hc) EN) as Hd. discriminate Hd.
      * apply uw_none_l.
Qed.

(** * The REP loop *)

Definition rents (cid : bytes) (i0 : nat) (l : list Z) : list (bytes * bytes) :=
  imap (fun t r => (pR :: cid ++ [N.of_nat (i0 + t)], int_to_bytes r)) l.

Lemma rents_cons cid i0 r l :
  rents cid i0 (r :: l) = (pR :: cid ++ [N.of_nat i0], int_to_bytes r) :: rents cid (S i0) l.
Proof.
  unfold rents. rewrite imap_cons. f_equal; [by rewrite Nat.add_0_r|].
  apply imap_ext. intros t x _. simpl. do 5 f_equal. lia.
Qed.

Lemma elem_of_rents cid i0 l k v :
  (k, v) ∈ rents cid i0 l <-> exists t r, k = pR :: cid ++ [N.of_nat (i0 + t)] /\ l !! t = Some r /\ v = int_to_bytes r.
Proof.
  unfold rents. rewrite elem_of_lookup_imap. split.
  - intros (t & r & [= -> ->] & Hy). eauto.
  - intros (t & r & -> & Hy & ->). eauto.
Qed.

Lemma byte_of_nat (i : nat) b : byte_of (Z.of_nat i) = Halt b -> (i <= 255)%nat /\ b = N.of_nat i.
Proof.
  unfold byte_of. destruct (Z.leb_spec (-128) (Z.of_nat i)); [|discriminate].
  destruct (Z.leb_spec (Z.of_nat i) 255); [|discriminate]. simpl. intros [= <-].
  split; [lia|]. rewrite Z.mod_small by lia. lia.
Qed.

Lemma byte_of_nat_ok (i : nat) : (i <= 255)%nat -> byte_of (Z.of_nat i) = Halt (N.of_nat i).
Proof.
  intros Hi. unfold byte_of. destruct (Z.leb_spec (-128) (Z.of_nat i)); [|lia].
  destruct (Z.leb_spec (Z.of_nat i) 255); [|lia]. simpl. f_equal. rewrite Z.mod_small by lia. lia.
Qed.

Definition rep_val_ok (r : Z) : bool := int_ok r && (r <=? 255).

Lemma rents_fresh cid i0 l : (pR :: cid ++ [N.of_nat i0]) ∉ map fst (rents cid (S i0) l).
Proof.
  intros ([k v] & Hk & Hin)%elem_of_list_fmap. simpl in Hk. subst k.
  apply elem_of_rents in Hin as (t & r & Heq & _). injection Heq as Heq.
  apply app_inv_head in Heq. injection Heq as Heq. lia.
Qed.

Lemma reps_loop_inv cid l : forall (i0 : nat) (s s' : store),
  reps_loop (pR :: cid) (Z.of_nat i0) l s = Halt s' ->
  s' = list_to_map (rents cid i0 l) ∪ s /\ (l <> [] -> (i0 + length l <= 256)%nat) /\
  forallb rep_val_ok l = true.
Proof.
  induction l as [|r l IH]; intros i0 s s' H.
  - simpl in H. injection H as <-. simpl. rewrite (left_id_L ∅ (∪)). split; [reflexivity|]. split; [done|reflexivity].
  - cbn [reps_loop] in H. inv_bind H. apply oassert_halt in Ha. rename Ha into Hio.
    inv_bind H. apply oassert_halt in Ha. rename Ha into Hr.
    inv_bind H. apply byte_of_nat in Ha as [Hi ->].
    inv_bind H. apply sput_halt in Ha as ->.
    replace (Z.of_nat i0 + 1) with (Z.of_nat (S i0)) in H by lia.
    apply IH in H as (-> & Hlen & Hall). split; [|split].
    + rewrite rents_cons, list_to_map_cons. rewrite <- insert_union_l.
      rewrite insert_union_r; [reflexivity|]. apply not_elem_of_list_to_map, rents_fresh.
    + intros _. simpl. destruct l as [|r2 l]; [simpl; lia|]. specialize (Hlen ltac:(done)). simpl in *. lia.
    + simpl. unfold rep_val_ok at 1. rewrite Hio, Hall. simpl.
      destruct (Z.ltb_spec 255 r); [discriminate|]. destruct (Z.leb_spec r 255); [reflexivity|lia].
Qed.

Lemma rep_val_ok_len r : rep_val_ok r = true -> (length (int_to_bytes r) <= 32)%nat.
Proof.
  unfold rep_val_ok, int_ok. intros H. apply int_to_bytes_small_len. lia.
Qed.

Lemma reps_loop_halts cid l : forall (i0 : nat) (s : store),
  (length cid = 32)%nat -> (i0 + length l <= 256)%nat -> forallb rep_val_ok l = true ->
  exists s', reps_loop (pR :: cid) (Z.of_nat i0) l s = Halt s'.
Proof.
  induction l as [|r l IH]; intros i0 s Hc Hl Hall; [simpl; eauto|].
  simpl in Hall. apply andb_true_iff in Hall as [Hr Hall]. simpl in Hl.
  pose proof (rep_val_ok_len r Hr) as Hrl.
  unfold rep_val_ok in Hr. apply andb_true_iff in Hr as [Hio Hr].
  cbn [reps_loop]. rewrite Hio. cbn [oassert obind].
  destruct (Z.ltb_spec 255 r); [lia|]. cbn [negb oassert obind].
  rewrite byte_of_nat_ok by lia. cbn [obind].
  rewrite sput_ok by (simpl; rewrite ?app_length; simpl; lia). cbn [obind].
  replace (Z.of_nat i0 + 1) with (Z.of_nat (S i0)) by lia. apply IH; auto. lia.
Qed.

Lemma is_prefix_cons_inv c p x :
  is_prefix (c :: p) x = true -> exists x', x = c :: x' /\ is_prefix p x' = true.
Proof.
  destruct x as [|d x]; [discriminate|]. cbn [is_prefix].
  intros [Hc Hp]%andb_true_iff. apply N.eqb_eq in Hc as <-. eauto.
Qed.

(** * The commit, key by key (no invariant needed: the call is assumed to halt) *)

Definition commit_lookup (s : store) (cid : bytes) (l : list Z) (x : bytes) : option bytes :=
  if is_prefix (pU :: cid) x then None
  else if is_prefix (pN :: cid) x then s !! (pU :: tail x)
  else if is_prefix (pR :: cid) x then (l2m (rents cid 0 l)) !! x
  else s !! x.

Lemma rents_prefix cid i0 l x v :
  (l2m (rents cid i0 l)) !! x = Some v -> is_prefix (pR :: cid) x = true.
Proof.
  intros H. apply elem_of_list_to_map_2, elem_of_rents in H as (t & r & -> & _).
  apply (is_prefix_refl_app (pR :: cid)).
Qed.

Lemma pfx_heads : pU <> pN /\ pU <> pR /\ pN <> pR /\ pN <> pU /\ pR <> pU /\ pR <> pN.
Proof. repeat split; discriminate. Qed.

Lemma commit_inv alpha (s s4 : store) cid reps ns :
  commit_list_update alpha s cid reps = Halt (s4, ns) ->
  alpha = true /\ hash256_len cid = true /\ reps_ok reps = true /\ ns = [NNodesUpdate cid] /\
  forall x, s4 !! x = commit_lookup s cid (default [] reps) x.
Proof.
  unfold commit_list_update. intros H.
  inv_bind H. apply oassert_halt in Ha. rename Ha into Hcid. clear a.
  inv_bind H. apply oassert_halt in Ha. rename Ha into Halpha. clear a.
  inv_bind H. rename a into s2, Ha into Hmove.
  inv_bind H. rename a into s4', Ha into Hreps. injection H as <- <-.
  set (s1 := del_all (map fst (sfind (pN :: cid) s)) s) in *.
  set (s3 := del_all (map fst (sfind (pR :: cid) s2)) s2) in *.
  assert (H1 : forall x, s1 !! x = if is_prefix (pN :: cid) x then None else s !! x)
    by (intros; apply del_sfind_lookup).
  assert (H3 : forall x, s3 !! x = if is_prefix (pR :: cid) x then None else s2 !! x)
    by (intros; apply del_sfind_lookup).
  pose proof (move_result_lookup s1 s2 cid Hmove) as H2.
  destruct pfx_heads as (N1 & N2 & N3 & N4 & N5 & N6).
  assert (H4 : s4' = list_to_map (rents cid 0 (default [] reps)) ∪ s3 /\ reps_ok reps = true).
  { destruct reps as [l|]; simpl.
    - apply (reps_loop_inv cid l 0) in Hreps as (-> & Hlen & Hall). split; [reflexivity|].
      unfold rep_val_ok in Hall. rewrite Hall, andb_true_r.
      destruct l; [reflexivity|]. specialize (Hlen ltac:(done)). apply Nat.leb_le. lia.
    - injection Hreps as <-. by rewrite (left_id_L ∅ (∪)). }
  destruct H4 as [-> Hrok].
  split; [exact Halpha|]. split; [exact Hcid|]. split; [exact Hrok|]. split; [reflexivity|].
  intros x. unfold commit_lookup. rewrite lookup_union, H3, H2.
  destruct (is_prefix (pU :: cid) x) eqn:EU.
  - apply is_prefix_cons_inv in EU as (x' & -> & EU). rename x' into x.
    rewrite (is_prefix_cons_ne pR pU) by done.
    destruct (lkp (l2m (rents cid 0 (default [] reps))) (pU :: x)) as [v|] eqn:EM; [|reflexivity].
    apply rents_prefix in EM. rewrite is_prefix_cons_ne in EM by done. discriminate.
  - destruct (is_prefix (pN :: cid) x) eqn:EN.
    + apply is_prefix_cons_inv in EN as (x' & -> & EN). rename x' into x. clear EU.
      rewrite (is_prefix_cons_ne pR pN) by done.
      destruct (lkp (l2m (rents cid 0 (default [] reps))) (pN :: x)) as [v|] eqn:EM.
      { apply rents_prefix in EM. rewrite is_prefix_cons_ne in EM by done. discriminate. }
      simpl. rewrite !H1. rewrite (is_prefix_cons_ne pN pU) by done.
      rewrite is_prefix_cons_same, EN. rewrite uw_none_l. apply opt_eta.
    + destruct (is_prefix (pR :: cid) x) eqn:ER.
      * apply uw_none_r.
      * destruct (lkp (l2m (rents cid 0 (default [] reps))) x) as [v|] eqn:EM.
        { apply rents_prefix in EM. congruence. }
        rewrite uw_none_l, H1, EN. reflexivity.
Qed.

(** * The specification-level well-formedness and the storage invariant *)

Definition ukey (c : N) (cid : bytes) (v : N) (j : nat) : bytes :=
  (c :: cid ++ [v]) ++ ctb (Z.of_nat j + 1).

Definition vec_inv (c : N) (s : store) (f : N -> list bytes) (cid : bytes) : Prop :=
  forall k val, (is_prefix (c :: cid) k = true /\ s !! k = Some val) <->
                exists v j, k = ukey c cid v j /\ f v !! j = Some val.

Definition rep_inv (s : store) (l : list Z) (cid : bytes) : Prop :=
  forall k val, (is_prefix (pR :: cid) k = true /\ s !! k = Some val) <->
                exists i, k = pR :: cid ++ [N.of_nat i] /\ int_to_bytes <$> (l !! i) = Some val.

Record Rc (s : store) (a : astate) (cid : bytes) : Prop := {
  rc_u : vec_inv pU s (pend a cid) cid;
  rc_n : vec_inv pN s (comm a cid) cid;
  rc_r : rep_inv s (areps a cid) cid }.

Record awf (a : astate) (cid : bytes) : Prop := {
  wf_pend_len : forall v, Z.of_nat (length (pend a cid v)) <= 65535;
  wf_pend_33 : forall v x, x ∈ pend a cid v -> length x = 33%nat;
  wf_comm_len : forall v, Z.of_nat (length (comm a cid v)) <= 65535;
  wf_reps : (length (areps a cid) <= 256)%nat /\ forallb rep_val_ok (areps a cid) = true }.

Lemma ukey_prefix c cid v j : is_prefix (c :: cid) (ukey c cid v j) = true.
Proof. unfold ukey. simpl. rewrite N.eqb_refl. simpl. rewrite <- app_assoc. apply is_prefix_refl_app. Qed.

Lemma ukey_vec_prefix c cid v v' j :
  is_prefix (c :: cid ++ [v]) (ukey c cid v' j) = true -> v = v'.
Proof.
  unfold ukey. simpl. rewrite N.eqb_refl. simpl. rewrite <- app_assoc, is_prefix_app_l. simpl.
  intros [H _]%andb_true_iff. by apply N.eqb_eq in H.
Qed.

(** [Find] under one vector's prefix lists exactly the specification's list,
    in order. *)
Lemma vec_find c (s : store) f cid v :
  vec_inv c s f cid -> Z.of_nat (length (f v)) <= 65535 ->
  sfind (c :: cid ++ [v]) s = ents (c :: cid ++ [v]) 0 (f v).
Proof.
  intros Hinv Hlen. apply sfind_unique; [apply ents_sorted; simpl; lia|].
  intros k val. rewrite elem_of_ents. split.
  - intros (t & -> & Ht). split.
    + apply (proj2 (Hinv _ val)). exists v, t. split; [reflexivity|exact Ht].
    + apply is_prefix_refl_app.
  - intros [Hs Hp].
    assert (Hp' : is_prefix (c :: cid) k = true).
    { eapply is_prefix_trans; [|exact Hp]. simpl. rewrite N.eqb_refl. apply is_prefix_refl_app. }
    destruct (proj1 (Hinv k val) (conj Hp' Hs)) as (v' & j & -> & Hj).
    apply ukey_vec_prefix in Hp as <-. exists j. split; [reflexivity|exact Hj].
Qed.

Lemma map_snd_ents P n l : map snd (ents P n l) = l.
Proof.
  revert n. induction l as [|x l IH]; intros n; [reflexivity|]. rewrite ents_cons. simpl. by rewrite IH.
Qed.

Lemma rents_sorted cid l : forall i0, StronglySorted bytes_lt (map fst (rents cid i0 l)).
Proof.
  induction l as [|r l IH]; intros i0; [constructor|].
  rewrite rents_cons. simpl. constructor; [apply IH|].
  apply Forall_forall. intros k ([k' v] & -> & Hin)%elem_of_list_fmap.
  apply elem_of_rents in Hin as (t & r' & -> & Ht & _).
  change (pR :: cid ++ [N.of_nat i0]) with ((pR :: cid) ++ [N.of_nat i0]).
  change (pR :: cid ++ [N.of_nat (S i0 + t)]) with ((pR :: cid) ++ [N.of_nat (S i0 + t)]).
  apply bytes_lt_app_l, bytes_lt_single. lia.
Qed.

Lemma rep_find (s : store) l cid :
  rep_inv s l cid -> sfind (pR :: cid) s = rents cid 0 l.
Proof.
  intros Hinv. apply sfind_unique; [apply rents_sorted|].
  intros k val. rewrite elem_of_rents. split.
  - intros (t & r & -> & Ht & ->). split.
    + apply (proj2 (Hinv _ _)). exists t. split; [reflexivity|]. by rewrite Ht.
    + apply (is_prefix_refl_app (pR :: cid)).
  - intros [Hs Hp]. destruct (proj1 (Hinv k val) (conj Hp Hs)) as (i & -> & Hi).
    destruct (l !! i) as [r|] eqn:Er; [|discriminate]. injection Hi as <-.
    exists i, r. split; [reflexivity|]. split; [exact Er|reflexivity].
Qed.

(** * Reads *)

Lemma byte_of_spec z b : byte_of z = Halt b -> b = vec_byte z /\ -128 <= z <= 255.
Proof.
  unfold byte_of, vec_byte. destruct (Z.leb_spec (-128) z); [|discriminate].
  destruct (Z.leb_spec z 255); [|discriminate]. simpl. intros [= <-]. split; [reflexivity|lia].
Qed.

Lemma byte_of_ok z : -128 <= z <= 255 -> byte_of z = Halt (vec_byte z).
Proof.
  intros Hz. unfold byte_of, vec_byte. destruct (Z.leb_spec (-128) z); [|lia].
  destruct (Z.leb_spec z 255); [|lia]. reflexivity.
Qed.

Lemma nodes_spec s a cid vec :
  Rc s a cid -> awf a cid -> length cid = 32%nat -> -128 <= vec <= 255 ->
  nodes s cid vec = Halt (comm a cid (vec_byte vec)).
Proof.
  intros HR Hwf Hc Hv. unfold nodes, hash256_len. rewrite Hc. simpl.
  rewrite byte_of_ok by exact Hv. simpl.
  rewrite (vec_find pN s (comm a cid) cid _ (rc_n _ _ _ HR) (wf_comm_len _ _ Hwf _)).
  by rewrite map_snd_ents.
Qed.

Lemma map_snd_rents cid i0 l : map snd (rents cid i0 l) = map int_to_bytes l.
Proof.
  revert i0. induction l as [|x l IH]; intros i0; [reflexivity|]. rewrite rents_cons. simpl. by rewrite IH.
Qed.

Lemma reps_spec s a cid :
  Rc s a cid -> awf a cid -> length cid = 32%nat ->
  replicas_numbers s cid = Halt (map int_to_bytes (areps a cid)).
Proof.
  intros HR Hwf Hc. unfold replicas_numbers, hash256_len. rewrite Hc. simpl.
  rewrite (rep_find s _ cid (rc_r _ _ _ HR)). by rewrite map_snd_rents.
Qed.

Lemma pending_spec s a cid v :
  Rc s a cid -> awf a cid ->
  map snd (sfind (pU :: cid ++ [v]) s) = pend a cid v.
Proof.
  intros HR Hwf.
  rewrite (vec_find pU s (pend a cid) cid _ (rc_u _ _ _ HR) (wf_pend_len _ _ Hwf _)).
  by rewrite map_snd_ents.
Qed.
