(** Proofs/GasWorld.v — the contracts together (Model/GasWorld.v): what the
    deployed callbacks do, the world-level form of the method specifications,
    and the two history theorems: the balance identity of the NeoFS contract
    and the honesty of its Deposit notifications. *)
From Verif Require Import Base.Prelude Base.IntCodec Model.Gas Model.ProxyProc Model.Alphabet
  Model.NeoFSGas Model.GasWorld Proofs.GasLedger Proofs.GasNeoFS Proofs.GasAlphabet.
From Coq Require Import ZifyBool ZifyNat ZifyN.
Local Open Scope Z_scope.

(** ** The deployed callbacks *)
Lemma kind_of_fs e : kind_of e (fsH e) = KNeoFS.
Proof. unfold kind_of. rewrite bytes_eqb_refl. reflexivity. Qed.

Lemma kind_of_neofs_inv e a : kind_of e a = KNeoFS -> a = fsH e.
Proof.
  unfold kind_of. destruct (bytes_eqb a (fsH e)) eqn:E; [intros _; apply bytes_eqb_eq; exact E|].
  destruct (assoc a (kinds e)) as [[]|]; discriminate.
Qed.

Lemma world_cb_neofs e c tok f a d :
  world_cb e c tok (fsH e) f a d = neofs_on_payment (gasH e) (txhash c) tok f a d.
Proof. unfold world_cb. rewrite kind_of_fs. reflexivity. Qed.

Lemma world_cb_quiet e c : cb_quiet (world_cb e c).
Proof.
  intros tok t f a d ns. unfold world_cb, processing_on_payment, proxy_on_payment, alphabet_on_payment.
  destruct (kind_of e t).
  - intros [= <-]. reflexivity.
  - apply on_payment_quiet.
  - destruct (negb (bytes_eqb tok (gasH e))); [discriminate|]. intros [= <-]. reflexivity.
  - destruct (negb (bytes_eqb tok (gasH e))); [discriminate|]. intros [= <-]. reflexivity.
  - destruct (negb (bytes_eqb tok (gasH e)) && negb (bytes_eqb tok (neoH e))); [discriminate|].
    intros [= <-]. reflexivity.
  - intros [= <-]. reflexivity.
  - discriminate.
Qed.

(** Only the NeoFS contract says anything when it is paid. *)
Lemma world_cb_silent e c tok t f a d ns :
  t <> fsH e -> world_cb e c tok t f a d = Halt ns -> ns = [].
Proof.
  intros Ht. unfold world_cb, processing_on_payment, proxy_on_payment, alphabet_on_payment.
  destruct (kind_of e t) eqn:Ek.
  - intros [= <-]. reflexivity.
  - apply kind_of_neofs_inv in Ek. contradiction.
  - destruct (negb (bytes_eqb tok (gasH e))); [discriminate|]. intros [= <-]. reflexivity.
  - destruct (negb (bytes_eqb tok (gasH e))); [discriminate|]. intros [= <-]. reflexivity.
  - destruct (negb (bytes_eqb tok (gasH e)) && negb (bytes_eqb tok (neoH e))); [discriminate|].
    intros [= <-]. reflexivity.
  - intros [= <-]. reflexivity.
  - discriminate.
Qed.

(** Accept-only, as the dispatch sees it. *)
Lemma world_cb_proxy e c tok t f a d :
  kind_of e t = KProxy \/ kind_of e t = KProcessing ->
  world_cb e c tok t f a d = if bytes_eqb tok (gasH e) then Halt [] else Fault.
Proof.
  unfold world_cb, processing_on_payment, proxy_on_payment.
  intros [-> | ->]; destruct (bytes_eqb tok (gasH e)); reflexivity.
Qed.

Lemma world_cb_alphabet e c tok t f a d i p :
  kind_of e t = KAlphabet i p ->
  world_cb e c tok t f a d =
    if bytes_eqb tok (gasH e) || bytes_eqb tok (neoH e) then Halt [] else Fault.
Proof.
  unfold world_cb, alphabet_on_payment. intros ->.
  destruct (bytes_eqb tok (gasH e)), (bytes_eqb tok (neoH e)); reflexivity.
Qed.

(** Paying everybody of [rcpts] when none of them is the NeoFS contract. *)
Lemma pay_all_silent e c u a d rcpts : forall evs,
  Forall (fun r => r <> fsH e) rcpts ->
  pay_all (world_cb e c) (gasH e) u a d rcpts = Halt evs ->
  evs = map (fun r => EGas u r a) rcpts.
Proof.
  induction rcpts as [|r rest IH]; intros evs Hf H; cbn [pay_all] in H.
  - injection H as <-. reflexivity.
  - inversion Hf as [|? ? Hr Hrest]; subst.
    ob H as cns Ec. ob H as rns Er. injection H as <-.
    apply world_cb_silent in Ec; [|exact Hr]. subst cns.
    rewrite (IH rns Hrest eq_refl). reflexivity.
Qed.

(** ** Events that do not touch the accounting *)
Definition neutral (n : ev) : bool :=
  match n with EGas _ _ _ | ECheque _ _ _ _ => false | _ => true end.

Lemma neutral_flows k ns :
  forallb neutral ns = true -> inflow k ns = 0 /\ outflow k ns = 0 /\ cheques ns = 0.
Proof.
  induction ns as [|n ns IH]; cbn [forallb]; [cbn; auto|].
  intros H. apply andb_true_iff in H as [H1 H2]. destruct (IH H2) as (A & B & C).
  destruct n; try discriminate; cbn [inflow outflow cheques fold_right];
    fold (inflow k ns); fold (outflow k ns); fold (cheques ns); auto.
Qed.

Lemma quiet_neutral ns : quiet ns -> forallb neutral ns = true.
Proof.
  unfold quiet. induction ns as [|n ns IH]; cbn [forallb]; [reflexivity|].
  intros H. apply andb_true_iff in H as [H1 H2]. rewrite (IH H2). destruct n; try discriminate. reflexivity.
Qed.

(** One step keeps the books: [ok_step N l ns l']. *)
Definition ok_step (N : bytes) (l : ledger) (ns : list ev) (l' : ledger) : Prop :=
  gas_sound_but_null l ns l' /\ outflow N ns = cheques ns.

Lemma ok_step_neutral N l ns : forallb neutral ns = true -> ok_step N l ns l.
Proof.
  intros H. split.
  - intros k _. destruct (neutral_flows k ns H) as (-> & -> & _). lia.
  - destruct (neutral_flows N ns H) as (_ & -> & ->). reflexivity.
Qed.

Lemma sound_add_neutral l ns l' q :
  gas_sound l ns l' -> forallb neutral q = true -> gas_sound l (ns ++ q) l'.
Proof.
  intros H Hq k. rewrite inflow_app, outflow_app.
  destruct (neutral_flows k q Hq) as (-> & -> & _). rewrite H. lia.
Qed.

Section Steps.
  Variable e : env.
  Variable c : ctx.
  Local Notation cb := (world_cb e c).
  Local Notation N := (fsH e).

  (** Assumptions on the deployment and the context (see Props/C19.v):
      the NeoFS contract has a 20-byte hash, no public key hashes to it, and
      it never signs a transaction (it has no [verify] method). *)
  Hypothesis HN : hash_len N = true.
  Hypothesis Hkeys : forall k h, std_acc e k = Some h -> h <> N.
  Hypothesis Hnosign : inb N (wit c) = false.

  Lemma N_not_null : N <> [].
  Proof. intros H. rewrite H in HN. discriminate. Qed.

  Lemma witnessed_not_N u : inb u (wit c) = true -> u <> N.
  Proof. intros H ->. rewrite Hnosign in H. discriminate. Qed.

  Lemma check_witness_not_N u : hash_len u = true -> check_witness e c u = Halt true -> u <> N.
  Proof.
    unfold check_witness. intros -> [= H]. apply witnessed_not_N. exact H.
  Qed.

  Lemma out_block f t a cns :
    f <> N -> quiet cns -> outflow N (EGas f t a :: cns) = 0 /\ cheques (EGas f t a :: cns) = 0.
  Proof.
    intros Hf Hq. cbn [outflow cheques fold_right]. fold (outflow N cns). fold (cheques cns).
    destruct (quiet_flows N cns Hq) as (_ & -> & ->).
    assert (bytes_eqb N f = false) as -> by (apply bytes_eqb_neq; congruence). cbn. auto.
  Qed.

  Lemma emit_nodes_ok self per nodes : forall l ns0 l' ns,
    self <> N ->
    emit_nodes cb e self per nodes l ns0 = Halt (l', ns) ->
    exists evs, ns = ns0 ++ evs /\ gas_sound l evs l' /\ outflow N evs = 0 /\ cheques evs = 0.
  Proof.
    induction nodes as [|node rest IH]; intros l ns0 l' ns Hs H; cbn [emit_nodes] in H.
    - injection H as <- <-. exists []. rewrite app_nil_r. split; [reflexivity|].
      split; [apply gas_sound_nil|]. cbn. auto.
    - unfold std_acc_o in H. destruct (std_acc e node) as [addr|]; [|discriminate].
      cbn [obind] in H. ob H as [[l1 ok] ns1] Et.
      apply IH in H as (evs & -> & Hsd & Ho & Hc); [|exact Hs].
      pose proof (gas_transfer_sound _ _ _ _ _ _ _ _ _ _ _ (world_cb_quiet e c) Et) as Hs1.
      exists (ns1 ++ evs). split; [rewrite app_assoc; reflexivity|].
      split; [eapply gas_sound_app; eassumption|].
      rewrite outflow_app, cheques_app, Ho, Hc.
      apply gas_transfer_spec in Et as (_ & _ & [(_ & _ & -> & _)|(_ & _ & _ & _ & cns & Hcb & ->)]).
      + cbn. auto.
      + destruct (out_block self addr per cns Hs (world_cb_quiet e c _ _ _ _ _ _ Hcb)) as (-> & ->). auto.
  Qed.

  Lemma emit_ok self index proxy minted l l' ns :
    self <> N ->
    alphabet_emit cb e c self index proxy minted l = Halt (l', ns) -> ok_step N l ns l'.
  Proof.
    intros Hs H. unfold alphabet_emit in H.
    ob H as ok Ep. ob H as u1 Eo. ob H as u2 Ea1. ob H as u3 Ea2.
    destruct (Z.quot _ 2 =? 0); [discriminate|].
    ob H as [[l1 ok1] ns1] Et.
    destruct (Z.of_nat (length (ir c)) =? 0); [discriminate|].
    set (l0 := if minted =? 0 then l else <[self:=gbal l self + minted]> l) in *.
    set (ns0 := if minted =? 0 then [] else [EGas [] self minted]) in *.
    assert (H0 : gas_sound_but_null l ns0 l0 /\ outflow N ns0 = 0 /\ cheques ns0 = 0).
    { subst l0 ns0. destruct (minted =? 0).
      - split; [intros k _; cbn; lia|]. cbn. auto.
      - split.
        + intros k Hk. cbn [inflow outflow fold_right]. rewrite gbal_insert.
          assert (bytes_eqb k [] = false) as -> by (apply bytes_eqb_neq; exact Hk).
          unfold ind. destruct (bytes_eqb k self) eqn:Ek; [apply bytes_eqb_eq in Ek; subst|]; lia.
        + cbn [outflow cheques fold_right].
          assert (bytes_eqb N [] = false) as -> by (apply bytes_eqb_neq; apply N_not_null).
          cbn. auto. }
    destruct H0 as (S0 & O0 & C0).
    pose proof (gas_transfer_sound _ _ _ _ _ _ _ _ _ _ _ (world_cb_quiet e c) Et) as S1.
    assert (O1 : outflow N ns1 = 0 /\ cheques ns1 = 0).
    { apply gas_transfer_spec in Et as (_ & _ & [(_ & _ & -> & _)|(_ & _ & _ & _ & cns & Hcb & ->)]).
      - cbn. auto.
      - apply out_block; [exact Hs|]. exact (world_cb_quiet e c _ _ _ _ _ _ Hcb). }
    destruct O1 as (O1 & C1).
    destruct (Z.quot (Z.quot _ 8) _ =? 0).
    - injection H as <- <-. split.
      + eapply gas_sound_but_null_app; [exact S0|]. apply gas_sound_weaken. exact S1.
      + rewrite outflow_app, cheques_app. lia.
    - apply emit_nodes_ok in H as (evs & -> & S2 & O2 & C2); [|exact Hs]. split.
      + eapply gas_sound_but_null_app; [|apply gas_sound_weaken; exact S2].
        eapply gas_sound_but_null_app; [exact S0|]. apply gas_sound_weaken. exact S1.
      + rewrite !outflow_app, !cheques_app. lia.
  Qed.

  Lemma lift_halt (r : outcome (world * list ev)) w2 v ns2 :
    ('(w', ns) <-! r; Halt (w', VNull, ns)) = Halt (w2, v, ns2) -> r = Halt (w2, ns2).
  Proof. destruct r as [[w' ns]|]; [|discriminate]. cbn. intros [= <- _ <-]. reflexivity. Qed.

  (** Every operation keeps the books of the NeoFS contract. *)
  Lemma wexec_ok w o w' r ns :
    wexec e c w o = Halt (w', r, ns) -> ok_step N (gas w) ns (gas w').
  Proof.
    pose proof (world_cb_quiet e c) as Hq.
    destruct o; unfold wexec; cbv zeta; intros H.
    - (* OGasTransfer *)
      ob H as [[l ok] ns1] Et. injection H as <- <- <-. cbn [gas]. split.
      + apply gas_sound_weaken. eapply gas_transfer_sound; eassumption.
      + apply gas_transfer_spec in Et as (_ & _ & [(_ & _ & -> & _)|(_ & _ & Hw & _ & cns & Hcb & ->)]).
        * reflexivity.
        * destruct (out_block f t a cns (witnessed_not_N _ Hw) (Hq _ _ _ _ _ _ Hcb)) as (-> & ->). reflexivity.
    - (* OTokenPay *)
      assert (Hx : exists cns, cb tok t f a d = Halt cns /\ w' = w /\ ns = cns).
      { destruct (kind_of e t); try discriminate; ob H as cns Ec; injection H as <- <- <-; eauto. }
      destruct Hx as (cns & Hc & -> & ->). apply ok_step_neutral. apply quiet_neutral. eapply Hq. exact Hc.
    - (* ONeoTransfer *)
      ob H as ns1 Ec. ob H as [l ns2] Em. injection H as <- <- <-. cbn [gas].
      pose proof (Hq _ _ _ _ _ _ Ec) as Q1. split.
      + intros k Hk. rewrite inflow_app, outflow_app.
        destruct (quiet_flows k ns1 Q1) as (-> & -> & _).
        rewrite (gas_mint_sound _ _ _ _ _ _ _ Hq Em k Hk). lia.
      + rewrite outflow_app, cheques_app. destruct (quiet_flows N ns1 Q1) as (_ & -> & ->).
        apply gas_mint_spec in Em as [(_ & _ & ->)|(_ & _ & cns & Hcb & ->)]; [reflexivity|].
        destruct (out_block [] t minted cns (fun E => N_not_null (eq_sym E)) (Hq _ _ _ _ _ _ Hcb)) as (-> & ->).
        reflexivity.
    - (* OWithdraw *)
      apply lift_halt in H. apply withdraw_spec in H as (Hw & _ & _ & fee & rcpts & evs & _ & _ & -> & Hp & -> & Hne).
      split.
      + apply gas_sound_weaken. apply sound_add_neutral; [|reflexivity].
        eapply pay_all_sound; eassumption.
      + rewrite outflow_app, cheques_app. cbn [outflow cheques fold_right].
        destruct rcpts as [|r0 rr].
        * cbn [pay_all] in Hp. injection Hp as <-. reflexivity.
        * destruct Hne as (_ & _ & Hu & Hi); [discriminate|].
          destruct (pay_all_out cb e Hq u _ _ _ _ (witnessed_not_N _ Hi) Hp) as (-> & ->). reflexivity.
    - (* OCheque *)
      apply lift_halt in H. apply cheque_spec in H as (bs & go & _ & _ & [(_ & -> & ->)|(_ & _ & _ & _ & -> & cns & Hc & ->)]).
      + apply ok_step_neutral. reflexivity.
      + pose proof (Hq _ _ _ _ _ _ Hc) as Q. split.
        * apply gas_sound_weaken. intros k.
          change (EGas (fsH e) u a :: cns ++ [ECheque id u a lock])
            with ((EGas (fsH e) u a :: cns) ++ [ECheque id u a lock]).
          rewrite inflow_app, outflow_app. cbn [inflow outflow fold_right].
          fold (inflow k cns). fold (outflow k cns).
          destruct (quiet_flows k cns Q) as (-> & -> & _). rewrite gbal_move. lia.
        * cbn [outflow cheques fold_right]. fold (outflow N (cns ++ [ECheque id u a lock])).
          fold (cheques (cns ++ [ECheque id u a lock])).
          rewrite outflow_app, cheques_app. destruct (quiet_flows N cns Q) as (_ & -> & ->).
          rewrite bytes_eqb_refl. cbn. lia.
    - (* OCandAdd *)
      apply lift_halt in H.
      apply cand_add_spec in H as (_ & _ & from & fee & cns & Hsa & _ & _ & _ & _ & _ & -> & Hc & -> & _).
      pose proof (Hq _ _ _ _ _ _ Hc) as Q. split.
      + apply gas_sound_weaken. intros kk. cbn [inflow outflow fold_right].
        fold (inflow kk cns). fold (outflow kk cns).
        destruct (quiet_flows kk cns Q) as (-> & -> & _). rewrite gbal_move. lia.
      + destruct (out_block from (fsH e) fee cns (Hkeys _ _ Hsa) Q) as (-> & ->). reflexivity.
    - (* OCandRemove *)
      apply lift_halt in H. unfold neofs_cand_remove in H. cbv zeta in H.
      ob H as ko Ek. ob H as [bs go] Eg.
      destruct (negb go); injection H as <- <-; apply ok_step_neutral; reflexivity.
    - (* OBind *)
      apply lift_halt in H. unfold neofs_bind in H.
      ob H as ok Ew. ob H as u1 E1. ob H as u2 E2. ob H as u3 E3. injection H as <- <-.
      apply ok_step_neutral. reflexivity.
    - (* OUnbind *)
      apply lift_halt in H. unfold neofs_bind in H.
      ob H as ok Ew. ob H as u1 E1. ob H as u2 E2. ob H as u3 E3. injection H as <- <-.
      apply ok_step_neutral. reflexivity.
    - (* OSetConfig *)
      apply lift_halt in H. unfold neofs_set_config in H. cbv zeta in H.
      ob H as [bs go] Eg. destruct (negb go).
      + injection H as <- <-. apply ok_step_neutral. reflexivity.
      + ob H as u1 E1. injection H as <- <-. apply ok_step_neutral. reflexivity.
    - (* OAlphabetUpdate *)
      apply lift_halt in H. unfold neofs_alphabet_update in H. cbv zeta in H.
      ob H as u0 E0. ob H as [bs go] Eg. ob H as u1 E1. destruct (negb go).
      + injection H as <- <-. apply ok_step_neutral. reflexivity.
      + injection H as <- <-. apply ok_step_neutral. reflexivity.
    - (* OEmit *)
      destruct (kind_of e a) eqn:Ek; try discriminate.
      ob H as [l ns1] Ee. injection H as <- <- <-. cbn [gas].
      eapply emit_ok; [|exact Ee].
      intros ->. rewrite kind_of_fs in Ek. discriminate.
    - (* OVerify *)
      destruct (kind_of e a); try discriminate.
      + ob H as b Eb. injection H as <- <- <-. apply ok_step_neutral. reflexivity.
      + injection H as <- <- <-. apply ok_step_neutral. reflexivity.
      + injection H as <- <- <-. apply ok_step_neutral. reflexivity.
  Qed.
End Steps.

(** ** Histories: the balance identity *)
Definition signer_free (e : env) (ops : list (ctx * op)) : Prop :=
  Forall (fun co => inb (fsH e) (wit (fst co)) = false) ops.

Lemma wrun_identity_gen e w0 :
  hash_len (fsH e) = true ->
  (forall k h, std_acc e k = Some h -> h <> fsH e) ->
  forall ops w ns, signer_free e ops ->
  gbal (gas w) (fsH e) = gbal (gas w0) (fsH e) + inflow (fsH e) ns - cheques ns ->
  let '(w', ns') := fold_left (wstep_full e) ops (w, ns) in
  gbal (gas w') (fsH e) = gbal (gas w0) (fsH e) + inflow (fsH e) ns' - cheques ns'.
Proof.
  intros HN Hk ops. induction ops as [|co ops IH]; intros w ns Hs Hi; cbn [fold_left].
  - exact Hi.
  - inversion Hs as [|? ? Hc Hrest]; subst.
    unfold wstep_full at 2. cbn [fst snd]. unfold wstep.
    destruct (wexec e (fst co) w (snd co)) as [[[w1 r] ns1]|] eqn:E.
    + apply IH; [exact Hrest|].
      destruct (wexec_ok e (fst co) HN Hk Hc _ _ _ _ _ E) as (S & O).
      rewrite inflow_app, cheques_app, (S (fsH e)) by (apply N_not_null; exact HN). lia.
    + apply IH; [exact Hrest|]. rewrite app_nil_r. exact Hi.
Qed.

(** ** Deposit notifications are backed by a GAS transfer to the contract *)
Definition backs (N : bytes) (prev : option ev) (n : ev) : bool :=
  match n with
  | EDeposit f a _ _ =>
      match prev with
      | Some (EGas f' t a') => bytes_eqb f f' && bytes_eqb t N && (a =? a')
      | _ => false
      end
  | _ => true
  end.
Fixpoint backed (N : bytes) (prev : option ev) (ns : list ev) : bool :=
  match ns with
  | [] => true
  | n :: rest => backs N prev n && backed N (Some n) rest
  end.

Lemma backed_any N p ns : backed N None ns = true -> backed N p ns = true.
Proof.
  destruct ns as [|n rest]; [reflexivity|]. cbn [backed]. intros H.
  apply andb_true_iff in H as [H1 H2]. rewrite H2, andb_true_r.
  destruct n; try reflexivity. discriminate.
Qed.

Lemma backed_app N a b : forall p,
  backed N p a = true -> backed N None b = true -> backed N p (a ++ b) = true.
Proof.
  induction a as [|n a IH]; intros p Ha Hb; cbn [app].
  - apply backed_any. exact Hb.
  - cbn [backed] in *. apply andb_true_iff in Ha as [H1 H2]. rewrite H1. cbn [andb]. apply IH; assumption.
Qed.

Lemma neutral_backed N ns : forallb neutral ns = true -> forallb (fun n => negb (is_deposit n)) ns = true ->
  backed N None ns = true.
Proof.
  intros _. generalize (@None ev). induction ns as [|n ns IH]; intros p H; [reflexivity|].
  cbn [forallb] in H. apply andb_true_iff in H as [H1 H2]. cbn [backed]. rewrite (IH _ H2), andb_true_r.
  destruct n; try reflexivity. discriminate.
Qed.

Section Backed.
  Variable e : env.
  Variable c : ctx.
  Local Notation cb := (world_cb e c).
  Local Notation N := (fsH e).
  Hypothesis Hneo : neoH e <> gasH e.

  Lemma world_cb_other_token tok t f a d cns :
    tok <> gasH e -> cb tok t f a d = Halt cns -> cns = [].
  Proof.
    intros Ht H. destruct (bytes_eqb t N) eqn:Et.
    - apply bytes_eqb_eq in Et. subst t. rewrite world_cb_neofs in H.
      apply on_payment_deposit in H as [->|(Hc & _)]; [reflexivity|contradiction].
    - apply bytes_eqb_neq in Et. eapply world_cb_silent; eassumption.
  Qed.

  Lemma backed_block t f a d cns :
    cb (gasH e) t f a d = Halt cns -> backed N None (EGas f t a :: cns) = true.
  Proof.
    intros H. destruct (bytes_eqb t N) eqn:Et.
    - apply bytes_eqb_eq in Et. subst t. rewrite world_cb_neofs in H.
      apply on_payment_deposit in H as [->|(_ & _ & r & ->)]; [reflexivity|].
      cbn. rewrite !bytes_eqb_refl, Z.eqb_refl. reflexivity.
    - apply bytes_eqb_neq in Et. apply world_cb_silent in H; [|exact Et]. subst. reflexivity.
  Qed.

  Lemma backed_transfer wt l f t a d l' ok ns :
    gas_transfer cb (gasH e) wt l f t a d = Halt (l', ok, ns) -> backed N None ns = true.
  Proof.
    intros H. apply gas_transfer_spec in H as (_ & _ & [(_ & _ & -> & _)|(_ & _ & _ & _ & cns & Hc & ->)]).
    - reflexivity.
    - eapply backed_block. exact Hc.
  Qed.

  Lemma backed_pay_all u a d rcpts : forall evs,
    pay_all cb (gasH e) u a d rcpts = Halt evs -> backed N None evs = true.
  Proof.
    induction rcpts as [|r rest IH]; intros evs H; cbn [pay_all] in H.
    - injection H as <-. reflexivity.
    - ob H as cns Ec. ob H as rns Er. injection H as <-.
      change (EGas u r a :: cns ++ rns) with ((EGas u r a :: cns) ++ rns).
      apply backed_app; [eapply backed_block; exact Ec|]. apply IH. reflexivity.
  Qed.

  Lemma backed_emit_nodes self per nodes : forall l ns0 l' ns,
    backed N None ns0 = true ->
    emit_nodes cb e self per nodes l ns0 = Halt (l', ns) -> backed N None ns = true.
  Proof.
    induction nodes as [|node rest IH]; intros l ns0 l' ns H0 H; cbn [emit_nodes] in H.
    - injection H as <- <-. exact H0.
    - unfold std_acc_o in H. destruct (std_acc e node) as [addr|]; [|discriminate].
      cbn [obind] in H. ob H as [[l1 ok] ns1] Et.
      eapply IH; [|exact H]. apply backed_app; [exact H0|]. eapply backed_transfer. exact Et.
  Qed.

  Definition op_wf (o : op) : Prop :=
    match o with OTokenPay tok _ _ _ _ => tok <> gasH e | _ => True end.

  Lemma wexec_backed w o w' r ns :
    op_wf o -> wexec e c w o = Halt (w', r, ns) -> backed N None ns = true.
  Proof.
    destruct o; unfold wexec; cbv zeta; intros Hwf H.
    - ob H as [[l ok] ns1] Et. injection H as <- <- <-. eapply backed_transfer. exact Et.
    - assert (Hx : exists cns, cb tok t f a d = Halt cns /\ ns = cns).
      { destruct (kind_of e t); try discriminate; ob H as cns Ec; injection H as <- <- <-; eauto. }
      destruct Hx as (cns & Hc & ->). apply world_cb_other_token in Hc; [|exact Hwf]. subst. reflexivity.
    - ob H as ns1 Ec. ob H as [l ns2] Em. injection H as <- <- <-.
      apply world_cb_other_token in Ec; [|exact Hneo]. subst ns1. cbn [app].
      apply gas_mint_spec in Em as [(_ & _ & ->)|(_ & _ & cns & Hcb & ->)]; [reflexivity|].
      eapply backed_block. exact Hcb.
    - apply lift_halt in H. apply withdraw_spec in H as (_ & _ & _ & fee & rcpts & evs & _ & _ & _ & Hp & -> & _).
      apply backed_app; [eapply backed_pay_all; exact Hp|reflexivity].
    - apply lift_halt in H.
      apply cheque_spec in H as (bs & go & _ & _ & [(_ & _ & ->)|(_ & _ & _ & _ & _ & cns & Hc & ->)]); [reflexivity|].
      change (EGas N u a :: cns ++ [ECheque id u a lock]) with ((EGas N u a :: cns) ++ [ECheque id u a lock]).
      apply backed_app; [eapply backed_block; exact Hc|reflexivity].
    - apply lift_halt in H.
      apply cand_add_spec in H as (_ & _ & from & fee & cns & _ & _ & _ & _ & _ & _ & _ & Hc & -> & _).
      eapply backed_block. exact Hc.
    - apply lift_halt in H. unfold neofs_cand_remove in H. cbv zeta in H.
      ob H as ko Ek. ob H as [bs go] Eg. destruct (negb go); injection H as <- <-; reflexivity.
    - apply lift_halt in H. unfold neofs_bind in H.
      ob H as ok Ew. ob H as u1 E1. ob H as u2 E2. ob H as u3 E3. injection H as <- <-. reflexivity.
    - apply lift_halt in H. unfold neofs_bind in H.
      ob H as ok Ew. ob H as u1 E1. ob H as u2 E2. ob H as u3 E3. injection H as <- <-. reflexivity.
    - apply lift_halt in H. unfold neofs_set_config in H. cbv zeta in H.
      ob H as [bs go] Eg. destruct (negb go).
      + injection H as <- <-. reflexivity.
      + ob H as u1 E1. injection H as <- <-. reflexivity.
    - apply lift_halt in H. unfold neofs_alphabet_update in H. cbv zeta in H.
      ob H as u0 E0. ob H as [bs go] Eg. ob H as u1 E1.
      destruct (negb go); injection H as <- <-; reflexivity.
    - destruct (kind_of e a) eqn:Ek; try discriminate.
      ob H as [l ns1] Ee. injection H as <- <- <-.
      unfold alphabet_emit in Ee.
      ob Ee as ok Ep. ob Ee as u1 Eo. ob Ee as u2 Ea1. ob Ee as u3 Ea2.
      destruct (Z.quot _ 2 =? 0); [discriminate|].
      ob Ee as [[l1 ok1] ns2] Et.
      destruct (Z.of_nat (length (ir c)) =? 0); [discriminate|].
      assert (B0 : backed N None ((if minted =? 0 then [] else [EGas [] a minted]) ++ ns2) = true).
      { apply backed_app; [destruct (minted =? 0); reflexivity|]. eapply backed_transfer. exact Et. }
      destruct (Z.quot (Z.quot _ 8) _ =? 0).
      + injection Ee as <- <-. exact B0.
      + eapply backed_emit_nodes; [exact B0|exact Ee].
    - destruct (kind_of e a); try discriminate.
      + ob H as b Eb. injection H as <- <- <-. reflexivity.
      + injection H as <- <- <-. reflexivity.
      + injection H as <- <- <-. reflexivity.
  Qed.
End Backed.

(** ** World-level form of the method specifications *)
Section WorldSpecs.
  Variable e : env.
  Variable c : ctx.
  Local Notation cb := (world_cb e c).
  Local Notation N := (fsH e).

  Lemma hash_len_ok160 b : hash_len b = true -> hash160_ok b = true.
  Proof. unfold hash160_ok. intros ->. apply orb_true_r. Qed.

  (** A witnessed, funded GAS transfer to the NeoFS contract. *)
  Lemma deposit_world w f a d :
    hash_len f = true -> hash_len N = true -> inb f (wit c) = true -> 0 <= a <= gbal (gas w) f ->
    wexec e c w (OGasTransfer f N a d) =
      if markerb d then Halt (mkW (gas_move (gas w) f N a) (fs w), VBool true, [EGas f N a])
      else if deposit_okb a d
           then Halt (mkW (gas_move (gas w) f N a) (fs w), VBool true,
                      [EGas f N a; EDeposit f a (deposit_rcv f d) (txhash c)])
           else Fault.
  Proof.
    intros Hf HN Hw Ha. unfold wexec, gas_transfer. cbv zeta. rewrite Hf, HN, Hw. cbn [andb negb orb].
    replace (a <? 0) with false by lia. replace (gbal (gas w) f <? a) with false by lia. cbn [orb].
    rewrite world_cb_neofs, (on_payment_total _ _ _ _ _ _ (hash_len_ok160 _ Hf)), bytes_eqb_refl.
    cbn [andb]. destruct (markerb d); [reflexivity|]. destruct (deposit_okb a d); reflexivity.
  Qed.

  (** Without the witness of [from] or the funds nothing happens. *)
  Lemma deposit_world_refused w f t a d :
    hash_len f = true -> hash_len t = true ->
    (a < 0 \/ inb f (wit c) = false \/ gbal (gas w) f < a) ->
    wexec e c w (OGasTransfer f t a d) = Halt (w, VBool false, []).
  Proof.
    intros Hf Ht Hc. unfold wexec, gas_transfer. cbv zeta. rewrite Hf, Ht. cbn [andb negb].
    assert (((a <? 0) || negb (inb f (wit c)) || (gbal (gas w) f <? a)) = true) as ->.
    { destruct Hc as [H|[H|H]]; [|rewrite H|]; try (destruct (inb f (wit c))); lia. }
    cbn [obind]. destruct w. reflexivity.
  Qed.

  Lemma withdraw_world w u x w' r ns :
    wexec e c w (OWithdraw u x) = Halt (w', r, ns) ->
    r = VNull /\ 0 <= x <= max_balance_amount /\ check_witness e c u = Halt true /\ fs w' = fs w /\
    exists fee rcpts,
      config_int (fs w) withdraw_fee_key = Halt fee /\ withdraw_rcpts e (fs w) = Some rcpts /\
      (rcpts <> [] -> fee = Some (fee_val fee) /\ 0 <= fee_val fee /\ hash_len u = true /\
                      inb u (wit c) = true) /\
      (forall k, gbal (gas w') k = gbal (gas w) k + fee_val fee * count_occ_b k rcpts
                                   - ind (bytes_eqb k u) (fee_val fee * Z.of_nat (length rcpts))) /\
      lsum (gas w') = lsum (gas w) /\
      (Forall (fun r => r <> N) rcpts ->
       ns = map (fun r => EGas u r (fee_val fee)) rcpts ++ [EWithdraw u (x * 100000000) (txhash c)]).
  Proof.
    unfold wexec. cbv zeta. intros H.
    assert (r = VNull) as ->.
    { destruct (neofs_withdraw cb e c w u x) as [[? ?]|]; [|discriminate]. cbn in H. congruence. }
    apply lift_halt in H.
    apply withdraw_spec in H as (Hw & Hx & Hfs & fee & rcpts & evs & Hfee & Hr & Hg & Hp & -> & Hne).
    split; [reflexivity|]. split; [exact Hx|]. split; [exact Hw|]. split; [exact Hfs|].
    exists fee, rcpts. split; [exact Hfee|]. split; [exact Hr|]. split; [exact Hne|]. split.
    { intros k. rewrite Hg. apply gbal_moves. }
    split; [rewrite Hg; apply lsum_moves|].
    intros Hf. rewrite (pay_all_silent _ _ _ _ _ _ _ Hf Hp). reflexivity.
  Qed.

  Lemma cand_add_world w key w' r ns :
    wexec e c w (OCandAdd key) = Halt (w', r, ns) ->
    r = VNull /\ check_witness e c key = Halt true /\ cands (fs w) !! key = None /\
    exists from fee,
      std_acc e key = Some from /\ config_int (fs w) candidate_fee_key = Halt (Some fee) /\
      0 <= fee <= gbal (gas w) from /\
      gas w' = gas_move (gas w) from N fee /\
      ns = [EGas from N fee] /\
      cands (fs w') = <[key := tt]> (cands (fs w)).
  Proof.
    unfold wexec. cbv zeta. intros H.
    assert (r = VNull) as ->.
    { destruct (neofs_cand_add cb e c w key) as [[? ?]|]; [|discriminate]. cbn in H. congruence. }
    apply lift_halt in H.
    apply cand_add_spec in H as (Hw & Hc & from & fee & cns & Hsa & Hfee & Hb & Hfl & HN & _ & Hg & Hcb & -> & Hfs).
    split; [reflexivity|]. split; [exact Hw|]. split; [exact Hc|].
    exists from, fee. split; [exact Hsa|]. split; [exact Hfee|]. split; [exact Hb|]. split; [exact Hg|].
    split.
    - rewrite world_cb_neofs, (on_payment_total _ _ _ _ _ _ (hash_len_ok160 _ Hfl)) in Hcb.
      cbn in Hcb. injection Hcb as <-. reflexivity.
    - rewrite Hfs. reflexivity.
  Qed.

  Lemma cheque_world w id u a lock w' r ns :
    wexec e c w (OCheque id u a lock) = Halt (w', r, ns) ->
    r = VNull /\
    exists bs go, alpha_gate e c (fs w) id = Halt (bs, go) /\ fs w' = set_ballots (fs w) bs /\
      (notary_off (fs w) = false -> go = true /\ inb (alpha_addr c) (wit c) = true) /\
      ((go = false /\ gas w' = gas w /\ ns = []) \/
       (go = true /\ 0 <= a <= gbal (gas w) N /\ hash_len u = true /\
        gas w' = gas_move (gas w) N u a /\
        (u <> N -> ns = [EGas N u a; ECheque id u a lock]) /\
        (u = N -> ns = [EGas N N a; EDeposit N a N (txhash c); ECheque id N a lock]))).
  Proof.
    unfold wexec. cbv zeta. intros H.
    assert (r = VNull) as ->.
    { destruct (neofs_cheque cb e c w id u a lock) as [[? ?]|]; [|discriminate]. cbn in H. congruence. }
    apply lift_halt in H. apply cheque_spec in H as (bs & go & Hg & Hfs & Hcase).
    split; [reflexivity|]. exists bs, go. split; [exact Hg|]. split; [exact Hfs|]. split.
    { intros Hn. destruct (alpha_gate_notary e c _ _ _ _ Hn Hg) as (? & _ & ?). auto. }
    destruct Hcase as [Hc|(-> & Ha & Hu & HN & Hl & cns & Hcb & ->)]; [left; exact Hc|right].
    split; [reflexivity|]. split; [exact Ha|]. split; [exact Hu|]. split; [exact Hl|]. split.
    - intros Hne. apply world_cb_silent in Hcb; [|exact Hne]. subst. reflexivity.
    - intros ->. rewrite world_cb_neofs, (on_payment_total _ _ _ _ _ _ (hash_len_ok160 _ HN)), bytes_eqb_refl in Hcb.
      cbn [markerb data_bytes andb] in Hcb. destruct (deposit_okb a DNull); [|discriminate].
      injection Hcb as <-. reflexivity.
  Qed.
End WorldSpecs.

(** ** Accept-only *)
Lemma accept_only g n caller :
  (proxy_on_payment g caller = Halt [] <-> caller = g) /\
  (proxy_on_payment g caller = Fault <-> caller <> g) /\
  (processing_on_payment g caller = Halt [] <-> caller = g) /\
  (processing_on_payment g caller = Fault <-> caller <> g) /\
  (alphabet_on_payment g n caller = Halt [] <-> (caller = g \/ caller = n)) /\
  (alphabet_on_payment g n caller = Fault <-> (caller <> g /\ caller <> n)).
Proof.
  unfold proxy_on_payment, processing_on_payment, alphabet_on_payment.
  destruct (bytes_eqb caller g) eqn:Eg, (bytes_eqb caller n) eqn:En;
    (first [apply bytes_eqb_eq in Eg | apply bytes_eqb_neq in Eg]);
    (first [apply bytes_eqb_eq in En | apply bytes_eqb_neq in En]); cbn [negb andb];
    repeat split; intros; try discriminate; try tauto; try congruence.
Qed.

(** Somebody who is not GAS pays the NeoFS contract without the marker. *)
Lemma other_token_refused e c w tok f a d :
  tok <> gasH e -> ~ is_marker d -> wexec e c w (OTokenPay tok (fsH e) f a d) = Fault.
Proof.
  intros Ht Hm. unfold wexec. cbv zeta. rewrite kind_of_fs, world_cb_neofs.
  rewrite on_payment_not_gas; [reflexivity| |exact Ht]. apply markerb_false. exact Hm.
Qed.

Lemma neo_refused e c w f a d minted :
  neoH e <> gasH e -> ~ is_marker d -> wexec e c w (ONeoTransfer f (fsH e) a d minted) = Fault.
Proof.
  intros Ht Hm. unfold wexec. cbv zeta. rewrite world_cb_neofs.
  rewrite on_payment_not_gas; [reflexivity| |exact Ht]. apply markerb_false. exact Hm.
Qed.

(** What the Proxy, Processing and Alphabet contracts answer on the chain. *)
Lemma accept_only_world e c w tok t f a d :
  (kind_of e t = KProxy \/ kind_of e t = KProcessing ->
   tok <> gasH e -> wexec e c w (OTokenPay tok t f a d) = Fault) /\
  (forall i p, kind_of e t = KAlphabet i p -> tok <> gasH e -> tok <> neoH e ->
   wexec e c w (OTokenPay tok t f a d) = Fault).
Proof.
  split.
  - intros Hk Ht. unfold wexec. cbv zeta. rewrite (world_cb_proxy _ _ _ _ _ _ _ Hk).
    assert (bytes_eqb tok (gasH e) = false) as -> by (apply bytes_eqb_neq; exact Ht).
    destruct Hk as [-> | ->]; reflexivity.
  - intros i p Hk Ht Hn. unfold wexec. cbv zeta. rewrite (world_cb_alphabet _ _ _ _ _ _ _ _ _ Hk), Hk.
    assert (bytes_eqb tok (gasH e) = false) as -> by (apply bytes_eqb_neq; exact Ht).
    assert (bytes_eqb tok (neoH e) = false) as -> by (apply bytes_eqb_neq; exact Hn).
    reflexivity.
Qed.
