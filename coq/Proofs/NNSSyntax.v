(** Proofs/NNSSyntax.v — lemmas for C18: the scanners of Model/NNSSyntax.v
    accept exactly the grammar of Spec/Grammar.v. *)
From Verif Require Import Base.Prelude Model.NNSSyntax Spec.Grammar.
From Coq Require Import ZifyBool ZifyNat ZifyN.
Local Open Scope Z_scope.

(* ------------------------------------------------------------------ *)
(** * A. split / join algebra *)

Lemma fields_split sep s : fields sep s = strings_split sep s.
Proof. induction s as [|c r IH]; simpl; [reflexivity|]. rewrite IH. reflexivity. Qed.

Lemma split_nonempty sep s : strings_split sep s <> [].
Proof.
  destruct s as [|c r]; simpl; [discriminate|].
  destruct (c =? sep)%N; [discriminate|]. destruct (strings_split sep r); discriminate.
Qed.

Lemma split_length_pos sep s : (1 <= length (strings_split sep s))%nat.
Proof. pose proof (split_nonempty sep s). destruct (strings_split sep s); simpl; [congruence|lia]. Qed.

Lemma split_app sep x y :
  strings_split sep (x ++ sep :: y) = strings_split sep x ++ strings_split sep y.
Proof.
  induction x as [|c x IH]; simpl.
  - rewrite N.eqb_refl. reflexivity.
  - destruct (c =? sep)%N; [rewrite IH; reflexivity|].
    rewrite IH. pose proof (split_nonempty sep x) as Hne.
    destruct (strings_split sep x) as [|f fs]; [congruence|]. reflexivity.
Qed.

Lemma split_sepfree_single sep l :
  Forall (fun c => c <> sep) l -> strings_split sep l = [l].
Proof.
  induction 1 as [|c l Hc _ IH]; simpl; [reflexivity|].
  destruct (N.eqb_spec c sep); [congruence|]. rewrite IH. reflexivity.
Qed.

Lemma split_join sep ls :
  ls <> [] -> Forall (Forall (fun c => c <> sep)) ls -> strings_split sep (join sep ls) = ls.
Proof.
  induction ls as [|l ls IH]; [congruence|]. intros _ HF.
  apply Forall_cons_1 in HF as [Hl HF].
  destruct ls as [|l2 ls'].
  - simpl. apply split_sepfree_single; assumption.
  - change (join sep (l :: l2 :: ls')) with (l ++ sep :: join sep (l2 :: ls')).
    rewrite split_app, IH by (assumption || discriminate).
    rewrite split_sepfree_single by assumption. reflexivity.
Qed.

Lemma join_split sep s : join sep (strings_split sep s) = s.
Proof.
  induction s as [|c r IH]; [reflexivity|]. cbn [strings_split].
  pose proof (split_nonempty sep r) as Hne.
  destruct (N.eqb_spec c sep) as [->|Hc].
  - destruct (strings_split sep r) as [|f fs]; [congruence|].
    change (join sep ([] :: f :: fs)) with (sep :: join sep (f :: fs)). rewrite IH. reflexivity.
  - destruct (strings_split sep r) as [|f fs]; [congruence|].
    destruct fs as [|g fs'].
    + simpl in *. congruence.
    + change (join sep ((c :: f) :: g :: fs')) with (c :: join sep (f :: g :: fs')).
      rewrite IH. reflexivity.
Qed.

Lemma split_sepfree sep s : Forall (Forall (fun c => c <> sep)) (strings_split sep s).
Proof.
  induction s as [|c r IH]; simpl; [repeat constructor|].
  destruct (N.eqb_spec c sep) as [->|Hc].
  - constructor; [constructor|assumption].
  - destruct (strings_split sep r) as [|f fs]; [repeat constructor; assumption|].
    apply Forall_cons_1 in IH as [Hf Hfs]. constructor; [constructor; assumption|assumption].
Qed.

Lemma join_app sep A B :
  A <> [] -> B <> [] -> join sep (A ++ B) = join sep A ++ sep :: join sep B.
Proof.
  induction A as [|a A IH]; [congruence|]. intros _ HB.
  destruct A as [|a2 A'].
  - destruct B; [congruence|]. reflexivity.
  - change (join sep ((a :: a2 :: A') ++ B)) with (a ++ sep :: join sep ((a2 :: A') ++ B)).
    rewrite IH by (assumption || discriminate).
    change (join sep (a :: a2 :: A')) with (a ++ sep :: join sep (a2 :: A')).
    rewrite <- app_assoc. reflexivity.
Qed.

(** [length (join ls) + 1 = Σ (length l + 1)] for a non-empty list. *)
Fixpoint sumlen1 (ls : list bytes) : nat :=
  match ls with [] => 0 | l :: ls' => (length l + 1) + sumlen1 ls' end.
Lemma join_length sep ls : ls <> [] -> (length (join sep ls) + 1 = sumlen1 ls)%nat.
Proof.
  induction ls as [|l ls IH]; [congruence|]. intros _.
  destruct ls as [|l2 ls'].
  - simpl. lia.
  - change (join sep (l :: l2 :: ls')) with (l ++ sep :: join sep (l2 :: ls')).
    specialize (IH ltac:(discriminate)).
    change (sumlen1 (l :: l2 :: ls')) with ((length l + 1) + sumlen1 (l2 :: ls'))%nat.
    rewrite app_length. cbn [length].
    set (j := join sep (l2 :: ls')) in *. lia.
Qed.

Lemma sumlen1_bounds lo hi ls :
  Forall (fun l => lo <= length l <= hi)%nat ls ->
  ((lo + 1) * length ls <= sumlen1 ls <= (hi + 1) * length ls)%nat.
Proof. induction 1 as [|l ls Hl _ IH]; simpl; nia. Qed.

Lemma join_all sep (P : N -> Prop) ls :
  P sep -> Forall (Forall P) ls -> Forall P (join sep ls).
Proof.
  intros Hs. induction 1 as [|l ls Hl _ IH]; simpl; [constructor|].
  destruct ls; [assumption|]. apply Forall_app. split; [assumption|]. constructor; assumption.
Qed.

(* ------------------------------------------------------------------ *)
(** * B. ASCII strings pass the natives' input filter *)

Lemma utf8_ascii s : Forall (fun c => (c < 128)%N) s -> utf8_valid s = true.
Proof.
  induction 1 as [|c r Hc _ IH]; simpl; [reflexivity|].
  destruct (N.ltb_spec c 128); [assumption|lia].
Qed.

Lemma to_limited_ok s :
  Forall (fun c => (c < 128)%N) s -> len s <= 1024 -> to_limited_string s = Halt s.
Proof.
  intros Ha Hl. unfold to_limited_string. rewrite utf8_ascii by assumption. simpl.
  unfold std_max_input_length. destruct (Z.ltb_spec 1024 (len s)); [lia|reflexivity].
Qed.

Lemma to_limited_inv s r : to_limited_string s = Halt r -> r = s.
Proof.
  unfold to_limited_string. destruct (negb (utf8_valid s)); [discriminate|].
  destruct (std_max_input_length <? len s); [discriminate|]. congruence.
Qed.

Lemma std_split_ok s sep :
  Forall (fun c => (c < 128)%N) s -> len s <= 1024 ->
  std_string_split s sep = Halt (strings_split sep s).
Proof. intros Ha Hl. unfold std_string_split. rewrite to_limited_ok by assumption. reflexivity. Qed.

Lemma std_split_inv s sep fs : std_string_split s sep = Halt fs -> fs = strings_split sep s.
Proof.
  unfold std_string_split. destruct (to_limited_string s) as [r|] eqn:E; [|discriminate].
  apply to_limited_inv in E. subst r. simpl. congruence.
Qed.

(* ------------------------------------------------------------------ *)
(** * C. Names *)

Lemma byte_in_spec lo hi c : byte_in lo hi c = true <-> (lo <= c <= hi)%N.
Proof. unfold byte_in. lia. Qed.

Lemma isAlNum_spec c : isAlNum c = true <-> label_char c /\ c <> 45%N.
Proof. unfold isAlNum, byte_in, label_char, lower, digit. lia. Qed.

Lemma midchar_spec c : ((c =? 45)%N || isAlNum c) = true <-> label_char c.
Proof. unfold isAlNum, byte_in, label_char, lower, digit. lia. Qed.

Lemma lower_spec c : byte_in 97 122 c = true <-> lower c.
Proof. unfold byte_in, lower. lia. Qed.

Lemma firstn_app_exact {A} (a b : list A) : firstn (length a) (a ++ b) = a.
Proof. induction a as [|x a IH]; simpl; [reflexivity|]. rewrite IH. reflexivity. Qed.

Lemma forallb_Forall {A} (f : A -> bool) (P : A -> Prop) l :
  (forall x, f x = true <-> P x) -> forallb f l = true <-> Forall P l.
Proof.
  intros H. induction l as [|x l IH]; simpl.
  - split; [constructor|reflexivity].
  - rewrite andb_true_iff, H, IH. split; [intros []; constructor; assumption|].
    intros HF. apply Forall_cons_1 in HF. assumption.
Qed.

Lemma checkFragment_unfold v isRoot :
  checkFragment v isRoot = true <->
  (1 <= len v <= (if isRoot then 16 else 63)) /\
  (if isRoot then byte_in 97 122 (nth 0 v 0%N) else isAlNum (nth 0 v 0%N)) = true /\
  forallb (fun x => (x =? 45)%N || isAlNum x) (firstn (length v - 2) (skipn 1 v)) = true /\
  isAlNum (nth (length v - 1) v 0%N) = true.
Proof.
  unfold checkFragment, maxRootLength, maxDomainNameFragmentLength.
  set (B := forallb _ _). set (C := isAlNum (nth (length v - 1) v 0%N)).
  destruct isRoot.
  - set (A := byte_in 97 122 _).
    destruct ((len v =? 0) || (16 <? len v)) eqn:E; destruct A, B, C; simpl; lia.
  - set (A := isAlNum (nth 0 v 0%N)).
    destruct ((len v =? 0) || (63 <? len v)) eqn:E; destruct A, B, C; simpl; lia.
Qed.

(** The three shapes of a fragment. *)
Lemma frag_shape (v : bytes) : v = [] \/ (exists c, v = [c]) \/ exists c m d, v = c :: m ++ [d].
Proof.
  destruct v as [|c r]; [left; reflexivity|right].
  destruct r as [|x r0 _] using rev_ind; [left; eauto|right; eauto].
Qed.

Lemma frag_parts c m (d : N) :
  nth 0 (c :: m ++ [d]) 0%N = c /\
  firstn (length (c :: m ++ [d]) - 2) (skipn 1 (c :: m ++ [d])) = m /\
  nth (length (c :: m ++ [d]) - 1) (c :: m ++ [d]) 0%N = d /\
  head (c :: m ++ [d]) = Some c /\ last (c :: m ++ [d]) = Some d /\
  length (c :: m ++ [d]) = S (S (length m)).
Proof.
  repeat split.
  - cbn [length skipn]. rewrite app_length. cbn [length].
    replace (S (length m + 1) - 2)%nat with (length m) by lia. apply firstn_app_exact.
  - cbn [length]. rewrite app_length. cbn [length].
    replace (S (length m + 1) - 1)%nat with (S (length m)) by lia.
    cbn [nth]. apply nth_middle.
  - change (c :: m ++ [d]) with ((c :: m) ++ [d]). apply last_snoc.
  - cbn [length]. rewrite app_length. cbn [length]. lia.
Qed.

Lemma fragment_chars isRoot v :
  ((if isRoot then byte_in 97 122 (nth 0 v 0%N) else isAlNum (nth 0 v 0%N)) = true /\
   forallb (fun x => (x =? 45)%N || isAlNum x) (firstn (length v - 2) (skipn 1 v)) = true /\
   isAlNum (nth (length v - 1) v 0%N) = true) <->
  (v = [] /\ False) \/
  (v <> [] /\ Forall label_char v /\ head v <> Some 45%N /\ last v <> Some 45%N /\
   (isRoot = true -> exists c, head v = Some c /\ lower c)).
Proof.
  destruct (frag_shape v) as [->|[[c ->]|(c & m & d & ->)]].
  - cbn. destruct isRoot; cbn; intuition (try discriminate; try congruence).
  - cbn [nth length Nat.sub skipn firstn forallb head last].
    rewrite isAlNum_spec. destruct isRoot.
    + rewrite lower_spec. split.
      * intros (Hl & _ & Hc & Hn). right. repeat split; try discriminate; try congruence.
        -- constructor; [assumption|constructor].
        -- intros _. eauto.
      * intros [[? []]|(_ & HF & Hh & _ & Hr)]. destruct (Hr eq_refl) as (c' & [= <-] & Hl).
        apply Forall_cons_1 in HF as [Hc _]. repeat split; try assumption. congruence.
    + rewrite isAlNum_spec. split.
      * intros ([Hc Hn] & _ & _). right. repeat split; try discriminate; try congruence.
        constructor; [assumption|constructor].
      * intros [[? []]|(_ & HF & Hh & _ & _)].
        apply Forall_cons_1 in HF as [Hc _]. repeat split; try assumption; congruence.
  - destruct (frag_parts c m d) as (-> & -> & -> & -> & -> & _).
    rewrite (forallb_Forall _ label_char) by apply midchar_spec.
    rewrite isAlNum_spec.
    assert (HFa : Forall label_char (c :: m ++ [d]) <->
                  label_char c /\ Forall label_char m /\ label_char d).
    { rewrite Forall_cons, Forall_app, Forall_singleton. tauto. }
    rewrite HFa. destruct isRoot.
    + rewrite lower_spec. split.
      * intros (Hl & Hm & Hd & Hn). right. repeat split; try discriminate; try congruence; try tauto.
        -- left. assumption.
        -- unfold lower in Hl. intros [= ->]. lia.
        -- intros _. eauto.
      * intros [[? []]|(_ & (Hc & Hm & Hd) & Hh & Hl & Hr)].
        destruct (Hr eq_refl) as (c' & [= <-] & Hlo). repeat split; try assumption. congruence.
    + rewrite isAlNum_spec. split.
      * intros ((Hc & Hn) & Hm & Hd & Hn'). right.
        repeat split; try discriminate; try congruence; try tauto.
      * intros [[? []]|(_ & (Hc & Hm & Hd) & Hh & Hl & _)].
        repeat split; try assumption; congruence.
Qed.

Lemma checkFragment_label v : checkFragment v false = true <-> valid_label v.
Proof.
  rewrite checkFragment_unfold, fragment_chars. unfold valid_label, len. split.
  - intros (Hl & [[_ []]|(Hne & HF & Hh & Hla & _)]). repeat split; try assumption; lia.
  - intros (Hl & HF & Hh & Hla). split; [lia|]. right.
    repeat split; try assumption; [|discriminate]. destruct v; [simpl in Hl; lia|discriminate].
Qed.

Lemma checkFragment_tld v : checkFragment v true = true <-> valid_tld v.
Proof.
  rewrite checkFragment_unfold, fragment_chars. unfold valid_tld, valid_label, len. split.
  - intros (Hl & [[_ []]|(Hne & HF & Hh & Hla & Hr)]).
    repeat split; try assumption; try lia. apply Hr. reflexivity.
  - intros ((Hl & HF & Hh & Hla) & Hl16 & Hr). split; [lia|]. right.
    repeat split; try assumption; [|intros _; assumption].
    destruct v; [simpl in Hl; lia|discriminate].
Qed.

(** The loop = "all but the last are labels, the last is a TLD". *)
Lemma check_fragments_spec fs i l :
  i + len fs = l ->
  check_fragments fs i l = true <->
  (fs = [] \/ exists labels tld, fs = labels ++ [tld] /\ Forall valid_label labels /\ valid_tld tld).
Proof.
  revert i. induction fs as [|f fs IH]; intros i Hi.
  - simpl. split; [left; reflexivity|reflexivity].
  - cbn [check_fragments]. unfold len in Hi. cbn [length] in Hi.
    destruct fs as [|g fs'].
    + replace (i =? l - 1) with true by (simpl in Hi; lia).
      destruct (checkFragment f true) eqn:E; simpl.
      * apply checkFragment_tld in E. split; [|reflexivity]. intros _. right.
        exists [], f. repeat split; [constructor|apply E..].
      * split; [discriminate|]. intros [?|(labels & tld & Heq & _ & Ht)]; [discriminate|].
        destruct labels as [|? [|? ?]]; simpl in Heq; try discriminate.
        injection Heq as ->. apply checkFragment_tld in Ht. congruence.
    + replace (i =? l - 1) with false by (cbn [length] in Hi; lia).
      specialize (IH (i + 1) ltac:(unfold len; cbn [length] in *; lia)).
      destruct (checkFragment f false) eqn:E; cbn [negb].
      * rewrite IH. apply checkFragment_label in E. split.
        -- intros [?|(labels & tld & Heq & HF & Ht)]; [discriminate|]. right.
           exists (f :: labels), tld. rewrite Heq. repeat split; [constructor; assumption|apply Ht..].
        -- intros [?|(labels & tld & Heq & HF & Ht)]; [discriminate|]. right.
           destruct labels as [|f' labels]; [discriminate|].
           injection Heq as -> Heq. apply Forall_cons_1 in HF as [_ HF]. eauto.
      * split; [discriminate|]. intros [?|(labels & tld & Heq & HF & Ht)]; [discriminate|].
        destruct labels as [|f' labels]; [discriminate|]. injection Heq as -> Heq.
        apply Forall_cons_1 in HF as [Hf _]. apply checkFragment_label in Hf. congruence.
Qed.

Lemma label_char_not_dot c : label_char c -> c <> 46%N /\ (c < 128)%N.
Proof. unfold label_char, lower, digit. lia. Qed.

Lemma valid_label_nodot l : valid_label l -> Forall (fun c => c <> 46%N) l /\ Forall (fun c => (c < 128)%N) l.
Proof.
  intros (_ & HF & _). split; eapply Forall_impl; try exact HF; intros c Hc;
    apply label_char_not_dot in Hc; tauto.
Qed.

Theorem names_equiv s :
  safeSplitAndCheck s = Halt (Some (strings_split 46 s)) <-> valid_name s.
Proof.
  unfold safeSplitAndCheck, valid_name, minDomainNameLength, maxDomainNameLength. split.
  - destruct ((len s <? 3) || (255 <? len s)) eqn:El; [discriminate|].
    destruct (std_string_split s 46) as [fs|] eqn:Es; [|discriminate]. simpl.
    apply std_split_inv in Es. subst fs.
    destruct (check_fragments _ _ _) eqn:Ec; [|discriminate]. intros _.
    split; [unfold len in El; lia|].
    apply check_fragments_spec in Ec; [|lia].
    destruct Ec as [Hn|(labels & tld & Heq & HF & Ht)]; [apply split_nonempty in Hn; contradiction|].
    exists labels, tld. rewrite <- Heq, join_split. auto.
  - intros (Hl & labels & tld & -> & HF & Ht).
    set (s := join 46 (labels ++ [tld])) in *.
    assert (Hfree : Forall (Forall (fun c => c <> 46%N)) (labels ++ [tld])).
    { apply Forall_app. split; [|constructor; [apply valid_label_nodot, Ht|constructor]].
      eapply Forall_impl; [exact HF|]. intros l Hv. apply valid_label_nodot, Hv. }
    assert (Hasc : Forall (fun c => (c < 128)%N) s).
    { apply join_all; [lia|]. apply Forall_app. split; [|constructor; [apply valid_label_nodot, Ht|constructor]].
      eapply Forall_impl; [exact HF|]. intros l Hv. apply valid_label_nodot, Hv. }
    assert (Hsp : strings_split 46 s = labels ++ [tld]).
    { apply split_join; [destruct labels; discriminate|assumption]. }
    destruct ((len s <? 3) || (255 <? len s)) eqn:El; [unfold len in El; lia|].
    rewrite std_split_ok by (assumption || unfold len; lia). simpl.
    rewrite Hsp.
    replace (check_fragments _ _ _) with true; [reflexivity|]. symmetry.
    apply check_fragments_spec; [lia|]. right. eauto.
Qed.

(** Any other result of the scanner is a rejection. *)
Lemma safeSplit_results s r :
  safeSplitAndCheck s = Halt (Some r) -> r = strings_split 46 s.
Proof.
  unfold safeSplitAndCheck. destruct (_ || _); [discriminate|].
  destruct (std_string_split s 46) as [fs|] eqn:Es; [|discriminate]. simpl.
  apply std_split_inv in Es. subst fs. destruct (check_fragments _ _ _); congruence.
Qed.

Theorem name_accepted_iff s : name_accepted s = true <-> valid_name s.
Proof.
  rewrite <- names_equiv. unfold name_accepted, splitAndCheck.
  destruct (safeSplitAndCheck s) as [[r|]|] eqn:E; simpl.
  - apply safeSplit_results in E as ->. tauto.
  - split; discriminate.
  - split; discriminate.
Qed.
