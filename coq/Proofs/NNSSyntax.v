(** Proofs/NNSSyntax.v — lemmas for C18, part 2 (names): the name scanner of
    Model/NNSSyntax.v accepts exactly [valid_name] of Spec/Grammar.v. *)
From Verif Require Import Base.Prelude Model.NNSSyntax Spec.Grammar Proofs.NNSSyntaxLib.
From Coq Require Import ZifyBool ZifyNat ZifyN.
Local Open Scope Z_scope.

(* ------------------------------------------------------------------ *)
(** * C. Names *)

Lemma byte_in_spec lo hi c : byte_in lo hi c = true <-> (lo <= c <= hi)%N.
Proof. unfold byte_in. lia. Qed.

Lemma isAlNum_spec c : isAlNum c = true <-> label_char c /\ c <> 45%N.
Proof. unfold isAlNum, byte_in, label_char, lower, digit. lia. Qed.

Lemma midchar_spec c : ((c =? 45)%N || isAlNum c) = true <-> label_char c.
Proof. unfold isAlNum, byte_in, label_char, lower, digit. lia. Qed.

Lemma lower_spec c : byte_in 97 122 c = true <-> lower c.
Proof. unfold byte_in, lower. lia. Qed.

Lemma firstn_app_exact {A} (a b : list A) : firstn (length a) (a ++ b) = a.
Proof. induction a as [|x a IH]; simpl; [reflexivity|]. rewrite IH. reflexivity. Qed.

Lemma forallb_Forall {A} (f : A -> bool) (P : A -> Prop) l :
  (forall x, f x = true <-> P x) -> forallb f l = true <-> Forall P l.
Proof.
  intros H. induction l as [|x l IH]; simpl.
  - split; [constructor|reflexivity].
  - rewrite andb_true_iff, H, IH. split; [intros []; constructor; assumption|].
    intros HF. apply Forall_cons_1 in HF. assumption.
Qed.

Lemma checkFragment_unfold (v : bytes) (isRoot : bool) :
  checkFragment v isRoot = true <->
  (1 <= len v <= (if isRoot then 16 else 63)) /\
  (if isRoot then byte_in 97 122 (nth 0 v 0%N) else isAlNum (nth 0 v 0%N)) = true /\
  forallb (fun x => (x =? 45)%N || isAlNum x) (firstn (length v - 2) (skipn 1 v)) = true /\
  isAlNum (nth (length v - 1) v 0%N) = true.
Proof.
  unfold checkFragment, maxRootLength, maxDomainNameFragmentLength, len.
  set (B := forallb _ _). set (C := isAlNum (nth (length v - 1) v 0%N)).
  set (n := Z.of_nat (length v)).
  destruct isRoot.
  - set (A := byte_in 97 122 _).
    destruct (Z.eqb_spec n 0), (Z.ltb_spec 16 n); destruct A, B, C; cbn; intuition (try lia; try discriminate).
  - set (A := isAlNum (nth 0 v 0%N)).
    destruct (Z.eqb_spec n 0), (Z.ltb_spec 63 n); destruct A, B, C; cbn; intuition (try lia; try discriminate).
Qed.

(** The three shapes of a fragment. *)
Lemma frag_shape (v : bytes) : v = [] \/ (exists c, v = [c]) \/ exists c m d, v = c :: m ++ [d].
Proof.
  destruct v as [|c r]; [left; reflexivity|right].
  destruct r as [|x r0 _] using rev_ind; [left; eauto|right; eauto].
Qed.

Lemma frag_parts c m (d : N) :
  nth 0 (c :: m ++ [d]) 0%N = c /\
  firstn (length (c :: m ++ [d]) - 2) (skipn 1 (c :: m ++ [d])) = m /\
  nth (length (c :: m ++ [d]) - 1) (c :: m ++ [d]) 0%N = d /\
  head (c :: m ++ [d]) = Some c /\ last (c :: m ++ [d]) = Some d /\
  length (c :: m ++ [d]) = S (S (length m)).
Proof.
  repeat split.
  - cbn [length skipn]. rewrite app_length. cbn [length].
    replace (S (length m + 1) - 2)%nat with (length m) by lia. apply firstn_app_exact.
  - cbn [length]. rewrite app_length. cbn [length].
    replace (S (length m + 1) - 1)%nat with (S (length m)) by lia.
    cbn [nth]. apply nth_middle.
  - change (c :: m ++ [d]) with ((c :: m) ++ [d]). apply last_snoc.
  - cbn [length]. rewrite app_length. cbn [length]. lia.
Qed.

Lemma some_neq (c x : N) : Some c <> Some x <-> c <> x.
Proof. split; congruence. Qed.

Lemma ex_some (c : N) (P : N -> Prop) : (exists c0, Some c = Some c0 /\ P c0) <-> P c.
Proof. split; [intros (c0 & [= <-] & H); exact H|eauto]. Qed.

(** The scanner on a fragment, in the vocabulary of the grammar. *)
Lemma fragment_ok (isRoot : bool) (v : bytes) :
  checkFragment v isRoot = true <->
  valid_label v /\ (isRoot = true -> (length v <= 16)%nat /\ exists c, head v = Some c /\ lower c).
Proof.
  rewrite checkFragment_unfold. unfold valid_label, len.
  destruct (frag_shape v) as [->|[[c ->]|(c & m & d & ->)]].
  - cbn. destruct isRoot; intuition lia.
  - cbn [nth length Nat.sub skipn firstn forallb head last].
    rewrite Forall_singleton, !some_neq, ex_some.
    destruct isRoot; rewrite ?lower_spec, !isAlNum_spec; unfold label_char, lower, digit;
      intuition (try lia; try discriminate).
  - destruct (frag_parts c m d) as (-> & -> & -> & -> & -> & ->).
    rewrite (forallb_Forall _ label_char) by apply midchar_spec.
    rewrite Forall_cons, Forall_app, Forall_singleton, !some_neq, ex_some.
    destruct isRoot; rewrite ?lower_spec, !isAlNum_spec; unfold label_char, lower, digit;
      intuition (try lia; try discriminate).
Qed.

Lemma checkFragment_label v : checkFragment v false = true <-> valid_label v.
Proof. rewrite fragment_ok. intuition discriminate. Qed.

Lemma checkFragment_tld v : checkFragment v true = true <-> valid_tld v.
Proof. rewrite fragment_ok. unfold valid_tld. tauto. Qed.

(** The loop = "all but the last are labels, the last is a TLD". *)
Lemma check_fragments_spec fs i l :
  i + len fs = l ->
  check_fragments fs i l = true <->
  (fs = [] \/ exists labels tld, fs = labels ++ [tld] /\ Forall valid_label labels /\ valid_tld tld).
Proof.
  revert i. induction fs as [|f fs IH]; intros i Hi.
  - simpl. split; [left; reflexivity|reflexivity].
  - cbn [check_fragments]. unfold len in Hi. cbn [length] in Hi.
    destruct fs as [|g fs'].
    + replace (i =? l - 1) with true by (simpl in Hi; lia).
      destruct (checkFragment f true) eqn:E; simpl.
      * apply checkFragment_tld in E. split; [|reflexivity]. intros _. right.
        exists [], f. repeat split; [constructor|apply E..].
      * split; [discriminate|]. intros [?|(labels & tld & Heq & _ & Ht)]; [discriminate|].
        destruct labels as [|? [|? ?]]; simpl in Heq; try discriminate.
        injection Heq as ->. apply checkFragment_tld in Ht. congruence.
    + replace (i =? l - 1) with false by (cbn [length] in Hi; lia).
      specialize (IH (i + 1) ltac:(unfold len; cbn [length] in *; lia)).
      destruct (checkFragment f false) eqn:E; cbn [negb].
      * rewrite IH. apply checkFragment_label in E. split.
        -- intros [?|(labels & tld & Heq & HF & Ht)]; [discriminate|]. right.
           exists (f :: labels), tld. rewrite Heq. repeat split; [constructor; assumption|apply Ht..].
        -- intros [?|(labels & tld & Heq & HF & Ht)]; [discriminate|]. right.
           destruct labels as [|f' labels]; [discriminate|].
           injection Heq as -> Heq. apply Forall_cons_1 in HF as [_ HF]. eauto.
      * split; [discriminate|]. intros [?|(labels & tld & Heq & HF & Ht)]; [discriminate|].
        destruct labels as [|f' labels]; [discriminate|]. injection Heq as -> Heq.
        apply Forall_cons_1 in HF as [Hf _]. apply checkFragment_label in Hf. congruence.
Qed.

Lemma label_char_not_dot c : label_char c -> c <> 46%N /\ (c < 128)%N.
Proof. unfold label_char, lower, digit. lia. Qed.

Lemma valid_label_nodot l : valid_label l -> Forall (fun c => c <> 46%N) l /\ Forall (fun c => (c < 128)%N) l.
Proof.
  intros (_ & HF & _). split; eapply Forall_impl; try exact HF; intros c Hc;
    apply label_char_not_dot in Hc; tauto.
Qed.

Theorem names_equiv s :
  safeSplitAndCheck s = Halt (Some (strings_split 46 s)) <-> valid_name s.
Proof.
  unfold safeSplitAndCheck, valid_name, minDomainNameLength, maxDomainNameLength. split.
  - destruct ((len s <? 3) || (255 <? len s)) eqn:El; [discriminate|].
    destruct (std_string_split s 46) as [fs|] eqn:Es; [|discriminate]. simpl.
    apply std_split_inv in Es. subst fs.
    destruct (check_fragments _ _ _) eqn:Ec; [|discriminate]. intros _.
    split; [unfold len in El; lia|].
    apply check_fragments_spec in Ec; [|lia].
    destruct Ec as [Hn|(labels & tld & Heq & HF & Ht)]; [apply split_nonempty in Hn; contradiction|].
    exists labels, tld. rewrite <- Heq, join_split. auto.
  - intros (Hl & labels & tld & -> & HF & Ht).
    set (s := join 46 (labels ++ [tld])) in *.
    assert (Hfree : Forall (Forall (fun c => c <> 46%N)) (labels ++ [tld])).
    { apply Forall_app. split; [|constructor; [apply valid_label_nodot, Ht|constructor]].
      eapply Forall_impl; [exact HF|]. intros l Hv. apply valid_label_nodot, Hv. }
    assert (Hasc : Forall (fun c => (c < 128)%N) s).
    { apply join_all; [lia|]. apply Forall_app. split; [|constructor; [apply valid_label_nodot, Ht|constructor]].
      eapply Forall_impl; [exact HF|]. intros l Hv. apply valid_label_nodot, Hv. }
    assert (Hsp : strings_split 46 s = labels ++ [tld]).
    { apply split_join; [destruct labels; discriminate|assumption]. }
    destruct ((len s <? 3) || (255 <? len s)) eqn:El; [unfold len in El; lia|].
    rewrite std_split_ok by (assumption || unfold len; lia). simpl.
    rewrite Hsp.
    replace (check_fragments _ _ _) with true; [reflexivity|]. symmetry.
    apply check_fragments_spec; [lia|]. right. eauto.
Qed.

(** Any other result of the scanner is a rejection. *)
Lemma safeSplit_results s r :
  safeSplitAndCheck s = Halt (Some r) -> r = strings_split 46 s.
Proof.
  unfold safeSplitAndCheck. destruct (_ || _); [discriminate|].
  destruct (std_string_split s 46) as [fs|] eqn:Es; [|discriminate]. simpl.
  apply std_split_inv in Es. subst fs. destruct (check_fragments _ _ _); congruence.
Qed.

Theorem name_accepted_iff s : name_accepted s = true <-> valid_name s.
Proof.
  rewrite <- names_equiv. unfold name_accepted, splitAndCheck.
  destruct (safeSplitAndCheck s) as [[r|]|] eqn:E; simpl.
  - apply safeSplit_results in E as ->. tauto.
  - split; discriminate.
  - split; discriminate.
Qed.
