(** Proofs/TiesGas.v — ties between the literals of Model/NeoFSGas.v,
    Model/Alphabet.v and Model/GasWorld.v (property C19) and the constants of
    the Go sources (contracts/neofs/contract.go, contracts/alphabet/contract.go,
    common/vote.go) as extracted into Gen/Params.v (regenerated from /repo's
    working tree on every run).  A constant edited in the source breaks the
    lemma that names it.

    Named definitions of Model/NeoFSGas.v are tied directly.  Inline literals
    are tied through closed observable terms computed by running one
    transaction of Model/GasWorld.v on a small concrete world: the shares
    [/2] and [*7/8/len(innerRing)] of [alphabet_emit] through the amounts of
    the GAS transfers of [emit()], compared with the extracted expressions of
    Emit evaluated with Go's truncating division; the key-length limits 58 and
    54 through SetConfig / InnerRingCandidateAdd on keys of the limit length
    and one byte more.

    Model/Gas.v and Model/ProxyProc.v contain no constant of /repo: the storage
    keys ("index", "proxyScriptHash", "notary", "processingScriptHash", ...)
    are record fields / [ckind] arguments, the multi-signature accounts
    (thresholds of common.Multiaddress) are inputs of the context [ctx], event
    names are constructors of [ev]. *)
From Coq Require Import ZArith NArith List String.
Import ListNotations.
From Verif Require Import Base.Prelude Base.IntCodec Gen.Params Model.Gas Model.ProxyProc
  Model.Alphabet Model.NeoFSGas Model.GasWorld Proofs.TiesLib.
Local Open Scope Z_scope.

(** Environments of the extracted expressions: exactly one name is bound. *)
Definition no_var : string -> Z := fun _ => 0.
Definition only (name : string) (v : Z) : string -> Z :=
  fun x => if String.eqb x name then v else 0.

(** * contracts/neofs/contract.go: named constants *)

(** maxBalanceAmount = 9000 *)
Lemma tie_max_balance_amount : max_balance_amount = p_neofs_maxBalanceAmount.
Proof. reflexivity. Qed.

(** maxBalanceAmountGAS = int64(maxBalanceAmount) * 1_0000_0000 *)
Lemma tie_max_balance_amount_gas : max_balance_amount_gas = p_neofs_maxBalanceAmountGAS.
Proof. vm_compute. reflexivity. Qed.

(** ignoreDepositNotification = "\x57\x0b" *)
Lemma tie_marker : marker = bytes_of_string p_neofs_ignoreDepositNotification.
Proof. vm_compute. reflexivity. Qed.

(** withdrawFeeConfigKey = "WithdrawFee" *)
Lemma tie_withdraw_fee_key : withdraw_fee_key = bytes_of_string p_neofs_withdrawFeeConfigKey.
Proof. vm_compute. reflexivity. Qed.

(** CandidateFeeConfigKey = "InnerRingCandidateFee" *)
Lemma tie_candidate_fee_key : candidate_fee_key = bytes_of_string p_neofs_CandidateFeeConfigKey.
Proof. vm_compute. reflexivity. Qed.

(** * common/vote.go as restated in Model/NeoFSGas.v *)

(** common.blockDiff = 20 *)
Lemma tie_block_diff : block_diff = p_common_blockDiff.
Proof. reflexivity. Qed.

(** threshold := len(alphabet)*2/3 + 1 of the four vote-gated methods *)
Lemma tie_threshold_cheque al :
  threshold al = teval_div no_var (only "alphabet" (Z.of_nat (length al))) p_neofs_Cheque_threshold_expr.
Proof. reflexivity. Qed.

Lemma tie_threshold_alphabet_update al :
  threshold al = teval_div no_var (only "alphabet" (Z.of_nat (length al))) p_neofs_AlphabetUpdate_threshold_expr.
Proof. reflexivity. Qed.

Lemma tie_threshold_set_config al :
  threshold al = teval_div no_var (only "alphabet" (Z.of_nat (length al))) p_neofs_SetConfig_threshold_expr.
Proof. reflexivity. Qed.

Lemma tie_threshold_candidate_remove al :
  threshold al = teval_div no_var (only "alphabet" (Z.of_nat (length al))) p_neofs_InnerRingCandidateRemove_threshold_expr.
Proof. reflexivity. Qed.

(** * A small chain *)

Definition GASH : bytes := repeat 1%N 20.
Definition NEOH : bytes := repeat 2%N 20.
Definition FSH : bytes := repeat 3%N 20.
Definition ALPHA : bytes := repeat 4%N 20.    (* an Alphabet contract, index 0 *)
Definition PROXY : bytes := repeat 5%N 20.
Definition AADDR : bytes := repeat 6%N 20.    (* common.AlphabetAddress() *)
Definition N1 : bytes := repeat 11%N 33.
Definition N2 : bytes := repeat 12%N 33.
Definition N3 : bytes := repeat 13%N 33.
Definition A1 : bytes := repeat 21%N 20.
Definition A2 : bytes := repeat 22%N 20.
Definition A3 : bytes := repeat 23%N 20.
Definition AK : bytes := repeat 24%N 20.
Definition key_of_len (n : Z) : bytes := repeat 7%N (Z.to_nat n).

(** [extra]: further keys with a standard account (all mapped to [AK]). *)
Definition env0 (extra : list bytes) : env :=
  mkEnv GASH NEOH FSH
        ([(N1, A1); (N2, A2); (N3, A3)] ++ map (fun k => (k, AK)) extra)
        [(ALPHA, KAlphabet 0 PROXY); (PROXY, KProxy)].
(** Signed by the first committee member, the alphabet multi-signature
    account and [AK]; the inner ring is [nodes]. *)
Definition ctx0 (nodes : list bytes) : ctx := mkCtx [A1; AADDR; AK] AADDR [] [] [N1] nodes 0 [].
Definition result_of (r : world * val * list ev) : val := snd (fst r).
Definition gas_amounts (r : world * val * list ev) : list Z :=
  flat_map (fun n => match n with EGas _ _ a => [a] | _ => [] end) (snd r).

(** * contracts/alphabet/contract.go: Emit *)

(** The amounts of the GAS transfers of [emit()] when the contract holds
    [bal] and the inner ring is N1, N2, N3: the proxy's share, then one
    transfer per node. *)
Definition emit_amounts (bal : Z) : list Z :=
  gas_amounts (wstep (env0 []) (winit [(ALPHA, bal)] false [] [] []) (ctx0 [N1; N2; N3], OEmit ALPHA 0)).

(** proxyGas := gasBalance / 2; gasBalance -= proxyGas;
    gasPerNode := gasBalance * 7 / 8 / len(innerRing) *)
Definition emit_source (bal : Z) : list Z :=
  let proxyGas := teval_quot (only "gasBalance" bal) no_var p_alphabet_Emit_proxyGas_expr in
  let gasPerNode := teval_quot (only "gasBalance" (bal - proxyGas)) (only "innerRing" 3)
                               p_alphabet_Emit_gasPerNode_expr in
  [proxyGas; gasPerNode; gasPerNode; gasPerNode].

Lemma tie_emit_shares :
  map emit_amounts [16; 1000; 4801; 123456789] = map emit_source [16; 1000; 4801; 123456789].
Proof. vm_compute. reflexivity. Qed.

(** * contracts/neofs/contract.go: storage prefixes behind the key-length limits *)

(** Platform constant (neo-go storage key limit), not a constant of /repo. *)
Definition storage_key_limit : Z := 64.

(** Notary-enabled NeoFS (the alphabet multi-signature account authorises),
    candidate fee 0. *)
Definition world0 : world :=
  winit [] false [] [N1] [(candidate_fee_key, int_to_bytes 0)].

(** configPrefix = []byte("config"): [setConfig] stores at configPrefix ++ key,
    so the inline limit 58 of SetConfig is 64 - len(configPrefix). *)
Definition set_config_len (n : Z) : val :=
  result_of (wstep (env0 []) world0 (ctx0 [], OSetConfig [7%N] (key_of_len n) [1%N])).
Lemma tie_config_prefix_limit :
  let n := storage_key_limit - Z.of_nat (length p_neofs_configPrefix) in
  set_config_len n = VNull /\ set_config_len (n + 1) = VFault.
Proof. split; vm_compute; reflexivity. Qed.

(** candidatesKey = "candidates": InnerRingCandidateAdd stores at
    []byte(candidatesKey) ++ key, so the inline limit 54 is 64 - len(candidatesKey). *)
Definition cand_add_len (n : Z) : val :=
  let k := key_of_len n in
  result_of (wstep (env0 [k]) world0 (ctx0 [], OCandAdd k)).
Lemma tie_candidates_prefix_limit :
  let n := storage_key_limit - Z.of_nat (String.length p_neofs_candidatesKey) in
  cand_add_len n = VNull /\ cand_add_len (n + 1) = VFault.
Proof. split; vm_compute; reflexivity. Qed.

(** * The named constants once more, through whole transactions *)

(** A deposit of exactly maxBalanceAmountGAS is accepted, one unit more faults. *)
Definition deposit (a : Z) : val :=
  result_of (wstep (env0 []) (winit [(AK, 2 * a)] false [] [] [])
                   (ctx0 [], OGasTransfer AK FSH a DNull)).
Lemma tie_max_balance_amount_gas_run :
  deposit p_neofs_maxBalanceAmountGAS = VBool true /\
  deposit (p_neofs_maxBalanceAmountGAS + 1) = VFault.
Proof. split; vm_compute; reflexivity. Qed.

(** ... unless the data is ignoreDepositNotification. *)
Lemma tie_marker_run :
  result_of (wstep (env0 []) (winit [(AK, 2 * (p_neofs_maxBalanceAmountGAS + 1))] false [] [] [])
                   (ctx0 [], OGasTransfer AK FSH (p_neofs_maxBalanceAmountGAS + 1)
                                          (DBytes (bytes_of_string p_neofs_ignoreDepositNotification))))
  = VBool true.
Proof. vm_compute. reflexivity. Qed.

(** Withdraw takes at most maxBalanceAmount and reads the fee under withdrawFeeConfigKey. *)
Definition withdraw (cfg : list (bytes * bytes)) (x : Z) : val :=
  result_of (wstep (env0 []) (winit [] false PROXY [N1] cfg) (ctx0 [], OWithdraw AK x)).
Lemma tie_withdraw_run :
  let cfg := [(bytes_of_string p_neofs_withdrawFeeConfigKey, int_to_bytes 0)] in
  withdraw cfg p_neofs_maxBalanceAmount = VNull /\
  withdraw cfg (p_neofs_maxBalanceAmount + 1) = VFault /\
  withdraw [] p_neofs_maxBalanceAmount = VFault.
Proof. repeat split; vm_compute; reflexivity. Qed.

(** * Literals written inline in Go function bodies (Params: p_<pkg>_<func>_{int,str}lits,
      the literals of the function body in source order) *)

(** Withdraw: [amount = amount * 100000000] (contracts/neofs/contract.go, the second
    integer literal of the function): the amount of the Withdraw notification. *)
Definition withdraw_events (x : Z) : list Z :=
  flat_map (fun e => match e with EWithdraw _ a _ => [a] | _ => [] end)
    (snd (wstep (env0 []) (winit [] false PROXY [N1]
                   [(bytes_of_string p_neofs_withdrawFeeConfigKey, int_to_bytes 0)]) (ctx0 [], OWithdraw AK x))).
Lemma tie_withdraw_factor :
  withdraw_events 7 = [7 * nth 1 p_neofs_Withdraw_intlits 0] /\
  p_neofs_maxBalanceAmountGAS = p_neofs_maxBalanceAmount * nth 1 p_neofs_Withdraw_intlits 0.
Proof. split; vm_compute; reflexivity. Qed.

(** InnerRingCandidateRemove: [append(key, []byte("delete")...)] *)
Lemma tie_delete_suffix :
  delete_suffix = bytes_of_string (nth 0 p_neofs_InnerRingCandidateRemove_strlits EmptyString).
Proof. vm_compute. reflexivity. Qed.

(* NOT TIED: the event names "Deposit" / "Withdraw" / "Cheque" / "Bind" /
   "Unbind" / "AlphabetUpdate" / "SetConfig" (contracts/neofs/contract.go:260,
   :312, :358, :377, :396, :450, :495, literals of runtime.Notify calls) are not
   extracted; the model names events by constructor ([ev], tags of [ev_val]). *)
(* NOT TIED (logic, not constants): found = -1 / found = 1 of common.Vote
   (common/vote.go:37, :69); the guards [amount <= 0], [amount < 0]. *)
(* Platform constants, not in /repo: Hash160 length 20, compressed public key
   length 33, storage key limit 64, 32-byte integer limit. *)
