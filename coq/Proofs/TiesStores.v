(** Proofs/TiesStores.v — ties between the literals of Model/StoreLib.v,
    Model/Reputation.v, Model/Audit.v, Model/NeoFSID.v, Model/Config.v,
    Model/Estimations.v, Spec/Stores.v (property C20) and the constants of the
    Go sources as extracted into Gen/Params.v (regenerated from /repo's working
    tree on every run).  A constant edited in the source breaks the lemma that
    names it.

    Named model constants are tied directly; inline literals (the 3 =
    len("cnr") = len("est") of Model/Estimations.v, the 58 of Spec/Stores.v)
    are tied through closed terms that depend on them: the model's function
    run on an input built from the source's constants.  Every model also gets
    one "run" tie: the storage keys a whole accepted operation leaves behind,
    written with the source's constants only.

    Not tied here, because they are constants of the platform (neo-go), not of
    /repo: the storage key / value limits 64 and 65535 (StoreLib.key_ok, sput;
    Spec/Stores.v), the public key length 33 (NeoFSID.pubkey_len =
    interop.PublicKeyCompressedLen), the 20 bytes of a RIPEMD-160 digest
    (Spec/Stores.v eop_wf), the 32-byte integer limit (Estimations.key_epoch),
    the std.Serialize limits 2048 / 253 / 65536 (Estimations.ser_ints_ok,
    varuint_len).  Estimations.cap_limit = 1007 is measured by the harness on
    the compiled contract on every run (cases_C20_cap.v), it is no source
    constant. *)
From Coq Require Import ZArith NArith List String.
Import ListNotations.
From Verif Require Import Base.Prelude Base.IntCodec Gen.Params
  Model.StoreLib Model.Reputation Model.Audit Model.NeoFSID Model.Config Model.Estimations
  Spec.Stores Proofs.TiesLib.

(** The keys of a storage, in [storage.Find] order. *)
Definition keys_of (s : store) : list bytes := map fst (sfind [] s).

(** * Reputation (contracts/reputation/contract.go) *)

(** reputationCountPrefix = 'c' *)
Lemma tie_rep_cnt_pfx : rep_cnt_pfx = byte_of_z p_reputation_reputationCountPrefix.
Proof. reflexivity. Qed.

(** reputationValuePrefix = 'r' *)
Lemma tie_rep_val_pfx : rep_val_pfx = byte_of_z p_reputation_reputationValuePrefix.
Proof. reflexivity. Qed.

(** ... and through one accepted Put(epoch 5, peer [7], value [9]): the counter
    key and the value key (count 1) it leaves. *)
Lemma tie_rep_run :
  keys_of (rrun [RPut true 5 [7%N] [9%N]]) =
  [ byte_of_z p_reputation_reputationCountPrefix :: int_to_bytes 5 ++ [7%N];
    byte_of_z p_reputation_reputationValuePrefix :: int_to_bytes 5 ++ [7%N] ++ int_to_bytes 1 ].
Proof. vm_compute. reflexivity. Qed.

(** * NeoFSID (contracts/neofsid/contract.go) *)

(** ownerKeysPrefix = 'o' *)
Lemma tie_owner_pfx : owner_pfx = byte_of_z p_neofsid_ownerKeysPrefix.
Proof. reflexivity. Qed.

(** ownerSize = 1 + interop.Hash160Len + 4 *)
Lemma tie_owner_size : owner_size = Z.to_nat p_neofsid_ownerSize.
Proof. reflexivity. Qed.

(** ... and through AddKey / Key: an owner of ownerSize bytes is accepted and
    the binding is stored under 'o' ++ owner ++ key; one byte less or more is
    refused.  (The key length 33 is interop.PublicKeyCompressedLen: platform.) *)
Definition OWN (n : nat) : bytes := repeat 1%N n.
Definition PK33 : bytes := repeat 7%N 33.

Lemma tie_neofsid_run :
  keys_of (nrun [NAdd true (OWN (Z.to_nat p_neofsid_ownerSize)) [PK33]]) =
  [ byte_of_z p_neofsid_ownerKeysPrefix :: OWN (Z.to_nat p_neofsid_ownerSize) ++ PK33 ].
Proof. vm_compute. reflexivity. Qed.

Lemma tie_neofsid_owner_guard :
  map (fun n => nkeys (nrun [NAdd true (OWN n) [PK33]]) (OWN n))
      [Z.to_nat p_neofsid_ownerSize - 1; Z.to_nat p_neofsid_ownerSize; Z.to_nat p_neofsid_ownerSize + 1]%nat =
  [Fault; Halt [PK33]; Fault].
Proof. vm_compute. reflexivity. Qed.

(** The stored value: the literal []byte{1} inside AddKey (the integer literals of the
    function body, Params: p_neofsid_AddKey_intlits). *)
Lemma tie_neofsid_value :
  map snd (map_to_list (nrun [NAdd true (OWN (Z.to_nat p_neofsid_ownerSize)) [PK33]]))
  = [bytes_of_zs p_neofsid_AddKey_intlits].
Proof. vm_compute. reflexivity. Qed.


(** * Configuration (contracts/netmap/contract.go, contracts/neofs/contract.go) *)

(** neofs: configPrefix = []byte("config") *)
Lemma tie_config_pfx_neofs : config_pfx = bytes_of_zs p_neofs_configPrefix.
Proof. reflexivity. Qed.

(** netmap: configPrefix = []byte("config") *)
Lemma tie_config_pfx_netmap : config_pfx = bytes_of_zs p_netmap_configPrefix.
Proof. reflexivity. Qed.

(** ... and through one accepted SetConfig(key [1; 2]) of either contract. *)
Lemma tie_config_run_neofs :
  keys_of (crun CNeoFS (cinit []) [CSet true [] [1; 2]%N (VBytes [9%N])]) = [bytes_of_zs p_neofs_configPrefix ++ [1; 2]%N].
Proof. vm_compute. reflexivity. Qed.

Lemma tie_config_run_netmap :
  keys_of (crun CNetmap (cinit []) [CSet true [] [1; 2]%N (VBytes [9%N])]) = [bytes_of_zs p_netmap_configPrefix ++ [1; 2]%N].
Proof. vm_compute. reflexivity. Qed.

(** _deploy's setConfig *)
Lemma tie_config_init :
  keys_of (cinit [([1; 2]%N, [9%N])]) = [bytes_of_zs p_netmap_configPrefix ++ [1; 2]%N].
Proof. vm_compute. reflexivity. Qed.

(** ListConfig removes len(configPrefix) bytes. *)
Lemma tie_config_list :
  clist (cinit [([1; 2]%N, [9%N])]) = [([1; 2]%N, [9%N])] /\
  length config_pfx = length (bytes_of_zs p_netmap_configPrefix) /\
  length config_pfx = length (bytes_of_zs p_neofs_configPrefix).
Proof. vm_compute. auto. Qed.

(** Spec/Stores.v spec_caccept: the inline 58 = 64 - len(configPrefix) (64 =
    limits.MaxStorageKeyLen is the platform's): the longest accepted
    configuration key, for either contract. *)
Definition max_cfg_key (pfx : list Z) : nat := (64 - length (bytes_of_zs pfx))%nat.

Lemma tie_spec_caccept_neofs :
  map (fun n => spec_caccept CNeoFS (CSet true [] (repeat 0%N n) (VBytes [])))
      [max_cfg_key p_neofs_configPrefix; S (max_cfg_key p_neofs_configPrefix)] = [true; false].
Proof. vm_compute. reflexivity. Qed.

Lemma tie_spec_caccept_netmap :
  map (fun n => spec_caccept CNetmap (CSet true [] (repeat 0%N n) (VBytes [])))
      [max_cfg_key p_netmap_configPrefix; S (max_cfg_key p_netmap_configPrefix)] = [true; false].
Proof. vm_compute. reflexivity. Qed.

(** The same bound in the model (Config.cget_call). *)
Lemma tie_cget_call_bound :
  map (fun n => cget_call (cinit []) (repeat 0%N n))
      [max_cfg_key p_netmap_configPrefix; S (max_cfg_key p_netmap_configPrefix)] = [Halt None; Fault].
Proof. vm_compute. reflexivity. Qed.

(** * Audit (contracts/audit/contract.go) *)

(** maxKeySize = 24.  Model/Audit.v does not contain the literal: the op carries
    [hk] = sha256(from)[:maxKeySize] computed by the harness.  What the model
    does depend on is the source's remark "24 + 32 (container ID length) + 8
    (epoch length) = 64": with an 8-byte epoch and a 32-byte container id, an
    [hk] of maxKeySize bytes makes a storage key that still fits, one more byte
    does not. *)
Definition EP8 : Z := (2 ^ 62)%Z.   (* int_to_bytes: 8 bytes *)
Definition CID32 : bytes := repeat 5%N 32.

Lemma tie_audit_max_key_size :
  length (int_to_bytes EP8) = 8%nat /\
  map (fun n => key_ok (aid EP8 CID32 (repeat 4%N n)))
      [Z.to_nat p_audit_maxKeySize; S (Z.to_nat p_audit_maxKeySize)] = [true; false].
Proof. vm_compute. auto. Qed.

(** The V2 header parser: the offsets of newAuditHeader / readNext are integer literals of
    the two function bodies (Params: p_audit_newAuditHeader_intlits =
    [1; 2; 1; 8; 8; 2; 1; 2; 1; 1] for input[1], 2+offset+1, offset+8 (twice), offset+2+1,
    offset+2+1+cidOffset+1; p_audit_readNext_intlits = [0; 1; 1; 1] for input[0],
    input[1 : 1+ln], 1+ln).  The tie builds a header whose layout is dictated by those
    literals and has the model parse it. *)
Definition lit (l : list Z) (i : nat) : nat := Z.to_nat (nth i l 0%Z).
Definition pad (n : nat) : bytes := repeat 7%N n.
Definition hdr_input : bytes :=
  let l := p_audit_newAuditHeader_intlits in
  pad (lit l 0) ++ [2%N] ++ pad (lit l 1 - lit l 0 - 1) ++ [40; 41]%N   (* ... version len, version *)
  ++ pad (lit l 2) ++ take (lit l 3) [5; 0; 0; 0; 0; 0; 0; 0; 99; 99]%N  (* epoch prefix, epoch bytes *)
  ++ pad (lit l 5 + lit l 6) ++ [3; 21; 22; 23]%N                        (* cid struct prefix, readNext *)
  ++ pad (lit l 9) ++ [2; 31; 32]%N.                                     (* key wire type, readNext *)
Lemma tie_audit_header_offsets :
  let l := p_audit_newAuditHeader_intlits in
  parse_hdr hdr_input = Halt (mkHdr 5 [21; 22; 23]%N [31; 32]%N) /\
  length l = 10%nat /\ lit l 4 = lit l 3 /\ lit l 7 = lit l 5 /\ lit l 8 = lit l 6.
Proof. repeat split; vm_compute; reflexivity. Qed.

Lemma tie_audit_read_next :
  let r := p_audit_readNext_intlits in
  let inp := (pad (lit r 0) ++ [2; 8; 9; 10])%N in
  read_next inp = Halt (take 2 (drop (lit r 1) inp), (lit r 3 + 2)%nat) /\
  length r = 4%nat /\ lit r 2 = lit r 1.
Proof. repeat split; vm_compute; reflexivity. Qed.


(** * Estimations (contracts/container/contract.go, containerconst/const.go) *)

(** estimateKeyPrefix = "cnr" *)
Lemma tie_cnr_pfx : cnr_pfx = bytes_of_string p_container_estimateKeyPrefix.
Proof. reflexivity. Qed.

(** []byte(estimateKeyPrefix) as the translator evaluated it in estimationKey,
    ListContainerSizes, IterateContainerSizes, IterateAllContainerSizes. *)
Lemma tie_cnr_pfx_uses :
  [cnr_pfx; cnr_pfx; cnr_pfx; cnr_pfx] =
  map bytes_of_zs [p_container_estimationKey_result; p_container_ListContainerSizes_key;
                   p_container_IterateContainerSizes_key; p_container_IterateAllContainerSizes_key].
Proof. reflexivity. Qed.

(** containerIDSize = interop.Hash256Len *)
Lemma tie_cid_size : cid_size = Z.to_nat p_container_containerIDSize.
Proof. reflexivity. Qed.

(** estimatePostfixSize = 10 *)
Lemma tie_postfix_size : postfix_size = Z.to_nat p_container_estimatePostfixSize.
Proof. reflexivity. Qed.

(** Inputs built from the source's constants only. *)
Definition P_CNR : bytes := bytes_of_string p_container_estimateKeyPrefix.
Definition P_EST : bytes := bytes_of_string p_container_singleEstimatePrefix.
Definition P_CIDSZ : nat := Z.to_nat p_container_containerIDSize.
Definition P_POSTSZ : nat := Z.to_nat p_container_estimatePostfixSize.
Definition P_D1 : Z := p_containerconst_CleanupDelta.
Definition P_D2 : Z := p_containerconst_TotalCleanupDelta.
Definition CID : bytes := repeat 7%N P_CIDSZ.
Definition PUB : bytes := 2%N :: repeat 2%N 32.
Definition H20 : bytes := map N.of_nat (seq 1 20).

(** [estimationKey]: estimateKeyPrefix ++ epoch ++ cid ++ hash[:estimatePostfixSize]. *)
Lemma tie_ekey :
  ekey 5 CID H20 = P_CNR ++ int_to_bytes 5 ++ CID ++ take P_POSTSZ H20.
Proof. vm_compute. reflexivity. Qed.

(** [cleanupContainers] k[len(estimateKeyPrefix) : len(k)-containerIDSize-estimatePostfixSize]:
    the inline 3 of Estimations.key_epoch.  The epoch 258 (two bytes) is read
    back from a key built from the source's constants; a key one byte shorter
    than prefix ++ cid ++ postfix is refused. *)
Lemma tie_key_epoch :
  key_epoch (P_CNR ++ int_to_bytes 258 ++ CID ++ repeat 9%N P_POSTSZ) = Halt 258%Z.
Proof. vm_compute. reflexivity. Qed.

Lemma tie_key_epoch_min_len :
  map (fun n => key_epoch (repeat 0%N n))
      [length P_CNR + P_CIDSZ + P_POSTSZ - 1; length P_CNR + P_CIDSZ + P_POSTSZ]%nat = [Fault; Halt 0%Z].
Proof. vm_compute. reflexivity. Qed.

(** [GetContainerSize]: len(id) < len(estimateKeyPrefix)+containerIDSize panics,
    id[:len(estimateKeyPrefix)] must be the prefix, cid = id[ln-containerIDSize:]:
    the inline 3s of Estimations.eget. *)
Lemma tie_eget :
  eget ∅ (P_CNR ++ CID) = Halt (CID, []) /\
  eget ∅ (P_CNR ++ [1%N] ++ CID) = Halt (CID, []) /\
  eget ∅ (P_CNR ++ tail CID) = Fault /\
  eget ∅ (P_EST ++ CID) = Fault.
Proof. vm_compute. auto. Qed.

(** [IterateContainerSizes]: len(cid) != containerIDSize panics. *)
Lemma tie_eiter_cid_size :
  map (fun n => eiter ∅ 5 (repeat 7%N n)) [P_CIDSZ - 1; P_CIDSZ; P_CIDSZ + 1]%nat = [Fault; Halt []; Fault].
Proof. vm_compute. reflexivity. Qed.

(** singleEstimatePrefix = "est": Model/Estimations.v keeps the per-node epoch
    lists in a typed map keyed by cid ++ h, so the bytes of the prefix do not
    occur in it, only their number (the inline 3 of update_estimations, in the
    storage-key limit of common.SetSerialized) and the fact its header states:
    a key starting with "est" cannot collide with a "cnr" key. *)
Lemma tie_est_pfx_len :
  map (fun n => match update_estimations P_D1 (fun _ => true) einit 5 (repeat 7%N n) H20 with
                | Halt _ => true | Fault => false end)
      [64 - length P_EST - length H20; S (64 - length P_EST - length H20)]%nat = [true; false].
Proof. vm_compute. reflexivity. Qed.

Lemma tie_est_cnr_disjoint : forall x, is_prefix cnr_pfx (P_EST ++ x) = false.
Proof. intros x. reflexivity. Qed.

(** containerconst.CleanupDelta, TotalCleanupDelta.  Model/Estimations.v is
    parametric in the two deltas (Section Deltas: d1, d2), the harness reads
    them from the Go package for every case.  The theorems of Props/C20.v need
    0 <= d1; the source requires TotalCleanupDelta > CleanupDelta and defines
    it as CleanupDelta + 1 (the header of Model/Estimations.v quotes both
    values, the witnesses of Props/C20.v are stated at (3, 4)). *)
Lemma tie_cleanup_delta_nonneg : (0 <= p_containerconst_CleanupDelta)%Z.
Proof. discriminate. Qed.

Lemma tie_total_cleanup_delta :
  p_containerconst_TotalCleanupDelta = (p_containerconst_CleanupDelta + 1)%Z.
Proof. reflexivity. Qed.

Lemma tie_cleanup_delta_lt : (p_containerconst_CleanupDelta < p_containerconst_TotalCleanupDelta)%Z.
Proof. reflexivity. Qed.

Lemma tie_witness_deltas :
  (3, 4)%Z = (p_containerconst_CleanupDelta, p_containerconst_TotalCleanupDelta).
Proof. reflexivity. Qed.

(** ... and the deltas at work in the model instantiated with the source's
    values: the node's estimations of epochs 1 and 1 + CleanupDelta + 1; the
    second one deletes the first ([epoch-oldEpoch > CleanupDelta]), and an
    estimation exactly CleanupDelta epochs later would not have. *)
Definition put_at (e : Z) : eop := EPut [CID] [PUB] [PUB] e CID 100 PUB H20.
Definition ekeys (ops : list eop) : list bytes := keys_of (ests (erun P_D1 P_D2 cap_real ops)).

Lemma tie_estimations_run :
  ekeys [put_at 1] = [P_CNR ++ int_to_bytes 1 ++ CID ++ take P_POSTSZ H20].
Proof. vm_compute. reflexivity. Qed.

Lemma tie_cleanup_delta_run :
  ekeys [put_at 1; put_at (1 + p_containerconst_CleanupDelta)] =
    [ekey 1 CID H20; ekey (1 + p_containerconst_CleanupDelta) CID H20] /\
  ekeys [put_at 1; put_at (1 + p_containerconst_CleanupDelta + 1)] =
    [ekey (1 + p_containerconst_CleanupDelta + 1) CID H20].
Proof. vm_compute. auto. Qed.

(** [NewEpoch] -> cleanupContainers: [epoch-n > TotalCleanupDelta] deletes. *)
Lemma tie_total_cleanup_delta_run :
  ekeys [put_at 1; ETick true (1 + p_containerconst_TotalCleanupDelta)] = [ekey 1 CID H20] /\
  ekeys [put_at 1; ETick true (1 + p_containerconst_TotalCleanupDelta + 1)] = [].
Proof. vm_compute. auto. Qed.

(** [IterateAllContainerSizes] removes the Find prefix estimateKeyPrefix ++ epoch:
    the inline 3 of Estimations.eiter_all. *)
Lemma tie_eiter_all :
  map fst (eiter_all (ests (erun P_D1 P_D2 cap_real [put_at 5])) 5) = [CID ++ take P_POSTSZ H20].
Proof. vm_compute. reflexivity. Qed.

(** [ListContainerSizes] cuts estimatePostfixSize bytes. *)
Lemma tie_elist :
  elist (ests (erun P_D1 P_D2 cap_real [put_at 5])) 5 = Halt [P_CNR ++ int_to_bytes 5 ++ CID].
Proof. vm_compute. reflexivity. Qed.

(** The literal 29 of Props/C20.v (C20_estimations_iterate_exact_partial) and of
    Proofs/StoresEstimations.v (eiter_key_ok): the longest epoch encoding for
    which estimateKeyPrefix ++ epoch ++ cid is a legal Find prefix (64 is the
    platform's limit). *)
Lemma tie_iter_epoch_bound :
  (29 = 64 - length (bytes_of_string p_container_estimateKeyPrefix) - Z.to_nat p_container_containerIDSize)%nat.
Proof. reflexivity. Qed.

Lemma tie_iter_epoch_bound_run :
  map (fun e => match eiter ∅ e CID with Halt _ => true | Fault => false end)
      [2 ^ (8 * 29 - 1) - 1; 2 ^ (8 * 29 - 1)]%Z = [true; false].
Proof. vm_compute. reflexivity. Qed.
