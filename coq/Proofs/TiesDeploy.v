(** Proofs/TiesDeploy.v — ties between the literals of Model/DeployHelpers.v and
    Model/DeployProto.v (property C13) and the constants of /repo/deploy (and of
    the NNS contract) as extracted into Gen/Params.v (regenerated from /repo's
    working tree on every run).  A constant edited in the source breaks the
    lemma that names it.

    Named model constants are tied directly and once more through the helper
    that uses them, run on an input built from the source's constants; the
    inline 120 of DeployProto.vub_increment and the inline 8 / 7 of
    DeployProto.final_state are tied through closed terms that depend on them.

    Not tied here, because they are constants of the platform (Go / neo-go),
    not of /repo: 2^64, 2^32, math.MaxUint32 (DeployHelpers.w64, w32, max_u32),
    util.Uint160Size = 20 (uint160_size; only its sum with the two uint32
    fields is a source constant, see [tie_shared_len_sum]), the 4 bytes of a
    big-endian uint32 (be32, the [uint160_size + 4] of shared_decode), SHA-256
    (sha_k, sha_h0, the padding: FIPS 180-4), smartcontract.
    GetMajorityHonestNodeCount (DeployProto.maj_m).
    Abstracted away by Model/DeployProto.v (named in its header only): the
    domain names domainDesignateNotaryTx, domainDesignateNotaryPrefix,
    domainBootstrap (domains are the two fields c_txdom / c_sigdom), the NNS
    method names, record id 0 of setRecord, base64. *)
From Coq Require Import ZArith NArith List String.
Import ListNotations.
From Verif Require Import Base.Prelude Base.IntCodec Gen.Params
  Model.DeployHelpers Model.DeployProto Proofs.TiesLib.

(** * neoFSRuntimeTransactionModifier (deploy/deploy.go) *)

(** const span = 100 *)
Lemma tie_window_span : window_span = p_deploy_neoFSRuntimeTransactionModifier_span.
Proof. reflexivity. Qed.

(** ... and through the modifier at height 12345: nonce = span * floor(h/span),
    ValidUntilBlock = nonce + span. *)
Lemma tie_tx_modifier_run :
  let span := p_deploy_neoFSRuntimeTransactionModifier_span in
  tx_modifier true 12345 = Some (12345 / span * span, 12345 / span * span + span)%Z.
Proof. vm_compute. reflexivity. Qed.

(** The overflow guard math.MaxUint32-span > tx.Nonce (MaxUint32: platform):
    the last window below it and the first one at it. *)
Lemma tie_tx_modifier_guard :
  let span := p_deploy_neoFSRuntimeTransactionModifier_span in
  let top := ((4294967295 - span) / span * span)%Z in   (* last multiple of span <= MaxUint32-span *)
  map (tx_modifier true) [top; top + span]%Z =
  [Some (top, top + span); Some (top + span, 4294967295)]%Z.
Proof. vm_compute. reflexivity. Qed.

(** * sharedTransactionData (deploy/notary.go) *)

(** sharedTransactionDataLen = util.Uint160Size + 4 + 4 *)
Lemma tie_shared_len : shared_len = Z.to_nat p_deploy_sharedTransactionDataLen.
Proof. reflexivity. Qed.

(** ... which is the model's sender size (util.Uint160Size: platform) plus the
    two big-endian uint32 fields. *)
Lemma tie_shared_len_sum : (uint160_size + 4 + 4)%nat = Z.to_nat p_deploy_sharedTransactionDataLen.
Proof. reflexivity. Qed.

(** sharedTransactionDataChecksumLen = 4 *)
Lemma tie_checksum_len : checksum_len = Z.to_nat p_deploy_sharedTransactionDataChecksumLen.
Proof. reflexivity. Qed.

Definition SH : shared := mkShared (map N.of_nat (seq 1 20)) 120 3735928559.

(** [bytes()] makes sharedTransactionDataLen bytes. *)
Lemma tie_shared_bytes_len :
  length (shared_bytes SH) = Z.to_nat p_deploy_sharedTransactionDataLen.
Proof. vm_compute. reflexivity. Qed.

(** [decodeString]: len(b) != sharedTransactionDataLen is an error. *)
Lemma tie_shared_decode_len :
  let n := Z.to_nat p_deploy_sharedTransactionDataLen in
  map (fun k => match shared_decode (repeat 0%N k) with Some _ => true | None => false end)
      [n - 1; n; n + 1]%nat = [false; true; false].
Proof. vm_compute. reflexivity. Qed.

(** [unshiftChecksum] prepends h[:sharedTransactionDataChecksumLen]. *)
Lemma tie_unshift_checksum_len :
  length (unshift_checksum SH [1; 2; 3]%N) = (Z.to_nat p_deploy_sharedTransactionDataChecksumLen + 3)%nat /\
  unshift_checksum SH [1; 2; 3]%N =
    take (Z.to_nat p_deploy_sharedTransactionDataChecksumLen) (sha256 (shared_bytes SH)) ++ [1; 2; 3]%N.
Proof. vm_compute. auto. Qed.

(** [shiftChecksum]: len(data) < sharedTransactionDataChecksumLen returns
    (false, data); otherwise data[sharedTransactionDataChecksumLen:] on a match. *)
Lemma tie_shift_checksum_len :
  let n := Z.to_nat p_deploy_sharedTransactionDataChecksumLen in
  let ck := sha256 (shared_bytes SH) in
  shift_checksum SH (take (n - 1) ck) = (false, take (n - 1) ck) /\
  shift_checksum SH (take n ck) = (true, []) /\
  shift_checksum SH (take n ck ++ [1; 2; 3]%N) = (true, [1; 2; 3]%N) /\
  shift_checksum SH (repeat 0%N n) = (false, []).
Proof. vm_compute. auto. Qed.

(** * The NNS record limit (contracts/nns/contract.go) *)

(** maxRecordID = 15: record ids 0 .. maxRecordID, so at most maxRecordID + 1
    records of one type. *)
Lemma tie_max_records : max_records = Z.to_nat (p_nns_maxRecordID + 1).
Proof. reflexivity. Qed.

(** ... and through the test invocation of addRecord on the shared-data
    domain and on a signature domain holding k records: it HALTs up to
    maxRecordID records present (the new one gets an id <= maxRecordID). *)
Definition recs_tx (k : nat) : list data := map (fun i => (Z.of_nat i, 0%Z)) (seq 0 k).
Definition recs_sig (k : nat) : list sigrec := map (fun i => mkRec (Z.of_nat i, 0%Z) (mkSig 1 (0%Z, 0%Z))) (seq 0 k).
Definition chain_with (k : nat) : chain := mkChain 0 (Some (recs_tx k)) {[ 1%nat := recs_sig k ]} false [] 0.

Lemma tie_max_records_run :
  let m := Z.to_nat p_nns_maxRecordID in
  map (fun k => write_ok (chain_with k) (WAddTx (-1, 0)%Z)) [m; S m] = [true; false] /\
  map (fun k => write_ok (chain_with k) (WAddSig 1 (mkRec (-1, 0)%Z (mkSig 1 (0, 0)%Z)))) [m; S m] = [true; false].
Proof. vm_compute. auto. Qed.

(** * generateAndShareTxData (deploy/notary.go) *)

(** const defaultValidUntilBlockIncrement = 120: the inline 120 of
    DeployProto.vub_increment (min with Protocol.MaxValidUntilBlockIncrement). *)
Lemma tie_vub_increment :
  let d := p_deploy_initDesignateNotaryRoleAsLeaderTick_defaultValidUntilBlockIncrement in
  map vub_increment [d - 1; d; d + 1; 5760]%Z = [d - 1; d; d; d]%Z.
Proof. vm_compute. reflexivity. Qed.

(** ... and through the leader's first share at height 1000 (nonce 7): the
    pooled addRecord carries validUntilBlock = height + increment. *)
Lemma tie_generate_run :
  let d := p_deploy_initDesignateNotaryRoleAsLeaderTick_defaultValidUntilBlockIncrement in
  let c := mkChain 1000 (Some []) ∅ false [] 0 in
  snd (generate_and_share 5760 7 false c leader0) = [ESent 0 (WAddTx (1000 + d, 7)%Z)].
Proof. vm_compute. reflexivity. Qed.

(** * deploy.Deploy's final state (deploy/deploy.go) *)

(** The names of the [neofs] zone that DeployProto.final_state codes 0..6, in
    the order deploy.Deploy assigns them to syncPrm.domainName
    (p_deploy_stage_order: the stages after the NNS; the last one is the
    alphabet stage with its n names alphabet<i>, coded 100+i). *)
Definition zone_names : list string :=
  [p_deploy_domainProxy; p_deploy_domainAudit; p_deploy_domainNetmap; p_deploy_domainBalance;
   p_deploy_domainReputation; p_deploy_domainNeoFSID; p_deploy_domainContainer].

Lemma tie_zone_names : p_deploy_stage_order = (zone_names ++ ["alphabet"%string])%list.
Proof. reflexivity. Qed.

(** The inline [seq 0 7] of final_state: one name per single-contract stage,
    then one per committee member. *)
Lemma tie_final_names : forall n,
  map fst (fo_names (final_state n)) =
  (seq 0 (length p_deploy_stage_order - 1) ++ map (fun i => 100 + i) (seq 0 n))%nat.
Proof. intros n. unfold final_state, fo_names. rewrite map_map, map_id. reflexivity. Qed.

Lemma tie_final_names_zone : map fst (fo_names (final_state 0)) = seq 0 (length zone_names).
Proof. reflexivity. Qed.

(** The inline [8 + n] of final_state: the NNS, one contract per stage other
    than the alphabet one, n alphabet contracts. *)
Lemma tie_final_contracts : forall n,
  fo_contracts (final_state n) = (1 + (length p_deploy_stage_order - 1) + n)%nat.
Proof. intros n. reflexivity. Qed.
