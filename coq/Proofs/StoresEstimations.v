(** Proofs/StoresEstimations.v — C20, container size estimations: the storage
    under "cnr" refines a map keyed by (epoch, cid, node-hash[:10]); the epoch
    tick and a node's new estimation clean up exactly by the documented
    deltas; what the listings return, for every history. *)
From Verif Require Import Base.Prelude Base.IntCodec Model.StoreLib Model.Estimations Spec.Stores
  Proofs.StoreLib.
From Coq Require Import ZifyBool ZifyNat ZifyN.
Local Open Scope Z_scope.

Notation enc := int_to_bytes.

Lemma existsb_bytes_elem' (x : bytes) l : existsb (bytes_eqb x) l = true <-> x ∈ l.
Proof.
  rewrite existsb_exists. split.
  - intros (y & Hy & ->%bytes_eqb_eq). by apply elem_of_list_In.
  - intros H. exists x. split; [by apply elem_of_list_In|apply bytes_eqb_refl].
Qed.

(** * Keys *)

Definition wf3 (k : ekey3) : Prop :=
  length (snd (fst k)) = cid_size /\ length (snd k) = postfix_size.

Lemma ekey_ekey' e c h20 : ekey e c h20 = ekey' (@pair (Z * bytes) bytes (e, c) (take postfix_size h20)).
Proof. reflexivity. Qed.

Lemma ekey'_length e c h : wf3 (e, c, h) -> length (ekey' (e, c, h)) = (45 + length (enc e))%nat.
Proof.
  intros [Hc Hh]. cbn in Hc, Hh. unfold ekey'. rewrite !app_length, Hc, Hh.
  unfold cid_size, postfix_size, cnr_pfx. cbn [length]. lia.
Qed.

Lemma ekey'_inj k k' : wf3 k -> wf3 k' -> ekey' k = ekey' k' -> k = k'.
Proof.
  destruct k as [[e c] h], k' as [[e' c'] h']. intros W W' E.
  assert (Hl : length (enc e) = length (enc e')).
  { apply (f_equal length) in E. rewrite !ekey'_length in E by done. lia. }
  destruct W as [Hc Hh], W' as [Hc' Hh']. cbn in Hc, Hh, Hc', Hh'.
  unfold ekey' in E. apply app_inv_head in E. apply app_inj_1 in E as [E1 E2]; [|done].
  apply app_inj_1 in E2 as [E2 E3]; [|congruence]. apply int_to_bytes_inj in E1. congruence.
Qed.

Lemma ekey'_prefix k : is_prefix cnr_pfx (ekey' k) = true.
Proof. destruct k as [[e c] h]. apply is_prefix_refl_app. Qed.

(** The epoch parsed back from the middle of a well-formed key. *)
Lemma key_epoch_ekey' e c h : wf3 (e, c, h) -> (length (enc e) <= 32)%nat ->
  key_epoch (ekey' (e, c, h)) = Halt e.
Proof.
  intros W Hl. pose proof (ekey'_length _ _ _ W) as Hlen. destruct W as [Hc Hh]. cbn in Hc, Hh.
  unfold key_epoch, oassert. rewrite Hlen.
  destruct (Nat.leb_spec (3 + cid_size + postfix_size) (45 + length (enc e))) as [_|Hbad];
    [|unfold cid_size, postfix_size in Hbad; lia].
  cbn [obind]. unfold bslice.
  replace (45 + length (enc e) - cid_size - postfix_size - 3)%nat with (length (enc e))
    by (unfold cid_size, postfix_size; lia).
  rewrite Hlen.
  destruct (Nat.leb_spec (3 + length (enc e)) (45 + length (enc e))) as [_|Hbad]; [|lia].
  cbn [obind]. unfold ekey'. rewrite (drop_app_alt cnr_pfx) by reflexivity. rewrite take_app. rewrite (proj2 (Nat.leb_le _ _) Hl). cbn [obind].
  by rewrite bytes_to_int_to_bytes.
Qed.

(** * Refinement relation *)

Record eR (st : store) (m : espec) : Prop := mkER {
  eR_lookup : forall k, wf3 k -> st !! ekey' k = m !! k;
  eR_shape : forall key, is_Some (st !! key) -> exists k, wf3 k /\ key = ekey' k;
  eR_wf : forall k, is_Some (m !! k) -> wf3 k;
  eR_len : forall key, is_Some (st !! key) -> (length key <= 64)%nat
}.

Lemma eR_empty : eR ∅ ∅.
Proof.
  split.
  - intros k _. by rewrite !lookup_empty.
  - intros key [? H]. by rewrite lookup_empty in H.
  - intros k [? H]. by rewrite lookup_empty in H.
  - intros key [? H]. by rewrite lookup_empty in H.
Qed.

Lemma eR_enc_len st m k : eR st m -> wf3 k -> is_Some (st !! ekey' k) ->
  (length (enc (fst (fst k))) <= 32)%nat.
Proof.
  intros R W Hs. apply (eR_len _ _ R) in Hs. destruct k as [[e c] h].
  rewrite ekey'_length in Hs by done. cbn. lia.
Qed.

(** * The epoch tick *)
Section Deltas.
Variables (d1 d2 : Z) (cap : list Z -> bool).

Definition dead (n : Z) (key : bytes) : bool :=
  match key_epoch key with Halt e => n - e >? d2 | Fault => false end.

Definition cstepF (n : Z) (acc : outcome store) (kv : bytes * bytes) : outcome store :=
  st' <-! acc; ke <-! key_epoch (fst kv); d <-! vm_sub n ke;
  if d >? d2 then Halt (delete (fst kv) st') else Halt st'.

Lemma cleanup_fold_fault n l : fold_left (cstepF n) l Fault = Fault.
Proof. induction l as [|kv l IH]; [reflexivity|exact IH]. Qed.

Lemma cstepF_halt n acc kv acc1 : cstepF n (Halt acc) kv = Halt acc1 ->
  forall k, acc1 !! k = if bytes_eqb (fst kv) k && dead n k then None else acc !! k.
Proof.
  unfold cstepF. cbn [obind]. destruct (key_epoch (fst kv)) as [ke|] eqn:Ek; cbn [obind]; [|discriminate].
  unfold vm_sub. destruct (int_ok (n - ke)); cbn [obind]; [|discriminate].
  intros H k. destruct (bytes_eqb (fst kv) k) eqn:E.
  - apply bytes_eqb_eq in E as <-. unfold dead. rewrite Ek. cbn [andb].
    destruct (n - ke >? d2); injection H as <-; [by rewrite lookup_delete|reflexivity].
  - apply bytes_eqb_neq in E. cbn [andb].
    destruct (n - ke >? d2); injection H as <-; [by rewrite lookup_delete_ne|reflexivity].
Qed.

Lemma cleanup_fold n l : forall acc st', fold_left (cstepF n) l (Halt acc) = Halt st' ->
  forall k, st' !! k = if existsb (fun kv => bytes_eqb (fst kv) k) l && dead n k then None else acc !! k.
Proof.
  induction l as [|kv l IH]; intros acc st' H k.
  - cbn in H. by injection H as <-.
  - cbn [fold_left] in H. destruct (cstepF n (Halt acc) kv) as [acc1|] eqn:E1;
      [|by rewrite cleanup_fold_fault in H].
    rewrite (IH _ _ H k), (cstepF_halt _ _ _ _ E1 k). cbn [existsb].
    destruct (bytes_eqb (fst kv) k), (existsb _ l), (dead n k); reflexivity.
Qed.

Lemma cleanup_halt st n st' : cleanup d2 st n = Halt st' ->
  (forall key, is_Some (st !! key) -> is_prefix cnr_pfx key = true) ->
  forall k, st' !! k = if dead n k then None else st !! k.
Proof.
  intros H Hp k. rewrite (cleanup_fold _ _ _ _ H k).
  destruct (existsb _ (sfind cnr_pfx st)) eqn:E; cbn [andb]; [reflexivity|].
  destruct (st !! k) as [v|] eqn:Ev; [|by destruct (dead n k)]. exfalso.
  assert (Hin : (k, v) ∈ sfind cnr_pfx st) by (apply elem_of_sfind; split; [done|apply Hp; eauto]).
  apply not_true_iff_false in E. apply E, existsb_exists. exists (k, v).
  split; [by apply elem_of_list_In|apply bytes_eqb_refl].
Qed.

Definition tickP (n : Z) (kv : ekey3 * bytes) : Prop := ~ (n - fst (fst (fst kv)) > d2).

Lemma filter_lookup_true {P : ekey3 * bytes -> Prop} `{!forall x, Decision (P x)} (m : espec) k :
  (forall v, m !! k = Some v -> P (k, v)) -> filter P m !! k = m !! k.
Proof.
  intros HP. destruct (m !! k) as [v|] eqn:E.
  - apply map_filter_lookup_Some. split; [exact E|by apply HP].
  - apply map_filter_lookup_None. left. exact E.
Qed.

Lemma filter_lookup_false {P : ekey3 * bytes -> Prop} `{!forall x, Decision (P x)} (m : espec) k :
  (forall v, m !! k = Some v -> ~ P (k, v)) -> filter P m !! k = None.
Proof. intros HP. apply map_filter_lookup_None. right. exact HP. Qed.

Lemma etick_R st m n st' : eR st m -> cleanup d2 st n = Halt st' -> eR st' (filter (tickP n) m).
Proof.
  intros R H.
  assert (Hp : forall key, is_Some (st !! key) -> is_prefix cnr_pfx key = true).
  { intros key (k & _ & ->)%(eR_shape _ _ R). apply ekey'_prefix. }
  pose proof (cleanup_halt _ _ _ H Hp) as Hl.
  assert (Hsub : forall key, is_Some (st' !! key) -> is_Some (st !! key)).
  { intros key. rewrite Hl. destruct (dead n key); [intros [? ?]; discriminate|done]. }
  split.
  - intros k W. rewrite Hl. destruct (st !! ekey' k) as [v|] eqn:Ev.
    + assert (Hm : m !! k = Some v) by (by rewrite <- (eR_lookup _ _ R k W)).
      assert (Hlen := eR_enc_len _ _ _ R W (ex_intro _ v Ev)).
      destruct k as [[e c] h]. unfold dead. rewrite key_epoch_ekey' by done. cbn [fst] in *.
      destruct (Z.gtb_spec (n - e) d2) as [Hgt|Hle].
      * symmetry. apply filter_lookup_false. intros v' _. unfold tickP. cbn. lia.
      * rewrite filter_lookup_true; [done|]. intros v' _. unfold tickP. cbn. lia.
    + assert (Hm : m !! k = None) by (by rewrite <- (eR_lookup _ _ R k W)).
      replace (filter (tickP n) m !! k) with (@None bytes)
        by (symmetry; apply map_filter_lookup_None; by left).
      by destruct (dead n (ekey' k)).
  - intros key Hs. apply (eR_shape _ _ R), Hsub, Hs.
  - intros k [v Hv]. apply map_filter_lookup_Some in Hv as [Hv _]. apply (eR_wf _ _ R). eauto.
  - intros key Hs. apply (eR_len _ _ R), Hsub, Hs.
Qed.

(** * A node's new estimation *)

Definition ustepF (e : Z) (c h20 : bytes) (acc : outcome (store * list Z)) (oe : Z)
    : outcome (store * list Z) :=
  '(st', keep) <-! acc; d <-! vm_sub e oe;
  if d >? d1 then Halt (delete (ekey oe c h20) st', keep) else Halt (st', keep ++ [oe]).

Lemma upd_fold_fault e c h20 l : fold_left (ustepF e c h20) l Fault = Fault.
Proof. induction l as [|x l IH]; [reflexivity|exact IH]. Qed.

Lemma upd_fold e c h20 old : forall st kp st2 keep,
  fold_left (ustepF e c h20) old (Halt (st, kp)) = Halt (st2, keep) ->
  keep = kp ++ filter (fun oe => ~ e - oe > d1) old /\
  forall k, st2 !! k =
    if existsb (fun oe => bytes_eqb (ekey oe c h20) k && (e - oe >? d1)) old then None else st !! k.
Proof.
  induction old as [|oe old IH]; intros st kp st2 keep H.
  - cbn in H. injection H as <- <-. split; [by rewrite filter_nil, app_nil_r|reflexivity].
  - cbn [fold_left] in H. unfold ustepF at 2 in H. cbn [obind] in H.
    unfold vm_sub in H. destruct (int_ok (e - oe)); cbn [obind] in H; [|by rewrite upd_fold_fault in H].
    rewrite filter_cons. cbn [existsb]. destruct (Z.gtb_spec (e - oe) d1) as [Hgt|Hle].
    + apply IH in H as [-> Hl]. rewrite decide_False by lia. split; [reflexivity|].
      intros k. rewrite Hl. destruct (existsb _ old); [by rewrite orb_true_r|].
      rewrite orb_false_r, andb_true_r. destruct (bytes_eqb (ekey oe c h20) k) eqn:E.
      * apply bytes_eqb_eq in E as <-. by rewrite lookup_delete.
      * apply bytes_eqb_neq in E. by rewrite lookup_delete_ne.
    + apply IH in H as [-> Hl]. rewrite decide_True by lia. split; [by rewrite <- app_assoc|].
      intros k. rewrite Hl. by rewrite andb_false_r.
Qed.

Lemma eput_halt s live wit prev e c size pub h20 s' :
  eput d1 cap s live wit prev e c size pub h20 = Halt s' ->
  c ∈ live /\ pub ∈ wit /\ pub ∈ prev /\
  (length (ekey e c h20) <= 64)%nat /\
  let old := default [] (elists s !! (c ++ h20)) in
  let keep := filter (fun oe => ~ e - oe > d1) old in
  elists s' = <[c ++ h20 := keep ++ [e]]> (elists s) /\
  forall k, ests s' !! k =
    if existsb (fun oe => bytes_eqb (ekey oe c h20) k && (e - oe >? d1)) old then None
    else <[ekey e c h20 := enc_est pub size]> (ests s) !! k.
Proof.
  unfold eput, oassert.
  destruct (existsb (bytes_eqb c) live) eqn:E1; cbn [obind]; [|discriminate].
  destruct (existsb (bytes_eqb pub) wit) eqn:E2; cbn [obind]; [|discriminate].
  destruct (existsb (bytes_eqb pub) prev) eqn:E3; cbn [obind]; [|discriminate].
  apply existsb_bytes_elem' in E1, E2, E3.
  destruct (sput _ _ (ests s)) as [st1|] eqn:E4; cbn [obind]; [|discriminate].
  apply sput_halt in E4 as [-> Hlen].
  unfold update_estimations. cbn [ests elists]. unfold upd_loop.
  change (fold_left _ ?l (Halt (?st, []))) with (fold_left (ustepF e c h20) l (Halt (st, []))).
  destruct (fold_left _ _ _) as [[st2 keep]|] eqn:E5; cbn [obind]; [|discriminate].
  destruct (_ && cap _); cbn [obind]; [|discriminate].
  intros [= <-]. apply upd_fold in E5 as [-> Hl]. cbn [ests elists]. auto 10.
Qed.

Definition putP (e : Z) (c h : bytes) (kv : ekey3 * bytes) : Prop :=
  ~ (snd (fst (fst kv)) = c /\ snd (fst kv) = h /\ e - fst (fst (fst kv)) > d1).

(** The node's epoch list covers its stored entries. *)
Definition eL (N : list bytes) (s : estate) : Prop :=
  forall e c h, h ∈ N -> length c = cid_size ->
    is_Some (ests s !! ekey e c h) -> e ∈ default [] (elists s !! (c ++ h)).

Definition hinj (N : list bytes) : Prop :=
  (forall h : bytes, h ∈ N -> length h = 20%nat) /\
  forall h h' : bytes, h ∈ N -> h' ∈ N -> take postfix_size h = take postfix_size h' -> h = h'.

Lemma take10_len (h : bytes) : length h = 20%nat -> length (take postfix_size h) = postfix_size.
Proof. intros H. rewrite take_length, H. reflexivity. Qed.

Lemma existsb_old_iff e c h20 old key :
  existsb (fun oe => bytes_eqb (ekey oe c h20) key && (e - oe >? d1)) old = true <->
  exists oe, oe ∈ old /\ ekey oe c h20 = key /\ e - oe > d1.
Proof.
  rewrite existsb_exists. split.
  - intros (oe & Hin & [<-%bytes_eqb_eq Hgt]%andb_true_iff). exists oe.
    split; [by apply elem_of_list_In|]. split; [reflexivity|lia].
  - intros (oe & Hin & <- & Hgt). exists oe. split; [by apply elem_of_list_In|].
    rewrite bytes_eqb_refl. cbn [andb]. lia.
Qed.

Lemma eput_R N s m live wit prev e c size pub h20 s' :
  0 <= d1 -> hinj N -> h20 ∈ N -> Forall (fun c => length c = cid_size) live ->
  eR (ests s) m -> eL N s ->
  eput d1 cap s live wit prev e c size pub h20 = Halt s' ->
  eR (ests s') (<[(e, c, take postfix_size h20) := enc_est pub size]> (filter (putP e c (take postfix_size h20)) m))
  /\ eL N s'.
Proof.
  intros Hd1 [Hn20 Hinj] HhN Hlive R L H.
  apply eput_halt in H as (Hc & _ & _ & Hlen & Hlists & Hl). cbv zeta in Hlists, Hl.
  assert (Hc32 : length c = cid_size) by (rewrite Forall_forall in Hlive; by apply Hlive).
  assert (Hh10 : length (take postfix_size h20) = postfix_size) by (apply take10_len, Hn20, HhN).
  set (h := take postfix_size h20) in *.
  set (old := default [] (elists s !! (c ++ h20))) in *.
  assert (W0 : wf3 (e, c, h)) by (split; assumption).
  (* what the store looks like at a well-formed key *)
  assert (Hself : ests s' !! ekey' (e, c, h) = Some (enc_est pub size)).
  { rewrite Hl. destruct (existsb _ old) eqn:E.
    - apply existsb_old_iff in E as (oe & _ & He & Hgt). rewrite !ekey_ekey' in He. fold h in He.
      apply ekey'_inj in He; [|split; assumption|exact W0]. injection He as ->. lia.
    - rewrite ekey_ekey'. fold h. by rewrite lookup_insert. }
  assert (Hother : forall k, wf3 k -> k <> (e, c, h) ->
    ests s' !! ekey' k = filter (putP e c h) m !! k).
  { intros [[e' c'] h'] W Hne. rewrite Hl.
    assert (Hnk : ekey e c h20 <> ekey' (e', c', h')).
    { rewrite ekey_ekey'. fold h. intros E. apply ekey'_inj in E; [|exact W0|exact W].
      apply Hne. symmetry. exact E. }
    destruct (existsb _ old) eqn:E.
    - apply existsb_old_iff in E as (oe & Hoe & He & Hgt). rewrite ekey_ekey' in He. fold h in He.
      apply ekey'_inj in He; [|split; assumption|exact W]. injection He as -> -> ->.
      symmetry. apply filter_lookup_false. intros v _. unfold putP. cbn. intros Hn. apply Hn. auto.
    - rewrite lookup_insert_ne by exact Hnk. rewrite (eR_lookup _ _ R _ W).
      destruct (decide (c' = c /\ h' = h /\ e - e' > d1)) as [(-> & -> & Hgt)|Hno].
      + (* the node's own old entry: it is in the node's list, hence deleted — unless absent *)
        destruct (m !! (e', c, h)) as [v|] eqn:Ev.
        * exfalso. assert (Hin : e' ∈ old).
          { apply (L e' c h20 HhN Hc32). rewrite ekey_ekey'. fold h.
            rewrite (eR_lookup _ _ R _ W). eauto. }
          apply not_true_iff_false in E. apply E, existsb_old_iff. exists e'.
          split; [exact Hin|]. split; [by rewrite ekey_ekey'|exact Hgt].
        * transitivity (@None bytes); [exact Ev|]. symmetry. apply map_filter_lookup_None. by left.
      + symmetry. apply filter_lookup_true. intros v _. unfold putP. cbn. exact Hno. }
  assert (Hsub : forall key, is_Some (ests s' !! key) -> key = ekey e c h20 \/ is_Some (ests s !! key)).
  { intros key. rewrite Hl. destruct (existsb _ old); [intros [? ?]; discriminate|].
    destruct (decide (ekey e c h20 = key)) as [->|Hne]; [by left|].
    rewrite lookup_insert_ne by exact Hne. by right. }
  split; [split|].
  - intros k W. destruct (decide (k = (e, c, h))) as [->|Hne].
    + by rewrite Hself, lookup_insert.
    + rewrite lookup_insert_ne by congruence. by apply Hother.
  - intros key [->|Hs]%Hsub; [exists (e, c, h); by rewrite ekey_ekey'|]. by apply (eR_shape _ _ R).
  - intros k [v Hv]. destruct (decide (k = (e, c, h))) as [->|Hne]; [exact W0|].
    rewrite lookup_insert_ne in Hv by congruence. apply map_filter_lookup_Some in Hv as [Hv _].
    apply (eR_wf _ _ R). eauto.
  - intros key [->|Hs]%Hsub; [exact Hlen|]. by apply (eR_len _ _ R).
  - (* the list invariant *)
    intros e2 c2 h2 Hh2 Hc2 Hs. rewrite Hlists.
    assert (Hh2' : length (take postfix_size h2) = postfix_size) by (apply take10_len, Hn20, Hh2).
    destruct (decide (c2 ++ h2 = c ++ h20)) as [Eq|Hne].
    + apply app_inj_1 in Eq as [-> ->]; [|congruence]. rewrite lookup_insert. cbn [default].
      apply elem_of_app. destruct (decide (e2 = e)) as [->|Hne2]; [right; left|left].
      rewrite Hl in Hs. destruct (existsb _ old) eqn:E; [destruct Hs; discriminate|].
      rewrite lookup_insert_ne in Hs.
      2:{ rewrite !ekey_ekey'. intros E'. apply ekey'_inj in E'; [congruence|done|by split]. }
      apply elem_of_list_filter. split; [|by apply (L e2 c h20)].
      intros Hgt. apply not_true_iff_false in E. apply E, existsb_old_iff. exists e2.
      split; [by apply (L e2 c h20)|]. split; [reflexivity|exact Hgt].
    + rewrite lookup_insert_ne by congruence. apply (L e2 c2 h2 Hh2 Hc2).
      apply Hsub in Hs as [Hs|Hs]; [|exact Hs]. exfalso. rewrite !ekey_ekey' in Hs.
      apply ekey'_inj in Hs; [|by split|by split]. injection Hs as _ -> Ht.
      apply Hinj in Ht; [|done..]. subst. by destruct Hne.
Qed.
End Deltas.

(** * Every history *)
Section Run.
Variables (d1 d2 : Z) (cap : list Z -> bool).
Hypothesis Hd1 : 0 <= d1.

Lemma etick_halt s a n s' : etick d2 s a n = Halt s' ->
  a = true /\ cleanup d2 (ests s) n = Halt (ests s') /\ elists s' = elists s.
Proof.
  unfold etick, oassert. destruct a; cbn [obind]; [|discriminate].
  destruct (cleanup d2 (ests s) n) as [st|]; cbn [obind]; [|discriminate]. by intros [= <-].
Qed.

Lemma estep_R N s m o : hinj N -> eop_wf o ->
  (forall h, h ∈ enodes [o] -> h ∈ N) ->
  eR (ests s) m -> eL N s ->
  match eexec d1 d2 cap s o with
  | Halt s' => eR (ests s') (spec_estep d1 d2 m o) /\ eL N s'
  | Fault => True
  end.
Proof.
  intros HN Hwf Hnode R L. destruct (eexec d1 d2 cap s o) as [s'|] eqn:E; [|exact I].
  destruct o as [live wit prev e c size pub h20|a n]; cbn [eexec] in E.
  - destruct Hwf as [Hlive H20]. apply (eput_R d1 cap N s m live wit prev e c size pub h20 s'); auto.
    apply Hnode. cbn. left.
  - apply etick_halt in E as (_ & Hc & Hlists). split.
    + exact (etick_R d2 _ _ _ _ R Hc).
    + intros e c h Hh Hc32 Hs. rewrite Hlists. apply (L e c h Hh Hc32).
      assert (Hp : forall key, is_Some (ests s !! key) -> is_prefix cnr_pfx key = true).
      { intros key (k & _ & ->)%(eR_shape _ _ R). apply ekey'_prefix. }
      rewrite (cleanup_halt d2 _ _ _ Hc Hp) in Hs. destruct (dead d2 n _); [destruct Hs; discriminate|done].
Qed.

Lemma estep_fst s o :
  fst (estep d1 d2 cap s o) = match eexec d1 d2 cap s o with Halt s' => s' | Fault => s end.
Proof. unfold estep. by destruct (eexec d1 d2 cap s o). Qed.

Lemma enodes_cons o ops h : h ∈ enodes (o :: ops) <-> h ∈ enodes [o] \/ h ∈ enodes ops.
Proof. unfold enodes. cbn [omap list_omap]. destruct o; cbn; rewrite ?elem_of_cons; set_solver. Qed.

Lemma erun_R_gen N : hinj N -> forall ops s m,
  Forall eop_wf ops -> (forall h, h ∈ enodes ops -> h ∈ N) ->
  eR (ests s) m -> eL N s ->
  let s' := fold_left (fun s o => fst (estep d1 d2 cap s o)) ops s in
  eR (ests s') (fold_left (spec_estep d1 d2) (eacc_from d1 d2 cap s ops) m) /\ eL N s'.
Proof.
  intros HN. induction ops as [|o ops IH]; intros s m Hwf Hnodes R L; [by split|].
  apply Forall_cons in Hwf as [Hwo Hwf]. cbn [fold_left eacc_from]. rewrite estep_fst.
  assert (Hn1 : forall h, h ∈ enodes [o] -> h ∈ N) by (intros h Hh; apply Hnodes, enodes_cons; by left).
  assert (Hn2 : forall h, h ∈ enodes ops -> h ∈ N) by (intros h Hh; apply Hnodes, enodes_cons; by right).
  pose proof (estep_R N s m o HN Hwo Hn1 R L) as Hstep.
  destruct (eexec d1 d2 cap s o) as [s1|]; cbn [fold_left].
  - destruct Hstep as [R1 L1]. by apply IH.
  - by apply IH.
Qed.

Lemma enodes_len ops h : Forall eop_wf ops -> h ∈ enodes ops -> length h = 20%nat.
Proof.
  intros Hwf. induction Hwf as [|o ops Hw _ IH]; [intros H; by apply elem_of_nil in H|].
  rewrite enodes_cons. intros [H|H]; [|by apply IH].
  destruct o as [live wit prev e c size pub h20|a n]; cbn in H.
  - apply elem_of_list_singleton in H as ->. by destruct Hw.
  - by apply elem_of_nil in H.
Qed.

(** The refinement: for every history (of well-formed operations), the
    estimation entries in the storage are exactly the entries of the
    reference map, which is keyed by the numbers and cleaned up exactly by
    the two deltas. *)
Theorem estim_refines ops : ehist_ok ops -> eR (ests (erun d1 d2 cap ops)) (spec_erun d1 d2 cap ops).
Proof.
  intros [Hwf Hinj].
  assert (HN : hinj (enodes ops)) by (split; [intros h; by apply enodes_len|exact Hinj]).
  apply (erun_R_gen (enodes ops) HN ops einit ∅ Hwf); [auto|apply eR_empty|].
  intros e c h _ _ [? H]. cbn in H. by rewrite lookup_empty in H.
Qed.

(** The spec's two cleanup rules, read as lookups. *)
Lemma spec_tick_lookup (m : espec) a n e c h :
  spec_estep d1 d2 m (ETick a n) !! (e, c, h) = if n - e >? d2 then None else m !! (e, c, h).
Proof.
  cbn [spec_estep]. destruct (Z.gtb_spec (n - e) d2).
  - apply map_filter_lookup_None. right. intros v _. cbn. lia.
  - apply (filter_lookup_true (P := fun kv : ekey3 * bytes => ~ n - fst (fst (fst kv)) > d2)).
    intros v _. cbn. lia.
Qed.

Lemma spec_put_lookup (m : espec) live wit prev e c size pub h20 e' c' h' :
  spec_estep d1 d2 m (EPut live wit prev e c size pub h20) !! (e', c', h') =
  if decide ((e', c', h') = (e, c, take postfix_size h20)) then Some (enc_est pub size)
  else if decide (c' = c /\ h' = take postfix_size h20 /\ e - e' > d1) then None
  else m !! (e', c', h').
Proof.
  cbn [spec_estep]. destruct (decide ((e', c', h') = _)) as [->|Hne]; [by rewrite lookup_insert|].
  rewrite lookup_insert_ne by congruence.
  destruct (decide (c' = c /\ h' = take postfix_size h20 /\ e - e' > d1)) as [Hy|Hn].
  - apply map_filter_lookup_None. right. intros v _. cbn. tauto.
  - apply (filter_lookup_true (P := fun kv : ekey3 * bytes =>
      ~ (snd (fst (fst kv)) = c /\ snd (fst kv) = take postfix_size h20 /\ e - fst (fst (fst kv)) > d1))).
    intros v _. cbn. exact Hn.
Qed.

Lemma eacc_from_app s ops1 ops2 :
  eacc_from d1 d2 cap s (ops1 ++ ops2) =
  eacc_from d1 d2 cap s ops1 ++ eacc_from d1 d2 cap (fold_left (fun s o => fst (estep d1 d2 cap s o)) ops1 s) ops2.
Proof.
  revert s. induction ops1 as [|o ops1 IH]; intros s; [reflexivity|].
  cbn [app eacc_from fold_left]. rewrite estep_fst. destruct (eexec d1 d2 cap s o) as [s1|].
  - by rewrite IH.
  - by rewrite IH.
Qed.

(** One more operation: the spec moves by [spec_estep] exactly when the
    operation is accepted. *)
Lemma spec_erun_snoc ops o :
  spec_erun d1 d2 cap (ops ++ [o]) =
  match eexec d1 d2 cap (erun d1 d2 cap ops) o with
  | Halt _ => spec_estep d1 d2 (spec_erun d1 d2 cap ops) o
  | Fault => spec_erun d1 d2 cap ops
  end.
Proof.
  unfold spec_erun, eacc. rewrite eacc_from_app. fold (erun d1 d2 cap ops). cbn [eacc_from].
  destruct (eexec d1 d2 cap (erun d1 d2 cap ops) o); [by rewrite fold_left_app|by rewrite app_nil_r].
Qed.
End Run.

(** * Listings *)

Lemma eiter_all_strip st e : eiter_all st e = sfind_strip (cnr_pfx ++ enc e) st.
Proof. unfold eiter_all, sfind_strip. by rewrite app_length. Qed.

Theorem eiter_all_char st m e r v : eR st m ->
  (r, v) ∈ eiter_all st e <->
  exists e' c h, m !! (e', c, h) = Some v /\ enc e ++ r = enc e' ++ c ++ h.
Proof.
  intros R. rewrite eiter_all_strip, elem_of_sfind_strip, <- app_assoc. split.
  - intros Hv. destruct (eR_shape _ _ R _ (ex_intro _ v Hv)) as ([[e' c] h] & W & E).
    exists e', c, h. split.
    + etrans; [symmetry; apply (eR_lookup _ _ R _ W)|]. by rewrite <- E.
    + unfold ekey' in E. by apply app_inv_head in E.
  - intros (e' & c & h & Hm & E). rewrite E.
    assert (W : wf3 (e', c, h)) by (apply (eR_wf _ _ R); eauto).
    etrans; [apply (eR_lookup _ _ R _ W)|exact Hm].
Qed.

Definition eall_ok (m : espec) (e : Z) : Prop :=
  forall e' c h, is_Some (m !! (e', c, h)) -> e' <> e -> is_prefix (enc e) (enc e' ++ c ++ h) = false.

Theorem eiter_all_exact_partial st m e : eR st m -> eall_ok m e ->
  forall r v, (r, v) ∈ eiter_all st e <-> exists c h, r = c ++ h /\ m !! (e, c, h) = Some v.
Proof.
  intros R Hok r v. rewrite (eiter_all_char st m e r v R). split.
  - intros (e' & c & h & Hm & E). destruct (decide (e' = e)) as [->|Hne].
    + apply app_inv_head in E. eauto.
    + assert (Hp : is_prefix (enc e) (enc e' ++ c ++ h) = true) by (rewrite <- E; apply is_prefix_refl_app).
      rewrite (Hok e' c h) in Hp; [discriminate|eauto|done].
  - intros (c & h & -> & Hm). eauto.
Qed.

Lemma eall_ok_same_len (m : espec) e :
  (forall e' c h, is_Some (m !! (e', c, h)) -> length (enc e') = length (enc e)) -> eall_ok m e.
Proof. intros H e' c h Hs Hne. apply enc_same_len_no_prefix; [congruence|]. symmetry. eauto. Qed.

(** ListContainerSizes *)
Lemma omapM_halt {A B} (f : A -> outcome B) (g : A -> B) l :
  (forall x, x ∈ l -> f x = Halt (g x)) -> omapM f l = Halt (map g l).
Proof.
  induction l as [|x l IH]; intros H; [reflexivity|]. cbn [omapM map].
  rewrite (H x) by left. cbn [obind]. rewrite IH; [reflexivity|]. intros y Hy. apply H. by right.
Qed.

Lemma elem_of_dedup_first seen l x :
  x ∈ dedup_first seen l <-> x ∈ l /\ x ∉ seen.
Proof.
  revert seen. induction l as [|y l IH]; intros seen; cbn [dedup_first].
  - split; [intros H; by apply elem_of_nil in H|intros [H _]; by apply elem_of_nil in H].
  - destruct (existsb (bytes_eqb y) seen) eqn:E.
    + apply existsb_bytes_elem' in E. rewrite IH, elem_of_cons. split; [tauto|].
      intros [[->|H] Hn]; [done|auto].
    + assert (Hy : y ∉ seen) by (intros H; apply existsb_bytes_elem' in H; congruence).
      rewrite elem_of_cons, IH, !elem_of_cons. split.
      * intros [->|[H Hn]]; [auto|]. split; [auto|]. intros Hx. apply Hn. by right.
      * intros [[->|H] Hn]; [by left|]. destruct (decide (x = y)) as [->|Hne]; [by left|].
        right. split; [done|]. intros [->|Hx]; done.
Qed.

Lemma NoDup_dedup_first seen l : NoDup (dedup_first seen l).
Proof.
  revert seen. induction l as [|y l IH]; intros seen; cbn [dedup_first]; [constructor|].
  destruct (existsb (bytes_eqb y) seen); [apply IH|]. constructor; [|apply IH].
  rewrite elem_of_dedup_first. intros [_ Hn]. apply Hn. left.
Qed.

Lemma cut_ekey' k : wf3 k ->
  cut_postfix (ekey' k) = Halt (cnr_pfx ++ enc (fst (fst k)) ++ snd (fst k)).
Proof.
  intros W. pose proof W as [Hc Hh]. destruct k as [[e c] h]. cbn in Hc, Hh. cbn [fst snd].
  unfold cut_postfix, oassert. rewrite (ekey'_length _ _ _ W). unfold ekey'.
  destruct (Nat.leb_spec postfix_size (45 + length (enc e))) as [_|Hbad];
    [|unfold postfix_size in Hbad; lia].
  cbn [obind]. f_equal. replace (cnr_pfx ++ enc e ++ c ++ h) with ((cnr_pfx ++ enc e ++ c) ++ h)
    by (by rewrite <- !app_assoc).
  apply take_app_alt. rewrite !app_length, Hc. unfold postfix_size, cid_size, cnr_pfx. cbn [length]. lia.
Qed.

Lemma cut_postfix_halt key : (postfix_size <= length key)%nat ->
  cut_postfix key = Halt (take (length key - postfix_size) key).
Proof.
  intros H. unfold cut_postfix, oassert. destruct (Nat.leb_spec postfix_size (length key)); [reflexivity|lia].
Qed.

Lemma ekey'_long k : wf3 k -> (postfix_size <= length (ekey' k))%nat.
Proof. destruct k as [[e c] h]. intros W. rewrite (ekey'_length _ _ _ W). unfold postfix_size. lia. Qed.

Lemma take_ekey' k : wf3 k ->
  take (length (ekey' k) - postfix_size) (ekey' k) = cnr_pfx ++ enc (fst (fst k)) ++ snd (fst k).
Proof.
  intros W. pose proof (cut_ekey' k W) as H1. rewrite (cut_postfix_halt _ (ekey'_long k W)) in H1.
  by injection H1.
Qed.

Theorem elist_char st m e : eR st m ->
  exists l, elist st e = Halt l /\ NoDup l /\
    forall id, id ∈ l <->
      exists e' c h, is_Some (m !! (e', c, h)) /\ is_prefix (enc e) (enc e' ++ c ++ h) = true
                     /\ id = cnr_pfx ++ enc e' ++ c.
Proof.
  intros R. unfold elist.
  set (g := fun kv : bytes * bytes => take (length (fst kv) - postfix_size) (fst kv)).
  rewrite (omapM_halt _ g).
  2:{ intros [key v] [Hv _]%elem_of_sfind. cbn [fst].
      destruct (eR_shape _ _ R key (ex_intro _ v Hv)) as (k & W & ->).
      apply cut_postfix_halt, ekey'_long, W. }
  cbn [obind]. eexists. split; [reflexivity|]. split; [apply NoDup_dedup_first|].
  intros id. rewrite elem_of_dedup_first, elem_of_list_fmap. split.
  - intros [([key v] & -> & [Hv Hp]%elem_of_sfind) _].
    destruct (eR_shape _ _ R key (ex_intro _ v Hv)) as ([[e' c] h] & W & ->).
    exists e', c, h. split; [|split].
    + exists v. etrans; [symmetry; apply (eR_lookup _ _ R _ W)|exact Hv].
    + unfold ekey' in Hp. by rewrite is_prefix_app_l in Hp.
    + unfold g. cbn [fst]. apply (take_ekey' _ W).
  - intros (e' & c & h & [v Hm] & Hp & ->). split; [|apply not_elem_of_nil].
    assert (W : wf3 (e', c, h)) by (apply (eR_wf _ _ R); eauto).
    exists (ekey' (e', c, h), v). split.
    + unfold g. cbn [fst]. symmetry. apply (take_ekey' _ W).
    + apply elem_of_sfind. split; [etrans; [apply (eR_lookup _ _ R _ W)|exact Hm]|].
      unfold ekey'. by rewrite is_prefix_app_l.
Qed.

Theorem elist_exact_partial st m e : eR st m -> eall_ok m e ->
  exists l, elist st e = Halt l /\ NoDup l /\
    forall id, id ∈ l <-> exists c h, is_Some (m !! (e, c, h)) /\ id = cnr_pfx ++ enc e ++ c.
Proof.
  intros R Hok. destruct (elist_char st m e R) as (l & Hl & Hnd & Hel). exists l.
  split; [exact Hl|]. split; [exact Hnd|]. intros id. rewrite Hel. split.
  - intros (e' & c & h & Hs & Hp & ->). destruct (decide (e' = e)) as [->|Hne]; [eauto|].
    rewrite (Hok e' c h Hs Hne) in Hp. discriminate.
  - intros (c & h & Hs & ->). exists e, c, h. split; [exact Hs|]. split; [apply is_prefix_refl_app|reflexivity].
Qed.

(** IterateContainerSizes / GetContainerSize: one (epoch, cid). *)
Definition ecid_ok (m : espec) (e : Z) (c : bytes) : Prop :=
  forall e' c' h, is_Some (m !! (e', c', h)) -> (e', c') <> (e, c) ->
    is_prefix (enc e ++ c) (enc e' ++ c' ++ h) = false.

Theorem ecid_pairs_exact_partial st m e c : eR st m -> ecid_ok m e c ->
  forall key v, (key, v) ∈ sfind (cnr_pfx ++ enc e ++ c) st <->
                exists h, key = ekey' (e, c, h) /\ m !! (e, c, h) = Some v.
Proof.
  intros R Hok key v. rewrite elem_of_sfind. split.
  - intros [Hv Hp]. destruct (eR_shape _ _ R key (ex_intro _ v Hv)) as ([[e' c'] h] & W & ->).
    assert (Hm : m !! (e', c', h) = Some v) by (by rewrite <- (eR_lookup _ _ R _ W)).
    unfold ekey' in Hp. rewrite is_prefix_app_l in Hp.
    destruct (decide ((e', c') = (e, c))) as [[= -> ->]|Hne]; [eauto|].
    rewrite (Hok e' c' h) in Hp; [discriminate|eauto|done].
  - intros (h & -> & Hm). assert (W : wf3 (e, c, h)) by (apply (eR_wf _ _ R); eauto).
    split; [by rewrite (eR_lookup _ _ R _ W)|]. unfold ekey'. rewrite is_prefix_app_l, app_assoc.
    apply is_prefix_refl_app.
Qed.

Lemma ecid_ok_same_len (m : espec) e c : length c = cid_size ->
  (forall k, is_Some (m !! k) -> wf3 k) ->
  (forall e' c' h, is_Some (m !! (e', c', h)) -> length (enc e') = length (enc e)) -> ecid_ok m e c.
Proof.
  intros Hc Hwf H e' c' h Hs Hne. destruct (Hwf _ Hs) as [Hc' _]. cbn in Hc'.
  rewrite (app_assoc (enc e')).
  destruct (is_prefix (enc e ++ c) ((enc e' ++ c') ++ h)) eqn:E; [|reflexivity]. exfalso.
  apply is_prefix_same_len in E; [|rewrite !app_length, (H _ _ _ Hs); congruence].
  apply app_inj_1 in E as [E1 E2]; [|symmetry; eauto]. apply int_to_bytes_inj in E1. subst. by destruct Hne.
Qed.

(** The scan prefix "cnr" ++ epoch ++ cid fits the 64-byte limit for epochs of
    up to 29 bytes (a larger epoch makes the call fault). *)
Lemma ecid_key_ok e c : length c = cid_size ->
  key_ok (cnr_pfx ++ enc e ++ c) = (length (enc e) <=? 29)%nat.
Proof.
  intros Hc. unfold key_ok. rewrite !app_length, Hc. unfold cnr_pfx, cid_size. cbn [length].
  destruct (Nat.leb_spec (3 + (length (enc e) + 32)) 64), (Nat.leb_spec (length (enc e)) 29); lia.
Qed.

Lemma eiter_pairs st e c : length c = cid_size ->
  eiter st e c = if (length (enc e) <=? 29)%nat
                 then Halt (map snd (sfind (cnr_pfx ++ enc e ++ c) st)) else Fault.
Proof.
  intros Hc. unfold eiter, oassert, with_key. rewrite Hc, Nat.eqb_refl. cbn [obind].
  by rewrite (ecid_key_ok e c Hc).
Qed.

Lemma eget_pairs st e c : length c = cid_size ->
  eget st (cnr_pfx ++ enc e ++ c) =
  if (length (enc e) <=? 29)%nat
  then Halt (c, map snd (sfind (cnr_pfx ++ enc e ++ c) st)) else Fault.
Proof.
  intros Hc. unfold eget, oassert, with_key. rewrite (ecid_key_ok e c Hc).
  assert (Hl : length (cnr_pfx ++ enc e ++ c) = (3 + length (enc e) + cid_size)%nat)
    by (rewrite !app_length, Hc; reflexivity).
  rewrite Hl. destruct (Nat.leb_spec (3 + cid_size) (3 + length (enc e) + cid_size)) as [_|Hbad]; [|lia].
  rewrite (take_app_alt cnr_pfx) by reflexivity. rewrite bytes_eqb_refl. cbn [andb obind].
  destruct (length (enc e) <=? 29)%nat; cbn [obind]; [|reflexivity].
  f_equal. f_equal. rewrite app_assoc. apply drop_app_alt. rewrite app_length.
  unfold cnr_pfx. cbn [length]. lia.
Qed.

(** Access. *)
Lemma estep_access d1 d2 cap s live wit prev e c size pub h20 :
  snd (estep d1 d2 cap s (EPut live wit prev e c size pub h20)) = VNull ->
  c ∈ live /\ pub ∈ wit /\ pub ∈ prev.
Proof.
  unfold estep. cbn [eexec]. destruct (eput d1 cap s live wit prev e c size pub h20) eqn:E; [|discriminate].
  intros _. apply eput_halt in E as (? & ? & ? & _). auto.
Qed.

Lemma etick_access d1 d2 cap s a n : snd (estep d1 d2 cap s (ETick a n)) = VNull -> a = true.
Proof.
  unfold estep. cbn [eexec]. destruct (etick d2 s a n) eqn:E; [|discriminate].
  intros _. by apply etick_halt in E as [-> _].
Qed.

(** * One more operation from a reachable state, read on the storage *)
Section Step.
Variables (d1 d2 : Z) (cap : list Z -> bool).
Hypothesis Hd1 : 0 <= d1.

Lemma enodes_app ops1 ops2 : enodes (ops1 ++ ops2) = enodes ops1 ++ enodes ops2.
Proof. unfold enodes. apply omap_app. Qed.

Lemma ehist_ok_app_l ops1 ops2 : ehist_ok (ops1 ++ ops2) -> ehist_ok ops1.
Proof.
  intros [Hwf Hinj]. apply Forall_app in Hwf as [Hwf _]. split; [exact Hwf|].
  intros h h' Hh Hh'. apply Hinj; rewrite enodes_app; apply elem_of_app; by left.
Qed.

Lemma erun_snoc ops o : erun d1 d2 cap (ops ++ [o]) = fst (estep d1 d2 cap (erun d1 d2 cap ops) o).
Proof. unfold erun. by rewrite fold_left_app. Qed.

Theorem storage_step_exact ops o s' : ehist_ok (ops ++ [o]) ->
  eexec d1 d2 cap (erun d1 d2 cap ops) o = Halt s' ->
  forall k, wf3 k ->
    ests s' !! ekey' k = spec_estep d1 d2 (spec_erun d1 d2 cap ops) o !! k /\
    ests (erun d1 d2 cap ops) !! ekey' k = spec_erun d1 d2 cap ops !! k.
Proof.
  intros Hok He k W.
  pose proof (estim_refines d1 d2 cap Hd1 _ Hok) as R'.
  pose proof (estim_refines d1 d2 cap Hd1 _ (ehist_ok_app_l _ _ Hok)) as R.
  rewrite erun_snoc, estep_fst, spec_erun_snoc, He in R'.
  split; [exact (eR_lookup _ _ R' k W)|exact (eR_lookup _ _ R k W)].
Qed.

(** An accepted tick [n], from every reachable state: exactly the entries
    with [n - epoch > d2] disappear, nothing else changes. *)
Theorem tick_storage_exact ops a n s' : ehist_ok ops ->
  eexec d1 d2 cap (erun d1 d2 cap ops) (ETick a n) = Halt s' ->
  forall e c h, length c = cid_size -> length h = postfix_size ->
    ests s' !! ekey' (e, c, h) =
    if n - e >? d2 then None else ests (erun d1 d2 cap ops) !! ekey' (e, c, h).
Proof.
  intros [Hwf Hinj] He e c h Hc Hh.
  assert (Hok : ehist_ok (ops ++ [ETick a n])).
  { split; [apply Forall_app; split; [exact Hwf|by repeat constructor]|].
    rewrite enodes_app. cbn. rewrite app_nil_r. exact Hinj. }
  destruct (storage_step_exact ops _ s' Hok He (e, c, h)) as [H1 H2]; [by split|].
  rewrite H1, H2. apply spec_tick_lookup.
Qed.

(** An accepted estimation of node [h20] for (e, c), from every reachable
    state: its entry is stored, exactly the node's own entries for [c] with
    [e - epoch > d1] disappear, nothing else changes. *)
Theorem put_storage_exact ops live wit prev e c size pub h20 s' :
  ehist_ok (ops ++ [EPut live wit prev e c size pub h20]) ->
  eexec d1 d2 cap (erun d1 d2 cap ops) (EPut live wit prev e c size pub h20) = Halt s' ->
  forall e' c' h', length c' = cid_size -> length h' = postfix_size ->
    ests s' !! ekey' (e', c', h') =
    if decide ((e', c', h') = (e, c, take postfix_size h20)) then Some (enc_est pub size)
    else if decide (c' = c /\ h' = take postfix_size h20 /\ e - e' > d1) then None
    else ests (erun d1 d2 cap ops) !! ekey' (e', c', h').
Proof.
  intros Hok He e' c' h' Hc Hh.
  destruct (storage_step_exact ops _ s' Hok He (e', c', h')) as [H1 H2]; [by split|].
  rewrite H1, H2. apply spec_put_lookup.
Qed.
End Step.
