(** Proofs/Artifacts.v — decision procedures for the statements of Props/C15.v
    over the regenerated tables of Gen/Abi.v, Gen/Params.v, Gen/Artifacts.v,
    each with its soundness lemma (boolean check = true -> the Prop-level
    specification).  Only the Coq standard library is used.

    Bulk byte strings ([file] = length * rows of primitive 63-bit words) are
    compared in Props/C15.v by *conversion* ([vm_compute; reflexivity] on a
    Leibniz equality), which needs nothing but the primitive type [Uint63.int].
    A boolean comparison [words_eqb] is provided as well; its soundness lemma
    rests on the standard library's [Uint63.eqb_correct], which the library
    itself declares as an axiom about the kernel primitive [Uint63.eqb] — for
    that reason Props/C15.v does not use it. *)
From Coq Require Import ZArith List String Bool Uint63 DecimalString Lia.
Import ListNotations.
From Verif Require Import Gen.Abi.
Local Open Scope string_scope.

(* ------------------------------------------------------------------ *)
(** * Small generic pieces *)

Definition mem (s : string) (l : list string) : bool := existsb (String.eqb s) l.

Lemma mem_In s l : mem s l = true <-> In s l.
Proof.
  unfold mem. rewrite existsb_exists. split.
  - intros (x & Hx & He). apply String.eqb_eq in He. now subst.
  - intro H. exists s. split; [exact H|apply String.eqb_refl].
Qed.

Lemma mem_false_In s l : mem s l = false <-> ~ In s l.
Proof.
  split.
  - intros Hf Hin. apply mem_In in Hin. congruence.
  - intro Hn. destruct (mem s l) eqn:E; [|reflexivity]. apply mem_In in E. contradiction.
Qed.

Fixpoint nodup_b (l : list string) : bool :=
  match l with [] => true | x :: t => negb (mem x t) && nodup_b t end.

Lemma nodup_b_sound l : nodup_b l = true -> NoDup l.
Proof.
  induction l as [|x t IH]; intro H; [constructor|].
  cbn in H. apply andb_true_iff in H as [H1 H2]. constructor.
  - apply negb_true_iff in H1. now apply mem_false_In.
  - auto.
Qed.

Definition same_set_b (a b : list string) : bool :=
  forallb (fun x => mem x b) a && forallb (fun x => mem x a) b.

Lemma same_set_b_sound a b : same_set_b a b = true -> forall x, In x a <-> In x b.
Proof.
  unfold same_set_b. intro H. apply andb_true_iff in H as [H1 H2].
  rewrite forallb_forall in H1, H2. intro x. split; intro Hx.
  - apply mem_In. auto.
  - apply mem_In. auto.
Qed.

(** Bulk comparison (not used by Props/C15.v, see the header). *)
Fixpoint list_eqb {A} (e : A -> A -> bool) (a b : list A) : bool :=
  match a, b with
  | [], [] => true
  | x :: a', y :: b' => e x y && list_eqb e a' b'
  | _, _ => false
  end.

Lemma list_eqb_sound {A} (e : A -> A -> bool) (He : forall x y, e x y = true -> x = y) :
  forall a b, list_eqb e a b = true -> a = b.
Proof.
  induction a as [|x a IH]; destruct b as [|y b]; cbn; intro H; try discriminate; [reflexivity|].
  apply andb_true_iff in H as [H1 H2]. f_equal; auto.
Qed.

Definition words_eqb (a b : Z * list (list int)) : bool :=
  Z.eqb (fst a) (fst b) && list_eqb (list_eqb Uint63.eqb) (snd a) (snd b).

Lemma words_eqb_sound a b : words_eqb a b = true -> a = b.
Proof.
  destruct a as [la wa], b as [lb wb]. unfold words_eqb. cbn [fst snd]. intro H.
  apply andb_true_iff in H as [H1 H2]. apply Z.eqb_eq in H1.
  apply (list_eqb_sound _ (list_eqb_sound _ Uint63.eqb_correct)) in H2. congruence.
Qed.

(* ------------------------------------------------------------------ *)
(** * Manifest: safe flags = safemethods of config.yml *)

Definition safe_spec (ms : list method) (safe : list string) : Prop :=
  (forall m, In m ms -> (m_safe m = true <-> In (m_name m) safe)) /\
  (forall s, In s safe -> exists m, In m ms /\ m_name m = s).

Definition safe_ok (ms : list method) (safe : list string) : bool :=
  forallb (fun m => Bool.eqb (m_safe m) (mem (m_name m) safe)) ms &&
  forallb (fun s => existsb (fun m => String.eqb (m_name m) s) ms) safe.

Lemma safe_ok_sound ms safe : safe_ok ms safe = true -> safe_spec ms safe.
Proof.
  unfold safe_ok, safe_spec. intro H. apply andb_true_iff in H as [H1 H2].
  rewrite forallb_forall in H1, H2. split.
  - intros m Hm. specialize (H1 m Hm). apply Bool.eqb_prop in H1. rewrite H1. apply mem_In.
  - intros s Hs. specialize (H2 s Hs). apply existsb_exists in H2 as (m & Hm & He).
    apply String.eqb_eq in He. eauto.
Qed.

(* ------------------------------------------------------------------ *)
(** * RPC bindings *)

Definition arity (m : method) : Z := Z.of_nat (List.length (m_params m)).

(** Call forms that read (test invocation) as opposed to building a transaction. *)
Definition is_reader (via : string) : bool := mem via ["Call"; "CallAndExpandIterator"].

(** Which [unwrap.X] decoders of neo-go's rpcclient/unwrap accept a stack
    item of a given manifest return type.  [unwrap.Item] passes any single
    item on (the generated itemToX converters take over). *)
Definition unwrap_table : list (string * list string) :=
  [ ("Boolean", ["Bool"]); ("Integer", ["BigInt"]); ("ByteArray", ["Bytes"]);
    ("String", ["UTF8String"]); ("Hash160", ["Uint160"]); ("Hash256", ["Uint256"]);
    ("PublicKey", ["PublicKey"]); ("Signature", ["Bytes"]);
    ("Array", ["Array"; "ArrayOfBytes"; "ArrayOfUTF8Strings"; "ArrayOfBigInts"; "ArrayOfBools";
               "ArrayOfUint160"; "ArrayOfUint256"; "ArrayOfPublicKeys"]);
    ("Map", ["Map"]); ("InteropInterface", ["SessionIterator"]); ("Any", []); ("Void", ["Nothing"]) ].

Fixpoint lookup (k : string) (t : list (string * list string)) : list string :=
  match t with [] => [] | (k', v) :: r => if String.eqb k k' then v else lookup k r end.

Definition unwrap_ok (ret via u : string) : bool :=
  if String.eqb via "CallAndExpandIterator" then String.eqb ret "InteropInterface" && String.eqb u "Array"
  else if String.eqb via "Call" then
    (if String.eqb u "Item" then negb (String.eqb ret "Void") else mem u (lookup ret unwrap_table))
  else String.eqb u "".

(** A binding call is right when the manifest has a method of that name and
    arity, the result decoder fits the return type, and safe methods — and
    only they — are reached through the read-only invoker. *)
Definition call_spec (ms : list method) (k : call) : Prop :=
  exists m, In m ms /\ m_name m = c_method k /\ arity m = c_nargs k /\
            unwrap_ok (m_ret m) (c_via k) (c_unwrap k) = true /\ is_reader (c_via k) = m_safe m.

Definition call_ok (ms : list method) (k : call) : bool :=
  existsb (fun m => String.eqb (m_name m) (c_method k) && Z.eqb (arity m) (c_nargs k) &&
                    unwrap_ok (m_ret m) (c_via k) (c_unwrap k) && Bool.eqb (is_reader (c_via k)) (m_safe m)) ms.

Lemma call_ok_sound ms k : call_ok ms k = true -> call_spec ms k.
Proof.
  unfold call_ok, call_spec. intro H. apply existsb_exists in H as (m & Hm & H).
  repeat (apply andb_true_iff in H as [H ?]). exists m.
  repeat split; auto.
  - now apply String.eqb_eq.
  - now apply Z.eqb_eq.
  - now apply Bool.eqb_prop.
Qed.

(** Methods the generator leaves to the nep17/nep11 client packages (when the
    manifest declares the standard) or never wraps (payment callbacks,
    [_deploy], [_initialize]): neo-go pkg/smartcontract/rpcbinding.Generate and
    binding.TemplateFromManifest, by name and arity. *)
Definition std_methods (std : string) : list (string * Z) :=
  if String.eqb std "NEP-17" then
    [("symbol", 0); ("decimals", 0); ("totalSupply", 0); ("balanceOf", 1); ("transfer", 4)]%Z
  else if String.eqb std "NEP-11" then
    [("symbol", 0); ("decimals", 0); ("totalSupply", 0); ("balanceOf", 1); ("tokensOf", 1);
     ("transfer", 3); ("ownerOf", 1); ("properties", 1); ("tokens", 0); ("balanceOf", 2); ("transfer", 5)]%Z
  else [].
Definition payable_methods : list (string * Z) := [("onNEP17Payment", 3); ("onNEP11Payment", 4)]%Z.

Definition memp (p : string * Z) (l : list (string * Z)) : bool :=
  existsb (fun q => String.eqb (fst p) (fst q) && Z.eqb (snd p) (snd q)) l.

Definition covered (stds : list string) (m : method) : bool :=
  negb (String.prefix "_" (m_name m)) &&
  negb (memp (m_name m, arity m) (flat_map std_methods stds ++ payable_methods)).

Definition has_call (cs : list call) (m : method) (vias : list string) : bool :=
  existsb (fun k => String.eqb (c_method k) (m_name m) && Z.eqb (c_nargs k) (arity m) && mem (c_via k) vias) cs.

Lemma has_call_spec cs m vias : has_call cs m vias = true ->
  exists k, In k cs /\ c_method k = m_name m /\ c_nargs k = arity m /\ In (c_via k) vias.
Proof.
  unfold has_call. intro H. apply existsb_exists in H as (k & Hk & H).
  repeat (apply andb_true_iff in H as [H ?]). exists k. repeat split; auto.
  - now apply String.eqb_eq.
  - now apply Z.eqb_eq.
  - now apply mem_In.
Qed.

(** A safe method has a reader wrapper; any other method has the three
    transaction wrappers (send / make / make unsigned), possibly through an
    assert-script builder. *)
Definition bound (cs : list call) (m : method) : bool :=
  if m_safe m then has_call cs m ["Call"]
  else has_call cs m ["SendCall"; "CreateCallWithAssertScript"] &&
       has_call cs m ["MakeCall"; "CreateCallWithAssertScript"] &&
       has_call cs m ["MakeUnsignedCall"; "CreateCallWithAssertScript"].

Definition bindings_spec (a : abi) (cs : list call) : Prop :=
  (forall k, In k cs -> call_spec (abi_methods a) k) /\
  (forall m, In m (abi_methods a) -> covered (abi_standards a) m = true -> bound cs m = true).

Definition bindings_ok (a : abi) (cs : list call) : bool :=
  forallb (call_ok (abi_methods a)) cs &&
  forallb (fun m => implb (covered (abi_standards a) m) (bound cs m)) (abi_methods a).

Lemma bindings_ok_sound a cs : bindings_ok a cs = true -> bindings_spec a cs.
Proof.
  unfold bindings_ok, bindings_spec. intro H. apply andb_true_iff in H as [H1 H2].
  rewrite forallb_forall in H1, H2. split.
  - intros k Hk. apply call_ok_sound. auto.
  - intros m Hm Hc. specialize (H2 m Hm). rewrite Hc in H2. exact H2.
Qed.

(* ------------------------------------------------------------------ *)
(** * Deployment order *)

(** [b] occurs strictly before [a] in [l]. *)
Definition precedes (l : list string) (b a : string) : Prop :=
  exists l1 l2 l3 : list string, l = (l1 ++ b :: l2 ++ a :: l3)%list.

Fixpoint before (l : list string) (b a : string) : bool :=
  match l with
  | [] => false
  | x :: t => if String.eqb x b then mem a t else before t b a
  end.

Lemma before_sound l b a : before l b a = true -> precedes l b a.
Proof.
  induction l as [|x t IH]; cbn; intro H; [discriminate|].
  destruct (String.eqb x b) eqn:E.
  - apply String.eqb_eq in E. subst x. apply mem_In in H. apply in_split in H as (l2 & l3 & ->).
    exists [], l2, l3. reflexivity.
  - destruct (IH H) as (l1 & l2 & l3 & ->). exists (x :: l1), l2, l3. reflexivity.
Qed.

Definition topo_spec (l : list string) (edges : list (string * string)) : Prop :=
  forall a b, In (a, b) edges -> precedes l b a.

Definition topo_ok (l : list string) (edges : list (string * string)) : bool :=
  forallb (fun e => before l (snd e) (fst e)) edges.

Lemma topo_ok_sound l edges : topo_ok l edges = true -> topo_spec l edges.
Proof.
  unfold topo_ok, topo_spec. intros H a b Hin. rewrite forallb_forall in H.
  apply before_sound. exact (H (a, b) Hin).
Qed.

(* ------------------------------------------------------------------ *)
(** * Version *)

Definition dec (z : Z) : string := NilZero.string_of_uint (N.to_uint (Z.to_N z)).

Definition version_string (major minor patch : Z) : string :=
  "v" ++ dec major ++ "." ++ dec minor ++ "." ++ dec patch.

Definition version_number (major minor patch : Z) : Z :=
  (major * 1000000 + minor * 1000 + patch)%Z.

Definition optZ_eqb (a : option Z) (z : Z) : bool :=
  match a with Some x => Z.eqb x z | None => false end.

Lemma optZ_eqb_sound a z : optZ_eqb a z = true -> a = Some z.
Proof. destruct a as [x|]; cbn; intro H; [|discriminate]. apply Z.eqb_eq in H. now subst. Qed.

(* ------------------------------------------------------------------ *)
(** * Lifting a check over a table *)

Lemma forallb_In {A} (f : A -> bool) (P : A -> Prop) (l : list A) :
  (forall x, f x = true -> P x) -> forallb f l = true -> forall x, In x l -> P x.
Proof. intros Hs H x Hx. rewrite forallb_forall in H. auto. Qed.

(** [Forall P l] for a closed table [l] whose every instance of [P] holds by
    computation: one kernel-VM conversion per row. *)
Ltac forall_rows :=
  repeat (apply Forall_cons; [vm_compute; reflexivity|]); apply Forall_nil.
