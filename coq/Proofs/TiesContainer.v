(** Proofs/TiesContainer.v — ties between the literals of Model/Container.v and
    Spec/Registry.v (properties C04, C05) and the constants of the Go sources as
    extracted into Gen/Params.v (regenerated from /repo's working tree on every
    run).  A constant edited in the source breaks the lemma that names it.

    Model/Container.v keeps one typed finite map per storage prefix, so the
    prefixes 'x' (containerKeyPrefix), 'o' (ownerKeyPrefix), 'd'
    (deletedKeyPrefix), 'm' (containersWithMetaPrefix), "eACL" (eACLPrefix),
    "nnsHasAlias" (nnsHasAliasKey) and the key "nnsRoot" (nnsRootKey) occur in
    it only in comments: nothing to tie.  Its NNS slice has TXT records only
    (recordtype.TXT is not a number of the model) and leaves out the SOA record
    (defaultRefresh, defaultRetry, defaultTTL, "ops@nspcc.ru").

    Named definitions are tied directly; inline literals ([16%N :: cid] of
    [put_named], the length limits of the NNS slice, [* 1000] of
    [nns_register], [25] of [add_key], [32] of [set_eacl] / [eacl_cid]) are
    tied through closed observable terms: the result of the model's own
    functions on a small concrete world whose inputs are built from the
    extracted constants.

    Literals that are inline in Go function bodies as well ([dot], the offsets
    of [owner_of_blob] and [wallet_to_sh], the character classes of
    [is_alnum] / [is_lower] / the hyphen) are tied to the per-function literal
    lists of Gen/Params.v (p_<pkg>_<func>_{int,str}lits: the literals of the
    function body in source order), see the last section.
    Platform constants (not in /repo): Hash160 length 20 ([nns_register],
    interop.Hash160Len), public key length 33 ([add_key], [put_named],
    [set_eacl]: interop.PublicKeyCompressedLen / manifest type PublicKey),
    Hash256 length 32 of the PutSuccess event ([put_named], manifest type
    Hash256). *)
From Coq Require Import ZArith NArith List String.
Import ListNotations.
From Verif Require Import Base.Prelude Base.IntCodec Gen.Params Model.Balance Model.Container
  Spec.Registry Proofs.TiesLib.
Local Open Scope Z_scope.

(** * Named definitions *)

(** containerconst.RegistrationFeeKey = "ContainerFee" *)
Lemma tie_key_fee : key_fee = bytes_of_string p_containerconst_RegistrationFeeKey.
Proof. reflexivity. Qed.

(** containerconst.AliasFeeKey = "ContainerAliasFee" *)
Lemma tie_key_alias_fee : key_alias_fee = bytes_of_string p_containerconst_AliasFeeKey.
Proof. reflexivity. Qed.

(** nnsDefaultTLD = "container" *)
Lemma tie_default_root : default_root = bytes_of_string p_container_nnsDefaultTLD.
Proof. reflexivity. Qed.

(** defaultExpire = 3600 * 24 * 365 * 10 *)
Lemma tie_default_expire : default_expire = p_container_defaultExpire.
Proof. reflexivity. Qed.

(** * A small concrete world *)

Definition a_ (n : Z) : bytes := repeat 97%N (Z.to_nat n).          (* "aaa...a" *)
Definition accepts {A} (r : nres A) : bool := match r with NOk _ => true | _ => false end.
Definition halts {A} (o : outcome A) : bool := match o with Halt _ => true | Fault => false end.

Definition CID : bytes := repeat 7%N 32.
Definition cid_c (_ : bytes) : bytes := CID.                        (* stands for SHA-256 *)
Definition b58_c (b : bytes) : bytes := b.                          (* stands for Base58 *)
Definition FROM : bytes := repeat 1%N 20.
Definition OWNER : bytes := 53%N :: FROM ++ repeat 0%N 4.
Definition BLOB : bytes := repeat 0%N 6 ++ OWNER.                   (* version field of length 0 *)
Definition PUB : bytes := repeat 2%N 33.
Definition NODE : bytes := repeat 3%N 20.
Definition SELF : bytes := repeat 9%N 20.
Definition cx : cctx := mkCC true [NODE] 5 [] [] SELF.

(** Netmap configuration under the keys of the source: fee 2, alias fee 3. *)
Definition cfg0 : gmap bytes Z :=
  <[bytes_of_string p_containerconst_AliasFeeKey := 3]>
    (<[bytes_of_string p_containerconst_RegistrationFeeKey := 2]> ∅).
Definition funded : bstate := fst (fst (bstep binit (mkCtx [] true, Mint FROM 100 []))).
(** NNS with the TLD of the source's [nnsDefaultTLD], committee-owned, live. *)
Definition TLD : bytes := bytes_of_string p_container_nnsDefaultTLD.
Definition ns0 : nstate :=
  mkN ({[TLD]} : gset bytes) (<[TLD := mkName [] 1000000]> ∅) ∅.
Definition w0 : world := mkW (cinit TLD) funded cfg0 ns0 ∅.

Definition ABC : bytes := a_ 3.
Definition DOMAIN : bytes := ABC ++ dot :: TLD.

(** The TransferX notifications of one step: (amount, details). *)
Definition fees_of (r : world * val * list wnotif) : list (Z * bytes) :=
  flat_map (fun n => match n with NBal (NTransferX _ _ a d) => [(a, d)] | _ => [] end) (snd r).
Definition world_of (r : world * val * list wnotif) : world := fst (fst r).

(** * Inline literals of the container part *)

(** common.containerFeePrefix = {0x10}: ContainerFeeTransferDetails(cid); the fee
    is read under RegistrationFeeKey. *)
Lemma tie_container_fee_prefix :
  fees_of (wstep cid_c b58_c w0 (cx, Put BLOB [] PUB []))
  = [(2, bytes_of_zs p_common_containerFeePrefix ++ CID)].
Proof. vm_compute. reflexivity. Qed.

(** ... with a name the alias fee is read under AliasFeeKey and added. *)
Lemma tie_container_fee_prefix_named :
  fees_of (wstep cid_c b58_c w0 (cx, PutNamed BLOB [] PUB [] ABC []))
  = [(2 + 3, bytes_of_zs p_common_containerFeePrefix ++ CID)].
Proof. vm_compute. reflexivity. Qed.

(** PutNamed registers the domain in the zone stored at deployment for
    defaultExpire seconds (nns: [GetTime() + expire*millisecondsInSecond]). *)
Lemma tie_put_named_expiration :
  n_exp <$> (names (w_n (world_of (wstep cid_c b58_c w0 (cx, PutNamed BLOB [] PUB [] ABC [])))) !! DOMAIN)
  = Some (x_now cx + p_container_defaultExpire * p_nns_millisecondsInSecond).
Proof. vm_compute. reflexivity. Qed.

(** neofsid.ownerSize = 25: the owner length check of neofsid.AddKey. *)
Lemma tie_add_key_owner_size :
  (halts (add_key cx ∅ (a_ p_neofsid_ownerSize) PUB),
   halts (add_key cx ∅ (a_ (p_neofsid_ownerSize + 1)) PUB)) = (true, false).
Proof. vm_compute. reflexivity. Qed.

(** containerIDSize = 32: the container id cut out of an eACL table (SetEACL). *)
Definition EACL : bytes := repeat 0%N 6 ++ map N.of_nat (seq 1 40).
Definition ECID : bytes := take (Z.to_nat p_container_containerIDSize) (drop 6 EACL).
Definition w_e : world :=
  mkW (add_container (cinit TLD) ECID OWNER (mkCnr BLOB [] PUB [])) binit ∅ ns0 ∅.

Lemma tie_container_id_size_set_eacl :
  snd (wstep cid_c b58_c w_e (cx, SetEACL EACL [] PUB [])) = [NEacl ECID PUB].
Proof. vm_compute. reflexivity. Qed.

(** ... and the same cut in Spec/Registry.v. *)
Lemma tie_container_id_size_eacl_cid : eacl_cid EACL = Some ECID.
Proof. vm_compute. reflexivity. Qed.

(** * Inline literals of the NNS slice *)

(** nns.maxRootLength = 16 *)
Lemma tie_max_root_length :
  (check_fragment (a_ p_nns_maxRootLength) true,
   check_fragment (a_ (p_nns_maxRootLength + 1)) true) = (true, false).
Proof. vm_compute. reflexivity. Qed.

(** nns.maxDomainNameFragmentLength = 63 *)
Lemma tie_max_fragment_length :
  (check_fragment (a_ p_nns_maxDomainNameFragmentLength) false,
   check_fragment (a_ (p_nns_maxDomainNameFragmentLength + 1)) false) = (true, false).
Proof. vm_compute. reflexivity. Qed.

(** nns.minDomainNameLength = 3 *)
Lemma tie_min_domain_name_length :
  (accepts (split_and_check (a_ p_nns_minDomainNameLength)),
   accepts (split_and_check (a_ (p_nns_minDomainNameLength - 1)))) = (true, false).
Proof. vm_compute. reflexivity. Qed.

(** nns.maxDomainNameLength = 255: a name of [n] bytes, "aa..a" followed by a
    hundred fragments ".a". *)
Definition long_name (n : Z) : bytes := a_ (n - 200) ++ concat (repeat [dot; 97%N] 100).

Lemma tie_max_domain_name_length :
  (accepts (split_and_check (long_name p_nns_maxDomainNameLength)),
   accepts (split_and_check (long_name (p_nns_maxDomainNameLength + 1)))) = (true, false).
Proof. vm_compute. reflexivity. Qed.

(** nns.millisecondsInSecond = 1000: Expiration of a registered name. *)
Lemma tie_ms_in_second :
  (fun r => n_exp <$> (names (fst r) !! DOMAIN))
    <$> (match nns_register 5 [SELF] [] ns0 DOMAIN SELF 7 with NOk r => Some r | _ => None end)
  = Some (Some (5 + 7 * p_nns_millisecondsInSecond)).
Proof. vm_compute. reflexivity. Qed.

(** The NNS state with DOMAIN registered to SELF and [n] TXT records on it. *)
Definition ns_recs (n : Z) : nstate :=
  mkN (roots ns0) (<[DOMAIN := mkName SELF 1000000]> (names ns0))
      (<[(DOMAIN, DOMAIN) := map (fun i => [N.of_nat i]) (seq 0 (Z.to_nat n))]> ∅).

(** nns.maxTXTRecordLength = 255 *)
Lemma tie_max_txt_record_length :
  (accepts (nns_add_record 5 [SELF] [] (ns_recs 0) DOMAIN (a_ p_nns_maxTXTRecordLength)),
   accepts (nns_add_record 5 [SELF] [] (ns_recs 0) DOMAIN (a_ (p_nns_maxTXTRecordLength + 1))))
  = (true, false).
Proof. vm_compute. reflexivity. Qed.

(** nns.maxRecordID = 15: [if id > maxRecordID] with id = number of records. *)
Lemma tie_max_record_id :
  (accepts (nns_add_record 5 [SELF] [] (ns_recs p_nns_maxRecordID) DOMAIN [200%N]),
   accepts (nns_add_record 5 [SELF] [] (ns_recs (p_nns_maxRecordID + 1)) DOMAIN [200%N]))
  = (true, false).
Proof. vm_compute. reflexivity. Qed.

(** * Literals written inline in Go function bodies *)

(** "." : std.StringSplit(name, ".") in nns.safeSplitAndCheck and [name + "." + zone] in
    container.PutNamed. *)
Lemma tie_dot :
  [dot] = bytes_of_string (nth 0 p_nns_safeSplitAndCheck_strlits EmptyString) /\
  [dot] = bytes_of_string (nth 2 p_container_PutNamed_strlits EmptyString).
Proof. split; vm_compute; reflexivity. Qed.

(** ownerFromBinaryContainer: [offset := int(container[1]); offset = 2 + offset + 4;
    container[offset : offset+25]] — literals [1; 2; 4; 25] in source order. *)
Definition blob60 : bytes := 0%N :: 3%N :: map N.of_nat (seq 2 58).
Lemma tie_owner_of_blob :
  let l := p_container_ownerFromBinaryContainer_intlits in
  let v := Z.of_N (nth (Z.to_nat (nth 0 l 0)) blob60 0%N) in
  owner_of_blob blob60
  = Halt (take (Z.to_nat (nth 3 l 0)) (drop (Z.to_nat (nth 1 l 0 + v + nth 2 l 0)) blob60))
  /\ length l = 4%nat /\ nth 3 l 0 = p_neofsid_ownerSize.
Proof. repeat split; vm_compute; reflexivity. Qed.

(** common.WalletToScriptHash: [wallet[1 : len(wallet)-4]] — literals [1; 4]. *)
Lemma tie_wallet_to_sh :
  let l := p_common_WalletToScriptHash_intlits in
  let w := map N.of_nat (seq 0 25) in
  wallet_to_sh w = take (length w - Z.to_nat (nth 1 l 0) - Z.to_nat (nth 0 l 0)) (drop (Z.to_nat (nth 0 l 0)) w)
  /\ length l = 2%nat.
Proof. split; vm_compute; reflexivity. Qed.

(** nns.isAlNum: ['a' <= c && c <= 'z' || '0' <= c && c <= '9'] — literals in source order;
    checked on every byte value. *)
Definition in_range (c : N) (lo hi : Z) : bool := (lo <=? Z.of_N c) && (Z.of_N c <=? hi).
Definition all_bytes : list N := map N.of_nat (seq 0 256).
Lemma tie_is_alnum :
  let l := p_nns_isAlNum_intlits in
  forallb (fun c => Bool.eqb (is_alnum c) (in_range c (nth 0 l 0) (nth 1 l 0) || in_range c (nth 2 l 0) (nth 3 l 0)))
          all_bytes = true /\ length l = 4%nat.
Proof. split; vm_compute; reflexivity. Qed.

(** nns.checkFragment: root fragments start with ['a'..'z'] (literals 2, 3 of the function),
    inner characters are alphanumeric or '-' (literal 6). *)
Lemma tie_check_fragment_chars :
  let l := p_nns_checkFragment_intlits in
  forallb (fun c => Bool.eqb (is_lower c) (in_range c (nth 2 l 0) (nth 3 l 0))) all_bytes = true /\
  forallb (fun c => Bool.eqb (check_fragment [c; 97%N] true) (in_range c (nth 2 l 0) (nth 3 l 0))) all_bytes = true /\
  forallb (fun c => Bool.eqb (check_fragment [97%N; c; 97%N] false) (is_alnum c || (Z.of_N c =? nth 6 l 0))) all_bytes = true.
Proof. repeat split; vm_compute; reflexivity. Qed.
