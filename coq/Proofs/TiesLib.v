(** Proofs/TiesLib.v — converters used by the Proofs/Ties<Family>.v files, which
    tie the constants hard-coded in the hand-written models to the values the
    translator reads from /repo's Go sources on every run (Gen/Params.v).
    Only the Coq standard library and Gen/Params.v are used. *)
From Coq Require Import ZArith NArith List String Ascii.
Import ListNotations.
From Verif Require Import Gen.Params.

(** A Go string / []byte constant as the models' [bytes] (= list N). *)
Definition bytes_of_string (s : string) : list N := map N_of_ascii (list_ascii_of_string s).
Definition bytes_of_zs (l : list Z) : list N := map Z.to_N l.
(** A Go byte / rune constant as one byte. *)
Definition byte_of_z (z : Z) : N := Z.to_N z.

(** Evaluation of the extracted integer expressions ([Params.texpr]) under an
    environment for variables and one for len(...) arguments.  Go's integer
    division truncates towards zero ([Z.quot]); on the non-negative operands
    of the vote thresholds it coincides with the flooring [Z.div] that some
    models use, so both evaluators are provided and a tie picks the one whose
    result is syntactically the model's expression. *)
Section Eval.
  Variable dv : Z -> Z -> Z.
  Variables (var len : string -> Z).
  Fixpoint teval_with (e : texpr) : Z :=
    match e with
    | TVar x => var x
    | TLen x => len x
    | TC z => z
    | TAdd a b => teval_with a + teval_with b
    | TSub a b => teval_with a - teval_with b
    | TMul a b => teval_with a * teval_with b
    | TDiv a b => dv (teval_with a) (teval_with b)
    end.
End Eval.
Definition teval_div := teval_with Z.div.
Definition teval_quot := teval_with Z.quot.

(** The expression mentions no other variable / len argument than these. *)
Fixpoint tvars (e : texpr) : list string :=
  match e with
  | TVar x => [x] | TLen x => [("len " ++ x)%string] | TC _ => []
  | TAdd a b | TSub a b | TMul a b | TDiv a b => tvars a ++ tvars b
  end.
