(** Proofs/NNSSyntaxRecord.v — lemmas for C18, part 6: the dispatch of
    checkRecord on the record type, and the summary statements. *)
From Verif Require Import Base.Prelude Model.NNSSyntax Spec.Grammar Proofs.NNSSyntaxLib
  Proofs.NNSSyntax Proofs.NNSSyntaxIP4 Proofs.NNSSyntaxIP6 Proofs.NNSSyntaxBool Proofs.NNSSyntaxF12.
From Coq Require Import ZifyBool ZifyNat ZifyN.
Local Open Scope Z_scope.

Lemma accepted_ok typ data :
  record_data_accepted typ data = true <-> record_data_ok typ data = Halt true.
Proof.
  unfold record_data_accepted, check_record_data.
  destruct (record_data_ok typ data) as [[|]|]; cbn; split; congruence.
Qed.

Lemma cname_ok data : record_data_ok 5 data = Halt true <-> name_accepted data = true.
Proof.
  unfold record_data_ok, name_accepted, splitAndCheck. cbn.
  destruct (safeSplitAndCheck data) as [[r|]|]; cbn; split; congruence.
Qed.

Lemma dispatch typ data :
  record_data_accepted typ data = true <->
  (typ = 1 /\ checkIPv4 data = Halt true) \/
  (typ = 5 /\ name_accepted data = true) \/
  (typ = 16 /\ len data <= 255) \/
  (typ = 28 /\ checkIPv6 data = Halt true).
Proof.
  rewrite accepted_ok.
  destruct (Z.eq_dec typ 1) as [->|H1].
  { change (record_data_ok 1 data) with (checkIPv4 data). intuition (try discriminate; try lia). }
  destruct (Z.eq_dec typ 5) as [->|H5].
  { rewrite cname_ok. intuition (try discriminate; try lia). }
  destruct (Z.eq_dec typ 16) as [->|H16].
  { change (record_data_ok 16 data) with (Halt (A:=bool) (len data <=? 255)).
    split.
    - intros [= H]. right; right; left. split; [reflexivity|lia].
    - intros [[? _]|[[? _]|[[_ H]|[? _]]]]; try discriminate. f_equal. lia. }
  destruct (Z.eq_dec typ 28) as [->|H28].
  { change (record_data_ok 28 data) with (checkIPv6 data). intuition (try discriminate; try lia). }
  unfold record_data_ok.
  replace (typ =? 1) with false by lia. replace (typ =? 5) with false by lia.
  replace (typ =? 16) with false by lia. replace (typ =? 28) with false by lia.
  intuition (try discriminate; try lia).
Qed.

Lemma unknown_type_faults typ data :
  typ <> 1 -> typ <> 5 -> typ <> 16 -> typ <> 28 ->
  record_data_ok typ data = Fault /\ check_record_data typ data = Fault.
Proof.
  intros H1 H5 H16 H28. unfold check_record_data, record_data_ok.
  replace (typ =? 1) with false by lia. replace (typ =? 5) with false by lia.
  replace (typ =? 16) with false by lia. replace (typ =? 28) with false by lia.
  split; reflexivity.
Qed.

(** Record data against the grammar. *)
Theorem record_data_equiv typ data :
  record_data_accepted typ data = true <-> valid_record_data typ data.
Proof.
  rewrite dispatch, ipv4_equiv, name_accepted_iff, ipv6_equiv. unfold valid_record_data, len.
  intuition (try lia).
Qed.

Lemma names_rejection s :
  ~ valid_name s <-> (safeSplitAndCheck s = Halt None \/ safeSplitAndCheck s = Fault).
Proof.
  rewrite <- names_equiv. destruct (safeSplitAndCheck s) as [[r|]|] eqn:E.
  - apply safeSplit_results in E as Hr. subst r. intuition discriminate.
  - intuition discriminate.
  - intuition discriminate.
Qed.

Lemma ipv6_rejection s :
  ~ valid_AAAA s <-> (checkIPv6 s = Halt false \/ checkIPv6 s = Fault).
Proof.
  rewrite <- ipv6_equiv. destruct (checkIPv6 s) as [[|]|]; intuition (try discriminate; eauto).
Qed.
