(** Proofs/TiesWitness.v — ties between the tables of Model/Witness.v (property
    C03) and what the translator reads from /repo's working tree on every run:
    the ABI compiled NOW from each contract's source (Gen/Abi.v, [abi_f_<name>]
    via [cabi_<name>]) and the threshold expressions and offsets of
    Gen/Params.v.  A method added, removed, renamed, given another arity, made
    safe / unsafe, or an argument moved to another position in the source
    breaks the lemma that checks it.

    Model/Witness.v keys its tables by [(contract, name, arity)] with [contract]
    an inductive; [cabi_of] below sends each constructor to its compiled ABI
    (checked against [contract_abis] and the contract directories).  The model
    has a row for EVERY non-safe method, the VM-only [_deploy] / [_initialize]
    included (requirement [RNever]), so there is no exempt list: the keys of
    [table] and the non-safe methods of the eleven ABIs are the same set.

    NOT TIED:
    - [hash_len20] = 20 (a script hash) and the "33 bytes" of a compressed
      public key: interop.Hash160Len / interop.PublicKeyCompressedLen of
      neo-go, platform constants that /repo only imports;
    - the field index 2 of [RKeyField 0 2] (netmap.addNode, Node.Key): a
      position in the declaration of type Node2
      (contracts/netmap/contract.go:32-44), not a constant; Gen/Params.v has
      no struct layouts;
    - the requirement of each row (which guard a method calls) is the content
      of the model itself, compared with the compiled contracts by the C03
      correspondence runs, not a constant of the source. *)
From Coq Require Import ZArith NArith List String Ascii Lia.
Import ListNotations.
From Verif Require Import Base.Prelude Base.IntCodec Gen.Params Gen.Abi Model.Witness Proofs.TiesLib.
Local Open Scope string_scope.

(* ------------------------------------------------------------------ *)
(** * The model's contracts are the compiled contracts *)

Definition all_contracts : list contract :=
  [KAlphabet; KAudit; KBalance; KContainer; KNeoFS; KNeoFSID; KNetmap; KNNS; KProcessing; KProxy; KReputation].

Definition cabi_of (k : contract) : contract_abi :=
  match k with
  | KAlphabet => cabi_alphabet | KAudit => cabi_audit | KBalance => cabi_balance
  | KContainer => cabi_container | KNeoFS => cabi_neofs | KNeoFSID => cabi_neofsid
  | KNetmap => cabi_netmap | KNNS => cabi_nns | KProcessing => cabi_processing
  | KProxy => cabi_proxy | KReputation => cabi_reputation
  end.
Definition fresh (k : contract) : abi := ca_fresh (cabi_of k).

Lemma all_contracts_complete k : In k all_contracts.
Proof. destruct k; simpl; tauto. Qed.

(** One constructor per contract directory of /repo/contracts, all of them,
    each sent to the ABI generated for that directory. *)
Lemma tie_contracts_dirs : map (fun k => ca_name (cabi_of k)) all_contracts = p_contract_dirs.
Proof. vm_compute. reflexivity. Qed.
Lemma tie_contracts_abis : map cabi_of all_contracts = contract_abis.
Proof. reflexivity. Qed.
(** Every one of them compiled. *)
Lemma tie_abis_compiled : forallb (fun k => abi_ok (fresh k)) all_contracts = true.
Proof. vm_compute. reflexivity. Qed.

(* ------------------------------------------------------------------ *)
(** * [table]: its keys are the non-safe methods of the compiled ABIs *)

Definition key_of (k : contract) (m : method) : mkey := (k, m_name m, length (m_params m)).
Definition has_key (k : mkey) (m : method) : bool :=
  let '(_, n, a) := k in String.eqb (m_name m) n && Nat.eqb (length (m_params m)) a.
Definition methods_of (k : mkey) : list method := abi_methods (fresh (fst (fst k))).

(** The non-safe methods of all compiled ABIs, as model keys. *)
Definition abi_keys : list mkey :=
  flat_map (fun k => map (key_of k) (List.filter (fun m => negb (m_safe m)) (abi_methods (fresh k)))) all_contracts.

Definition mem_key (k : mkey) (l : list mkey) : bool := existsb (mkey_eqb k) l.
Fixpoint nodup_keys (l : list mkey) : bool :=
  match l with [] => true | k :: l' => negb (mem_key k l') && nodup_keys l' end.

(** Every row of the table is a method of the compiled ABI (name and arity) ... *)
Lemma tie_table_keys_are_abi_methods :
  forallb (fun row => existsb (has_key (fst row)) (methods_of (fst row))) table = true.
Proof. vm_compute. reflexivity. Qed.
(** ... which the manifest does not mark safe ... *)
Lemma tie_table_keys_not_safe :
  forallb (fun row => negb (existsb (fun m => has_key (fst row) m && m_safe m) (methods_of (fst row)))) table = true.
Proof. vm_compute. reflexivity. Qed.
(** ... in short: *)
Lemma tie_table_keys_in_abi : forallb (fun row => mem_key (fst row) abi_keys) table = true.
Proof. vm_compute. reflexivity. Qed.

(** Conversely every non-safe method of every compiled ABI has a row (the
    model's own [check_cover] finds nothing missing). *)
Lemma tie_abi_covered_by_table :
  flat_map (fun k => match check_cover k with Some k' => [k'] | None => [] end) abi_keys = [].
Proof. vm_compute. reflexivity. Qed.

(** No key twice on either side, hence as many rows as non-safe methods. *)
Lemma tie_table_rows_count :
  nodup_keys (map fst table) = true /\ nodup_keys abi_keys = true /\ length table = length abi_keys.
Proof. vm_compute. repeat split; reflexivity. Qed.

(** [RNever] is the requirement of exactly the methods the VM refuses to call
    from outside: those whose ABI name starts with '_'. *)
Definition underscore (s : string) : bool :=
  match s with String c _ => Ascii.eqb c "_"%char | EmptyString => false end.
Lemma tie_never_rows :
  forallb (fun row => Bool.eqb (req_eqb (snd row) RNever) (underscore (snd (fst (fst row))))) table = true.
Proof. vm_compute. reflexivity. Qed.
Lemma tie_underscore_methods_never :
  forallb (fun k => match required k with
                    | Some r => Bool.eqb (req_eqb r RNever) (underscore (snd (fst k)))
                    | None => false end) abi_keys = true.
Proof. vm_compute. reflexivity. Qed.

(** The argument positions named by the requirements exist in the compiled
    method and have the ABI type the guard needs: a Hash160 for [RAddr], a
    PublicKey for [RKey], a ByteArray for a key cut out of a blob ([RKeyOfBlob],
    [RIRMember]: audit.put), an Array (struct) for [RKeyField]; [RArgNull] only
    needs the position. *)
Fixpoint req_positions (r : req) : list (nat * option string) :=
  match r with
  | RAddr i => [(i, Some "Hash160")]
  | RKey i => [(i, Some "PublicKey")]
  | RKeyOfBlob i _ | RIRMember i => [(i, Some "ByteArray")]
  | RKeyField i _ => [(i, Some "Array")]
  | RArgNull i => [(i, None)]
  | RNotaryOff a b | RAnd a b | ROr a b => req_positions a ++ req_positions b
  | _ => []
  end.
Definition position_ok (m : method) (p : nat * option string) : bool :=
  match nth_error (m_params m) (fst p), snd p with
  | Some (_, ty), Some want => String.eqb ty want
  | Some _, None => true
  | None, _ => false
  end.
Lemma tie_argument_positions :
  forallb (fun row =>
    match find (has_key (fst row)) (methods_of (fst row)) with
    | Some m => forallb (position_ok m) (req_positions (snd row))
    | None => false
    end) table = true.
Proof. vm_compute. reflexivity. Qed.

(** netmap.addPeer: the key is cut out of the blob at [nodeKeyOffset]
    (contracts/netmap/contract.go:88, used at :293). *)
Lemma tie_addPeer_key_offset :
  required (KNetmap, "addPeer", 1%nat) =
  Some (RAnd (RKeyOfBlob 0 (Z.to_nat p_netmap_nodeKeyOffset)) RAlpha).
Proof. vm_compute. reflexivity. Qed.

(* ------------------------------------------------------------------ *)
(** * The side lists are lists of non-safe ABI methods (hence of rows) *)

Lemma tie_open_rows : forallb (fun k => mem_key k abi_keys) open_rows = true.
Proof. vm_compute. reflexivity. Qed.
Lemma tie_silent_noops : forallb (fun k => mem_key k abi_keys) silent_noops = true.
Proof. vm_compute. reflexivity. Qed.
(** A method can refuse by returning [false] only if the ABI says it returns
    a Boolean. *)
Lemma tie_refuses_with_false :
  forallb (fun k => mem_key k abi_keys &&
                    match find (has_key k) (methods_of k) with
                    | Some m => String.eqb (m_ret m) "Boolean" | None => false end)
          refuses_with_false = true.
Proof. vm_compute. reflexivity. Qed.

(* ------------------------------------------------------------------ *)
(** * [verify_required]: the contracts with a (safe, nullary, Boolean)
    [verify] method in their compiled ABI *)
Definition is_verify (m : method) : bool :=
  String.eqb (m_name m) "verify" && Nat.eqb (length (m_params m)) 0 &&
  String.eqb (m_ret m) "Boolean" && m_safe m.
Lemma tie_verify_required :
  List.filter (fun k => match verify_required k with Some _ => true | None => false end) all_contracts =
  List.filter (fun k => existsb (fun m => String.eqb (m_name m) "verify") (abi_methods (fresh k))) all_contracts
  /\ forallb (fun k => match verify_required k with
                       | Some _ => existsb is_verify (abi_methods (fresh k)) | None => true end)
             all_contracts = true.
Proof. vm_compute. split; reflexivity. Qed.

(* ------------------------------------------------------------------ *)
(** * [Multisig]: the thresholds are the expressions of the source *)
Local Open Scope Z_scope.
Definition no_var (_ : string) : Z := 0.

(** common.Multiaddress(n, false), [RAlpha]: len(n)*2/3 + 1 (common/ir.go:69) *)
Lemma tie_alpha_m n :
  Z.of_nat (Multisig.alpha_m n) =
  teval_div no_var (fun _ => Z.of_nat n) p_common_Multiaddress_threshold_expr.
Proof. unfold Multisig.alpha_m. cbn -[Z.div Nat.div Z.mul Nat.mul Z.of_nat]. lia. Qed.
Lemma tie_alpha_m_vars : tvars p_common_Multiaddress_threshold_expr = ["len n"%string].
Proof. reflexivity. Qed.

(** neofs.multiaddress(keys), [RNeoFSAlpha]: len(keys)*2/3 + 1
    (contracts/neofs/contract.go:554), the same function of the list length. *)
Lemma tie_alpha_m_neofs n :
  Z.of_nat (Multisig.alpha_m n) =
  teval_div no_var (fun _ => Z.of_nat n) p_neofs_multiaddress_threshold_expr.
Proof. unfold Multisig.alpha_m. cbn -[Z.div Nat.div Z.mul Nat.mul Z.of_nat]. lia. Qed.
Lemma tie_alpha_m_neofs_vars : tvars p_neofs_multiaddress_threshold_expr = ["len keys"%string].
Proof. reflexivity. Qed.

(** common.Multiaddress(n, true), [RCommittee] / [RIRCommittee]: len(n)/2 + 1
    (common/ir.go:71) *)
Lemma tie_maj_m n :
  Z.of_nat (Multisig.maj_m n) =
  teval_div no_var (fun _ => Z.of_nat n) p_common_Multiaddress_threshold_2_expr.
Proof. unfold Multisig.maj_m. cbn -[Z.div Nat.div Z.mul Nat.mul Z.of_nat]. lia. Qed.
Lemma tie_maj_m_vars : tvars p_common_Multiaddress_threshold_2_expr = ["len n"%string].
Proof. reflexivity. Qed.

(** nns.checkCommittee: l - (l-1)/2 (contracts/nns/contract.go:872).  The
    model's subtraction on [nat] stops at 0 and Go's division truncates
    ([teval_quot]): both give 0 for an empty committee. *)
Lemma tie_nns_m n :
  Z.of_nat (Multisig.nns_m n) =
  teval_quot (fun _ => Z.of_nat n) no_var p_nns_checkCommittee_multisig_m_expr.
Proof. unfold Multisig.nns_m. cbn -[Z.quot Nat.div Z.mul Nat.mul Z.of_nat Z.sub Nat.sub]. lia. Qed.
Lemma tie_nns_m_vars : tvars p_nns_checkCommittee_multisig_m_expr = ["l"; "l"]%string.
Proof. reflexivity. Qed.

(** The model writes "n/2+1" for the NNS committee too ([RCommittee] covers
    nns.checkCommittee): the two expressions agree on every committee. *)
Lemma tie_nns_m_is_maj_m :
  forallb (fun n => Nat.eqb (Multisig.nns_m n) (Multisig.maj_m n)) (seq 1 255) = true.
Proof. vm_compute. reflexivity. Qed.
