(** Proofs/PlacementStore.v — generic lemmas about prefixes, [sfind], the
    delete/put loops and the integer codec, used by the roster proofs (C14).
    (Some of them restate lemmas of the C20 family's store library for the
    definitions of Model/Placement.v; this family is self-contained.) *)
From Verif Require Import Base.Prelude Base.IntCodec Model.Placement Proofs.PlacementVerify
  Proofs.PlacementCodec.
From Coq Require Import ZifyBool ZifyNat ZifyN.

(** * Prefixes *)

Lemma is_prefix_nil b : is_prefix [] b = true.
Proof. destruct b; reflexivity. Qed.

Lemma is_prefix_refl_app p r : is_prefix p (p ++ r) = true.
Proof. apply is_prefix_app. eauto. Qed.

Lemma is_prefix_app_l p a b : is_prefix (p ++ a) (p ++ b) = is_prefix a b.
Proof. induction p as [|x p IH]; simpl; [reflexivity|]. by rewrite N.eqb_refl, IH. Qed.

Lemma is_prefix_trans a b c : is_prefix a b = true -> is_prefix b c = true -> is_prefix a c = true.
Proof.
  intros [r ->]%is_prefix_app [r' ->]%is_prefix_app. rewrite <- app_assoc. apply is_prefix_refl_app.
Qed.

Lemma is_prefix_cons_ne x y p b : x <> y -> is_prefix (x :: p) (y :: b) = false.
Proof. intros Hne. simpl. destruct (N.eqb_spec x y); [contradiction|reflexivity]. Qed.

Lemma is_prefix_cons_same x p b : is_prefix (x :: p) (x :: b) = is_prefix p b.
Proof. simpl. by rewrite N.eqb_refl. Qed.

(** Two strings of the same length, one a prefix of an extension of the
    other, are equal. *)
Lemma is_prefix_same_len a b r : length a = length b -> is_prefix a (b ++ r) = true -> a = b.
Proof.
  intros Hl [r' Hr]%is_prefix_app.
  apply (f_equal (take (length a))) in Hr.
  rewrite take_app_alt in Hr by lia. rewrite take_app_alt in Hr by reflexivity. congruence.
Qed.

(** Different ids of the same length: no key lies under both. *)
Lemma prefix_cid_disjoint c c' (cid cid' k : bytes) :
  length cid = length cid' -> cid <> cid' ->
  is_prefix (c :: cid) k = true -> is_prefix (c' :: cid') k = true -> False.
Proof.
  intros Hl Hne [r ->]%is_prefix_app H2. simpl in H2.
  apply andb_true_iff in H2 as [_ H2]. apply Hne. symmetry. by eapply is_prefix_same_len.
Qed.

Lemma bytes_leb_app_l p a b : bytes_leb (p ++ a) (p ++ b) = bytes_leb a b.
Proof. induction p as [|x p IH]; simpl; [reflexivity|]. by rewrite N.ltb_irrefl, N.eqb_refl. Qed.

Lemma bytes_lt_app_l p a b : bytes_lt a b -> bytes_lt (p ++ a) (p ++ b).
Proof. intros [H N]. split; [by rewrite bytes_leb_app_l|]. intros He. by apply app_inv_head in He. Qed.

(** * [sfind] *)

Lemma sfind_keys_gen (p : bytes) (s : store) (l : list bytes) :
  (forall k, k ∈ l -> is_Some (s !! k)) ->
  map fst (omap (fun k => if is_prefix p k then (fun v => (k, v)) <$> (s !! k) else None) l)
  = filter (fun k => is_prefix p k = true) l.
Proof.
  induction l as [|k l IH]; intros Hs; [reflexivity|].
  destruct (Hs k) as [v Hv]; [left|].
  assert (IH' := IH (fun k' Hk' => Hs k' (elem_of_list_further _ _ _ Hk'))).
  rewrite filter_cons. cbn [omap list_omap]. rewrite Hv.
  destruct (is_prefix p k) eqn:E.
  - rewrite decide_True by reflexivity. cbn. f_equal. exact IH'.
  - rewrite decide_False by discriminate. cbn. exact IH'.
Qed.

Lemma sfind_keys (p : bytes) (s : store) : map fst (sfind p s) = filter (fun k => is_prefix p k = true) (skeys s).
Proof. apply sfind_keys_gen. intros k. apply elem_of_skeys. Qed.

Lemma elem_of_sfind (p : bytes) (s : store) k v :
  (k, v) ∈ sfind p s <-> s !! k = Some v /\ is_prefix p k = true.
Proof.
  unfold sfind. rewrite elem_of_list_omap. split.
  - intros (k' & Hin & Hf). destruct (is_prefix p k') eqn:E; [|discriminate].
    destruct (s !! k') as [v'|] eqn:Ev; [|discriminate]. simpl in Hf. injection Hf as -> ->. auto.
  - intros [Hv Hp]. exists k. split; [apply elem_of_skeys; eauto|]. by rewrite Hp, Hv.
Qed.

Lemma elem_of_sfind_keys (p : bytes) (s : store) k :
  k ∈ map fst (sfind p s) <-> is_Some (s !! k) /\ is_prefix p k = true.
Proof. rewrite sfind_keys, elem_of_list_filter, elem_of_skeys. tauto. Qed.

Lemma NoDup_sfind_keys (p : bytes) (s : store) : NoDup (map fst (sfind p s)).
Proof. rewrite sfind_keys. apply NoDup_filter, NoDup_skeys. Qed.

Lemma StronglySorted_filter {A} (R : relation A) (P : A -> Prop) `{!forall x, Decision (P x)} l :
  StronglySorted R l -> StronglySorted R (filter P l).
Proof.
  induction 1 as [|x l Hs IH Hf]; [constructor|].
  rewrite filter_cons. destruct (decide (P x)); [|exact IH].
  constructor; [exact IH|]. apply Forall_forall. intros y [_ Hy]%elem_of_list_filter.
  rewrite Forall_forall in Hf. auto.
Qed.

(** [Find] order: ascending byte order of the keys. *)
Lemma Sorted_sfind_keys (p : bytes) (s : store) : Sorted bytes_le (map fst (sfind p s)).
Proof.
  rewrite sfind_keys. apply StronglySorted_Sorted, StronglySorted_filter.
  apply Sorted_StronglySorted; [apply _|apply Sorted_skeys].
Qed.

(** A strictly sorted list is sorted and duplicate-free. *)
Lemma strict_sorted l : StronglySorted bytes_lt l -> Sorted bytes_le l /\ NoDup l.
Proof.
  induction 1 as [|x l Hs [IH1 IH2] Hf]; [split; constructor|].
  rewrite Forall_forall in Hf. split.
  - apply StronglySorted_Sorted. constructor.
    + apply Sorted_StronglySorted; [apply _|exact IH1].
    + apply Forall_forall. intros y Hy. apply (Hf y Hy).
  - constructor; [|exact IH2]. intros Hx. by apply (bytes_lt_irrefl x), Hf.
Qed.

(** Two listings of pairs with the same elements, keys sorted and
    duplicate-free, are the same list. *)
Lemma pairs_eq_of_keys (l1 l2 : list (bytes * bytes)) :
  map fst l1 = map fst l2 -> NoDup (map fst l2) -> (forall x, x ∈ l1 -> x ∈ l2) -> l1 = l2.
Proof.
  revert l2. induction l1 as [|[k v1] t1 IH]; intros [|[k2 v2] t2] Hk Hnd Hin; try discriminate; [reflexivity|].
  simpl in Hk. injection Hk as <- Hk. simpl in Hnd. apply NoDup_cons in Hnd as [Hnk Hnd].
  assert (v1 = v2) as ->.
  { pose proof (Hin (k, v1) ltac:(left)) as Hx. apply elem_of_cons in Hx as [Hx|Hx]; [congruence|].
    exfalso. apply Hnk. apply elem_of_list_fmap. by exists (k, v1). }
  f_equal. apply IH; auto. intros x Hx.
  pose proof (Hin x ltac:(by right)) as Hx'. apply elem_of_cons in Hx' as [->|Ht]; [|exact Ht].
  exfalso. apply Hnk. rewrite <- Hk. apply elem_of_list_fmap. by exists (k, v2).
Qed.

Lemma sfind_unique (p : bytes) (s : store) (L : list (bytes * bytes)) :
  StronglySorted bytes_lt (map fst L) ->
  (forall k v, (k, v) ∈ L <-> s !! k = Some v /\ is_prefix p k = true) ->
  sfind p s = L.
Proof.
  intros Hs Hel. destruct (strict_sorted _ Hs) as [Hsorted Hnd].
  assert (Hkeys : map fst (sfind p s) = map fst L).
  { apply (Sorted_unique bytes_le); [apply Sorted_sfind_keys|exact Hsorted|].
    apply NoDup_Permutation; [apply NoDup_sfind_keys|exact Hnd|].
    intros k. rewrite !elem_of_list_fmap. split.
    - intros ([k' v] & -> & Hin). exists (k', v). split; [reflexivity|].
      apply Hel. by apply elem_of_sfind.
    - intros ([k' v] & -> & Hin). exists (k', v). split; [reflexivity|].
      apply elem_of_sfind. by apply Hel. }
  apply pairs_eq_of_keys; [exact Hkeys|exact Hnd|].
  intros [k v] Hin. apply Hel. by apply elem_of_sfind.
Qed.

(** [sfind p] looks only at the keys under [p]. *)
Lemma sfind_ext (p : bytes) (s1 s2 : store) :
  (forall k, is_prefix p k = true -> s1 !! k = s2 !! k) -> sfind p s1 = sfind p s2.
Proof.
  intros He. apply pairs_eq_of_keys.
  - apply (Sorted_unique bytes_le); [apply Sorted_sfind_keys..|].
    apply NoDup_Permutation; [apply NoDup_sfind_keys..|].
    intros k. rewrite !elem_of_sfind_keys. split; intros [H1 H2]; (split; [|exact H2]).
    + by rewrite <- He.
    + by rewrite He.
  - apply NoDup_sfind_keys.
  - intros [k v]. rewrite !elem_of_sfind. intros [H1 H2]. split; [|exact H2]. by rewrite <- He.
Qed.

Lemma sfind_nil (p : bytes) (s : store) :
  sfind p s = [] <-> forall k, is_prefix p k = true -> s !! k = None.
Proof.
  split.
  - intros He k Hp. destruct (s !! k) as [v|] eqn:Ev; [|reflexivity].
    assert (H : (k, v) ∈ sfind p s) by by apply elem_of_sfind. rewrite He in H. inversion H.
  - intros Hn. destruct (sfind p s) as [|[k v] l] eqn:E; [reflexivity|].
    assert (H : (k, v) ∈ sfind p s) by (rewrite E; left).
    apply elem_of_sfind in H as [H1 H2]. rewrite Hn in H1 by exact H2. discriminate.
Qed.

(** * Delete loops *)

Lemma del_all_lookup ks (s : store) k :
  del_all ks s !! k = if bool_decide (k ∈ ks) then None else s !! k.
Proof.
  revert s. induction ks as [|k0 ks IH]; intros s.
  - change (del_all [] s) with s. case_bool_decide as H; [inversion H|reflexivity].
  - change (del_all (k0 :: ks) s) with (del_all ks (delete k0 s)). rewrite IH.
    destruct (decide (k ∈ ks)) as [H1|H1].
    { rewrite !bool_decide_eq_true_2; [reflexivity|by right|exact H1]. }
    rewrite (bool_decide_eq_false_2 (k ∈ ks)) by exact H1.
    destruct (decide (k = k0)) as [->|Hne].
    { rewrite lookup_delete, bool_decide_eq_true_2; [reflexivity|by left]. }
    rewrite lookup_delete_ne by congruence.
    rewrite bool_decide_eq_false_2; [reflexivity|]. intros [?|?]%elem_of_cons; contradiction.
Qed.

(** Deleting everything [Find] listed under [p]. *)
Lemma del_sfind_lookup (p : bytes) (s : store) k :
  del_all (map fst (sfind p s)) s !! k = if is_prefix p k then None else s !! k.
Proof.
  rewrite del_all_lookup. case_bool_decide as H.
  - apply elem_of_sfind_keys in H as [_ ->]. reflexivity.
  - destruct (is_prefix p k) eqn:Ep; [|reflexivity].
    destruct (s !! k) as [v|] eqn:Ev; [|reflexivity].
    exfalso. apply H. apply elem_of_sfind_keys. split; [by eexists|exact Ep].
Qed.

(** * Integer codec: decoding inverts encoding (for every integer). *)
Local Open Scope Z_scope.

Lemma length_le_bytes n z : length (le_bytes n z) = n.
Proof. revert z; induction n as [|n IH]; intros z; simpl; [reflexivity|]. by rewrite IH. Qed.

Lemma le_to_Z_le_bytes n z : le_to_Z (le_bytes n z) = z mod 256 ^ Z.of_nat n.
Proof.
  revert z; induction n as [|n IH]; intros z.
  - simpl. by rewrite Z.mod_1_r.
  - cbn [le_bytes le_to_Z]. rewrite IH, Z2N.id by (apply Z.mod_pos_bound; lia).
    rewrite Nat2Z.inj_succ, Z.pow_succ_r by lia.
    rewrite Z.rem_mul_r by (try apply Z.pow_nonzero; try apply Z.pow_pos_nonneg; lia).
    reflexivity.
Qed.

Lemma int_nbytes_bound z : z <> 0 ->
  let K := Z.of_nat (int_nbytes z) in
  1 <= K /\ - 2 ^ (8 * K - 1) <= z < 2 ^ (8 * K - 1).
Proof.
  intros Hz. unfold int_nbytes. rewrite (proj2 (Z.eqb_neq z 0) Hz).
  set (m := if z <? 0 then - z - 1 else z).
  assert (Hm : 0 <= m) by (unfold m; destruct (Z.ltb_spec z 0); lia).
  pose proof (Z.log2_nonneg m) as Hl.
  set (K := (Z.log2 m + 1) / 8 + 1).
  assert (HK : 1 <= K /\ Z.log2 m + 1 <= 8 * K - 1).
  { unfold K. pose proof (Z.div_mod (Z.log2 m + 1) 8 ltac:(lia)) as Hd.
    pose proof (Z.mod_pos_bound (Z.log2 m + 1) 8 ltac:(lia)) as Hb.
    pose proof (Z.div_pos (Z.log2 m + 1) 8 ltac:(lia) ltac:(lia)). lia. }
  rewrite Z2Nat.id by lia. cbv zeta. split; [lia|].
  assert (Hmb : m < 2 ^ (8 * K - 1)).
  { destruct (Z.eq_dec m 0) as [->|Hm0]; [apply Z.pow_pos_nonneg; lia|].
    pose proof (Z.log2_spec m ltac:(lia)) as [_ Hu].
    eapply Z.lt_le_trans; [exact Hu|]. replace (Z.succ (Z.log2 m)) with (Z.log2 m + 1) by lia.
    apply Z.pow_le_mono_r; lia. }
  unfold m in Hmb. destruct (Z.ltb_spec z 0); lia.
Qed.

Lemma bytes_to_int_to_bytes z : bytes_to_int (int_to_bytes z) = z.
Proof.
  destruct (Z.eq_dec z 0) as [->|Hz]; [reflexivity|].
  pose proof (int_nbytes_bound z Hz) as [HK Hb]. cbv zeta in HK, Hb.
  unfold bytes_to_int, int_to_bytes. rewrite length_le_bytes, le_to_Z_le_bytes.
  set (K := Z.of_nat (int_nbytes z)) in *.
  rewrite (proj2 (Z.eqb_neq K 0)) by lia.
  assert (Hp : (256 : Z) ^ K = 2 ^ (8 * K)) by (rewrite Z.pow_mul_r by lia; reflexivity).
  assert (Hh : 2 ^ (8 * K) = 2 * 2 ^ (8 * K - 1)).
  { rewrite <- Z.pow_succ_r by lia. f_equal. lia. }
  assert (Hpos : 0 < 2 ^ (8 * K - 1)) by (apply Z.pow_pos_nonneg; lia).
  rewrite Hp. destruct (Z_lt_le_dec z 0) as [Hneg|Hnn].
  - assert (Hm : z mod 2 ^ (8 * K) = z + 2 ^ (8 * K)).
    { symmetry. apply (Z.mod_unique_pos _ _ (-1)); lia. }
    rewrite Hm. destruct (Z.ltb_spec (z + 2 ^ (8 * K)) (2 ^ (8 * K - 1))); lia.
  - rewrite Z.mod_small by lia. destruct (Z.ltb_spec z (2 ^ (8 * K - 1))); lia.
Qed.

(** A REP number accepted by the commit (<= 255, possibly negative as far
    as the VM is concerned) is stored in at most 32 bytes. *)
Lemma int_to_bytes_small_len r : - (2 ^ 255) <= r <= 255 -> (length (int_to_bytes r) <= 32)%nat.
Proof.
  intros Hr. unfold int_to_bytes. rewrite length_le_bytes.
  destruct (Z.eq_dec r 0) as [->|Hz]; [vm_compute; lia|].
  unfold int_nbytes. rewrite (proj2 (Z.eqb_neq r 0) Hz).
  set (m := if r <? 0 then - r - 1 else r).
  assert (HB : 256 <= 2 ^ 255) by (vm_compute; discriminate).
  assert (Hm : 0 <= m < 2 ^ 255). { unfold m. destruct (Z.ltb_spec r 0); lia. }
  assert (Z.log2 m < 255).
  { destruct (Z.eq_dec m 0) as [->|]; [simpl; lia|]. apply Z.log2_lt_pow2; [lia|apply Hm]. }
  pose proof (Z.log2_nonneg m).
  assert ((Z.log2 m + 1) / 8 < 32) by (apply Z.div_lt_upper_bound; lia).
  pose proof (Z.div_pos (Z.log2 m + 1) 8 ltac:(lia) ltac:(lia)). lia.
Qed.
