(** Proofs/NNSAuth.v — authorisation of the NNS contract (property C11).
    [authorised] is written from the property text; the lemmas show that the
    model's control flow implies it whenever a step has any effect. *)
From Verif Require Import Base.Prelude Model.NNS Proofs.NNSBase.
From Coq Require Import ZifyBool ZifyNat ZifyN.
Local Open Scope Z_scope.

(** * Strings: split then join is the identity *)
Lemma split_on_nonempty sep s : split_on sep s <> [].
Proof. destruct s as [|c s]; simpl; [discriminate|]. destruct (N.eqb c sep); [discriminate|].
  destruct (split_on sep s); discriminate. Qed.

Lemma join_with_cons_head sep c f fs :
  join_with sep ((c :: f) :: fs) = c :: join_with sep (f :: fs).
Proof. destruct fs; reflexivity. Qed.

Lemma join_with_nil_head sep f fs :
  join_with sep ([] :: f :: fs) = sep :: join_with sep (f :: fs).
Proof. reflexivity. Qed.

Lemma join_split sep s : join_with sep (split_on sep s) = s.
Proof.
  induction s as [|c s IH]; [reflexivity|].
  pose proof (split_on_nonempty sep s) as Hn.
  cbn [split_on]. destruct (split_on sep s) as [|f fs] eqn:E; [contradiction|]. rewrite ?E in IH.
  destruct (N.eqb_spec c sep) as [->|Hne].
  - change (sep :: join_with sep (f :: fs) = sep :: s). f_equal. exact IH.
  - rewrite join_with_cons_head. f_equal. exact IH.
Qed.

Lemma join_dot_split n : join_dot (split_dot n) = n.
Proof. apply join_split. Qed.

Section Auth.
Variable hash : bytes -> bytes.
Variable valid_name : bytes -> bool.
Variable valid_data : Z -> bytes -> bool.
Variable str_ok : bytes -> bool.

Notation nexec := (nexec hash valid_name valid_data str_ok).
Notation nstep := (nstep hash valid_name valid_data str_ok).
Notation nrun := (nrun hash valid_name valid_data str_ok).
Notation get_ns := (get_ns hash).
Notation token_id_from_name := (token_id_from_name hash valid_name).

Ltac frag := match goal with E : NNS.get_frag_ns _ _ _ _ _ = Halt _ |- _ =>
  apply (get_frag_ns_halt hash valid_name valid_data str_ok) in E as (Hn & _ & _) end.
Ltac adm := match goal with E : check_admin _ _ = Halt _ |- _ =>
  apply check_admin_halt in E; rename E into Ha end.
Ltac own := match goal with E : check_owner_witness _ _ = Halt _ |- _ =>
  apply check_owner_witness_halt in E as [Hw Hl] end.
Ltac cmte := match goal with E : check_committee _ = Halt _ |- _ =>
  apply check_committee_halt in E; rename E into Hc end.

(** * The authorisation predicate (from the property text) *)
Definition level (n : bytes) : nat := length (split_dot n).
Definition parent_name (n : bytes) : bytes := join_dot (drop 1 (split_dot n)).

(** the owner's witness (nobody for committee-owned names) *)
Definition owner_wit (c : nctx) (ns : namestate) : bool :=
  match ns_owner ns with Some o => wit_of c o | None => false end.

(** the state of the token a name resolves to *)
Definition token_ns (c : nctx) (s : nstate) (name : bytes) : option namestate :=
  match token_id_from_name c s name with Halt t => get_ns s t | Fault => None end.

Definition authorised (c : nctx) (s : nstate) (o : nop) : bool :=
  match o with
  (* records: owner or admin of the token the name resolves to (committee if committee-owned) *)
  | AddRecord name _ _ | SetRecord name _ _ _ | DeleteRecords name _ =>
      match token_ns c s name with Some ns => may_admin c ns | None => false end
  (* SOA, lifetime: owner or admin of the name (committee for TLDs) *)
  | UpdateSOA name _ _ _ _ _ | Renew name _ =>
      match get_ns s name with Some ns => may_admin c ns | None => false end
  (* transfer: the owner only *)
  | Transfer _ tok =>
      match get_ns s tok with Some ns => owner_wit c ns | None => false end
  (* admin: the owner together with the new admin *)
  | SetAdmin name adm =>
      match get_ns s name with
      | Some ns => owner_wit c ns && match adm with None => true | Some a => wit_of c a end
      | None => false
      end
  (* register: the future owner; from the third level on also owner/admin of the enclosing name *)
  | Register name owner _ _ _ _ _ =>
      match owner with Some o => wit_of c o | None => false end &&
      (if (2 <? level name)%nat then
         match get_ns s (parent_name name) with Some p => may_admin c p | None => false end
       else true)
  (* TLDs, price: the committee *)
  | RegisterTLD _ _ _ _ _ _ | SetPrice _ => cmt c
  (* safe methods *)
  | _ => true
  end.

Definition mutating (o : nop) : bool :=
  match o with
  | Register _ _ _ _ _ _ _ | RegisterTLD _ _ _ _ _ _ | Transfer _ _ | Renew _ _ | SetAdmin _ _
  | AddRecord _ _ _ | SetRecord _ _ _ _ | DeleteRecords _ _ | UpdateSOA _ _ _ _ _ _ | SetPrice _ => true
  | _ => false
  end.

(** * Inversion of the guards *)
Lemma check_record_halt c s name typ data t :
  check_record hash valid_name valid_data c s name typ data = Halt t ->
  token_id_from_name c s name = Halt t /\
  exists ns, get_ns s t = Some ns /\ may_admin c ns = true.
Proof.
  unfold check_record. intros H. inv_binds H. frag. adm.
  injection H as <-. split; [reflexivity|]. unfold NNS.get_ns. eexists. split; [exact Hn|exact Ha].
Qed.

(** safe methods return the state unchanged and notify nothing *)
Lemma reader_inert c s o s' r ns :
  mutating o = false -> nexec c s o = Halt (s', r, ns) -> s' = s /\ ns = [].
Proof.
  intros Hm H. destruct o; try discriminate Hm; cbn [NNS.nexec] in H.
  - (* IsAvailable *) inv_binds H. destruct (roots s !! _).
    + destruct (negb (parent_expired _ _ _ _ _)); [injection H as <- _ <-; auto|]. inv_binds H. injection H as <- _ <-; auto.
    + destruct (negb _); [discriminate|]. injection H as <- _ <-; auto.
  - inv_binds H. injection H as <- _ <-; auto.
  - inv_binds H. injection H as <- _ <-; auto.
  - inv_binds H. injection H as <- _ <-; auto.
  - inv_binds H. injection H as <- _ <-; auto.
  - injection H as <- _ <-; auto.
  - injection H as <- _ <-; auto.
  - inv_binds H. injection H as <- _ <-; auto.
  - inv_binds H. injection H as <- _ <-; auto.
  - inv_binds H. injection H as <- _ <-; auto.
  - injection H as <- _ <-; auto.
  - injection H as <- _ <-; auto.
Qed.

Ltac noret He :=
  exfalso; inv_binds He;
  try (match type of He with match ?x with _ => _ end = _ => destruct x; [|discriminate He] end; inv_binds He);
  discriminate He.

Ltac register_tac H name s :=
  cbn [authorised]; inv_binds H;
  match goal with E : check_owner_witness _ _ = Halt _ |- _ =>
    let Hw := fresh "Hw" in let Hl := fresh "Hl" in
    apply check_owner_witness_halt in E as [Hw Hl];
    match goal with E2 : is_valid ?ow = true |- _ => destruct ow; [|cbn in E2; discriminate E2] end;
    match type of Hw with context [akey (Some ?b)] => change (akey (Some b)) with b in Hw end;
    rewrite Hw; cbn [andb]
  end;
  match goal with E : (if (2 <? ?l)%nat then _ else _) = Halt _ |- _ =>
    change l with (level name) in *; destruct (2 <? level name)%nat; [|reflexivity];
    change (join_dot (drop 1 (split_dot name))) with (parent_name name) in E;
    destruct (get_ns s (parent_name name)); [|discriminate E];
    apply check_admin_halt in E; exact E
  end.

(** The core: a halting mutating call is authorised, except the two refusals
    that return [false] without touching anything. *)
Lemma nexec_authorised c s o s' r ns :
  nexec c s o = Halt (s', r, ns) ->
  authorised c s o = true \/ (s' = s /\ ns = [] /\ r = VBool false).
Proof.
  intros H. destruct o; cbn [NNS.nexec] in H; try (left; reflexivity).
  - (* Register *)
    left. register_tac H name s.
  - (* RegisterTLD *) left. cbn [authorised]. inv_binds H. cmte. exact Hc.
  - (* Transfer *)
    inv_binds H.
    match goal with E : get_ns_with_key _ _ _ = Halt ?n |- _ => apply (get_ns_with_key_halt hash valid_name valid_data str_ok) in E as [Hn _]; rename n into ns0 end.
    match goal with E : witness _ _ = Halt _ |- _ => apply witness_halt in E as [-> Hl] end.
    cbn [authorised]. unfold NNS.get_ns. rewrite Hn. unfold owner_wit.
    destruct (ns_owner ns0) as [o|]; [|discriminate Hl]. change (akey (Some o)) with o in *.
    destruct (wit_of c o); [left; reflexivity|]. cbn [negb] in H. injection H as <- <- <-. right. auto.
  - (* Renew *)
    left. cbn [authorised]. inv_binds H. frag. adm. unfold NNS.get_ns. rewrite Hn. exact Ha.
  - (* SetAdmin *)
    left. cbn [authorised]. inv_binds H.
    match goal with E : NNS.get_frag_ns _ _ _ _ _ = Halt ?n |- _ => rename n into ns0 end. frag. own.
    unfold NNS.get_ns. rewrite Hn. unfold owner_wit.
    destruct (ns_owner ns0) as [o|]; [|discriminate Hl]. change (akey (Some o)) with o in Hw. rewrite Hw. cbn [andb].
    destruct admin as [a|]; [|reflexivity].
    match goal with E : obind (witness _ _) _ = Halt _ |- _ => inv1 E;
      match goal with E' : witness _ _ = Halt _ |- _ => apply witness_halt in E' as [-> _] end;
      apply oassert_halt in E; exact E end.
  - (* AddRecord *)
    left. cbn [authorised]. inv1 H. apply check_record_halt in E as [Ht (n0 & Hn & Ha)].
    unfold token_ns. rewrite Ht, Hn. exact Ha.
  - (* SetRecord *)
    left. cbn [authorised]. inv1 H. apply check_record_halt in E as [Ht (n0 & Hn & Ha)].
    unfold token_ns. rewrite Ht, Hn. exact Ha.
  - (* DeleteRecords *)
    left. cbn [authorised]. inv_binds H. frag. adm.
    match goal with E : token_id_from_name _ _ _ = Halt _ |- _ => unfold token_ns; rewrite E end.
    unfold NNS.get_ns. rewrite Hn. exact Ha.
  - (* UpdateSOA *)
    left. cbn [authorised]. inv_binds H. frag. adm. unfold NNS.get_ns. rewrite Hn. exact Ha.
  - (* SetPrice *) left. cbn [authorised]. inv_binds H. cmte. exact Hc.
Qed.

Lemma step_sound s c o s' r ns :
  nstep s (c, o) = (s', r, ns) -> s' <> s \/ ns <> [] -> authorised c s o = true.
Proof.
  intros Hs Hne. destruct (nstep_cases hash valid_name valid_data str_ok s (c, o))
    as [(s1 & r1 & n1 & He & Hst)|[_ Hst]]; rewrite Hst in Hs; injection Hs as <- <- <-.
  - cbn [fst snd] in He. destruct (nexec_authorised _ _ _ _ _ _ He) as [Ha|(-> & -> & _)]; [exact Ha|].
    destruct Hne as [Hc|Hc]; contradiction Hc; reflexivity.
  - destruct Hne as [Hc|Hc]; contradiction Hc; reflexivity.
Qed.

Lemma step_unauthorised_inert s c o s' r ns :
  nstep s (c, o) = (s', r, ns) -> authorised c s o = false ->
  s' = s /\ ns = [] /\ (r = VFault \/ r = VBool false /\ exists t n, o = Transfer t n).
Proof.
  intros Hs Ha. destruct (nstep_cases hash valid_name valid_data str_ok s (c, o))
    as [(s1 & r1 & n1 & He & Hst)|[_ Hst]]; rewrite Hst in Hs; injection Hs as <- <- <-.
  - cbn [fst snd] in He. destruct (nexec_authorised _ _ _ _ _ _ He) as [Ha'|(-> & -> & ->)]; [congruence|].
    split; [reflexivity|]. split; [reflexivity|]. right. split; [reflexivity|].
    (* only Transfer (and a live-name Register, which is authorised) return false *)
    destruct o; try discriminate Ha; cbn [NNS.nexec] in He.
    + (* Register halting is authorised *)
      exfalso. assert (Hx : authorised c s (Register name owner email refresh retry expire ttl) = true); [|congruence].
      clear Ha. register_tac He name s.
    + noret He.
    + eauto.
    + noret He.
    + noret He.
    + noret He.
    + noret He.
    + noret He.
    + noret He.
    + noret He.
  - auto.
Qed.

(** * Who is authorised on a name follows its current name state *)
(** If the context witnesses neither the owner nor the admin (nor, for a
    committee-owned name, the committee), no method governed by that name
    state is authorised. *)
Lemma may_admin_false c ns o :
  ns_owner ns = Some o -> (length o =? 0)%nat = false -> wit_of c o = false ->
  match ns_admin ns with Some a => wit_of c a | None => false end = false ->
  may_admin c ns = false.
Proof. intros Ho Hl Hw Ha. unfold may_admin. rewrite Ho, Hl, Hw, Ha. reflexivity. Qed.

Lemma unauthorised_on_name c s n ns :
  get_ns s n = Some ns -> may_admin c ns = false -> owner_wit c ns = false ->
  (forall t, authorised c s (Transfer t n) = false) /\
  (forall a, authorised c s (SetAdmin n a) = false) /\
  (forall y, authorised c s (Renew n y) = false) /\
  (forall e a b x d, authorised c s (UpdateSOA n e a b x d) = false) /\
  (forall name, token_id_from_name c s name = Halt n ->
     (forall t d, authorised c s (AddRecord name t d) = false) /\
     (forall t i d, authorised c s (SetRecord name t i d) = false) /\
     (forall t, authorised c s (DeleteRecords name t) = false)) /\
  (forall sub o e a b x d, parent_name sub = n -> (2 <? level sub)%nat = true ->
     authorised c s (Register sub o e a b x d) = false).
Proof.
  intros Hn Hm Ho. repeat split; intros; cbn [authorised]; unfold token_ns;
    rewrite ?H, ?Hn, ?Hm, ?Ho; try reflexivity.
  rewrite ?H0, ?H, ?Hn, ?Hm. apply andb_false_r.
Qed.

(** * Post-states of the two ownership-changing methods (names map only) *)
Lemma names_update_balance s t a d : names (update_balance hash s t a d) = names s.
Proof. reflexivity. Qed.

Lemma names_put_soa c s n e a b x d s' :
  put_soa hash valid_name c s n e a b x d = Halt s' -> names s' = names s.
Proof. unfold put_soa. intros H. inv_binds H. injection H as <-. reflexivity. Qed.

Lemma names_save_domain c s n e a b x d o s' :
  save_domain hash valid_name c s n e a b x d o = Halt s' ->
  exists exp, names s' = <[hash n := mkNS o n exp None]> (names s).
Proof.
  unfold save_domain. intros H. inv_binds H. apply names_put_soa in H. rewrite H. eauto.
Qed.

Lemma transfer_post c s o2 n s' ns ns0 :
  nexec c s (Transfer (Some o2) n) = Halt (s', VBool true, ns) ->
  get_ns s n = Some ns0 -> ns_owner ns0 <> Some o2 ->
  get_ns s' n = Some (mkNS (Some o2) (ns_name ns0) (ns_exp ns0) None) /\ length o2 = 20%nat.
Proof.
  intros H Hn Hne. cbn [NNS.nexec] in H. inv_binds H.
  match goal with E : get_ns_with_key _ _ _ = Halt ?n |- _ =>
    apply (get_ns_with_key_halt hash valid_name valid_data str_ok) in E as [Hn' _]; rename n into ns1 end.
  unfold NNS.get_ns in Hn. rewrite Hn in Hn'. injection Hn' as <-.
  match goal with E : is_valid _ = true |- _ => cbn in E; apply Nat.eqb_eq in E; rename E into Hl end.
  split; [|exact Hl].
  match goal with E : witness _ _ = Halt ?w |- _ => destruct w end; cbn [negb] in H; [|discriminate H].
  inv_binds H. injection H as <- _.
  destruct (ns_owner ns0) as [o|] eqn:Eo.
  - change (akey (Some o)) with o. change (akey (Some o2)) with o2.
    destruct (bytes_eqb o o2) eqn:Eb; [apply bytes_eqb_eq in Eb; subst; contradiction|].
    unfold NNS.get_ns. rewrite !names_update_balance. cbn [names set_names]. apply lookup_insert.
  - match goal with E : witness _ (akey None) = _ |- _ => discriminate E end.
Qed.

Lemma register_post c s o2 n e a b x d s' ns :
  nexec c s (Register n (Some o2) e a b x d) = Halt (s', VBool true, ns) ->
  (exists exp, get_ns s' n = Some (mkNS (Some o2) n exp None)) /\ length o2 = 20%nat.
Proof.
  intros H. cbn [NNS.nexec] in H. inv_binds H.
  match goal with E : is_valid _ = true |- _ => cbn in E; apply Nat.eqb_eq in E; rename E into Hl end.
  split; [|exact Hl].
  destruct (get_ns s n) as [ns0|].
  - destruct (now c <? ns_exp ns0); [discriminate H|]. inv_binds H. injection H as <- _.
    match goal with E : save_domain _ _ _ _ _ _ _ _ _ _ _ = Halt _ |- _ => apply names_save_domain in E as [exp Hsd] end.
    exists exp. unfold NNS.get_ns. rewrite names_update_balance, Hsd. apply lookup_insert.
  - inv_binds H. injection H as <- _.
    match goal with E : save_domain _ _ _ _ _ _ _ _ _ _ _ = Halt _ |- _ => apply names_save_domain in E as [exp Hsd] end.
    exists exp. unfold NNS.get_ns. rewrite names_update_balance, Hsd. apply lookup_insert.
Qed.

(** What "no method on [n] is authorised" means: transfer, setAdmin, renew,
    updateSOA of [n], record methods of every name whose token is [n], and
    registration of names directly below [n]. *)
Definition nothing_authorised_on (c : nctx) (s : nstate) (n : bytes) : Prop :=
  (forall t, authorised c s (Transfer t n) = false) /\
  (forall a, authorised c s (SetAdmin n a) = false) /\
  (forall y, authorised c s (Renew n y) = false) /\
  (forall e a b x d, authorised c s (UpdateSOA n e a b x d) = false) /\
  (forall name, token_id_from_name c s name = Halt n ->
     (forall t d, authorised c s (AddRecord name t d) = false) /\
     (forall t i d, authorised c s (SetRecord name t i d) = false) /\
     (forall t, authorised c s (DeleteRecords name t) = false)) /\
  (forall sub o e a b x d, parent_name sub = n -> (2 <? level sub)%nat = true ->
     authorised c s (Register sub o e a b x d) = false).

Lemma fresh_owner_only c' s' n o2 nm exp :
  get_ns s' n = Some (mkNS (Some o2) nm exp None) -> length o2 = 20%nat ->
  wit_of c' o2 = false -> nothing_authorised_on c' s' n.
Proof.
  intros Hn Hl Hw. eapply unauthorised_on_name; [exact Hn| |].
  - apply (may_admin_false c' _ o2); cbn; auto. rewrite Hl. reflexivity.
  - unfold owner_wit. cbn. exact Hw.
Qed.

(** the token of a live, well-formed, non-TLD name is the name itself *)
Lemma token_of_live c s n :
  valid_name n = true -> (2 <=? level n)%nat = true -> live hash c s n = true ->
  token_id_from_name c s n = Halt n.
Proof.
  intros Hv Hl Hlive. unfold NNS.token_id_from_name. rewrite Hv. f_equal.
  unfold level in Hl. destruct (length (split_dot n)) as [|[|k]] eqn:El; try discriminate Hl.
  replace (S (S k) - 1)%nat with (S k) by lia. cbn [seq map].
  rewrite drop_0, join_dot_split. rewrite filter_cons_True by exact Hlive. reflexivity.
Qed.

End Auth.

(** * checkCommittee's threshold is the majority *)
Lemma committee_threshold l : 1 <= l -> l - (l - 1) / 2 = l / 2 + 1.
Proof. intros H. Local Ltac Zify.zify_post_hook ::= Z.div_mod_to_equations. lia. Qed.
