(** Proofs/NNSBase.v — shared lemmas and tactics for the NNS family
    (C10, C11, C12): inversion of the outcome monad, witnesses,
    [check_admin], frame facts of the helper functions of Model/NNS.v. *)
From Verif Require Import Base.Prelude Model.NNS.
From Coq Require Import ZifyBool ZifyNat ZifyN.
Local Open Scope Z_scope.

Lemma obind_halt {A B} (o : outcome A) (f : A -> outcome B) b :
  obind o f = Halt b -> exists a, o = Halt a /\ f a = Halt b.
Proof. destruct o; simpl; [eauto|discriminate]. Qed.

Lemma oassert_halt b u : oassert b = Halt u -> b = true.
Proof. destruct b; [reflexivity|discriminate]. Qed.

(** Peel the leading binds of a hypothesis [H : (x <-! o; k) = Halt _]. *)
Ltac inv1 H :=
  match type of H with
  | obind (oassert ?b) _ = Halt _ =>
      let E := fresh "E" in destruct b eqn:E; [cbn [oassert obind] in H | discriminate H]
  | obind ?o _ = Halt _ =>
      let E := fresh "E" in let x := fresh "x" in
      destruct o as [x|] eqn:E; [cbn [obind] in H | discriminate H]
  end.
Ltac inv_binds H := repeat inv1 H.

Section Base.
Variable hash : bytes -> bytes.
Variable valid_name : bytes -> bool.
Variable valid_data : Z -> bytes -> bool.
Variable str_ok : bytes -> bool.

Notation nexec := (nexec hash valid_name valid_data str_ok).
Notation nstep := (nstep hash valid_name valid_data str_ok).

(** membership of the witnessed set *)
Definition wit_of (c : nctx) (a : bytes) : bool := existsb (bytes_eqb a) (wit c).
Definition cmt (c : nctx) : bool := wit_of c (committee c).

Lemma witness_halt c a w : witness c a = Halt w -> w = wit_of c a /\ hash_len a = true.
Proof. unfold witness. destruct (hash_len a); [|discriminate]. intros H. injection H as <-. auto. Qed.

Lemma check_committee_halt c u : check_committee c = Halt u -> cmt c = true.
Proof. apply oassert_halt. Qed.

Lemma check_owner_witness_halt c a u : check_owner_witness c a = Halt u -> wit_of c a = true /\ hash_len a = true.
Proof.
  unfold check_owner_witness. intros H. inv1 H. apply witness_halt in E as [-> Hl].
  apply oassert_halt in H. auto.
Qed.

(** who passes [checkAdmin] *)
Definition may_admin (c : nctx) (ns : namestate) : bool :=
  match ns_owner ns with
  | None => cmt c
  | Some o =>
      if (length o =? 0)%nat then cmt c
      else wit_of c o || match ns_admin ns with Some a => wit_of c a | None => false end
  end.

Lemma check_admin_halt c ns u : check_admin c ns = Halt u -> may_admin c ns = true.
Proof.
  unfold check_admin, may_admin. destruct (ns_owner ns) as [o|]; [|apply check_committee_halt].
  destruct (length o =? 0)%nat; [apply check_committee_halt|].
  intros H. inv1 H. apply witness_halt in E as [-> _].
  destruct (wit_of c o); [reflexivity|]. simpl.
  destruct (ns_admin ns) as [a|]; [|discriminate]. inv1 H. apply witness_halt in E as [-> _].
  apply oassert_halt in H. exact H.
Qed.

Lemma get_ns_with_key_halt c s k ns :
  get_ns_with_key c s k = Halt ns -> names s !! k = Some ns /\ now c < ns_exp ns.
Proof.
  unfold get_ns_with_key. destruct (names s !! k) as [n|]; [|discriminate].
  destruct (now c >=? ns_exp n) eqn:E; [discriminate|]. intros H. injection H as <-. split; [reflexivity|lia].
Qed.

Lemma get_frag_ns_halt c s t fr ns :
  get_frag_ns hash c s t fr = Halt ns ->
  names s !! hash t = Some ns /\ now c < ns_exp ns /\
  parent_expired hash c s 1 (match fr with [] => split_dot t | _ => fr end) = false.
Proof.
  unfold get_frag_ns. intros H. inv1 H. apply get_ns_with_key_halt in E as [E1 E2].
  destruct (parent_expired _ _ _ _ _) eqn:Ep; [discriminate|]. injection H as <-. auto.
Qed.

(** a step either is the halting execution or is inert *)
Lemma nstep_cases s co :
  (exists s' r ns, nexec (fst co) s (snd co) = Halt (s', r, ns) /\ nstep s co = (s', r, ns)) \/
  (nexec (fst co) s (snd co) = Fault /\ nstep s co = (s, VFault, [])).
Proof.
  unfold NNS.nstep. destruct (nexec (fst co) s (snd co)) as [[[s' r] ns]|]; [left; eauto|right; auto].
Qed.

End Base.
