(** Proofs/Container.v — inversion lemmas for the Container model and the
    fee theorems (C05). *)
From Verif Require Import Base.Prelude Base.IntCodec Model.Balance Proofs.BalanceSum Proofs.Balance
  Model.Container.
From Coq Require Import ZifyBool ZifyNat ZifyN.
Local Open Scope Z_scope.

(** * Monad inversion *)

Lemma obind_halt {A B} (o : outcome A) (f : A -> outcome B) b :
  obind o f = Halt b -> exists a, o = Halt a /\ f a = Halt b.
Proof. destruct o as [a|]; simpl; [eauto|discriminate]. Qed.

Lemma oassert_true b u : oassert b = Halt u -> b = true.
Proof. destruct b; [reflexivity|discriminate]. Qed.

Lemma of_nres_halt {A} (r : nres A) a : of_nres r = Halt a -> r = NOk a.
Proof. destruct r; simpl; congruence. Qed.

Lemma outcome_cases {A} (o : outcome A) : (exists a, o = Halt a) \/ o = Fault.
Proof. destruct o; eauto. Qed.

(** [obinds H]: peel every bind at the head of [H : ... = Halt _]. *)
Tactic Notation "obind" hyp(H) "as" simple_intropattern(x) ident(E) :=
  apply obind_halt in H as (x & E & H).

Lemma vm_mul_halt a b z : vm_mul a b = Halt z -> z = a * b /\ int_ok (a * b) = true.
Proof. unfold vm_mul. destruct (int_ok (a * b)); [|discriminate]. intros [= <-]. auto. Qed.

(** * Byte-string facts *)

Lemma cslice_length off n b r : cslice off n b = Halt r -> length r = n.
Proof.
  unfold cslice. destruct (off + n <=? length b)%nat eqn:E; [|discriminate].
  intros [= <-]. rewrite take_length, drop_length. lia.
Qed.

Lemma owner_of_blob_length b o : owner_of_blob b = Halt o -> length o = 25%nat.
Proof.
  unfold owner_of_blob. intros H. obind H as v Ev. eapply cslice_length; eauto.
Qed.

Lemma wallet_to_sh_len o : length o = 25%nat -> hash_len (wallet_to_sh o) = true.
Proof.
  intros H. unfold hash_len, wallet_to_sh. rewrite take_length, drop_length, H. reflexivity.
Qed.

(** * The fee loop *)

Definition pay_notifs (from : bytes) (tos : list bytes) (fee : Z) (d : bytes) : list notif :=
  flat_map (fun t => [NTransfer from t fee; NTransferX from t fee d]) tos.

Fixpoint occ (a : bytes) (l : list bytes) : Z :=
  match l with
  | [] => 0
  | x :: l' => (if bytes_eqb a x then 1 else 0) + occ a l'
  end.

Lemma occ_nonneg a l : 0 <= occ a l.
Proof. induction l as [|x l IH]; simpl; [lia|]. destruct (bytes_eqb a x); lia. Qed.

Lemma pay_all_spec c b from tos fee d b' ns :
  pay_all c b from tos fee d = Halt (b', ns) ->
  hash_len from = true ->
  (tos = [] \/ (x_alpha c = true /\ 0 <= fee)) /\
  Forall (fun t => hash_len t = true) tos /\
  ns = pay_notifs from tos fee d /\
  (forall a, balance_of b' a = balance_of b a
       - (if bytes_eqb a from then fee * Z.of_nat (length tos) else 0) + fee * occ a tos) /\
  supply b' = supply b.
Proof.
  intros H Hf. revert b b' ns H. induction tos as [|t tos IH]; intros b b' ns H.
  - simpl in H. injection H as <- <-. repeat split; auto.
    intros a. simpl. destruct (bytes_eqb a from); lia.
  - cbn [pay_all] in H.
    obind H as [[b1 r1] ns1] E.
    obind H as [b2 ns2] E0. injection H as <- <-.
    apply IH in E0 as (_ & Hfa & -> & Hbal & Hsup).
    (* the single transferX *)
    cbn [bexec] in E. obind E as u1 E1. apply oassert_true in E1. cbn [alpha] in E1.
    obind E as [[m r0] ns0] E2. obind E as u3 E3. apply oassert_true in E3. subst r0.
    injection E as <- <- <-.
    apply transfer_spec in E2 as [(? & _)|(_ & Ha & -> & Hn & _ & _ & Hb & _ & _)]; [discriminate|].
    rewrite Hf in Hn. cbn [orb andb] in Hn.
    assert (Ht : hash_len t = true) by (destruct (hash_len t); auto).
    split; [right; auto|]. split; [constructor; auto|]. split; [reflexivity|].
    split; [|exact Hsup].
    intros a. rewrite Hbal. unfold balance_of at 1. cbn [accts]. rewrite Hb.
    rewrite Hf, Ht. cbn [andb length occ]. unfold balance_of, dlt.
    destruct (bytes_eqb a from), (bytes_eqb a t); lia.
Qed.

Lemma pay_notifs_length from tos fee d :
  length (pay_notifs from tos fee d) = (2 * length tos)%nat.
Proof. unfold pay_notifs. induction tos as [|t tos IH]; cbn [flat_map app length]; [reflexivity|]. rewrite IH. lia. Qed.

(** With distinct Alphabet accounts, none of them the payer. *)
Lemma occ_notin a l : a ∉ l -> occ a l = 0.
Proof.
  induction l as [|x l IH]; intros H; [reflexivity|]. cbn [occ].
  apply not_elem_of_cons in H as [H1 H2]. apply bytes_eqb_neq in H1. rewrite H1, IH by exact H2. lia.
Qed.

Lemma occ_nodup a l : NoDup l -> a ∈ l -> occ a l = 1.
Proof.
  induction 1 as [|x l Hx Hnd IH]; intros H; [inversion H|]. cbn [occ].
  apply elem_of_cons in H as [->|H].
  - rewrite bytes_eqb_refl, occ_notin by exact Hx. lia.
  - assert (a <> x) by (intros ->; contradiction). apply bytes_eqb_neq in H0. rewrite H0, IH by exact H. lia.
Qed.

Section Proofs.
  Variable cid_of : bytes -> bytes.
  Variable b58 : bytes -> bytes.

  Notation put_named := (put_named cid_of b58).
  Notation put := (put cid_of b58).
  Notation put_meta := (put_meta cid_of b58).
  Notation wexec := (wexec cid_of b58).
  Notation wstep := (wstep cid_of b58).
  Notation wrun_from := (wrun_from cid_of b58).

  (** ** Everything a successful [PutNamed] tells *)

  Definition domain_of (cs : cstate) (name zone : bytes) : bytes :=
    name ++ dot :: (if nonempty zone then zone else nroot cs).

  Inductive put_facts (c : cctx) (w : world) (blob sig pub tok name zone : bytes)
      (w' : world) (ns : list wnotif) : Prop :=
  | PutFacts (pf_owner : bytes) (pf_fee0 pf_fee : Z) (pf_b : bstate) (pf_bns : list notif)
      (pf_n : nstate) (pf_id : gset bytes) (pf_need : bool)
      (pf_owner_ok : owner_of_blob blob = Halt pf_owner)
      (pf_not_dead : cid_of blob ∉ tomb (w_c w))
      (pf_name : nonempty name = true ->
              check_nice_name c (w_n w) (domain_of (w_c w) name zone) = Halt pf_need)
      (pf_fee0_ok : w_cfg w !! key_fee = Some pf_fee0)
      (pf_fee_ok : if nonempty name
                then exists af, w_cfg w !! key_alias_fee = Some af /\ pf_fee = pf_fee0 + af
                else pf_fee = pf_fee0)
      (pf_enough : pf_fee * Z.of_nat (length (x_alphabet c))
                <= balance_of (w_b w) (wallet_to_sh pf_owner))
      (pf_alpha : x_alpha c = true)
      (pf_pay : pay_all c (w_b w) (wallet_to_sh pf_owner) (x_alphabet c) pf_fee
               (16%N :: cid_of blob) = Halt (pf_b, pf_bns))
      (pf_nns : if nonempty name then
               exists n1,
                 (if pf_need then
                    nns_register (x_now c) (nns_wit c) (x_caddr c) (w_n w)
                      (domain_of (w_c w) name zone) (x_self c) default_expire = NOk (n1, true)
                  else n1 = w_n w) /\
                 nns_add_record (x_now c) (nns_wit c) (x_caddr c) n1
                   (domain_of (w_c w) name zone) (b58 (cid_of blob)) = NOk pf_n
             else pf_n = w_n w)
      (pf_id_ok : if nonempty tok then pf_id = w_id w
               else pf_id = {[pf_owner ++ pub]} ∪ w_id w)
      (pf_cid_len : length (cid_of blob) = 32%nat)
      (pf_pub_len : length pub = 33%nat)
      (pf_world : w' = mkW (let cs1 := add_container (w_c w) (cid_of blob) pf_owner (mkCnr blob sig pub tok) in
                         if nonempty name then set_alias cs1 (cid_of blob) (Some (domain_of (w_c w) name zone))
                         else cs1)
                        pf_b (w_cfg w) pf_n pf_id)
      (pf_notifs : ns = map NBal pf_bns ++ [NPut (cid_of blob) pub]).

  Lemma put_named_inv c w blob sig pub tok name zone w' ns :
    put_named c w blob sig pub tok name zone = Halt (w', ns) ->
    put_facts c w blob sig pub tok name zone w' ns.
  Proof.
    unfold Container.put_named. intros H.
    obind H as owner Eo.
    obind H as u0 E. apply oassert_true in E. rewrite negb_true_iff, bool_decide_eq_false in E.
    obind H as [need domain] End.
    obind H as fee0 Ef0.
    obind H as fee Efee.
    obind H as total Etot. apply vm_mul_halt in Etot as [-> _].
    obind H as u1 E0. apply oassert_true in E0. rewrite negb_true_iff, Z.ltb_ge in E0.
    obind H as u2 E1. apply oassert_true in E1.
    obind H as [b' bns] Epay.
    obind H as [n' cs2] Enns.
    obind H as id' Eid.
    obind H as u3 E2. apply oassert_true in E2. apply andb_true_iff in E2 as [L1 L2].
    apply Nat.eqb_eq in L1, L2.
    injection H as <- <-.
    unfold cfg_int in Ef0. destruct (w_cfg w !! key_fee) as [f0|] eqn:Ecf; [|discriminate].
    injection Ef0 as ->.
    apply (PutFacts _ _ _ _ _ _ _ _ _ _ owner fee0 fee b' bns n' id' need); auto.
    - intros Hn. rewrite Hn in End. obind End as nd E2. injection End as <- _. exact E2.
    - destruct (nonempty name).
      + obind Efee as af E2. unfold cfg_int in E2.
        destruct (w_cfg w !! key_alias_fee) as [af'|]; [|discriminate]. injection E2 as ->.
        apply vm_add_halt in Efee. eauto.
      + congruence.
    - destruct (nonempty name) eqn:Hn.
      + obind End as nd E2. injection End as -> <-.
        obind Enns as n1 E3. obind Enns as n2 E4. injection Enns as <- <-.
        apply of_nres_halt in E4. exists n1. split; [|exact E4].
        destruct need.
        * obind E3 as [n1' r] E5. obind E3 as u4 E6. apply oassert_true in E6. subst r.
          injection E3 as <-. apply of_nres_halt in E5. exact E5.
        * congruence.
      + congruence.
    - destruct (nonempty tok); [congruence|].
      unfold add_key in Eid. obind Eid as u4 E3. obind Eid as u5 E4. obind Eid as u6 E5. congruence.
    - f_equal. destruct (nonempty name) eqn:Hn.
      + obind End as nd E2. injection End as -> <-.
        obind Enns as n1 E3. obind Enns as n2 E4. injection Enns as <- <-. reflexivity.
      + congruence.
  Qed.

  (** ** The three entry points of container creation *)

  Definition put_shape (o : wop) : option (bytes * bytes * bytes * bytes * bytes * bytes) :=
    match o with
    | Put b s p t => Some (b, s, p, t, [], [])
    | PutNamed b s p t n z => Some (b, s, p, t, n, z)
    | PutMeta b s p t _ => Some (b, s, p, t, [], [])
    | _ => None
    end.

  Definition meta_flag (o : wop) : bool :=
    match o with PutMeta _ _ _ _ m => m | _ => false end.

  (** The state [PutNamed] starts from: [PutMeta] has set the meta flag. *)
  Definition pre_put (w : world) (o : wop) (blob : bytes) : world :=
    if meta_flag o then mkW (set_meta (w_c w) (cid_of blob)) (w_b w) (w_cfg w) (w_n w) (w_id w)
    else w.

  Lemma wexec_put c w o blob sig pub tok name zone w' r ns :
    put_shape o = Some (blob, sig, pub, tok, name, zone) ->
    wexec c w o = Halt (w', r, ns) ->
    r = VNull /\ put_named c (pre_put w o blob) blob sig pub tok name zone = Halt (w', ns).
  Proof.
    intros Hs H. destruct o; try discriminate; injection Hs as <- <- <- <- <- <-;
      cbn [Container.wexec] in H; obind H as [w1 ns1] E; injection H as <- <- <-; split; auto.
  Qed.

  Lemma pre_put_b w o blob : w_b (pre_put w o blob) = w_b w.
  Proof. unfold pre_put. destruct (meta_flag o); reflexivity. Qed.
  Lemma pre_put_cfg w o blob : w_cfg (pre_put w o blob) = w_cfg w.
  Proof. unfold pre_put. destruct (meta_flag o); reflexivity. Qed.
  Lemma pre_put_n w o blob : w_n (pre_put w o blob) = w_n w.
  Proof. unfold pre_put. destruct (meta_flag o); reflexivity. Qed.
  Lemma pre_put_id w o blob : w_id (pre_put w o blob) = w_id w.
  Proof. unfold pre_put. destruct (meta_flag o); reflexivity. Qed.
  Lemma pre_put_tomb w o blob : tomb (w_c (pre_put w o blob)) = tomb (w_c w).
  Proof. unfold pre_put. destruct (meta_flag o); reflexivity. Qed.
  Lemma pre_put_nroot w o blob : nroot (w_c (pre_put w o blob)) = nroot (w_c w).
  Proof. unfold pre_put. destruct (meta_flag o); reflexivity. Qed.

  (** The fee per Alphabet node configured in Netmap in state [w]. *)
  Definition fee_at (w : world) (name : bytes) : option Z :=
    match w_cfg w !! key_fee with
    | None => None
    | Some f0 =>
        if nonempty name then
          match w_cfg w !! key_alias_fee with Some af => Some (f0 + af) | None => None end
        else Some f0
    end.

  Lemma owner_blob_nonempty blob o : owner_of_blob blob = Halt o -> nonempty blob = true.
  Proof. destruct blob; [discriminate|reflexivity]. Qed.

  (** ** C05: a successful creation charges exactly fee x N, in the same step *)
  Lemma put_exact c w o blob sig pub tok name zone w' r ns :
    put_shape o = Some (blob, sig, pub, tok, name, zone) ->
    wexec c w o = Halt (w', r, ns) ->
    exists owner fee,
      owner_of_blob blob = Halt owner /\ fee_at w name = Some fee /\
      (let from := wallet_to_sh owner in
       let N := Z.of_nat (length (x_alphabet c)) in
       x_alpha c = true /\
       (x_alphabet c = [] \/ 0 <= fee) /\
       fee * N <= balance_of (w_b w) from /\
       cid_of blob ∉ tomb (w_c w) /\
       length pub = 33%nat /\
       Forall (fun t => hash_len t = true) (x_alphabet c) /\
       (forall a, balance_of (w_b w') a = balance_of (w_b w) a
            - (if bytes_eqb a from then fee * N else 0) + fee * occ a (x_alphabet c)) /\
       supply (w_b w') = supply (w_b w) /\
       ns = map NBal (pay_notifs from (x_alphabet c) fee (16%N :: cid_of blob))
            ++ [NPut (cid_of blob) pub] /\
       get (w_c w') (cid_of blob) = Halt (mkCnr blob sig pub tok) /\
       w_cfg w' = w_cfg w).
  Proof.
    intros Hs H. destruct (wexec_put _ _ _ _ _ _ _ _ _ _ _ _ Hs H) as [_ Hp].
    destruct (put_named_inv _ _ _ _ _ _ _ _ _ _ Hp)
      as [owner fee0 fee b' bns n' id' need Hown Hdead _ Hf0 Hfee Hen Hal Hpay _ _ _ Hpub Hw Hns].
    rewrite pre_put_b in Hen, Hpay. rewrite pre_put_cfg in Hf0, Hfee, Hw. rewrite pre_put_tomb in Hdead.
    pose proof (owner_of_blob_length _ _ Hown) as Hlen.
    pose proof (wallet_to_sh_len _ Hlen) as Hfl.
    destruct (pay_all_spec _ _ _ _ _ _ _ _ Hpay Hfl) as (Hneg & Hfa & -> & Hbal & Hsup).
    exists owner, fee. split; [exact Hown|]. split.
    { unfold fee_at. rewrite Hf0. destruct (nonempty name).
      - destruct Hfee as (af & -> & ->). reflexivity.
      - congruence. }
    cbv zeta. split; [exact Hal|]. split; [tauto|]. split; [exact Hen|]. split; [exact Hdead|].
    split; [exact Hpub|]. split; [exact Hfa|].
    subst w'. cbn [w_b w_cfg w_c]. split; [exact Hbal|]. split; [exact Hsup|]. split; [exact Hns|].
    split; [|reflexivity].
    unfold Container.get.
    assert (Hl : forall cs, cnrs (if nonempty name then set_alias cs (cid_of blob) (Some (domain_of (w_c (pre_put w o blob)) name zone)) else cs) = cnrs cs).
    { intros cs. destruct (nonempty name); reflexivity. }
    rewrite Hl. cbn [add_container cnrs]. rewrite lookup_insert. cbn [c_val].
    rewrite (owner_blob_nonempty _ _ Hown). reflexivity.
  Qed.

  (** ** C05: whoever cannot pay, is not witnessed by the Alphabet, ... fails *)
  Lemma put_refused c w o blob sig pub tok name zone :
    put_shape o = Some (blob, sig, pub, tok, name, zone) ->
    (forall owner fee, owner_of_blob blob = Halt owner -> fee_at w name = Some fee ->
       balance_of (w_b w) (wallet_to_sh owner) < fee * Z.of_nat (length (x_alphabet c)) \/
       (x_alphabet c <> [] /\ fee < 0)) \/
    fee_at w name = None \/ owner_of_blob blob = Fault \/
    x_alpha c = false \/ cid_of blob ∈ tomb (w_c w) \/ length pub <> 33%nat ->
    wexec c w o = Fault.
  Proof.
    intros Hs Hc. destruct (outcome_cases (wexec c w o)) as [[[[w' r] ns] H]|H]; [|exact H].
    exfalso. destruct (put_exact _ _ _ _ _ _ _ _ _ _ _ _ Hs H)
      as (owner & fee & Hown & Hfee & Hal & Hneg & Hen & Hdead & Hpub & _).
    destruct Hc as [Hc|[Hc|[Hc|[Hc|[Hc|Hc]]]]].
    - destruct (Hc _ _ Hown Hfee) as [Hlt|[Hne Hlt]]; [lia|]. destruct Hneg; [contradiction|lia].
    - congruence.
    - congruence.
    - congruence.
    - contradiction.
    - contradiction.
  Qed.

  Lemma wstep_fault c w o : wexec c w o = Fault -> wstep w (c, o) = (w, VFault, []).
  Proof. unfold Container.wstep. cbn [fst snd]. intros ->. reflexivity. Qed.

  Lemma wstep_halt c w o w' r ns :
    wexec c w o = Halt (w', r, ns) -> wstep w (c, o) = (w', r, ns).
  Proof. unfold Container.wstep. cbn [fst snd]. intros ->. reflexivity. Qed.

  Lemma wstep_cases w co :
    (exists w' r ns, wexec (fst co) w (snd co) = Halt (w', r, ns) /\ wstep w co = (w', r, ns)) \/
    (wexec (fst co) w (snd co) = Fault /\ wstep w co = (w, VFault, [])).
  Proof.
    unfold Container.wstep. destruct (wexec (fst co) w (snd co)) as [[[w' r] ns]|]; [left|right]; eauto.
  Qed.

  (** ** The Netmap configuration over a history *)

  Definition cfg_step (m : gmap bytes Z) (co : cctx * wop) : gmap bytes Z :=
    match snd co with
    | SetConfig k v => if x_alpha (fst co) then <[k := v]> m else m
    | _ => m
    end.

  Lemma wexec_cfg c w o w' r ns :
    wexec c w o = Halt (w', r, ns) -> w_cfg w' = cfg_step (w_cfg w) (c, o).
  Proof.
    intros H. destruct (put_shape o) as [[[[[[blob sig] pub] tok] name] zone]|] eqn:Hs.
    { destruct (put_exact _ _ _ _ _ _ _ _ _ _ _ _ Hs H) as (? & ? & _ & _ & _ & _ & _ & _ & _ & _ & _ & _ & _ & _ & Hc).
      rewrite Hc. destruct o; try discriminate; reflexivity. }
    destruct o; try discriminate; cbn [Container.wexec] in H; unfold cfg_step; cbn [fst snd].
    - (* delete *)
      obind H as [w1 ns1] E. injection H as <- _ _.
      unfold Container.delete_cnr in E. obind E as oo E1. destruct oo as [ow|].
      + obind E as u E2. obind E as [n' cs1] E3. injection E as <- _. reflexivity.
      + injection E as <- _. reflexivity.
    - obind H as [w1 ns1] E. injection H as <- _ _.
      unfold Container.set_eacl in E. obind E as v E1. obind E as cid E2. obind E as oo E3.
      destruct oo; [|discriminate]. obind E as u E4. obind E as u2 E5. injection E as <- _. reflexivity.
    - obind H as [[b' r'] ns'] E. injection H as <- _ _. reflexivity.
    - obind H as u E. apply oassert_true in E. rewrite E. injection H as <- _ _. reflexivity.
    - obind H as [n' r'] E. injection H as <- _ _. reflexivity.
    - obind H as n' E. injection H as <- _ _. reflexivity.
    - obind H as n' E. injection H as <- _ _. reflexivity.
  Qed.

  Lemma wstep_cfg w co : w_cfg (fst (fst (wstep w co))) = cfg_step (w_cfg w) co
                         \/ w_cfg (fst (fst (wstep w co))) = w_cfg w.
  Proof.
    destruct (wstep_cases w co) as [(w' & r & ns & He & ->)|(_ & ->)]; [left|right; reflexivity].
    cbn [fst]. destruct co. eapply wexec_cfg; eauto.
  Qed.
  (** ** Results are never the fault marker; a fault is inert *)
  Lemma wexec_ret c w o w' r ns : wexec c w o = Halt (w', r, ns) -> r <> VFault.
  Proof.
    intros H. destruct o; cbn [Container.wexec] in H.
    1-5: obind H as [w1 ns1] E; injection H as _ <- _; discriminate.
    - obind H as [[b' r'] ns'] E. injection H as _ <- _.
      destruct (bexec_ret _ _ _ _ _ _ E) as [(-> & _)|(b & f & t & a & -> & _)]; discriminate.
    - obind H as u E. injection H as _ <- _. discriminate.
    - obind H as [n' r'] E. injection H as _ <- _. discriminate.
    - obind H as n' E. injection H as _ <- _. discriminate.
    - obind H as n' E. injection H as _ <- _. discriminate.
  Qed.

  Lemma wstep_fault_inert w co :
    snd (fst (wstep w co)) = VFault -> wstep w co = (w, VFault, []).
  Proof.
    destruct (wstep_cases w co) as [(w' & r & ns & He & ->)|(_ & ->)]; [|reflexivity].
    cbn [fst snd]. intros ->. exfalso. eapply wexec_ret; eauto.
  Qed.

  (** ** The configuration after a history = the accepted setConfig calls *)
  Lemma wstep_cfg_exact w co :
    w_cfg (fst (fst (wstep w co))) = cfg_step (w_cfg w) co.
  Proof.
    destruct (wstep_cases w co) as [(w' & r & ns & He & ->)|(He & ->)]; cbn [fst].
    - destruct co. eapply wexec_cfg; eauto.
    - destruct co as [c o]. cbn [fst snd] in He. unfold cfg_step. cbn [fst snd].
      destruct o; try reflexivity. cbn [Container.wexec] in He.
      destruct (x_alpha c); [discriminate|reflexivity].
  Qed.

  Lemma wrun_cfg w ops : w_cfg (wrun_from w ops) = fold_left cfg_step ops (w_cfg w).
  Proof.
    unfold Container.wrun_from. revert w. induction ops as [|co ops IH]; intros w; [reflexivity|].
    cbn [fold_left]. rewrite IH, wstep_cfg_exact. reflexivity.
  Qed.

End Proofs.
