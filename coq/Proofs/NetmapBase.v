(** Proofs/NetmapBase.v — generic lemmas for the Netmap proofs: key-ordered
    listings, integer ranges, the four-byte epoch key, truncated remainder. *)
From Verif Require Import Base.Prelude Base.IntCodec Model.Netmap.
From Coq Require Import ZifyBool ZifyNat ZifyN.
Local Open Scope Z_scope.

(** * Listings in key order *)

Lemma omap_ext_in {A B} (f g : A -> option B) (l : list A) :
  (forall x, x ∈ l -> f x = g x) -> omap f l = omap g l.
Proof.
  induction l as [|x l IH]; intros H; [reflexivity|]. cbn.
  rewrite (H x) by left. rewrite IH; [reflexivity|]. intros y Hy. apply H. by right.
Qed.

Lemma elem_of_mvals {V} (m : gmap bytes V) v : v ∈ mvals m <-> exists k, m !! k = Some v.
Proof.
  unfold mvals. rewrite elem_of_list_omap. split.
  - intros (k & _ & Hk). eauto.
  - intros (k & Hk). exists k. split; [apply elem_of_skeys; eauto|exact Hk].
Qed.

Lemma mvals_empty {V} : mvals (∅ : gmap bytes V) = [].
Proof.
  destruct (mvals (∅ : gmap bytes V)) as [|v l] eqn:E; [reflexivity|].
  assert (H : v ∈ mvals (∅ : gmap bytes V)) by (rewrite E; left).
  apply elem_of_mvals in H as (k & Hk). by rewrite lookup_empty in Hk.
Qed.

Lemma skeys_empty {V} : skeys (∅ : gmap bytes V) = [].
Proof.
  destruct (skeys (∅ : gmap bytes V)) as [|k l] eqn:E; [reflexivity|].
  assert (H : k ∈ skeys (∅ : gmap bytes V)) by (rewrite E; left).
  apply elem_of_skeys in H as (v & Hv). by rewrite lookup_empty in Hv.
Qed.

(** A sorted duplicate-free listing is determined by its elements. *)
Lemma sorted_keys_unique (l1 l2 : list bytes) :
  Sorted bytes_le l1 -> Sorted bytes_le l2 -> NoDup l1 -> NoDup l2 ->
  (forall k, k ∈ l1 <-> k ∈ l2) -> l1 = l2.
Proof.
  intros S1 S2 N1 N2 He. apply (Sorted_unique bytes_le); auto. by apply NoDup_Permutation.
Qed.

(** * Ranges *)

Lemma elem_of_zrange a b k : k ∈ zrange a b <-> a <= k < b.
Proof.
  unfold zrange. rewrite elem_of_list_fmap. split.
  - intros (i & -> & Hi). apply elem_of_seq in Hi. lia.
  - intros H. exists (Z.to_nat (k - a)). split; [lia|]. apply elem_of_seq. lia.
Qed.

Lemma zrange_nil a b : b <= a -> zrange a b = [].
Proof. intros H. unfold zrange. replace (Z.to_nat (b - a)) with O by lia. reflexivity. Qed.

Lemma zrange_cons a b : a < b -> zrange a b = a :: zrange (a + 1) b.
Proof.
  intros H. unfold zrange. replace (Z.to_nat (b - a)) with (S (Z.to_nat (b - (a + 1)))) by lia.
  cbn [seq map]. f_equal; [lia|]. rewrite <- seq_shift, map_map. apply map_ext. intros i. lia.
Qed.

Lemma zrange_snoc a b : a < b -> zrange a b = zrange a (b - 1) ++ [b - 1].
Proof.
  intros H. unfold zrange. replace (Z.to_nat (b - a)) with (Z.to_nat (b - 1 - a) + 1)%nat by lia.
  rewrite seq_app, map_app. cbn. f_equal. f_equal. lia.
Qed.

(** * Truncated remainder on the arguments that occur *)

Lemma vm_mod_pos a b : 0 <= a -> 0 < b -> vm_mod a b = Halt (a mod b).
Proof.
  intros Ha Hb. unfold vm_mod. destruct (Z.eqb_spec b 0); [lia|].
  by rewrite Z.rem_mod_nonneg by lia.
Qed.

Lemma ring_key_byte i : 0 <= i <= 255 -> ring_key i = Halt i.
Proof.
  intros H. unfold ring_key. destruct (Z.leb_spec (-128) i); [|lia].
  destruct (Z.leb_spec i 255); [|lia]. cbn. by rewrite Z.mod_small by lia.
Qed.

(** * The four-byte epoch key *)

Lemma length_le_bytes n z : length (le_bytes n z) = n.
Proof. revert z; induction n as [|n IH]; intros z; simpl; [reflexivity|]. by rewrite IH. Qed.

Lemma le_to_Z_le_bytes n z : le_to_Z (le_bytes n z) = z mod 256 ^ Z.of_nat n.
Proof.
  revert z; induction n as [|n IH]; intros z.
  - simpl. by rewrite Z.mod_1_r.
  - cbn [le_bytes le_to_Z]. rewrite IH, Z2N.id by (apply Z.mod_pos_bound; lia).
    rewrite Nat2Z.inj_succ, Z.pow_succ_r by lia.
    rewrite Z.rem_mul_r by (try apply Z.pow_nonzero; try apply Z.pow_pos_nonneg; lia).
    reflexivity.
Qed.

Lemma int_nbytes_bound z : z <> 0 ->
  let K := Z.of_nat (int_nbytes z) in
  1 <= K /\ - 2 ^ (8 * K - 1) <= z < 2 ^ (8 * K - 1).
Proof.
  intros Hz. unfold int_nbytes. rewrite (proj2 (Z.eqb_neq z 0) Hz).
  set (m := if z <? 0 then - z - 1 else z).
  assert (Hm : 0 <= m) by (unfold m; destruct (Z.ltb_spec z 0); lia).
  pose proof (Z.log2_nonneg m) as Hl.
  set (K := (Z.log2 m + 1) / 8 + 1).
  assert (HK : 1 <= K /\ Z.log2 m + 1 <= 8 * K - 1).
  { unfold K. pose proof (Z.div_mod (Z.log2 m + 1) 8 ltac:(lia)) as Hd.
    pose proof (Z.mod_pos_bound (Z.log2 m + 1) 8 ltac:(lia)) as Hb.
    pose proof (Z.div_pos (Z.log2 m + 1) 8 ltac:(lia) ltac:(lia)). lia. }
  rewrite Z2Nat.id by lia. cbv zeta. split; [lia|].
  assert (Hmb : m < 2 ^ (8 * K - 1)).
  { destruct (Z.eq_dec m 0) as [->|Hm0]; [apply Z.pow_pos_nonneg; lia|].
    pose proof (Z.log2_spec m ltac:(lia)) as [_ Hu].
    eapply Z.lt_le_trans; [exact Hu|]. replace (Z.succ (Z.log2 m)) with (Z.log2 m + 1) by lia.
    apply Z.pow_le_mono_r; lia. }
  unfold m in Hmb. destruct (Z.ltb_spec z 0); lia.
Qed.

(** Padding the little-endian digits of a number that fits with zeros gives
    the digits at the larger width; truncating a wider rendering gives the
    narrower one. *)
Lemma le_bytes_zero n : le_bytes n 0 = repeat 0%N n.
Proof. induction n as [|n IH]; [reflexivity|]. cbn [le_bytes repeat]. f_equal. exact IH. Qed.

Lemma le_bytes_pad n m z : 0 <= z < 256 ^ Z.of_nat n ->
  le_bytes n z ++ repeat 0%N m = le_bytes (n + m) z.
Proof.
  revert z; induction n as [|n IH]; intros z Hz.
  - cbn in Hz. assert (z = 0) as -> by lia. cbn. symmetry. apply le_bytes_zero.
  - cbn [le_bytes Nat.add app]. f_equal. apply IH.
    rewrite Nat2Z.inj_succ, Z.pow_succ_r in Hz by lia.
    split; [apply Z.div_pos; lia|]. apply Z.div_lt_upper_bound; lia.
Qed.

Lemma le_bytes_take k j z : take k (le_bytes (k + j) z) = le_bytes k z.
Proof.
  revert z; induction k as [|k IH]; intros z; [reflexivity|].
  cbn [Nat.add le_bytes take]. f_equal. apply IH.
Qed.

(** For a non-negative epoch the key is the big-endian rendering of the
    number modulo 2^32. *)
Lemma four_bytes_be_nonneg z : 0 <= z -> four_bytes_be z = rev (le_bytes 4 z).
Proof.
  intros Hz. unfold four_bytes_be, int_to_bytes. f_equal.
  set (n := int_nbytes z).
  assert (Hfit : 0 <= z < 256 ^ Z.of_nat n).
  { destruct (Z.eq_dec z 0) as [->|Hne]; [cbn; lia|].
    pose proof (int_nbytes_bound z Hne) as [HK Hb]. cbv zeta in HK, Hb. fold n in HK, Hb.
    split; [lia|]. replace 256 with (2 ^ 8) by reflexivity. rewrite <- Z.pow_mul_r by lia.
    eapply Z.lt_le_trans; [apply Hb|]. apply Z.pow_le_mono_r; lia. }
  change [0; 0; 0; 0]%N with (repeat 0%N 4).
  rewrite le_bytes_pad by exact Hfit. rewrite (Nat.add_comm n 4). apply le_bytes_take.
Qed.

Lemma four_bytes_be_inj a b :
  0 <= a < 2 ^ 32 -> 0 <= b < 2 ^ 32 -> four_bytes_be a = four_bytes_be b -> a = b.
Proof.
  intros Ha Hb H. rewrite !four_bytes_be_nonneg in H by lia.
  apply (f_equal (@rev N)) in H. rewrite !rev_involutive in H.
  apply (f_equal le_to_Z) in H. rewrite !le_to_Z_le_bytes in H.
  change (256 ^ Z.of_nat 4) with (2 ^ 32) in H. rewrite !Z.mod_small in H by lia. exact H.
Qed.

(** The value a key denotes. *)
Definition key_epoch (p : bytes) : Z := le_to_Z (rev p).

Lemma key_epoch_nonneg z : 0 <= z -> key_epoch (four_bytes_be z) = z mod 2 ^ 32.
Proof.
  intros Hz. unfold key_epoch. rewrite four_bytes_be_nonneg by exact Hz.
  rewrite rev_involutive, le_to_Z_le_bytes. reflexivity.
Qed.

(** Negative arguments in the range the resize loop can produce (count is
    below 255) denote epochs far in the future of the current one:
    [-254..-1] map to at least [k + 256]. Checked by evaluation over the
    finite range. *)
Lemma key_epoch_neg k : -254 <= k < 0 -> k + 256 <= key_epoch (four_bytes_be k) < 2 ^ 32.
Proof.
  intros Hk.
  assert (H : forallb (fun k => (k + 256 <=? key_epoch (four_bytes_be k)) &&
                               (key_epoch (four_bytes_be k) <? 2 ^ 32)) (zrange (-254) 0) = true)
    by (vm_compute; reflexivity).
  rewrite forallb_forall in H. specialize (H k).
  assert (Hin : In k (zrange (-254) 0)) by (apply elem_of_list_In, elem_of_zrange; lia).
  apply H in Hin. lia.
Qed.

Lemma four_bytes_be_neg_ne k e :
  -254 <= k < 0 -> 0 <= e < k + 256 -> four_bytes_be k <> four_bytes_be e.
Proof.
  intros Hk He Heq. pose proof (key_epoch_neg k Hk) as Hn.
  rewrite Heq, key_epoch_nonneg in Hn by lia. rewrite Z.mod_small in Hn by lia. lia.
Qed.
