(** Proofs/NNSSyntaxLib.v — lemmas for C18, part 1: algebra of
    [strings_split] / [join] and the input filter of the StdLib natives. *)
From Verif Require Import Base.Prelude Model.NNSSyntax Spec.Grammar.
From Coq Require Import ZifyBool ZifyNat ZifyN.
Local Open Scope Z_scope.

(* ------------------------------------------------------------------ *)
(** * A. split / join algebra *)

Lemma fields_split sep s : fields sep s = strings_split sep s.
Proof. induction s as [|c r IH]; simpl; [reflexivity|]. rewrite IH. reflexivity. Qed.

Lemma split_nonempty sep s : strings_split sep s <> [].
Proof.
  destruct s as [|c r]; simpl; [discriminate|].
  destruct (c =? sep)%N; [discriminate|]. destruct (strings_split sep r); discriminate.
Qed.

Lemma split_length_pos sep s : (1 <= length (strings_split sep s))%nat.
Proof. pose proof (split_nonempty sep s). destruct (strings_split sep s); simpl; [congruence|lia]. Qed.

Lemma split_app sep x y :
  strings_split sep (x ++ sep :: y) = strings_split sep x ++ strings_split sep y.
Proof.
  induction x as [|c x IH]; simpl.
  - rewrite N.eqb_refl. reflexivity.
  - destruct (c =? sep)%N; [rewrite IH; reflexivity|].
    rewrite IH. pose proof (split_nonempty sep x) as Hne.
    destruct (strings_split sep x) as [|f fs]; [congruence|]. reflexivity.
Qed.

Lemma split_sepfree_single sep l :
  Forall (fun c => c <> sep) l -> strings_split sep l = [l].
Proof.
  induction 1 as [|c l Hc _ IH]; simpl; [reflexivity|].
  destruct (N.eqb_spec c sep); [congruence|]. rewrite IH. reflexivity.
Qed.

Lemma split_join sep ls :
  ls <> [] -> Forall (Forall (fun c => c <> sep)) ls -> strings_split sep (join sep ls) = ls.
Proof.
  induction ls as [|l ls IH]; [congruence|]. intros _ HF.
  apply Forall_cons_1 in HF as [Hl HF].
  destruct ls as [|l2 ls'].
  - simpl. apply split_sepfree_single; assumption.
  - change (join sep (l :: l2 :: ls')) with (l ++ sep :: join sep (l2 :: ls')).
    rewrite split_app, IH by (assumption || discriminate).
    rewrite split_sepfree_single by assumption. reflexivity.
Qed.

Lemma join_split sep s : join sep (strings_split sep s) = s.
Proof.
  induction s as [|c r IH]; [reflexivity|]. cbn [strings_split].
  pose proof (split_nonempty sep r) as Hne.
  destruct (N.eqb_spec c sep) as [->|Hc].
  - destruct (strings_split sep r) as [|f fs]; [congruence|].
    change (join sep ([] :: f :: fs)) with (sep :: join sep (f :: fs)). rewrite IH. reflexivity.
  - destruct (strings_split sep r) as [|f fs]; [congruence|].
    destruct fs as [|g fs'].
    + simpl in *. congruence.
    + change (join sep ((c :: f) :: g :: fs')) with (c :: join sep (f :: g :: fs')).
      rewrite IH. reflexivity.
Qed.

Lemma split_sepfree sep s : Forall (Forall (fun c => c <> sep)) (strings_split sep s).
Proof.
  induction s as [|c r IH]; simpl; [repeat constructor|].
  destruct (N.eqb_spec c sep) as [->|Hc].
  - constructor; [constructor|assumption].
  - destruct (strings_split sep r) as [|f fs]; [repeat constructor; assumption|].
    apply Forall_cons_1 in IH as [Hf Hfs]. constructor; [constructor; assumption|assumption].
Qed.

Lemma join_app sep A B :
  A <> [] -> B <> [] -> join sep (A ++ B) = join sep A ++ sep :: join sep B.
Proof.
  induction A as [|a A IH]; [congruence|]. intros _ HB.
  destruct A as [|a2 A'].
  - destruct B; [congruence|]. reflexivity.
  - change (join sep ((a :: a2 :: A') ++ B)) with (a ++ sep :: join sep ((a2 :: A') ++ B)).
    rewrite IH by (assumption || discriminate).
    change (join sep (a :: a2 :: A')) with (a ++ sep :: join sep (a2 :: A')).
    rewrite <- app_assoc. reflexivity.
Qed.

(** [length (join ls) + 1 = Σ (length l + 1)] for a non-empty list. *)
Fixpoint sumlen1 (ls : list bytes) : nat :=
  match ls with [] => 0 | l :: ls' => (length l + 1) + sumlen1 ls' end.
Lemma join_length sep ls : ls <> [] -> (length (join sep ls) + 1 = sumlen1 ls)%nat.
Proof.
  induction ls as [|l ls IH]; [congruence|]. intros _.
  destruct ls as [|l2 ls'].
  - simpl. lia.
  - change (join sep (l :: l2 :: ls')) with (l ++ sep :: join sep (l2 :: ls')).
    specialize (IH ltac:(discriminate)).
    change (sumlen1 (l :: l2 :: ls')) with ((length l + 1) + sumlen1 (l2 :: ls'))%nat.
    rewrite app_length. cbn [length].
    set (j := join sep (l2 :: ls')) in *. lia.
Qed.

Lemma sumlen1_bounds lo hi ls :
  Forall (fun l => lo <= length l <= hi)%nat ls ->
  ((lo + 1) * length ls <= sumlen1 ls <= (hi + 1) * length ls)%nat.
Proof. induction 1 as [|l ls Hl _ IH]; simpl; nia. Qed.

Lemma join_all sep (P : N -> Prop) ls :
  P sep -> Forall (Forall P) ls -> Forall P (join sep ls).
Proof.
  intros Hs. induction 1 as [|l ls Hl _ IH]; simpl; [constructor|].
  destruct ls; [assumption|]. apply Forall_app. split; [assumption|]. constructor; assumption.
Qed.

(* ------------------------------------------------------------------ *)
(** * B. ASCII strings pass the natives' input filter *)

Lemma utf8_ascii s : Forall (fun c => (c < 128)%N) s -> utf8_valid s = true.
Proof.
  induction 1 as [|c r Hc _ IH]; simpl; [reflexivity|].
  destruct (N.ltb_spec c 128); [assumption|lia].
Qed.

Lemma to_limited_ok s :
  Forall (fun c => (c < 128)%N) s -> len s <= 1024 -> to_limited_string s = Halt s.
Proof.
  intros Ha Hl. unfold to_limited_string. rewrite utf8_ascii by assumption. simpl.
  unfold std_max_input_length. destruct (Z.ltb_spec 1024 (len s)); [lia|reflexivity].
Qed.

Lemma to_limited_inv s r : to_limited_string s = Halt r -> r = s.
Proof.
  unfold to_limited_string. destruct (negb (utf8_valid s)); [discriminate|].
  destruct (std_max_input_length <? len s); [discriminate|]. congruence.
Qed.

Lemma std_split_ok s sep :
  Forall (fun c => (c < 128)%N) s -> len s <= 1024 ->
  std_string_split s sep = Halt (strings_split sep s).
Proof. intros Ha Hl. unfold std_string_split. rewrite to_limited_ok by assumption. reflexivity. Qed.

Lemma std_split_inv s sep fs : std_string_split s sep = Halt fs -> fs = strings_split sep s.
Proof.
  unfold std_string_split. destruct (to_limited_string s) as [r|] eqn:E; [|discriminate].
  apply to_limited_inv in E. subst r. simpl. congruence.
Qed.

