(** Props/C13.v — Committee-run deployment (deploy/): theorem statements.

    Stage (a): the pure helpers (Model/DeployHelpers.v), for ALL inputs.
    Stage (b): the Notary-bootstrap signature exchange as a protocol
    (Model/DeployProto.v), for ALL committee sizes and ALL schedules. The
    model has two variants: [as_repaired] describes /repo's working tree
    (since fix commits 70faaf5 and d247004), [as_pinned] the code before them;
    the main claims are about [as_repaired], the last section documents why
    the fixes were needed.
    Stage (c) (end-to-end deploy.Deploy) is run, not proved: its expected
    final state is [DeployProto.final_state]. *)
From Verif Require Import Base.Prelude Model.DeployHelpers Proofs.DeployHelpers
  Model.DeployProto Proofs.DeployProto.
Local Open Scope Z_scope.

(** * (a) divideFundsEvenly — deploy/funds.go:463-478 *)

(** The callback is invoked with amounts that sum to the input exactly:
    every uint64 amount, every receiver count n >= 1 (n = 0 panics, below). *)
Theorem C13_divide_sum : forall amount n,
  0 <= amount < 2 ^ 64 -> 1 <= n < 2 ^ 64 ->
  exists l, divide_funds amount n = Halt l /\ zsum (map snd l) = amount.
Proof.
  intros amount n Ha Hn. exists (divide_spec amount n). split.
  - apply divide_funds_spec; assumption.
  - apply divide_spec_sum; lia.
Qed.
Print Assumptions C13_divide_sum.

(** Any two receivers' shares — counting 0 for a receiver the callback was
    not invoked for (early return) — differ by at most one; the callback
    indices are 0,1,..,k-1 in this order with k = min(amount, n); every amount
    handed out is positive (and a uint64). *)
Theorem C13_divide_balanced : forall amount n,
  0 <= amount < 2 ^ 64 -> 1 <= n < 2 ^ 64 ->
  exists l, divide_funds amount n = Halt l /\
    (forall i j, 0 <= i < n -> 0 <= j < n -> Z.abs (share l i - share l j) <= 1) /\
    map fst l = map Z.of_nat (seq 0 (length l)) /\
    Z.of_nat (length l) = Z.min amount n /\
    (forall p, In p l -> 0 < snd p <= amount).
Proof.
  intros amount n Ha Hn. exists (divide_spec amount n). split; [|split; [|split; [|split]]].
  - apply divide_funds_spec; assumption.
  - intros i j Hi Hj. apply divide_spec_balanced; lia.
  - apply divide_spec_fst.
  - apply divide_spec_length; lia.
  - intros p Hp. apply (divide_spec_amounts amount n p); [exact Ha|lia|exact Hp].
Qed.
Print Assumptions C13_divide_balanced.

(** The closed form: receiver i < min(amount,n) gets floor(amount/n), plus one
    for the first (amount mod n) receivers. *)
Theorem C13_divide_closed_form : forall amount n i,
  0 <= amount < 2 ^ 64 -> 1 <= n < 2 ^ 64 -> 0 <= i ->
  exists l, divide_funds amount n = Halt l /\
    share l i = if i <? Z.min amount n
                then (if i <? amount mod n then amount / n + 1 else amount / n) else 0.
Proof.
  intros amount n i Ha Hn Hi. exists (divide_spec amount n). split.
  - apply divide_funds_spec; assumption.
  - apply divide_spec_share; lia.
Qed.
Print Assumptions C13_divide_closed_form.

(** The loop equals its closed form [divide_closed] (which the correspondence
    check evaluates for receiver counts too large to iterate over). *)
Theorem C13_divide_closed_eq : forall amount n,
  0 <= amount < 2 ^ 64 -> 1 <= n < 2 ^ 64 ->
  divide_funds amount n = Halt (divide_closed amount n).
Proof. intros amount n Ha Hn. apply divide_funds_closed; assumption. Qed.
Print Assumptions C13_divide_closed_eq.

(** Outside the quantifier's domain: n = 0 panics (division by zero), a
    negative n hands out nothing. *)
Theorem C13_divide_degenerate : forall amount n,
  (n = 0 -> divide_funds amount n = Fault) /\ (n < 0 -> divide_funds amount n = Halt []).
Proof.
  intros amount n. split; intros H.
  - subst. reflexivity.
  - unfold divide_funds. replace (n =? 0) with false by lia.
    replace (Z.to_nat n) with O by lia. reflexivity.
Qed.
Print Assumptions C13_divide_degenerate.

Example C13_divide_nonvacuous :
  divide_funds 16 3 = Halt [(0, 6); (1, 5); (2, 5)] /\
  divide_funds 4 5 = Halt [(0, 1); (1, 1); (2, 1); (3, 1)] /\
  divide_funds 0 5 = Halt [] /\
  divide_funds (2 ^ 64 - 1) 1 = Halt [(0, 18446744073709551615)] /\
  divide_funds (2 ^ 64 - 1) 2 = Halt [(0, 9223372036854775808); (1, 9223372036854775807)] /\
  share [(0, 1); (1, 1); (2, 1); (3, 1)] 4 = 0.
Proof. vm_compute. repeat split; reflexivity. Qed.

(** * (a) neoFSRuntimeTransactionModifier — deploy/deploy.go:665-686 *)

(** For every uint32 height: nonce = 100*floor(h/100) <= h <= vub, with
    h < vub except at the very last height 2^32-1 (where vub = h);
    vub = nonce+100 below the overflow guard and 2^32-1 at or above it. *)
Theorem C13_window : forall h,
  0 <= h < 2 ^ 32 ->
  exists nonce vub, tx_modifier true h = Some (nonce, vub) /\
    nonce = 100 * (h / 100) /\
    0 <= nonce <= h /\ h <= vub < 2 ^ 32 /\
    (h < 2 ^ 32 - 1 -> h < vub) /\
    (nonce < 2 ^ 32 - 1 - 100 -> vub = nonce + 100) /\
    (2 ^ 32 - 1 - 100 <= nonce -> vub = 2 ^ 32 - 1).
Proof. intros h Hh. exact (tx_modifier_spec h Hh). Qed.
Print Assumptions C13_window.

(** Determinism across committee members: all heights of one window give the
    same (nonce, vub), so members that observe different heights within the
    window build byte-identical transactions. *)
Theorem C13_window_deterministic : forall h1 h2,
  h1 / 100 = h2 / 100 -> tx_modifier true h1 = tx_modifier true h2.
Proof. exact tx_modifier_window_det. Qed.
Print Assumptions C13_window_deterministic.

(** A non-HALT test invocation is refused. *)
Theorem C13_window_fault : forall h, tx_modifier false h = None.
Proof. exact tx_modifier_fault. Qed.
Print Assumptions C13_window_fault.

Example C13_window_nonvacuous :
  map (tx_modifier true) [0; 99; 100; 199; 4294967099; 4294967100; 4294967199; 4294967200; 4294967245; 4294967295]
  = [Some (0, 100); Some (0, 100); Some (100, 200); Some (100, 200);
     Some (4294967000, 4294967100); Some (4294967100, 4294967200); Some (4294967100, 4294967200);
     Some (4294967200, 4294967295); Some (4294967200, 4294967295); Some (4294967200, 4294967295)].
Proof. vm_compute. reflexivity. Qed.

(** * (a) sharedTransactionData codec — deploy/notary.go:740-809 *)

(** decode (encode x) = x for every value of the Go type (20-byte sender,
    uint32 fields); the encoding is 28 bytes; every other length is refused;
    and decode has the encoder as inverse on byte strings (so it is a bijection
    between 28-byte strings and values). base64 is outside the model: the
    harness compares the pre-base64 bytes. *)
Theorem C13_shared_roundtrip : forall x,
  wf_shared x ->
  shared_decode (shared_bytes x) = Some x /\ length (shared_bytes x) = 28%nat.
Proof.
  intros x Hx. split; [apply shared_decode_bytes; exact Hx|].
  apply shared_bytes_length. apply Hx.
Qed.
Print Assumptions C13_shared_roundtrip.

Theorem C13_shared_rejects : forall b, length b <> 28%nat -> shared_decode b = None.
Proof. exact shared_decode_length. Qed.
Print Assumptions C13_shared_rejects.

Theorem C13_shared_inverse : forall b x,
  byte_list b -> shared_decode b = Some x -> shared_bytes x = b /\ wf_shared x.
Proof. exact shared_bytes_decode. Qed.
Print Assumptions C13_shared_inverse.

(** Checksum prefix: shift undoes unshift; a payload is accepted only if it
    is the unshift of what is returned; shorter-than-checksum input and a
    mismatching prefix are refused (returning the input, resp. nil). *)
Theorem C13_checksum_roundtrip : forall x d,
  shift_checksum x (unshift_checksum x d) = (true, d) /\
  length (unshift_checksum x d) = (4 + length d)%nat.
Proof.
  intros x d. split; [apply shift_unshift|].
  unfold unshift_checksum. rewrite app_length, shared_checksum_length. reflexivity.
Qed.
Print Assumptions C13_checksum_roundtrip.

Theorem C13_checksum_accepts_only : forall x data p,
  shift_checksum x data = (true, p) -> data = unshift_checksum x p.
Proof. exact shift_true. Qed.
Print Assumptions C13_checksum_accepts_only.

Theorem C13_checksum_refusals : forall x data,
  ((length data < 4)%nat -> shift_checksum x data = (false, data)) /\
  ((4 <= length data)%nat -> fst (shift_checksum x data) = false ->
     shift_checksum x data = (false, []) /\ take 4 data <> shared_checksum x).
Proof.
  intros x data. split; [apply shift_short|apply shift_false_long].
Qed.
Print Assumptions C13_checksum_refusals.

Definition ex_shared : shared := mkShared (map N.of_nat (seq 1 20)) 120 3735928559.
Example C13_shared_nonvacuous :
  shared_bytes ex_shared =
    [1; 2; 3; 4; 5; 6; 7; 8; 9; 10; 11; 12; 13; 14; 15; 16; 17; 18; 19; 20; 0; 0; 0; 120; 222; 173; 190; 239]%N /\
  shared_decode (shared_bytes ex_shared) = Some ex_shared /\
  shared_decode (shared_bytes ex_shared ++ [0%N]) = None /\
  shared_decode (take 27 (shared_bytes ex_shared)) = None /\
  shift_checksum ex_shared (unshift_checksum ex_shared [7; 8; 9]%N) = (true, [7; 8; 9]%N) /\
  shift_checksum ex_shared [1; 2; 3]%N = (false, [1; 2; 3]%N) /\
  shift_checksum ex_shared [1; 2; 3; 4; 5]%N = (false, []) /\
  shift_checksum (mkShared (sh_sender ex_shared) 121 3735928559)
     (unshift_checksum ex_shared [7; 8; 9]%N) = (false, []) /\
  sha256 [97; 98; 99]%N =
    [186; 120; 22; 191; 143; 1; 207; 234; 65; 65; 64; 222; 93; 174; 34; 35;
     176; 3; 97; 163; 150; 23; 122; 156; 180; 16; 255; 97; 242; 0; 21; 173]%N.
Proof. vm_compute. repeat split; reflexivity. Qed.

(** * (b) Notary bootstrap — deploy/notary.go:165-744 as a protocol
    (Model/DeployProto.v).  A history is ANY list of labels: members tick in
    any interleaving, restart at any point (closure state lost), pooled
    transactions are executed in any order and with any delay, blocks pass,
    and a foreign account may rewrite any signature domain ([LGarbage]).
    The working tree is the variant [as_repaired]. *)

(** Safety, for every committee size and every history (stated for both
    variants; the working tree is [v = as_repaired]):
    - whenever the leader finalises the committee witness (notary.go:473-503)
      the script has exactly M = n-(n-1)/2 signatures: its own first, then
      M-1 remote ones attributed to pairwise distinct indices i of the
      collection loop (1..n-1 in the working tree), each of which verified
      under committee[i] when it was collected;
    - a designation transaction is accepted by the node only with a valid
      witness (M signatures over this very transaction, in key order);
    - the role is designated only after such a transaction was sent. *)
Theorem C13_bootstrap_safe : forall v n maxinc h0 ls,
  (1 <= n)%nat ->
  let r := prun v n maxinc (pinit h0) ls in
  (forall d sc, In (EAssembled d sc) (snd r) ->
     length sc = maj_m n /\ hd_error sc = Some (mkSig 0 d) /\
     NoDup (map sv_by (tail sc)) /\
     Forall (fun s => (sv_by s < v_first v + (n - 1))%nat) (tail sc)) /\
  (forall id d sc, In (ESent id (WDesignate d sc)) (snd r) ->
     valid_witness n d sc = true /\ length sc = maj_m n) /\
  (c_designated (p_chain (fst r)) = true ->
     exists id d sc, In (ESent id (WDesignate d sc)) (snd r) /\
                     valid_witness n d sc = true /\ length sc = maj_m n).
Proof.
  intros v n maxinc h0 ls Hn r.
  pose proof (prun_ginv_True v n maxinc ls (pinit h0) [] Hn (ginv_init _ _ n h0)) as G.
  fold r in G. cbn [app] in G. destruct G as (_ & _ & G3 & G4 & G5).
  split; [|split].
  - intros d sc Hin. exact (proj1 (G4 d sc Hin)).
  - intros id d sc Hin. destruct (G5 id d sc Hin) as (H1 & H2 & _). auto.
  - intros Hd. destruct (G3 Hd) as (id & d & sc & Hin). exists id, d, sc.
    destruct (G5 id d sc Hin) as (H1 & H2 & _). auto.
Qed.
Print Assumptions C13_bootstrap_safe.

(** A minority cannot designate: if fewer than M-1 of the members the
    leader's loop reads (1..n-1 in the working tree) are live, NO history of
    the live members — fair or not, with restarts and delays — assembles a
    witness, sends a designation or gets the role designated. *)
Theorem C13_bootstrap_needs_majority : forall v n maxinc h0 live ls,
  (2 <= n)%nat -> (readable v n live < maj_m n - 1)%nat ->
  Forall (honest live) ls ->
  let r := prun v n maxinc (pinit h0) ls in
  (forall d sc, ~ In (EAssembled d sc) (snd r)) /\
  (forall id d sc, ~ In (ESent id (WDesignate d sc)) (snd r)) /\
  c_designated (p_chain (fst r)) = false.
Proof. exact blocked. Qed.
Print Assumptions C13_bootstrap_needs_majority.

(** Liveness for the working tree, for EVERY committee size n >= 2, every
    live set containing the leader, every starting height, every nonce and
    every map order the scheduler proposes (the repaired code sorts): on the
    fair round-robin schedule of the live members (each ticks, everything
    pooled is executed, a block passes) the role is designated after five
    rounds — and stays so — IF AND ONLY IF a majority M = n-(n-1)/2 of the
    members is live. In particular n = 2 completes, and any majority that
    includes the leader suffices, the last member included.
    Proved by symbolic execution of the model round by round, the members'
    ticks by induction over the member list (Proofs/DeployProto.v, last part); the "only
    if" half is [C13_bootstrap_needs_majority] and holds for every schedule.
    [4 <= maxinc]: the shared data must outlive the five rounds
    (MaxValidUntilBlockIncrement is 5760 on a 15 s chain).
    Not stated: inevitability over all infinite fair schedules (this is the
    canonical fair schedule; [completes] below is the possibility form). *)
Theorem C13_bootstrap_any_majority : forall n (live : nat -> bool) maxinc h0 nonce order r,
  (2 <= n)%nat -> live 0%nat = true -> 4 <= maxinc -> (5 <= r)%nat ->
  c_designated (p_chain (fst (prun as_repaired n maxinc (pinit h0)
                                   (fair_rounds r (List.filter live (seq 0 n)) nonce order)))) =
  (maj_m n <=? live_count n live)%nat.
Proof. exact any_majority_fair. Qed.
Print Assumptions C13_bootstrap_any_majority.

(** The possibility form: with a live majority that includes the leader SOME
    history of the live members gets the role designated. *)
Definition majority_with_leader (n : nat) (live : nat -> bool) : Prop :=
  live 0%nat = true /\ (maj_m n <= live_count n live)%nat.
Definition completes (v : variant) (n : nat) (live : nat -> bool) : Prop :=
  exists maxinc h0 ls, Forall (honest live) ls /\
    c_designated (p_chain (fst (prun v n maxinc (pinit h0) ls))) = true.
Definition any_majority_completes (v : variant) : Prop :=
  forall n live, (2 <= n)%nat -> majority_with_leader n live -> completes v n live.

Theorem C13_bootstrap_any_majority_completes : any_majority_completes as_repaired.
Proof.
  intros n live Hn [H0 Hm].
  exists 5760, 0, (fair_rounds 5 (List.filter live (seq 0 n)) 1 []). split.
  - apply fair_rounds_honest. apply List.Forall_forall. intros k Hk. apply filter_In in Hk. tauto.
  - rewrite (any_majority_fair n live 5760 0 1 [] 5 Hn H0 ltac:(lia) ltac:(lia)). apply Nat.leb_le. exact Hm.
Qed.
Print Assumptions C13_bootstrap_any_majority_completes.

(** What [C13_bootstrap_safe] does not say, and the model refutes once a
    foreign account owns signature domains: that every signature of an
    assembled script is over the current transaction. The map of collected
    signatures is not cleared when the transaction is re-made
    (notary.go:346-349 against 213-219); the node then refuses the witness
    (nothing invalid reaches the chain, by [C13_bootstrap_safe]). Model
    observation only: it needs foreign-owned signature domains and was not
    replayed on the real code. *)
Definition stale_history : list label :=
  [ LTick 0 1 []; LLandAll; LTick 0 1 []; LLandAll;                 (* leader registers, publishes A *)
    LTick 1 0 []; LLandAll; LTick 1 0 []; LLandAll;                 (* member 1 signs A *)
    LGarbage 2 [mkRec (120, 1) (mkSig 9 (0, 0))];                   (* foreign records with A's checksum *)
    LGarbage 3 [mkRec (120, 1) (mkSig 9 (0, 0))];
    LTick 0 2 [];                                                   (* 2 invalid + M > n: re-publish B, pending *)
    LGarbage 2 []; LGarbage 3 [];
    LTick 0 3 [];                                                   (* B not yet executed: collects 1's signature of A *)
    LLandAll;                                                       (* B executed *)
    LGarbage 2 [mkRec (120, 2) (mkSig 2 (120, 2))];                 (* a record for B in domain 2 *)
    LTick 0 4 [] ].                                                 (* assembles: A-signature next to B-signatures *)
Theorem C13_bootstrap_stale_signature : exists d sc s,
  In (EAssembled d sc) (snd (prun as_repaired 4 5760 (pinit 0) stale_history)) /\ In s sc /\ sv_over s <> d.
Proof.
  exists (120, 2), [mkSig 0 (120, 2); mkSig 1 (120, 1); mkSig 2 (120, 2)], (mkSig 1 (120, 1)).
  split; [apply first_assembled_In; vm_compute; reflexivity|]. split; [right; left; reflexivity|]. cbn. congruence.
Qed.
Print Assumptions C13_bootstrap_stale_signature.

(** Non-vacuity for the working tree: histories that complete (n = 2 and the
    live set {0, n-1} included), and one that cannot (no majority). *)
Example C13_bootstrap_nonvacuous :
  let des n live order r := c_designated (p_chain (fst (prun as_repaired n 5760 (pinit 0) (fair_rounds r live 1 order)))) in
  (des 1 [0] [] 2, des 2 [0; 1] [] 5, des 3 [0; 1; 2] [] 5, des 3 [0; 2] [] 5, des 4 [0; 1; 2; 3] [2; 1] 5,
   des 4 [0; 2; 3] [] 5, des 7 [0; 4; 5; 6] [6; 5; 4] 5, des 3 [0] [] 200, des 4 [0; 3] [] 200)%nat
  = (true, true, true, true, true, true, true, false, false).
Proof. vm_compute. reflexivity. Qed.

(** * Historical: the code before fix commits 70faaf5 / d247004
    ([as_pinned]).  These theorems document why the fixes were needed; both
    defects were observed on the real code at that commit (n = 2 never
    designated; n = 3 with members {0,2} never did; witnesses [0 2 1] and
    [0 3 1 2] refused with ErrInvalidSignature). *)

(** [any_majority_completes] (above) fails for the old code even in this
    weakest, "some schedule" reading. The old leader loop read domains 0..n-2 and checked domain i with
    committee[i] while member k writes domain k, so only live members
    1..n-2 could ever be counted ([C13_bootstrap_needs_majority] with
    [readable as_pinned]). Refutation, witness n = 2 with both members live:
    domain 0 was never written, domain 1 never read. *)
Theorem C13_bootstrap_any_majority_refuted : ~ any_majority_completes as_pinned.
Proof.
  intros H. destruct (H 2%nat (fun _ => true)) as (maxinc & h0 & ls & Hh & Hd).
  - lia.
  - split; [reflexivity|]. vm_compute. lia.
  - pose proof (blocked as_pinned 2 maxinc h0 (fun _ => true) ls ltac:(lia) ltac:(vm_compute; lia) Hh) as (_ & _ & Hf).
    cbv zeta in Hf. congruence.
Qed.
Print Assumptions C13_bootstrap_any_majority_refuted.

(** Second witness: n = 3 with the leader and the LAST member live (2 of 3). *)
Theorem C13_bootstrap_last_member_ignored :
  majority_with_leader 3 (live_of [true; false; true]) /\ ~ completes as_pinned 3 (live_of [true; false; true]).
Proof.
  split; [split; [reflexivity|vm_compute; lia]|].
  intros (maxinc & h0 & ls & Hh & Hd).
  pose proof (blocked as_pinned 3 maxinc h0 (live_of [true; false; true]) ls ltac:(lia) ltac:(vm_compute; lia) Hh) as (_ & _ & Hf).
  cbv zeta in Hf. congruence.
Qed.
Print Assumptions C13_bootstrap_last_member_ignored.

(** What did hold for the old code, committee sizes 2..7 and every live set
    containing the leader: on the fair schedule, with the Go map iterated in
    ascending key order, designated within 8 rounds iff at least M-1 of the
    members 1..n-2 were live. *)
Theorem C13_bootstrap_pinned_partial : forall n mask,
  (2 <= n <= 7)%nat -> length mask = n -> live_of mask 0 = true ->
  c_designated (p_chain (fst (prun as_pinned n 5760 (pinit 0) (fair_rounds 8 (members mask) 1 (seq 0 n))))) =
  (maj_m n - 1 <=? readable as_pinned n (live_of mask))%nat.
Proof.
  assert (Hall : forallb (fun n => forallb (fun mask => negb (live_of mask 0) || partial_check n mask)
                                           (all_masks n)) [2; 3; 4; 5; 6; 7]%nat = true)
    by (vm_compute; reflexivity).
  intros n mask Hn Hl H0.
  rewrite forallb_forall in Hall.
  assert (Hin : In n [2; 3; 4; 5; 6; 7]%nat) by (cbn; lia).
  specialize (Hall n Hin). rewrite forallb_forall in Hall.
  specialize (Hall mask (all_masks_complete n mask Hl)). rewrite H0 in Hall. cbn [negb orb] in Hall.
  unfold partial_check in Hall. apply Bool.eqb_prop in Hall. exact Hall.
Qed.
Print Assumptions C13_bootstrap_pinned_partial.

(** The collected signatures were appended in the order of a Go map range.
    n = 4, everybody live, fair schedule, the map visited as 2,1: the
    assembled script has M valid signatures of distinct members over the
    current transaction — and the node refuses it (RPC -508, which the tick
    only logs). The same transaction is refused again every round; after 100
    rounds the role is still not designated (the shared data live 120
    blocks). *)
Theorem C13_bootstrap_order_refuted :
  let r := prun as_pinned 4 5760 (pinit 0) (fair_rounds 100 [0; 1; 2; 3]%nat 1 [2; 1]%nat) in
  c_designated (p_chain (fst r)) = false /\
  exists d sc,
    In (EAssembled d sc) (snd r) /\
    length sc = maj_m 4 /\ NoDup (map sv_by sc) /\
    Forall (fun s => sv_over s = d /\ (sv_by s < 4)%nat) sc /\
    node_verdict 4 d sc = VInvalidSignature /\
    length (List.filter (fun e => bool_decide (e = ERejected (WDesignate d sc) VInvalidSignature)) (snd r)) = 96%nat.
Proof.
  split; [vm_compute; reflexivity|].
  exists (121, 1), [mkSig 0 (121, 1); mkSig 2 (121, 1); mkSig 1 (121, 1)].
  split; [apply first_assembled_In; vm_compute; reflexivity|]. split; [reflexivity|]. split.
  - cbn. repeat constructor; set_solver.
  - split; [repeat constructor|]. split; vm_compute; reflexivity.
Qed.
Print Assumptions C13_bootstrap_order_refuted.

Example C13_bootstrap_pinned_nonvacuous :
  let des n live order r := c_designated (p_chain (fst (prun as_pinned n 5760 (pinit 0) (fair_rounds r live 1 order)))) in
  (des 2 [0; 1] [] 200, des 3 [0; 1; 2] [1] 6, des 3 [0; 2] [] 200, des 4 [0; 1; 2; 3] [1; 2] 6,
   des 4 [0; 1; 2; 3] [2; 1] 100, des 4 [0; 2; 3] [] 200)%nat
  = (false, true, false, true, false, false).
Proof. vm_compute. reflexivity. Qed.
