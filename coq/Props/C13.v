(** Props/C13.v — Committee-run deployment (deploy/): theorem statements.

    Stage (a): the pure helpers (Model/DeployHelpers.v), for ALL inputs.
    Stage (b): the Notary-bootstrap signature exchange as a protocol
    (Model/DeployProto.v), for ALL committee sizes and ALL schedules. *)
From Verif Require Import Base.Prelude Model.DeployHelpers Proofs.DeployHelpers.
Local Open Scope Z_scope.

(** * (a) divideFundsEvenly — deploy/funds.go:463-478 *)

(** The callback is invoked with amounts that sum to the input exactly:
    every uint64 amount, every receiver count n >= 1 (n = 0 panics, below). *)
Theorem C13_divide_sum : forall amount n,
  0 <= amount < 2 ^ 64 -> 1 <= n < 2 ^ 64 ->
  exists l, divide_funds amount n = Halt l /\ zsum (map snd l) = amount.
Proof.
  intros amount n Ha Hn. exists (divide_spec amount n). split.
  - apply divide_funds_spec; assumption.
  - apply divide_spec_sum; lia.
Qed.
Print Assumptions C13_divide_sum.

(** Any two receivers' shares — counting 0 for a receiver the callback was
    not invoked for (early return) — differ by at most one; the callback
    indices are 0,1,..,k-1 in this order with k = min(amount, n); every amount
    handed out is positive (and a uint64). *)
Theorem C13_divide_balanced : forall amount n,
  0 <= amount < 2 ^ 64 -> 1 <= n < 2 ^ 64 ->
  exists l, divide_funds amount n = Halt l /\
    (forall i j, 0 <= i < n -> 0 <= j < n -> Z.abs (share l i - share l j) <= 1) /\
    map fst l = map Z.of_nat (seq 0 (length l)) /\
    Z.of_nat (length l) = Z.min amount n /\
    (forall p, In p l -> 0 < snd p <= amount).
Proof.
  intros amount n Ha Hn. exists (divide_spec amount n). split; [|split; [|split; [|split]]].
  - apply divide_funds_spec; assumption.
  - intros i j Hi Hj. apply divide_spec_balanced; lia.
  - apply divide_spec_fst.
  - apply divide_spec_length; lia.
  - intros p Hp. apply (divide_spec_amounts amount n p); [exact Ha|lia|exact Hp].
Qed.
Print Assumptions C13_divide_balanced.

(** The closed form: receiver i < min(amount,n) gets floor(amount/n), plus one
    for the first (amount mod n) receivers. *)
Theorem C13_divide_closed_form : forall amount n i,
  0 <= amount < 2 ^ 64 -> 1 <= n < 2 ^ 64 -> 0 <= i ->
  exists l, divide_funds amount n = Halt l /\
    share l i = if i <? Z.min amount n
                then (if i <? amount mod n then amount / n + 1 else amount / n) else 0.
Proof.
  intros amount n i Ha Hn Hi. exists (divide_spec amount n). split.
  - apply divide_funds_spec; assumption.
  - apply divide_spec_share; lia.
Qed.
Print Assumptions C13_divide_closed_form.

(** The loop equals its closed form [divide_closed] (which the correspondence
    check evaluates for receiver counts too large to iterate over). *)
Theorem C13_divide_closed_eq : forall amount n,
  0 <= amount < 2 ^ 64 -> 1 <= n < 2 ^ 64 ->
  divide_funds amount n = Halt (divide_closed amount n).
Proof. intros amount n Ha Hn. apply divide_funds_closed; assumption. Qed.
Print Assumptions C13_divide_closed_eq.

(** Outside the quantifier's domain: n = 0 panics (division by zero), a
    negative n hands out nothing. *)
Theorem C13_divide_degenerate : forall amount n,
  (n = 0 -> divide_funds amount n = Fault) /\ (n < 0 -> divide_funds amount n = Halt []).
Proof.
  intros amount n. split; intros H.
  - subst. reflexivity.
  - unfold divide_funds. replace (n =? 0) with false by lia.
    replace (Z.to_nat n) with O by lia. reflexivity.
Qed.
Print Assumptions C13_divide_degenerate.

Example C13_divide_nonvacuous :
  divide_funds 16 3 = Halt [(0, 6); (1, 5); (2, 5)] /\
  divide_funds 4 5 = Halt [(0, 1); (1, 1); (2, 1); (3, 1)] /\
  divide_funds 0 5 = Halt [] /\
  divide_funds (2 ^ 64 - 1) 1 = Halt [(0, 18446744073709551615)] /\
  divide_funds (2 ^ 64 - 1) 2 = Halt [(0, 9223372036854775808); (1, 9223372036854775807)] /\
  share [(0, 1); (1, 1); (2, 1); (3, 1)] 4 = 0.
Proof. vm_compute. repeat split; reflexivity. Qed.

(** * (a) neoFSRuntimeTransactionModifier — deploy/deploy.go:665-686 *)

(** For every uint32 height: nonce = 100*floor(h/100) <= h <= vub, with
    h < vub except at the very last height 2^32-1 (where vub = h);
    vub = nonce+100 below the overflow guard and 2^32-1 at or above it. *)
Theorem C13_window : forall h,
  0 <= h < 2 ^ 32 ->
  exists nonce vub, tx_modifier true h = Some (nonce, vub) /\
    nonce = 100 * (h / 100) /\
    0 <= nonce <= h /\ h <= vub < 2 ^ 32 /\
    (h < 2 ^ 32 - 1 -> h < vub) /\
    (nonce < 2 ^ 32 - 1 - 100 -> vub = nonce + 100) /\
    (2 ^ 32 - 1 - 100 <= nonce -> vub = 2 ^ 32 - 1).
Proof. intros h Hh. exact (tx_modifier_spec h Hh). Qed.
Print Assumptions C13_window.

(** Determinism across committee members: all heights of one window give the
    same (nonce, vub), so members that observe different heights within the
    window build byte-identical transactions. *)
Theorem C13_window_deterministic : forall h1 h2,
  h1 / 100 = h2 / 100 -> tx_modifier true h1 = tx_modifier true h2.
Proof. exact tx_modifier_window_det. Qed.
Print Assumptions C13_window_deterministic.

(** A non-HALT test invocation is refused. *)
Theorem C13_window_fault : forall h, tx_modifier false h = None.
Proof. exact tx_modifier_fault. Qed.
Print Assumptions C13_window_fault.

Example C13_window_nonvacuous :
  map (tx_modifier true) [0; 99; 100; 199; 4294967099; 4294967100; 4294967199; 4294967200; 4294967245; 4294967295]
  = [Some (0, 100); Some (0, 100); Some (100, 200); Some (100, 200);
     Some (4294967000, 4294967100); Some (4294967100, 4294967200); Some (4294967100, 4294967200);
     Some (4294967200, 4294967295); Some (4294967200, 4294967295); Some (4294967200, 4294967295)].
Proof. vm_compute. reflexivity. Qed.

(** * (a) sharedTransactionData codec — deploy/notary.go:740-809 *)

(** decode (encode x) = x for every value of the Go type (20-byte sender,
    uint32 fields); the encoding is 28 bytes; every other length is refused;
    and decode has the encoder as inverse on byte strings (so it is a bijection
    between 28-byte strings and values). base64 is outside the model: the
    harness compares the pre-base64 bytes. *)
Theorem C13_shared_roundtrip : forall x,
  wf_shared x ->
  shared_decode (shared_bytes x) = Some x /\ length (shared_bytes x) = 28%nat.
Proof.
  intros x Hx. split; [apply shared_decode_bytes; exact Hx|].
  apply shared_bytes_length. apply Hx.
Qed.
Print Assumptions C13_shared_roundtrip.

Theorem C13_shared_rejects : forall b, length b <> 28%nat -> shared_decode b = None.
Proof. exact shared_decode_length. Qed.
Print Assumptions C13_shared_rejects.

Theorem C13_shared_inverse : forall b x,
  byte_list b -> shared_decode b = Some x -> shared_bytes x = b /\ wf_shared x.
Proof. exact shared_bytes_decode. Qed.
Print Assumptions C13_shared_inverse.

(** Checksum prefix: shift undoes unshift; a payload is accepted only if it
    is the unshift of what is returned; shorter-than-checksum input and a
    mismatching prefix are refused (returning the input, resp. nil). *)
Theorem C13_checksum_roundtrip : forall x d,
  shift_checksum x (unshift_checksum x d) = (true, d) /\
  length (unshift_checksum x d) = (4 + length d)%nat.
Proof.
  intros x d. split; [apply shift_unshift|].
  unfold unshift_checksum. rewrite app_length, shared_checksum_length. reflexivity.
Qed.
Print Assumptions C13_checksum_roundtrip.

Theorem C13_checksum_accepts_only : forall x data p,
  shift_checksum x data = (true, p) -> data = unshift_checksum x p.
Proof. exact shift_true. Qed.
Print Assumptions C13_checksum_accepts_only.

Theorem C13_checksum_refusals : forall x data,
  ((length data < 4)%nat -> shift_checksum x data = (false, data)) /\
  ((4 <= length data)%nat -> fst (shift_checksum x data) = false ->
     shift_checksum x data = (false, []) /\ take 4 data <> shared_checksum x).
Proof.
  intros x data. split; [apply shift_short|apply shift_false_long].
Qed.
Print Assumptions C13_checksum_refusals.

Definition ex_shared : shared := mkShared (map N.of_nat (seq 1 20)) 120 3735928559.
Example C13_shared_nonvacuous :
  shared_bytes ex_shared =
    [1; 2; 3; 4; 5; 6; 7; 8; 9; 10; 11; 12; 13; 14; 15; 16; 17; 18; 19; 20; 0; 0; 0; 120; 222; 173; 190; 239]%N /\
  shared_decode (shared_bytes ex_shared) = Some ex_shared /\
  shared_decode (shared_bytes ex_shared ++ [0%N]) = None /\
  shared_decode (take 27 (shared_bytes ex_shared)) = None /\
  shift_checksum ex_shared (unshift_checksum ex_shared [7; 8; 9]%N) = (true, [7; 8; 9]%N) /\
  shift_checksum ex_shared [1; 2; 3]%N = (false, [1; 2; 3]%N) /\
  shift_checksum ex_shared [1; 2; 3; 4; 5]%N = (false, []) /\
  shift_checksum (mkShared (sh_sender ex_shared) 121 3735928559)
     (unshift_checksum ex_shared [7; 8; 9]%N) = (false, []) /\
  sha256 [97; 98; 99]%N =
    [186; 120; 22; 191; 143; 1; 207; 234; 65; 65; 64; 222; 93; 174; 34; 35;
     176; 3; 97; 163; 150; 23; 122; 156; 180; 16; 255; 97; 242; 0; 21; 173]%N.
Proof. vm_compute. repeat split; reflexivity. Qed.
