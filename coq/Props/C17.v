(** Props/C17.v — Vote-collected actions of the main-chain NeoFS contract
    (notary disabled) fire exactly at 2/3+1 distinct Alphabet votes.

    Model of the code: Model/Vote.v (common/vote.go) + Model/NeoFSVote.v
    (cheque, alphabetUpdate, setConfig, innerRingCandidateRemove).
    Specification: Spec/Tally.v (abstract tally per decision id, 20-block
    freshness, threshold [thr n = 2n/3+1]; vocabulary [decision_id], [args_ok],
    [action_ok], [effect], [notifs_of]).

    Everywhere: [vp], [sa], [di] are arbitrary interpretations of the
    cryptographic primitives (key validity, standard account of a key, the
    SHA-256 id of a candidate removal); histories [ops] are arbitrary lists
    of invocations (any contexts, any arguments) run from the deploy state
    [ninit keys cfg g] with arbitrary Alphabet list [keys], configuration and
    GAS balances; no bound on the list size, the number of ballots, heights.
    The only premise on histories is [heights_from h0 ops]:
    [ledger.CurrentIndex()] does not decrease from one transaction to the next. *)
From Verif Require Import Base.Prelude Model.Vote Model.NeoFSVote Model.VoteReentry Spec.Tally
  Proofs.Vote Proofs.VoteReentry.
Local Open Scope Z_scope.

(** ** Multisig arithmetic *)

(** For every committee size [n >= 1] the threshold is attainable, and it is
    a strict majority: two quorums always overlap. *)
Theorem C17_threshold : forall n, 1 <= n ->
  1 <= thr n <= n /\ n < 2 * thr n /\ n / 2 < thr n.
Proof. exact thr_bounds. Qed.
Print Assumptions C17_threshold.

(** The model's [len(alphabet)*2/3 + 1] is that threshold. *)
Theorem C17_threshold_model : forall a, threshold a = thr (Z.of_nat (length a)).
Proof. exact threshold_thr. Qed.
Print Assumptions C17_threshold_model.

(** Two sets of distinct keys of a list of [n] keys, each of at least
    [thr n] keys, share a key: two conflicting decisions cannot both be
    approved by disjoint groups. *)
Theorem C17_quorums_intersect : forall (A q1 q2 : list bytes),
  NoDup q1 -> NoDup q2 -> q1 ⊆ A -> q2 ⊆ A ->
  thr (Z.of_nat (length A)) <= Z.of_nat (length q1) ->
  thr (Z.of_nat (length A)) <= Z.of_nat (length q2) ->
  exists k, k ∈ q1 /\ k ∈ q2.
Proof. exact quorums_intersect_thm. Qed.
Print Assumptions C17_quorums_intersect.

(** ** Only Alphabet members vote *)

(** An invocation of a vote-gated method ([decision_id <> None]: cheque,
    alphabetUpdate, setConfig, and candidate removal not witnessed by the
    candidate) that no key of the stored Alphabet list witnesses faults:
    state unchanged (so it is not counted), no notification.  Every state. *)
Theorem C17_only_alphabet : forall vp sa di (s : nstate) c o,
  decision_id di c o <> None ->
  (forall k, k ∈ alphabet s -> k ∉ witnessed c) ->
  nstep vp sa di s (c, o) = (s, None, []).
Proof. intros. apply nstep_stranger; assumption. Qed.
Print Assumptions C17_only_alphabet.

(** The key under which a vote is counted is a key of the stored list that
    the transaction witnesses. *)
Theorem C17_invoker_is_member : forall vp c (s : nstate) k,
  alphabet_invoker vp c s = Halt k -> k ∈ alphabet s /\ k ∈ witnessed c.
Proof. intros vp c s k. apply alphabet_invoker_member. Qed.
Print Assumptions C17_invoker_is_member.

(** ** The stored ballots refine the abstract tally *)

(** Over every history the contract model and the spec machine (same
    methods over the abstract tally box) produce the same outcomes and
    notifications step by step, end in the same alphabet / config /
    candidates / GAS, and for every decision id the voters of the stored live
    ballot are the spec tally — at every height from the last invocation's
    on.  No two stored ballots share an id. *)
Theorem C17_refines_tally : forall vp sa di h0 keys cfg g ops,
  heights_from h0 ops ->
  let sl := nrun_from vp sa di (ninit keys cfg g) ops in
  let tl := trun_from vp sa di (tinit keys cfg g) ops in
  snd sl = snd tl /\
  same_but_box (fst sl) (fst tl) /\
  NoDup (map bid (box (fst sl))) /\
  forall id h, h0 <= h -> (forall co, co ∈ ops -> height (fst co) <= h) ->
    stored_tally (box (fst sl)) id h = tlive (box (fst tl)) id h.
Proof. exact refines_tally_thm. Qed.
Print Assumptions C17_refines_tally.

(** A repeated vote of a key already in the live tally (below the
    threshold) changes nothing at all. *)
Theorem C17_repeated_vote_inert : forall vp sa di h0 keys cfg g ops c o id,
  heights_from h0 (ops ++ [(c, o)]) -> decision_id di c o = Some id ->
  let s := fst (nrun_from vp sa di (ninit keys cfg g) ops) in
  let T := box (fst (trun_from vp sa di (tinit keys cfg g) ops)) in
  forall k, alphabet_invoker vp c s = Halt k -> k ∈ tlive T id (height c) ->
  tally_incl T id k (height c) = tlive T id (height c) /\
  (snd (fst (nstep vp sa di s (c, o))) = Some false -> fst (fst (nstep vp sa di s (c, o))) = s).
Proof. exact repeated_vote_thm. Qed.
Print Assumptions C17_repeated_vote_inert.

(** A vote for [id] never creates or alters a ballot of another decision;
    at most it prunes, among them, exactly those older than 20 blocks. *)
Theorem C17_other_decisions_untouched : forall vp sa di h0 keys cfg g ops c o id,
  heights_from h0 ops -> decision_id di c o = Some id ->
  let s := fst (nrun_from vp sa di (ninit keys cfg g) ops) in
  let bs' := box (fst (fst (nstep vp sa di s (c, o)))) in
  others id bs' = others id (box s) \/
  others id bs' = others id (live_list (height c) (box s)).
Proof.
  intros vp sa di h0 keys cfg g ops c o id Hh Hd s bs'. apply nstep_others; [exact Hd|].
  destruct (run_refines vp sa di h0 _ _ ops (init_rel h0 keys cfg g) Hh) as [_ [_ [Hn _]]]. exact Hn.
Qed.
Print Assumptions C17_other_decisions_untouched.

(** ** The action fires exactly when the tally reaches the threshold *)

(** After any history, for a vote-gated invocation [(c, o)] for decision [id],
    with [T] the abstract tally of the history so far:
    - the action is executed in this step IFF the transaction is witnessed by
      a stored Alphabet key [k] (the first such), the arguments are
      well-formed, the tally of [id] INCLUDING this vote has reached
      [thr n], [n] = length of the stored list, and the action can be
      carried out;
    - then the state is the old one with exactly the effect of the action,
      the notifications are exactly those of the action (one; none for a
      candidate removal) and no ballot for [id] is left;
    - otherwise there is no notification and nothing but the ballot box
      changes; a faulted invocation changes nothing. *)
Theorem C17_fires_iff : forall vp sa di h0 keys cfg g ops c o id,
  heights_from h0 (ops ++ [(c, o)]) -> decision_id di c o = Some id ->
  let s := fst (nrun_from vp sa di (ninit keys cfg g) ops) in
  let T := box (fst (trun_from vp sa di (tinit keys cfg g) ops)) in
  let n := Z.of_nat (length (alphabet s)) in
  let '(s', r, ns) := nstep vp sa di s (c, o) in
  (r = Some true <->
   exists k, alphabet_invoker vp c s = Halt k /\ args_ok vp o = true /\
             thr n <= Z.of_nat (length (tally_incl T id k (height c))) /\
             action_ok c s o = true) /\
  (r = Some true -> s' = effect c s (box s') o /\ ns = notifs_of o /\ find_id id (box s') = None) /\
  (r <> Some true -> ns = [] /\ same_but_box s' s) /\
  (r = None -> s' = s).
Proof.
  intros vp sa di h0 keys cfg g ops c o id Hh Hd s T n.
  pose proof (history_gated vp sa di h0 keys cfg g ops c o id Hh Hd) as Hg. cbn zeta in Hg. fold s T in Hg.
  destruct (nstep vp sa di s (c, o)) as [[s' r] ns]. cbn [fst snd] in Hg.
  exact (gated_outcome_iff vp sa di c s T o id s' r ns Hg).
Qed.
Print Assumptions C17_fires_iff.

(** A halting vote below the threshold is counted: afterwards the stored
    live ballot of [id] holds exactly the tally including this vote. *)
Theorem C17_vote_counted : forall vp sa di h0 keys cfg g ops c o id,
  heights_from h0 (ops ++ [(c, o)]) -> decision_id di c o = Some id ->
  let s := fst (nrun_from vp sa di (ninit keys cfg g) ops) in
  let T := box (fst (trun_from vp sa di (tinit keys cfg g) ops)) in
  let '(s', r, ns) := nstep vp sa di s (c, o) in
  r = Some false ->
  exists k, alphabet_invoker vp c s = Halt k /\
    stored_tally (box s') id (height c) = tally_incl T id k (height c) /\
    Z.of_nat (length (tally_incl T id k (height c))) < thr (Z.of_nat (length (alphabet s))).
Proof.
  intros vp sa di h0 keys cfg g ops c o id Hh Hd s T.
  pose proof (vote_counted_thm vp sa di h0 keys cfg g ops c o id Hh Hd) as H. cbn zeta in H. fold s T in H.
  destruct (nstep vp sa di s (c, o)) as [[s' r] ns]. exact H.
Qed.
Print Assumptions C17_vote_counted.

(** Once per completed tally: in the spec machine, too, the step that
    decides erases the tally of [id] (so the next vote for [id] opens a new
    ballot with count 1), and the history continues in agreement. *)
Theorem C17_fires_once : forall vp sa di h0 keys cfg g ops c o id,
  heights_from h0 (ops ++ [(c, o)]) -> decision_id di c o = Some id ->
  let s' := fst (nrun_from vp sa di (ninit keys cfg g) (ops ++ [(c, o)])) in
  let T' := box (fst (trun_from vp sa di (tinit keys cfg g) (ops ++ [(c, o)]))) in
  snd (fst (nstep vp sa di (fst (nrun_from vp sa di (ninit keys cfg g) ops)) (c, o))) = Some true ->
  forall h k, height c <= h ->
    stored_tally (box s') id h = [] /\ tlive T' id h = [] /\ tally_incl T' id k h = [k].
Proof. exact fires_once_thm. Qed.
Print Assumptions C17_fires_once.

(** ** Stale votes never add up *)

(** If every earlier invocation that voted for [id] lies more than 20 blocks
    back, nothing of them counts: the tally including this vote is this vote
    alone; the step decides only when the list has a single key; otherwise
    the stored ballot restarts with this one voter. *)
Theorem C17_stale : forall vp sa di h0 keys cfg g ops c o id,
  heights_from h0 (ops ++ [(c, o)]) -> decision_id di c o = Some id ->
  (forall co, co ∈ ops -> decision_id di (fst co) (snd co) = Some id ->
              height c - height (fst co) > 20) ->
  let s := fst (nrun_from vp sa di (ninit keys cfg g) ops) in
  let T := box (fst (trun_from vp sa di (tinit keys cfg g) ops)) in
  let '(s', r, ns) := nstep vp sa di s (c, o) in
  (forall k, tally_incl T id k (height c) = [k]) /\
  (r = Some true -> length (alphabet s) = 1%nat) /\
  (r = Some false -> exists k, alphabet_invoker vp c s = Halt k /\
                               stored_tally (box s') id (height c) = [k]).
Proof.
  intros vp sa di h0 keys cfg g ops c o id Hh Hd Hold s T.
  pose proof (stale_thm vp sa di h0 keys cfg g ops c o id Hh Hd Hold) as H. cbn zeta in H. fold s T in H.
  destruct (nstep vp sa di s (c, o)) as [[s' r] ns]. exact H.
Qed.
Print Assumptions C17_stale.

(** ** The quorum consists of distinct members — with a fixed list *)

(** In a history that never replaces the Alphabet list [A] by a different
    one, a decision is taken exactly when a NEW vote makes the tally reach
    [thr |A|]: the tally including the deciding vote is a repetition-free list
    of keys of [A] of length exactly [thr |A|], and the deciding key was not
    in it before. *)
Theorem C17_quorum_partial : forall vp sa di h0 A cfg g ops c o id,
  heights_from h0 (ops ++ [(c, o)]) -> decision_id di c o = Some id ->
  Forall (keeps_list A) ops ->
  let s := fst (nrun_from vp sa di (ninit A cfg g) ops) in
  let T := box (fst (trun_from vp sa di (tinit A cfg g) ops)) in
  snd (fst (nstep vp sa di s (c, o))) = Some true ->
  alphabet s = A /\
  exists k, alphabet_invoker vp c s = Halt k /\
    let vs := tally_incl T id k (height c) in
    NoDup vs /\ vs ⊆ A /\ Z.of_nat (length vs) = thr (Z.of_nat (length A)) /\
    k ∉ tlive T id (height c).
Proof. exact quorum_thm. Qed.
Print Assumptions C17_quorum_partial.

(** Without that premise the statement is false: ballots survive a change
    of the list.  Witness W1 (votes of ex-members are counted) and W2 (after
    the list has shrunk a repeated vote decides). *)
Definition xk (i : N) : bytes := repeat i 33.
Definition xself : bytes := repeat 200%N 20.
Definition xuser : bytes := repeat 201%N 20.
Definition xc (signer : N) (h : Z) : nctx := mkNCtx [xk signer] h xself.
Definition xid (b : N) : bytes := [b].
Definition xvp (_ : bytes) := true.
Definition xid_fun (b : bytes) := b.
Definition xA : list bytes := [xk 1; xk 2; xk 3; xk 4].
Definition xg : gmap bytes Z := {[ xself := 100 ]}.
Definition xB : list bytes := [xk 5; xk 6; xk 7; xk 8].
Definition xW1 : list (nctx * nop) :=
  [ (xc 1 1, Cheque (xid 1) xuser 10 []); (xc 2 1, Cheque (xid 1) xuser 10 []);
    (xc 1 2, AlphabetUpdate (xid 2) xB); (xc 2 2, AlphabetUpdate (xid 2) xB);
    (xc 3 2, AlphabetUpdate (xid 2) xB) ].
Definition xW2 : list (nctx * nop) :=
  [ (xc 1 1, Cheque (xid 1) xuser 10 []); (xc 2 1, Cheque (xid 1) xuser 10 []);
    (xc 1 2, AlphabetUpdate (xid 2) [xk 1]); (xc 2 2, AlphabetUpdate (xid 2) [xk 1]);
    (xc 3 2, AlphabetUpdate (xid 2) [xk 1]) ].

Theorem C17_quorum_refuted :
  (* W1: a decision taken with one vote of a current member and two of ex-members *)
  (exists ops c o id k v,
     heights_from 0 (ops ++ [(c, o)]) /\ decision_id xid_fun c o = Some id /\
     let s := fst (nrun_from xvp xid_fun xid_fun (ninit xA ∅ xg) ops) in
     let T := box (fst (trun_from xvp xid_fun xid_fun (tinit xA ∅ xg) ops)) in
     snd (fst (nstep xvp xid_fun xid_fun s (c, o))) = Some true /\
     alphabet_invoker xvp c s = Halt k /\
     existsb (bytes_eqb v) (tally_incl T id k (height c)) = true /\
     existsb (bytes_eqb v) (alphabet s) = false) /\
  (* W2: a decision taken by a repeated vote *)
  (exists ops c o id k,
     heights_from 0 (ops ++ [(c, o)]) /\ decision_id xid_fun c o = Some id /\
     let s := fst (nrun_from xvp xid_fun xid_fun (ninit xA ∅ xg) ops) in
     let T := box (fst (trun_from xvp xid_fun xid_fun (tinit xA ∅ xg) ops)) in
     snd (fst (nstep xvp xid_fun xid_fun s (c, o))) = Some true /\
     alphabet_invoker xvp c s = Halt k /\
     existsb (bytes_eqb k) (tlive T id (height c)) = true).
Proof.
  split.
  - exists xW1, (xc 5 3), (Cheque (xid 1) xuser 10 []), (xid 1), (xk 5), (xk 1).
    split; [cbn; lia|]. split; [reflexivity|]. cbn zeta.
    repeat split; vm_compute; reflexivity.
  - exists xW2, (xc 1 3), (Cheque (xid 1) xuser 10 []), (xid 1), (xk 1).
    split; [cbn; lia|]. split; [reflexivity|]. cbn zeta.
    repeat split; vm_compute; reflexivity.
Qed.
Print Assumptions C17_quorum_refuted.

(** ** Non-vacuity *)

(** n = 4, threshold 3: stranger rejected; two members vote; a repeated vote
    and a vote for another id do not help; the third member decides: one
    payout of 10, one notification; the next vote starts a new ballot. *)
Definition xhist : list (nctx * nop) :=
  [ (xc 9 1, Cheque (xid 1) xuser 10 []);      (* stranger *)
    (xc 1 1, Cheque (xid 1) xuser 10 []);
    (xc 2 2, Cheque (xid 1) xuser 10 []);
    (xc 2 3, Cheque (xid 1) xuser 10 []);      (* repeated *)
    (xc 3 3, Cheque (xid 7) xuser 10 []);      (* other id *)
    (xc 3 4, Cheque (xid 1) xuser 10 []);      (* decides *)
    (xc 4 5, Cheque (xid 1) xuser 10 []) ].    (* new ballot *)

Example C17_nonvacuous :
  let '(s, log) := nrun_from xvp xid_fun xid_fun (ninit xA ∅ xg) xhist in
  (log, gas_bal (gas s) xself, gas_bal (gas s) xuser,
   map (fun b => (bid b, length (voters b), bheight b)) (box s))
  = ([ (None, []); (Some false, []); (Some false, []); (Some false, []); (Some false, []);
       (Some true, [NCheque (xid 1) xuser 10 []]); (Some false, []) ],
     90, 10, [ (xid 7, 1%nat, 3); (xid 1, 1%nat, 5) ]).
Proof. vm_compute. reflexivity. Qed.

(** The hypotheses of [C17_fires_iff], [C17_quorum_partial] are met by the
    deciding step of that history, and the right-hand side holds there. *)
Example C17_nonvacuous_fires :
  let ops := firstn 5 xhist in
  let c := xc 3 4 in let o := Cheque (xid 1) xuser 10 [] in
  heights_from 0 (ops ++ [(c, o)]) /\ decision_id xid_fun c o = Some (xid 1) /\
  Forall (keeps_list xA) ops /\
  let s := fst (nrun_from xvp xid_fun xid_fun (ninit xA ∅ xg) ops) in
  let T := box (fst (trun_from xvp xid_fun xid_fun (tinit xA ∅ xg) ops)) in
  snd (fst (nstep xvp xid_fun xid_fun s (c, o))) = Some true /\
  alphabet_invoker xvp c s = Halt (xk 3) /\
  tally_incl T (xid 1) (xk 3) 4 = [xk 1; xk 2; xk 3] /\ thr 4 = 3.
Proof.
  cbn zeta. split; [cbn; lia|]. split; [reflexivity|].
  split; [repeat constructor; intros id ks H; discriminate|].
  repeat split; vm_compute; reflexivity.
Qed.

(** Stale: votes 21 blocks apart do not add up (gap of 20 does). *)
Example C17_nonvacuous_stale :
  let run hs := snd (nrun_from xvp xid_fun xid_fun (ninit xA ∅ xg)
                       (map (fun p => (xc (fst p) (snd p), Cheque (xid 1) xuser 10 [])) hs)) in
  map fst (run [(1%N, 1); (2%N, 21); (3%N, 41)]) = [Some false; Some false; Some true] /\
  map fst (run [(1%N, 1); (2%N, 21); (3%N, 42); (4%N, 42); (1%N, 42)]) =
    [Some false; Some false; Some false; Some false; Some true].
Proof. split; vm_compute; reflexivity. Qed.

(** ** Cheques to contract payees that call back (Model/VoteReentry.v)

    The payee of a cheque may be a contract; native GAS then runs its
    [onNEP17Payment] inside [Cheque], after the ballot has been removed and
    before the notification.  Model/VoteReentry.v describes such a payee by a
    finite program of nested vote-gated invocations (same witnesses, same
    height) with an optional fault, executed with fuel; a nested fault
    faults the whole transaction. *)

(** The model used by all theorems above is the special case without contract
    payees: same outcome, same state, same notifications. *)
Theorem C17_reentry_plain_case : forall vp sa di f c s o,
  plain_call s o ->
  rexec vp (S f) c s o = lift_res (contracts s) (nexec vp sa di c (base s) (rcall_nop o)).
Proof. exact rexec_plain. Qed.
Print Assumptions C17_reentry_plain_case.

Theorem C17_reentry_plain_step : forall vp sa di f s c o,
  contracts s = ∅ ->
  let r1 := rstep vp (S f) s (c, RInvoke o) in
  let r2 := nstep vp sa di (base s) (c, rcall_nop o) in
  base (fst (fst r1)) = fst (fst r2) /\ contracts (fst (fst r1)) = ∅ /\
  (snd (fst r1) = None <-> snd (fst r2) = None) /\ snd r1 = snd r2.
Proof. exact rstep_plain. Qed.
Print Assumptions C17_reentry_plain_step.

(** A contract payee that is unarmed or armed with the empty program is paid
    exactly like a plain account (only its payment counter moves). *)
Theorem C17_reentry_inert_payee : forall vp sa di f c s id user amount lockAcc p,
  contracts s !! user = Some p -> inert_payee p ->
  rexec vp (S f) c s (RCheque id user amount lockAcc) =
  match nexec vp sa di c (base s) (Cheque id user amount lockAcc) with
  | Halt (st', fired, ns) =>
      Halt (mkR st' (if fired then <[user := mkPayee None (pcount p + 1)]> (contracts s) else contracts s), ns)
  | Fault => Fault
  end.
Proof. exact rexec_inert_payee. Qed.
Print Assumptions C17_reentry_inert_payee.

(** For every state without two ballots of one id, every payee program and
    every fuel: if the threshold is at least 2 (n >= 2), one transaction
    notifies (= executes) every decision id AT MOST ONCE.  The ballot is erased
    before the payee runs, so a nested vote for the same id by the same key
    only opens a fresh ballot of one voter, which is below the threshold. *)
Theorem C17_reentry_fires_once : forall vp fuel c s o s' ns,
  NoDup (map bid (box (base s))) -> 2 <= threshold (alphabet (base s)) ->
  rexec vp fuel c s o = Halt (s', ns) ->
  NoDup (map notif_id ns) /\ NoDup (map bid (box (base s'))) /\ alphabet (base s') = alphabet (base s).
Proof. exact reentry_once_thm. Qed.
Print Assumptions C17_reentry_fires_once.

(** The same over every history of transactions (invocations, arming and
    disarming of payee contracts) from the deploy state. *)
Theorem C17_reentry_history_once : forall vp fuel keys cfg g payees ops c o,
  let s := rhist vp fuel (rinit keys cfg g payees) ops in
  2 <= threshold (alphabet (base s)) ->
  NoDup (map notif_id (snd (rstep vp fuel s (c, RInvoke o)))).
Proof. exact reentry_history_once_thm. Qed.
Print Assumptions C17_reentry_history_once.

(** The top-level invocation executes nothing below the threshold; at the
    threshold its own action is the last thing notified (after whatever the
    payee's nested invocations legitimately completed). *)
Theorem C17_reentry_top : forall vp f c s o s' ns k,
  NoDup (map bid (box (base s))) -> alphabet_invoker vp c (base s) = Halt k ->
  rexec vp (S f) c s o = Halt (s', ns) ->
  let cnt := Z.of_nat (length (tally_incl (abs_box (box (base s))) (rcall_id o) k (height c))) in
  (cnt < threshold (alphabet (base s)) /\ ns = [] /\ contracts s' = contracts s) \/
  (threshold (alphabet (base s)) <= cnt /\
   stored_tally (box (base s)) (rcall_id o) (height c) ⊆ tally_incl (abs_box (box (base s))) (rcall_id o) k (height c) /\
   exists ns0, ns = ns0 ++ notifs_of (rcall_nop o)).
Proof. exact reentry_top_thm. Qed.
Print Assumptions C17_reentry_top.

(** The premise [2 <= threshold] is needed: with a single Alphabet key every
    vote is a complete tally, so the payee's nested vote for the same id is a
    second, complete decision (two notifications with one id). *)
Definition xH : bytes := repeat 202%N 20.
Definition xprog : program := mkProg [RCheque (xid 1) xH 10 []] false.
Theorem C17_reentry_fires_once_n1_refuted :
  exists c s o s' ns,
    NoDup (map bid (box (base s))) /\ threshold (alphabet (base s)) = 1 /\
    rexec xvp 4 c s o = Halt (s', ns) /\ map notif_id ns = [xid 1; xid 1].
Proof.
  exists (xc 1 1), (mkR (ninit [xk 1] ∅ xg) {[ xH := mkPayee (Some xprog) 0 ]}), (RCheque (xid 1) xH 10 []).
  eexists _, _. split; [constructor|]. split; [reflexivity|]. split; vm_compute; reflexivity.
Qed.
Print Assumptions C17_reentry_fires_once_n1_refuted.

(** Non-vacuity, n = 4 (threshold 3), payee armed to vote for the same cheque
    again: the third vote pays once (10), one notification; the nested vote
    leaves a fresh ballot with one voter; the payee saw one payment. *)
Example C17_reentry_nonvacuous :
  let s0 := mkR (ninit xA ∅ xg) {[ xH := mkPayee (Some xprog) 0 ]} in
  let chq := RInvoke (RCheque (xid 1) xH 10 []) in
  let s3 := rhist xvp 4 s0 [(xc 1 1, chq); (xc 2 2, chq)] in
  let '(s', r, ns) := rstep xvp 4 s3 (xc 3 3, chq) in
  (r, ns, gas_bal (gas (base s')) xH, map (fun b => (bid b, voters b)) (box (base s')),
   contracts s' !! xH)
  = (Some true, [NCheque (xid 1) xH 10 []], 10, [(xid 1, [xk 3])], Some (mkPayee None 1)).
Proof. vm_compute. reflexivity. Qed.
