(** Props/C04.v — Container registry = live set; deletion complete and final.
    Only statements, closed by short proofs, each followed by
    [Print Assumptions].  Model: Model/Container.v (storage-level: one map per
    key prefix of contracts/container/contract.go, plus the NNS slice the
    contract calls); spec: Spec/Registry.v; lemmas: Proofs/ContainerRegistry.v,
    Proofs/ContainerNNS.v.  Tie to the code: correspondence check of
    ./check C04.

    Premises that appear below: [cid_inj] — SHA-256 is injective (the id
    determines the blob); [b58_inj] — Base58 is injective.  Histories are
    arbitrary lists of invocations (put, putNamed, putMeta, delete, setEACL,
    any Balance invocation, netmap.setConfig, direct NNS register / addRecord /
    deleteRecords) by arbitrary signers at arbitrary block times, starting
    from any consistent state (in particular the freshly deployed one). *)
From Verif Require Import Base.Prelude Base.IntCodec Model.Balance Proofs.BalanceSum Proofs.Balance
  Model.Container Proofs.Container Spec.Registry Proofs.ContainerRegistry Proofs.ContainerNNS.
Local Open Scope Z_scope.

Section C04.
  Variable cid_of : bytes -> bytes.
  Variable b58 : bytes -> bytes.
  Hypothesis cid_inj : forall a b, cid_of a = cid_of b -> a = b.

  Notation wexec := (wexec cid_of b58).
  Notation wstep := (wstep cid_of b58).
  Notation wrun_from := (wrun_from cid_of b58).
  Notation CInv := (CInv cid_of).

  (** The six indices (x, o, d, eACL, nnsHasAlias, m) are mutually consistent
      after every history: every stored container sits under the hash of its
      blob and has exactly its owner-index entry, every owner-index entry
      belongs to a stored container, tombstoned ids are not stored, every
      satellite belongs to a stored container. *)
  Theorem C04_consistent : forall root ns ops,
    CInv (w_c (wrun_from (winit root ns) ops)).
  Proof. intros. apply (wrun_CInv cid_of b58 cid_inj). apply CInv_init. Qed.

  Theorem C04_consistent_from : forall w ops, CInv (w_c w) -> CInv (w_c (wrun_from w ops)).
  Proof. intros w ops H. apply (wrun_CInv cid_of b58 cid_inj). exact H. Qed.

  (** Refinement: the storage after any history abstracts to the registry
      obtained by applying the spec effect of exactly the calls that did not
      fault ... *)
  Theorem C04_refines : forall root ns ops,
    abs (w_c (wrun_from (winit root ns) ops))
    = spec_run cid_of b58 root (winit root ns) reg_empty ops.
  Proof.
    intros. rewrite (wrun_refines cid_of b58 cid_inj) by apply CInv_init.
    cbn [winit w_c cinit nroot]. f_equal.
  Qed.

  (** ... one invocation at a time. *)
  Theorem C04_refines_step : forall c w o w' r ns,
    CInv (w_c w) -> wexec c w o = Halt (w', r, ns) ->
    abs (w_c w') = spec_apply cid_of (nroot (w_c w)) (abs (w_c w)) o /\ CInv (w_c w').
  Proof.
    intros c w o w' r ns HI H. split.
    - eapply wexec_refines; eauto.
    - eapply wexec_CInv; eauto.
  Qed.

  (** The read API describes exactly the registry. *)
  Theorem C04_getters : forall cs, CInv cs ->
    (forall cid, get cs cid = spec_get (abs cs) cid) /\
    (forall cid, owner cs cid = spec_owner (abs cs) cid) /\
    (forall cid, alias cs cid = spec_alias (abs cs) cid) /\
    (forall cid, eacl cs cid = spec_eacl (abs cs) cid) /\
    count cs = spec_count (abs cs) /\
    (* list / containersOf of an owner (or a prefix of one): exactly the live
       ids whose owner has that prefix, each once *)
    (forall p cid, (length p <= 25)%nat ->
       cid ∈ containers_of cs p <-> spec_owned (abs cs) p cid) /\
    (forall p, NoDup (containers_of cs p)) /\
    (forall p, nonempty p = true -> list_cnrs cs p = containers_of cs p) /\
    (* list of the empty owner: all live ids, ascending, each once *)
    (forall cid, cid ∈ list_cnrs cs [] <-> is_Some (live (abs cs) !! cid)) /\
    Sorted bytes_le (list_cnrs cs []) /\ NoDup (list_cnrs cs []).
  Proof.
    intros cs HI.
    split; [intros; apply (get_spec cid_of); auto|].
    split; [intros; apply (owner_spec cid_of); auto|].
    split; [intros; apply (alias_spec cid_of); auto|].
    split; [intros; apply (eacl_spec cid_of); auto|].
    split; [apply count_spec|].
    split; [intros; apply (containers_of_spec cid_of); auto|].
    split; [intros; apply (containers_of_nodup cid_of); auto|].
    split; [intros; apply list_owner_eq; auto|].
    split; [intros; apply list_all_spec|].
    apply list_all_sorted.
  Qed.

  (** list / containersOf of a (25-byte) owner come in ascending order of ids. *)
  Theorem C04_list_sorted : forall cs o,
    CInv cs -> length o = 25%nat ->
    Sorted bytes_le (containers_of cs o) /\ list_cnrs cs o = containers_of cs o.
  Proof.
    intros cs o HI Hl. split; [apply (containers_of_sorted cid_of); auto|].
    apply list_owner_eq. destruct o; [discriminate|reflexivity].
  Qed.

  Theorem C04_get_is_preimage : forall cs cid c,
    CInv cs -> get cs cid = Halt c -> cid_of (c_val c) = cid.
  Proof. intros. eapply get_preimage; eauto. Qed.

  (** Every getter reports 'not found' (faults) for ids that are not live —
      never stored, deleted, of a wrong length. *)
  Theorem C04_not_found : forall cs cid,
    live (abs cs) !! cid = None ->
    get cs cid = Fault /\ owner cs cid = Fault /\ alias cs cid = Fault /\ eacl cs cid = Fault.
  Proof.
    intros cs cid H. apply not_found. rewrite abs_live in H.
    destruct (cnrs cs !! cid); [discriminate|reflexivity].
  Qed.

  (** A successful delete (DeleteSuccess emitted) removes every trace of the
      container from the contract's storage: descriptor, eACL, alias marker,
      meta flag, and no owner-index key has the id as its id component; only
      the tombstone remains. *)
  Theorem C04_delete_total_storage : forall c w cid sig tok w' r ns,
    CInv (w_c w) -> wexec c w (Delete cid sig tok) = Halt (w', r, ns) -> In (NDel cid) ns ->
    cnrs (w_c w') !! cid = None /\ eacls (w_c w') !! cid = None /\
    aliases (w_c w') !! cid = None /\ cid ∉ metas (w_c w') /\ cid ∈ tomb (w_c w') /\
    (forall k v, oidx (w_c w') !! k = Some v ->
       v <> cid /\ exists o, length o = 25%nat /\ k = o ++ v).
  Proof.
    intros c w cid sig tok w' r ns HI H Hin.
    cbn [Container.wexec] in H. obind H as [w1 ns1] E. injection H as <- _ <-.
    destruct (del_state_eq cid_of _ _ _ _ _ _ _ HI E)
      as [(_ & _ & ->)|(cn & ow & Hc & Ho & _ & -> & _)]; [contradiction|].
    apply (del_state_clean cid_of cid_inj _ _ _ _ HI Hc Ho).
  Qed.

  (** Deletion is final: a tombstoned id is never live again, whatever
      follows; its tombstone stays. *)
  Theorem C04_delete_final : forall w ops cid,
    CInv (w_c w) -> cid ∈ tomb (w_c w) ->
    let w' := wrun_from w ops in
    cid ∈ tomb (w_c w') /\ live (abs (w_c w')) !! cid = None /\ get (w_c w') cid = Fault.
  Proof. intros. apply (delete_final cid_of b58 cid_inj); auto. Qed.

  (** Exactly one PutSuccess / DeleteSuccess / SetEACLSuccess per successful
      call, naming the container; no other invocation emits them; a faulting
      invocation emits nothing. *)
  Theorem C04_notifications : forall w co,
    CInv (w_c w) ->
    let '(w', r, ns) := wstep w co in
    cnotifs ns = if val_eqb r VFault then [] else expected_notifs cid_of (w_c w) (snd co).
  Proof.
    intros w co HI.
    destruct (wstep_cases cid_of b58 w co) as [(w' & r & ns & He & ->)|(_ & ->)]; [|reflexivity].
    assert (Hr : val_eqb r VFault = false).
    { pose proof (wexec_ret _ _ _ _ _ _ _ _ He) as Hr. destruct r; try reflexivity. congruence. }
    rewrite Hr. eapply wexec_notifs; eauto.
  Qed.

  (** "Deleting a container removes ... its NNS record": under the premise
      [wf_alias] (at most one alias per container id; the alias domain is
      registered and unexpired when the container is deleted; records written
      into NNS by others are not Base58 ids), after a successful delete no
      TXT record anywhere in NNS names the container. *)
  Hypothesis b58_inj : forall a b, b58 a = b58 b -> a = b.
  Variable foreign : bytes -> bool.
  Hypothesis foreign_b58 : forall cid, foreign (b58 cid) = false.

  Theorem C04_delete_total_partial : forall w0 pre c cid sig tok post w' r ns,
    CInv (w_c w0) -> alias_sound b58 w0 ->
    wf_alias cid_of b58 foreign w0 (pre ++ (c, Delete cid sig tok) :: post) = true ->
    wstep (wrun_from w0 pre) (c, Delete cid sig tok) = (w', r, ns) -> In (NDel cid) ns ->
    forall key recs, txts (w_n w') !! key = Some recs -> b58 cid ∉ recs.
  Proof. intros. eapply (delete_total_nns cid_of b58 cid_inj b58_inj foreign foreign_b58); eauto. Qed.
End C04.

Print Assumptions C04_consistent.
Print Assumptions C04_refines.
Print Assumptions C04_refines_step.
Print Assumptions C04_getters.
Print Assumptions C04_list_sorted.
Print Assumptions C04_get_is_preimage.
Print Assumptions C04_not_found.
Print Assumptions C04_delete_total_storage.
Print Assumptions C04_delete_final.
Print Assumptions C04_notifications.
Print Assumptions C04_delete_total_partial.

(** * The general statement is false of the code as it is (finding C04/realias)

    putNamed of a *live* container under a second name overwrites the alias
    marker; delete then removes only the last alias' TXT record, the first
    one stays in NNS (and its name stays taken).  Witness, with the identity
    for both hash functions (injective), on the freshly deployed state. *)
Definition xOwner : bytes := 53%N :: repeat 7%N 20 ++ [1;2;3;4]%N.
Definition xBlob (salt : N) : bytes := [10; 0; 18; 27; 10; 25]%N ++ xOwner ++ [salt].
Definition xSelf : bytes := repeat 99%N 20.
Definition xComm : bytes := repeat 98%N 20.
Definition xPub : bytes := repeat 2%N 33.
Definition xCtx (now : Z) : cctx := mkCC true [repeat 201%N 20] now [xComm] xComm xSelf.
Definition xNNS : nstate := mkN {[ default_root ]} {[ default_root := mkName [] 1000000 ]} ∅.
Definition xid (b : bytes) : bytes := b.
Definition xaaa : bytes := [97;97;97]%N.
Definition xbbb : bytes := [98;98;98]%N.
Definition x_hist : list (cctx * wop) :=
  [ (xCtx 1, SetConfig key_fee 0);
    (xCtx 2, SetConfig key_alias_fee 0);
    (xCtx 3, PutNamed (xBlob 1) [] xPub [9%N] xaaa []);
    (xCtx 4, PutNamed (xBlob 1) [] xPub [9%N] xbbb []) ].

Theorem C04_delete_total_refuted :
  exists (cid_of b58 : bytes -> bytes),
    (forall a b, cid_of a = cid_of b -> a = b) /\ (forall a b, b58 a = b58 b -> a = b) /\
    exists w0 pre c cid sig tok,
      CInv cid_of (w_c w0) /\ alias_sound b58 w0 /\
      let res := wstep cid_of b58 (wrun_from cid_of b58 w0 pre) (c, Delete cid sig tok) in
      In (NDel cid) (snd res) /\
      exists key recs, txts (w_n (fst (fst res))) !! key = Some recs /\ b58 cid ∈ recs.
Proof.
  exists xid, xid. split; [auto|]. split; [auto|].
  exists (winit default_root xNNS), x_hist, (xCtx 5), (xBlob 1), [], [].
  split; [apply CInv_init|]. split.
  { intros tok nm recs cid H. cbn in H. rewrite lookup_empty in H. discriminate. }
  cbv zeta. split; [vm_compute; left; reflexivity|].
  exists (xaaa ++ dot :: default_root, xaaa ++ dot :: default_root), [xBlob 1].
  split; [vm_compute; reflexivity|]. apply elem_of_list_singleton. reflexivity.
Qed.
Print Assumptions C04_delete_total_refuted.

(** The first name stays taken for ever: a later putNamed of another container
    under it faults, the last one is free again. *)
Example C04_realias_name_lost :
  let w := wrun_from xid xid (winit default_root xNNS) (x_hist ++ [(xCtx 5, Delete (xBlob 1) [] [])]) in
  snd (fst (wstep xid xid w (xCtx 6, PutNamed (xBlob 2) [] xPub [9%N] xaaa []))) = VFault /\
  snd (fst (wstep xid xid w (xCtx 6, PutNamed (xBlob 2) [] xPub [9%N] xbbb []))) = VNull /\
  nns_get_records 6 (w_n w) (xaaa ++ dot :: default_root) = NOk [xBlob 1].
Proof. vm_compute. auto. Qed.

(** * Non-vacuity of the premises: a history with named puts, name reuse after
    deletion, re-put of a live container, replay of a deleted one, setEACL,
    which satisfies [wf_alias] and reaches a non-trivial state. *)
Definition x_good : list (cctx * wop) :=
  [ (xCtx 1, SetConfig key_fee 0);
    (xCtx 2, SetConfig key_alias_fee 0);
    (xCtx 3, PutNamed (xBlob 1) [] xPub [9%N] xaaa []);
    (xCtx 4, Put (xBlob 1) [7%N] xPub [9%N]);                   (* re-put of a live container *)
    (xCtx 5, SetEACL ([0; 0; 1; 1; 1; 1]%N ++ xBlob 1) [] xPub []);
    (xCtx 6, Delete (xBlob 1) [] []);
    (xCtx 7, PutNamed (xBlob 2) [] xPub [9%N] xaaa []);         (* the name is reused *)
    (xCtx 8, Put (xBlob 1) [] xPub [9%N]);                      (* replay: refused *)
    (xCtx 9, PutMeta (xBlob 3) [] xPub [9%N] true);
    (xCtx 10, Delete (xBlob 9) [] []) ].                        (* delete of a missing container *)

Example C04_nonvacuous :
  let w0 := winit default_root xNNS in
  let w := wrun_from xid xid w0 x_good in
  wf_alias xid xid (fun _ => false) w0 x_good = true /\
  list_cnrs (w_c w) [] = [xBlob 2; xBlob 3] /\
  count (w_c w) = 2 /\
  get (w_c w) (xBlob 1) = Fault /\
  alias (w_c w) (xBlob 2) = Halt (Some (xaaa ++ dot :: default_root)) /\
  nns_get_records 11 (w_n w) (xaaa ++ dot :: default_root) = NOk [xBlob 2].
Proof. vm_compute. auto 10. Qed.
