(** Props/C16.v — Contract upgrade is committee-gated, version-monotonic,
    data-preserving.  Only statements, each closed by a short proof and
    followed by [Print Assumptions].

    Model: Model/Migration.v over Model/MigStore.v, tied to
    contracts/*/contract.go, common/version.go, common/vote.go by the
    correspondence check of ./check C16 (gate sweep on the eleven real
    contracts compiled with patched version constants; migrations of
    synthetic legacy storages through the injector stub).

    Quantification.  [msaddr], [stdacc], [h160] stand for the platform
    functions CreateMultisigAccount, CreateStandardAccount and RIPEMD-160 and
    are universally quantified; [prevN]/[verN] are PrevVersion/Version of the
    new code; [e : env] is what the invocation sees of the chain (height,
    committee, designated NeoFS Alphabet, the set of witnessed script
    hashes): "all signer contexts" = all [e]; [st]/[s] is ANY storage.

    Finding recorded here (model faithful to the unchanged code, confirmed
    on the real contract by the harness corpus; known finding
    C16/container-estimation-key-len57):
    - [C16_preserves_container_refuted]: a 57-byte estimation key
      ("cnr" + 12-byte epoch + cid + 10) is taken for an owner-index entry
      by the length-selected key migration; [C16_preserves_container_partial]
      holds under the decidable layout predicate [legacy_wf_container].
    (The Null re-encoding of empty pre-0.16 Netmap snapshots found by this
    family was fixed in /repo, commit 3adfa7f; the model describes the fixed
    code and [C16_preserves_netmap_snapshots] now covers empty snapshots.) *)
From Verif Require Import Base.Prelude Base.IntCodec Model.MigStore Model.Migration
  Proofs.MigStore Proofs.Migration.
Local Open Scope Z_scope.

(** * C16_gate *)

(** [update] halts only with the witness of the majority multisignature
    account and only from a version in [PrevVersion, Version); the running
    code is then the new one.  ([mgmt_ok]: Management accepted NEF/manifest.)
    CheckVersion has no special case for 0 or for a first deployment: [_deploy]
    calls it only when [isUpdate] is true, with whatever the OLD code's
    AppendVersion appended. *)
Theorem C16_gate : forall msaddr stdacc h160 prevN verN, prevN < verN ->
  forall c e mgmt_ok data st st',
    update msaddr stdacc h160 prevN verN c e mgmt_ok data st = Halt st' ->
    (exists a, gate_address msaddr c e = Halt a /\ witnessed e a = true) /\
    prevN <= c_version st < verN /\ mgmt_ok = true /\ c_version st' = verN.
Proof. intros msaddr stdacc h160 prevN verN _. apply update_halt_gate. Qed.
Print Assumptions C16_gate.

(** The gate address is the (n/2+1)-of-n account of the committee — for neofs
    and processing of the NeoFS Alphabet that RoleManagement has in force for
    the block the transaction executes in, [e_designated e (e_height e + 1)]
    — and n/2+1 is a strict majority.  (NNS computes l-(l-1)/2: the same.)
    The committee-gated updates of the other nine contracts read
    neo.GetCommittee(), which takes no index. *)
Theorem C16_gate_majority : forall msaddr c e a,
  gate_address msaddr c e = Halt a ->
  let keys := gate_keys c e in
  let n := Z.of_nat (length keys) in
  a = msaddr (n / 2 + 1) keys /\ 1 <= n / 2 + 1 <= n /\ n < 2 * (n / 2 + 1).
Proof. intros msaddr. exact (gate_address_majority msaddr (fun _ => None) (fun x => x)). Qed.
Print Assumptions C16_gate_majority.

(** Otherwise nothing changes: transaction atomicity plus the above. *)
Theorem C16_gate_otherwise_unchanged : forall msaddr stdacc h160 prevN verN, prevN < verN ->
  forall c e mgmt_ok data st st' halted,
    update_tx msaddr stdacc h160 prevN verN c e mgmt_ok data st = (st', halted) ->
    (halted = false -> st' = st) /\
    (halted = true ->
       (exists a, gate_address msaddr c e = Halt a /\ witnessed e a = true) /\
       prevN <= c_version st < verN /\ c_version st' = verN).
Proof. intros msaddr stdacc h160 prevN verN _. apply update_tx_spec. Qed.
Print Assumptions C16_gate_otherwise_unchanged.

(** Conversely, for neofs, processing and proxy the gate is the whole story. *)
Theorem C16_gate_complete_trivial : forall msaddr stdacc h160 prevN verN c e data st a args,
  c = CNeoFS \/ c = CProcessing \/ c = CProxy ->
  gate_address msaddr c e = Halt a -> witnessed e a = true ->
  append_version data (c_version st) = Halt args ->
  prevN <= c_version st < verN ->
  update msaddr stdacc h160 prevN verN c e true data st = Halt (mkC (c_store st) verN).
Proof. exact update_trivial_live. Qed.
Print Assumptions C16_gate_complete_trivial.

(** Instantiation at the constants of common/version.go (kept apart so that
    it can be regenerated; the harness checks the two numbers against the Go
    package on every run). *)
Definition real_constants_ordered : real_prev < real_version := eq_refl.

Definition C16_gate_real msaddr stdacc h160 :=
  C16_gate msaddr stdacc h160 real_prev real_version real_constants_ordered.
Definition C16_gate_otherwise_unchanged_real msaddr stdacc h160 :=
  C16_gate_otherwise_unchanged msaddr stdacc h160 real_prev real_version real_constants_ordered.

(** * C16_preserves: contracts and versions with nothing to migrate *)

(** neofs, processing and proxy only check the version; alphabet, audit,
    reputation do nothing from 0.17 on, nns from 0.18, neofsid and netmap
    from 0.19, balance from 0.20: the storage is returned as it was. *)
Theorem C16_preserves_trivial : forall stdacc h160 prevN verN c e args s s' v,
  deploy_update stdacc h160 prevN verN c e args s = Halt s' ->
  args_version args = Halt v -> nothing_to_migrate c v -> s' = s.
Proof. exact deploy_update_noop. Qed.
Print Assumptions C16_preserves_trivial.

(** * C16_preserves_balance *)

(** Layout premise: an account key has no namesake already under the new
    prefix.  (Without it the prefixed namesake is overwritten: see
    [C16_preserves_balance_premise_needed].) *)
Definition legacy_wf_balance (s : store) : Prop :=
  forall a : bytes, length a = 20%nat -> is_Some (s !! a) -> s !! (acc_prefix :: a) = None.

Theorem C16_preserves_balance : forall prevN verN e args s s' v,
  deploy_balance prevN verN e args s = Halt s' -> args_version args = Halt v -> v < 20000 ->
  legacy_wf_balance s ->
  (* balanceOf of every stored account, and of every other 20-byte address *)
  (forall a : bytes, length a = 20%nat ->
     balance_of_new s' a = (if s !! a then balance_of_old s a else balance_of_new s a)) /\
  (* totalSupply *)
  total_supply s' = total_supply s /\
  (* no un-prefixed account is left *)
  (forall a : bytes, length a = 20%nat -> s' !! a = None) /\
  (* keys outside the migrated shapes and the deleted non-notary leftovers are untouched *)
  (forall q : bytes, length q <> 20%nat -> g_bal q = None -> q ∉ bal_legacy_keys -> s' !! q = s !! q).
Proof.
  intros prevN verN e args s s' v H Hv Hlt Hwf.
  pose proof (deploy_balance_lookup (fun _ => None) (fun x => x) prevN verN e args s s' v H Hv Hlt) as Hl. split; [|split; [|split]].
  - intros a Ha. unfold balance_of_new, balance_of_old, sget.
    rewrite Hl by (right; left; cbn; lia). rewrite acc_prefixed_account by exact Ha.
    destruct (s !! a); reflexivity.
  - unfold total_supply, sget. rewrite Hl by (right; right; vm_compute; intros Hin;
      repeat (apply elem_of_cons in Hin as [Hin|Hin]; [discriminate|]); inversion Hin).
    apply acc_prefixed_other; vm_compute; congruence.
  - intros a Ha. rewrite Hl by auto. apply acc_prefixed_old. exact Ha.
  - intros q Hq Hg Hn. rewrite Hl by auto. apply acc_prefixed_other; assumption.
Qed.
Print Assumptions C16_preserves_balance.

(** * C16_preserves_container *)

(** Key by key, for ANY prior storage: keys of length 32 move under 'x',
    keys of length 57 under 'o', a value is never altered, everything else
    except the two notary leftovers stays. *)
Theorem C16_preserves_container_pointwise : forall prevN verN e args s s',
  deploy_container prevN verN e args s = Halt s' ->
  (forall cid : bytes, length cid = 32%nat ->
     cnr_get_new s' cid = match cnr_get_old s cid with Some v => Some v | None => cnr_get_new s cid end) /\
  (forall k : bytes, length k = 57%nat ->
     s' !! (owner_prefix :: k) = match s !! k with Some v => Some v | None => s !! (owner_prefix :: k) end) /\
  (forall q : bytes, length q = 32%nat \/ length q = 57%nat -> s' !! q = None) /\
  (forall q : bytes, length q <> 32%nat -> length q <> 57%nat -> g_cnr q = None -> q ∉ cnr_legacy_keys ->
     s' !! q = s !! q) /\
  (forall cid : bytes, length cid = 32%nat -> cnr_eacl s' cid = cnr_eacl s cid).
Proof.
  intros prevN verN e args s s' H. pose proof (deploy_container_lookup prevN verN e args s s' H) as Hl.
  assert (Hlen : forall q : bytes, q ∈ cnr_legacy_keys -> (length q < 10)%nat).
  { intros q Hin. unfold cnr_legacy_keys in Hin.
    repeat (apply elem_of_cons in Hin as [->|Hin]; [vm_compute; lia|]). inversion Hin. }
  split; [|split; [|split; [|split]]].
  - intros cid Hc. unfold cnr_get_new, cnr_get_old, sget.
    rewrite Hl by (intros Hin; apply Hlen in Hin; cbn in Hin; lia).
    apply cnr_migrated_container. exact Hc.
  - intros k Hk. rewrite Hl by (intros Hin; apply Hlen in Hin; cbn in Hin; lia).
    apply cnr_migrated_owner. exact Hk.
  - intros q Hq. rewrite Hl by (intros Hin; apply Hlen in Hin; lia). apply cnr_migrated_old. exact Hq.
  - intros q H1 H2 Hg Hn. rewrite Hl by exact Hn. apply cnr_migrated_other; assumption.
  - intros cid Hc. unfold cnr_eacl, sget.
    assert (Hlen36 : length (p_eacl ++ cid) = 36%nat) by (rewrite app_length, Hc; reflexivity).
    rewrite Hl by (intros Hin; apply Hlen in Hin; lia).
    apply cnr_migrated_other; [lia|lia|reflexivity].
Qed.
Print Assumptions C16_preserves_container_pointwise.

(** Refuted for arbitrary prior storages: an estimation key of length 57
    — "cnr" + a 12-byte epoch + cid + 10 bytes, which putContainerSize accepts
    from any storage node of the network map, the epoch being unchecked — is
    taken for an owner-index entry.  After the upgrade the estimation is gone
    from IterateContainerSizes and ContainersOf lists an entry that is not
    the id of any container. *)
Definition ex_cid : bytes := repeat 5%N 32.
Definition ex_est_key : bytes := p_estimate ++ int_to_bytes (2 ^ 90) ++ ex_cid ++ repeat 3%N 10.
Definition ex_cnr_hostile : store := of_list [ (ex_est_key, [1%N]) ].
Definition ex_env : env := env_basic 14 [] [] [].
Definition ex_cnr_hostile_after : store :=
  match deploy_container real_prev real_version ex_env [IInt 19000] ex_cnr_hostile with
  | Halt s' => s' | Fault => ∅ end.

Theorem C16_preserves_container_refuted :
  exists s s', store_ok s /\
    deploy_container real_prev real_version ex_env [IInt 19000] s = Halt s' /\
    cnr_estimations s (2 ^ 90) ex_cid = [(ex_est_key, [1%N])] /\
    cnr_estimations s' (2 ^ 90) ex_cid = [] /\
    cnr_owned_new s' [] = [(ex_est_key, [1%N])] /\
    cnr_get_new s' (drop 25 ex_est_key) = None.
Proof.
  exists ex_cnr_hostile, ex_cnr_hostile_after.
  split; [apply store_okb_spec; vm_compute; reflexivity|].
  split; [vm_compute; reflexivity|]. vm_compute. repeat split; reflexivity.
Qed.
Print Assumptions C16_preserves_container_refuted.

(** Partial: under the layout predicate [legacy_wf_container] (decidable:
    [legacy_wf_containerb]) — nothing but legacy ids/owner keys starts with
    'x' or 'o', and every 57-byte key is a genuine [owner ++ cid |-> cid] of a
    stored container — List(), Count() and ContainersOf/List(owner) return
    after the upgrade exactly the legacy entries, in the same order, and every
    listed entry is the id of a container that Get finds. *)
Theorem C16_preserves_container_partial : forall prevN verN e args s s',
  deploy_container prevN verN e args s = Halt s' -> legacy_wf_container s ->
  cnr_all_new s' = cnr_all_old s /\
  length (cnr_all_new s') = length (cnr_all_old s) /\
  (forall owner, cnr_owned_new s' owner = cnr_owned_old s owner) /\
  (forall owner (k v : bytes), (k, v) ∈ cnr_owned_new s' owner ->
     v = drop 25 k /\ is_Some (cnr_get_new s' (drop 25 k))).
Proof.
  intros prevN verN e args s s' H Hwf.
  destruct (container_lists_preserved prevN verN e args s s' H (proj1 Hwf)) as [Ha Ho].
  split; [exact Ha|]. split; [rewrite Ha; reflexivity|]. split; [exact Ho|].
  intros owner k v. exact (container_owner_entries_genuine prevN verN e args s s' owner k v H Hwf).
Qed.
Print Assumptions C16_preserves_container_partial.

Theorem C16_legacy_wf_container_decidable : forall s,
  legacy_wf_containerb s = true -> legacy_wf_container s.
Proof. exact legacy_wf_containerb_spec. Qed.
Print Assumptions C16_legacy_wf_container_decidable.

(** * C16_preserves_netmap *)

(** (a) snapshots below 0.16: every stored snapshot within the count that was
    written by std.Serialize as an array of node structures — empty or not —
    reads back as the same nodes with State = Online. *)
Theorem C16_preserves_netmap_snapshots : forall prevN verN e args s s' v cnt j nodes,
  deploy_netmap prevN verN e args s = Halt s' -> args_version args = Halt v -> v < 16000 ->
  snapshot_count s = Halt cnt -> 0 <= j < cnt ->
  s !! snap_key j = Some (ser (IArray nodes)) ->
  Forall wf_item nodes -> item_count (IArray nodes) <= max_items ->
  exists d', s' !! snap_key j = Some d' /\ deserialize d' = Halt (IArray (map up_node nodes)).
Proof.
  intros prevN verN e args s s' v cnt j nodes H Hv Hlt Hc Hj Hs Hwf Hcount.
  pose proof (deploy_netmap_snapshot prevN verN e args s s' v cnt j H Hv Hlt Hc Hj) as Hspec.
  rewrite Hs in Hspec. destruct Hspec as (d' & Hup & Hs'). exists d'. split; [exact Hs'|].
  exact (upgrade_snapshot_spec _ _ Hwf Hcount Hup).
Qed.
Print Assumptions C16_preserves_netmap_snapshots.

(** A missing snapshot key stays missing. *)
Theorem C16_preserves_netmap_snapshot_absent : forall prevN verN e args s s' v cnt j,
  deploy_netmap prevN verN e args s = Halt s' -> args_version args = Halt v -> v < 16000 ->
  snapshot_count s = Halt cnt -> 0 <= j < cnt -> s !! snap_key j = None -> s' !! snap_key j = None.
Proof.
  intros prevN verN e args s s' v cnt j H Hv Hlt Hc Hj Hs.
  pose proof (deploy_netmap_snapshot prevN verN e args s s' v cnt j H Hv Hlt Hc Hj) as Hspec.
  rewrite Hs in Hspec. exact Hspec.
Qed.
Print Assumptions C16_preserves_netmap_snapshot_absent.

(** (b) below 0.19 the two stored hashes become new-epoch subscribers 0 and
    1 (Balance, Container) and the legacy keys disappear. *)
Theorem C16_preserves_netmap_subscribers : forall prevN verN e args s s' v,
  deploy_netmap prevN verN e args s = Halt s' -> args_version args = Halt v -> v < 19000 ->
  exists hb hc : bytes, s !! k_balanceSH = Some hb /\ s !! k_containerSH = Some hc /\
    s' !! (p_subscribers ++ [0%N] ++ hb) = Some [] /\
    s' !! (p_subscribers ++ [1%N] ++ hc) = Some [] /\
    s' !! k_balanceSH = None /\ s' !! k_containerSH = None.
Proof. exact deploy_netmap_subscribers. Qed.
Print Assumptions C16_preserves_netmap_subscribers.

(** (c) everything else — configuration, epoch, current snapshot id, Node2
    data ... — is untouched. *)
Theorem C16_preserves_netmap_frame : forall prevN verN e args s s' (q : bytes),
  deploy_netmap prevN verN e args s = Halt s' -> netmap_touched q = false -> s' !! q = s !! q.
Proof. exact deploy_netmap_frame. Qed.
Print Assumptions C16_preserves_netmap_frame.

(** (d) candidates below 0.16: [oldCandidate{oldNode{BLOB}, state}] reads
    back as [Node{BLOB, state}]. *)
Theorem C16_preserves_netmap_candidate : forall blob rest st d',
  wf_item blob -> Forall wf_item rest -> wf_item st ->
  item_count (IStruct [IStruct (blob :: rest); st]) <= max_items ->
  upgrade_candidate (ser (IStruct [IStruct (blob :: rest); st])) = Halt d' ->
  deserialize d' = Halt (IStruct [blob; st]).
Proof. exact upgrade_candidate_spec. Qed.
Print Assumptions C16_preserves_netmap_candidate.

(** * C16_preserves_nns *)

(** Below 0.18: records, roots, price and total supply are untouched; a
    non-TLD name state is untouched; a TLD name state is re-serialised with
    its first field (Owner) set to Null and all other fields as they were. *)
Theorem C16_preserves_nns : forall h160 prevN verN e args s s' v,
  deploy_nns h160 prevN verN e args s = Halt s' -> args_version args = Halt v -> v < 18000 ->
  (forall q : bytes, nns_touched q = false -> s' !! q = s !! q) /\
  (forall k d : bytes, s !! k = Some d -> head k = Some p_nns_name -> nns_entry d (Some d) (s' !! k)).
Proof. exact deploy_nns_spec. Qed.
Print Assumptions C16_preserves_nns.

(** The re-serialised TLD state reads back as the old one with Owner = Null. *)
Theorem C16_preserves_nns_tld_reads_back : forall fs d',
  Forall wf_item fs ->
  serialize (IStruct (INull :: tail fs)) = Halt d' ->
  deserialize d' = Halt (IStruct (INull :: tail fs)).
Proof.
  intros fs d' Hwf H. apply serialize_halt in H as [-> Hc]. apply deserialize_ser; [|exact Hc].
  cbn [wf_item]. apply wf_item_list. constructor; [exact I|].
  destruct fs as [|f fs]; [constructor|]. cbn [tail]. apply Forall_cons in Hwf as [_ Hwf]. exact Hwf.
Qed.
Print Assumptions C16_preserves_nns_tld_reads_back.

(** * C16_preserves for neofsid, audit, reputation, alphabet: only the
      listed non-notary leftovers disappear *)

Theorem C16_preserves_neofsid : forall prevN verN e args s s' (q : bytes),
  deploy_neofsid prevN verN e args s = Halt s' ->
  q ∉ [k_notary; k_ballots; k_containerSH; k_netmapSH] -> s' !! q = s !! q.
Proof. exact (deploy_neofsid_frame (fun _ => None) (fun x => x)). Qed.
Print Assumptions C16_preserves_neofsid.

Theorem C16_preserves_audit : forall prevN verN e args s s' (q : bytes),
  deploy_audit prevN verN e args s = Halt s' -> q ∉ [k_notary; k_netmapSH] -> s' !! q = s !! q.
Proof. exact deploy_audit_frame. Qed.
Print Assumptions C16_preserves_audit.

Theorem C16_preserves_reputation : forall prevN verN e args s s' (q : bytes),
  deploy_reputation prevN verN e args s = Halt s' -> q ∉ [k_notary; k_ballots] -> s' !! q = s !! q.
Proof. exact deploy_reputation_frame. Qed.
Print Assumptions C16_preserves_reputation.

Theorem C16_preserves_alphabet : forall stdacc prevN verN e args s s' trs (q : bytes),
  deploy_alphabet stdacc prevN verN e args s = Halt (s', trs) ->
  q ∉ [k_notary; k_ballots; k_proxySH] -> s' !! q = s !! q.
Proof. exact deploy_alphabet_frame. Qed.
Print Assumptions C16_preserves_alphabet.

(** The Alphabet contract's 0.16 -> 0.17 switch distributes at most 3/4 of
    the contract's GAS (half of that to Proxy, the rest evenly to Inner Ring
    and storage nodes, split between the node and its notary deposit). *)
Theorem C16_alphabet_distribution_bounded : forall stdacc e args s s' trs,
  alphabet_switch stdacc e args s = Halt (s', trs) -> 0 <= e_gas e ->
  0 <= tr_sum trs <= e_gas e * 3 / 4.
Proof. exact alphabet_switch_bounded. Qed.
Print Assumptions C16_alphabet_distribution_bounded.

(** * C16_pending_votes_block *)

(** The vote purge is still in the source (common.TryPurgeVotes, blockDiff =
    20).  For every contract whose switchToNotary calls it (all but audit,
    whose switch never looks at the ballots), an upgrade from below 0.17 with
    the notary flag set and a ballot at most blockDiff blocks old faults, and
    so — atomicity — nothing changes. *)
Theorem C16_pending_votes_block : forall msaddr stdacc h160 prevN verN c e mgmt_ok data st,
  purging c = true -> c_version st < 17000 ->
  pending_votes (e_height e) (c_store st) ->
  update_tx msaddr stdacc h160 prevN verN c e mgmt_ok data st = (st, false).
Proof.
  intros msaddr stdacc h160 prevN verN c e ok data st Hc Hv Hp.
  unfold update_tx, update.
  destruct (gate msaddr c e); cbn [obind atomic]; [|reflexivity].
  destruct (append_version data (c_version st)) as [args|] eqn:Ea; cbn [obind atomic]; [|reflexivity].
  destruct (oassert ok); cbn [obind atomic]; [|reflexivity].
  rewrite (deploy_update_pending stdacc h160 prevN verN c e args (c_store st) (c_version st) Hc
             (append_version_last _ _ _ Ea) Hv Hp). reflexivity.
Qed.
Print Assumptions C16_pending_votes_block.

(** A readable sufficient condition for [pending_votes]. *)
Theorem C16_pending_votes_young : forall h cands,
  Forall (ballot_ok h) cands -> Exists (ballot_young h) cands -> any_pending h cands = Halt true.
Proof. exact any_pending_young. Qed.
Print Assumptions C16_pending_votes_young.

(** * Non-vacuity and necessity of the premises *)

Definition ex_ms (m : Z) (ks : list bytes) : bytes := Z.to_N m :: concat ks.
Definition ex_committee : list bytes := [[1%N]; [2%N]; [3%N]; [4%N]; [5%N]; [6%N]].
Definition ex_gate_env (wit : list bytes) : env := env_basic 14 ex_committee [] wit.
Definition ex_acct (b : Z) : bytes := ser (IStruct [IInt b; IInt 0; INull]).
Definition exA : bytes := repeat 1%N 20.
Definition exB : bytes := repeat 2%N 20.
Definition ex_ballot (height : Z) : item := IStruct [IBytes [9%N]; IArray [IBytes [1%N]]; IInt height].
Definition ex_balance_legacy (ballot_height : Z) : store :=
  of_list [ (exA, ex_acct 10); (exB, ex_acct 32); (k_supply, int_to_bytes 42);
            (k_notary, [1%N]); (k_ballots, ser (IArray [ex_ballot ballot_height])); (k_netmapSH, exA) ].
Definition ex_update (wit : list bytes) (ballot_height : Z) :=
  update_tx ex_ms (fun _ => None) (fun x => x) real_prev real_version CBalance
            (ex_gate_env wit) true INull (mkC (ex_balance_legacy ballot_height) real_prev).

Definition legacy_wf_balanceb (s : store) : bool :=
  forallb (fun kv : bytes * bytes =>
             if (length (fst kv) =? 20)%nat
             then match s !! (acc_prefix :: fst kv) with None => true | Some _ => false end
             else true) (map_to_list s).

Lemma legacy_wf_balanceb_spec s : legacy_wf_balanceb s = true -> legacy_wf_balance s.
Proof.
  unfold legacy_wf_balanceb, legacy_wf_balance. rewrite forallb_forall. intros H a Ha [v Hv].
  specialize (H (a, v) ltac:(apply elem_of_list_In, elem_of_map_to_list; exact Hv)). cbn [fst] in H.
  rewrite (proj2 (Nat.eqb_eq _ _) Ha) in H. destruct (s !! (acc_prefix :: a)); [discriminate|reflexivity].
Qed.

(** A majority-signed Balance upgrade from 0.15.4 whose only ballot is 21
    blocks old halts, moves both accounts and keeps balances and supply ... *)
Example C16_nonvacuous_balance :
  legacy_wf_balance (ex_balance_legacy (14 - 21)) /\
  let '(st', halted) := ex_update [ex_ms 4 ex_committee] (14 - 21) in
  halted = true /\ c_version st' = real_version /\
  map (balance_of_new (c_store st')) [exA; exB] = [Halt 10; Halt 32] /\
  map (balance_of_old (ex_balance_legacy (14 - 21))) [exA; exB] = [Halt 10; Halt 32] /\
  sdump (c_store st') =
    [ (k_supply, int_to_bytes 42); (acc_prefix :: exA, ex_acct 10); (acc_prefix :: exB, ex_acct 32) ].
Proof.
  split; [apply legacy_wf_balanceb_spec; vm_compute; reflexivity|].
  vm_compute. repeat split; reflexivity.
Qed.

(** ... the same upgrade with the ballot exactly blockDiff = 20 blocks old
    meets the premise of [C16_pending_votes_block] and changes nothing; with a
    5-of-6 signature (the 2/3+1 "Alphabet" account instead of the majority
    account) or with a stranger's it is refused at the gate. *)
Example C16_nonvacuous_pending :
  pending_votes 14 (ex_balance_legacy (14 - 20)) /\
  snd (ex_update [ex_ms 4 ex_committee] (14 - 20)) = false /\
  snd (ex_update [ex_ms 5 ex_committee] (14 - 21)) = false /\
  snd (ex_update [[7%N]] (14 - 21)) = false.
Proof.
  split.
  - exists [1%N], [ex_ballot (14 - 20)].
    split; [vm_compute; reflexivity|]. split; [vm_compute; reflexivity|].
    split; vm_compute; reflexivity.
  - vm_compute. repeat split; reflexivity.
Qed.

(** The designation boundary.  Alphabet A is in force from block 5; B is
    designated by a transaction of block 10, hence stored under index 11.  An
    update of processing (or neofs) executing in block 10 — CurrentIndex() = 9,
    even after the designating transaction in the same block — is gated by A;
    executing in block 11 or later it is gated by B, and A's majority is
    refused. *)
Definition ex_alphaA : list bytes := [[11%N]; [12%N]; [13%N]].
Definition ex_alphaB : list bytes := [[12%N]; [13%N]; [14%N]].
Definition ex_des_env (h : Z) (wit : list bytes) : env :=
  env_basic h ex_committee [(5, ex_alphaA); (11, ex_alphaB)] wit.
Definition ex_proc_update (c : contract) (h : Z) (signer : list bytes) : bool :=
  snd (update_tx ex_ms (fun _ => None) (fun x => x) real_prev real_version c
                 (ex_des_env h [ex_ms 2 signer]) true INull (mkC ∅ real_prev)).
Example C16_gate_designation_boundary :
  map (fun c => (ex_proc_update c 9 ex_alphaA, ex_proc_update c 9 ex_alphaB,
                 ex_proc_update c 10 ex_alphaA, ex_proc_update c 10 ex_alphaB,
                 ex_proc_update c 11 ex_alphaA, ex_proc_update c 11 ex_alphaB,
                 ex_proc_update c 10 ex_committee)) [CProcessing; CNeoFS]
  = [ (true, false, false, true, false, true, false); (true, false, false, true, false, true, false) ] /\
  gate_keys CProcessing (ex_des_env 10 []) = ex_alphaB /\ gate_keys CProcessing (ex_des_env 9 []) = ex_alphaA /\
  gate_keys CProcessing (ex_des_env 3 []) = [].
Proof. vm_compute. repeat split; reflexivity. Qed.

(** The Balance premise is needed: a prefixed namesake of an account is
    overwritten (the prefixed key's own balance is lost). *)
Definition ex_bal_collision : store := of_list [ (exA, ex_acct 10); (acc_prefix :: exA, ex_acct 999) ].
Example C16_preserves_balance_premise_needed :
  match deploy_balance real_prev real_version ex_env [IInt 19000] ex_bal_collision with
  | Halt s' => balance_of_new ex_bal_collision exA = Halt 999 /\ balance_of_new s' exA = Halt 10
  | Fault => False
  end.
Proof. vm_compute. split; reflexivity. Qed.

(** Container non-vacuity: a legacy storage meeting the layout predicate. *)
Definition ex_cnr_legacy : store :=
  of_list [ (ex_cid, [7%N]); (repeat 9%N 25 ++ ex_cid, ex_cid); (p_eacl ++ ex_cid, [8%N]);
            (k_notary, [0%N]); (repeat 80%N 33, [1%N]) ].
Example C16_nonvacuous_container :
  legacy_wf_container ex_cnr_legacy /\
  match deploy_container real_prev real_version ex_env [IInt real_prev] ex_cnr_legacy with
  | Halt s' => cnr_all_new s' = [(ex_cid, [7%N])] /\
               cnr_owned_new s' (repeat 9%N 25) = [(repeat 9%N 25 ++ ex_cid, ex_cid)] /\
               s' !! k_notary = None /\ s' !! repeat 80%N 33 = Some [1%N]
  | Fault => False
  end.
Proof.
  split; [apply legacy_wf_containerb_spec; vm_compute; reflexivity|].
  vm_compute. repeat split; reflexivity.
Qed.

(** Netmap non-vacuity: an old-format storage with an empty and a non-empty
    snapshot and one candidate upgrades from 0.15.4; the empty snapshot stays
    an empty array (the regression fixed by 3adfa7f). *)
Definition ex_blob : item := IBytes (repeat 4%N 40).
Definition ex_netmap_legacy : store :=
  of_list [ (k_snapshotCount, [2%N]); (snap_key 0, ser (IArray []));
            (snap_key 1, ser (IArray [IStruct [ex_blob]]));
            (p_candidate ++ repeat 2%N 33, ser (IStruct [IStruct [ex_blob]; IInt 3]));
            (k_balanceSH, repeat 7%N 20); (k_containerSH, repeat 8%N 20) ].
Example C16_nonvacuous_netmap :
  match deploy_netmap real_prev real_version ex_env [IInt real_prev] ex_netmap_legacy with
  | Halt s' =>
      (d <-! match s' !! snap_key 0 with Some d => Halt d | None => Fault end; deserialize d) = Halt (IArray []) /\
      (d <-! match s' !! snap_key 1 with Some d => Halt d | None => Fault end; deserialize d)
        = Halt (IArray [IStruct [ex_blob; IInt 1]]) /\
      (d <-! match s' !! (p_candidate ++ repeat 2%N 33) with Some d => Halt d | None => Fault end; deserialize d)
        = Halt (IStruct [ex_blob; IInt 3]) /\
      map fst (sfind p_subscribers s') = [p_subscribers ++ [0%N] ++ repeat 7%N 20; p_subscribers ++ [1%N] ++ repeat 8%N 20]
  | Fault => False
  end.
Proof. vm_compute. repeat split; reflexivity. Qed.
