(** Props/C15.v — Shipped executables, manifests and RPC bindings correspond
    to the sources.

    There is no behavioural model here.  The statements are about the tables
    of Gen/Artifacts.v, Gen/Abi.v and Gen/Params.v, which the translator
    (harness/cmd/translate) regenerates from /repo's WORKING TREE on every
    ./check run: the bytes of every committed contract.nef / manifest.json /
    rpc/<name>/rpcbinding.go ("committed"), the bytes of the same files
    regenerated now with the pinned compiler stamp through the library calls
    the Makefile's CLI makes ("fresh"), the decoded NEF fields and ABIs, the
    call table of each rpcbinding.go (go/ast), the constants and lists of the
    Go sources (go/packages), and the result of executing version() of both
    executables on an in-process neo-go chain.  All statements are closed and
    finite; they are re-proved by the kernel (vm_compute) against what the tree
    says now.  Decision procedures and their soundness: Proofs/Artifacts.v.

    Bulk byte strings are [file] = (length, rows of primitive 63-bit words);
    their equalities are Leibniz equalities checked by conversion, so
    [Print Assumptions] lists the kernel primitive type [Uint63.int] (not an
    axiom of this development) and nothing else. *)
From Coq Require Import ZArith List String Bool Uint63.
Import ListNotations.
From Verif Require Import Gen.Params Gen.Abi Gen.Artifacts Proofs.Artifacts.
Local Open Scope string_scope.

(** The tables cover exactly the contract directories of the tree, which are
    exactly the contracts the Go package hands to deployment. *)
Theorem C15_tables_complete :
  map a_name artifacts = p_contract_dirs /\
  map ca_name contract_abis = p_contract_dirs /\
  NoDup (p_contracts_fsContracts_list ++ p_contracts_mainContracts_list) /\
  (forall d, In d p_contract_dirs <->
             In d (p_contracts_fsContracts_list ++ p_contracts_mainContracts_list)).
Proof.
  split; [vm_compute; reflexivity|]. split; [vm_compute; reflexivity|]. split.
  - apply nodup_b_sound. vm_compute. reflexivity.
  - apply same_set_b_sound. vm_compute. reflexivity.
Qed.
Print Assumptions C15_tables_complete.

(** ** Executables *)

(** Every committed contract.nef is, byte for byte, the NEF compiled now from
    the sources of the same tree: header with the compiler string, source URL,
    method-token table, script, checksum. *)
Lemma scripts_rows : Forall (fun a => a_nef_committed a = a_nef_fresh a) artifacts.
Proof. unfold artifacts. forall_rows. Qed.

Theorem C15_scripts : forall a, In a artifacts -> a_nef_committed a = a_nef_fresh a.
Proof. apply Forall_forall. exact scripts_rows. Qed.
Print Assumptions C15_scripts.

(** The decoded fields agree as well, both files are well-formed NEFs (magic,
    sizes, checksum — neo-go's reader), and the compiler string is the one the
    Makefile pins. *)
Lemma scripts_decoded_rows :
  Forall (fun a => a_facts_committed a = a_facts_fresh a /\ nf_ok (a_facts_committed a) = true /\
                   nf_compiler (a_facts_committed a) = compiler_stamp) artifacts.
Proof.
  unfold artifacts.
  repeat (apply Forall_cons; [split; [vm_compute; reflexivity|split; vm_compute; reflexivity]|]).
  apply Forall_nil.
Qed.

Theorem C15_scripts_decoded : forall a, In a artifacts ->
  a_facts_committed a = a_facts_fresh a /\ nf_ok (a_facts_committed a) = true /\
  nf_compiler (a_facts_committed a) = compiler_stamp.
Proof. apply Forall_forall. exact scripts_decoded_rows. Qed.
Print Assumptions C15_scripts_decoded.

(** ** Manifests *)

Lemma manifests_rows : Forall (fun a => a_manifest_committed a = a_manifest_fresh a) artifacts.
Proof. unfold artifacts. forall_rows. Qed.

Lemma abi_rows : Forall (fun c => ca_committed c = ca_fresh c /\ abi_ok (ca_fresh c) = true) contract_abis.
Proof.
  unfold contract_abis.
  repeat (apply Forall_cons; [split; vm_compute; reflexivity|]). apply Forall_nil.
Qed.

Definition safe_row (c : contract_abi) : bool := safe_ok (abi_methods (ca_fresh c)) (ca_safemethods c).
Lemma safe_rows : forallb safe_row contract_abis = true.
Proof. vm_compute. reflexivity. Qed.

(** Committed manifest.json = compiled manifest: as files, byte for byte, and
    as decoded by neo-go's manifest package (name, groups, standards, methods
    with offsets, parameters, return types and safe flags, events,
    permissions, trusts); and a method is safe exactly when config.yml lists
    it under safemethods, every entry of which names a method. *)
Theorem C15_manifests :
  (forall a, In a artifacts -> a_manifest_committed a = a_manifest_fresh a) /\
  (forall c, In c contract_abis ->
     ca_committed c = ca_fresh c /\ abi_ok (ca_fresh c) = true /\
     safe_spec (abi_methods (ca_fresh c)) (ca_safemethods c)).
Proof.
  split; [apply Forall_forall; exact manifests_rows|].
  intros c Hc. destruct (proj1 (Forall_forall _ _) abi_rows c Hc) as [H1 H2].
  split; [exact H1|]. split; [exact H2|].
  exact (forallb_In safe_row _ _ (fun x => safe_ok_sound _ _) safe_rows c Hc).
Qed.
Print Assumptions C15_manifests.

(** ** RPC bindings *)

Lemma bindings_rows : Forall (fun a => a_binding_committed a = a_binding_fresh a) artifacts.
Proof. unfold artifacts. forall_rows. Qed.

Definition bindings_row (c : contract_abi) : bool :=
  ca_calls_ok c && bindings_ok (ca_fresh c) (ca_calls c).
Lemma bindings_table : forallb bindings_row contract_abis = true.
Proof. vm_compute. reflexivity. Qed.

(** Every committed rpc/<name>/rpcbinding.go is byte for byte what neo-go's
    generator produces now from the compiled manifest and bindings
    configuration; every contract call in it (all call forms were recognised
    by the walk: [ca_calls_ok]) names a method of the compiled manifest with
    the same number of arguments, decodes the result with an unwrap function
    admissible for the method's return type, and uses the read-only invoker
    exactly for safe methods; and every method the generator covers (not
    '_'-prefixed, not delegated to the NEP-17/NEP-11 client packages, not a
    payment callback) has its reader wrapper, respectively its send / make /
    make-unsigned wrappers. *)
Theorem C15_bindings :
  (forall a, In a artifacts -> a_binding_committed a = a_binding_fresh a) /\
  (forall c, In c contract_abis ->
     ca_calls_ok c = true /\ bindings_spec (ca_fresh c) (ca_calls c)).
Proof.
  split; [apply Forall_forall; exact bindings_rows|].
  apply (forallb_In bindings_row); [|exact bindings_table].
  intros c H. apply andb_true_iff in H as [H1 H2]. split; [exact H1|].
  apply bindings_ok_sound. exact H2.
Qed.
Print Assumptions C15_bindings.

(** ** Deployment order *)

(** [fsContracts] of contracts/contracts.go (the order GetFS returns and the
    deployment procedure follows) starts with the NNS, lists nothing twice,
    and is a topological order of the dependency edges extracted from the
    _deploy functions: whenever the _deploy of [a] resolves contract [b]
    through the NNS, [b] stands strictly before [a].  The stages of
    deploy.Deploy (the NNS first, then the domains it assigns to
    syncPrm.domainName in source order) follow the same list. *)
Theorem C15_order :
  hd_error p_contracts_fsContracts_list = Some "nns" /\
  NoDup p_contracts_fsContracts_list /\
  topo_spec p_contracts_fsContracts_list p_deploy_edges /\
  p_contracts_fsContracts_list = "nns" :: p_deploy_stage_order.
Proof.
  split; [vm_compute; reflexivity|]. split; [|split].
  - apply nodup_b_sound. vm_compute. reflexivity.
  - apply topo_ok_sound. vm_compute. reflexivity.
  - vm_compute. reflexivity.
Qed.
Print Assumptions C15_order.

(** ** Version *)

Definition repo_version : Z := version_number p_common_major p_common_minor p_common_patch.

Definition version_row (a : artifact) : bool :=
  optZ_eqb (a_version_committed a) repo_version && optZ_eqb (a_version_fresh a) repo_version.
Lemma version_rows : forallb version_row artifacts = true.
Proof. vm_compute. reflexivity. Qed.

(** The VERSION file is v<major>.<minor>.<patch> of common/version.go, the Go
    constant common.Version is major*1_000_000 + minor*1_000 + patch, and
    version() — executed by the neo-go VM on the committed executable and on
    the one compiled now, for every contract — returns exactly that number. *)
Theorem C15_version :
  p_version_file = version_string p_common_major p_common_minor p_common_patch /\
  p_common_Version = repo_version /\
  (forall a, In a artifacts ->
     a_version_committed a = Some repo_version /\ a_version_fresh a = Some repo_version).
Proof.
  split; [vm_compute; reflexivity|]. split; [vm_compute; reflexivity|].
  apply (forallb_In version_row); [|exact version_rows].
  intros a H. apply andb_true_iff in H as [H1 H2]. split; apply optZ_eqb_sound; assumption.
Qed.
Print Assumptions C15_version.

(** ** Non-vacuity: the tables are populated. *)

Example C15_nv_contracts : List.length artifacts = 11%nat /\ List.length p_contracts_fsContracts_list = 9%nat.
Proof. vm_compute. split; reflexivity. Qed.

(** bytes compared per side; methods; binding calls; covered methods; edges *)
Example C15_nv_sizes :
  (200000 <? fold_right Z.add 0 (map (fun a => fst (a_nef_committed a) + fst (a_manifest_committed a) +
                                               fst (a_binding_committed a)) artifacts))%Z = true /\
  (100 <? Z.of_nat (List.length (flat_map (fun c => abi_methods (ca_fresh c)) contract_abis)))%Z = true /\
  (200 <? Z.of_nat (List.length (flat_map ca_calls contract_abis)))%Z = true /\
  (100 <? Z.of_nat (List.length (flat_map (fun c => filter (covered (abi_standards (ca_fresh c)))
                                                   (abi_methods (ca_fresh c))) contract_abis)))%Z = true /\
  (5 <? Z.of_nat (List.length p_deploy_edges))%Z = true.
Proof. vm_compute. repeat split; reflexivity. Qed.

(** The checks are not trivially true: a call to a method that does not
    exist, a wrong arity, a wrong decoder and a reversed order are rejected. *)
Example C15_nv_rejects :
  let ms := abi_methods abi_f_balance in
  call_ok ms {| c_func := "X"; c_recv := "Contract"; c_via := "SendCall"; c_method := "nosuch"; c_nargs := 0%Z; c_unwrap := "" |} = false /\
  call_ok ms {| c_func := "X"; c_recv := "Contract"; c_via := "SendCall"; c_method := "lock"; c_nargs := 4%Z; c_unwrap := "" |} = false /\
  call_ok ms {| c_func := "X"; c_recv := "Contract"; c_via := "SendCall"; c_method := "lock"; c_nargs := 5%Z; c_unwrap := "" |} = true /\
  call_ok ms {| c_func := "X"; c_recv := "ContractReader"; c_via := "Call"; c_method := "version"; c_nargs := 0%Z; c_unwrap := "Bool" |} = false /\
  call_ok ms {| c_func := "X"; c_recv := "ContractReader"; c_via := "Call"; c_method := "version"; c_nargs := 0%Z; c_unwrap := "BigInt" |} = true /\
  topo_ok (rev p_contracts_fsContracts_list) p_deploy_edges = false /\
  bindings_ok abi_f_balance (tl calls_balance) = false.
Proof. vm_compute. repeat split; reflexivity. Qed.
