(** Props/C08.v — Netmap history: the last N maps retrievable exactly, across
    count changes.  Only statements, closed by short proofs, each followed by
    [Print Assumptions].  Model: Model/Netmap.v (tied to
    contracts/netmap/contract.go by the correspondence check of ./check C08;
    the tree contains the fixes "reject count <= 0", "shrink clean-up loop
    k <= curEpoch-count" and "reject count >= 255").

    Histories: arbitrary sequences of arbitrary invocations starting from a
    deployment (candidate changes, subscriptions, failed calls, resizes with
    any argument, ...), with the quantifier's own premise that every
    SUCCESSFUL tick is [epoch + 1] ([consecutive], a decidable predicate).
    Reference object (Spec/NetmapSpec.v): the ghost history [h] carried by
    [grun] — [pubL h e] / [pub2 h e] = what the tick of epoch [e] published
    (legacy map / structured list; the empty map for epochs never ticked),
    and the windows [win h] / [win2 h]: +1 per tick up to the count, cut to
    the new count by an accepted resize, both equal to the default count at
    deployment (all ten slots hold the empty map). *)
From Verif Require Import Base.Prelude Base.IntCodec Model.Netmap Spec.NetmapSpec
  Proofs.NetmapBase Proofs.NetmapCand Proofs.NetmapTick Proofs.NetmapRing.
Local Open Scope Z_scope.

(** The count is always within 1..254 and the ring index inside it — for ALL
    histories (no premise): [% count] never divides by zero, [byte(id)] never
    overflows. *)
Theorem C08_count_positive : forall sub_ok sub_accepts cfg ops,
  let s := nrun_from sub_ok sub_accepts (ninit cfg) ops in
  1 <= count s <= 254 /\ 0 <= cur s < count s.
Proof.
  intros so sa cfg ops s.
  destruct (nrun_tick_inv so sa (ninit cfg) ops (ninit_tick_inv cfg)) as ((H1 & H2) & _). auto.
Qed.
Print Assumptions C08_count_positive.

(** The ring holds exactly the maps published in the last [W] epochs, the
    map of [d] ticks ago in slot [(cur - d) mod count]; every other slot is
    absent (reads as the empty map) and nothing lives outside [0, count). *)
Theorem C08_ring_invariant : forall sub_ok sub_accepts cfg ops,
  consecutive sub_ok sub_accepts (ninit cfg) ops = true ->
  let '(s, h) := grun sub_ok sub_accepts cfg ops in
  0 <= win h <= count s /\
  (forall d, 0 <= d < win h -> ring s !! ((cur s - d) mod count s) = Some (pubL h (epoch s - d))) /\
  (forall d, win h <= d < count s -> ring s !! ((cur s - d) mod count s) = None) /\
  (forall i, i < 0 \/ count s <= i -> ring s !! i = None).
Proof.
  intros so sa cfg ops Hc. pose proof (grun_inv so sa cfg ops Hc) as Hi.
  destruct (grun so sa cfg ops) as [s h]. destruct Hi as (_ & Hr & _). cbn [fst snd] in Hr.
  split; [apply Hr|]. by apply ring_inv_by_age.
Qed.
Print Assumptions C08_ring_invariant.

(** snapshot(d): exactly the map published d ticks ago inside the window, the
    empty map between the window and the count, an error outside [0, count);
    snapshotByEpoch(e) = snapshot(epoch - e); netmap() = snapshot(0). *)
Theorem C08_snapshot : forall sub_ok sub_accepts cfg ops,
  consecutive sub_ok sub_accepts (ninit cfg) ops = true ->
  let '(s, h) := grun sub_ok sub_accepts cfg ops in
  (forall d, r_snapshot s d =
     if (d <? 0) || (count s <=? d) then Fault
     else Halt (if d <? win h then pubL h (epoch s - d) else [])) /\
  (forall e, r_snapshot_by_epoch s e =
     if int_ok (epoch s - e) then r_snapshot s (epoch s - e) else Fault) /\
  (0 < win h -> r_netmap s = Halt (pubL h (epoch s))).
Proof.
  intros so sa cfg ops Hc. pose proof (grun_inv so sa cfg ops Hc) as Hi.
  destruct (grun so sa cfg ops) as [s h]. destruct Hi as (_ & Hr & _). cbn [fst snd] in Hr.
  split; [intros d; by apply snapshot_spec|]. split; [intros e; apply snapshot_by_epoch_spec|].
  by apply netmap_spec.
Qed.
Print Assumptions C08_snapshot.

(** listNodes(e): exactly the structured list published at epoch e inside the
    window, empty for every other epoch (older, future).  Epochs are below
    2^32 (four-byte keys; arguments outside alias: observation in the report). *)
Theorem C08_list_nodes : forall sub_ok sub_accepts cfg ops,
  consecutive sub_ok sub_accepts (ninit cfg) ops = true ->
  let '(s, h) := grun sub_ok sub_accepts cfg ops in
  epoch s < 2 ^ 32 ->
  0 <= win2 h <= count s /\
  forall e, 0 <= e < 2 ^ 32 ->
    r_list_nodes s e =
    if (epoch s - win2 h <? e) && (e <=? epoch s) then mvals (pub2 h e) else [].
Proof.
  intros so sa cfg ops Hc. pose proof (grun_inv so sa cfg ops Hc) as Hi.
  destruct (grun so sa cfg ops) as [s h]. destruct Hi as ((_ & _ & He & _) & _ & Hl). cbn [fst snd] in *.
  intros Hlt. specialize (Hl Hlt). split; [apply Hl|]. intros e Hr. apply list_nodes_spec; [exact Hl|lia|exact Hr].
Qed.
Print Assumptions C08_list_nodes.

(** What a tick adds: it publishes the non-Offline legacy candidates and the
    structured candidates under the new epoch and widens the windows by one
    (up to the count). *)
Theorem C08_tick_records : forall sub_ok sub_accepts cfg ops c,
  let '(s, h) := grun sub_ok sub_accepts cfg ops in
  forall s' ns, nexec sub_ok sub_accepts c s (NewEpoch (epoch s + 1)) = Halt (s', ns) ->
  let '(s1, h1) := grun sub_ok sub_accepts cfg (ops ++ [(c, NewEpoch (epoch s + 1))]) in
  s1 = s' /\ pubL h1 (epoch s + 1) = filter (fun n => nst n <> Offline) (r_netmap_candidates s) /\
  pub2 h1 (epoch s + 1) = cands2 s /\
  win h1 = Z.min (win h + 1) (count s) /\ win2 h1 = Z.min (win2 h + 1) (count s) /\
  (forall e, e <> epoch s + 1 -> pubL h1 e = pubL h e /\ pub2 h1 e = pub2 h e).
Proof.
  intros so sa cfg ops c. unfold grun.
  destruct (fold_left (gstep so sa) ops (ninit cfg, h_init)) as [s h] eqn:E.
  intros s' ns He. rewrite fold_left_app, E. cbn [fold_left].
  unfold gstep, nstep. cbn [fst snd]. rewrite He.
  cbn [pubL pub2 win win2 h_tick]. unfold fupd. rewrite Z.eqb_refl.
  repeat split; try reflexivity; destruct (Z.eqb_spec e (epoch s + 1)); congruence.
Qed.
Print Assumptions C08_tick_records.

(** Changing the count preserves the most recent min(old window, new) maps
    unchanged in both formats, and nothing older is visible afterwards (no
    resurrection, no leak): the windows become min(window, new count). *)
Theorem C08_resize_preserves : forall sub_ok sub_accepts cfg ops c n s' ns,
  consecutive sub_ok sub_accepts (ninit cfg) ops = true ->
  let '(s, h) := grun sub_ok sub_accepts cfg ops in
  nexec sub_ok sub_accepts c s (UpdateSnapshotCount n) = Halt (s', ns) ->
  count s' = n /\ epoch s' = epoch s /\
  (forall d, 0 <= d < Z.min (win h) n ->
     r_snapshot s' d = Halt (pubL h (epoch s - d)) /\ r_snapshot s d = Halt (pubL h (epoch s - d))) /\
  (forall d, Z.min (win h) n <= d < n -> r_snapshot s' d = Halt []) /\
  (forall d, d < 0 \/ n <= d -> r_snapshot s' d = Fault) /\
  (epoch s < 2 ^ 32 -> forall e, 0 <= e < 2 ^ 32 ->
     r_list_nodes s' e =
     if (epoch s - Z.min (win2 h) n <? e) && (e <=? epoch s) then r_list_nodes s e else []).
Proof.
  intros so sa cfg ops c n s' ns Hc. pose proof (grun_inv so sa cfg ops Hc) as Hi.
  destruct (grun so sa cfg ops) as [s h]. intros He.
  destruct (resize_step_inv so sa c s h n s' ns Hi He) as (Hi' & Hep & Hcn & _ & Hn & _).
  destruct Hi as (Ht & Hr & Hl). destruct Hi' as (_ & Hr' & Hl'). cbn [fst snd] in *.
  split; [exact Hcn|]. split; [exact Hep|].
  assert (Hw : 0 <= win h <= count s) by apply Hr.
  assert (Hcs : 1 <= count s <= 254) by apply Hr.
  split; [|split; [|split]].
  - intros d Hd. rewrite (snapshot_spec s' _ d Hr'), (snapshot_spec s h d Hr), Hcn, Hep.
    cbn [win h_resize].
    replace ((d <? 0) || (n <=? d)) with false by lia.
    replace ((d <? 0) || (count s <=? d)) with false by lia.
    replace (d <? Z.min (win h) n) with true by lia. replace (d <? win h) with true by lia. auto.
  - intros d Hd. rewrite (snapshot_spec s' _ d Hr'), Hcn. cbn [win h_resize].
    replace ((d <? 0) || (n <=? d)) with false by lia.
    replace (d <? Z.min (win h) n) with false by lia. reflexivity.
  - intros d Hd. rewrite (snapshot_spec s' _ d Hr'), Hcn.
    replace ((d <? 0) || (n <=? d)) with true by lia. reflexivity.
  - intros Hlt e Hre. destruct Ht as (_ & _ & Hnn & _).
    rewrite (list_nodes_spec s' _ e (Hl' ltac:(lia)) ltac:(lia) Hre).
    rewrite (list_nodes_spec s h e (Hl Hlt) ltac:(lia) Hre). rewrite Hep. cbn [win2 pub2 h_resize].
    assert (Hw2 : 0 <= win2 h <= count s) by apply (Hl Hlt).
    destruct ((epoch s - Z.min (win2 h) n <? e) && (e <=? epoch s)) eqn:Hin; [|reflexivity].
    replace ((epoch s - win2 h <? e) && (e <=? epoch s)) with true by lia. reflexivity.
Qed.
Print Assumptions C08_resize_preserves.

(** Any accepted count leaves the contract able to tick again: after an
    accepted resize — and in fact in every reachable state — the next
    newEpoch(epoch+1) by the Alphabet halts unless a subscriber rejects it. *)
Theorem C08_resize_tickable : forall sub_ok sub_accepts cfg ops c n s' ns c',
  let s := nrun_from sub_ok sub_accepts (ninit cfg) ops in
  nexec sub_ok sub_accepts c s (UpdateSnapshotCount n) = Halt (s', ns) ->
  alpha c' = true ->
  (forall h, h ∈ subscribers s' -> sub_accepts h (epoch s' + 1) = true) ->
  1 <= count s' <= 254 /\
  exists s'' ns', nexec sub_ok sub_accepts c' s' (NewEpoch (epoch s' + 1)) = Halt (s'', ns').
Proof.
  intros so sa cfg ops c n s' ns c' s He Ha Hacc.
  pose proof (nrun_tick_inv so sa (ninit cfg) ops (ninit_tick_inv cfg)) as Hi. fold s in Hi.
  assert (Hi' : tick_inv s') by (eapply nexec_tick_inv; eassumption).
  split; [apply Hi'|]. by apply can_tick.
Qed.
Print Assumptions C08_resize_tickable.

Theorem C08_always_tickable : forall sub_ok sub_accepts cfg ops c,
  let s := nrun_from sub_ok sub_accepts (ninit cfg) ops in
  alpha c = true ->
  (forall h, h ∈ subscribers s -> sub_accepts h (epoch s + 1) = true) ->
  exists s' ns, nexec sub_ok sub_accepts c s (NewEpoch (epoch s + 1)) = Halt (s', ns).
Proof.
  intros so sa cfg ops c s Ha Hacc. apply can_tick; try assumption.
  apply nrun_tick_inv, ninit_tick_inv.
Qed.
Print Assumptions C08_always_tickable.

(** Zero, negative, unchanged and too large counts are rejected (inert). *)
Theorem C08_bad_counts_rejected : forall sub_ok sub_accepts c s n,
  n <= 0 \/ 255 <= n \/ n = count s ->
  nstep sub_ok sub_accepts s (c, UpdateSnapshotCount n) = (s, false, []).
Proof. intros so sa c s n H. apply nstep_fault. by apply bad_count_faults. Qed.
Print Assumptions C08_bad_counts_rejected.

(** Exactly which resizes are accepted: Alphabet-witnessed, a new count in
    1..254 different from the current one, and no slot to be moved that holds
    nothing ([nil_move]: the window is shorter than what has to be carried
    over — only possible after an earlier enlargement whose new slots have not
    been refilled yet; such a request is rejected atomically by
    storage.Put(nil); observation, not a violation).  In particular with a
    full window every valid resize is accepted. *)
Theorem C08_resize_accept_iff : forall sub_ok sub_accepts cfg ops c n,
  consecutive sub_ok sub_accepts (ninit cfg) ops = true ->
  let '(s, h) := grun sub_ok sub_accepts cfg ops in
  (exists s' ns, nexec sub_ok sub_accepts c s (UpdateSnapshotCount n) = Halt (s', ns)) <->
  (alpha c = true /\ 1 <= n <= 254 /\ n <> count s /\
   nil_move (count s) n (cur s) (win h) = false).
Proof.
  intros so sa cfg ops c n Hc. pose proof (grun_inv so sa cfg ops Hc) as Hi.
  destruct (grun so sa cfg ops) as [s h]. apply resize_accept_iff. apply Hi.
Qed.
Print Assumptions C08_resize_accept_iff.

Theorem C08_full_window_resizable : forall old n id, 0 <= id < old -> nil_move old n id old = false.
Proof. intros old n id Hid. unfold nil_move. destruct (old <? n), (id <? n); lia. Qed.
Print Assumptions C08_full_window_resizable.

(** Non-vacuity: 12 consecutive epochs with a distinct legacy candidate per
    epoch, shrink 10 -> 4 (ring index 2 < 4: "K2"), 1 epoch, shrink 4 -> 2
    (ring index 3 >= 2: "K1"), enlarge to 6, 2 epochs; a resize that would have
    to move a slot emptied by the enlargement is rejected (Put(nil)). *)
Definition exK (i : N) : bytes := 2%N :: repeat i 32.
Definition exInfo (i tag : N) : bytes := [tag; 0%N] ++ exK i ++ [9%N].
Definition exOk : bytes -> bool := fun _ => true.
Definition exAcc : bytes -> Z -> bool := fun _ _ => true.
Definition al (h : Z) : nctx := mkNC [] true h.
Definition ex_tick (e : Z) : list (nctx * nop) :=
  [ (al e, AddPeerIR (exInfo 1 (Z.to_N e)));
    (mkNC [exK 1] true e, AddNode (mkNode2 [[Z.to_N e]] [] (exK 1) 1));
    (al e, NewEpoch e) ].
Definition ex_ticks (a b : Z) : list (nctx * nop) := flat_map ex_tick (zrange a (b + 1)).
Definition ex_hist : list (nctx * nop) :=
  ex_ticks 1 12 ++ [(al 0, UpdateSnapshotCount 4)] ++ ex_ticks 13 13 ++
  [(al 0, UpdateSnapshotCount 0); (al 0, UpdateSnapshotCount 2); (al 0, UpdateSnapshotCount 6)] ++
  ex_ticks 14 15.
Definition snap_tags (s : nstate) (d : Z) : val :=
  match r_snapshot s d with Halt l => VList (map (fun n => VBytes (take 1 (blob n))) l) | Fault => VFault end.
Example C08_nonvacuous :
  consecutive exOk exAcc (ninit []) ex_hist = true /\
  let '(s, h) := grun exOk exAcc [] ex_hist in
  (epoch s, count s, cur s, win h, win2 h) = (15, 6, 3, 4, 4) /\
  map (snap_tags s) [-1; 0; 1; 2; 3; 4; 5; 6]
  = [VFault; VList [VBytes [15%N]]; VList [VBytes [14%N]]; VList [VBytes [13%N]]; VList [VBytes [12%N]];
     VList []; VList []; VFault] /\
  map (fun e => map n2addrs (r_list_nodes s e)) [10; 11; 12; 13; 14; 15; 16]
  = [[]; []; [[[12%N]]]; [[[13%N]]]; [[[14%N]]]; [[[15%N]]]; []] /\
  (* the window (4) is not full (count 6): shrinking to 5 or enlarging would
     have to move the empty slots of age 4, 5 and are rejected (Put(nil));
     shrinking to 3 is fine; 6 (unchanged), 0, 255 are rejected *)
  map (fun n => snd (fst (nstep exOk exAcc s (al 0, UpdateSnapshotCount n)))) [5; 3; 7; 6; 0; 255; 254]
  = [false; true; false; false; false; false; false].
Proof. vm_compute. repeat split; reflexivity. Qed.
