(** Props/C03.v — every mutating contract method is inert without its
    required witnesses.

    What is proved here, for all inputs:
    - the arithmetic of the two multi-signature accounts (why committees of
      1, 2 and 4 keys cannot tell "Alphabet" from "committee majority");
    - the requirement table [Model.Witness.required] is monotone in the
      witness set and has no vacuous row: apart from the four rows listed in
      [open_rows], no row is satisfiable without any witness;
    - the finished Balance model refuses (fault / [false]) and changes nothing
      whenever the row of the invoked method is not satisfied.
    What ties the table to the other ten contracts is the sweep of
    harness/witness_test.go: every non-safe method of the manifests compiled
    from the working tree is invoked under the signer sets of the property on
    committees of 1, 3 (and 7) keys, and [check_case] compares each observed
    outcome with [eval_req] inside Coq (cases_C03.v); the cases file also
    checks that every non-safe manifest method has a row. *)
From Coq Require Import String.
From Verif Require Import Base.Prelude Model.Balance Proofs.BalanceSum Proofs.Balance
  Model.Witness Proofs.Witness.
Import Multisig.

(** ** (a) Thresholds *)

Theorem C03_threshold_order : forall n, (1 <= n)%nat ->
  (1 <= maj_m n /\ maj_m n <= alpha_m n /\ alpha_m n <= n)%nat.
Proof. intros n Hn. pose proof (maj_pos n). pose proof (maj_le_alpha n Hn). pose proof (alpha_le_n n Hn). lia. Qed.
Print Assumptions C03_threshold_order.

Theorem C03_thresholds_coincide_iff : forall n, (1 <= n)%nat ->
  (alpha_m n = maj_m n <-> n = 1 \/ n = 2 \/ n = 4)%nat.
Proof. exact alpha_eq_maj_iff. Qed.
Print Assumptions C03_thresholds_coincide_iff.

(** The NNS contract computes its committee threshold differently
    ([l-(l-1)/2]); it is the same number, hence the same account. *)
Theorem C03_nns_threshold_is_majority : forall n, (1 <= n)%nat -> nns_m n = maj_m n.
Proof. exact nns_m_eq_maj. Qed.
Print Assumptions C03_nns_threshold_is_majority.

Theorem C03_alpha_quorums_intersect : forall (K : Type) (Heq : EqDecision K) (C A B : list K),
  NoDup A -> NoDup B -> A ⊆ C -> B ⊆ C ->
  (alpha_m (length C) <= length A)%nat -> (alpha_m (length C) <= length B)%nat ->
  exists x, x ∈ A /\ x ∈ B.
Proof. intros K Heq. exact alpha_quorums_intersect. Qed.
Print Assumptions C03_alpha_quorums_intersect.

Theorem C03_majority_quorums_intersect : forall (K : Type) (Heq : EqDecision K) (C A B : list K),
  NoDup A -> NoDup B -> A ⊆ C -> B ⊆ C ->
  (maj_m (length C) <= length A)%nat -> (maj_m (length C) <= length B)%nat ->
  exists x, x ∈ A /\ x ∈ B.
Proof. intros K Heq. exact maj_quorums_intersect. Qed.
Print Assumptions C03_majority_quorums_intersect.

Theorem C03_alpha_majority_quorums_intersect : forall (K : Type) (Heq : EqDecision K) (C A B : list K),
  NoDup A -> NoDup B -> A ⊆ C -> B ⊆ C -> (1 <= length C)%nat ->
  (alpha_m (length C) <= length A)%nat -> (maj_m (length C) <= length B)%nat ->
  exists x, x ∈ A /\ x ∈ B.
Proof. intros K Heq. exact alpha_maj_quorums_intersect. Qed.
Print Assumptions C03_alpha_majority_quorums_intersect.

(** [k] key holders who can assemble the 2n/3+1 account can assemble the
    n/2+1 one; [maj_m n] holders can assemble the latter and not the former
    exactly on the committee sizes the sweep uses (3, 7, ...). *)
Theorem C03_alpha_implies_committee : forall n k, (1 <= n)%nat ->
  can_form (alpha_m n) k = true -> can_form (maj_m n) k = true.
Proof. exact can_form_alpha_maj. Qed.
Print Assumptions C03_alpha_implies_committee.

Theorem C03_majority_is_not_alpha : forall n, (1 <= n)%nat -> (n = 3 \/ 5 <= n)%nat ->
  can_form (maj_m n) (maj_m n) = true /\ can_form (alpha_m n) (maj_m n) = false.
Proof. exact can_form_maj_not_alpha. Qed.
Print Assumptions C03_majority_is_not_alpha.

(** ** (b) The table: monotone, no vacuous row *)

Theorem C03_eval_monotone : forall c c' a r,
  ctx_le c c' -> eval_req c a r = true -> eval_req c' a r = true.
Proof. exact eval_req_mono. Qed.
Print Assumptions C03_eval_monotone.

(** With no witness at all (no signer with a covering scope, no calling
    contract) no row is satisfied, whatever the arguments and the chain —
    except the rows of [open_rows]. *)
Theorem C03_no_vacuous_requirement : forall k r a,
  required k = Some r -> is_open k = false -> eval_req empty_ctx a r = false.
Proof. exact required_not_vacuous. Qed.
Print Assumptions C03_no_vacuous_requirement.

(** The documented exceptions, literally. *)
Local Open Scope string_scope.
Theorem C03_open_rows :
  open_rows = [ (KContainer, "onNEP11Payment", 4%nat); (KContainer, "submitObjectPut", 2%nat);
                (KNetmap, "lastEpochBlock", 0%nat); (KReputation, "version", 0%nat) ]
  /\ forallb (fun k => match required k with Some r => negb (needs_witness r) | None => false end) open_rows = true.
Proof. split; [reflexivity|exact open_rows_are_rows]. Qed.
Print Assumptions C03_open_rows.

Theorem C03_one_row_per_method : keys_distinct (map fst table) = true.
Proof. exact table_keys_distinct. Qed.
Print Assumptions C03_one_row_per_method.

(** The [_deploy]/[_initialize] entry points are never enabled. *)
Theorem C03_underscore_methods_never : forall k c a,
  In k [KAlphabet; KAudit; KBalance; KContainer; KNeoFS; KNeoFSID; KNetmap; KNNS;
        KProcessing; KProxy; KReputation] ->
  required (k, "_deploy", 2%nat) = Some RNever /\ eval_req c a RNever = false.
Proof.
  intros k c a Hk. split; [|reflexivity].
  repeat (destruct Hk as [<-|Hk]; [vm_compute; reflexivity|]). destruct Hk.
Qed.
Print Assumptions C03_underscore_methods_never.

(** What satisfies the [verify] methods: one of the two committee accounts
    (Proxy, Alphabet), the 2n/3+1 account of the keys stored in NeoFS
    (Processing) — nothing else. *)
Theorem C03_verify : forall c a,
  (forall k r, (k = KProxy \/ k = KAlphabet) -> verify_required k = Some r ->
     eval_req c a r = witnessed c (ch_alpha (a_chain a)) || witnessed c (ch_committee (a_chain a)))
  /\ (forall r, verify_required KProcessing = Some r ->
     eval_req c a r = witnessed c (ch_neofs_alpha (a_chain a))).
Proof.
  intros c a. split.
  - intros k r [->| ->] Hr; injection Hr as <-; reflexivity.
  - intros r Hr. injection Hr as <-. reflexivity.
Qed.
Print Assumptions C03_verify.

(** ** (c) The Balance model is inert without the witnesses of its rows *)

(** For every state, context, chain and operation of [Model.Balance]: when
    the row of the method is not satisfied by the context, the step returns
    the same state, no notification, and a refusal ([VFault], or [false]
    for [transfer]). *)
Theorem C03_inert_Balance : forall s c a o r,
  a_princ a = bop_princ o ->
  required (bop_key o) = Some r ->
  eval_req c a r = false ->
  let '(s', v, ns) := bstep s (to_bctx c (a_chain a), o) in
  s' = s /\ ns = [] /\ (v = VFault \/ v = VBool false).
Proof.
  intros s c a o r Hp Hr He.
  destruct (balance_inert s c a o r Hp Hr He) as [E|E]; rewrite E; auto.
Qed.
Print Assumptions C03_inert_Balance.

(** Every operation of the Balance model has a row. *)
Theorem C03_Balance_rows : forall o, exists r, required (bop_key o) = Some r.
Proof. intros [f t z|f t z d|t z d|f z d|d f t z u|e]; eexists; vm_compute; reflexivity. Qed.
Print Assumptions C03_Balance_rows.

(** ** Soundness of the checker used by the cases file *)
Theorem C03_check_case_sound : forall x r,
  check_case x = None -> required (cs_key x) = Some r ->
  eval_req (cs_ctx x) (cs_args x) r = false ->
  cs_effect x = false /\ (cs_class x = OHaltOther -> is_silent_noop (cs_key x) = true).
Proof. exact check_case_sound. Qed.
Print Assumptions C03_check_case_sound.

(** ** Non-vacuity *)
Definition exA : bytes := repeat 1%N 20.
Definition exB : bytes := repeat 2%N 20.
Definition exAlpha : bytes := repeat 7%N 20.
Definition exCommittee : bytes := repeat 8%N 20.
Definition exChain : chain :=
  mkChain exAlpha exCommittee [] [] [] [] [] (repeat 9%N 20) (repeat 10%N 20) false.
Definition exArgs (p : list bytes) : args := mkArgs exChain p [] [] [] true false.

(** Thresholds on the committee sizes of the sweep. *)
Example C03_thresholds_1_3_4_7 :
  map (fun n => (alpha_m n, maj_m n)) [1; 3; 4; 7]%nat = [(1, 1); (3, 2); (3, 3); (5, 4)]%nat.
Proof. vm_compute. reflexivity. Qed.

(** The Balance rows are met by the right witnesses (and then the model
    moves funds), and not by the wrong ones. *)
Definition s0 := brun [(mkCtx [] true, Mint exA 1000 []); (mkCtx [] true, Mint exB 1000 [])].
Example C03_balance_nonvacuous :
  map (fun '(sg, o) =>
         let c := mkWCtx sg [] in
         let a := exArgs (bop_princ o) in
         let '(s', v, _) := bstep s0 (to_bctx c exChain, o) in
         (match required (bop_key o) with Some r => eval_req c a r | None => false end,
          balance_of s' exA, v))
    [ ([exA], Transfer exA exB 300);            (* the holder *)
      ([exB], Transfer exA exB 300);            (* somebody else *)
      ([exCommittee], Transfer exA exB 300);    (* the committee account is not the holder *)
      ([exAlpha], TransferX exA exB 300 []);    (* the Alphabet account *)
      ([exCommittee], TransferX exA exB 300 []);(* the majority account where 2n/3+1 is required *)
      ([exA], Burn exA 300 []) ]                (* the holder cannot burn *)
  = [ (true, 700, VBool true); (false, 1000, VBool false); (false, 1000, VBool false);
      (true, 700, VNull); (false, 1000, VFault); (false, 1000, VFault) ]%Z.
Proof. vm_compute. reflexivity. Qed.

(** Rows with a combined requirement need both parts. *)
Example C03_combined_rows :
  let r := match required (KNetmap, "updateState", 2%nat) with Some r => r | None => RNever end in
  map (fun sg => eval_req (mkWCtx sg []) (exArgs [[]; exA]) r)
    [ []; [exA]; [exAlpha]; [exCommittee; exA]; [exAlpha; exA] ]
  = [ false; false; false; false; true ].
Proof. vm_compute. reflexivity. Qed.

(** The checker flags an effect under an unmet requirement, and an effect
    of a method that has no row. *)
Example C03_checker_flags :
  map check_case
    [ mkCase (KNetmap, "newEpoch", 1%nat) (mkWCtx [exCommittee] []) (exArgs []) OHaltOther true;
      mkCase (KNetmap, "newEpoch", 1%nat) (mkWCtx [exCommittee] []) (exArgs []) OFault false;
      mkCase (KNetmap, "newEpoch", 1%nat) (mkWCtx [exAlpha] []) (exArgs []) OHaltOther true;
      mkCase (KNetmap, "brandNew", 1%nat) (mkWCtx [exA] []) (exArgs []) OHaltOther true;
      mkCase (KNetmap, "brandNew", 1%nat) (mkWCtx [exA] []) (exArgs []) OFault false;
      mkCase (KNetmap, "newEpoch", 1%nat) (mkWCtx [exAlpha] []) (exArgs []) OFaultGuard false;
      mkCase (KNetmap, "newEpoch", 1%nat) (mkWCtx [exCommittee] []) (exArgs []) OHaltOther false ]
  = [ Some VUnmetEffect; None; None; Some VUnmodelledEffect; None; Some VMetRefused; Some VUnmetNotRefused ].
Proof. vm_compute. reflexivity. Qed.
