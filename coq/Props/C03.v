(** Props/C03.v — every mutating contract method is inert without its
    required witnesses.

    What is proved here, for all inputs:
    - the arithmetic of the two multi-signature accounts (why committees of
      1, 2 and 4 keys cannot tell "Alphabet" from "committee majority");
    - the requirement table [Model.Witness.required] is monotone in the
      witness set and has no vacuous row: apart from the four rows listed in
      [open_rows], no row is satisfiable without any witness;
    - the finished Balance model refuses (fault / [false]) and changes nothing
      whenever the row of the invoked method is not satisfied.
    What ties the table to the other ten contracts is the sweep of
    harness/witness_test.go: every non-safe method of the manifests compiled
    from the working tree is invoked under the signer sets of the property on
    committees of 1, 3 (and 7) keys, and [check_case] compares each observed
    outcome with [eval_req] inside Coq (cases_C03.v); the cases file also
    checks that every non-safe manifest method has a row. *)
From Coq Require Import String.
From Verif Require Import Base.Prelude Model.Balance Proofs.BalanceSum Proofs.Balance
  Model.Witness Proofs.Witness Proofs.WitnessModels.
From Verif Require Model.Reputation Model.NeoFSID Model.Config Model.Audit Model.Estimations
  Model.Placement Model.Container Model.Vote Model.NeoFSVote
  Model.Gas Model.ProxyProc Model.Alphabet Model.NeoFSGas Model.GasWorld
  Model.Netmap Model.NNS Proofs.NNSBase Proofs.NNSAuth Model.MigStore Model.Migration
  Model.WitnessSmall.
Import Multisig.

(** ** (a) Thresholds *)

Theorem C03_threshold_order : forall n, (1 <= n)%nat ->
  (1 <= maj_m n /\ maj_m n <= alpha_m n /\ alpha_m n <= n)%nat.
Proof. intros n Hn. pose proof (maj_pos n). pose proof (maj_le_alpha n Hn). pose proof (alpha_le_n n Hn). lia. Qed.
Print Assumptions C03_threshold_order.

Theorem C03_thresholds_coincide_iff : forall n, (1 <= n)%nat ->
  (alpha_m n = maj_m n <-> n = 1 \/ n = 2 \/ n = 4)%nat.
Proof. exact alpha_eq_maj_iff. Qed.
Print Assumptions C03_thresholds_coincide_iff.

(** The NNS contract computes its committee threshold differently
    ([l-(l-1)/2]); it is the same number, hence the same account. *)
Theorem C03_nns_threshold_is_majority : forall n, (1 <= n)%nat -> nns_m n = maj_m n.
Proof. exact nns_m_eq_maj. Qed.
Print Assumptions C03_nns_threshold_is_majority.

Theorem C03_alpha_quorums_intersect : forall (K : Type) (Heq : EqDecision K) (C A B : list K),
  NoDup A -> NoDup B -> A ⊆ C -> B ⊆ C ->
  (alpha_m (length C) <= length A)%nat -> (alpha_m (length C) <= length B)%nat ->
  exists x, x ∈ A /\ x ∈ B.
Proof. intros K Heq. exact alpha_quorums_intersect. Qed.
Print Assumptions C03_alpha_quorums_intersect.

Theorem C03_majority_quorums_intersect : forall (K : Type) (Heq : EqDecision K) (C A B : list K),
  NoDup A -> NoDup B -> A ⊆ C -> B ⊆ C ->
  (maj_m (length C) <= length A)%nat -> (maj_m (length C) <= length B)%nat ->
  exists x, x ∈ A /\ x ∈ B.
Proof. intros K Heq. exact maj_quorums_intersect. Qed.
Print Assumptions C03_majority_quorums_intersect.

Theorem C03_alpha_majority_quorums_intersect : forall (K : Type) (Heq : EqDecision K) (C A B : list K),
  NoDup A -> NoDup B -> A ⊆ C -> B ⊆ C -> (1 <= length C)%nat ->
  (alpha_m (length C) <= length A)%nat -> (maj_m (length C) <= length B)%nat ->
  exists x, x ∈ A /\ x ∈ B.
Proof. intros K Heq. exact alpha_maj_quorums_intersect. Qed.
Print Assumptions C03_alpha_majority_quorums_intersect.

(** [k] key holders who can assemble the 2n/3+1 account can assemble the
    n/2+1 one; [maj_m n] holders can assemble the latter and not the former
    exactly on the committee sizes the sweep uses (3, 7, ...). *)
Theorem C03_alpha_implies_committee : forall n k, (1 <= n)%nat ->
  can_form (alpha_m n) k = true -> can_form (maj_m n) k = true.
Proof. exact can_form_alpha_maj. Qed.
Print Assumptions C03_alpha_implies_committee.

Theorem C03_majority_is_not_alpha : forall n, (1 <= n)%nat -> (n = 3 \/ 5 <= n)%nat ->
  can_form (maj_m n) (maj_m n) = true /\ can_form (alpha_m n) (maj_m n) = false.
Proof. exact can_form_maj_not_alpha. Qed.
Print Assumptions C03_majority_is_not_alpha.

(** ** (b) The table: monotone, no vacuous row *)

Theorem C03_eval_monotone : forall c c' a r,
  ctx_le c c' -> eval_req c a r = true -> eval_req c' a r = true.
Proof. exact eval_req_mono. Qed.
Print Assumptions C03_eval_monotone.

(** With no witness at all (no signer with a covering scope, no calling
    contract) no row is satisfied, whatever the arguments and the chain —
    except the rows of [open_rows]. *)
Theorem C03_no_vacuous_requirement : forall k r a,
  required k = Some r -> is_open k = false -> eval_req empty_ctx a r = false.
Proof. exact required_not_vacuous. Qed.
Print Assumptions C03_no_vacuous_requirement.

(** The documented exceptions, literally. *)
Local Open Scope string_scope.
Theorem C03_open_rows :
  open_rows = [ (KContainer, "onNEP11Payment", 4%nat); (KContainer, "submitObjectPut", 2%nat);
                (KNetmap, "lastEpochBlock", 0%nat); (KReputation, "version", 0%nat) ]
  /\ forallb (fun k => match required k with Some r => negb (needs_witness r) | None => false end) open_rows = true.
Proof. split; [reflexivity|exact open_rows_are_rows]. Qed.
Print Assumptions C03_open_rows.

Theorem C03_one_row_per_method : keys_distinct (map fst table) = true.
Proof. exact table_keys_distinct. Qed.
Print Assumptions C03_one_row_per_method.

(** The [_deploy]/[_initialize] entry points are never enabled. *)
Theorem C03_underscore_methods_never : forall k c a,
  In k [KAlphabet; KAudit; KBalance; KContainer; KNeoFS; KNeoFSID; KNetmap; KNNS;
        KProcessing; KProxy; KReputation] ->
  required (k, "_deploy", 2%nat) = Some RNever /\ eval_req c a RNever = false.
Proof.
  intros k c a Hk. split; [|reflexivity].
  repeat (destruct Hk as [<-|Hk]; [vm_compute; reflexivity|]). destruct Hk.
Qed.
Print Assumptions C03_underscore_methods_never.

(** What satisfies the [verify] methods: one of the two committee accounts
    (Proxy, Alphabet), the 2n/3+1 account of the keys stored in NeoFS
    (Processing) — nothing else. *)
Theorem C03_verify : forall c a,
  (forall k r, (k = KProxy \/ k = KAlphabet) -> verify_required k = Some r ->
     eval_req c a r = witnessed c (ch_alpha (a_chain a)) || witnessed c (ch_committee (a_chain a)))
  /\ (forall r, verify_required KProcessing = Some r ->
     eval_req c a r = witnessed c (ch_neofs_alpha (a_chain a))).
Proof.
  intros c a. split.
  - intros k r [->| ->] Hr; injection Hr as <-; reflexivity.
  - intros r Hr. injection Hr as <-. reflexivity.
Qed.
Print Assumptions C03_verify.

(** ** (c) The Balance model is inert without the witnesses of its rows *)

(** For every state, context, chain and operation of [Model.Balance]: when
    the row of the method is not satisfied by the context, the step returns
    the same state, no notification, and a refusal ([VFault], or [false]
    for [transfer]). *)
Theorem C03_inert_Balance : forall s c a o r,
  a_princ a = bop_princ o ->
  required (bop_key o) = Some r ->
  eval_req c a r = false ->
  let '(s', v, ns) := bstep s (to_bctx c (a_chain a), o) in
  s' = s /\ ns = [] /\ (v = VFault \/ v = VBool false).
Proof.
  intros s c a o r Hp Hr He.
  destruct (balance_inert s c a o r Hp Hr He) as [E|E]; rewrite E; auto.
Qed.
Print Assumptions C03_inert_Balance.

(** Every operation of the Balance model has a row. *)
Theorem C03_Balance_rows : forall o, exists r, required (bop_key o) = Some r.
Proof. intros [f t z|f t z d|t z d|f z d|d f t z u|e]; eexists; vm_compute; reflexivity. Qed.
Print Assumptions C03_Balance_rows.

(** ** (c') The other contract models are inert without the witnesses of
    their rows.

    Each model has its own notion of witness; the translation from the
    abstract context is a function [to_<m>...] of Proofs/WitnessModels.v and
    the line after each theorem says what it maps to what.  Where a model
    abstracts a witness as a boolean or a key list carried by the operation,
    the translation fills in the verdict of [eval_req] ([alpha_of_sound]). *)

(** The boolean given to the models with an [alpha] flag is [RAlpha]'s
    verdict; the witness list given to the models that keep one answers
    exactly [witnessed]. *)
Theorem C03_translations_sound : forall c a h,
  alpha_of c a = eval_req c a RAlpha /\
  existsb (bytes_eqb h) (wit_list c) = witnessed c h.
Proof. intros c a h. split; [apply alpha_of_sound|apply wit_list_sound]. Qed.
Print Assumptions C03_translations_sound.

(** reputation.put *)
Theorem C03_inert_Reputation : forall s c a e p v r,
  required (KReputation, "put", 3%nat) = Some r -> eval_req c a r = false ->
  Reputation.rstep s (to_rop c a e p v) = (s, VFault).
Proof. exact inert_Reputation. Qed.
Print Assumptions C03_inert_Reputation.

(** neofsid.addKey / removeKey *)
Theorem C03_inert_NeoFSID : forall s c a o r,
  required (nid_key o) = Some r -> eval_req c a r = false ->
  NeoFSID.nstep s (to_nidop c a o) = (s, VFault).
Proof. exact inert_NeoFSID. Qed.
Print Assumptions C03_inert_NeoFSID.

(** netmap.setConfig, and neofs.setConfig of a notary-enabled deployment *)
Theorem C03_inert_Config : forall kd s c a id key v r,
  (kd = Config.CNeoFS -> ch_notary_off (a_chain a) = false) ->
  required (cfg_key kd) = Some r -> eval_req c a r = false ->
  Config.cstep kd s (to_cop c a id key v) = (s, VFault, []).
Proof. exact inert_Config. Qed.
Print Assumptions C03_inert_Config.

(** audit.put: [acc] is CreateStandardAccount; the chain's Inner Ring
    accounts are those of the model's [ir] keys and argument 0 designates the
    account of the key parsed from the blob. *)
Theorem C03_inert_Audit : forall (acc : bytes -> bytes) s c a ir raw hk r,
  ch_ir_keys (a_chain a) = map acc ir ->
  (forall h, Audit.parse_hdr raw = Halt h -> arg_princ a 0 = acc (Audit.h_from h)) ->
  required (KAudit, "put", 1%nat) = Some r -> eval_req c a r = false ->
  Audit.astep s (to_aop acc c ir raw hk) = (s, VFault).
Proof. exact inert_Audit. Qed.
Print Assumptions C03_inert_Audit.

(** container.putContainerSize / container.newEpoch *)
Theorem C03_inert_Estimations : forall (acc : bytes -> bytes) d1 d2 cap s c a o r,
  (forall live wit prev e cid size pub h20,
     o = Estimations.EPut live wit prev e cid size pub h20 -> arg_princ a 3 = acc pub) ->
  required (est_key o) = Some r -> eval_req c a r = false ->
  Estimations.estep d1 d2 cap s (to_eop acc c a o) = (s, VFault).
Proof. exact inert_Estimations. Qed.
Print Assumptions C03_inert_Estimations.

(** container.addNextEpochNodes / commitContainerListUpdate /
    submitObjectPut.  The last one is an OPEN row: no transaction witness is
    consulted; its requirement [RArgSigs] is that the signatures passed as
    argument verify against the stored placement, and without that the call
    faults. *)
Theorem C03_inert_Placement : forall sigvalid pubvalid deser notify_fits network s c a o k r,
  pl_key o = Some k ->
  (forall raw sigs cur cid, o = Placement.OSubmit raw sigs cur ->
     Placement.verify sigvalid pubvalid s cid raw sigs = Halt true -> a_sigs_ok a = true) ->
  required k = Some r -> eval_req c a r = false ->
  Placement.pstep sigvalid pubvalid deser notify_fits network s (to_pop c a o) = (s, VFault, []).
Proof. exact inert_Placement. Qed.
Print Assumptions C03_inert_Placement.

(** container.put (both overloads) / putNamed / delete / setEACL, and the
    Balance and netmap.setConfig invocations of the Container world.  The
    refusal is a fault, [false] (balance.transfer) or, for delete of a
    container that is not there, the silent return listed in [silent_noops];
    in every case the five contracts' state is the same and nothing is
    emitted. *)
Theorem C03_inert_Container : forall cid_of b58 w c a al now self o k r,
  co_key o = Some k ->
  (forall bo, o = Container.Bal bo -> a_princ a = bop_princ bo) ->
  required k = Some r -> eval_req c a r = false ->
  exists v, Container.wstep cid_of b58 w (to_cctx c a al now self, o) = (w, v, []) /\
    (v = VFault \/ v = VBool false \/
     (v = VNull /\ exists cid sig tok, o = Container.Delete cid sig tok)).
Proof. exact inert_Container. Qed.
Print Assumptions C03_inert_Container.

(** NeoFS deployed with notaryDisabled: cheque / alphabetUpdate / setConfig /
    innerRingCandidateRemove / innerRingCandidateAdd.  [vprinc] is the account
    CheckWitness is about (the 20-byte string itself, the standard account of
    a key); a byte string in the model's witness list has a witnessed account
    ([to_nctx_sound]). *)
Theorem C03_inert_NeoFSVote : forall valid_pub std_acc del_id (s : NeoFSVote.nstate) c a o k r h self,
  nv_key o = Some k ->
  ch_notary_off (a_chain a) = true ->
  ch_neofs_keys (a_chain a) = map (vprinc std_acc) (NeoFSVote.alphabet s) ->
  (forall key, o = NeoFSVote.CandidateRemove key \/ o = NeoFSVote.CandidateAdd key ->
     arg_princ a 0 = vprinc std_acc key) ->
  required k = Some r -> eval_req c a r = false ->
  NeoFSVote.nstep valid_pub std_acc del_id s (to_nctx std_acc c (nv_keys s o) h self, o) = (s, None, []).
Proof. exact inert_NeoFSVote. Qed.
Print Assumptions C03_inert_NeoFSVote.

Theorem C03_to_nctx_sound : forall std_acc c keys h self b,
  b ∈ NeoFSVote.witnessed (to_nctx std_acc c keys h self) -> witnessed c (vprinc std_acc b) = true.
Proof. exact to_nctx_sound. Qed.
Print Assumptions C03_to_nctx_sound.

(** The governance contracts on GAS, NeoFS in BOTH modes: withdraw / cheque /
    bind / unbind / setConfig / alphabetUpdate / innerRingCandidateAdd /
    innerRingCandidateRemove / onNEP17Payment, alphabet.emit, and the
    onNEP17Payment of Alphabet, Processing and Proxy.  The only refusal that
    is not a fault is NeoFS' silent return on the ignore-deposit marker
    ([silent_noops]). *)
Theorem C03_inert_GasWorld : forall e w c a cm ir h tx o k r,
  gw_key e o = Some k ->
  ch_notary_off (a_chain a) = NeoFSGas.notary_off (NeoFSGas.fs w) ->
  ch_neofs_keys (a_chain a) = map (gprinc e) (NeoFSGas.alphabet (NeoFSGas.fs w)) ->
  (forall b, gw_arg0 o = Some b -> arg_princ a 0 = gprinc e b) ->
  (forall ad mt index proxy node, o = GasWorld.OEmit ad mt ->
     Gas.kind_of e ad = Gas.KAlphabet index proxy ->
     nth_error cm (Z.to_nat index) = Some node -> ch_alpha_key_at (a_chain a) = gprinc e node) ->
  (forall tok t f am d, o = GasWorld.OTokenPay tok t f am d ->
     wx_caller c = tok /\ ch_gas (a_chain a) = Gas.gasH e /\ ch_neo (a_chain a) = Gas.neoH e /\
     Gas.hash_len (Gas.gasH e) = true /\ Gas.hash_len (Gas.neoH e) = true) ->
  required k = Some r -> eval_req c a r = false ->
  exists v, GasWorld.wstep e w (to_gctx c a cm ir h tx, o) = (w, v, []) /\
    (v = VFault \/ (v = VNull /\ k = (KNeoFS, "onNEP17Payment", 3%nat))).
Proof. exact inert_GasWorld. Qed.
Print Assumptions C03_inert_GasWorld.

Theorem C03_to_gctx_sound : forall e c a cm ir h tx,
  (forall b, Gas.check_witness e (to_gctx c a cm ir h tx) b = Halt true -> witnessed c (gprinc e b) = true) /\
  Gas.inb (Gas.alpha_addr (to_gctx c a cm ir h tx)) (Gas.wit (to_gctx c a cm ir h tx)) = eval_req c a RAlpha /\
  Gas.inb (Gas.cmt_addr (to_gctx c a cm ir h tx)) (Gas.wit (to_gctx c a cm ir h tx)) = eval_req c a RCommittee /\
  Gas.inb (Gas.fs_alpha_addr (to_gctx c a cm ir h tx)) (Gas.wit (to_gctx c a cm ir h tx)) = eval_req c a RNeoFSAlpha.
Proof. intros. split; [intros b; apply to_gctx_sound|apply to_gctx_alpha]. Qed.
Print Assumptions C03_to_gctx_sound.

(** The safe verify methods of that world answer exactly their rows
    ([verify_required]). *)
Theorem C03_verify_GasWorld : forall c a cm ir h tx,
  ProxyProc.proxy_verify (to_gctx c a cm ir h tx) = eval_req c a (ROr RAlpha RCommittee) /\
  Alphabet.alphabet_verify (to_gctx c a cm ir h tx) = eval_req c a (ROr RAlpha RCommittee) /\
  (forall b, ProxyProc.processing_verify (to_gctx c a cm ir h tx) = Halt b -> b = eval_req c a RNeoFSAlpha).
Proof. exact verify_GasWorld. Qed.
Print Assumptions C03_verify_GasWorld.

(** Netmap: newEpoch / addPeer / addPeerIR / addNode / deleteNode /
    updateState / updateStateIR / updateSnapshotCount / subscribeForNewEpoch /
    setConfig.  The model's [alpha] flag is [RAlpha]'s verdict and its
    CheckWitness on the node key the operation names answers whether that
    key's account is witnessed ([to_nmctx_sound]). *)
Theorem C03_inert_Netmap : forall (acc : bytes -> bytes) sub_ok sub_accepts s c a o r h,
  (forall i k, nm_node_key o = Some (i, k) -> arg_princ a i = acc k) ->
  required (nm_key o) = Some r -> eval_req c a r = false ->
  Netmap.nstep sub_ok sub_accepts s (to_nmctx acc c a o h, o) = (s, false, []).
Proof. exact inert_Netmap. Qed.
Print Assumptions C03_inert_Netmap.

Theorem C03_to_nmctx_sound : forall (acc : bytes -> bytes) c a o h i k,
  nm_node_key o = Some (i, k) ->
  Netmap.check_witness (to_nmctx acc c a o h) k = witnessed c (acc k) /\
  Netmap.alpha (to_nmctx acc c a o h) = eval_req c a RAlpha.
Proof. exact to_nmctx_sound. Qed.
Print Assumptions C03_to_nmctx_sound.

(** NNS: register / registerTLD / transfer / renew (both overloads) /
    setAdmin / addRecord / setRecord / deleteRecords / updateSOA / setPrice.
    The family's [authorised] (C11) implies the row's requirement when the
    call facts describe the NameState the guard reads ([nns_facts]):
    [may_admin] is [RNameAdmin], [owner_wit] is [RNameOwner], [cmt] is
    [RCommittee]; so an unmet row is an unauthorised call and
    C11_unauthorised_inert applies. *)
Theorem C03_inert_NNS : forall hash valid_name valid_data str_ok s c a now rj o k r,
  In k (nns_keys o) -> nns_facts hash valid_name (to_nnsctx c a now rj) s a o ->
  required k = Some r -> eval_req c a r = false ->
  exists v, NNS.nstep hash valid_name valid_data str_ok s (to_nnsctx c a now rj, o) = (s, v, []) /\
    (v = VFault \/ (v = VBool false /\ exists t n, o = NNS.Transfer t n)).
Proof. exact inert_NNS. Qed.
Print Assumptions C03_inert_NNS.

Theorem C03_authorised_is_requirement : forall hash valid_name c a now rj s o k r,
  In k (nns_keys o) -> nns_facts hash valid_name (to_nnsctx c a now rj) s a o ->
  required k = Some r ->
  NNSAuth.authorised hash valid_name (to_nnsctx c a now rj) s o = true -> eval_req c a r = true.
Proof. exact authorised_req. Qed.
Print Assumptions C03_authorised_is_requirement.

Theorem C03_to_nnsctx_sound : forall c a now rj h ns,
  NNSBase.wit_of (to_nnsctx c a now rj) h = witnessed c h /\
  NNSBase.cmt (to_nnsctx c a now rj) = eval_req c a RCommittee /\
  (ns_facts a ns -> NNSBase.may_admin (to_nnsctx c a now rj) ns = eval_req c a RNameAdmin) /\
  (ns_facts a ns -> NNSAuth.owner_wit (to_nnsctx c a now rj) ns = eval_req c a RNameOwner).
Proof.
  intros. split; [apply nns_wit_sound|]. split; [apply nns_cmt_sound|].
  split; [apply may_admin_req|apply owner_wit_req].
Qed.
Print Assumptions C03_to_nnsctx_sound.

(** update of all eleven contracts, through the gate of the Migration model:
    without the witness of the account [Update] computes — the committee
    majority, for neofs and processing the majority of the designated
    NeoFSAlphabet role — the transaction changes neither the storage nor the
    running version, whatever NEF, manifest and data are passed. *)
Theorem C03_inert_Update : forall msaddr stdacc h160 prevN verN k c a e0 mgmt_ok data st r,
  gate_facts msaddr a k (to_menv c e0) ->
  required (k, "update", 3%nat) = Some r -> eval_req c a r = false ->
  Migration.update_tx msaddr stdacc h160 prevN verN (mc_of k) (to_menv c e0) mgmt_ok data st = (st, false).
Proof. exact inert_Update. Qed.
Print Assumptions C03_inert_Update.

Theorem C03_to_menv_sound : forall c e0 h, Migration.witnessed (to_menv c e0) h = witnessed c h.
Proof. exact to_menv_sound. Qed.
Print Assumptions C03_to_menv_sound.

(** container.startContainerEstimation / stopContainerEstimation
    (Model/WitnessSmall.v): Alphabet-gated notifications, no storage. *)
Theorem C03_inert_Estimation_signals : forall (S : Type) (s : S) c a o r,
  required (sm_key o) = Some r -> eval_req c a r = false ->
  WitnessSmall.sstep s (to_sop c a o) = (s, VFault, []).
Proof. exact @inert_Estimation_signals. Qed.
Print Assumptions C03_inert_Estimation_signals.

(** alphabet.vote (Model/WitnessSmall.v): the state is the candidate the
    contract's NEO votes for. *)
Theorem C03_inert_Vote : forall target c a cur index accepts epoch cands r,
  required (KAlphabet, "vote", 2%nat) = Some r -> eval_req c a r = false ->
  WitnessSmall.vote_step target (to_vctx c a cur index accepts) epoch cands = (target, VFault).
Proof. exact inert_Vote. Qed.
Print Assumptions C03_inert_Vote.

(** The [_deploy] / [_initialize] rows ([RNever]): the requirement is never
    met, and the platform (System.Contract.Call: "invalid method name (starts
    with '_')", modelled by [vm_invoke]) never enters the body, whatever it
    is; every other row of the table is a callable name. *)
Theorem C03_inert_Underscore : forall (S N : Type) k m n r c a (body : S -> outcome (S * val * list N)) s,
  required (k, m, n) = Some r -> r = RNever ->
  eval_req c a r = false /\ WitnessSmall.vm_invoke m body s = (s, VFault, []).
Proof. exact @inert_Underscore. Qed.
Print Assumptions C03_inert_Underscore.

Theorem C03_only_underscore_refused : forall k m n r,
  required (k, m, n) = Some r -> r <> RNever -> WitnessSmall.vm_callable m = true.
Proof. exact other_rows_callable. Qed.
Print Assumptions C03_only_underscore_refused.

(** ** Which rows have a proved inertness theorem *)
(** The list itself is data of Model/Witness.v ([proved_rows]), so that the
    cases file can print its length without loading the proofs of every
    family; what is proved about it is here. *)

(** Rows for which there is nothing to prove: the requirement is [ROpen]. *)
Definition trivially_open (k : mkey) : bool :=
  match required k with Some ROpen => true | _ => false end.

Definition is_proved (k : mkey) : bool := existsb (fun x => mkey_eqb k (fst x)) proved_rows.

(** Rows covered only by the sweep of harness/witness_test.go: none is left. *)
Definition swept_only_rows : list mkey :=
  filter (fun k => negb (is_proved k) && negb (trivially_open k) = true) (map fst table).

(** Every listed row is a row of the table, is listed once, is the key of one
    of the operations of the models above; 87 of the 90 rows are proved, the
    other 3 are open ([ROpen]: the requirement is always met, there is nothing
    to prove), none is swept only. *)
Theorem C03_models_cover :
  forallb (fun x => match required (fst x) with Some _ => true | None => false end) proved_rows = true /\
  keys_distinct (map fst proved_rows) = true /\
  (length proved_rows, length (filter trivially_open (map fst table)), length swept_only_rows, length table)
    = (87, 3, 0, 90)%nat /\
  (* the keys the models' operations are mapped to are exactly the listed ones *)
  (forall o, is_proved (bop_key o) = true) /\
  (forall o, is_proved (nid_key o) = true) /\
  (forall kd, is_proved (cfg_key kd) = true) /\
  (forall o, is_proved (est_key o) = true) /\
  (forall o k, pl_key o = Some k -> is_proved k = true) /\
  (forall o k, co_key o = Some k -> is_proved k = true) /\
  (forall o k, nv_key o = Some k -> is_proved k = true) /\
  (forall e o k, gw_key e o = Some k -> is_proved k = true) /\
  (forall o, is_proved (nm_key o) = true) /\
  (forall o k, In k (nns_keys o) -> is_proved k = true) /\
  (forall k, is_proved (k, "update", 3%nat) = true) /\
  (forall o, is_proved (sm_key o) = true) /\
  is_proved (KAlphabet, "vote", 2%nat) = true /\
  (forall k m n, required (k, m, n) = Some RNever -> is_proved (k, m, n) = true).
Proof.
  split; [vm_compute; reflexivity|]. split; [vm_compute; reflexivity|]. split; [vm_compute; reflexivity|].
  split; [intros []; reflexivity|]. split; [intros []; reflexivity|]. split; [intros []; reflexivity|].
  split; [intros []; reflexivity|].
  split; [intros o kk H; destruct o; cbn in H; try discriminate H; injection H as <-; reflexivity|].
  split; [intros o kk H; destruct o; cbn in H; try discriminate H; injection H as <-; try reflexivity;
          match goal with |- is_proved (bop_key ?b) = true => destruct b; reflexivity end|].
  split; [intros o kk H; destruct o; cbn in H; try discriminate H; injection H as <-; reflexivity|].
  split; [intros e o kk H; destruct o; cbn [gw_key] in H; try discriminate H; try (injection H as <-; reflexivity);
          match type of H with context [Gas.kind_of e ?t] => destruct (Gas.kind_of e t) end;
          try discriminate H; injection H as <-; reflexivity|].
  split; [intros o; destruct o; reflexivity|].
  split; [intros o kk H; destruct o; cbn [nns_keys In] in H;
          repeat (destruct H as [<-|H]; [reflexivity|]); destruct H|].
  split; [intros k; destruct k; reflexivity|].
  split; [intros o; destruct o; reflexivity|]. split; [reflexivity|].
  intros k m n Hr. apply lookup_In in Hr.
  assert (Hall : forallb (fun x => if req_eqb (snd x) RNever then is_proved (fst x) else true) table = true)
    by (vm_compute; reflexivity).
  rewrite forallb_forall in Hall. specialize (Hall _ Hr). exact Hall.
Qed.
Print Assumptions C03_models_cover.

(** ** Soundness of the checker used by the cases file *)
Theorem C03_check_case_sound : forall x r,
  check_case x = None -> required (cs_key x) = Some r ->
  eval_req (cs_ctx x) (cs_args x) r = false ->
  cs_effect x = false /\ (cs_class x = OHaltOther -> is_silent_noop (cs_key x) = true).
Proof. exact check_case_sound. Qed.
Print Assumptions C03_check_case_sound.

(** ** Non-vacuity *)
Definition exA : bytes := repeat 1%N 20.
Definition exB : bytes := repeat 2%N 20.
Definition exAlpha : bytes := repeat 7%N 20.
Definition exCommittee : bytes := repeat 8%N 20.
Definition exChain : chain :=
  mkChain exAlpha exCommittee [] [] [] [] [] (repeat 9%N 20) (repeat 10%N 20) false.
Definition exArgs (p : list bytes) : args := mkArgs exChain p [] [] [] true false.

(** Thresholds on the committee sizes of the sweep. *)
Example C03_thresholds_1_3_4_7 :
  map (fun n => (alpha_m n, maj_m n)) [1; 3; 4; 7]%nat = [(1, 1); (3, 2); (3, 3); (5, 4)]%nat.
Proof. vm_compute. reflexivity. Qed.

(** The Balance rows are met by the right witnesses (and then the model
    moves funds), and not by the wrong ones. *)
Definition s0 := brun [(mkCtx [] true, Mint exA 1000 []); (mkCtx [] true, Mint exB 1000 [])].
Example C03_balance_nonvacuous :
  map (fun '(sg, o) =>
         let c := mkWCtx sg [] in
         let a := exArgs (bop_princ o) in
         let '(s', v, _) := bstep s0 (to_bctx c exChain, o) in
         (match required (bop_key o) with Some r => eval_req c a r | None => false end,
          balance_of s' exA, v))
    [ ([exA], Transfer exA exB 300);            (* the holder *)
      ([exB], Transfer exA exB 300);            (* somebody else *)
      ([exCommittee], Transfer exA exB 300);    (* the committee account is not the holder *)
      ([exAlpha], TransferX exA exB 300 []);    (* the Alphabet account *)
      ([exCommittee], TransferX exA exB 300 []);(* the majority account where 2n/3+1 is required *)
      ([exA], Burn exA 300 []) ]                (* the holder cannot burn *)
  = [ (true, 700, VBool true); (false, 1000, VBool false); (false, 1000, VBool false);
      (true, 700, VNull); (false, 1000, VFault); (false, 1000, VFault) ]%Z.
Proof. vm_compute. reflexivity. Qed.

(** Rows with a combined requirement need both parts. *)
Example C03_combined_rows :
  let r := match required (KNetmap, "updateState", 2%nat) with Some r => r | None => RNever end in
  map (fun sg => eval_req (mkWCtx sg []) (exArgs [[]; exA]) r)
    [ []; [exA]; [exAlpha]; [exCommittee; exA]; [exAlpha; exA] ]
  = [ false; false; false; false; true ].
Proof. vm_compute. reflexivity. Qed.

(** The checker flags an effect under an unmet requirement, and an effect
    of a method that has no row. *)
Example C03_checker_flags :
  map check_case
    [ mkCase (KNetmap, "newEpoch", 1%nat) (mkWCtx [exCommittee] []) (exArgs []) OHaltOther true;
      mkCase (KNetmap, "newEpoch", 1%nat) (mkWCtx [exCommittee] []) (exArgs []) OFault false;
      mkCase (KNetmap, "newEpoch", 1%nat) (mkWCtx [exAlpha] []) (exArgs []) OHaltOther true;
      mkCase (KNetmap, "brandNew", 1%nat) (mkWCtx [exA] []) (exArgs []) OHaltOther true;
      mkCase (KNetmap, "brandNew", 1%nat) (mkWCtx [exA] []) (exArgs []) OFault false;
      mkCase (KNetmap, "newEpoch", 1%nat) (mkWCtx [exAlpha] []) (exArgs []) OFaultGuard false;
      mkCase (KNetmap, "newEpoch", 1%nat) (mkWCtx [exCommittee] []) (exArgs []) OHaltOther false ]
  = [ Some VUnmetEffect; None; None; Some VUnmodelledEffect; None; Some VMetRefused; Some VUnmetNotRefused ].
Proof. vm_compute. reflexivity. Qed.

(** The small models: with the Alphabet's witness the estimation signals are
    emitted and the vote is cast; without it nothing happens.  A callable
    method name reaches its body, an underscore name does not. *)
Example C03_small_models_nonvacuous :
  let yes := mkWCtx [exAlpha] [] in
  let no := mkWCtx [exCommittee] [] in
  let a := exArgs [] in
  ( WitnessSmall.sstep tt (to_sop yes a (WitnessSmall.SStart false 5%Z)),
    WitnessSmall.sstep tt (to_sop no a (WitnessSmall.SStart true 5%Z)),
    WitnessSmall.vote_step None (to_vctx yes a 7 0 (fun _ => true)) 7 [exA; exB],
    WitnessSmall.vote_step None (to_vctx no a 7 0 (fun _ => true)) 7 [exA; exB],
    WitnessSmall.vm_invoke (S := nat) (N := unit) "put" (fun s => Halt (Datatypes.S s, VNull, [tt])) 0%nat,
    WitnessSmall.vm_invoke (S := nat) (N := unit) "_deploy" (fun s => Halt (Datatypes.S s, VNull, [tt])) 0%nat )
  = ( (tt, VNull, [WitnessSmall.NStartEstimation 5%Z]), (tt, VFault, []),
      (Some exA, VNull), (None, VFault),
      (1%nat, VNull, [tt]), (0%nat, VFault, []) ).
Proof. vm_compute. reflexivity. Qed.

(** Reputation, NeoFSID, the Netmap configuration: met => the step stores. *)
Example C03_store_models_nonvacuous :
  let yes := mkWCtx [exAlpha] [] in
  let a := exArgs [] in
  ( snd (Reputation.rstep ∅ (to_rop yes a 3%Z [1%N] [2%N])),
    bool_decide (fst (Reputation.rstep ∅ (to_rop yes a 3%Z [1%N] [2%N])) = ∅),
    snd (NeoFSID.nstep ∅ (to_nidop yes a (NeoFSID.NAdd false (repeat 5%N 25) [repeat 6%N 33]))),
    bool_decide (fst (NeoFSID.nstep ∅ (to_nidop yes a (NeoFSID.NAdd false (repeat 5%N 25) [repeat 6%N 33]))) = ∅) )
  = (VNull, false, VNull, false).
Proof. vm_compute. reflexivity. Qed.

