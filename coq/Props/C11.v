(** Props/C11.v — NNS: only owner/admin/committee may change a name;
    sub-names need the parent.  Model: Model/NNS.v; lemmas: Proofs/NNSAuth.v.
    [authorised ctx s op] is the property text: records/SOA/renew need the
    owner or admin of the token the name resolves to (the committee for
    committee-owned names), transfer the owner, setAdmin the owner and the new
    admin, register the future owner plus — from the third level on — the
    owner/admin of the directly enclosing name, registerTLD/setPrice the
    committee.  No premise on states: the theorems hold from every state,
    hence after every history. *)
From Verif Require Import Base.Prelude Model.NNS Proofs.NNSBase Proofs.NNSAuth.
Local Open Scope Z_scope.

Section C11.
Variable hash : bytes -> bytes.
Variable valid_name : bytes -> bool.
Variable valid_data : Z -> bytes -> bool.
Variable str_ok : bytes -> bool.

Notation nstep := (nstep hash valid_name valid_data str_ok).
Notation nexec := (nexec hash valid_name valid_data str_ok).
Notation nrun := (nrun hash valid_name valid_data str_ok).
Notation authorised := (authorised hash valid_name).

(** A step that changes the NNS state or emits any notification was
    authorised — whatever the state, the context, the method, the arguments. *)
Theorem C11_sound : forall s c o s' r ns,
  nstep s (c, o) = (s', r, ns) -> s' <> s \/ ns <> [] -> authorised c s o = true.
Proof. exact (step_sound hash valid_name valid_data str_ok). Qed.

(** Every unauthorised attempt leaves the state unchanged and notifies
    nothing: it faults, or (transfer not witnessed by the owner) returns
    [false]. *)
Theorem C11_unauthorised_inert : forall s c o s' r ns,
  nstep s (c, o) = (s', r, ns) -> authorised c s o = false ->
  s' = s /\ ns = [] /\ (r = VFault \/ r = VBool false /\ exists t n, o = Transfer t n).
Proof. exact (step_unauthorised_inert hash valid_name valid_data str_ok). Qed.

(** Over every history (any operations, signers, times): from the state
    reached, an effect needs authorisation. *)
Theorem C11_history : forall ops c o,
  let s := nrun ops in
  let '(s', _, ns) := nstep s (c, o) in
  s' <> s \/ ns <> [] -> authorised c s o = true.
Proof.
  intros ops c o s. destruct (nstep s (c, o)) as [[s' r] ns] eqn:E. exact (C11_sound _ _ _ _ _ _ E).
Qed.

(** ** Authorisation follows ownership *)
Notation nothing_authorised_on := (nothing_authorised_on hash valid_name).

(** After a transfer to a different owner, a context that does not witness
    the new owner — e.g. one witnessing only the former owner and the former
    admin — authorises nothing on the name (the admin was cleared). *)
Theorem C11_follows_ownership_transfer : forall c s o2 n s' ns ns0 c',
  nexec c s (Transfer (Some o2) n) = Halt (s', VBool true, ns) ->
  get_ns hash s n = Some ns0 -> ns_owner ns0 <> Some o2 ->
  wit_of c' o2 = false -> nothing_authorised_on c' s' n.
Proof.
  intros c s o2 n s' ns ns0 c' H Hn Hne Hw.
  destruct (transfer_post hash valid_name valid_data str_ok _ _ _ _ _ _ _ H Hn Hne) as [Hp Hl].
  exact (fresh_owner_only hash valid_name _ _ _ _ _ _ Hp Hl Hw).
Qed.

(** After a (re-)registration — in particular the takeover of an expired name
    by [o2] — only [o2] counts: the former owner and admin authorise nothing
    (admins are appointed anew, by [o2], see [authorised] for SetAdmin). *)
Theorem C11_follows_ownership_register : forall c s o2 n e a b x d s' ns c',
  nexec c s (Register n (Some o2) e a b x d) = Halt (s', VBool true, ns) ->
  wit_of c' o2 = false -> nothing_authorised_on c' s' n.
Proof.
  intros c s o2 n e a b x d s' ns c' H Hw.
  destruct (register_post hash valid_name valid_data str_ok _ _ _ _ _ _ _ _ _ _ _ H) as [[exp Hp] Hl].
  exact (fresh_owner_only hash valid_name _ _ _ _ _ _ Hp Hl Hw).
Qed.

(** The owner of the parent can register sub-names (see the Example below)
    but cannot touch the records, SOA, lifetime, admin or ownership of a
    *registered* (live) sub-name: its token is the sub-name itself. *)
Theorem C11_follows_ownership_subname : forall c s sub ns,
  valid_name sub = true -> (2 <=? level sub)%nat = true -> live hash c s sub = true ->
  get_ns hash s sub = Some ns -> may_admin c ns = false -> owner_wit c ns = false ->
  token_id_from_name hash valid_name c s sub = Halt sub /\ nothing_authorised_on c s sub.
Proof.
  intros c s sub ns Hv Hl Hlive Hn Hm Ho. split.
  - apply token_of_live; assumption.
  - eapply unauthorised_on_name; eassumption.
Qed.

(** ... and whatever is not authorised is inert (combination with
    [C11_unauthorised_inert]), e.g. for the record methods: *)
Theorem C11_follows_ownership_inert : forall c s n name o,
  nothing_authorised_on c s n ->
  token_id_from_name hash valid_name c s name = Halt n ->
  (exists t d, o = AddRecord name t d) \/ (exists t i d, o = SetRecord name t i d) \/ (exists t, o = DeleteRecords name t) ->
  nstep s (c, o) = (s, VFault, []).
Proof.
  intros c s n name o (_ & _ & _ & _ & Hr & _) Ht Ho.
  destruct (Hr name Ht) as (Ha & Hs & Hd).
  assert (Hf : authorised c s o = false).
  { destruct Ho as [(t & d & ->)|[(t & i & d & ->)|(t & ->)]]; auto. }
  destruct (nstep s (c, o)) as [[s' r] ns] eqn:E.
  destruct (C11_unauthorised_inert _ _ _ _ _ _ E Hf) as (-> & -> & [->|[_ (t & m & ->)]]); [reflexivity|].
  destruct Ho as [(? & ? & ?)|[(? & ? & ? & ?)|(? & ?)]]; discriminate.
Qed.

End C11.

(** [checkCommittee] asks for [l - (l-1)/2] of the [l] committee keys: the
    majority [l/2 + 1]. *)
Theorem C11_committee_threshold : forall l, 1 <= l -> l - (l - 1) / 2 = l / 2 + 1.
Proof. exact committee_threshold. Qed.

Print Assumptions C11_sound.
Print Assumptions C11_unauthorised_inert.
Print Assumptions C11_history.
Print Assumptions C11_follows_ownership_transfer.
Print Assumptions C11_follows_ownership_register.
Print Assumptions C11_follows_ownership_subname.
Print Assumptions C11_follows_ownership_inert.
Print Assumptions C11_committee_threshold.

(** * Non-vacuity *)
Definition xid (b : bytes) : bytes := b.
Definition yes1 (b : bytes) : bool := true.
Definition yes2 (t : Z) (b : bytes) : bool := true.
Definition com : bytes := [99;111;109]%N.
Definition acom : bytes := [97;46;99;111;109]%N.
Definition xacom : bytes := [120;46;97;46;99;111;109]%N.
Definition yacom : bytes := [121;46;97;46;99;111;109]%N.
Definition pA : bytes := repeat 1%N 20.
Definition pB : bytes := repeat 2%N 20.
Definition pC : bytes := repeat 3%N 20.
Definition pK : bytes := repeat 9%N 20.
Definition cx (t : Z) (w : list bytes) : nctx := mkNC t w pK [].
Definition em : bytes := [101]%N.
Definition txt : bytes := [116]%N.
Definition st1 := NNS.nstep xid yes1 yes2 yes1.
Definition run1 ops := fold_left (fun s co => fst (fst (st1 s co))) ops ninit.
(** com by the committee; a.com by A with admin B; x.a.com registered by the
    parent's admin B for C; then A transfers a.com to C. *)
Definition sA := run1
  [ (cx 10 [pK], SetPrice 1000); (cx 11 [pK], RegisterTLD com em 1 2 1000000 4);
    (cx 12 [pA], Register acom (Some pA) em 1 2 100000 4);
    (cx 13 [pA; pB], SetAdmin acom (Some pB));
    (cx 14 [pB; pC], Register xacom (Some pC) em 1 2 100000 4) ].
Definition sB := run1 [(cx 15 [pA], Transfer (Some pC) acom)].
Definition res (s : nstate) (c : nctx) (o : nop) :=
  (snd (fst (st1 s (c, o))), authorised xid yes1 c s o).

(** owner, admin, parent owner, stranger, committee on records / sub-names *)
Example C11_nonvacuous :
  map (fun co => res sA (fst co) (snd co))
    [ (cx 20 [pA], AddRecord acom 16 txt);       (* owner *)
      (cx 20 [pB], AddRecord acom 16 txt);       (* admin *)
      (cx 20 [pC], AddRecord acom 16 txt);       (* stranger *)
      (cx 20 [pK], AddRecord acom 16 txt);       (* committee: not for an owned name *)
      (cx 20 [pA], AddRecord yacom 16 txt);      (* unregistered sub-name: the parent *)
      (cx 20 [pA], AddRecord xacom 16 txt);      (* registered sub-name: not the parent owner *)
      (cx 20 [pC], AddRecord xacom 16 txt);
      (cx 20 [pB], Transfer (Some pB) acom);     (* admin cannot transfer *)
      (cx 20 [pA], SetAdmin acom (Some pC));     (* the new admin must sign too *)
      (cx 20 [pA], Register yacom (Some pA) em 1 2 5 4);
      (cx 20 [pC], Register yacom (Some pC) em 1 2 5 4);  (* not the parent *)
      (cx 20 [pA], RegisterTLD acom em 1 2 5 4);
      (cx 20 [pK], Renew com 1) ]
  = [ (VNull, true); (VNull, true); (VFault, false); (VFault, false); (VNull, true);
      (VFault, false); (VNull, true); (VBool false, false); (VFault, false);
      (VBool true, true); (VFault, false); (VFault, false); (VInt (1000000 * 1000 + 11 + millisecondsInYear), true) ].
Proof. vm_compute. reflexivity. Qed.

(** the hypotheses of [C11_follows_ownership_transfer] are met by [sA -> sB]
    and the former owner / former admin are then refused *)
Example C11_transfer_nonvacuous :
  NNS.nexec xid yes1 yes2 yes1 (cx 15 [pA]) sA (Transfer (Some pC) acom)
    = Halt (nrun_from xid yes1 yes2 yes1 sA [(cx 15 [pA], Transfer (Some pC) acom)], VBool true, [NTransfer (Some pA) (Some pC) acom]) /\
  wit_of (cx 20 [pA; pB]) pC = false /\
  map (fun o => res (nrun_from xid yes1 yes2 yes1 sA [(cx 15 [pA], Transfer (Some pC) acom)]) (cx 20 [pA; pB]) o)
    [AddRecord acom 16 txt; Renew acom 1; Transfer (Some pA) acom; SetAdmin acom (Some pB)]
  = [(VFault, false); (VFault, false); (VBool false, false); (VFault, false)].
Proof. vm_compute. auto. Qed.
