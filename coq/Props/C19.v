(** Props/C19.v — GAS handled by the governance contracts is accounted exactly.
    Only statements, each closed by a short proof and followed by
    [Print Assumptions].  Models: Model/Gas.v (native GAS, trusted shape),
    Model/NeoFSGas.v, Model/Alphabet.v, Model/ProxyProc.v, Model/GasWorld.v,
    tied to contracts/{neofs,alphabet,proxy,processing}/contract.go by the
    correspondence check of ./check C19 (real native GAS/NEO on a neotest chain).

    Vocabulary (Proofs/GasNeoFS.v, Proofs/GasLedger.v):
      [is_marker d]      d converts to the byte string "\x57\x0b" (ignoreDepositNotification)
      [data_len d n]     d converted to bytes has n bytes (Null counts as empty)
      [deposit_ok a d]   0 < a <= 9000 * 10^8  /\  (data_len d 0 \/ data_len d 20)
      [deposit_rcv f d]  d's bytes if they are 20, else f
      [gas_move l f t a] debit f, credit t
      [inflow k ns] / [outflow k ns] / [cheques ns]
                         sums over the native Transfer events to k / from k, and over the
                         Cheque notifications, of one notification stream
      [withdraw_rcpts]   [procH] with Notary, the standard accounts of the stored Alphabet
                         keys (one per key, in order) without. *)
From Verif Require Import Base.Prelude Base.IntCodec Model.Gas Model.ProxyProc Model.Alphabet
  Model.NeoFSGas Model.GasWorld Proofs.GasLedger Proofs.GasNeoFS Proofs.GasAlphabet Proofs.GasWorld Proofs.GasNonneg.
Local Open Scope Z_scope.

(** ** Deposits *)

(** The constant of the source: 9000 GAS in fixed8. *)
Theorem C19_max_amount : max_balance_amount_gas = 9000 * 10 ^ 8.
Proof. reflexivity. Qed.
Print Assumptions C19_max_amount.

(** A witnessed, funded GAS transfer of [a] from [f] to the NeoFS contract
    with data [d], in any state, any deployment, any context:
    - marker: accepted, the GAS moves, no notification of the contract;
    - no marker, [deposit_ok a d]: accepted, the GAS moves, exactly one
      [Deposit(f, a, rcv, txhash)] right after the native Transfer event;
    - otherwise the whole transaction faults (nothing moves).
    Hence: accepted <-> marker \/ (0 < a <= 9000 GAS /\ |d| in {0, 20}). *)
Theorem C19_deposit : forall e c w f a d,
  hash_len f = true -> hash_len (fsH e) = true ->
  inb f (wit c) = true -> 0 <= a <= gbal (gas w) f ->
  let N := fsH e in
  let r := wexec e c w (OGasTransfer f N a d) in
  let moved := mkW (gas_move (gas w) f N a) (fs w) in
  (is_marker d -> r = Halt (moved, VBool true, [EGas f N a])) /\
  (~ is_marker d -> deposit_ok a d ->
     r = Halt (moved, VBool true, [EGas f N a; EDeposit f a (deposit_rcv f d) (txhash c)])) /\
  (~ is_marker d -> ~ deposit_ok a d -> r = Fault) /\
  ((exists w' ns, r = Halt (w', VBool true, ns)) <-> (is_marker d \/ deposit_ok a d)).
Proof.
  intros e c w f a d Hf HN Hw Ha N r moved.
  pose proof (deposit_world e c w f a d Hf HN Hw Ha) as H. fold N r moved in H.
  destruct (markerb d) eqn:Em; [apply markerb_spec in Em|apply markerb_false in Em];
    [|destruct (deposit_okb a d) eqn:Eo; [apply deposit_okb_spec in Eo|apply deposit_okb_false in Eo]];
    (split; [intros; try contradiction; exact H|]); (split; [intros; try contradiction; exact H|]);
    (split; [intros; try contradiction; exact H|]); rewrite H; split; eauto; try tauto.
  intros (? & ? & ?). discriminate.
Qed.
Print Assumptions C19_deposit.

(** The receiver of the Deposit is [d] when it has 20 bytes and the sender when it is empty. *)
Theorem C19_deposit_receiver : forall from d,
  (data_len d 20 -> data_bytes d = Halt (Some (deposit_rcv from d))) /\
  (data_len d 0 -> deposit_rcv from d = from).
Proof. exact deposit_rcv_spec. Qed.
Print Assumptions C19_deposit_receiver.

(** Without the witness of the sender or without the funds the native
    transfer returns false and nothing happens. *)
Theorem C19_deposit_unfunded : forall e c w f t a d,
  hash_len f = true -> hash_len t = true ->
  (a < 0 \/ inb f (wit c) = false \/ gbal (gas w) f < a) ->
  wexec e c w (OGasTransfer f t a d) = Halt (w, VBool false, []).
Proof. exact deposit_world_refused. Qed.
Print Assumptions C19_deposit_unfunded.

(** The callback itself, whoever calls it: without the marker only native GAS
    is accepted (any amount, any data, any [from]). *)
Theorem C19_deposit_only_gas : forall g tx caller from a d,
  caller <> g -> ~ is_marker d -> neofs_on_payment g tx caller from a d = Fault.
Proof. intros g tx caller from a d Hc Hm. apply on_payment_not_gas; [apply markerb_false; exact Hm|exact Hc]. Qed.
Print Assumptions C19_deposit_only_gas.

(** On the chain: another token (or an entry script) calling
    NeoFS.onNEP17Payment, and a NEO transfer to NeoFS, fault without the marker. *)
Theorem C19_deposit_other_token_refused : forall e c w tok f a d minted,
  ~ is_marker d ->
  (tok <> gasH e -> wexec e c w (OTokenPay tok (fsH e) f a d) = Fault) /\
  (neoH e <> gasH e -> wexec e c w (ONeoTransfer f (fsH e) a d minted) = Fault).
Proof.
  intros e c w tok f a d minted Hm. split; intros H.
  - apply other_token_refused; assumption.
  - apply neo_refused; assumption.
Qed.
Print Assumptions C19_deposit_other_token_refused.

(** ** Withdraw *)

(** A halting [withdraw(u, x)]: bounds, witness, the configured fee moved once
    to each recipient (Processing with Notary, each Alphabet account without)
    and nothing else: every balance is given, the total is unchanged, the
    NeoFS state is unchanged, the notifications are the Transfers and one
    [Withdraw(u, x * 10^8, txhash)]. *)
Theorem C19_withdraw_fee : forall e c w u x w' r ns,
  wexec e c w (OWithdraw u x) = Halt (w', r, ns) ->
  r = VNull /\ 0 <= x <= max_balance_amount /\ check_witness e c u = Halt true /\ fs w' = fs w /\
  exists fee rcpts,
    config_int (fs w) withdraw_fee_key = Halt fee /\ withdraw_rcpts e (fs w) = Some rcpts /\
    (rcpts <> [] -> fee = Some (fee_val fee) /\ 0 <= fee_val fee /\ hash_len u = true /\
                    inb u (wit c) = true) /\
    (forall k, gbal (gas w') k = gbal (gas w) k + fee_val fee * count_occ_b k rcpts
                                 - ind (bytes_eqb k u) (fee_val fee * Z.of_nat (length rcpts))) /\
    lsum (gas w') = lsum (gas w) /\
    (Forall (fun r => r <> fsH e) rcpts ->
     ns = map (fun r => EGas u r (fee_val fee)) rcpts ++ [EWithdraw u (x * 100000000) (txhash c)]).
Proof. exact withdraw_world. Qed.
Print Assumptions C19_withdraw_fee.

(** The recipients: exactly Processing in Notary mode. *)
Theorem C19_withdraw_rcpts_notary : forall e s,
  notary_off s = false -> withdraw_rcpts e s = Some [procH s].
Proof. intros e s H. unfold withdraw_rcpts. rewrite H. reflexivity. Qed.
Print Assumptions C19_withdraw_rcpts_notary.

(** ** Candidate registration *)
Theorem C19_candidate_fee : forall e c w key w' r ns,
  wexec e c w (OCandAdd key) = Halt (w', r, ns) ->
  r = VNull /\ check_witness e c key = Halt true /\ cands (fs w) !! key = None /\
  exists from fee,
    std_acc e key = Some from /\ config_int (fs w) candidate_fee_key = Halt (Some fee) /\
    0 <= fee <= gbal (gas w) from /\
    gas w' = gas_move (gas w) from (fsH e) fee /\
    ns = [EGas from (fsH e) fee] /\
    cands (fs w') = <[key := tt]> (cands (fs w)).
Proof. exact cand_add_world. Qed.
Print Assumptions C19_candidate_fee.

(** ** Cheque *)

(** A halting [cheque(id, u, a, lock)] either only recorded a vote (possible
    in notary-disabled mode only: nothing moves, nothing is announced) or paid
    exactly [a] from the contract to [u], once, and announced it once.  In
    Notary mode it needs the witness of the committee's 2n/3+1 account and pays
    on every such call. *)
Theorem C19_cheque_exact : forall e c w id u a lock w' r ns,
  wexec e c w (OCheque id u a lock) = Halt (w', r, ns) ->
  r = VNull /\
  exists bs go, alpha_gate e c (fs w) id = Halt (bs, go) /\ fs w' = set_ballots (fs w) bs /\
    (notary_off (fs w) = false -> go = true /\ inb (alpha_addr c) (wit c) = true) /\
    ((go = false /\ gas w' = gas w /\ ns = []) \/
     (go = true /\ 0 <= a <= gbal (gas w) (fsH e) /\ hash_len u = true /\
      gas w' = gas_move (gas w) (fsH e) u a /\
      (u <> fsH e -> ns = [EGas (fsH e) u a; ECheque id u a lock]) /\
      (u = fsH e -> ns = [EGas (fsH e) (fsH e) a; EDeposit (fsH e) a (fsH e) (txhash c);
                          ECheque id (fsH e) a lock]))).
Proof. exact cheque_world. Qed.
Print Assumptions C19_cheque_exact.

(** ** Histories *)

(** Every balance change of every account is announced by the native Transfer
    events of the transaction (one step; any operation). *)
Theorem C19_transfers_announced : forall e c w o w' r ns,
  hash_len (fsH e) = true -> (forall k h, std_acc e k = Some h -> h <> fsH e) ->
  inb (fsH e) (wit c) = false ->
  wexec e c w o = Halt (w', r, ns) ->
  forall k, k <> [] -> gbal (gas w') k = gbal (gas w) k + inflow k ns - outflow k ns.
Proof. intros e c w o w' r ns H1 H2 H3 H k. exact (proj1 (wexec_ok e c H1 H2 H3 _ _ _ _ _ H) k). Qed.
Print Assumptions C19_transfers_announced.

(** GAS leaves the NeoFS contract only through cheques (one step). *)
Theorem C19_only_cheques_pay : forall e c w o w' r ns,
  hash_len (fsH e) = true -> (forall k h, std_acc e k = Some h -> h <> fsH e) ->
  inb (fsH e) (wit c) = false ->
  wexec e c w o = Halt (w', r, ns) -> outflow (fsH e) ns = cheques ns.
Proof. intros e c w o w' r ns H1 H2 H3 H. exact (proj2 (wexec_ok e c H1 H2 H3 _ _ _ _ _ H)). Qed.
Print Assumptions C19_only_cheques_pay.

(** Over any history of any operations in any contexts from any state:
    gas(NeoFS) = initial + everything received - cheques paid.
    Premises: the contract's hash has 20 bytes, no public key's standard
    account is the contract's hash, the contract never signs a transaction
    (it has no [verify] method). *)
Theorem C19_balance_identity : forall e w0 ops,
  hash_len (fsH e) = true -> (forall k h, std_acc e k = Some h -> h <> fsH e) ->
  signer_free e ops ->
  let '(w, ns) := wrun e w0 ops in
  gbal (gas w) (fsH e) = gbal (gas w0) (fsH e) + inflow (fsH e) ns - cheques ns.
Proof.
  intros e w0 ops H1 H2 H3. unfold wrun.
  apply (wrun_identity_gen e w0 H1 H2 ops w0 [] H3). cbn. lia.
Qed.
Print Assumptions C19_balance_identity.

(** Deposits are reported honestly: in the notifications of any transaction
    every [Deposit(f, a, ..)] stands right after the native
    [Transfer(f, NeoFS, a)] that brought the GAS. *)
Theorem C19_deposits_backed : forall e c w o w' r ns,
  neoH e <> gasH e -> op_wf e o ->
  wexec e c w o = Halt (w', r, ns) -> backed (fsH e) None ns = true.
Proof. intros e c w o w' r ns H1 H2 H. exact (wexec_backed e c H1 _ _ _ _ _ H2 H). Qed.
Print Assumptions C19_deposits_backed.

(** A faulting transaction changes nothing and announces nothing. *)
Theorem C19_fault_is_inert : forall e w co,
  wexec e (fst co) w (snd co) = Fault -> wstep e w co = (w, VFault, []).
Proof. intros e w co H. unfold wstep. rewrite H. reflexivity. Qed.
Print Assumptions C19_fault_is_inert.

(** ** Alphabet.emit *)

(** emit halts => the transaction is witnessed by committee[index] of this contract. *)
Theorem C19_emit_permission : forall cb e c self index proxy minted l l' ns,
  alphabet_emit cb e c self index proxy minted l = Halt (l', ns) ->
  0 <= index < Z.of_nat (length (committee c)) /\
  exists node, nth_error (committee c) (Z.to_nat index) = Some node /\
               check_witness e c node = Halt true.
Proof.
  intros cb e c self index proxy minted l l' ns H. apply check_permission_spec.
  unfold alphabet_emit in H. destruct (check_permission e c index) as [[|]|]; try discriminate. reflexivity.
Qed.
Print Assumptions C19_emit_permission.

(** The split, for every balance [g >= 0] after the NEO self transfer, every
    Inner Ring list, every behaviour of the receivers: [g >= 2], [N >= 1],
    the proxy's half and the per-node share are the floors below, every
    balance is given, the total grows by exactly what NEO minted. *)
Theorem C19_emit_split : forall cb e c self index proxy minted l l' ns,
  0 <= gbal l self -> 0 <= minted ->
  alphabet_emit cb e c self index proxy minted l = Halt (l', ns) ->
  let g := gbal l self + minted in
  let n := Z.of_nat (length (ir c)) in
  let half := g / 2 in
  let per := (g - g / 2) * 7 / 8 / n in
  2 <= g /\ 1 <= n /\
  0 <= per /\ per * n <= g - half /\ per = (g - g / 2) * 7 / (8 * n) /\
  lsum l' = lsum l + minted /\
  exists rcpts,
    (if per =? 0 then rcpts = [] else mapM (std_acc e) (ir c) = Some rcpts) /\
    forall k, gbal l' k =
      gbal l k + ind (bytes_eqb k self) minted
      - ind (bytes_eqb k self) half + ind (bytes_eqb k proxy) half
      + per * count_occ_b k rcpts - ind (bytes_eqb k self) (per * Z.of_nat (length rcpts)).
Proof.
  intros cb e c self index proxy minted l l' ns Hl Hm H.
  pose proof (emit_spec cb e c _ _ _ _ _ _ _ Hl Hm H) as S. cbv zeta in S |- *.
  destruct S as (_ & Hg & Hn & _ & _ & rcpts & pevs & evs & Hr & _ & _ & _ & Hs & Hk).
  destruct (emit_per_bounds (gbal l self + minted) (Z.of_nat (length (ir c))) ltac:(lia) ltac:(lia)) as (B1 & B2 & B3).
  unfold emit_per, emit_half in *.
  repeat split; try assumption; try lia.
  - apply (emit_per_one_floor (gbal l self + minted)). lia.
  - exists rcpts. split; assumption.
Qed.
Print Assumptions C19_emit_split.

(** Account by account, when the contract, the proxy and the node accounts
    are pairwise different: Proxy +floor(g/2), each node +share, the contract
    keeps [g - floor(g/2) - N * share >= 0], nobody else moves. *)
Theorem C19_emit_split_accounts : forall cb e c self index proxy minted l l' ns rcpts,
  0 <= gbal l self -> 0 <= minted ->
  alphabet_emit cb e c self index proxy minted l = Halt (l', ns) ->
  mapM (std_acc e) (ir c) = Some rcpts -> NoDup (self :: proxy :: rcpts) ->
  let g := gbal l self + minted in
  let n := Z.of_nat (length (ir c)) in
  let half := g / 2 in
  let per := (g - g / 2) * 7 / 8 / n in
  gbal l' proxy = gbal l proxy + half /\
  (forall r, r ∈ rcpts -> gbal l' r = gbal l r + per) /\
  gbal l' self = g - half - per * n /\ 0 <= g - half - per * n /\
  (forall k, k ∉ self :: proxy :: rcpts -> gbal l' k = gbal l k).
Proof.
  intros cb e c self index proxy minted l l' ns rcpts Hl Hm H Hmap Hd.
  pose proof (emit_spec cb e c _ _ _ _ _ _ _ Hl Hm H) as S. cbv zeta in S |- *.
  destruct S as (_ & Hg & Hn & _ & _ & rc & pevs & evs & Hr & _ & _ & _ & _ & Hk).
  destruct (emit_per_bounds (gbal l self + minted) (Z.of_nat (length (ir c))) ltac:(lia) ltac:(lia)) as (B1 & B2 & B3).
  unfold emit_per, emit_half in *.
  set (per := (gbal l self + minted - (gbal l self + minted) / 2) * 7 / 8 / Z.of_nat (length (ir c))) in *.
  assert (Hlen : length rcpts = length (ir c)) by (symmetry; eapply mapM_length; exact Hmap).
  assert (Hk' : forall k, gbal l' k =
      gbal l k + ind (bytes_eqb k self) minted
      - ind (bytes_eqb k self) ((gbal l self + minted) / 2) + ind (bytes_eqb k proxy) ((gbal l self + minted) / 2)
      + per * count_occ_b k rcpts - ind (bytes_eqb k self) (per * Z.of_nat (length rcpts))).
  { destruct (per =? 0) eqn:Ep.
    - subst rc. intros k. rewrite Hk. assert (per = 0) as -> by lia. cbn [count_occ_b length].
      unfold ind. destruct (bytes_eqb k self); lia.
    - rewrite Hmap in Hr. injection Hr as <-. exact Hk. }
  destruct (emit_distinct self proxy minted l l' _ per rcpts Hk' Hd) as (D1 & D2 & D3 & D4).
  rewrite Hlen in D3. repeat split; try assumption; lia.
Qed.
Print Assumptions C19_emit_split_accounts.

(** The fault branches: less than 2 units of GAS, or an empty Inner Ring. *)
Theorem C19_emit_faults : forall cb e c self index proxy minted l,
  0 <= gbal l self -> 0 <= minted ->
  (gbal l self + minted < 2 \/ ir c = []) ->
  alphabet_emit cb e c self index proxy minted l = Fault.
Proof.
  intros cb e c self index proxy minted l Hl Hm [H|H].
  - apply emit_small; assumption.
  - apply emit_no_ring; assumption.
Qed.
Print Assumptions C19_emit_faults.

(** ** Accept-only *)
Theorem C19_accept_only : forall g n caller,
  (proxy_on_payment g caller = Halt [] <-> caller = g) /\
  (proxy_on_payment g caller = Fault <-> caller <> g) /\
  (processing_on_payment g caller = Halt [] <-> caller = g) /\
  (processing_on_payment g caller = Fault <-> caller <> g) /\
  (alphabet_on_payment g n caller = Halt [] <-> (caller = g \/ caller = n)) /\
  (alphabet_on_payment g n caller = Fault <-> (caller <> g /\ caller <> n)).
Proof. exact accept_only. Qed.
Print Assumptions C19_accept_only.

(** On the chain: a payment by anything that is not GAS (for an Alphabet
    contract: not GAS and not NEO) faults the transaction. *)
Theorem C19_accept_only_chain : forall e c w tok t f a d,
  (kind_of e t = KProxy \/ kind_of e t = KProcessing ->
   tok <> gasH e -> wexec e c w (OTokenPay tok t f a d) = Fault) /\
  (forall i p, kind_of e t = KAlphabet i p -> tok <> gasH e -> tok <> neoH e ->
   wexec e c w (OTokenPay tok t f a d) = Fault).
Proof. exact accept_only_world. Qed.
Print Assumptions C19_accept_only_chain.

(** ** No GAS is created: native transfers and mints keep every balance >= 0 *)

(** Whatever the callback of the receiver does, whoever signed, whatever the
    amount and the data: a native GAS transfer that halts leaves every balance
    non-negative when they were so before (the premise the emit theorems
    take), and a transfer beyond the sender's balance is refused with [false],
    the ledger untouched. *)
Theorem C19_transfer_keeps_nonneg : forall cb g wt l f t a d l' ok ns,
  nonneg l -> gas_transfer cb g wt l f t a d = Halt (l', ok, ns) -> nonneg l'.
Proof. exact gas_transfer_nonneg. Qed.
Print Assumptions C19_transfer_keeps_nonneg.

Theorem C19_overdraw_refused : forall cb g wt l f t a d,
  hash_len f = true -> hash_len t = true -> gbal l f < a ->
  gas_transfer cb g wt l f t a d = Halt (l, false, []).
Proof. exact gas_transfer_overdraw. Qed.
Print Assumptions C19_overdraw_refused.

Theorem C19_mint_keeps_nonneg : forall cb g l t a l' ns,
  nonneg l -> 0 <= a -> gas_mint cb g l t a = Halt (l', ns) -> nonneg l'.
Proof. exact gas_mint_nonneg. Qed.
Print Assumptions C19_mint_keeps_nonneg.

(** ** Non-vacuity: a concrete deployment and history meeting the premises. *)
Definition xh (b : N) : bytes := repeat b 20.
Definition xk (b : N) : bytes := repeat b 33.
Definition ex_env : env :=
  mkEnv (xh 1) (xh 2) (xh 3)
        [(xk 7, xh 7); (xk 8, xh 8); (xk 9, xh 9); (xk 10, xh 10)]
        [(xh 4, KProcessing); (xh 5, KProxy); (xh 6, KAlphabet 0 (xh 5))].
Definition ex_ctx (w : list bytes) (h : Z) : ctx :=
  mkCtx w (xh 11) (xh 11) (xh 12) [xk 10] [xk 8; xk 9] h (repeat 99%N 32).
Definition ex_w0 : world :=
  winit [(xh 7, 100000000000)] false (xh 4) [xk 10]
        [(withdraw_fee_key, [7%N]); (candidate_fee_key, [11%N])].
Definition ex_hist : list (ctx * op) :=
  [ (ex_ctx [xh 7] 1, OGasTransfer (xh 7) (xh 3) 50000000000 DNull);
    (ex_ctx [xh 7] 2, OGasTransfer (xh 7) (xh 3) 900000000001 DNull);       (* over the limit: fault *)
    (ex_ctx [xh 7] 3, OWithdraw (xh 7) 3);
    (ex_ctx [xh 7] 4, OCandAdd (xk 7));
    (ex_ctx [xh 11] 5, OCheque [1%N] (xh 7) 10000000000 [2%N]);
    (ex_ctx [xh 7] 6, OCheque [1%N] (xh 7) 10000000000 [2%N]);               (* not the Alphabet: fault *)
    (ex_ctx [xh 7] 7, OTokenPay (xh 13) (xh 3) (xh 7) 5 DNull);              (* another token: fault *)
    (ex_ctx [xh 7] 8, OGasTransfer (xh 7) (xh 6) 1000 DNull);
    (ex_ctx [xh 10] 9, OEmit (xh 6) 24) ].

Example C19_nonvacuous :
  hash_len (fsH ex_env) = true /\
  signer_free ex_env ex_hist /\
  Forall (fun co => op_wf ex_env (snd co)) ex_hist /\
  let '(w, ns) := wrun ex_env ex_w0 ex_hist in
  map (gbal (gas w)) [xh 3; xh 4; xh 5; xh 6; xh 7; xh 8; xh 9]
    = [40000000011; 7; 512; 64; 59999998982; 224; 224] /\
  inflow (xh 3) ns = 50000000011 /\ cheques ns = 10000000000 /\
  length ns = 12%nat.
Proof.
  split; [reflexivity|]. split; [repeat constructor|]. split.
  { repeat constructor. vm_compute. discriminate. }
  vm_compute. repeat split; reflexivity.
Qed.

(** The premise "no key hashes to the contract" of the example deployment. *)
Example C19_nonvacuous_keys : forall k h, std_acc ex_env k = Some h -> h <> fsH ex_env.
Proof.
  intros k h. unfold std_acc, ex_env. cbn [stdaccs assoc fsH].
  repeat (destruct (bytes_eqb k _); [intros [= <-]; vm_compute; discriminate|]). discriminate.
Qed.

(** A witnessed, funded deposit with each shape of data (premises of C19_deposit). *)
Example C19_deposit_nonvacuous :
  is_marker (DBytes marker) /\ is_marker (DInt 2903) /\ ~ is_marker DNull /\
  deposit_ok 900000000000 DNull /\ deposit_ok 1 (DBytes (xh 9)) /\
  ~ deposit_ok 900000000001 DNull /\ ~ deposit_ok 0 DNull /\ ~ deposit_ok 5 (DBytes [1%N]) /\
  ~ deposit_ok 5 DCompound.
Proof.
  split; [reflexivity|]. split; [reflexivity|]. split; [discriminate|].
  split; [apply deposit_okb_spec; reflexivity|]. split; [apply deposit_okb_spec; reflexivity|].
  split; [apply deposit_okb_false; reflexivity|]. split; [apply deposit_okb_false; reflexivity|].
  split; apply deposit_okb_false; reflexivity.
Qed.

(** Observation (reported to the coordinator; C17 states the voting rule by
    decision id): in notary-disabled mode the ballot of a cheque is keyed by
    [id] alone, so the invocation that completes the 2n/3+1 votes decides the
    payee and the amount — two members approve (id, U, 10), a third sends
    (id, V, 999) and V is paid 999.  [C19_cheque_exact] above is about the
    paying invocation: it pays exactly the amount of that invocation. *)
Definition ob_env : env :=
  mkEnv (xh 1) (xh 2) (xh 3) [(xk 21, xh 21); (xk 22, xh 22); (xk 23, xh 23); (xk 24, xh 24)] [].
Definition ob_ctx (w : list bytes) (h : Z) : ctx :=
  mkCtx w (xh 11) (xh 11) (xh 12) [] [] h (repeat 99%N 32).
Definition ob_w0 : world :=
  winit [(xh 3, 1000)] true (xh 4) [xk 21; xk 22; xk 23; xk 24] [].
Example C19_cheque_vote_by_id_observation :
  let '(w, ns) := wrun ob_env ob_w0
      [ (ob_ctx [xh 21] 1, OCheque [1%N] (xh 7) 10 []);
        (ob_ctx [xh 22] 2, OCheque [1%N] (xh 7) 10 []);
        (ob_ctx [xh 23] 3, OCheque [1%N] (xh 8) 999 []) ] in
  map (gbal (gas w)) [xh 3; xh 7; xh 8] = [1; 0; 999] /\
  ns = [EGas (xh 3) (xh 8) 999; ECheque [1%N] (xh 8) 999 []].
Proof. vm_compute. split; reflexivity. Qed.
