(** Props/C20.v — Epoch-keyed, per-owner and configuration stores return
    exactly what was put.

    Reference objects (Spec/Stores.v) are keyed by the NUMBERS — epoch,
    container id, node, owner, configuration key — never by storage
    encodings.  Where the contracts are exact the theorems are refinements for
    ALL histories.  Listing *by epoch* scans the prefix [int_to_bytes epoch], a
    variable-length little-endian encoding that is not prefix-free; for those
    call sites there is, for ALL histories, an exact characterisation
    ([..._char]: what is returned is what was put under an id whose ENCODING
    has the queried encoding as a prefix), from which follow the refutation of
    exactness ([..._refuted], witness: epochs 1 and 257) and exactness under
    the precise side condition ([..._exact_partial]: no entry put under a
    different epoch has the queried encoding as a prefix; [..._same_len]: in
    particular when all epochs put and queried have encodings of one length). *)
From Verif Require Import Base.Prelude Base.IntCodec Model.StoreLib
  Model.Reputation Model.Audit Model.NeoFSID Model.Config Model.Estimations Spec.Stores
  Proofs.StoreLib Proofs.StoresConfig Proofs.StoresNeoFSID Proofs.StoresReputation
  Proofs.StoresAudit Proofs.StoresEstimations.
Local Open Scope Z_scope.

(** * NeoFSID: Key(owner) = the keys bound to exactly that owner *)

Theorem C20_neofsid_exact : forall ops w,
  (length w = owner_size ->
   exists l, nkeys (nrun ops) w = Halt l /\
             (forall k, k ∈ l <-> (w, k) ∈ spec_nrun ops) /\ NoDup l /\ Sorted bytes_le l) /\
  (length w <> owner_size -> nkeys (nrun ops) w = Fault).
Proof. exact neofsid_exact. Qed.
Print Assumptions C20_neofsid_exact.

(** Bindings are well-formed and only the Alphabet changes them. *)
Theorem C20_neofsid_wf : forall ops w k,
  (w, k) ∈ spec_nrun ops -> length w = owner_size /\ length k = pubkey_len.
Proof. exact spec_nrun_wf. Qed.
Print Assumptions C20_neofsid_wf.

(** * Configuration of Netmap and NeoFS *)

(** [config k] = the value set last under exactly [k] (or at deployment);
    [listConfig] = all pairs, in key order — also for keys that are prefixes
    of one another (the reference is a map keyed by the whole key). *)
Theorem C20_config_exact : forall kd init ops,
  let s := crun kd (cinit init) ops in
  let m := spec_crun kd (spec_cinit init) ops in
  (forall k, cget s k = m !! k) /\
  (forall k, cget_call s k = if (length k <=? 58)%nat then Halt (m !! k) else Fault) /\
  map fst (clist s) = skeys m /\
  (forall k v, (k, v) ∈ clist s <-> m !! k = Some v).
Proof.
  intros kd init ops. destruct (config_exact kd init ops) as (H1 & H2 & H3). cbv zeta.
  split; [exact H1|]. split; [|split; [exact H2|exact H3]].
  intros k. rewrite cget_call_spec. by rewrite H1.
Qed.
Print Assumptions C20_config_exact.

Theorem C20_config_last_write : forall kd m0 ops o k,
  spec_crun kd m0 (ops ++ [o]) !! k =
  if spec_caccept kd o && bytes_eqb (spec_ckey o) k
  then Some (spec_cval o) else spec_crun kd m0 ops !! k.
Proof. exact spec_crun_last. Qed.
Print Assumptions C20_config_last_write.

(** A call is accepted exactly with the Alphabet's witness, a byte-string
    value (Netmap also takes an Integer / Boolean, stored in canonical form)
    and within the platform's key/value limits; it writes exactly one key
    with exactly the bytes passed; NeoFS notifies. *)
Theorem C20_config_step : forall kd s alpha id key v,
  cstep kd s (CSet alpha id key v) =
  if spec_caccept kd (CSet alpha id key v)
  then (<[config_pfx ++ key := spec_cval (CSet alpha id key v)]> s, VNull,
        cnotif kd id key (spec_cval (CSet alpha id key v)))
  else (s, VFault, []).
Proof. exact cstep_cases. Qed.
Print Assumptions C20_config_step.

(** NeoFS without notary: a [SetConfig] is a vote; it takes effect exactly
    when a member's vote completes the tally of its decision, and then exactly
    as the authorised call with the completing invocation's arguments; every
    other vote of a member halts and leaves the configuration alone (so the
    store read back is the value of the last decision that reached its
    threshold, by [C20_config_exact] over histories with votes). *)
Theorem C20_config_vote_step : forall kd s member applied id key v,
  cstep kd s (CVote member applied id key v) =
  if member then
    if applied then cstep kd s (CSet true id key v) else (s, VNull, [])
  else (s, VFault, []).
Proof. exact cstep_vote_cases. Qed.
Print Assumptions C20_config_vote_step.

Theorem C20_config_vote_accept : forall kd member applied id key v,
  spec_caccept kd (CVote member applied id key v) = spec_caccept kd (CSet (member && applied) id key v) /\
  spec_ckey (CVote member applied id key v) = key /\
  spec_cval (CVote member applied id key v) = spec_cval (CSet true id key v).
Proof. intros. repeat split. Qed.
Print Assumptions C20_config_vote_accept.

(** A byte-string value is read back byte for byte, also when it looks like
    a non-minimal integer encoding. *)
Theorem C20_config_bytes_verbatim : forall alpha id key b,
  spec_cval (CSet alpha id key (VBytes b)) = b.
Proof. reflexivity. Qed.
Print Assumptions C20_config_bytes_verbatim.

(** * Estimations: refinement and exact cleanup *)

(** For every history of well-formed operations (32-byte container ids,
    20-byte node hashes whose 10-byte truncation is collision-free on the
    history) and every CleanupDelta >= 0: the "cnr" entries of the storage are
    exactly the entries of the reference map [spec_erun], which is keyed by
    (epoch, cid, node) and evolves by [spec_estep] on accepted operations. *)
Theorem C20_cleanup_exact : forall d1 d2 cap ops, 0 <= d1 -> ehist_ok ops ->
  eR (ests (erun d1 d2 cap ops)) (spec_erun d1 d2 cap ops).
Proof. intros d1 d2 cap ops Hd. exact (estim_refines d1 d2 cap Hd ops). Qed.
Print Assumptions C20_cleanup_exact.

(** The reference moves only on accepted operations … *)
Theorem C20_cleanup_step : forall d1 d2 cap ops o,
  spec_erun d1 d2 cap (ops ++ [o]) =
  match eexec d1 d2 cap (erun d1 d2 cap ops) o with
  | Halt _ => spec_estep d1 d2 (spec_erun d1 d2 cap ops) o
  | Fault => spec_erun d1 d2 cap ops
  end.
Proof. exact spec_erun_snoc. Qed.
Print Assumptions C20_cleanup_step.

(** … an accepted epoch tick [n] removes exactly the entries with
    [n - epoch > TotalCleanupDelta] … *)
Theorem C20_cleanup_tick : forall d1 d2 (m : espec) a n e c h,
  spec_estep d1 d2 m (ETick a n) !! (e, c, h) = if n - e >? d2 then None else m !! (e, c, h).
Proof. exact spec_tick_lookup. Qed.
Print Assumptions C20_cleanup_tick.

(** … and a node's accepted estimation for (e, c) stores its value and
    removes exactly that node's own entries for [c] with
    [e - epoch > CleanupDelta]. *)
Theorem C20_cleanup_node : forall d1 d2 (m : espec) live wit prev e c size pub h20 e' c' h',
  spec_estep d1 d2 m (EPut live wit prev e c size pub h20) !! (e', c', h') =
  if decide ((e', c', h') = (e, c, take postfix_size h20)) then Some (enc_est pub size)
  else if decide (c' = c /\ h' = take postfix_size h20 /\ e - e' > d1) then None
  else m !! (e', c', h').
Proof. exact spec_put_lookup. Qed.
Print Assumptions C20_cleanup_node.

(** The same two rules read directly on the storage, from every reachable
    state: after an accepted tick [n] exactly the entries with
    [n - epoch > TotalCleanupDelta] are gone and nothing else changed … *)
Theorem C20_cleanup_tick_storage : forall d1 d2 cap ops a n s', 0 <= d1 -> ehist_ok ops ->
  eexec d1 d2 cap (erun d1 d2 cap ops) (ETick a n) = Halt s' ->
  forall e c h, length c = cid_size -> length h = postfix_size ->
    ests s' !! ekey' (e, c, h) =
    if n - e >? d2 then None else ests (erun d1 d2 cap ops) !! ekey' (e, c, h).
Proof. intros d1 d2 cap ops a n s' Hd. exact (tick_storage_exact d1 d2 cap Hd ops a n s'). Qed.
Print Assumptions C20_cleanup_tick_storage.

(** … after an accepted estimation of node [h20] for (e, c) its entry is
    stored, exactly that node's entries for [c] with
    [e - epoch > CleanupDelta] are gone and nothing else changed. *)
Theorem C20_cleanup_node_storage : forall d1 d2 cap ops live wit prev e c size pub h20 s', 0 <= d1 ->
  ehist_ok (ops ++ [EPut live wit prev e c size pub h20]) ->
  eexec d1 d2 cap (erun d1 d2 cap ops) (EPut live wit prev e c size pub h20) = Halt s' ->
  forall e' c' h', length c' = cid_size -> length h' = postfix_size ->
    ests s' !! ekey' (e', c', h') =
    if decide ((e', c', h') = (e, c, take postfix_size h20)) then Some (enc_est pub size)
    else if decide (c' = c /\ h' = take postfix_size h20 /\ e - e' > d1) then None
    else ests (erun d1 d2 cap ops) !! ekey' (e', c', h').
Proof.
  intros d1 d2 cap ops live wit prev e c size pub h20 s' Hd.
  exact (put_storage_exact d1 d2 cap Hd ops live wit prev e c size pub h20 s').
Qed.
Print Assumptions C20_cleanup_node_storage.

(** * Access *)

Theorem C20_access :
  (forall d1 d2 cap s live wit prev e c size pub h20,
     snd (estep d1 d2 cap s (EPut live wit prev e c size pub h20)) = VNull ->
     c ∈ live /\ pub ∈ wit /\ pub ∈ prev) /\
  (forall d1 d2 cap s a n, snd (estep d1 d2 cap s (ETick a n)) = VNull -> a = true) /\
  (forall s ir wit raw hk, snd (astep s (APut ir wit raw hk)) = VNull ->
     exists h, parse_hdr raw = Halt h /\ h_from h ∈ ir /\ h_from h ∈ wit) /\
  (forall s a e p v, snd (rstep s (RPut a e p v)) = VNull -> a = true) /\
  (forall s o, snd (nstep s o) = if naccept o then VNull else VFault).
Proof.
  split; [exact estep_access|]. split; [exact etick_access|]. split; [exact astep_access|].
  split; [exact rstep_alpha|exact nstep_result].
Qed.
Print Assumptions C20_access.

(** * Reputation *)

(** ListByEpoch, every history: the ids of the accepted puts whose id has the
    encoding of the queried epoch as a prefix. *)
Theorem C20_reputation_list_char : forall ops e id,
  id ∈ rlist (rrun ops) e <->
  exists e' p' v, (e', p', v) ∈ rlog ops /\ id = rep_id e' p' /\
                  is_prefix (int_to_bytes e) (rep_id e' p') = true.
Proof. exact rlist_char. Qed.
Print Assumptions C20_reputation_list_char.

Theorem C20_reputation_list_exact_partial : forall ops e,
  (forall e' p' v, (e', p', v) ∈ rlog ops -> e' <> e ->
     is_prefix (int_to_bytes e) (rep_id e' p') = false) ->
  (forall id, id ∈ rlist (rrun ops) e <-> exists p v, (e, p, v) ∈ rlog ops /\ id = rep_id e p)
  /\ NoDup (rlist (rrun ops) e) /\ Sorted bytes_le (rlist (rrun ops) e).
Proof.
  intros ops e H. split; [exact (rlist_exact_partial ops e H)|]. split; [apply NoDup_rlist|apply Sorted_rlist].
Qed.
Print Assumptions C20_reputation_list_exact_partial.

Theorem C20_reputation_list_same_len : forall ops e,
  (forall e' p' v, (e', p', v) ∈ rlog ops ->
     length (int_to_bytes e') = length (int_to_bytes e)) ->
  forall id, id ∈ rlist (rrun ops) e <-> exists p v, (e, p, v) ∈ rlog ops /\ id = rep_id e p.
Proof. intros ops e H. apply rlist_exact_partial, rlist_ok_same_len, H. Qed.
Print Assumptions C20_reputation_list_same_len.

Definition P1 : bytes := [7; 7]%N.
Definition P2 : bytes := [8; 8]%N.
Definition rep_witness : list rop := [RPut true 1 P1 [1]%N; RPut true 257 P2 [2]%N].

Theorem C20_reputation_list_refuted : exists ops e id,
  id ∈ rlist (rrun ops) e /\ ~ exists p v, (e, p, v) ∈ rlog ops /\ id = rep_id e p.
Proof.
  exists rep_witness, 1, (rep_id 257 P2). split.
  - apply (bool_decide_eq_true_1 _). vm_compute. reflexivity.
  - intros (p & v & Hin & Heq).
    assert (Hl : rlog rep_witness = [(1, P1, [1]%N); (257, P2, [2]%N)]) by (vm_compute; reflexivity).
    rewrite Hl in Hin. apply elem_of_cons in Hin as [Hin|Hin].
    + injection Hin as -> ->. vm_compute in Heq. discriminate.
    + apply elem_of_list_singleton in Hin. discriminate.
Qed.
Print Assumptions C20_reputation_list_refuted.

(** Epoch 0 encodes to the empty string: ListByEpoch(0) lists everything. *)
Theorem C20_reputation_list_zero : forall ops id,
  id ∈ rlist (rrun ops) 0 <-> exists e p v, (e, p, v) ∈ rlog ops /\ id = rep_id e p.
Proof.
  intros ops id. rewrite rlist_char. split.
  - intros (e & p & v & ? & ? & _). eauto.
  - intros (e & p & v & ? & ?). exists e, p, v. split; [done|]. split; [done|apply is_prefix_nil].
Qed.
Print Assumptions C20_reputation_list_zero.

(** Get / GetByID: the values put under exactly (epoch, peer), as a multiset. *)
Theorem C20_reputation_get_exact_partial : forall ops e p,
  (forall e' p' v, (e', p', v) ∈ rlog ops ->
     (e', p') = (e, p) \/
     (is_prefix (rep_id e p) (rep_id e' p') = false /\ is_prefix (rep_id e' p') (rep_id e p) = false)) ->
  rget (rrun ops) e p ≡ₚ spec_rget (rlog ops) e p /\
  rget_by_id (rrun ops) (rep_id e p) ≡ₚ spec_rget (rlog ops) e p /\
  (forall l, rget_call (rrun ops) e p = Halt l -> l ≡ₚ spec_rget (rlog ops) e p).
Proof.
  intros ops e p H. pose proof (rget_exact_partial ops e p H) as G. split; [exact G|]. split; [exact G|].
  intros l. unfold rget_call, rget_by_id_call, with_key. destruct (key_ok _); [|discriminate].
  intros [= <-]. exact G.
Qed.
Print Assumptions C20_reputation_get_exact_partial.

Theorem C20_reputation_get_same_len : forall ops e p,
  (forall e' p' v, (e', p', v) ∈ rlog ops ->
     length (int_to_bytes e') = length (int_to_bytes e) /\ length p' = length p) ->
  rget (rrun ops) e p ≡ₚ spec_rget (rlog ops) e p.
Proof. intros ops e p H. apply rget_exact_partial, rget_ok_same_len, H. Qed.
Print Assumptions C20_reputation_get_same_len.

(** Refuted: a put under epoch 257 is returned by Get(1, 1 ++ peer). *)
Theorem C20_reputation_get_refuted : exists ops e p,
  ~ rget (rrun ops) e p ≡ₚ spec_rget (rlog ops) e p.
Proof.
  exists [RPut true 257 P2 [2]%N], 1, (1%N :: P2). intros H.
  apply Permutation_length in H. vm_compute in H. discriminate.
Qed.
Print Assumptions C20_reputation_get_refuted.

(** * Audit *)

Theorem C20_audit_get_exact : forall ops id,
  aget (arun ops) id = spec_aget (alog ops) id /\
  aget_call (arun ops) id = if key_ok id then Halt (spec_aget (alog ops) id) else Fault.
Proof. intros ops id. unfold aget_call, with_key. by rewrite aget_exact. Qed.
Print Assumptions C20_audit_get_exact.

(** All four listings, every history. *)
Theorem C20_audit_list_char : forall ops pfx id,
  id ∈ map fst (sfind pfx (arun ops)) <->
  exists x, x ∈ alog ops /\ id = ae_id x /\ is_prefix pfx (ae_id x) = true.
Proof. exact afind_char. Qed.
Print Assumptions C20_audit_list_char.

Theorem C20_audit_listByEpoch_exact_partial : forall ops e,
  (forall x, x ∈ alog ops -> ae_epoch x <> e -> is_prefix (int_to_bytes e) (ae_id x) = false) ->
  forall id, id ∈ alist_epoch (arun ops) e <-> exists x, x ∈ alog ops /\ ae_epoch x = e /\ id = ae_id x.
Proof. exact alist_epoch_exact_partial. Qed.
Print Assumptions C20_audit_listByEpoch_exact_partial.

Theorem C20_audit_listByCID_exact_partial : forall ops e c,
  (forall x, x ∈ alog ops -> (ae_epoch x, ae_cid x) <> (e, c) ->
     is_prefix (int_to_bytes e ++ c) (ae_id x) = false) ->
  forall id, id ∈ alist_cid (arun ops) e c <->
             exists x, x ∈ alog ops /\ ae_epoch x = e /\ ae_cid x = c /\ id = ae_id x.
Proof. exact alist_cid_exact_partial. Qed.
Print Assumptions C20_audit_listByCID_exact_partial.

Theorem C20_audit_listByNode_exact_partial : forall ops e c hk,
  (forall x, x ∈ alog ops -> (ae_epoch x, ae_cid x, ae_hk x) <> (e, c, hk) ->
     is_prefix (aid e c hk) (ae_id x) = false) ->
  forall id, id ∈ alist_node (arun ops) e c hk <->
             exists x, x ∈ alog ops /\ ae_epoch x = e /\ ae_cid x = c /\ ae_hk x = hk /\ id = ae_id x.
Proof. exact alist_node_exact_partial. Qed.
Print Assumptions C20_audit_listByNode_exact_partial.

(** One encoding length for the epochs, one length for container ids and
    node hashes (they are SHA-256 digests): all three listings are exact. *)
Theorem C20_audit_list_same_len : forall ops e c hk,
  (forall x, x ∈ alog ops ->
     length (int_to_bytes (ae_epoch x)) = length (int_to_bytes e) /\
     length (ae_cid x) = length c /\ length (ae_hk x) = length hk) ->
  (forall id, id ∈ alist_epoch (arun ops) e <-> exists x, x ∈ alog ops /\ ae_epoch x = e /\ id = ae_id x) /\
  (forall id, id ∈ alist_cid (arun ops) e c <->
              exists x, x ∈ alog ops /\ ae_epoch x = e /\ ae_cid x = c /\ id = ae_id x) /\
  (forall id, id ∈ alist_node (arun ops) e c hk <->
              exists x, x ∈ alog ops /\ ae_epoch x = e /\ ae_cid x = c /\ ae_hk x = hk /\ id = ae_id x).
Proof.
  intros ops e c hk H. split; [|split].
  - apply alist_epoch_exact_partial, alist_epoch_ok_same_len. intros x Hx. by destruct (H x Hx).
  - apply alist_cid_exact_partial, alist_cid_ok_same_len. intros x Hx. destruct (H x Hx) as (? & ? & ?). auto.
  - apply alist_node_exact_partial, alist_node_ok_same_len, H.
Qed.
Print Assumptions C20_audit_list_same_len.

(** A well-formed V2 result: version header of length 0, the 8-byte
    little-endian epoch, a 32-byte container id, a 33-byte reporter key. *)
Definition mk_raw (e8 cid from : bytes) : bytes :=
  [10; 0; 17]%N ++ e8 ++ [26; 34; 10; 32]%N ++ cid ++ [34; 33]%N ++ from.
Definition le8 (z : Z) : bytes := le_bytes 8 z.
Definition CID1 : bytes := repeat 5%N 32.
Definition CID2 : bytes := repeat 6%N 32.
Definition KEY1 : bytes := 2%N :: repeat 9%N 32.
Definition HK1 : bytes := repeat 4%N 24.
Definition audit_witness : list aop :=
  [APut [KEY1] [KEY1] (mk_raw (le8 1) CID1 KEY1) HK1; APut [KEY1] [KEY1] (mk_raw (le8 257) CID2 KEY1) HK1].

Example audit_witness_log :
  map (fun x => (ae_epoch x, ae_cid x, ae_from x)) (alog audit_witness) = [(1, CID1, KEY1); (257, CID2, KEY1)].
Proof. vm_compute. reflexivity. Qed.

Theorem C20_audit_listByEpoch_refuted : exists ops e id,
  id ∈ alist_epoch (arun ops) e /\ ~ exists x, x ∈ alog ops /\ ae_epoch x = e /\ id = ae_id x.
Proof.
  exists audit_witness, 1, (aid 257 CID2 HK1). split.
  - apply (bool_decide_eq_true_1 _). vm_compute. reflexivity.
  - intros (x & Hin & He & Hid).
    assert (Hl : map (fun x => (ae_epoch x, ae_id x)) (alog audit_witness)
                 = [(1, aid 1 CID1 HK1); (257, aid 257 CID2 HK1)]) by (vm_compute; reflexivity).
    assert (Hx : (ae_epoch x, ae_id x) ∈ map (fun x => (ae_epoch x, ae_id x)) (alog audit_witness))
      by (apply elem_of_list_fmap; eauto).
    rewrite Hl, He, <- Hid in Hx. apply elem_of_cons in Hx as [Hx|Hx].
    + vm_compute in Hx. discriminate.
    + apply elem_of_list_singleton in Hx. discriminate.
Qed.
Print Assumptions C20_audit_listByEpoch_refuted.

(** ListByCID(1, 1 ++ cid[:31]) returns the result of epoch 257 for [cid]. *)
Definition CIDX : bytes := 1%N :: repeat 6%N 31.
Theorem C20_audit_listByCID_refuted : exists ops e c id,
  id ∈ alist_cid (arun ops) e c /\
  ~ exists x, x ∈ alog ops /\ ae_epoch x = e /\ ae_cid x = c /\ id = ae_id x.
Proof.
  exists audit_witness, 1, CIDX, (aid 257 CID2 HK1). split.
  - apply (bool_decide_eq_true_1 _). vm_compute. reflexivity.
  - intros (x & Hin & He & Hc & Hid).
    assert (Hl : map (fun x => (ae_epoch x, ae_cid x)) (alog audit_witness)
                 = [(1, CID1); (257, CID2)]) by (vm_compute; reflexivity).
    assert (Hx : (ae_epoch x, ae_cid x) ∈ map (fun x => (ae_epoch x, ae_cid x)) (alog audit_witness))
      by (apply elem_of_list_fmap; eauto).
    rewrite Hl, He, Hc in Hx. apply elem_of_cons in Hx as [Hx|Hx].
    + vm_compute in Hx. discriminate.
    + apply elem_of_list_singleton in Hx. discriminate.
Qed.
Print Assumptions C20_audit_listByCID_refuted.

(** * Estimation listings *)

(** IterateAllContainerSizes / ListContainerSizes, every history of
    well-formed operations, in terms of the reference map. *)
Theorem C20_estimations_iterateAll_char : forall d1 d2 cap ops e r v, 0 <= d1 -> ehist_ok ops ->
  (r, v) ∈ eiter_all (ests (erun d1 d2 cap ops)) e <->
  exists e' c h, spec_erun d1 d2 cap ops !! (e', c, h) = Some v /\
                 int_to_bytes e ++ r = int_to_bytes e' ++ c ++ h.
Proof. intros d1 d2 cap ops e r v Hd Hok. apply eiter_all_char, estim_refines; assumption. Qed.
Print Assumptions C20_estimations_iterateAll_char.

Theorem C20_estimations_iterateAll_exact_partial : forall d1 d2 cap ops e, 0 <= d1 -> ehist_ok ops ->
  (forall e' c h, is_Some (spec_erun d1 d2 cap ops !! (e', c, h)) -> e' <> e ->
     is_prefix (int_to_bytes e) (int_to_bytes e' ++ c ++ h) = false) ->
  forall r v, (r, v) ∈ eiter_all (ests (erun d1 d2 cap ops)) e <->
              exists c h, r = c ++ h /\ spec_erun d1 d2 cap ops !! (e, c, h) = Some v.
Proof. intros d1 d2 cap ops e Hd Hok H. apply eiter_all_exact_partial; [by apply estim_refines|exact H]. Qed.
Print Assumptions C20_estimations_iterateAll_exact_partial.

Theorem C20_estimations_list_exact_partial : forall d1 d2 cap ops e, 0 <= d1 -> ehist_ok ops ->
  (forall e' c h, is_Some (spec_erun d1 d2 cap ops !! (e', c, h)) -> e' <> e ->
     is_prefix (int_to_bytes e) (int_to_bytes e' ++ c ++ h) = false) ->
  exists l, elist (ests (erun d1 d2 cap ops)) e = Halt l /\ NoDup l /\
    forall id, id ∈ l <-> exists c h, is_Some (spec_erun d1 d2 cap ops !! (e, c, h)) /\
                                      id = cnr_pfx ++ int_to_bytes e ++ c.
Proof. intros d1 d2 cap ops e Hd Hok H. apply elist_exact_partial; [by apply estim_refines|exact H]. Qed.
Print Assumptions C20_estimations_list_exact_partial.

(** All live entries of one encoding length: both listings are exact. *)
Theorem C20_estimations_same_len : forall d1 d2 cap ops e, 0 <= d1 -> ehist_ok ops ->
  (forall e' c h, is_Some (spec_erun d1 d2 cap ops !! (e', c, h)) ->
     length (int_to_bytes e') = length (int_to_bytes e)) ->
  (forall r v, (r, v) ∈ eiter_all (ests (erun d1 d2 cap ops)) e <->
               exists c h, r = c ++ h /\ spec_erun d1 d2 cap ops !! (e, c, h) = Some v) /\
  (exists l, elist (ests (erun d1 d2 cap ops)) e = Halt l /\ NoDup l /\
     forall id, id ∈ l <-> exists c h, is_Some (spec_erun d1 d2 cap ops !! (e, c, h)) /\
                                       id = cnr_pfx ++ int_to_bytes e ++ c).
Proof.
  intros d1 d2 cap ops e Hd Hok H. pose proof (estim_refines d1 d2 cap Hd ops Hok) as R.
  split; [apply eiter_all_exact_partial|apply elist_exact_partial]; auto using eall_ok_same_len.
Qed.
Print Assumptions C20_estimations_same_len.

(** IterateContainerSizes(e, cid) and GetContainerSize(id of (e, cid)): the
    entries of exactly (e, cid), one per node. *)
Theorem C20_estimations_iterate_exact_partial : forall d1 d2 cap ops e c, 0 <= d1 -> ehist_ok ops ->
  length c = cid_size -> (length (int_to_bytes e) <= 29)%nat ->
  (forall e' c' h, is_Some (spec_erun d1 d2 cap ops !! (e', c', h)) -> (e', c') <> (e, c) ->
     is_prefix (int_to_bytes e ++ c) (int_to_bytes e' ++ c' ++ h) = false) ->
  let st := ests (erun d1 d2 cap ops) in
  let pairs := sfind (cnr_pfx ++ int_to_bytes e ++ c) st in
  eiter st e c = Halt (map snd pairs) /\
  eget st (cnr_pfx ++ int_to_bytes e ++ c) = Halt (c, map snd pairs) /\
  NoDup (map fst pairs) /\
  forall key v, (key, v) ∈ pairs <->
                exists h, key = ekey' (e, c, h) /\ spec_erun d1 d2 cap ops !! (e, c, h) = Some v.
Proof.
  intros d1 d2 cap ops e c Hd Hok Hc He H st pairs.
  apply Nat.leb_le in He. split; [by rewrite eiter_pairs, He|]. split; [by rewrite eget_pairs, He|].
  split; [apply NoDup_sfind_keys|]. apply ecid_pairs_exact_partial; [by apply estim_refines|exact H].
Qed.
Print Assumptions C20_estimations_iterate_exact_partial.

(** Witness: two nodes report for one container at epochs 1 and 257. *)
Definition PKA : bytes := 2%N :: repeat 1%N 32.
Definition PKB : bytes := 3%N :: repeat 2%N 32.
Definition HA : bytes := repeat 10%N 20.
Definition HB : bytes := repeat 11%N 20.
Definition est_witness : list eop :=
  [EPut [CID1] [PKA] [PKA] 1 CID1 100 PKA HA; EPut [CID1] [PKB] [PKB] 257 CID1 200 PKB HB].

Lemma est_witness_ok : ehist_ok est_witness.
Proof.
  split.
  - repeat constructor.
  - intros h h' Hh Hh' Ht. change (enodes est_witness) with [HA; HB] in Hh, Hh'.
    apply elem_of_cons in Hh as [->|Hh]; [|apply elem_of_list_singleton in Hh as ->];
      (apply elem_of_cons in Hh' as [->|Hh']; [|apply elem_of_list_singleton in Hh' as ->]);
      try reflexivity; vm_compute in Ht; discriminate.
Qed.

Theorem C20_estimations_iterateAll_refuted : exists d1 d2 cap ops e r v,
  0 <= d1 /\ ehist_ok ops /\
  (r, v) ∈ eiter_all (ests (erun d1 d2 cap ops)) e /\
  ~ exists c h, r = c ++ h /\ spec_erun d1 d2 cap ops !! (e, c, h) = Some v.
Proof.
  exists 3, 4, ser_ints_ok, est_witness, 1, (1%N :: CID1 ++ take 10 HB), (enc_est PKB 200).
  split; [lia|]. split; [exact est_witness_ok|]. split.
  - apply (bool_decide_eq_true_1 _). vm_compute. reflexivity.
  - intros (c & h & Hr & Hm).
    destruct (eR_wf _ _ (estim_refines 3 4 ser_ints_ok ltac:(lia) _ est_witness_ok) (1, c, h) (ex_intro _ _ Hm)) as [Hc Hh].
    cbn in Hc, Hh. apply (f_equal length) in Hr. rewrite app_length, Hc, Hh in Hr. vm_compute in Hr. lia.
Qed.
Print Assumptions C20_estimations_iterateAll_refuted.

Theorem C20_estimations_list_refuted : exists d1 d2 cap ops e l id,
  0 <= d1 /\ ehist_ok ops /\ elist (ests (erun d1 d2 cap ops)) e = Halt l /\ id ∈ l /\
  ~ exists c h, is_Some (spec_erun d1 d2 cap ops !! (e, c, h)) /\ id = cnr_pfx ++ int_to_bytes e ++ c.
Proof.
  exists 3, 4, ser_ints_ok, est_witness, 1.
  eexists. exists (cnr_pfx ++ int_to_bytes 257 ++ CID1).
  split; [lia|]. split; [exact est_witness_ok|]. split; [vm_compute; reflexivity|]. split.
  - apply (bool_decide_eq_true_1 _). vm_compute. reflexivity.
  - intros (c & h & Hm & Hid).
    destruct (eR_wf _ _ (estim_refines 3 4 ser_ints_ok ltac:(lia) _ est_witness_ok) (1, c, h) Hm) as [Hc _].
    cbn in Hc. apply (f_equal length) in Hid. rewrite !app_length, Hc in Hid. vm_compute in Hid. lia.
Qed.
Print Assumptions C20_estimations_list_refuted.

(** * Non-vacuity *)

(** Configuration keys that are prefixes of one another (incl. the empty
    key): each is read back exactly; the listing has all pairs. *)
Example C20_config_nonvacuous :
  let s := crun CNeoFS (cinit [([97]%N, [1]%N)])
             [CSet true [] [97; 98]%N (VBytes [2]%N); CSet true [] [] (VBytes [3]%N);
              CSet false [] [97]%N (VBytes [9]%N); CSet true [] [97; 98; 99]%N (VBytes [0; 0; 16; 0; 0; 0; 0; 0]%N);
              CSet true [] [97; 98]%N (VBytes [5]%N); CSet true [] [98]%N (VInt 5)] in
  (map (cget s) [[]; [97]; [97; 98]; [97; 98; 99]; [98]]%N, clist s) =
  ([Some [3]; Some [1]; Some [5]; Some [0; 0; 16; 0; 0; 0; 0; 0]; None]%N,
   [([], [3]); ([97], [1]); ([97; 98], [5]); ([97; 98; 99], [0; 0; 16; 0; 0; 0; 0; 0])]%N).
Proof. vm_compute. reflexivity. Qed.

Example C20_config_nonvacuous_typed :
  let s := crun CNetmap (cinit [])
             [CSet true [] [97]%N (VInt (-129)); CSet true [] [98]%N (VBool true); CSet true [] [99]%N (VInt 0);
              CSet true [] [100]%N VNull; CSet true [] [101]%N (VBytes [255; 255; 255]%N)] in
  map (cget s) [[97]; [98]; [99]; [100]; [101]]%N =
  [Some [127; 255]; Some [1]; Some []; None; Some [255; 255; 255]]%N.
Proof. vm_compute. reflexivity. Qed.

(** Votes: two decisions on one key; the late vote for the first one (ballot
    closed, tally incomplete) changes nothing. *)
Example C20_config_nonvacuous_votes :
  let s := crun CNeoFS (cinit [])
             [CVote true false [1]%N [107]%N (VBytes [1]%N); CVote true false [1]%N [107]%N (VBytes [1]%N);
              CVote true true [1]%N [107]%N (VBytes [1]%N); CVote true false [2]%N [107]%N (VBytes [2]%N);
              CVote true true [2]%N [107]%N (VBytes [2]%N); CVote true false [1]%N [107]%N (VBytes [1]%N);
              CVote false true [3]%N [107]%N (VBytes [3]%N)] in
  cget s [107]%N = Some [2]%N.
Proof. vm_compute. reflexivity. Qed.

Definition OW1 : bytes := repeat 1%N 25.
Definition OW2 : bytes := repeat 1%N 24 ++ [2%N].
Definition K1 : bytes := repeat 7%N 33.
Definition K2 : bytes := repeat 8%N 33.
Example C20_neofsid_nonvacuous :
  let s := nrun [NAdd true OW1 [K1; K2]; NAdd true OW2 [K1]; NRemove true OW1 [K1];
                 NAdd false OW1 [K1]; NAdd true OW1 [repeat 7%N 32]] in
  (nkeys s OW1, nkeys s OW2, nkeys s (repeat 1%N 24)) = (Halt [K2], Halt [K1], Fault).
Proof. vm_compute. reflexivity. Qed.

(** Two-byte epochs 128 and 255, peers of one length: the hypotheses of the
    partial theorems hold and the answers are non-empty. *)
Definition rep_good : list rop :=
  [RPut true 128 P1 [1]%N; RPut true 255 P2 [2]%N; RPut true 128 P1 [3]%N; RPut false 128 P2 [4]%N].
Example C20_reputation_nonvacuous :
  rlog rep_good = [(128, P1, [1]%N); (255, P2, [2]%N); (128, P1, [3]%N)] /\
  rlist (rrun rep_good) 128 = [rep_id 128 P1] /\
  rget (rrun rep_good) 128 P1 = [[1]; [3]]%N /\
  (forall e' p' v, (e', p', v) ∈ rlog rep_good ->
     length (int_to_bytes e') = length (int_to_bytes 128) /\ length p' = length P1).
Proof.
  split; [vm_compute; reflexivity|]. split; [vm_compute; reflexivity|]. split; [vm_compute; reflexivity|].
  assert (Hl : rlog rep_good = [(128, P1, [1]%N); (255, P2, [2]%N); (128, P1, [3]%N)]) by (vm_compute; reflexivity).
  rewrite Hl. intros e' p' v Hin.
  repeat (apply elem_of_cons in Hin as [[= -> -> ->]|Hin]; [vm_compute; auto|]). by apply elem_of_nil in Hin.
Qed.

(** Estimations: epochs 1..7 (one-byte encodings), the documented deltas 3
    and 4.  Node A reports at 1 and 2, node B at 2; A's report at 6 removes A's
    entries at 1 and 2 (6-1, 6-2 > 3) and keeps B's; the tick 7 removes B's
    entry at 2 (7-2 > 4) and keeps A's at 6. *)
Definition est_good : list eop :=
  [EPut [CID1] [PKA] [PKA] 1 CID1 10 PKA HA; EPut [CID1] [PKA] [PKA] 2 CID1 20 PKA HA;
   EPut [CID1] [PKB] [PKB] 2 CID1 30 PKB HB; EPut [CID1] [PKB] [PKA] 2 CID1 31 PKB HB;
   EPut [CID1] [PKA] [PKA] 6 CID1 60 PKA HA].
Example C20_cleanup_nonvacuous :
  let q := map (fun e => map fst (eiter_all (ests (erun 3 4 ser_ints_ok est_good)) e)) [1; 2; 6] in
  let q' := map (fun e => map fst (eiter_all (ests (erun 3 4 ser_ints_ok (est_good ++ [ETick true 7]))) e)) [1; 2; 6] in
  q = [[]; [CID1 ++ take 10 HB]; [CID1 ++ take 10 HA]] /\
  q' = [[]; []; [CID1 ++ take 10 HA]].
Proof. vm_compute. split; reflexivity. Qed.
