(** Props/C18.v — NNS accepts exactly well-formed names and record data.

    Model: Model/NNSSyntax.v (checkFragment, safeSplitAndCheck, checkIPv4,
    checkIPv6, the switch of checkRecord, over models of std.StringSplit,
    std.Atoi10, std.Atoi base 16).  Grammar: Spec/Grammar.v, written from the
    property text and RFC 1035 / RFC 4291, independently of the scanners.
    Every statement quantifies over ALL byte strings; the only bounds are the
    ones the functions impose themselves.  All statements are equivalences for
    the code of the working tree (0620db8, 131c44b and 7bd3a2c included); the
    last section records what held before 7bd3a2c.

    A scanner has three outcomes: [Halt true] (the data is accepted),
    [Halt false] (the contract panics "invalid record data" / "invalid domain
    ...") and [Fault] (a native refuses its input, or the scanner panics
    "not a byte"); the last two both reject the invocation. *)
From Verif Require Import Base.Prelude Model.NNSSyntax Spec.Grammar Proofs.NNSSyntaxLib
  Proofs.NNSSyntax Proofs.NNSSyntaxIP4 Proofs.NNSSyntaxIP6 Proofs.NNSSyntaxBool
  Proofs.NNSSyntaxF12 Proofs.NNSSyntaxRecord.
From Verif Require Import Model.NNSSyntaxF12.
(* The evaluation support of cases_C18*.v, so that building this file builds it too. *)
From Verif Require Model.NNSSyntaxRun.
Local Open Scope Z_scope.

(* ------------------------------------------------------------------ *)
(** * Names (register, registerTLD, isAvailable, and every method that goes
    through splitAndCheck) *)

(** splitAndCheck lets exactly the valid names through ... *)
Theorem C18_names : forall s : bytes, name_accepted s = true <-> valid_name s.
Proof. exact name_accepted_iff. Qed.
Print Assumptions C18_names.

(** ... returning their labels; anything else is a panic or a fault of
    std.StringSplit (a name that is not UTF-8). *)
Theorem C18_names_fragments : forall s : bytes,
  (safeSplitAndCheck s = Halt (Some (strings_split 46 s)) <-> valid_name s) /\
  (~ valid_name s <-> safeSplitAndCheck s = Halt None \/ safeSplitAndCheck s = Fault).
Proof. intros s. split; [apply names_equiv|apply names_rejection]. Qed.
Print Assumptions C18_names_fragments.

(* ------------------------------------------------------------------ *)
(** * A records *)

Theorem C18_ipv4 : forall s : bytes,
  checkIPv4 s = Halt true <->
  exists a b c d, canonical_ipv4 s a b c d /\ public_unicast4 a b c d.
Proof. exact ipv4_equiv. Qed.
Print Assumptions C18_ipv4.

(** Rejection is [Halt false] or a fault ("not a byte" for an octet above
    255, std.Atoi10 on a non-digit after the first byte, std.StringSplit on a
    string that is not UTF-8). *)
Theorem C18_ipv4_rejection : forall s : bytes,
  ~ valid_A s <-> checkIPv4 s = Halt false \/ checkIPv4 s = Fault.
Proof. exact ipv4_rejection. Qed.
Print Assumptions C18_ipv4_rejection.

(* ------------------------------------------------------------------ *)
(** * AAAA records *)

(** checkIPv6 accepts exactly the RFC 4291 text (forms 1 and 2: eight groups,
    or one "::" standing for one or more zero groups) of global unicast
    addresses. *)
Theorem C18_ipv6 : forall s : bytes,
  checkIPv6 s = Halt true <-> exists g, textual_ipv6 s g /\ global_unicast6 g.
Proof. exact ipv6_equiv. Qed.
Print Assumptions C18_ipv6.

(** Rejection is [Halt false] or a fault (std.Atoi on a group that is not
    hexadecimal, std.StringSplit on a string that is not UTF-8). *)
Theorem C18_ipv6_rejection : forall s : bytes,
  ~ valid_AAAA s <-> checkIPv6 s = Halt false \/ checkIPv6 s = Fault.
Proof. exact ipv6_rejection. Qed.
Print Assumptions C18_ipv6_rejection.

(* ------------------------------------------------------------------ *)
(** * checkRecord (addRecord, setRecord) *)

(** Each type has its checker; any other type (SOA included) faults. *)
Theorem C18_record_dispatch : forall (typ : Z) (data : bytes),
  (record_data_accepted typ data = true <->
     (typ = 1 /\ checkIPv4 data = Halt true) \/
     (typ = 5 /\ name_accepted data = true) \/
     (typ = 16 /\ len data <= 255) \/
     (typ = 28 /\ checkIPv6 data = Halt true)) /\
  (typ <> 1 -> typ <> 5 -> typ <> 16 -> typ <> 28 -> check_record_data typ data = Fault).
Proof.
  intros typ data. split; [apply dispatch|].
  intros H1 H5 H16 H28. apply unknown_type_faults; assumption.
Qed.
Print Assumptions C18_record_dispatch.

Theorem C18_txt : forall data : bytes,
  record_data_accepted 16 data = true <-> (length data <= 255)%nat.
Proof.
  intros data. rewrite record_data_equiv. unfold valid_record_data.
  intuition (try discriminate; try lia).
Qed.
Print Assumptions C18_txt.

Theorem C18_cname : forall data : bytes,
  record_data_accepted 5 data = true <-> valid_name data.
Proof.
  intros data. rewrite record_data_equiv. unfold valid_record_data.
  intuition (try discriminate; try lia).
Qed.
Print Assumptions C18_cname.

(** All types at once: the accepted data is exactly the well-formed data. *)
Theorem C18_record_data : forall (typ : Z) (data : bytes),
  record_data_accepted typ data = true <-> valid_record_data typ data.
Proof. exact record_data_equiv. Qed.
Print Assumptions C18_record_data.

(* ------------------------------------------------------------------ *)
(** * The grammar is decidable by the procedures the correspondence check
    evaluates (monitor [MG] of cases_C18*.v) *)

Theorem C18_grammar_decided : forall (typ : Z) (s : bytes),
  (valid_nameb s = true <-> valid_name s) /\
  (valid_record_datab typ s = true <-> valid_record_data typ s).
Proof.
  intros typ s. split; [apply valid_nameb_spec|apply valid_record_datab_spec].
Qed.
Print Assumptions C18_grammar_decided.

(* ------------------------------------------------------------------ *)
(** * Non-vacuity *)

Definition str_test_com : bytes := [116; 101; 115; 116; 46; 99; 111; 109]%N.          (* "test.com" *)
Definition str_8888 : bytes := [56; 46; 56; 46; 56; 46; 56]%N.                          (* "8.8.8.8" *)
Definition str_plus : bytes := [43; 56; 46; 56; 46; 56; 46; 56]%N.                      (* "+8.8.8.8" *)
Definition str_google6 : bytes :=                                                       (* "2001:4860::8888" *)
  [50; 48; 48; 49; 58; 52; 56; 54; 48; 58; 58; 56; 56; 56; 56]%N.
Definition str_8000 : bytes := [50; 48; 48; 49; 58; 56; 48; 48; 48; 58; 58; 49]%N.     (* "2001:8000::1" *)

Example C18_ex_name : valid_name str_test_com /\ name_accepted str_test_com = true.
Proof. split; [apply C18_names|]; vm_compute; reflexivity. Qed.
Example C18_ex_A : valid_A str_8888 /\ checkIPv4 str_8888 = Halt true /\ checkIPv4 str_plus = Halt false.
Proof. split; [apply C18_ipv4|split]; vm_compute; reflexivity. Qed.
Definition str_seven : bytes :=   (* "2003:1:2:3:4:5:6::" *)
  [50; 48; 48; 51; 58; 49; 58; 50; 58; 51; 58; 52; 58; 53; 58; 54; 58; 58]%N.
Definition str_seven_left : bytes :=   (* "::1:2:3:4:5:6:7", nine fragments, not global unicast *)
  [58; 58; 49; 58; 50; 58; 51; 58; 52; 58; 53; 58; 54; 58; 55]%N.
Example C18_ex_AAAA :
  valid_AAAA str_google6 /\ checkIPv6 str_8000 = Halt true /\
  valid_AAAA str_seven /\ checkIPv6 str_seven = Halt true /\
  ~ valid_AAAA str_seven_left /\ checkIPv6 str_seven_left = Halt false.
Proof.
  assert (H : checkIPv6 str_google6 = Halt true) by (vm_compute; reflexivity).
  assert (H7 : checkIPv6 str_seven = Halt true) by (vm_compute; reflexivity).
  assert (H7l : checkIPv6 str_seven_left = Halt false) by (vm_compute; reflexivity).
  split; [apply C18_ipv6, H|]. split; [vm_compute; reflexivity|].
  split; [apply C18_ipv6, H7|]. split; [exact H7|]. split; [|exact H7l].
  apply C18_ipv6_rejection. left. exact H7l.
Qed.
Example C18_ex_soa : check_record_data 6 [] = Fault.
Proof. reflexivity. Qed.
(** The packed form in which the harness ships strings: "a.b" = 0x1622e61. *)
Example C18_ex_unpack :
  NNSSyntaxRun.unpack [Uint63.of_Z 23211617] = [97; 46; 98]%N /\
  NNSSyntaxRun.all_joined (Some 46%N) [[]; [97%N]] 2 =
    [[]; [97]; [46]; [46; 97]; [97; 46]; [97; 46; 97]]%N.
Proof. split; vm_compute; reflexivity. Qed.

(* ------------------------------------------------------------------ *)
(** * HISTORICAL (not claims about the working tree): checkIPv6 before commit
    7bd3a2c, [checkIPv6_old] of Model/NNSSyntaxF12.v — finding F12.  The
    equivalence with the grammar was refuted: seven groups followed by "::"
    split into nine fragments and more than eight were refused; the repair
    added back exactly these strings and changed nothing else. *)

Lemma C18_before_7bd3a2c_refuted : exists s : bytes, valid_AAAA s /\ checkIPv6_old s = Halt false.
Proof.
  exists str_seven. split; [apply valid_AAAAb_spec|]; vm_compute; reflexivity.
Qed.
Print Assumptions C18_before_7bd3a2c_refuted.

Lemma C18_before_7bd3a2c_exact : forall s : bytes,
  checkIPv6_old s = Halt true <-> valid_AAAA s /\ ~ f12_shape s.
Proof. exact ipv6_old_equiv. Qed.
Print Assumptions C18_before_7bd3a2c_exact.

Lemma C18_repair_7bd3a2c : forall s : bytes,
  checkIPv6 s = Halt true <-> checkIPv6_old s = Halt true \/ (f12_shape s /\ valid_AAAA s).
Proof. exact ipv6_now_vs_old. Qed.
Print Assumptions C18_repair_7bd3a2c.
