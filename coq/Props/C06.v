(** Props/C06.v — Netmap tick: growing epoch, atomic candidate publication,
    subscriber fan-out.  Only statements, closed by short proofs, each followed
    by [Print Assumptions].  Model: Model/Netmap.v (tied to
    contracts/netmap/contract.go by the correspondence check of ./check C06).
    Histories: arbitrary sequences of arbitrary invocations (all operations,
    contexts, arguments) starting from a deployment; subscriber contracts are
    abstract: [sub_ok h] (deployed with newEpoch/1), [sub_accepts h e]
    (its newEpoch(e) returns normally), both arbitrary. *)
From Verif Require Import Base.Prelude Base.IntCodec Model.Netmap Spec.NetmapSpec
  Proofs.NetmapBase Proofs.NetmapCand Proofs.NetmapTick.
Local Open Scope Z_scope.

(** Invariant of every reachable state: the snapshot count stays within
    1..254 and the ring index within the count (so [% count] never divides by
    zero and [byte(id)] never overflows), subscriber keys are indexed
    0,1,2,... in subscription order. *)
Theorem C06_count_positive : forall sub_ok sub_accepts cfg ops,
  let s := nrun_from sub_ok sub_accepts (ninit cfg) ops in
  1 <= count s <= 254 /\ 0 <= cur s < count s /\ 0 <= epoch s.
Proof.
  intros so sa cfg ops s.
  destruct (nrun_tick_inv so sa (ninit cfg) ops (ninit_tick_inv cfg)) as ((H1 & H2) & _ & H3 & _).
  auto.
Qed.
Print Assumptions C06_count_positive.

(** newEpoch(e) succeeds iff it is Alphabet-witnessed, e exceeds the current
    epoch and no subscriber rejects the call ... *)
Theorem C06_tick_iff : forall sub_ok sub_accepts cfg ops c e,
  let s := nrun_from sub_ok sub_accepts (ninit cfg) ops in
  (exists s' ns, nexec sub_ok sub_accepts c s (NewEpoch e) = Halt (s', ns)) <->
  (alpha c = true /\ epoch s < e /\ forall h, h ∈ subscribers s -> sub_accepts h e = true).
Proof.
  intros so sa cfg ops c e s.
  destruct (nrun_tick_inv so sa (ninit cfg) ops (ninit_tick_inv cfg)) as (Hr & Hs & _).
  fold s in Hr, Hs. rewrite (nexec_new_epoch so sa c s e Hr Hs).
  destruct (alpha c); cbn [andb].
  2:{ split; [intros (? & ? & [=])|intros ([=] & _)]. }
  destruct (Z.ltb_spec (epoch s) e) as [Hlt|Hge]; cbn [andb].
  2:{ split; [intros (? & ? & [=])|intros (_ & ? & _); lia]. }
  destruct (forallb (fun h => sa h e) (subscribers s)) eqn:Hf.
  - split; [|eauto]. intros _. rewrite forallb_forall in Hf. repeat split; [exact Hlt|].
    intros h Hh. apply Hf. by apply elem_of_list_In.
  - split; [intros (? & ? & [=])|]. intros (_ & _ & Hall). exfalso.
    assert (forallb (fun h => sa h e) (subscribers s) = true); [|congruence].
    apply forallb_forall. intros h Hh. apply Hall. by apply elem_of_list_In.
Qed.
Print Assumptions C06_tick_iff.

(** ... otherwise nothing changes (any failed invocation: state kept, no
    notification, no call). *)
Theorem C06_failed_is_inert : forall sub_ok sub_accepts s co s' ns,
  nstep sub_ok sub_accepts s co = (s', false, ns) -> s' = s /\ ns = [].
Proof. intros so sa s co s' ns. apply nstep_false_inert. Qed.
Print Assumptions C06_failed_is_inert.

(** The epoch counter only grows: over any history, and it changes only in a
    successful tick, to that tick's argument (recording the height). *)
Theorem C06_epoch_monotone : forall sub_ok sub_accepts cfg ops1 ops2,
  epoch (nrun_from sub_ok sub_accepts (ninit cfg) ops1) <=
  epoch (nrun_from sub_ok sub_accepts (ninit cfg) (ops1 ++ ops2)).
Proof.
  intros so sa cfg ops1 ops2. unfold nrun_from at 2. rewrite fold_left_app.
  apply (nrun_epoch_mono so sa). apply nrun_tick_inv, ninit_tick_inv.
Qed.
Print Assumptions C06_epoch_monotone.

Theorem C06_epoch_changes_only_in_ticks : forall sub_ok sub_accepts cfg ops c o s' ns,
  let s := nrun_from sub_ok sub_accepts (ninit cfg) ops in
  nexec sub_ok sub_accepts c s o = Halt (s', ns) ->
  (epoch s' = epoch s /\ eblock s' = eblock s /\ forall e, o <> NewEpoch e) \/
  (exists e, o = NewEpoch e /\ epoch s < e /\ epoch s' = e /\ eblock s' = height c).
Proof.
  intros so sa cfg ops c o s' ns s. apply nexec_epoch. apply nrun_tick_inv, ninit_tick_inv.
Qed.
Print Assumptions C06_epoch_changes_only_in_ticks.

(** A successful tick publishes the current candidate set as the new network
    map in both formats — legacy: all non-Offline candidates in key order;
    structured list of epoch e: all structured candidates in key order —
    records the tick height and leaves the candidate sets unchanged.
    (Epochs below 2^32: the per-epoch lists are keyed by four bytes.) *)
Theorem C06_publish : forall sub_ok sub_accepts cfg ops c e s' ns,
  let s := nrun_from sub_ok sub_accepts (ninit cfg) ops in
  nexec sub_ok sub_accepts c s (NewEpoch e) = Halt (s', ns) -> e < 2 ^ 32 ->
  r_netmap s' = Halt (filter (fun n => nst n <> Offline) (r_netmap_candidates s)) /\
  r_list_nodes s' e = r_list_candidates s /\
  r_epoch s' = e /\ r_last_epoch_block s' = height c /\
  cands s' = cands s /\ cands2 s' = cands2 s.
Proof.
  intros so sa cfg ops c e s' ns s He Hlt.
  pose proof (nrun_tick_inv so sa (ninit cfg) ops (ninit_tick_inv cfg)) as Hi. fold s in Hi.
  destruct Hi as (Hr & Hs & Hi'). rewrite (nexec_new_epoch so sa c s e Hr Hs) in He.
  destruct (alpha c && (epoch s <? e) && _) eqn:Hg; [|discriminate]. injection He as <- <-.
  assert (epoch s < e) by lia.
  destruct (tick_publishes c s e (conj Hr (conj Hs Hi')) ltac:(lia))
    as (H1 & H2 & _ & H3 & H4 & H5 & H6 & _).
  repeat split; assumption.
Qed.
Print Assumptions C06_publish.

(** ... and calls newEpoch(e) exactly once on every subscribed contract in
    subscription order, before announcing the epoch. *)
Theorem C06_fanout : forall sub_ok sub_accepts cfg ops c e s' ns,
  let s := nrun_from sub_ok sub_accepts (ninit cfg) ops in
  nexec sub_ok sub_accepts c s (NewEpoch e) = Halt (s', ns) ->
  ns = map (fun h => NCall h e) (subscribers s) ++ [NNewEpoch e] /\
  NoDup (subscribers s) /\ subscribers s' = subscribers s.
Proof.
  intros so sa cfg ops c e s' ns s He.
  pose proof (nrun_tick_inv so sa (ninit cfg) ops (ninit_tick_inv cfg)) as Hi. fold s in Hi.
  destruct Hi as (Hr & Hs & Hi'). rewrite (nexec_new_epoch so sa c s e Hr Hs) in He.
  destruct (alpha c && (epoch s <? e) && _) eqn:Hg; [|discriminate]. injection He as <- <-.
  split; [reflexivity|]. split.
  - destruct Hs as (hs & Hnd & _ & Hk). by rewrite (subs_indexed_subscribers s hs Hk).
  - unfold tick_result. cbv zeta. rewrite tick_state_eq. reflexivity.
Qed.
Print Assumptions C06_fanout.

(** Subscribing: the first subscription of a contract appends it (index =
    number of subscribers so far) and announces it; subscribing twice has no
    additional effect. *)
Theorem C06_subscribe_idempotent : forall sub_ok sub_accepts cfg ops c h s' ns,
  let s := nrun_from sub_ok sub_accepts (ninit cfg) ops in
  nexec sub_ok sub_accepts c s (Subscribe h) = Halt (s', ns) ->
  (h ∈ subscribers s -> s' = s /\ ns = []) /\
  (h ∉ subscribers s -> subscribers s' = subscribers s ++ [h] /\ ns = [NSubscription h] /\
     skeys (subs s') = skeys (subs s) ++ [N.of_nat (length (subscribers s)) :: h]).
Proof.
  intros so sa cfg ops c h s' ns s He.
  pose proof (nrun_tick_inv so sa (ninit cfg) ops (ninit_tick_inv cfg)) as Hi. fold s in Hi.
  destruct Hi as (_ & Hs & _).
  destruct (nexec_subscribe so sa c s h s' ns Hs He) as (_ & _ & [(Hin & -> & ->)|(Hn & -> & -> & Hsub & Hs')]).
  - split; [auto|]. intros Hn. contradiction.
  - split; [intros Hin; contradiction|]. intros _. split; [exact Hsub|]. split; [reflexivity|].
    destruct Hs as (hs & _ & _ & Hk). pose proof (subs_indexed_subscribers s hs Hk) as Hsb.
    rewrite Hsb in *. cbn [subs set_subs]. rewrite Hk.
    rewrite (skeys_insert_last (subs s) hs h Hk Hn), imap_app. cbn. by rewrite Nat.add_0_r.
Qed.
Print Assumptions C06_subscribe_idempotent.

(** After subscribing, a second subscription of the same contract by anyone
    allowed to is a no-op. *)
Theorem C06_subscribe_twice : forall sub_ok sub_accepts cfg ops c1 c2 h s1 ns1 s2 ns2,
  let s := nrun_from sub_ok sub_accepts (ninit cfg) ops in
  nexec sub_ok sub_accepts c1 s (Subscribe h) = Halt (s1, ns1) ->
  nexec sub_ok sub_accepts c2 s1 (Subscribe h) = Halt (s2, ns2) ->
  s2 = s1 /\ ns2 = [].
Proof.
  intros so sa cfg ops c1 c2 h s1 ns1 s2 ns2 s H1 H2.
  pose proof (nrun_tick_inv so sa (ninit cfg) ops (ninit_tick_inv cfg)) as Hi. fold s in Hi.
  assert (Hi1 : tick_inv s1) by (eapply nexec_tick_inv; eassumption).
  destruct Hi as (_ & Hs & _). destruct Hi1 as (_ & Hs1 & _).
  assert (Hin : h ∈ subscribers s1).
  { destruct (nexec_subscribe so sa c1 s h s1 ns1 Hs H1) as (_ & _ & [(Hin & -> & _)|(_ & _ & _ & Hsub & _)]);
      [exact Hin|]. rewrite Hsub. apply elem_of_app. right. left. }
  destruct (nexec_subscribe so sa c2 s1 h s2 ns2 Hs1 H2) as (_ & _ & [(_ & -> & ->)|(Hn & _)]); [auto|contradiction].
Qed.
Print Assumptions C06_subscribe_twice.

(** Non-vacuity: two subscribers (subscribed in the order B, A), candidates in
    both formats, a rejected and an accepted tick. *)
Definition exK (i : N) : bytes := 2%N :: repeat i 32.
Definition exInfo (i tag : N) : bytes := [tag; 0%N] ++ exK i ++ [9%N].
Definition exA : bytes := repeat 10%N 20.
Definition exB : bytes := repeat 11%N 20.
Definition exOk : bytes -> bool := fun _ => true.
Definition exAcc : bytes -> Z -> bool := fun h e => negb (bytes_eqb h exA && (e =? 2)).
Definition ex_hist : list (nctx * nop) :=
  [ (mkNC [] true 5, Subscribe exB); (mkNC [] true 6, Subscribe exA); (mkNC [] true 7, Subscribe exB);
    (mkNC [] true 8, AddPeerIR (exInfo 1 7)); (mkNC [] true 9, AddPeerIR (exInfo 2 8));
    (mkNC [] true 10, UpdateStateIR 3 (exK 2));
    (mkNC [exK 2] true 11, AddNode (mkNode2 [[1%N]] [] (exK 2) 1));
    (mkNC [] true 12, NewEpoch 2);      (* A rejects epoch 2 *)
    (mkNC [] false 13, NewEpoch 3);     (* not the Alphabet *)
    (mkNC [] true 14, NewEpoch 3);
    (mkNC [] true 15, NewEpoch 3) ].
Example C06_nonvacuous :
  let s := nrun_from exOk exAcc (ninit []) ex_hist in
  subscribers s = [exB; exA] /\ epoch s = 3 /\ eblock s = 14 /\
  r_netmap s = Halt [mkNode (exInfo 1 7) 1; mkNode (exInfo 2 8) 3] /\
  map n2key (r_list_nodes s 3) = [exK 2] /\
  snd (nstep exOk exAcc (nrun_from exOk exAcc (ninit []) (take 9 ex_hist)) (mkNC [] true 14, NewEpoch 3))
  = [NCall exB 3; NCall exA 3; NNewEpoch 3].
Proof. vm_compute. auto 10. Qed.
