(** Props/C06.v — Netmap tick: growing epoch, atomic candidate publication,
    subscriber fan-out.  Only statements, closed by short proofs, each followed
    by [Print Assumptions].  Model: Model/Netmap.v (tied to
    contracts/netmap/contract.go by the correspondence check of ./check C06).
    Histories: arbitrary sequences of arbitrary invocations (all operations,
    contexts, arguments) starting from a deployment; subscriber contracts are
    abstract: [sub_ok h] (deployed with newEpoch/1), [sub_accepts h e]
    (its newEpoch(e) returns normally), both arbitrary. *)
From Verif Require Import Base.Prelude Base.IntCodec Model.StoreLib Model.Netmap Spec.NetmapSpec
  Proofs.NetmapBase Proofs.NetmapCand Proofs.NetmapTick Model.EpochSystem Proofs.EpochSystem.
From Verif Require Model.Balance Model.Estimations Spec.Stores Proofs.BalanceLock Props.C09 Props.C20.
Local Open Scope Z_scope.

(** Invariant of every reachable state: the snapshot count stays within
    1..254 and the ring index within the count (so [% count] never divides by
    zero and [byte(id)] never overflows), subscriber keys are indexed
    0,1,2,... in subscription order. *)
Theorem C06_count_positive : forall sub_ok sub_accepts cfg ops,
  let s := nrun_from sub_ok sub_accepts (ninit cfg) ops in
  1 <= count s <= 254 /\ 0 <= cur s < count s /\ 0 <= epoch s.
Proof.
  intros so sa cfg ops s.
  destruct (nrun_tick_inv so sa (ninit cfg) ops (ninit_tick_inv cfg)) as ((H1 & H2) & _ & H3 & _).
  auto.
Qed.
Print Assumptions C06_count_positive.

(** newEpoch(e) succeeds iff it is Alphabet-witnessed, e exceeds the current
    epoch and no subscriber rejects the call ... *)
Theorem C06_tick_iff : forall sub_ok sub_accepts cfg ops c e,
  let s := nrun_from sub_ok sub_accepts (ninit cfg) ops in
  (exists s' ns, nexec sub_ok sub_accepts c s (NewEpoch e) = Halt (s', ns)) <->
  (alpha c = true /\ epoch s < e /\ forall h, h ∈ subscribers s -> sub_accepts h e = true).
Proof.
  intros so sa cfg ops c e s.
  destruct (nrun_tick_inv so sa (ninit cfg) ops (ninit_tick_inv cfg)) as (Hr & Hs & _).
  fold s in Hr, Hs. rewrite (nexec_new_epoch so sa c s e Hr Hs).
  destruct (alpha c); cbn [andb].
  2:{ split; [intros (? & ? & [=])|intros ([=] & _)]. }
  destruct (Z.ltb_spec (epoch s) e) as [Hlt|Hge]; cbn [andb].
  2:{ split; [intros (? & ? & [=])|intros (_ & ? & _); lia]. }
  destruct (forallb (fun h => sa h e) (subscribers s)) eqn:Hf.
  - split; [|eauto]. intros _. rewrite forallb_forall in Hf. repeat split; [exact Hlt|].
    intros h Hh. apply Hf. by apply elem_of_list_In.
  - split; [intros (? & ? & [=])|]. intros (_ & _ & Hall). exfalso.
    assert (forallb (fun h => sa h e) (subscribers s) = true); [|congruence].
    apply forallb_forall. intros h Hh. apply Hall. by apply elem_of_list_In.
Qed.
Print Assumptions C06_tick_iff.

(** ... otherwise nothing changes (any failed invocation: state kept, no
    notification, no call). *)
Theorem C06_failed_is_inert : forall sub_ok sub_accepts s co s' ns,
  nstep sub_ok sub_accepts s co = (s', false, ns) -> s' = s /\ ns = [].
Proof. intros so sa s co s' ns. apply nstep_false_inert. Qed.
Print Assumptions C06_failed_is_inert.

(** The epoch counter only grows: over any history, and it changes only in a
    successful tick, to that tick's argument (recording the height). *)
Theorem C06_epoch_monotone : forall sub_ok sub_accepts cfg ops1 ops2,
  epoch (nrun_from sub_ok sub_accepts (ninit cfg) ops1) <=
  epoch (nrun_from sub_ok sub_accepts (ninit cfg) (ops1 ++ ops2)).
Proof.
  intros so sa cfg ops1 ops2. unfold nrun_from at 2. rewrite fold_left_app.
  apply (nrun_epoch_mono so sa). apply nrun_tick_inv, ninit_tick_inv.
Qed.
Print Assumptions C06_epoch_monotone.

Theorem C06_epoch_changes_only_in_ticks : forall sub_ok sub_accepts cfg ops c o s' ns,
  let s := nrun_from sub_ok sub_accepts (ninit cfg) ops in
  nexec sub_ok sub_accepts c s o = Halt (s', ns) ->
  (epoch s' = epoch s /\ eblock s' = eblock s /\ forall e, o <> NewEpoch e) \/
  (exists e, o = NewEpoch e /\ epoch s < e /\ epoch s' = e /\ eblock s' = height c).
Proof.
  intros so sa cfg ops c o s' ns s. apply nexec_epoch. apply nrun_tick_inv, ninit_tick_inv.
Qed.
Print Assumptions C06_epoch_changes_only_in_ticks.

(** A successful tick publishes the current candidate set as the new network
    map in both formats — legacy: all non-Offline candidates in key order;
    structured list of epoch e: all structured candidates in key order —
    records the tick height and leaves the candidate sets unchanged.
    (Epochs below 2^32: the per-epoch lists are keyed by four bytes.) *)
Theorem C06_publish : forall sub_ok sub_accepts cfg ops c e s' ns,
  let s := nrun_from sub_ok sub_accepts (ninit cfg) ops in
  nexec sub_ok sub_accepts c s (NewEpoch e) = Halt (s', ns) -> e < 2 ^ 32 ->
  r_netmap s' = Halt (filter (fun n => nst n <> Offline) (r_netmap_candidates s)) /\
  r_list_nodes s' e = r_list_candidates s /\
  r_epoch s' = e /\ r_last_epoch_block s' = height c /\
  cands s' = cands s /\ cands2 s' = cands2 s.
Proof.
  intros so sa cfg ops c e s' ns s He Hlt.
  pose proof (nrun_tick_inv so sa (ninit cfg) ops (ninit_tick_inv cfg)) as Hi. fold s in Hi.
  destruct Hi as (Hr & Hs & Hi'). rewrite (nexec_new_epoch so sa c s e Hr Hs) in He.
  destruct (alpha c && (epoch s <? e) && _) eqn:Hg; [|discriminate]. injection He as <- <-.
  assert (epoch s < e) by lia.
  destruct (tick_publishes c s e (conj Hr (conj Hs Hi')) ltac:(lia))
    as (H1 & H2 & _ & H3 & H4 & H5 & H6 & _).
  repeat split; assumption.
Qed.
Print Assumptions C06_publish.

(** ... and calls newEpoch(e) exactly once on every subscribed contract in
    subscription order, before announcing the epoch. *)
Theorem C06_fanout : forall sub_ok sub_accepts cfg ops c e s' ns,
  let s := nrun_from sub_ok sub_accepts (ninit cfg) ops in
  nexec sub_ok sub_accepts c s (NewEpoch e) = Halt (s', ns) ->
  ns = map (fun h => NCall h e) (subscribers s) ++ [NNewEpoch e] /\
  NoDup (subscribers s) /\ subscribers s' = subscribers s.
Proof.
  intros so sa cfg ops c e s' ns s He.
  pose proof (nrun_tick_inv so sa (ninit cfg) ops (ninit_tick_inv cfg)) as Hi. fold s in Hi.
  destruct Hi as (Hr & Hs & Hi'). rewrite (nexec_new_epoch so sa c s e Hr Hs) in He.
  destruct (alpha c && (epoch s <? e) && _) eqn:Hg; [|discriminate]. injection He as <- <-.
  split; [reflexivity|]. split.
  - destruct Hs as (hs & Hnd & _ & Hk). by rewrite (subs_indexed_subscribers s hs Hk).
  - unfold tick_result. cbv zeta. rewrite tick_state_eq. reflexivity.
Qed.
Print Assumptions C06_fanout.

(** Subscribing: the first subscription of a contract appends it (index =
    number of subscribers so far) and announces it; subscribing twice has no
    additional effect. *)
Theorem C06_subscribe_idempotent : forall sub_ok sub_accepts cfg ops c h s' ns,
  let s := nrun_from sub_ok sub_accepts (ninit cfg) ops in
  nexec sub_ok sub_accepts c s (Subscribe h) = Halt (s', ns) ->
  (h ∈ subscribers s -> s' = s /\ ns = []) /\
  (h ∉ subscribers s -> subscribers s' = subscribers s ++ [h] /\ ns = [NSubscription h] /\
     skeys (subs s') = skeys (subs s) ++ [N.of_nat (length (subscribers s)) :: h]).
Proof.
  intros so sa cfg ops c h s' ns s He.
  pose proof (nrun_tick_inv so sa (ninit cfg) ops (ninit_tick_inv cfg)) as Hi. fold s in Hi.
  destruct Hi as (_ & Hs & _).
  destruct (nexec_subscribe so sa c s h s' ns Hs He) as (_ & _ & [(Hin & -> & ->)|(Hn & -> & -> & Hsub & Hs')]).
  - split; [auto|]. intros Hn. contradiction.
  - split; [intros Hin; contradiction|]. intros _. split; [exact Hsub|]. split; [reflexivity|].
    destruct Hs as (hs & _ & _ & Hk). pose proof (subs_indexed_subscribers s hs Hk) as Hsb.
    rewrite Hsb in *. cbn [subs set_subs]. rewrite Hk.
    rewrite (skeys_insert_last (subs s) hs h Hk Hn), imap_app. cbn. by rewrite Nat.add_0_r.
Qed.
Print Assumptions C06_subscribe_idempotent.

(** After subscribing, a second subscription of the same contract by anyone
    allowed to is a no-op. *)
Theorem C06_subscribe_twice : forall sub_ok sub_accepts cfg ops c1 c2 h s1 ns1 s2 ns2,
  let s := nrun_from sub_ok sub_accepts (ninit cfg) ops in
  nexec sub_ok sub_accepts c1 s (Subscribe h) = Halt (s1, ns1) ->
  nexec sub_ok sub_accepts c2 s1 (Subscribe h) = Halt (s2, ns2) ->
  s2 = s1 /\ ns2 = [].
Proof.
  intros so sa cfg ops c1 c2 h s1 ns1 s2 ns2 s H1 H2.
  pose proof (nrun_tick_inv so sa (ninit cfg) ops (ninit_tick_inv cfg)) as Hi. fold s in Hi.
  assert (Hi1 : tick_inv s1) by (eapply nexec_tick_inv; eassumption).
  destruct Hi as (_ & Hs & _). destruct Hi1 as (_ & Hs1 & _).
  assert (Hin : h ∈ subscribers s1).
  { destruct (nexec_subscribe so sa c1 s h s1 ns1 Hs H1) as (_ & _ & [(Hin & -> & _)|(_ & _ & _ & Hsub & _)]);
      [exact Hin|]. rewrite Hsub. apply elem_of_app. right. left. }
  destruct (nexec_subscribe so sa c2 s1 h s2 ns2 Hs1 H2) as (_ & _ & [(_ & -> & ->)|(Hn & _)]); [auto|contradiction].
Qed.
Print Assumptions C06_subscribe_twice.

(** Non-vacuity: two subscribers (subscribed in the order B, A), candidates in
    both formats, a rejected and an accepted tick. *)
Definition exK (i : N) : bytes := 2%N :: repeat i 32.
Definition exInfo (i tag : N) : bytes := [tag; 0%N] ++ exK i ++ [9%N].
Definition exA : bytes := repeat 10%N 20.
Definition exB : bytes := repeat 11%N 20.
Definition exOk : bytes -> bool := fun _ => true.
Definition exAcc : bytes -> Z -> bool := fun h e => negb (bytes_eqb h exA && (e =? 2)).
Definition ex_hist : list (nctx * nop) :=
  [ (mkNC [] true 5, Subscribe exB); (mkNC [] true 6, Subscribe exA); (mkNC [] true 7, Subscribe exB);
    (mkNC [] true 8, AddPeerIR (exInfo 1 7)); (mkNC [] true 9, AddPeerIR (exInfo 2 8));
    (mkNC [] true 10, UpdateStateIR 3 (exK 2));
    (mkNC [exK 2] true 11, AddNode (mkNode2 [[1%N]] [] (exK 2) 1));
    (mkNC [] true 12, NewEpoch 2);      (* A rejects epoch 2 *)
    (mkNC [] false 13, NewEpoch 3);     (* not the Alphabet *)
    (mkNC [] true 14, NewEpoch 3);
    (mkNC [] true 15, NewEpoch 3) ].
Example C06_nonvacuous :
  let s := nrun_from exOk exAcc (ninit []) ex_hist in
  subscribers s = [exB; exA] /\ epoch s = 3 /\ eblock s = 14 /\
  r_netmap s = Halt [mkNode (exInfo 1 7) 1; mkNode (exInfo 2 8) 3] /\
  map n2key (r_list_nodes s 3) = [exK 2] /\
  snd (nstep exOk exAcc (nrun_from exOk exAcc (ninit []) (take 9 ex_hist)) (mkNC [] true 14, NewEpoch 3))
  = [NCall exB 3; NCall exA 3; NNewEpoch 3].
Proof. vm_compute. auto 10. Qed.


(** * The epoch tick as a cross-contract protocol

    Model/EpochSystem.v composes Netmap with its two subscribers of the real
    deployment, Balance (releases expired locks, C09) and Container (cleans
    old size estimations, C20).  Tied to the code by the composed
    correspondence of ./check C06 (cases_C06_sys.v: netmap, balance and
    container compiled from the tree, the subscriptions made by their
    deployments, ticks delivered through netmap.newEpoch).

    Quantification: every state reachable by ANY history of the composed
    system from a deployment; arbitrary contexts; arbitrary other subscribers
    ([other_ok], [other_accepts]); arbitrary estimation parameters; the only
    premise is that Balance and Container are different contracts. *)
Section Sys.
  Variables (d1 d2 : Z) (cap : list Z -> bool).
  Variables (nmH balH cntH : bytes).
  Variable other_ok : bytes -> bool.
  Variable other_accepts : bytes -> Z -> bool.
  Hypothesis Hdistinct : balH <> cntH.
  Variable cfg : list (bytes * bytes).

  Notation sys_exec := (sys_exec d1 d2 cap nmH balH cntH other_ok other_accepts).
  Notation sys_step := (sys_step d1 d2 cap nmH balH cntH other_ok other_accepts).
  Notation reach ops := (sys_run_from d1 d2 cap nmH balH cntH other_ok other_accepts (sys_init cfg) ops).
  Notation accepts := (sys_accepts d1 d2 cap nmH balH cntH other_accepts).
  Notation callee := (callee_bctx nmH).

  Lemma reach_inv ops : tick_inv (s_nm (reach ops)).
  Proof. apply sys_run_tick_inv; [exact Hdistinct|]. apply ninit_tick_inv. Qed.

  (** A successful system tick at epoch [e]:
      - Netmap: exactly the tick of Model/Netmap.v with [sub_accepts]
        instantiated by the callee models — so everything C06 says about a
        successful tick holds: the candidate set is published in both formats,
        the height recorded, candidates and subscribers unchanged, every
        subscriber called exactly once in index order;
      - Balance: its own [NewEpoch e] step applied exactly once (with the
        context it really sees) if it is subscribed, untouched otherwise;
      - Container estimations: its own tick [e] applied exactly once if it is
        subscribed, untouched otherwise. *)
  Theorem C06_system_tick : forall ops c e S' r ns,
    let S := reach ops in
    sys_exec c S (SNm (NewEpoch e)) = Halt (S', r, ns) ->
    (* Netmap *)
    nexec (sys_sub_ok balH cntH other_ok) (accepts c (s_bal S) (s_est S)) (nctx_of c) (s_nm S) (NewEpoch e)
      = Halt (s_nm S', map (fun h => NCall h e) (subscribers (s_nm S)) ++ [NNewEpoch e]) /\
    (e < 2 ^ 32 ->
       r_netmap (s_nm S') = Halt (filter (fun n => nst n <> Offline) (r_netmap_candidates (s_nm S))) /\
       r_list_nodes (s_nm S') e = r_list_candidates (s_nm S)) /\
    r_epoch (s_nm S') = e /\ r_last_epoch_block (s_nm S') = s_height c /\
    cands (s_nm S') = cands (s_nm S) /\ cands2 (s_nm S') = cands2 (s_nm S) /\
    subscribers (s_nm S') = subscribers (s_nm S) /\ NoDup (subscribers (s_nm S)) /\
    (* the calls, in index order, each once, then the NewEpoch notification *)
    List.filter (fun n => match n with SN _ => true | SB _ => false end) ns
      = map (fun h => SN (NCall h e)) (subscribers (s_nm S)) ++ [SN (NNewEpoch e)] /\
    r = VNull /\
    (* Balance *)
    (balH ∈ subscribers (s_nm S) ->
       exists r' bns, Balance.bexec (callee c) (s_bal S) (Balance.NewEpoch e) = Halt (s_bal S', r', bns)) /\
    (balH ∉ subscribers (s_nm S) -> s_bal S' = s_bal S) /\
    (* Container estimations *)
    (cntH ∈ subscribers (s_nm S) ->
       Estimations.eexec d1 d2 cap (s_est S) (Estimations.ETick (s_alpha c) e) = Halt (s_est S')) /\
    (cntH ∉ subscribers (s_nm S) -> s_est S' = s_est S).
  Proof.
    intros ops c e S' r ns S He. pose proof (reach_inv ops) as Hi. fold S in Hi.
    destruct (sys_tick_shape d1 d2 cap nmH balH cntH other_ok other_accepts Hdistinct c S e S' r ns Hi He)
      as (Hc & -> & -> & ->).
    pose proof (sys_tick_is_netmap_tick d1 d2 cap nmH balH cntH other_ok other_accepts c S e Hi) as Hn.
    rewrite Hc in Hn. cbn [s_nm s_bal s_est sys_tick_result].
    assert (Hlt : epoch (s_nm S) < e).
    { unfold sys_tick_cond in Hc. lia. }
    destruct (sys_tick_balance d1 d2 cap nmH balH cntH other_ok other_accepts Hdistinct c S e _ _ _ Hi He) as [B1 B2].
    destruct (sys_tick_estimations d1 d2 cap nmH balH cntH other_ok other_accepts Hdistinct c S e _ _ _ Hi He) as [E1 E2].
    cbn [s_bal s_est sys_tick_result] in B1, B2, E1, E2.
    split; [exact Hn|]. split.
    { intros H32. destruct (tick_publishes (nctx_of c) (s_nm S) e Hi ltac:(lia)) as (P1 & P2 & _). split; assumption. }
    destruct Hi as (Hr & Hs & Hrest).
    assert (Hpub : forall P : Prop, (epoch (s_nm S) < e -> P) -> P) by auto.
    unfold tick_result. cbv zeta. rewrite tick_state_eq. cbn [r_epoch r_last_epoch_block epoch eblock cands cands2 nctx_of height].
    repeat split; try assumption.
    - destruct Hs as (hs & Hnd & _ & Hk). by rewrite (subs_indexed_subscribers (s_nm S) hs Hk).
    - rewrite List.filter_app. cbn [List.filter app]. f_equal. generalize (subscribers (s_nm S)). intros l.
      induction l as [|h l IH]; [reflexivity|]. cbn [flat_map map]. unfold call_events at 1.
      rewrite List.filter_app. cbn [List.filter]. rewrite IH. cbn [app]. f_equal.
      destruct (bytes_eqb h balH); [|reflexivity].
      destruct (bal_tick nmH c (s_bal S) e) as [[? bns]|]; [|reflexivity].
      induction bns as [|n bns IHb]; [reflexivity|exact IHb].
  Qed.

  (** It halts iff the Netmap conditions hold (Alphabet witness, growing
      epoch, every other subscriber accepts) and both callee steps halt. *)
  Theorem C06_system_tick_iff : forall ops c e,
    let S := reach ops in
    (exists S' r ns, sys_exec c S (SNm (NewEpoch e)) = Halt (S', r, ns)) <->
    (s_alpha c = true /\ epoch (s_nm S) < e /\
     (balH ∈ subscribers (s_nm S) ->
        exists x, Balance.bexec (callee c) (s_bal S) (Balance.NewEpoch e) = Halt x) /\
     (cntH ∈ subscribers (s_nm S) ->
        exists x, Estimations.eexec d1 d2 cap (s_est S) (Estimations.ETick (s_alpha c) e) = Halt x) /\
     (forall h, h ∈ subscribers (s_nm S) -> h <> balH -> h <> cntH -> other_accepts h e = true)).
  Proof.
    intros ops c e S. pose proof (reach_inv ops) as Hi. fold S in Hi.
    rewrite (sys_tick_halts_iff d1 d2 cap nmH balH cntH other_ok other_accepts Hdistinct c S e Hi).
    assert (Hcb : bytes_eqb cntH balH = false) by (apply bytes_eqb_neq; congruence).
    split.
    - intros (Ha & Hlt & Hall). repeat split; try assumption.
      + intros Hin. specialize (Hall _ Hin). unfold sys_accepts in Hall. rewrite bytes_eqb_refl in Hall.
        unfold bal_tick in Hall. destruct (Balance.bexec _ _ _) as [x|]; [eauto|discriminate].
      + intros Hin. specialize (Hall _ Hin). unfold sys_accepts in Hall. rewrite Hcb, bytes_eqb_refl in Hall.
        unfold est_tick in Hall. destruct (Estimations.eexec _ _ _ _ _) as [x|]; [eauto|discriminate].
      + intros h Hin Hb Hc. specialize (Hall _ Hin). unfold sys_accepts in Hall.
        apply bytes_eqb_neq in Hb, Hc. by rewrite Hb, Hc in Hall.
    - intros (Ha & Hlt & HB & HC & HO). repeat split; try assumption. intros h Hin. unfold sys_accepts.
      destruct (bytes_eqb h balH) eqn:Eb.
      + apply bytes_eqb_eq in Eb. subst h. destruct (HB Hin) as [[[b' r'] bns] Hx].
        unfold bal_tick. by rewrite Hx.
      + destruct (bytes_eqb h cntH) eqn:Ec.
        * apply bytes_eqb_eq in Ec. subst h. destruct (HC Hin) as [x Hx]. unfold est_tick. by rewrite Hx.
        * apply HO; [exact Hin|by apply bytes_eqb_neq..].
  Qed.

  (** Whole-transaction atomicity: if the step of any subscriber faults —
      Balance's, Container's or another contract's — the whole product state
      is unchanged and nothing is announced; and in general a failed
      transaction of the composed system changes nothing anywhere. *)
  Theorem C06_system_atomic : forall ops c e h,
    let S := reach ops in
    h ∈ subscribers (s_nm S) ->
    (h = balH /\ Balance.bexec (callee c) (s_bal S) (Balance.NewEpoch e) = Fault) \/
    (h = cntH /\ Estimations.eexec d1 d2 cap (s_est S) (Estimations.ETick (s_alpha c) e) = Fault) \/
    (h <> balH /\ h <> cntH /\ other_accepts h e = false) ->
    sys_step S (c, SNm (NewEpoch e)) = (S, VFault, []).
  Proof.
    intros ops c e h S Hin Hrej. pose proof (reach_inv ops) as Hi. fold S in Hi.
    apply (sys_tick_rejected d1 d2 cap nmH balH cntH other_ok other_accepts Hdistinct c S e h Hi Hin).
    unfold sys_accepts. destruct Hrej as [(-> & Hf)|[(-> & Hf)|(Hb & Hc & Hf)]].
    - rewrite bytes_eqb_refl. unfold bal_tick. by rewrite Hf.
    - assert (Hcb : bytes_eqb cntH balH = false) by (apply bytes_eqb_neq; congruence).
      rewrite Hcb, bytes_eqb_refl. unfold est_tick. by rewrite Hf.
    - apply bytes_eqb_neq in Hb, Hc. by rewrite Hb, Hc.
  Qed.

  Theorem C06_system_failed_is_inert : forall S co,
    sys_exec (fst co) S (snd co) = Fault -> sys_step S co = (S, VFault, []).
  Proof. intros S co H. unfold EpochSystem.sys_step. by rewrite H. Qed.

  (** The C09 tick theorems hold verbatim for ticks delivered through Netmap:
      a successful netmap.newEpoch(e) with Balance subscribed IS a successful
      Balance [NewEpoch e] step (so every theorem about such a step applies);
      instantiated: all due locks are released in full to their parents,
      exactly once, nothing else moves. *)
  Theorem C09_via_netmap : forall ops c e S' r ns,
    let S := reach ops in
    sys_exec c S (SNm (NewEpoch e)) = Halt (S', r, ns) -> balH ∈ subscribers (s_nm S) ->
    (exists r' bns, Balance.bexec (callee c) (s_bal S) (Balance.NewEpoch e) = Halt (s_bal S', r', bns)) /\
    (BalanceLock.nochain e (Balance.accts (s_bal S)) ->
       Balance.supply (s_bal S') = Balance.supply (s_bal S) /\
       (forall k, BalanceLock.due e (Balance.accts (s_bal S)) k = true -> Balance.accts (s_bal S') !! k = None) /\
       (forall k, BalanceLock.due e (Balance.accts (s_bal S)) k = false ->
          Balance.get_acc (Balance.accts (s_bal S')) k =
          Balance.mkAcc (Balance.balance_of (s_bal S) k +
                         BalanceLock.paid e (Balance.accts (s_bal S)) (skeys (Balance.accts (s_bal S))) k)
                        (Balance.until (Balance.get_acc (Balance.accts (s_bal S)) k))
                        (Balance.parent (Balance.get_acc (Balance.accts (s_bal S)) k)))) /\
    (forall k, BalanceLock.due e (Balance.accts (s_bal S)) k = false ->
       Balance.until (Balance.get_acc (Balance.accts (s_bal S')) k) = Balance.until (Balance.get_acc (Balance.accts (s_bal S)) k) /\
       Balance.parent (Balance.get_acc (Balance.accts (s_bal S')) k) = Balance.parent (Balance.get_acc (Balance.accts (s_bal S)) k) /\
       Balance.balance_of (s_bal S) k <= Balance.balance_of (s_bal S') k).
  Proof.
    intros ops c e S' r ns S He Hin. pose proof (reach_inv ops) as Hi. fold S in Hi.
    destruct (sys_tick_balance d1 d2 cap nmH balH cntH other_ok other_accepts Hdistinct c S e _ _ _ Hi He) as [B1 _].
    destruct (B1 Hin) as (r' & bns & Hb). split; [eauto|]. split.
    - intros Hnc. destruct (C09.C09_tick_releases_all _ _ _ _ _ _ Hb Hnc) as (_ & H1 & H2 & H3). auto.
    - intros k Hk. exact (C09.C09_early_tick_inert _ _ _ _ _ _ k Hb Hk).
  Qed.

  (** The C20 clean-up rule holds for ticks delivered through Netmap: a
      successful netmap.newEpoch(n) with Container subscribed IS an accepted
      container tick [n]; on the storage reached by estimation history [eops]:
      exactly the entries with [n - epoch > TotalCleanupDelta] are gone. *)
  Theorem C20_cleanup_via_netmap : forall ops c n S' r ns,
    let S := reach ops in
    sys_exec c S (SNm (NewEpoch n)) = Halt (S', r, ns) -> cntH ∈ subscribers (s_nm S) ->
    Estimations.eexec d1 d2 cap (s_est S) (Estimations.ETick (s_alpha c) n) = Halt (s_est S') /\
    (forall eops, s_est S = Estimations.erun d1 d2 cap eops -> 0 <= d1 -> Stores.ehist_ok eops ->
       forall e cid h, length cid = Estimations.cid_size -> length h = Estimations.postfix_size ->
         Estimations.ests (s_est S') !! Stores.ekey' (e, cid, h) =
         if n - e >? d2 then None else Estimations.ests (s_est S) !! Stores.ekey' (e, cid, h)).
  Proof.
    intros ops c n S' r ns S He Hin. pose proof (reach_inv ops) as Hi. fold S in Hi.
    destruct (sys_tick_estimations d1 d2 cap nmH balH cntH other_ok other_accepts Hdistinct c S n _ _ _ Hi He) as [E1 _].
    specialize (E1 Hin). split; [exact E1|].
    intros eops Heq Hd Hok e cid h Hc Hh. rewrite Heq in E1 |- *.
    exact (C20.C20_cleanup_tick_storage d1 d2 cap eops (s_alpha c) n (s_est S') Hd Hok E1 e cid h Hc Hh).
  Qed.
End Sys.
Print Assumptions C06_system_tick.
Print Assumptions C06_system_tick_iff.
Print Assumptions C06_system_atomic.
Print Assumptions C06_system_failed_is_inert.
Print Assumptions C09_via_netmap.
Print Assumptions C20_cleanup_via_netmap.

(** Non-vacuity: Balance and Container subscribed (in that order) plus one
    more contract; a lock due at epoch 2 is released by the tick delivered
    through Netmap, an estimation of epoch 1 is cleaned by tick 6; a tick the
    third subscriber rejects changes nothing anywhere. *)
Definition xNm : bytes := repeat 1%N 20.
Definition xBal : bytes := repeat 2%N 20.
Definition xCnt : bytes := repeat 3%N 20.
Definition xOth : bytes := repeat 4%N 20.
Definition xU : bytes := repeat 7%N 20.
Definition xL : bytes := repeat 8%N 20.
Definition xK : bytes := 2%N :: repeat 5%N 32.
Definition xInfo : bytes := [0%N; 0%N] ++ xK ++ [9%N].
Definition xCid : bytes := repeat 6%N 32.
Definition xH20 : bytes := repeat 9%N 20.
Definition xal (h : Z) : sctx := mkSC [] [] true h.
Definition xrun := sys_run_from 3 4 (fun _ => true) xNm xBal xCnt (fun _ => true) (fun _ e => negb (e =? 5)).
Definition xhist : list (sctx * sop) :=
  [ (xal 1, SNm (Subscribe xBal)); (xal 2, SNm (Subscribe xCnt)); (xal 3, SNm (Subscribe xOth));
    (xal 4, SBal (Balance.Mint xU 1000 [])); (xal 5, SBal (Balance.Lock [] xU xL 300 2));
    (xal 6, SNm (AddPeerIR xInfo)); (xal 7, SNm (NewEpoch 1)); (xal 8, SNm (NewEpoch 2));
    (mkSC [xK] [] false 9, SPutSize [xCid] 1 xCid 77 xK xH20);
    (xal 10, SNm (NewEpoch 5));   (* rejected by the third subscriber *)
    (xal 11, SNm (NewEpoch 6)) ].
Example C06_system_nonvacuous :
  let S8 := xrun (sys_init []) (take 7 xhist) in
  let S9 := xrun (sys_init []) (take 8 xhist) in
  let S10 := xrun (sys_init []) (take 9 xhist) in
  let S11 := xrun (sys_init []) (take 10 xhist) in
  let S12 := xrun (sys_init []) xhist in
  (Balance.balance_of (s_bal S8) xU, Balance.balance_of (s_bal S8) xL) = (700, 300) /\
  (Balance.balance_of (s_bal S9) xU, Balance.balance_of (s_bal S9) xL) = (1000, 0) /\
  length (Estimations.eiter_all (Estimations.ests (s_est S10)) 1) = 1%nat /\
  (epoch (s_nm S11), length (Estimations.eiter_all (Estimations.ests (s_est S11)) 1)) = (2, 1%nat) /\
  (epoch (s_nm S12), length (Estimations.eiter_all (Estimations.ests (s_est S12)) 1)) = (6, 0%nat) /\
  subscribers (s_nm S12) = [xBal; xCnt; xOth].
Proof. vm_compute. repeat split; reflexivity. Qed.
