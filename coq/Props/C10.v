(** Props/C10.v — NNS ownership lifecycle and NEP-11 accounting stay consistent
    over time.  Model: Model/NNS.v; lemmas: Proofs/NNSAcct.v.

    Every theorem quantifies over the four abstract ingredients of the model
    ([hash] = RIPEMD-160, [valid_name], [valid_data], [str_ok]); the only
    premise about them is injectivity of [hash] (on the theorems that need
    it).  "Reachable state" = [nrun ... ops] for an arbitrary list [ops] of
    (context, operation) pairs: any operation of the contract (record
    methods, setPrice, readers, faulting calls included), any witnesses, any
    block times (not even monotone). *)
From Verif Require Import Base.Prelude Model.NNS Proofs.NNSBase Proofs.NNSAcct.
Local Open Scope Z_scope.

Definition injective (hash : bytes -> bytes) : Prop := forall a b, hash a = hash b -> a = b.

(** * The invariant of every reachable state *)
(** [is_tld n]: [n] has a single fragment.  [cnt o m]: number of entries of the
    token index [m] whose owner component is [o]; [nontld_count]: number of
    name states whose name is not a TLD; [zsum]: sum of a map of integers. *)
Theorem C10_invariant : forall hash valid_name valid_data str_ok, injective hash ->
  forall ops, let s := nrun hash valid_name valid_data str_ok ops in
  (* (a) a name state is stored under the hash of its own name *)
  (forall k ns, names s !! k = Some ns -> k = hash (ns_name ns)) /\
  (* (b) TLDs have no owner, the other names a 20-byte one *)
  (forall k ns, names s !! k = Some ns ->
     if is_tld (ns_name ns) then ns_owner ns = None
     else exists o, ns_owner ns = Some o /\ length o = 20%nat) /\
  (* (c) the token index is exactly the set of non-TLD name states, by owner *)
  (forall o k n, acctok s !! (o, k) = Some n <->
     exists ns, names s !! k = Some ns /\ ns_owner ns = Some o /\ ns_name ns = n /\ is_tld n = false) /\
  (* (d) a balance is the number of index entries of that owner; no stored zero *)
  (forall o, default 0 (balances s !! o) = Z.of_nat (cnt o (acctok s))) /\
  (forall o, balances s !! o <> Some 0) /\
  (* (e) supply = size of the index = number of non-TLD names (never deleted) *)
  supply s = Z.of_nat (size (acctok s)) /\
  size (acctok s) = nontld_count (names s) /\
  (* (f) supply = sum of all balances *)
  zsum (balances s) = supply s.
Proof.
  intros hash vn vd so Hinj ops s.
  destruct (nrun_inv hash vn vd so Hinj ops) as [I1 I2 I3 I4 I5 I6 I7 I8].
  repeat split; try assumption; apply I3.
Qed.
Print Assumptions C10_invariant.

(** name states are never deleted and never renamed: "registered" = "ever registered" *)
Theorem C10_names_never_deleted : forall hash valid_name valid_data str_ok, injective hash ->
  forall ops co k ns0, let s := nrun hash valid_name valid_data str_ok ops in
  names s !! k = Some ns0 ->
  exists ns1, names (fst (fst (nstep hash valid_name valid_data str_ok s co))) !! k = Some ns1 /\
              ns_name ns1 = ns_name ns0.
Proof.
  intros hash vn vd so Hinj ops co k ns0 s. apply names_persist; [exact Hinj|apply nrun_inv, Hinj].
Qed.
Print Assumptions C10_names_never_deleted.

(** * totalSupply / balanceOf / tokensOf *)
Theorem C10_accounting : forall hash valid_name valid_data str_ok, injective hash ->
  forall ops c o, let s := nrun hash valid_name valid_data str_ok ops in
  supply s = Z.of_nat (nontld_count (names s)) /\
  supply s = zsum (balances s) /\
  nexec hash valid_name valid_data str_ok c s TotalSupply = Halt (s, VInt (supply s), []) /\
  (length o = 20%nat ->
     nexec hash valid_name valid_data str_ok c s (BalanceOf (Some o)) =
       Halt (s, VInt (default 0 (balances s !! o)), []) /\
     exists l, nexec hash valid_name valid_data str_ok c s (TokensOf (Some o)) =
                 Halt (s, VList (map VBytes l), []) /\
       Sorted bytes_le l /\ NoDup l /\ Z.of_nat (length l) = default 0 (balances s !! o) /\
       (* exactly the names recorded for [o], expired or not *)
       forall n, n ∈ l <->
                 exists ns, get_ns hash s n = Some ns /\ ns_owner ns = Some o /\ is_tld n = false).
Proof.
  intros hash vn vd so Hinj ops c o s.
  pose proof (nrun_inv hash vn vd so Hinj ops) as Inv. fold s in Inv.
  destruct (accounting_state hash s Inv) as (A1 & A2 & _).
  split; [exact A1|]. split; [exact A2|]. split; [reflexivity|].
  intros Hlen. destruct (accounting_readers hash vn vd so Hinj c s o Inv Hlen) as (_ & R2 & R3).
  split; [exact R2|exact R3].
Qed.
Print Assumptions C10_accounting.

(** * Availability *)
(** For a non-TLD name under a registered TLD whose whole parent chain is
    live: [isAvailable] is [false] while the name is live and tells whether
    a parent record conflicts otherwise; "live" = stored and [now < expiration].
    (Holds in every state, reachable or not.) *)
Theorem C10_availability : forall hash valid_name valid_data str_ok c s n,
  valid_name n = true -> is_tld n = false ->
  is_Some (roots s !! List.last (split_dot n) []) ->
  parent_expired hash c s 1 (split_dot n) = false ->
  (live hash c s n = true <-> exists ns, get_ns hash s n = Some ns /\ now c < ns_exp ns) /\
  (live hash c s n = true ->
     nexec hash valid_name valid_data str_ok c s (IsAvailable n) = Halt (s, VBool false, [])) /\
  (live hash c s n = false ->
     nexec hash valid_name valid_data str_ok c s (IsAvailable n) =
       Halt (s, VBool (negb (parent_conflict hash s n (join_dot (drop 1 (split_dot n))))), [])).
Proof. exact availability. Qed.
Print Assumptions C10_availability.

(** In terms of time: a registered name with expiration [e] is unavailable at
    every instant [< e] and (no conflicting parent record) available at every
    instant [>= e]; in particular at [e-1], [e], [e+1]. *)
Theorem C10_availability_boundary : forall hash valid_name valid_data str_ok c s n ns0,
  valid_name n = true -> is_tld n = false ->
  is_Some (roots s !! List.last (split_dot n) []) ->
  parent_expired hash c s 1 (split_dot n) = false ->
  get_ns hash s n = Some ns0 ->
  let avail b := nexec hash valid_name valid_data str_ok c s (IsAvailable n) = Halt (s, VBool b, []) in
  let noconf := parent_conflict hash s n (join_dot (drop 1 (split_dot n))) = false in
  (now c < ns_exp ns0 -> avail false) /\
  (ns_exp ns0 <= now c -> noconf -> avail true) /\
  (now c = ns_exp ns0 - 1 -> avail false) /\
  (now c = ns_exp ns0 -> noconf -> avail true) /\
  (now c = ns_exp ns0 + 1 -> noconf -> avail true).
Proof. exact availability_boundary. Qed.
Print Assumptions C10_availability_boundary.

(** [register] (all guards passed: valid non-TLD name under a registered TLD,
    live parent chain, parent's admin for 3rd level and below, no conflicting
    record, witnessed 20-byte owner, positive price) answers [false] and
    changes nothing exactly while the name is live; otherwise it can only
    answer [true], and does so short of 256-bit overflow and of a receiving
    contract that rejects the token. *)
Theorem C10_availability_register : forall hash valid_name valid_data str_ok, injective hash ->
  forall ops c name o em rf rt ex ttl, let s := nrun hash valid_name valid_data str_ok ops in
  let parent := join_dot (drop 1 (split_dot name)) in
  let reg := nexec hash valid_name valid_data str_ok c s (Register name (Some o) em rf rt ex ttl) in
  valid_name name = true -> is_tld name = false ->
  is_Some (roots s !! List.last (split_dot name) []) ->
  parent_expired hash c s 1 (split_dot name) = false ->
  (forall pns, (2 < length (split_dot name))%nat -> get_ns hash s parent = Some pns ->
               check_admin c pns = Halt tt) ->
  parent_conflict hash s name parent = false ->
  length o = 20%nat -> wit_of c o = true -> 0 < price s ->
  (live hash c s name = true -> reg = Halt (s, VBool false, [])) /\
  (forall s' ns, reg = Halt (s', VBool false, ns) -> live hash c s name = true) /\
  (live hash c s name = false -> forall s' r ns, reg = Halt (s', r, ns) ->
     r = VBool true /\
     get_ns hash s' name = Some (mkNS (Some o) name (now c + ex * millisecondsInSecond) None) /\
     ns = [NTransfer (owner_of hash s name) (Some o) name]) /\
  (live hash c s name = false ->
     int_ok (ex * millisecondsInSecond) = true -> int_ok (now c + ex * millisecondsInSecond) = true ->
     int_ok (supply s + 1) = true -> existsb (bytes_eqb o) (rejecting c) = false ->
     exists s', reg = Halt (s', VBool true, [NTransfer (owner_of hash s name) (Some o) name])).
Proof.
  intros hash vn vd so Hinj ops c name o em rf rt ex ttl s parent reg G1 G2 G3 G4 G5 G6 G7 G8 G9.
  apply (availability_register hash vn vd so Hinj); [apply nrun_inv, Hinj|repeat split; assumption].
Qed.
Print Assumptions C10_availability_register.

(** * Takeover of an expired name *)
Theorem C10_takeover : forall hash valid_name valid_data str_ok, injective hash ->
  forall ops c name owner em rf rt ex ttl s' ns ns0, let s := nrun hash valid_name valid_data str_ok ops in
  get_ns hash s name = Some ns0 ->
  nexec hash valid_name valid_data str_ok c s (Register name owner em rf rt ex ttl) = Halt (s', VBool true, ns) ->
  exists o o0, owner = Some o /\ ns_owner ns0 = Some o0 /\ ns_exp ns0 <= now c /\
    get_ns hash s' name = Some (mkNS (Some o) name (now c + ex * millisecondsInSecond) None) /\
    (forall n, n <> name -> get_ns hash s' n = get_ns hash s n) /\
    (forall x, default 0 (balances s' !! x) =
               default 0 (balances s !! x) - (if decide (x = o0) then 1 else 0)
                                           + (if decide (x = o) then 1 else 0)) /\
    supply s' = supply s /\
    acctok s' = <[(o, hash name) := name]> (delete (o0, hash name) (acctok s)) /\
    roots s' = roots s /\ price s' = price s /\
    ns = [NTransfer (Some o0) (Some o) name].
Proof.
  intros hash vn vd so Hinj ops c name owner em rf rt ex ttl s' ns ns0 s Hg H.
  exact (takeover hash vn vd so Hinj _ _ _ _ _ _ _ _ _ _ _ _ (nrun_inv hash vn vd so Hinj ops) Hg H).
Qed.
Print Assumptions C10_takeover.

(** * Transfer *)
Theorem C10_transfer_only_owner_field : forall hash valid_name valid_data str_ok, injective hash ->
  forall ops c to tok s' r ns, let s := nrun hash valid_name valid_data str_ok ops in
  nexec hash valid_name valid_data str_ok c s (Transfer to tok) = Halt (s', r, ns) ->
  exists t ns0 o0, to = Some t /\ is_tld tok = false /\
    get_ns hash s tok = Some ns0 /\ ns_owner ns0 = Some o0 /\ now c < ns_exp ns0 /\
    ((r = VBool false /\ wit_of c o0 = false /\ s' = s /\ ns = []) \/
     (r = VBool true /\ wit_of c o0 = true /\ ns = [NTransfer (Some o0) (Some t) tok] /\
      (o0 = t -> s' = s) /\
      (o0 <> t ->
         get_ns hash s' tok = Some (mkNS (Some t) (ns_name ns0) (ns_exp ns0) None) /\
         (forall n, n <> tok -> get_ns hash s' n = get_ns hash s n) /\
         records s' = records s /\ roots s' = roots s /\ supply s' = supply s /\ price s' = price s /\
         (forall x, default 0 (balances s' !! x) =
                    default 0 (balances s !! x) - (if decide (x = o0) then 1 else 0)
                                                + (if decide (x = t) then 1 else 0)) /\
         acctok s' = <[(t, hash tok) := tok]> (delete (o0, hash tok) (acctok s))))).
Proof.
  intros hash vn vd so Hinj ops c to tok s' r ns s H.
  exact (transfer_spec hash vn vd so Hinj _ _ _ _ _ _ _ (nrun_inv hash vn vd so Hinj ops) H).
Qed.
Print Assumptions C10_transfer_only_owner_field.

(** * Renew *)
Theorem C10_renew : forall hash valid_name valid_data str_ok, injective hash ->
  forall ops c name y s' r ns, let s := nrun hash valid_name valid_data str_ok ops in
  nexec hash valid_name valid_data str_ok c s (Renew name y) = Halt (s', r, ns) ->
  exists ns0, 1 <= y <= 10 /\ get_ns hash s name = Some ns0 /\ now c < ns_exp ns0 /\
    let e' := ns_exp ns0 + y * millisecondsInYear in
    r = VInt e' /\ ns = [NRenew name (ns_exp ns0) e'] /\
    (is_tld name = false -> e' <= now c + millisecondsInTenYears) /\
    get_ns hash s' name = Some (mkNS (ns_owner ns0) (ns_name ns0) e' (ns_admin ns0)) /\
    (forall n, n <> name -> get_ns hash s' n = get_ns hash s n) /\
    roots s' = roots s /\ supply s' = supply s /\ balances s' = balances s /\
    acctok s' = acctok s /\ records s' = records s /\ price s' = price s.
Proof.
  intros hash vn vd so Hinj ops c name y s' r ns s H.
  exact (renew_spec hash vn vd so Hinj _ _ _ _ _ _ _ (nrun_inv hash vn vd so Hinj ops) H).
Qed.
Print Assumptions C10_renew.

(** Consequence (an oddity of the code, not a violation of the property): the
    name must be live ([now < expiration]) and the result may not exceed
    [now + 10 years], so a non-TLD name can be renewed by at most 9 years at
    a time although [years = 10] passes the range check. *)
Theorem C10_renew_at_most_nine : forall hash valid_name valid_data str_ok, injective hash ->
  forall ops c name y s' r ns, let s := nrun hash valid_name valid_data str_ok ops in
  nexec hash valid_name valid_data str_ok c s (Renew name y) = Halt (s', r, ns) ->
  is_tld name = false -> y <= 9.
Proof.
  intros hash vn vd so Hinj ops c name y s' r ns s H.
  exact (renew_at_most_nine hash vn vd so Hinj _ _ _ _ _ _ _ (nrun_inv hash vn vd so Hinj ops) H).
Qed.
Print Assumptions C10_renew_at_most_nine.

(** * ownerOf / properties answer only under a live chain *)
(** [i = 0] is the name itself, [i = length - 1] the TLD.  (Every state.) *)
Theorem C10_readers_need_live_chain : forall hash valid_name valid_data str_ok c s n s' r ns,
  let chain :=
    (2 <= length (split_dot n))%nat /\
    forall i, (i < length (split_dot n))%nat ->
              live hash c s (join_dot (drop i (split_dot n))) = true in
  (nexec hash valid_name valid_data str_ok c s (OwnerOf n) = Halt (s', r, ns) ->
     chain /\ exists ns0, get_ns hash s n = Some ns0 /\ now c < ns_exp ns0 /\ s' = s /\ ns = [] /\
                          r = oaddr (ns_owner ns0)) /\
  (nexec hash valid_name valid_data str_ok c s (Properties n) = Halt (s', r, ns) ->
     chain /\ exists ns0, get_ns hash s n = Some ns0 /\ now c < ns_exp ns0 /\ s' = s /\ ns = [] /\
                          r = VList [VBytes (ns_name ns0); VInt (ns_exp ns0); oaddr (ns_admin ns0)]).
Proof. exact readers_need_live_chain. Qed.
Print Assumptions C10_readers_need_live_chain.

(** * Every change of ownership is announced by exactly one Transfer *)
(** [owner_of s n]: the owner recorded for [n] ([None] if unregistered or TLD). *)
Theorem C10_transfer_notifications : forall hash valid_name valid_data str_ok, injective hash ->
  forall ops c op s' r ns, let s := nrun hash valid_name valid_data str_ok ops in
  nstep hash valid_name valid_data str_ok s (c, op) = (s', r, ns) ->
  (forall n, owner_of hash s n <> owner_of hash s' n ->
     ns = [NTransfer (owner_of hash s n) (owner_of hash s' n) n]) /\
  (forall n n', owner_of hash s n <> owner_of hash s' n ->
                owner_of hash s n' <> owner_of hash s' n' -> n = n') /\
  (forall f t n, NTransfer f t n ∈ ns -> f = owner_of hash s n /\ t = owner_of hash s' n).
Proof.
  intros hash vn vd so Hinj ops c op s' r ns s H.
  exact (transfer_notifications hash vn vd so Hinj _ _ _ _ _ _ (nrun_inv hash vn vd so Hinj ops) H).
Qed.
Print Assumptions C10_transfer_notifications.

(** * Non-vacuity: a concrete history *)
Module Ex.
Definition hid (b : bytes) : bytes := b.
Definition vn (b : bytes) := true.
Definition vd (t : Z) (b : bytes) := true.
Definition so (b : bytes) := true.
Lemma hid_inj : injective hid.
Proof. intros a b H. exact H. Qed.

Definition com : bytes := [99;111;109]%N.               (* "com" *)
Definition acom : bytes := [97;46;99;111;109]%N.        (* "a.com" *)
Definition bacom : bytes := [98;46;97;46;99;111;109]%N. (* "b.a.com" *)
Definition A : bytes := repeat 1%N 20.
Definition B : bytes := repeat 2%N 20.
Definition cm : bytes := repeat 9%N 20.
Definition em : bytes := [101]%N.
Definition ctx t w := mkNC t w cm [].
Definition run := nrun hid vn vd so.
Definition res c s o : val * list nnotif :=
  match nexec hid vn vd so c s o with Halt (_, r, ns) => (r, ns) | Fault => (VFault, []) end.

(** "com" by the committee at t=100; "a.com" by A at t=200 for 10 s: expires at 10200 *)
Definition h2 := [(ctx 100 [cm], RegisterTLD com em 1 2 1000000 4);
                  (ctx 200 [A], Register acom (Some A) em 1 2 10 4)].
Definition s2 := run h2.

Example ex_registered : get_ns hid s2 acom = Some (mkNS (Some A) acom 10200 None).
Proof. vm_compute. reflexivity. Qed.

(** isAvailable at exp-1, exp, exp+1 *)
Example ex_is_available :
  map (fun t => res (ctx t []) s2 (IsAvailable acom)) [10199; 10200; 10201] =
  [(VBool false, []); (VBool true, []); (VBool true, [])].
Proof. vm_compute. reflexivity. Qed.

(** register by B at exp-1 (refused), exp, exp+1 (takeover with its notification) *)
Example ex_register_around_exp :
  map (fun t => res (ctx t [B]) s2 (Register acom (Some B) em 1 2 50 4)) [10199; 10200; 10201] =
  [(VBool false, []);
   (VBool true, [NTransfer (Some A) (Some B) acom]);
   (VBool true, [NTransfer (Some A) (Some B) acom])].
Proof. vm_compute. reflexivity. Qed.

(** the premises of [C10_availability_register] are met by that call at t = exp *)
Example ex_guards : reg_guards hid vn (ctx 10200 [B]) s2 acom B /\ live hid (ctx 10200 [B]) s2 acom = false.
Proof.
  split; [|vm_compute; reflexivity].
  unfold reg_guards. repeat split; try (vm_compute; reflexivity).
  - vm_compute. eauto.
  - intros pns Hlt. vm_compute in Hlt. lia.
Qed.

(** ownerOf answers at exp-1 and faults at exp *)
Example ex_owner_of :
  map (fun t => res (ctx t []) s2 (OwnerOf acom)) [10199; 10200] = [(VBytes A, []); (VFault, [])].
Proof. vm_compute. reflexivity. Qed.

(** after the takeover at t = exp = 10200 (new expiration 60200) *)
Definition h3 := h2 ++ [(ctx 10200 [B], Register acom (Some B) em 1 2 50 4)].
Definition s3 := run h3.

Example ex_after_takeover :
  map (fun o => res (ctx 10300 []) s3 o)
      [TotalSupply; BalanceOf (Some A); BalanceOf (Some B); TokensOf (Some A); TokensOf (Some B);
       OwnerOf acom; Properties acom] =
  [(VInt 1, []); (VInt 0, []); (VInt 1, []); (VList [], []); (VList [VBytes acom], []);
   (VBytes B, []); (VList [VBytes acom; VInt 60200; VNull], [])].
Proof. vm_compute. reflexivity. Qed.

(** transfer to another owner / to self / without the owner's witness;
    renew by 1 year; by 9; by 10 years (beyond now + 10 years: refused); by 11 *)
Example ex_transfer_renew :
  map (fun o => res (ctx 10300 [B]) s3 o)
      [Transfer (Some A) acom; Transfer (Some B) acom; Renew acom 1; Renew acom 9; Renew acom 10; Renew acom 11] =
  [(VBool true, [NTransfer (Some B) (Some A) acom]);
   (VBool true, [NTransfer (Some B) (Some B) acom]);
   (VInt (60200 + millisecondsInYear), [NRenew acom 60200 (60200 + millisecondsInYear)]);
   (VInt (60200 + 9 * millisecondsInYear), [NRenew acom 60200 (60200 + 9 * millisecondsInYear)]);
   (VFault, []); (VFault, [])] /\
  res (ctx 10300 [A]) s3 (Transfer (Some A) acom) = (VBool false, []).
Proof. vm_compute. split; reflexivity. Qed.

(** transfer B -> A, renew by A for 2 years, "b.a.com" by B (with A's consent)
    for 100 s at t=10500 *)
Definition h4 := h3 ++ [(ctx 10300 [B], Transfer (Some A) acom);
                        (ctx 10400 [A], Renew acom 2);
                        (ctx 10500 [A; B], Register bacom (Some B) em 1 2 100 4)].
Definition s4 := run h4.

Example ex_final :
  map (fun o => res (ctx 10600 []) s4 o)
      [TotalSupply; BalanceOf (Some A); BalanceOf (Some B); TokensOf (Some A); TokensOf (Some B);
       OwnerOf acom; Properties acom; OwnerOf bacom] =
  [(VInt 2, []); (VInt 1, []); (VInt 1, []); (VList [VBytes acom], []); (VList [VBytes bacom], []);
   (VBytes A, []); (VList [VBytes acom; VInt (60200 + 2 * millisecondsInYear); VNull], []);
   (VBytes B, [])] /\
  (supply s4, zsum (balances s4), nontld_count (names s4), size (acctok s4)) = (2, 2, 2%nat, 2%nat).
Proof. vm_compute. split; reflexivity. Qed.

(** a live name under an expired parent: without the renewal "a.com" expires at
    60200 while "b.a.com" lives until 110500; ownerOf "b.a.com" then faults *)
Definition h5 := h3 ++ [(ctx 10500 [B], Register bacom (Some B) em 1 2 100 4)].
Definition s5 := run h5.
Example ex_parent_expired :
  map (fun t => res (ctx t []) s5 (OwnerOf bacom)) [60199; 60200] = [(VBytes B, []); (VFault, [])] /\
  live hid (ctx 60200 []) s5 bacom = true.
Proof. vm_compute. split; reflexivity. Qed.

(** the step relation of [C10_transfer_notifications] on the takeover *)
Example ex_owner_change :
  owner_of hid s2 acom = Some A /\ owner_of hid s3 acom = Some B /\
  snd (nstep hid vn vd so s2 (ctx 10200 [B], Register acom (Some B) em 1 2 50 4)) =
    [NTransfer (Some A) (Some B) acom].
Proof. vm_compute. repeat split; reflexivity. Qed.
End Ex.
