(** Props/C02.v — Balance: debits need the holder's or the Alphabet's
    authorisation.  No premise on states, amounts, address lengths. *)
From Verif Require Import Base.Prelude Model.Balance Proofs.BalanceSum Proofs.Balance.
Local Open Scope Z_scope.

Lemma usable_In c f : usable c f = true -> In f (witnessed c) /\ hash_len f = true.
Proof.
  unfold usable. intros H. apply andb_true_iff in H as [H1 H2]. split; [|exact H1].
  apply existsb_exists in H2 as (x & Hx & He). apply bytes_eqb_eq in He. subst. exact Hx.
Qed.

(** Within one invocation (= one transaction of the model) an account's
    balance decreases only if the context witnesses that account (signer or
    calling contract) or carries the Alphabet multi-signature. *)
Theorem C02_debit_authorised : forall s co k,
  let '(s', _, _) := bstep s co in
  balance_of s' k < balance_of s k ->
  alpha (fst co) = true \/ In k (witnessed (fst co)).
Proof.
  intros s co k. destruct (bstep_cases s co) as [(s' & r & ns & He & ->)|(_ & ->)]; [|lia].
  intros Hlt. destruct (bexec_auth _ _ _ _ _ _ _ He Hlt) as [Ha|(f & t & a & _ & -> & Hu)]; [left; exact Ha|].
  right. apply usable_In in Hu. tauto.
Qed.
Print Assumptions C02_debit_authorised.

(** The public transfer can lower only [from], and only when [from] is
    witnessed — whatever else is signed, whatever the arguments. *)
Theorem C02_transfer_only_from : forall s c f t a k,
  let '(s', _, _) := bstep s (c, Transfer f t a) in
  balance_of s' k < balance_of s k -> k = f /\ In f (witnessed c) /\ hash_len f = true.
Proof.
  intros s c f t a k. unfold bstep. simpl.
  destruct (transfer c (accts s) f t a false [] false false) as [[[m r0] ns0]|] eqn:Et; simpl; [|lia].
  intros Hlt. unfold balance_of in Hlt. simpl in Hlt.
  apply transfer_spec in Et. destruct Et as [(-> & -> & ->)|(-> & Ha & -> & Hn & Hle & Hu & Hb & _)]; [lia|].
  destruct (Hu eq_refl) as [Hu1 Hu2]. apply usable_In in Hu1.
  split; [|exact Hu1]. rewrite Hb in Hlt.
  destruct (hash_len f && bytes_eqb k f) eqn:E1.
  - apply andb_true_iff in E1 as [_ E1]. apply bytes_eqb_eq in E1. exact E1.
  - simpl in Hlt. destruct (hash_len t && bytes_eqb k t); simpl in Hlt; lia.
Qed.
Print Assumptions C02_transfer_only_from.

(** A refused transfer reports [false] and changes nothing. *)
Theorem C02_refusal_inert : forall s c f t a,
  let '(s', r, ns) := bstep s (c, Transfer f t a) in
  r = VBool false \/ r = VFault -> s' = s /\ ns = [].
Proof.
  intros s c f t a. pose proof (bstep_failed_inert s (c, Transfer f t a)) as H.
  destruct (bstep s (c, Transfer f t a)) as [[s' r] ns]. intros [Hr|Hr]; apply H; auto.
Qed.
Print Assumptions C02_refusal_inert.

(** Over any history and any interleaving with Alphabet operations: every
    step from every reachable state obeys the rule. *)
Theorem C02_history : forall ops co k,
  let s := brun ops in
  let '(s', _, _) := bstep s co in
  balance_of s' k < balance_of s k ->
  alpha (fst co) = true \/ In k (witnessed (fst co)).
Proof. intros ops co k. exact (C02_debit_authorised (brun ops) co k). Qed.
Print Assumptions C02_history.

(** Non-vacuity: the authorised cases do lower balances; an unauthorised
    attempt (stranger, negative amount, wrong length) is refused. *)
Definition exA : bytes := repeat 1%N 20.
Definition exB : bytes := repeat 2%N 20.
Definition s0 := brun [(mkCtx [] true, Mint exA 1000 []); (mkCtx [] true, Mint exB 1000 [])].
Example C02_nonvacuous :
  map (fun co => let '(s', r, _) := bstep s0 co in (balance_of s' exA, balance_of s' exB, r))
    [ (mkCtx [exA] false, Transfer exA exB 300);
      (mkCtx [exB] false, Transfer exA exB 300);
      (mkCtx [exB] false, Transfer exB exA (-500));
      (mkCtx [] true, TransferX exA exB 300 []);
      (mkCtx [exA] false, TransferX exA exB 300 []) ]
  = [ (700, 1300, VBool true); (1000, 1000, VBool false); (1000, 1000, VFault);
      (700, 1300, VNull); (1000, 1000, VFault) ].
Proof. vm_compute. reflexivity. Qed.
