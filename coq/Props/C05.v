(** Props/C05.v — Container creation charges exactly the configured fee,
    atomically.  Only statements, closed by short proofs, each followed by
    [Print Assumptions].  Model: Model/Container.v over Model/Balance.v (tied
    to contracts/container, contracts/balance, contracts/netmap, contracts/nns,
    contracts/neofsid by the correspondence check of ./check C05).

    Every theorem holds for every interpretation [cid_of] of SHA-256 and [b58]
    of Base58 (no property of them is needed here), for every state [w] of the
    five contracts, every invocation context [c] (any Alphabet size, any signer
    set, any block time) and every argument. *)
From Verif Require Import Base.Prelude Base.IntCodec Model.Balance Proofs.BalanceSum Proofs.Balance
  Model.Container Proofs.Container.
Local Open Scope Z_scope.

(** A successful put / putNamed / putMeta with Alphabet accounts [x_alphabet c]
    (N of them) and per-node fee [fee] = ContainerFee (+ ContainerAliasFee iff
    a name is given), read in the pre-state [w]:
    - the owner's account is debited [fee * N], every Alphabet account is
      credited [fee] per occurrence in the list, nothing else moves
      (the total supply is unchanged);
    - the notifications are exactly one Transfer/TransferX pair per Alphabet
      node, details [0x10 ++ cid], followed by PutSuccess;
    - the container is stored in the same step;
    - the owner could pay: [fee * N <= balance]; the Alphabet witnessed it. *)
Theorem C05_exact : forall cid_of b58 c w o blob sig pub tok name zone w' r ns,
  put_shape o = Some (blob, sig, pub, tok, name, zone) ->
  wexec cid_of b58 c w o = Halt (w', r, ns) ->
  exists owner fee,
    owner_of_blob blob = Halt owner /\ fee_at w name = Some fee /\
    (let from := wallet_to_sh owner in
     let N := Z.of_nat (length (x_alphabet c)) in
     x_alpha c = true /\
     (x_alphabet c = [] \/ 0 <= fee) /\
     fee * N <= balance_of (w_b w) from /\
     cid_of blob ∉ tomb (w_c w) /\
     length pub = 33%nat /\
     Forall (fun t => hash_len t = true) (x_alphabet c) /\
     (forall a, balance_of (w_b w') a = balance_of (w_b w) a
          - (if bytes_eqb a from then fee * N else 0) + fee * occ a (x_alphabet c)) /\
     supply (w_b w') = supply (w_b w) /\
     ns = map NBal (pay_notifs from (x_alphabet c) fee (16%N :: cid_of blob))
          ++ [NPut (cid_of blob) pub] /\
     get (w_c w') (cid_of blob) = Halt (mkCnr blob sig pub tok) /\
     w_cfg w' = w_cfg w).
Proof. exact put_exact. Qed.
Print Assumptions C05_exact.

(** The same with the Alphabet accounts pairwise distinct and different from
    the payer (as on any real chain): owner - fee*N, each node + fee, everybody
    else untouched; exactly 2N balance notifications. *)
Theorem C05_exact_distinct : forall cid_of b58 c w o blob sig pub tok name zone w' r ns owner fee,
  put_shape o = Some (blob, sig, pub, tok, name, zone) ->
  wexec cid_of b58 c w o = Halt (w', r, ns) ->
  owner_of_blob blob = Halt owner -> fee_at w name = Some fee ->
  NoDup (x_alphabet c) -> wallet_to_sh owner ∉ x_alphabet c ->
  let from := wallet_to_sh owner in
  let N := Z.of_nat (length (x_alphabet c)) in
  balance_of (w_b w') from = balance_of (w_b w) from - fee * N /\
  (forall t, t ∈ x_alphabet c -> balance_of (w_b w') t = balance_of (w_b w) t + fee) /\
  (forall a, a <> from -> a ∉ x_alphabet c -> balance_of (w_b w') a = balance_of (w_b w) a) /\
  length ns = (2 * length (x_alphabet c) + 1)%nat.
Proof.
  intros cid_of b58 c w o blob sig pub tok name zone w' r ns owner fee Hs H Ho Hf Hnd Hni.
  destruct (put_exact _ _ _ _ _ _ _ _ _ _ _ _ _ _ Hs H)
    as (owner' & fee' & Ho' & Hf' & _ & _ & _ & _ & _ & _ & Hb & _ & Hns & _).
  rewrite Ho in Ho'. injection Ho' as <-. rewrite Hf in Hf'. injection Hf' as <-.
  cbv zeta. repeat split.
  - rewrite Hb, bytes_eqb_refl, occ_notin by exact Hni. lia.
  - intros t Ht. rewrite Hb, (occ_nodup _ _ Hnd Ht).
    assert (E : bytes_eqb t (wallet_to_sh owner) = false).
    { apply bytes_eqb_neq. intros ->. contradiction. }
    rewrite E. lia.
  - intros a Ha Hna. rewrite Hb, occ_notin by exact Hna.
    apply bytes_eqb_neq in Ha. rewrite Ha. lia.
  - rewrite Hns, app_length, map_length, pay_notifs_length. simpl. lia.
Qed.
Print Assumptions C05_exact_distinct.

(** Atomicity: an owner who cannot pay the full amount (balance < fee * N), a
    negative fee, a missing fee setting, a blob without owner field, a missing
    Alphabet witness, a tombstoned id, a malformed public key make the
    invocation fault ... *)
Theorem C05_refused : forall cid_of b58 c w o blob sig pub tok name zone,
  put_shape o = Some (blob, sig, pub, tok, name, zone) ->
  (forall owner fee, owner_of_blob blob = Halt owner -> fee_at w name = Some fee ->
     balance_of (w_b w) (wallet_to_sh owner) < fee * Z.of_nat (length (x_alphabet c)) \/
     (x_alphabet c <> [] /\ fee < 0)) \/
  fee_at w name = None \/ owner_of_blob blob = Fault \/
  x_alpha c = false \/ cid_of blob ∈ tomb (w_c w) \/ length pub <> 33%nat ->
  wexec cid_of b58 c w o = Fault.
Proof. exact put_refused. Qed.
Print Assumptions C05_refused.

(** ... and a faulting invocation — whatever the reason, wherever in the call
    (name taken, NNS refusal, NeoFSID refusal, overflow, notification type
    check) — leaves the state of all five contracts unchanged and emits
    nothing: no partial payment exists. *)
Theorem C05_atomic : forall cid_of b58 w co,
  snd (fst (wstep cid_of b58 w co)) = VFault ->
  wstep cid_of b58 w co = (w, VFault, []).
Proof. exact wstep_fault_inert. Qed.
Print Assumptions C05_atomic.

Theorem C05_insufficient_balance_inert : forall cid_of b58 c w o blob sig pub tok name zone owner fee,
  put_shape o = Some (blob, sig, pub, tok, name, zone) ->
  owner_of_blob blob = Halt owner -> fee_at w name = Some fee ->
  balance_of (w_b w) (wallet_to_sh owner) < fee * Z.of_nat (length (x_alphabet c)) ->
  wstep cid_of b58 w (c, o) = (w, VFault, []).
Proof.
  intros cid_of b58 c w o blob sig pub tok name zone owner fee Hs Ho Hf Hlt.
  apply wstep_fault. eapply put_refused; [exact Hs|]. left. intros owner' fee' Ho' Hf'.
  rewrite Ho in Ho'. injection Ho' as <-. rewrite Hf in Hf'. injection Hf' as <-. auto.
Qed.
Print Assumptions C05_insufficient_balance_inert.

Theorem C05_negative_fee_faults : forall cid_of b58 c w o blob sig pub tok name zone fee,
  put_shape o = Some (blob, sig, pub, tok, name, zone) ->
  fee_at w name = Some fee -> fee < 0 -> x_alphabet c <> [] ->
  wstep cid_of b58 w (c, o) = (w, VFault, []).
Proof.
  intros cid_of b58 c w o blob sig pub tok name zone fee Hs Hf Hneg Hne.
  apply wstep_fault. eapply put_refused; [exact Hs|]. left. intros owner' fee' _ Hf'.
  rewrite Hf in Hf'. injection Hf' as <-. auto.
Qed.
Print Assumptions C05_negative_fee_faults.

(** Over histories: after any history [pre] of arbitrary invocations (puts,
    deletes, balance operations, NNS operations, fee changes, by anybody), the
    configuration in force is the one left by the setConfig calls the
    Alphabet witnessed, in order; a creation that follows is charged with
    exactly those values. *)
Theorem C05_config_history : forall cid_of b58 w0 pre,
  w_cfg (wrun_from cid_of b58 w0 pre) = fold_left cfg_step pre (w_cfg w0).
Proof. exact wrun_cfg. Qed.
Print Assumptions C05_config_history.

Definition fee_of_cfg (m : gmap bytes Z) (name : bytes) : option Z :=
  match m !! key_fee with
  | None => None
  | Some f0 => if nonempty name then
                 match m !! key_alias_fee with Some af => Some (f0 + af) | None => None end
               else Some f0
  end.

Theorem C05_history : forall cid_of b58 w0 pre c o blob sig pub tok name zone w' r ns,
  let w := wrun_from cid_of b58 w0 pre in
  put_shape o = Some (blob, sig, pub, tok, name, zone) ->
  wstep cid_of b58 w (c, o) = (w', r, ns) -> r <> VFault ->
  exists owner fee,
    owner_of_blob blob = Halt owner /\
    fee_of_cfg (fold_left cfg_step pre (w_cfg w0)) name = Some fee /\
    fee * Z.of_nat (length (x_alphabet c)) <= balance_of (w_b w) (wallet_to_sh owner) /\
    (forall a, balance_of (w_b w') a = balance_of (w_b w) a
       - (if bytes_eqb a (wallet_to_sh owner) then fee * Z.of_nat (length (x_alphabet c)) else 0)
       + fee * occ a (x_alphabet c)) /\
    get (w_c w') (cid_of blob) = Halt (mkCnr blob sig pub tok).
Proof.
  intros cid_of b58 w0 pre c o blob sig pub tok name zone w' r ns w Hs Hst Hr.
  destruct (wstep_cases cid_of b58 w (c, o)) as [(w1 & r1 & ns1 & He & Hw)|(_ & Hw)];
    rewrite Hw in Hst; [|injection Hst as _ <- _; congruence].
  injection Hst as <- <- <-. cbn [fst snd] in He.
  destruct (put_exact _ _ _ _ _ _ _ _ _ _ _ _ _ _ Hs He)
    as (owner & fee & Ho & Hf & _ & _ & Hen & _ & _ & _ & Hb & _ & _ & Hg & _).
  exists owner, fee. repeat split; auto.
  unfold fee_at in Hf. subst w. rewrite wrun_cfg in Hf. exact Hf.
Qed.
Print Assumptions C05_history.

(** * Non-vacuity: a concrete history on a two-node Alphabet with a fee change,
    a refused under-funded put, and named/unnamed puts. *)
Definition ex_cid (b : bytes) : bytes := take 32 (b ++ repeat 0%N 32).
Definition ex_b58 (b : bytes) : bytes := 1%N :: b.
Definition exOwner : bytes := 53%N :: repeat 7%N 20 ++ [1;2;3;4]%N.
Definition exBlob (salt : N) : bytes := [10; 0; 18; 27; 10; 25]%N ++ exOwner ++ [salt].
Definition exA1 : bytes := repeat 201%N 20.
Definition exA2 : bytes := repeat 202%N 20.
Definition exSelf : bytes := repeat 99%N 20.
Definition exComm : bytes := repeat 98%N 20.
Definition exPub : bytes := repeat 2%N 33.
Definition exCtx (now : Z) : cctx := mkCC true [exA1; exA2] now [exComm] exComm exSelf.
Definition exNNS : nstate :=
  mkN {[ default_root ]} {[ default_root := mkName [] 1000000 ]} ∅.
Definition ex_hist : list (cctx * wop) :=
  [ (exCtx 1, SetConfig key_fee 7);
    (exCtx 2, SetConfig key_alias_fee 1);
    (exCtx 3, Bal (Mint (wallet_to_sh exOwner) 29 []));
    (exCtx 4, Put (exBlob 1) [] exPub [9%N]);                       (* 14 paid *)
    (exCtx 5, PutNamed (exBlob 2) [] exPub [9%N] [97;97;97]%N []);  (* needs 16, has 15: refused *)
    (exCtx 6, SetConfig key_fee 6);
    (exCtx 7, PutNamed (exBlob 2) [] exPub [9%N] [97;97;97]%N []) ]. (* (6+1)*2 = 14 paid *)

Example C05_nonvacuous :
  let w := wrun_from ex_cid ex_b58 (winit default_root exNNS) ex_hist in
  map (balance_of (w_b w)) [wallet_to_sh exOwner; exA1; exA2] = [1; 14; 14] /\
  count (w_c w) = 2 /\
  map (fun co => snd (fst (wstep ex_cid ex_b58
         (wrun_from ex_cid ex_b58 (winit default_root exNNS) (take 4 ex_hist)) co)))
      [(exCtx 5, PutNamed (exBlob 2) [] exPub [9%N] [97;97;97]%N [])] = [VFault].
Proof. vm_compute. auto. Qed.
