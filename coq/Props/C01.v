(** Props/C01.v — Balance: supply = sum of balances, no negative balance,
    honest notifications.  Only statements, closed by [exact], each followed
    by [Print Assumptions].  Model: Model/Balance.v (tied to
    contracts/balance/contract.go by the correspondence check of ./check C01). *)
From Verif Require Import Base.Prelude Model.Balance Proofs.BalanceSum Proofs.Balance.
Local Open Scope Z_scope.

(** Histories quantified over: arbitrary invocations by arbitrary contexts;
    the only premise is the quantifier's own: a lock target holds nothing at
    the time of the call ([wf_bal], a decidable predicate on the history). *)

Theorem C01_supply_is_sum : forall ops, wf_bal binit ops = true ->
  msum (accts (brun ops)) = supply (brun ops).
Proof. intros ops H. exact (proj1 (brun_inv ops H)). Qed.
Print Assumptions C01_supply_is_sum.

Theorem C01_nonneg : forall ops, wf_bal binit ops = true ->
  (forall a, 0 <= balance_of (brun ops) a) /\ 0 <= supply (brun ops).
Proof. intros ops H. destruct (brun_inv ops H) as (_ & H2 & H3). exact (conj H2 H3). Qed.
Print Assumptions C01_nonneg.

(** totalSupply moves only in a successful mint (+amount) or burn (-amount). *)
Theorem C01_supply_delta : forall s co,
  lock_fresh s (snd co) = true ->
  let '(s', r, _) := bstep s co in
  supply s' = supply s + (if val_eqb r VNull then sdelta (snd co) else 0).
Proof.
  intros s co Hf. destruct (bstep_cases s co) as [(s' & r & ns & He & ->)|(_ & ->)]; [|simpl; lia].
  pose proof (bexec_spec _ _ _ _ _ _ He Hf) as [_ [(-> & -> & _)|(_ & Hs & _)]]; [simpl; lia|].
  destruct (bexec_ret _ _ _ _ _ _ He) as [(-> & _)|(b & f & t & a & -> & Ho)]; simpl.
  - exact Hs.
  - rewrite Hs, Ho. reflexivity.
Qed.
Print Assumptions C01_supply_delta.

(** A faulting or refused invocation changes nothing and announces nothing. *)
Theorem C01_failed_is_inert : forall s co,
  let '(s', r, ns) := bstep s co in
  (r = VFault \/ r = VBool false) -> s' = s /\ ns = [].
Proof. exact bstep_failed_inert. Qed.
Print Assumptions C01_failed_is_inert.

(** Every balance change is announced: per invocation the balance of every
    account moves by exactly what the emitted [Transfer]s say, each [Transfer]
    is paired with its [TransferX] ... *)
Theorem C01_notifications_step : forall c s o s' r ns,
  bexec c s o = Halt (s', r, ns) -> lock_fresh s o = true ->
  (forall k, balance_of s' k = balance_of s k + nsum ns k) /\ paired ns = true.
Proof.
  intros c s o s' r ns He Hf. destruct (bexec_spec _ _ _ _ _ _ He Hf) as [(T1 & _ & _ & T4) _].
  exact (conj T1 T4).
Qed.
Print Assumptions C01_notifications_step.

(** ... so that replaying the whole notification stream of any history
    reproduces every balance. *)
Theorem C01_notifications_exact : forall ops k, wf_bal binit ops = true ->
  balance_of (fst (brun_from binit ops)) k = nsum (snd (brun_from binit ops)) k /\
  paired (snd (brun_from binit ops)) = true.
Proof. exact brun_replay. Qed.
Print Assumptions C01_notifications_exact.

(** Non-vacuity: a concrete history with mint, transfer, lock, partial burn,
    tick and a refused transfer meets the premise and reaches a non-trivial
    state. *)
Definition exA : bytes := repeat 1%N 20.
Definition exB : bytes := repeat 2%N 20.
Definition exL : bytes := repeat 3%N 20.
Definition ex_hist : list (bctx * bop) :=
  [ (mkCtx [] true, Mint exA 1000 [1%N]);
    (mkCtx [exA] false, Transfer exA exB 300);
    (mkCtx [exB] false, Transfer exA exB 300);
    (mkCtx [] true, Lock [7%N] exA exL 200 5);
    (mkCtx [] true, Burn exL 50 [8%N]);
    (mkCtx [] true, NewEpoch 5) ].
Example C01_nonvacuous :
  wf_bal binit ex_hist = true /\
  map (balance_of (brun ex_hist)) [exA; exB; exL] = [650; 300; 0] /\
  supply (brun ex_hist) = 950.
Proof. vm_compute. auto. Qed.

(** The premise is necessary: locking onto an account that already holds
    funds destroys them (the quantifier excludes it; not a finding). *)
Example C01_lock_nonfresh_refuted :
  exists ops, msum (accts (brun ops)) <> supply (brun ops).
Proof.
  exists [ (mkCtx [] true, Mint exA 1000 []); (mkCtx [] true, Mint exB 10 []);
           (mkCtx [] true, Lock [] exA exB 1 5) ].
  vm_compute. discriminate.
Qed.
