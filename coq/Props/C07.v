(** Props/C07.v — Netmap candidates follow the add/update/remove state
    machine in both lists.  Only statements, closed by short proofs, each
    followed by [Print Assumptions].  Model: Model/Netmap.v (tied to
    contracts/netmap/contract.go by the correspondence check of ./check C07);
    reference registry: Spec/NetmapSpec.v ([cspec], [cs_ok], [cs_apply]).
    [sub_ok]/[sub_accepts] (the abstract subscriber contracts) are arbitrary. *)
From Verif Require Import Base.Prelude Base.IntCodec Model.Netmap Spec.NetmapSpec
  Proofs.NetmapBase Proofs.NetmapCand.
Local Open Scope Z_scope.

(** After ANY history (all operations, all contexts, all arguments) the two
    candidate maps are exactly the projections of the registry produced by
    the calls the property text declares successful ([cs_run]). *)
Theorem C07_refines : forall sub_ok sub_accepts cfg ops,
  refines (nrun_from sub_ok sub_accepts (ninit cfg) ops) (cs_run ops).
Proof. intros. apply nrun_refines, ninit_refines. Qed.
Print Assumptions C07_refines.

(** ... hence [netmapCandidates()] / [listCandidates()] are the ascending
    listings of the registry's legacy / structured records. *)
Theorem C07_candidate_lists : forall sub_ok sub_accepts cfg ops,
  let s := nrun_from sub_ok sub_accepts (ninit cfg) ops in
  let f := cs_run ops in
  exists ks ks2,
    Sorted bytes_le ks /\ NoDup ks /\ (forall k, k ∈ ks <-> is_Some (c_legacy (f k))) /\
    r_netmap_candidates s = omap (fun k => legacy_node <$> c_legacy (f k)) ks /\
    Sorted bytes_le ks2 /\ NoDup ks2 /\ (forall k, k ∈ ks2 <-> is_Some (c_struct (f k))) /\
    r_list_candidates s = omap (fun k => struct_node k <$> c_struct (f k)) ks2.
Proof.
  intros so sa cfg ops s f. pose proof (C07_refines so sa cfg ops) as R. fold s f in R.
  exists (skeys (cands s)), (skeys (cands2 s)).
  repeat split; try apply Sorted_skeys; try apply NoDup_skeys.
  - rewrite elem_of_skeys, (proj1 (R k)), fmap_is_Some. tauto.
  - rewrite elem_of_skeys, (proj1 (R k)), fmap_is_Some. tauto.
  - apply omap_ext_in. intros k _. apply R.
  - rewrite elem_of_skeys, (proj2 (R k)), fmap_is_Some. tauto.
  - rewrite elem_of_skeys, (proj2 (R k)), fmap_is_Some. tauto.
  - apply omap_ext_in. intros k _. apply R.
Qed.
Print Assumptions C07_candidate_lists.

(** One step, from every state representing a registry: a candidate request
    succeeds iff the registry says so ([cs_ok]: witnesses, key shape, known
    state, existing candidate), then has exactly the registry's effect; a
    failed request and every other operation leave the candidates alone. *)
Theorem C07_step : forall sub_ok sub_accepts s f co,
  refines s f ->
  let '(s', ok, ns) := nstep sub_ok sub_accepts s co in
  refines s' (cs_step f co) /\ (is_cand_op (snd co) = true -> ok = cs_ok (fst co) f (snd co)).
Proof. intros. by apply nstep_refines. Qed.
Print Assumptions C07_step.

(** Online / Maintenance on an existing key changes the state field of
    every representation that holds the key and nothing else. *)
Theorem C07_update_state_only : forall sub_ok sub_accepts c s o st k s' ns,
  upd_target o = Some (st, k) -> st = Online \/ st = Maintenance ->
  nexec sub_ok sub_accepts c s o = Halt (s', ns) ->
  same_but_cands s s' /\ ns = [NUpdateState k st] /\
  (is_Some (cands s !! k) \/ is_Some (cands2 s !! k)) /\
  cands s' !! k = (fun n => mkNode (blob n) st) <$> cands s !! k /\
  cands2 s' !! k = (fun n => mkNode2 (n2addrs n) (n2attrs n) (n2key n) st) <$> cands2 s !! k /\
  (forall k', k' <> k -> cands s' !! k' = cands s !! k' /\ cands2 s' !! k' = cands2 s !! k').
Proof.
  intros so sa c s o st k s' ns Ht Hst He.
  destruct (nexec_upd_inv _ _ _ _ _ _ _ _ _ Ht He) as (Hu & _).
  apply update_candidate_state_spec in Hu as (_ & -> & Hsame & Hc).
  destruct Hc as [(-> & _)|(_ & Hp & Hc1 & Hc2)]; [destruct Hst; discriminate|].
  split; [exact Hsame|]. split; [reflexivity|]. split; [exact Hp|].
  split; [|split; [|intros k' Hne; split]].
  - rewrite Hc1. destruct (cands s !! k) eqn:E; cbn; [by rewrite lookup_insert|exact E].
  - rewrite Hc2. destruct (cands2 s !! k) eqn:E; cbn; [by rewrite lookup_insert|exact E].
  - rewrite Hc1. destruct (cands s !! k); [by rewrite lookup_insert_ne by congruence|reflexivity].
  - rewrite Hc2. destruct (cands2 s !! k); [by rewrite lookup_insert_ne by congruence|reflexivity].
Qed.
Print Assumptions C07_update_state_only.

(** Offline through updateState / updateStateIR, or deleteNode, removes the
    key from both maps and touches nothing else ... *)
Theorem C07_remove_both : forall sub_ok sub_accepts c s o k s' ns,
  upd_target o = Some (Offline, k) ->
  nexec sub_ok sub_accepts c s o = Halt (s', ns) ->
  cands s' = delete k (cands s) /\ cands2 s' = delete k (cands2 s) /\
  same_but_cands s s' /\ ns = [NUpdateState k Offline].
Proof.
  intros so sa c s o k s' ns Ht He.
  destruct (nexec_upd_inv _ _ _ _ _ _ _ _ _ Ht He) as (Hu & _).
  apply update_candidate_state_spec in Hu as (_ & -> & Hsame & Hc).
  destruct Hc as [(_ & H1 & H2)|([?|?] & _)]; [auto|discriminate..].
Qed.
Print Assumptions C07_remove_both.

(** ... and on an absent key it is a successful no-op apart from the
    notification (the behaviour TestUpdateState/remove_already_removed pins
    down). *)
Theorem C07_remove_absent_succeeds : forall sub_ok sub_accepts c s k,
  pk_len k = true -> alpha c = true ->
  cands s !! k = None -> cands2 s !! k = None ->
  nstep sub_ok sub_accepts s (c, DeleteNode k) = (s, true, [NUpdateState k Offline]).
Proof.
  intros so sa c s k Hl Ha H1 H2. unfold nstep. cbn [fst snd nexec].
  rewrite Hl, Ha. cbn [oassert obind]. unfold update_candidate_state, remove_from_netmap.
  change (Offline =? Offline) with true. cbv iota.
  destruct (pk_len_key_ok _ Hl) as [-> ->]. rewrite Hl. cbn [oassert obind].
  rewrite !delete_notin by assumption. by destruct s.
Qed.
Print Assumptions C07_remove_absent_succeeds.

(** Updating an unknown candidate or using an unknown state fails; so do
    malformed keys and node infos; a failure has no effect at all. *)
Theorem C07_unknown_faults : forall sub_ok sub_accepts c s o st k,
  upd_target o = Some (st, k) ->
  (st <> Offline /\ cands s !! k = None /\ cands2 s !! k = None) \/
  (st <> Online /\ st <> Offline /\ st <> Maintenance) ->
  nstep sub_ok sub_accepts s (c, o) = (s, false, []).
Proof.
  intros so sa c s o st k Ht H. apply nstep_fault. cbn [fst snd].
  destruct (nexec so sa c s o) as [[s' ns]|] eqn:He; [|reflexivity]. exfalso.
  destruct (nexec_upd_inv _ _ _ _ _ _ _ _ _ Ht He) as (Hu & _).
  rewrite (update_unknown_faults s k st H) in Hu. discriminate.
Qed.
Print Assumptions C07_unknown_faults.

Theorem C07_malformed_faults : forall sub_ok sub_accepts c s o,
  match o with
  | AddNode n => pk_len (n2key n) = false \/ n2st n <> Online
  | DeleteNode k | UpdateState _ k | UpdateStateIR _ k => pk_len k = false
  | AddPeer info | AddPeerIR info => (length info < 35)%nat
  | _ => False
  end -> nstep sub_ok sub_accepts s (c, o) = (s, false, []).
Proof. intros so sa c s o H. apply nstep_fault. by apply malformed_faults. Qed.
Print Assumptions C07_malformed_faults.

(** Requests made by a node itself take effect only with both the node's own
    witness and the Alphabet's; every mutating method needs the Alphabet's. *)
Theorem C07_double_witness : forall sub_ok sub_accepts c s o s' ns,
  nexec sub_ok sub_accepts c s o = Halt (s', ns) ->
  match o with
  | AddPeer info => exists k, info_key info = Some k /\ check_witness c k = true /\ alpha c = true
  | AddNode n => check_witness c (n2key n) = true /\ alpha c = true
  | UpdateState _ k => check_witness c k = true /\ alpha c = true
  | _ => alpha c = true
  end.
Proof.
  intros so sa c s o s' ns H. pose proof (double_witness so sa c s o s' ns H) as D.
  destruct o; exact D.
Qed.
Print Assumptions C07_double_witness.

(** Non-vacuity: a history over three keys living in the legacy list, the
    structured list, both and neither, with accepted and refused requests. *)
Definition exK (i : N) : bytes := 2%N :: repeat i 32.
Definition exInfo (i tag : N) : bytes := [tag; 0%N] ++ exK i ++ [9%N].
Definition exAll : bytes -> bool := fun _ => true.
Definition exAcc : bytes -> Z -> bool := fun _ _ => true.
Definition ex_hist : list (nctx * nop) :=
  [ (mkNC [exK 1] true 5, AddPeer (exInfo 1 7));
    (mkNC [] true 6, AddPeerIR (exInfo 2 8));
    (mkNC [exK 2] true 7, AddNode (mkNode2 [[1%N]] [([2%N], [3%N])] (exK 2) 1));
    (mkNC [exK 3] true 8, AddNode (mkNode2 [] [] (exK 3) 1));
    (mkNC [exK 1] false 9, AddPeer (exInfo 1 9));                  (* no Alphabet *)
    (mkNC [exK 2] true 10, UpdateState 3 (exK 2));                 (* both lists *)
    (mkNC [exK 4] true 11, UpdateState 1 (exK 4));                 (* unknown *)
    (mkNC [] true 12, UpdateStateIR 4 (exK 1));                    (* unknown state *)
    (mkNC [] true 13, DeleteNode (exK 3));
    (mkNC [] true 14, DeleteNode (exK 3)) ].
Example C07_nonvacuous :
  let s := nrun_from exAll exAcc (ninit []) ex_hist in
  map nst (r_netmap_candidates s) = [1; 3] /\
  map (fun n => (n2key n, n2st n)) (r_list_candidates s) = [(exK 2, 3)] /\
  map (fun co => snd (fst (nstep exAll exAcc (nrun_from exAll exAcc (ninit []) (take 6 ex_hist)) co)))
      [(mkNC [exK 4] true 11, UpdateState 1 (exK 4)); (mkNC [exK 1] true 11, UpdateState 3 (exK 1))]
  = [false; true].
Proof. vm_compute. auto. Qed.
