(** Props/C09.v — Balance locks: funds return to the owner exactly once, at
    expiry, unless burnt.  Model: Model/Balance.v; lemmas: Proofs/BalanceLock.v. *)
From Verif Require Import Base.Prelude Model.Balance Proofs.BalanceSum Proofs.Balance Proofs.BalanceLock
  Proofs.BalanceLife.
Local Open Scope Z_scope.

(** [lock] moves exactly [a] onto a fresh lock account that remembers its
    expiry and its owner; nothing else changes; only the Alphabet can do it. *)
Theorem C09_lock_creates : forall c s d f t a u s' r ns,
  bexec c s (Lock d f t a u) = Halt (s', r, ns) ->
  accts s !! t = None -> f <> t ->
  alpha c = true /\ 0 <= a /\ a <= balance_of s f /\ hash_len f = true /\ hash_len t = true /\
  accts s' !! t = Some (mkAcc a u f) /\
  balance_of s' f = balance_of s f - a /\
  (forall k, k <> f -> k <> t -> accts s' !! k = accts s !! k) /\
  supply s' = supply s.
Proof. exact lock_creates. Qed.
Print Assumptions C09_lock_creates.

(** A tick never debits, removes or re-labels an account that is not due
    (in particular a lock whose expiry is still ahead): ticks with smaller
    epochs change nothing about it, whatever else is in the ledger. *)
Theorem C09_early_tick_inert : forall c s e s' r ns k,
  bexec c s (NewEpoch e) = Halt (s', r, ns) -> due e (accts s) k = false ->
  until (get_acc (accts s') k) = until (get_acc (accts s) k) /\
  parent (get_acc (accts s') k) = parent (get_acc (accts s) k) /\
  balance_of s k <= balance_of s' k.
Proof.
  intros c s e s' r ns k H Hk. simpl in H.
  destruct (oassert (alpha c)); simpl in H; [|discriminate].
  destruct (new_epoch c (accts s) e) as [[m ns0]|] eqn:En; simpl in H; [|discriminate].
  injection H as <- <- <-. simpl. exact (new_epoch_keep _ _ _ _ _ k En Hk).
Qed.
Print Assumptions C09_early_tick_inert.

(** A successful tick releases *every* due lock present in the pre-state —
    all locks expiring at one tick — each in full to its parent, removes the
    lock accounts, and changes nothing else.  Premise [nochain]: no due
    lock has a due lock as its parent (locks are made from ordinary
    accounts). The loop mutates the prefix it iterates; the proof is by
    induction over the snapshot with the invariant "visited due accounts are
    gone, unvisited ones are untouched". *)
Theorem C09_tick_releases_all : forall c s e s' r ns,
  bexec c s (NewEpoch e) = Halt (s', r, ns) -> nochain e (accts s) ->
  alpha c = true /\ supply s' = supply s /\
  (forall k, due e (accts s) k = true -> accts s' !! k = None) /\
  (forall k, due e (accts s) k = false ->
     get_acc (accts s') k =
       mkAcc (balance_of s k + paid e (accts s) (skeys (accts s)) k)
             (until (get_acc (accts s) k)) (parent (get_acc (accts s) k))).
Proof.
  intros c s e s' r ns H Hnc. simpl in H.
  destruct (alpha c) eqn:Ea; simpl in H; [|discriminate].
  destruct (new_epoch c (accts s) e) as [[m ns0]|] eqn:En; simpl in H; [|discriminate].
  injection H as <- <- <-. simpl.
  destruct (new_epoch_release _ _ _ _ _ En Hnc) as [R1 R2]. auto.
Qed.
Print Assumptions C09_tick_releases_all.

(** Exactly once: a released (or fully burnt) lock account is absent, an
    absent account is never due, so no later tick moves anything out of it. *)
Theorem C09_unlock_once : forall c s e s' r ns l,
  bexec c s (NewEpoch e) = Halt (s', r, ns) -> accts s !! l = None ->
  balance_of s l = 0 /\ 0 <= balance_of s' l /\ until (get_acc (accts s') l) = 0.
Proof.
  intros c s e s' r ns l H Hl.
  assert (Hd : due e (accts s) l = false).
  { destruct (due e (accts s) l) eqn:E; [|reflexivity]. apply due_present in E. rewrite Hl in E. destruct E; discriminate. }
  destruct (C09_early_tick_inert _ _ _ _ _ _ l H Hd) as (H1 & _ & H3).
  unfold balance_of in *. rewrite (get_acc_none _ _ Hl) in *. simpl in *. auto.
Qed.
Print Assumptions C09_unlock_once.

(** Partial burns reduce what will be returned; a full burn deletes the lock. *)
Theorem C09_burn : forall c s l x d s' r ns acc,
  bexec c s (Burn l x d) = Halt (s', r, ns) -> hash_len l = true ->
  accts s !! l = Some acc ->
  alpha c = true /\ 0 <= x <= bal acc /\
  accts s' !! l = (if bal acc =? x then None else Some (mkAcc (bal acc - x) (until acc) (parent acc))) /\
  (forall k, k <> l -> accts s' !! k = accts s !! k) /\
  supply s' = supply s - x.
Proof. exact burn_lock. Qed.
Print Assumptions C09_burn.

(** Operations that do not name the lock account leave it exactly as it is. *)
Theorem C09_frame : forall c s o s' r ns l,
  bexec c s o = Halt (s', r, ns) -> hash_len l = true -> names l o = false ->
  accts s' !! l = accts s !! l.
Proof. exact bexec_frame. Qed.
Print Assumptions C09_frame.

(** *** The whole lifecycle, over histories.

    [norefund l m]: no lock account refunds to [l] — true of a fresh address
    (it holds in the empty ledger, is kept by every operation that does not
    name [l], and by the [Lock] that creates [l]). *)
Theorem C09_norefund_reachable : forall l,
  norefund l (accts binit) /\
  (forall s co, after_ok l co = true -> norefund l (accts s) -> norefund l (accts (fst (fst (bstep s co))))) /\
  (forall c s d f a u, f <> l -> norefund l (accts s) ->
     norefund l (accts (fst (fst (bstep s (c, Lock d f l a u)))))).
Proof.
  intros l. split; [apply norefund_empty|]. split.
  - intros s co H HQ. apply norefund_step; auto.
  - intros. apply lock_norefund; auto.
Qed.
Print Assumptions C09_norefund_reachable.

(** Before expiry: after ANY history of ticks with epochs below [u], burns
    (from [l] or elsewhere) and operations that do not name [l], by anybody,
    the lock account holds exactly what was locked minus what was burnt from
    it, expiry and owner intact — or a burn of everything deleted it. *)
Theorem C09_lifecycle_before : forall l u f b ops s,
  hash_len l = true -> norefund l (accts s) ->
  accts s !! l = Some (mkAcc b u f) -> forallb (before_ok l u) ops = true ->
  norefund l (accts (bruns s ops)) /\
  (accts (bruns s ops) !! l = Some (mkAcc (b - burned l s ops) u f) \/
   (accts (bruns s ops) !! l = None /\ burned l s ops = b)).
Proof. exact life_before. Qed.
Print Assumptions C09_lifecycle_before.

(** At the first tick with [e >= u]: the lock account disappears and, when it
    is the only due lock of [f], [f] receives exactly the remaining balance
    (in general: the sum over all its due locks, [C09_tick_releases_all]). *)
Theorem C09_release_exact : forall c s e s' r ns l b u f,
  bexec c s (NewEpoch e) = Halt (s', r, ns) -> nochain e (accts s) ->
  hash_len l = true -> accts s !! l = Some (mkAcc b u f) -> f <> [] -> u <= e ->
  (forall k, k <> l -> due e (accts s) k = true -> parent (get_acc (accts s) k) <> f) ->
  accts s' !! l = None /\ balance_of s' f = balance_of s f + b /\ supply s' = supply s.
Proof.
  intros c s e s' r ns l b u f H Hnc Hl Hs Hf0 Hue Hone.
  destruct (C09_tick_releases_all _ _ _ _ _ _ H Hnc) as (_ & Hsup & R1 & R2).
  assert (Hd : due e (accts s) l = true).
  { unfold due. rewrite (get_acc_some _ _ _ Hs), Hl. cbn [until].
    assert (Hk : is_lock (mkAcc b u f) = true) by (unfold is_lock; cbn [parent]; destruct f; [congruence|reflexivity]).
    rewrite Hk. replace (e >=? u) with true by lia. reflexivity. }
  split; [apply R1; exact Hd|]. split; [|exact Hsup].
  assert (Hf : due e (accts s) f = false).
  { pose proof (Hnc l Hd) as Hp. rewrite (get_acc_some _ _ _ Hs) in Hp. exact Hp. }
  unfold balance_of. rewrite (R2 f Hf). cbn [bal]. f_equal.
  rewrite (paid_only e (accts s) (skeys (accts s)) f l).
  - rewrite (get_acc_some _ _ _ Hs). reflexivity.
  - apply NoDup_skeys.
  - apply elem_of_skeys. eauto.
  - exact Hd.
  - rewrite (get_acc_some _ _ _ Hs). reflexivity.
  - intros k _ Hk. apply Hone. exact Hk.
Qed.
Print Assumptions C09_release_exact.

(** Afterwards: whatever ticks, burns and foreign operations follow, the
    released (or burnt-out) lock account stays absent: nothing is ever paid
    out of it again. *)
Theorem C09_lifecycle_after : forall l ops s,
  hash_len l = true -> norefund l (accts s) -> accts s !! l = None ->
  forallb (after_ok l) ops = true ->
  norefund l (accts (bruns s ops)) /\ accts (bruns s ops) !! l = None.
Proof. exact life_after. Qed.
Print Assumptions C09_lifecycle_after.

(** Non-vacuity and a worked lifecycle: two locks expiring at the same tick,
    one partially burnt; an early tick changes nothing; the due tick returns
    exactly the remainders and removes both accounts; a later tick is inert. *)
Definition exA : bytes := repeat 1%N 20.
Definition exB : bytes := repeat 2%N 20.
Definition exL1 : bytes := repeat 3%N 20.
Definition exL2 : bytes := repeat 4%N 20.
Definition al := mkCtx [] true.
Definition pre := brun [ (al, Mint exA 1000 []); (al, Mint exB 500 []);
                         (al, Lock [1%N] exA exL1 300 5); (al, Lock [2%N] exB exL2 200 5);
                         (al, Burn exL1 100 []) ].
Example C09_lifecycle_example :
  nochain 5 (accts pre) /\ due 5 (accts pre) exL1 = true /\ due 4 (accts pre) exL1 = false /\
  map (fun e => let s' := fst (fst (bstep pre (al, NewEpoch e))) in
                (map (balance_of s') [exA; exB; exL1; exL2], size (accts s')))
      [4; 5]
  = [ ([700; 300; 200; 200], 4%nat); ([900; 500; 0; 0], 2%nat) ] /\
  (let s5 := fst (fst (bstep pre (al, NewEpoch 5))) in
   fst (fst (bstep s5 (al, NewEpoch 6))) = s5) /\
  (* the premises of the history theorems are met by this history *)
  (let s3 := brun [ (al, Mint exA 1000 []); (al, Mint exB 500 []); (al, Lock [1%N] exA exL1 300 5) ] in
   let hist := [ (al, Lock [2%N] exB exL2 200 5); (al, NewEpoch 3); (al, Burn exL1 100 []);
                 (mkCtx [exB] false, Transfer exB exA 50); (al, NewEpoch 4) ] in
   accts s3 !! exL1 = Some (mkAcc 300 5 exA) /\ forallb (before_ok exL1 5) hist = true /\
   burned exL1 s3 hist = 100 /\ accts (bruns s3 hist) !! exL1 = Some (mkAcc 200 5 exA)).
Proof.
  split; [apply nochainb_sound; vm_compute; reflexivity|].
  vm_compute. repeat split; reflexivity.
Qed.

(** [until = 0] (and any other expiry in the past) is an ordinary expired
    lock since fix commit "balance: release locks whose expiration epoch is
    zero" (a lock account is recognised by its parent, not by [Until <> 0]):
    it is released by the very next tick, like [until = -1] and [until = 1]. *)
Example C09_until_zero_released :
  let s := brun [ (al, Mint exA 1000 []); (al, Lock [1%N] exA exL1 100 0);
                  (al, Lock [2%N] exA exL2 50 (-1)) ] in
  accts s !! exL1 = Some (mkAcc 100 0 exA) /\
  (let s1 := fst (fst (bstep s (al, NewEpoch 1))) in
   accts s1 !! exL1 = None /\ accts s1 !! exL2 = None /\ balance_of s1 exA = 1000).
Proof. vm_compute. repeat split; reflexivity. Qed.
