(** Props/C09.v — Balance locks: funds return to the owner exactly once, at
    expiry, unless burnt.  Model: Model/Balance.v; lemmas: Proofs/BalanceLock.v. *)
From Verif Require Import Base.Prelude Model.Balance Proofs.BalanceSum Proofs.Balance Proofs.BalanceLock.
Local Open Scope Z_scope.

(** [lock] moves exactly [a] onto a fresh lock account that remembers its
    expiry and its owner; nothing else changes; only the Alphabet can do it. *)
Theorem C09_lock_creates : forall c s d f t a u s' r ns,
  bexec c s (Lock d f t a u) = Halt (s', r, ns) ->
  accts s !! t = None -> f <> t ->
  alpha c = true /\ 0 <= a /\ a <= balance_of s f /\ hash_len f = true /\ hash_len t = true /\
  accts s' !! t = Some (mkAcc a u f) /\
  balance_of s' f = balance_of s f - a /\
  (forall k, k <> f -> k <> t -> accts s' !! k = accts s !! k) /\
  supply s' = supply s.
Proof. exact lock_creates. Qed.
Print Assumptions C09_lock_creates.

(** A tick never debits, removes or re-labels an account that is not due
    (in particular a lock whose expiry is still ahead): ticks with smaller
    epochs change nothing about it, whatever else is in the ledger. *)
Theorem C09_early_tick_inert : forall c s e s' r ns k,
  bexec c s (NewEpoch e) = Halt (s', r, ns) -> due e (accts s) k = false ->
  until (get_acc (accts s') k) = until (get_acc (accts s) k) /\
  parent (get_acc (accts s') k) = parent (get_acc (accts s) k) /\
  balance_of s k <= balance_of s' k.
Proof.
  intros c s e s' r ns k H Hk. simpl in H.
  destruct (oassert (alpha c)); simpl in H; [|discriminate].
  destruct (new_epoch c (accts s) e) as [[m ns0]|] eqn:En; simpl in H; [|discriminate].
  injection H as <- <- <-. simpl. exact (new_epoch_keep _ _ _ _ _ k En Hk).
Qed.
Print Assumptions C09_early_tick_inert.

(** A successful tick releases *every* due lock present in the pre-state —
    all locks expiring at one tick — each in full to its parent, removes the
    lock accounts, and changes nothing else.  Premise [nochain]: no due
    lock has a due lock as its parent (locks are made from ordinary
    accounts). The loop mutates the prefix it iterates; the proof is by
    induction over the snapshot with the invariant "visited due accounts are
    gone, unvisited ones are untouched". *)
Theorem C09_tick_releases_all : forall c s e s' r ns,
  bexec c s (NewEpoch e) = Halt (s', r, ns) -> nochain e (accts s) ->
  alpha c = true /\ supply s' = supply s /\
  (forall k, due e (accts s) k = true -> accts s' !! k = None) /\
  (forall k, due e (accts s) k = false ->
     get_acc (accts s') k =
       mkAcc (balance_of s k + paid e (accts s) (skeys (accts s)) k)
             (until (get_acc (accts s) k)) (parent (get_acc (accts s) k))).
Proof.
  intros c s e s' r ns H Hnc. simpl in H.
  destruct (alpha c) eqn:Ea; simpl in H; [|discriminate].
  destruct (new_epoch c (accts s) e) as [[m ns0]|] eqn:En; simpl in H; [|discriminate].
  injection H as <- <- <-. simpl.
  destruct (new_epoch_release _ _ _ _ _ En Hnc) as [R1 R2]. auto.
Qed.
Print Assumptions C09_tick_releases_all.

(** Exactly once: a released (or fully burnt) lock account is absent, an
    absent account is never due, so no later tick moves anything out of it. *)
Theorem C09_unlock_once : forall c s e s' r ns l,
  bexec c s (NewEpoch e) = Halt (s', r, ns) -> accts s !! l = None ->
  balance_of s l = 0 /\ 0 <= balance_of s' l /\ until (get_acc (accts s') l) = 0.
Proof.
  intros c s e s' r ns l H Hl.
  assert (Hd : due e (accts s) l = false).
  { destruct (due e (accts s) l) eqn:E; [|reflexivity]. apply due_present in E. rewrite Hl in E. destruct E; discriminate. }
  destruct (C09_early_tick_inert _ _ _ _ _ _ l H Hd) as (H1 & _ & H3).
  unfold balance_of in *. rewrite (get_acc_none _ _ Hl) in *. simpl in *. auto.
Qed.
Print Assumptions C09_unlock_once.

(** Partial burns reduce what will be returned; a full burn deletes the lock. *)
Theorem C09_burn : forall c s l x d s' r ns acc,
  bexec c s (Burn l x d) = Halt (s', r, ns) -> hash_len l = true ->
  accts s !! l = Some acc ->
  alpha c = true /\ 0 <= x <= bal acc /\
  accts s' !! l = (if bal acc =? x then None else Some (mkAcc (bal acc - x) (until acc) (parent acc))) /\
  (forall k, k <> l -> accts s' !! k = accts s !! k) /\
  supply s' = supply s - x.
Proof. exact burn_lock. Qed.
Print Assumptions C09_burn.

(** Operations that do not name the lock account leave it exactly as it is. *)
Theorem C09_frame : forall c s o s' r ns l,
  bexec c s o = Halt (s', r, ns) -> hash_len l = true -> names l o = false ->
  accts s' !! l = accts s !! l.
Proof. exact bexec_frame. Qed.
Print Assumptions C09_frame.

(** Non-vacuity and a worked lifecycle: two locks expiring at the same tick,
    one partially burnt; an early tick changes nothing; the due tick returns
    exactly the remainders and removes both accounts; a later tick is inert. *)
Definition exA : bytes := repeat 1%N 20.
Definition exB : bytes := repeat 2%N 20.
Definition exL1 : bytes := repeat 3%N 20.
Definition exL2 : bytes := repeat 4%N 20.
Definition al := mkCtx [] true.
Definition pre := brun [ (al, Mint exA 1000 []); (al, Mint exB 500 []);
                         (al, Lock [1%N] exA exL1 300 5); (al, Lock [2%N] exB exL2 200 5);
                         (al, Burn exL1 100 []) ].
Example C09_lifecycle_example :
  nochain 5 (accts pre) /\ due 5 (accts pre) exL1 = true /\ due 4 (accts pre) exL1 = false /\
  map (fun e => let s' := fst (fst (bstep pre (al, NewEpoch e))) in
                (map (balance_of s') [exA; exB; exL1; exL2], size (accts s')))
      [4; 5]
  = [ ([700; 300; 200; 200], 4%nat); ([900; 500; 0; 0], 2%nat) ] /\
  (let s5 := fst (fst (bstep pre (al, NewEpoch 5))) in
   fst (fst (bstep s5 (al, NewEpoch 6))) = s5).
Proof.
  split; [apply nochainb_sound; vm_compute; reflexivity|].
  vm_compute. auto.
Qed.

(** The finding F9 (recorded in KNOWN_FINDINGS.txt as C09/until-zero): a lock
    with [until = 0] is never released, although "until in the past" is
    within the quantifier. [Until = 0] doubles as the "not a lock" marker. *)
Example C09_until_zero_refuted :
  exists s l, accts s !! l = Some (mkAcc 100 0 exA) /\
    forall c e s' r ns, bexec c s (NewEpoch e) = Halt (s', r, ns) ->
      100 <= balance_of s' l /\ until (get_acc (accts s') l) = 0 /\ parent (get_acc (accts s') l) = exA.
Proof.
  exists (brun [ (al, Mint exA 1000 []); (al, Lock [1%N] exA exL1 100 0) ]), exL1.
  set (s := brun _).
  assert (Hl : accts s !! exL1 = Some (mkAcc 100 0 exA)) by (vm_compute; reflexivity).
  split; [exact Hl|].
  intros c e s' r ns H.
  assert (Hd : due e (accts s) exL1 = false).
  { unfold due. rewrite (get_acc_some _ _ _ Hl). cbn [until]. replace (0 =? 0) with true by reflexivity. cbn [negb]. rewrite andb_false_r. reflexivity. }
  destruct (C09_early_tick_inert _ _ _ _ _ _ exL1 H Hd) as (H1 & H2 & H3).
  unfold balance_of in H3 |- *. rewrite (get_acc_some _ _ _ Hl) in H1, H2, H3.
  cbn [bal until parent] in H1, H2, H3. auto.
Qed.
