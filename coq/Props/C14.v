(** Props/C14.v — Placement roster is what was committed; signatures need
    REP distinct members.  Only statements, each closed by a short proof and
    followed by [Print Assumptions].

    Model: Model/Placement.v (tied to contracts/container/contract.go by the
    correspondence check of ./check C14).  Cryptography ([sigvalid],
    [pubvalid]), deserialisation ([deser]) and the notification size limit
    ([notify_fits]) are universally quantified: the theorems hold for every
    such relation (malleable signatures, foreign keys, other messages
    included). *)
From Verif Require Import Base.Prelude Base.IntCodec Model.Placement
  Proofs.PlacementVerify Proofs.PlacementCodec Proofs.PlacementStore
  Proofs.PlacementRoster Proofs.PlacementRefine.
Local Open Scope Z_scope.

(** * The counter codec

    Byte order of the encoded counters ([storage.Find] order) = numeric order,
    and decoding inverts encoding, on [0, 65535] — not only on the 2-byte
    range [0, 32767] the source comment speaks of: from 32768 to 65535 the
    encoding has a third byte 0 and still sorts correctly. *)
Theorem C14_counter_order : forall a b, 0 <= a -> a < b -> b <= 65535 ->
  bytes_lt (ctb a) (ctb b) /\ cfb (ctb a) = Halt a /\ cfb (ctb b) = Halt b.
Proof.
  intros a b Ha Hab Hb. split; [by apply ctb_lt|]. split; apply cfb_ctb; lia.
Qed.
Print Assumptions C14_counter_order.

(** The range is sharp: 65536 encodes as [0;0;1], which sorts BEFORE the
    encoding [0;1] of the first key. *)
Theorem C14_counter_order_sharp : bytes_lt (ctb 65536) (ctb 1).
Proof. exact (proj1 ctb_order_breaks). Qed.
Print Assumptions C14_counter_order_sharp.

(** * The roster

    [arun ops] is the list specification (Model/Placement.v, [astep]).  The
    two lemmas below spell it out: an accepted add appends its batch to the
    pending list of its vector and changes nothing else; an accepted commit
    makes the pending lists of the container the committed ones, empties
    them and records the REP numbers, and changes nothing else.  (Every
    other operation, and every refused add/commit, leaves the specification
    state as it is: [astep] returns [a].) *)
Theorem C14_spec_add : forall a alpha cid vec keys,
  add_ok a alpha cid vec keys = true ->
  let a' := astep a (OAdd alpha cid vec keys) in
  pend a' cid (vec_byte vec) = pend a cid (vec_byte vec) ++ keys /\
  (forall c v, (c <> cid \/ v <> vec_byte vec) -> pend a' c v = pend a c v) /\
  comm a' = comm a /\ areps a' = areps a.
Proof.
  intros a alpha cid vec keys Hok. cbn [astep]. rewrite Hok. cbn [pend comm areps].
  split; [by rewrite upd2_same, N.eqb_refl|]. split; [|auto].
  intros c v [Hc|Hv]; [by apply upd2_other|].
  unfold upd2. rewrite (proj2 (N.eqb_neq v _) Hv). by rewrite andb_false_r.
Qed.
Print Assumptions C14_spec_add.

Theorem C14_spec_commit : forall a alpha cid reps,
  commit_ok alpha cid reps = true ->
  let a' := astep a (OCommit alpha cid reps) in
  (forall v, comm a' cid v = pend a cid v) /\ (forall v, pend a' cid v = []) /\
  areps a' cid = default [] reps /\
  (forall c, c <> cid -> pend a' c = pend a c /\ comm a' c = comm a c /\ areps a' c = areps a c).
Proof.
  intros a alpha cid reps Hok. cbn [astep]. rewrite Hok. cbn [pend comm areps].
  rewrite !upd_same. split; [auto|]. split; [auto|]. split; [auto|].
  intros c Hc. by rewrite !upd_other.
Qed.
Print Assumptions C14_spec_commit.

(** After ANY history — arbitrary interleaving of adds, commits (accepted or
    refused, any signer, any container id, any vector index, any key
    lengths), reads, verifications, submissions and writes of the other
    contract methods outside the roster prefixes of [cid] — and as long as no
    pending vector of [cid] exceeds 65535 keys:
    - [nodes cid vec] returns exactly, in submission order, the keys of the
      last commit;
    - [replicasNumbers cid] returns exactly the REP numbers of the last
      commit;
    - the pending roster in storage is exactly the batches since then. *)
Theorem C14_roster :
  forall sigvalid pubvalid deser notify_fits network cid ops,
  length cid = 32%nat -> frame_ok cid ops = true -> range_ok cid ops = true ->
  let s := prun sigvalid pubvalid deser notify_fits network ops in
  (forall vec, -128 <= vec <= 255 ->
     nodes s cid vec = Halt (comm (arun ops) cid (vec_byte vec))) /\
  replicas_numbers s cid = Halt (map int_to_bytes (areps (arun ops) cid)) /\
  (forall v, map snd (sfind (pU :: cid ++ [v]) s) = pend (arun ops) cid v).
Proof.
  intros sv pv ds nf net cid ops Hc Hf Hr. split; [|split].
  - intros vec Hv. by apply roster_nodes.
  - by apply roster_reps.
  - intros v. by apply roster_pending.
Qed.
Print Assumptions C14_roster.

(** A commit empties the pending roster (nothing is left under 'u'+cid). *)
Theorem C14_commit_empties_pending :
  forall sigvalid pubvalid deser notify_fits network cid ops alpha reps,
  length cid = 32%nat -> frame_ok cid ops = true -> range_ok cid ops = true ->
  commit_ok alpha cid reps = true ->
  sfind (pU :: cid)
    (prun sigvalid pubvalid deser notify_fits network (ops ++ [OCommit alpha cid reps])) = [].
Proof. intros sv pv ds nf net cid ops alpha reps Hc Hf Hr Hok.
  exact (commit_empties_pending sv pv ds nf net cid ops alpha reps Hc Hf Hr Hok). Qed.
Print Assumptions C14_commit_empties_pending.

(** Which adds and commits are accepted: exactly those the specification
    accepts ([add_ok]: Alphabet witness, 32-byte id, vector index in
    [-127, 254], previous vector already has pending nodes — contiguity —,
    every key 33 bytes long; [commit_ok]: Alphabet witness, 32-byte id, at
    most 256 REP numbers, each a VM integer <= 255). *)
Theorem C14_accepts :
  forall sigvalid pubvalid deser notify_fits network cid ops o,
  length cid = 32%nat -> frame_ok cid ops = true -> range_ok cid (ops ++ [o]) = true ->
  about cid o = true ->
  step_result (arun ops) o
    (snd (fst (pstep sigvalid pubvalid deser notify_fits network
                 (prun sigvalid pubvalid deser notify_fits network ops) o))).
Proof. intros sv pv ds nf net cid ops o Hc Hf Hr Hab.
  exact (roster_answer sv pv ds nf net cid ops o Hc Hf Hr Hab). Qed.
Print Assumptions C14_accepts.

(** In particular a non-contiguous vector index is refused. *)
Theorem C14_noncontiguous_refused :
  forall sigvalid pubvalid deser notify_fits network cid ops alpha vec keys,
  length cid = 32%nat -> frame_ok cid ops = true -> range_ok cid ops = true ->
  vec <> 0 -> pend (arun ops) cid (vec_byte (vec - 1)) = [] ->
  snd (fst (pstep sigvalid pubvalid deser notify_fits network
              (prun sigvalid pubvalid deser notify_fits network ops)
              (OAdd alpha cid vec keys))) = VFault.
Proof.
  intros sv pv ds nf net cid ops alpha vec keys Hc Hf Hr Hv Hp.
  assert (Hok : add_ok (arun ops) alpha cid vec keys = false).
  { unfold add_ok. rewrite Hp, (proj2 (Z.eqb_neq vec 0) Hv). rewrite bool_decide_eq_true_2 by reflexivity.
    simpl. by rewrite !andb_false_r. }
  pose proof (roster_answer sv pv ds nf net cid ops (OAdd alpha cid vec keys) Hc Hf) as H.
  cbn [step_result about] in H. rewrite Hok, bytes_eqb_refl in H. apply H; [|reflexivity].
  unfold range_ok. rewrite range_ok_from_app. fold (range_ok cid ops). rewrite Hr.
  cbn [range_ok_op]. fold (arun ops). rewrite Hok. by rewrite orb_true_r.
Qed.
Print Assumptions C14_noncontiguous_refused.

(** * Signature verification: soundness

    For EVERY storage state, container id, message, matrix and relation
    [sigvalid]: if verifyPlacementSignatures answers true then [sigs] has a
    vector for every REP number, and for every REP vector [i] there are
    REP_i pairwise DISTINCT members of vector [i] ([nodes cid i]), each with
    a valid signature of [msg] among [sigs[i]].  Non-members, other messages,
    repeated or malleated signatures of one member cannot make up the number:
    they are not [REP_i] distinct members with a valid signature. *)
Theorem C14_verify_sound : forall sigvalid pubvalid s cid msg sigs,
  verify sigvalid pubvalid s cid msg sigs = Halt true ->
  exists reps,
    replicas_numbers s cid = Halt reps /\
    (length reps <= length sigs)%nat /\
    forall i rb, reps !! i = Some rb ->
      exists si pubs,
        sigs !! i = Some si /\ nodes s cid (Z.of_nat i) = Halt pubs /\
        (length rb <= 32)%nat /\
        exists ks : list bytes,
          NoDup ks /\ Z.of_nat (length ks) = bytes_to_int rb /\
          forall k, k ∈ ks ->
            k ∈ pubs /\ exists sg, sg ∈ si /\ sigvalid msg k sg = true.
Proof. exact verify_sound. Qed.
Print Assumptions C14_verify_sound.

(** The same on reachable states, in terms of what was committed: the REP
    numbers and the members are those fixed by the last commit. *)
Theorem C14_verify_sound_committed :
  forall sigvalid pubvalid deser notify_fits network cid ops msg sigs,
  length cid = 32%nat -> frame_ok cid ops = true -> range_ok cid ops = true ->
  verify sigvalid pubvalid (prun sigvalid pubvalid deser notify_fits network ops) cid msg sigs
    = Halt true ->
  (length (areps (arun ops) cid) <= length sigs)%nat /\
  forall (i : nat) (r : Z), areps (arun ops) cid !! i = Some r ->
    exists si, sigs !! i = Some si /\
      exists ks : list bytes,
        NoDup ks /\ Z.of_nat (length ks) = r /\
        forall k, k ∈ ks ->
          k ∈ comm (arun ops) cid (N.of_nat i) /\ exists sg, sg ∈ si /\ sigvalid msg k sg = true.
Proof. exact verify_sound_history. Qed.
Print Assumptions C14_verify_sound_committed.

(** * Signature verification: completeness (what the greedy loop accepts)

    For every REP vector [i] with number [m >= 1] whose member keys all
    decode, and whose signatures are unambiguous (no signature of [sigs[i]]
    valid for two different members of the vector): if [m] distinct members
    have a valid signature somewhere in [sigs[i]] — in ANY order, with any
    number of invalid, foreign, repeated, malleated or wrong-message
    signatures interleaved — the answer is true.  Extra vectors in [sigs]
    are ignored. *)
Theorem C14_verify_complete : forall sigvalid pubvalid s cid msg sigs reps,
  replicas_numbers s cid = Halt reps ->
  (forall i rb, reps !! i = Some rb ->
     exists si pubs,
       sigs !! i = Some si /\ nodes s cid (Z.of_nat i) = Halt pubs /\
       (length rb <= 32)%nat /\ 1 <= bytes_to_int rb /\
       (forall p, p ∈ pubs -> pubvalid p = true) /\
       unambiguous sigvalid msg pubs si /\
       vector_ok sigvalid msg pubs si (bytes_to_int rb)) ->
  verify sigvalid pubvalid s cid msg sigs = Halt true.
Proof. exact verify_complete. Qed.
Print Assumptions C14_verify_complete.

(** * SubmitObjectPut

    If it halts: the raw meta deserialises to a map whose "cid"/"oid" are
    32 bytes, the container is flagged meta-on-chain, "network" equals the
    chain's magic, "validuntil" is greater than the current block index,
    verifyPlacementSignatures(cid, RAW META, sigs) answered true — hence
    (C14_verify_sound) every REP vector of [cid] has REP distinct signers of
    the raw meta — and exactly one ObjectPut(cid, oid) is emitted. *)
Theorem C14_submit :
  forall sigvalid pubvalid deser notify_fits network s raw sigs cur ns,
  submit sigvalid pubvalid deser notify_fits network s raw sigs cur = Halt ns ->
  exists (m : list (bytes * val)) (cid oid : bytes),
    deser raw = Some m /\
    (exists v, mget m k_cid = Halt v /\ conv_hash256 v = Halt cid) /\
    (exists v, mget m k_oid = Halt v /\ conv_hash256 v = Halt oid) /\
    length cid = 32%nat /\ length oid = 32%nat /\
    is_Some (s !! (pM :: cid)) /\
    (exists v, mget m k_network = Halt v /\ conv_int v = Halt (Some network)) /\
    (exists v z, mget m k_validuntil = Halt v /\ conv_int v = Halt (Some z) /\ cur < z) /\
    verify sigvalid pubvalid s cid raw sigs = Halt true /\
    ns = [NObjectPut cid oid].
Proof. exact submit_halt. Qed.
Print Assumptions C14_submit.

(** * Non-vacuity and sharpness of the hypotheses (concrete, by computation) *)

Definition ex_cid : bytes := repeat 7%N 32.
Definition ex_cid2 : bytes := repeat 8%N 32.
Definition K (n : N) : bytes := repeat n 33.
(** A toy verification relation: a "signature" is valid for the key it is
    equal to. *)
Definition ex_sv (m k s : bytes) : bool := bytes_eqb k s.
Definition ex_run := prun ex_sv (fun _ => true) (fun _ => None) (fun _ => true) 42.

(** A history with two batches for vector 0, a refused non-contiguous add, a
    stranger's add, a second container interleaved, a write of another
    method, a commit, adds after the commit and a re-commit. *)
Definition ex_hist : list pop :=
  [ OAdd true ex_cid 0 [K 1; K 2];
    OAdd true ex_cid 2 [K 9];                    (* vector 1 has nothing pending: refused *)
    OAdd false ex_cid 0 [K 9];                   (* not the Alphabet: refused *)
    OAdd true ex_cid2 0 [K 5];
    OAdd true ex_cid 0 [K 3; K 4];
    OAdd true ex_cid 1 [K 4; K 6];
    OOther [(pM :: ex_cid, Some [])];
    OCommit true ex_cid (Some [3; 1]);
    OAdd true ex_cid 0 [K 7] ].

Example C14_roster_nonvacuous :
  frame_ok ex_cid ex_hist = true /\ range_ok ex_cid ex_hist = true /\
  nodes (ex_run ex_hist) ex_cid 0 = Halt [K 1; K 2; K 3; K 4] /\
  nodes (ex_run ex_hist) ex_cid 1 = Halt [K 4; K 6] /\
  replicas_numbers (ex_run ex_hist) ex_cid = Halt [[3%N]; [1%N]] /\
  map snd (sfind (pU :: ex_cid) (ex_run ex_hist)) = [K 7] /\
  nodes (ex_run (ex_hist ++ [OCommit true ex_cid None])) ex_cid 0 = Halt [K 7] /\
  nodes (ex_run (ex_hist ++ [OCommit true ex_cid None])) ex_cid 1 = Halt [] /\
  nodes (ex_run ex_hist) ex_cid2 0 = Halt [].
Proof. vm_compute. repeat split; reflexivity. Qed.

(** Honest matrices are accepted in any order and with junk interleaved; the
    F6 witnesses (one member's signature three times; one member plus
    repetitions; two members and a foreign signature) are refused. *)
Example C14_verify_nonvacuous :
  let s := ex_run ex_hist in
  let v := fun sigs => verify ex_sv (fun _ => true) s ex_cid [] sigs in
  v [[K 1; K 2; K 3]; [K 6]] = Halt true /\
  v [[K 4; K 9; K 2; K 2; K 1]; [K 9; K 4]] = Halt true /\
  v [[K 1; K 1; K 1]; [K 6]] = Halt false /\
  v [[K 1; K 1; K 2; K 1]; [K 6]] = Halt false /\
  v [[K 1; K 2; K 9]; [K 6]] = Halt false /\
  v [[K 1; K 2; K 3]] = Halt false /\
  v [[K 1; K 2; K 3]; [K 6]; [K 9]] = Halt true.
Proof. vm_compute. repeat split; reflexivity. Qed.

(** The hypotheses of completeness are needed.
    (a) REP number 0 (accepted by the commit): the matrix with an empty
    vector trivially has "0 distinct signers", yet the answer is false; with
    one junk signature it is true. *)
Example C14_verify_complete_rep0_refuted :
  let s := ex_run [OAdd true ex_cid 0 [K 1]; OCommit true ex_cid (Some [0])] in
  vector_ok ex_sv [] [K 1] [] 0 /\
  verify ex_sv (fun _ => true) s ex_cid [] [[]] = Halt false /\
  verify ex_sv (fun _ => true) s ex_cid [] [[K 9]] = Halt true /\
  verify ex_sv (fun _ => true) s ex_cid [] [[K 1]] = Halt false.
Proof.
  split; [|vm_compute; repeat split; reflexivity].
  exists []. split; [constructor|]. split; [reflexivity|]. intros k Hk. inversion Hk.
Qed.

(** (b) Ambiguity: with a relation in which one signature is valid for two
    members the greedy loop can miss an existing assignment. *)
Definition amb_sv (m k s : bytes) : bool :=
  (bytes_eqb s (K 100) && (bytes_eqb k (K 1) || bytes_eqb k (K 2)))
  || (bytes_eqb s (K 101) && bytes_eqb k (K 1)).
Example C14_verify_complete_ambiguous_refuted :
  let s := ex_run [OAdd true ex_cid 0 [K 1; K 2]; OCommit true ex_cid (Some [2])] in
  vector_ok amb_sv [] [K 1; K 2] [K 100; K 101] 2 /\
  verify amb_sv (fun _ => true) s ex_cid [] [[K 100; K 101]] = Halt false.
Proof.
  split; [|vm_compute; reflexivity].
  exists [K 1; K 2]. split.
  - apply NoDup_cons. split; [|apply NoDup_singleton]. intros H%elem_of_list_singleton. discriminate.
  - split; [reflexivity|]. intros k Hk.
    apply elem_of_cons in Hk as [->|Hk]; [|apply elem_of_list_singleton in Hk as ->].
    + split; [left|]. exists (K 101). split; [right; left|reflexivity].
    + split; [right; left|]. exists (K 100). split; [left|reflexivity].
Qed.

(** (c) A member key that does not decode makes the call FAULT when the scan
    reaches it (it is not an answer "false"). *)
Example C14_verify_bad_key_faults :
  let s := ex_run [OAdd true ex_cid 0 [K 1; K 2]; OCommit true ex_cid (Some [1])] in
  let pv := fun k => negb (bytes_eqb k (K 1)) in
  verify ex_sv pv s ex_cid [] [[K 2]] = Fault /\
  verify ex_sv (fun _ => true) s ex_cid [] [[K 2]] = Halt true.
Proof. vm_compute. split; reflexivity. Qed.

(** SubmitObjectPut on a concrete meta. *)
Definition ex_oid : bytes := repeat 9%N 32.
Definition ex_raw : bytes := [1%N].
Definition ex_meta : list (bytes * val) :=
  [ (k_network, VInt 42); (k_cid, VBytes ex_cid); (k_oid, VBytes ex_oid); (k_size, VInt 123);
    (k_deleted, VList [VBytes ex_oid]); (k_locked, VList []); (k_validuntil, VInt 100) ].
Definition ex_deser (raw : bytes) := if bytes_eqb raw ex_raw then Some ex_meta else None.
Example C14_submit_nonvacuous :
  let s := ex_run ex_hist in
  let sub := fun sigs cur => submit ex_sv (fun _ => true) ex_deser (fun _ => true) 42 s ex_raw sigs cur in
  sub [[K 1; K 2; K 3]; [K 6]] 99 = Halt [NObjectPut ex_cid ex_oid] /\
  sub [[K 1; K 2; K 3]; [K 6]] 100 = Fault /\        (* validuntil <= current index *)
  sub [[K 1; K 1; K 1]; [K 6]] 99 = Fault.            (* F6 matrix *)
Proof. vm_compute. repeat split; reflexivity. Qed.
