(** Props/C12.v — NNS records and resolution reflect exactly the record
    operations performed.  Model: Model/NNS.v; lemmas: Proofs/NNSRecords.v.

    The specification of the record store is the family of lists
    [spec_recs s tk nk tb]: the data found by *lookups* of the ids 0, 1, 2, ...
    under (token key, name key, type byte) — defined without the iterators
    ([find_by_type], [rec_entries]) the contract reads with.  The theorems say
    that the three readers return these lists and how every mutator changes
    them.  [hash] (RIPEMD-160 of the contract) is abstract; its injectivity
    [hash_inj] is the only premise and is explicit in every closed statement.
    All statements are for every state satisfying [rec_inv], which holds after
    EVERY history ([C12_invariant]: any operations, contexts, faulting calls,
    re-registrations, expiries). *)
From Verif Require Import Base.Prelude Model.NNS Proofs.NNSBase Proofs.NNSRecords.
Local Open Scope Z_scope.

Section C12.
Variable hash : bytes -> bytes.
Variable valid_name : bytes -> bool.
Variable valid_data : Z -> bytes -> bool.
Variable str_ok : bytes -> bool.
Hypothesis hash_inj : forall a b, hash a = hash b -> a = b.

Notation nexec := (nexec hash valid_name valid_data str_ok).
Notation nstep := (nstep hash valid_name valid_data str_ok).
Notation nrun := (nrun hash valid_name valid_data str_ok).
Notation tok_of := (token_id_from_name hash valid_name).
Notation rec_inv := (rec_inv hash).
Notation soa_key := (soa_key hash).
Notation readable := (readable hash valid_name).
Notation rnode := (rnode hash valid_name).
Notation resolve_spec := (resolve_spec hash valid_name).
Notation all_vals := (all_vals hash).

(** ** 1. The invariant of the record store *)
(** What [rec_inv] says: every stored record agrees with its key (name key,
    type, id; only the five record types are ever stored), and under every
    (token, name, type) the ids present are exactly 0 .. k-1 with k <= 16
    (maxRecordID + 1) and k <= 1 for CNAME (5) and SOA (6). *)
Theorem C12_invariant_meaning : forall s,
  rec_inv s <->
  (forall tk nk tb i r, records s !! (tk, nk, tb, i) = Some r ->
     hash (r_name r) = nk /\ r_type r = Z.of_N tb /\ r_id r = Z.of_N i /\
     (tb = 1 \/ tb = 5 \/ tb = 6 \/ tb = 16 \/ tb = 28)%N) /\
  (forall tk nk tb, exists k,
     (forall i, is_Some (records s !! (tk, nk, tb, i)) <-> (i < k)%N) /\ (k <= 16)%N /\
     ((tb = 5 \/ tb = 6)%N -> (k <= 1)%N)).
Proof. intros s. reflexivity. Qed.

(** It holds initially and is preserved by every halting call (a faulting
    call changes nothing): it holds after every history. *)
Theorem C12_invariant_step : forall c s o s' v ns,
  rec_inv s -> nexec c s o = Halt (s', v, ns) -> rec_inv s'.
Proof. intros c s o s' v ns. apply nexec_inv; exact hash_inj. Qed.

Theorem C12_invariant : forall ops, rec_inv (nrun ops).
Proof. intros ops. apply nrun_inv; exact hash_inj. Qed.

(** ** 2. Listing lemma: the iterators are the lookups in id order *)
Theorem C12_listing : forall s tk nk tb k,
  rec_inv s -> count_ok (records s) tk nk tb k ->
  find_by_type (records s) tk nk tb = spec_ents (records s) tk nk tb /\
  length (find_by_type (records s) tk nk tb) = N.to_nat k /\
  (forall j, find_by_type (records s) tk nk tb !! j =
             (fun r => ((tb * 256 + N.of_nat j)%N, r)) <$> records s !! (tk, nk, tb, N.of_nat j)) /\
  rec_entries (records s) tk nk =
    spec_ents (records s) tk nk 1 ++ spec_ents (records s) tk nk 5 ++ spec_ents (records s) tk nk 6 ++
    spec_ents (records s) tk nk 16 ++ spec_ents (records s) tk nk 28.
Proof.
  intros s tk nk tb k Hinv Hk. rewrite (find_by_type_spec hash _ _ _ _ Hinv).
  split; [reflexivity|]. split; [apply (spec_ents_lookup _ _ _ _ _ 0%nat Hk)|].
  split; [intros j; apply (spec_ents_lookup _ _ _ _ _ j Hk)|].
  rewrite (rec_entries_spec hash _ _ _ Hinv). unfold all_ents. reflexivity.
Qed.

(** ** 3. The readers return the specification lists *)
(** Shape of the lists: position j is id j; at most 16 entries; at most one
    CNAME / SOA; other type bytes have no entries. *)
Theorem C12_refines_shape : forall s tk nk tb,
  rec_inv s ->
  (forall j, spec_recs s tk nk tb !! j = r_data <$> records s !! (tk, nk, tb, N.of_nat j)) /\
  (forall i, is_Some (records s !! (tk, nk, tb, i)) <-> (N.to_nat i < length (spec_recs s tk nk tb))%nat) /\
  (length (spec_recs s tk nk tb) <= 16)%nat /\
  ((tb = 5 \/ tb = 6)%N -> (length (spec_recs s tk nk tb) <= 1)%nat) /\
  (spec_recs s tk nk tb <> [] -> (tb = 1 \/ tb = 5 \/ tb = 6 \/ tb = 16 \/ tb = 28)%N).
Proof. intros s tk nk tb. apply spec_recs_shape. Qed.

(** [getRecords name typ] = the list of (token of name, name, type byte) in
    id order — for every [typ] it accepts (-128..255; bytes other than the
    five record types have empty lists); [getAllRecords name] = the five
    lists in ascending type order with fields (name, type, data, id).  Both
    halt exactly on non-TLD names that are [readable] (see section 10). *)
Theorem C12_refines : forall c s name typ s' v ns,
  rec_inv s -> nexec c s (GetRecords name typ) = Halt (s', v, ns) ->
  exists tok tb, tok_of c s name = Halt tok /\ to_byte typ = Halt tb /\ s' = s /\ ns = [] /\
    v = VList (map VBytes (spec_recs s (hash tok) (hash name) tb)).
Proof.
  intros c s name typ s' v ns Hinv H.
  apply get_records_spec in H as (tok & tb & nst & _ & H1 & _ & H2 & H3 & H4 & H5); [|exact Hinv].
  exists tok, tb. split; [exact H1|]. split; [exact H2|]. split; [exact H3|]. split; [exact H4|exact H5].
Qed.

Theorem C12_refines_all : forall c s name s' v ns,
  rec_inv s -> nexec c s (GetAllRecords name) = Halt (s', v, ns) ->
  exists tok, tok_of c s name = Halt tok /\ s' = s /\ ns = [] /\ v = VList (all_vals s (hash tok) name).
Proof.
  intros c s name s' v ns Hinv H.
  apply get_all_records_spec in H as (tok & nst & _ & H1 & _ & H2 & H3 & H4); [|exact hash_inj|exact Hinv].
  exists tok. split; [exact H1|]. split; [exact H2|]. split; [exact H3|exact H4].
Qed.

(** [all_vals]: the five lists in ascending type order, each entry with the
    fields (name, type, data, id = position). *)
Theorem C12_all_vals_meaning : forall s tk name,
  all_vals s tk name =
    rec_vals name 1 (spec_recs s tk (hash name) 1) ++ rec_vals name 5 (spec_recs s tk (hash name) 5) ++
    rec_vals name 6 (spec_recs s tk (hash name) 6) ++ rec_vals name 16 (spec_recs s tk (hash name) 16) ++
    rec_vals name 28 (spec_recs s tk (hash name) 28) /\
  forall tb l, rec_vals name tb l =
    imap (fun j d => VList [VBytes name; VInt (Z.of_N tb); VBytes d; VInt (Z.of_nat j)]) l.
Proof. intros s tk name. split; reflexivity. Qed.

(** the two readers halt exactly on readable non-TLD names (section 10) *)
Theorem C12_readers_halt_iff : forall c s name,
  ((exists s' v ns, nexec c s (GetAllRecords name) = Halt (s', v, ns)) <->
     length (split_dot name) <> 1%nat /\ readable c s name) /\
  (forall typ, (exists s' v ns, nexec c s (GetRecords name typ) = Halt (s', v, ns)) <->
     length (split_dot name) <> 1%nat /\ readable c s name /\ -128 <= typ <= 255).
Proof.
  intros c s name. split; [apply get_all_records_halts_iff|]. intros typ. apply get_records_halts_iff.
Qed.

(** The same over every history. *)
Theorem C12_refines_history : forall ops c name typ s' v ns,
  nexec c (nrun ops) (GetRecords name typ) = Halt (s', v, ns) ->
  exists tok tb, tok_of c (nrun ops) name = Halt tok /\ to_byte typ = Halt tb /\
    v = VList (map VBytes (spec_recs (nrun ops) (hash tok) (hash name) tb)) /\
    NoDup (spec_recs (nrun ops) (hash tok) (hash name) tb) /\
    (length (spec_recs (nrun ops) (hash tok) (hash name) tb) <= 16)%nat.
Proof.
  intros ops c name typ s' v ns H.
  destruct (C12_refines _ _ _ _ _ _ _ (C12_invariant ops) H) as (tok & tb & H1 & H2 & _ & _ & H3).
  exists tok, tb. split; [exact H1|]. split; [exact H2|]. split; [exact H3|].
  split; [apply nrun_distinct; exact hash_inj|].
  eapply spec_recs_shape. apply C12_invariant.
Qed.

(** A successful [addRecord] appends [data] at the end of exactly one list
    (which did not contain it, had fewer than 16 entries, and was empty for a
    CNAME); every other list except the token's SOA is unchanged; so is every
    other key and every other component of the state. *)
Theorem C12_add_appends : forall c s name typ data s' v ns,
  rec_inv s -> nexec c s (AddRecord name typ data) = Halt (s', v, ns) ->
  exists tok tb,
    tok_of c s name = Halt tok /\ typ = Z.of_N tb /\ (tb = 1 \/ tb = 5 \/ tb = 16 \/ tb = 28)%N /\
    data ∉ spec_recs s (hash tok) (hash name) tb /\
    (length (spec_recs s (hash tok) (hash name) tb) < 16)%nat /\
    (tb = 5%N -> spec_recs s (hash tok) (hash name) tb = []) /\
    spec_recs s' (hash tok) (hash name) tb = spec_recs s (hash tok) (hash name) tb ++ [data] /\
    (forall tk nk tb', (tk, nk, tb') <> (hash tok, hash name, tb) -> (tk, nk, tb') <> (hash tok, hash tok, 6%N) ->
       spec_recs s' tk nk tb' = spec_recs s tk nk tb') /\
    (forall tk nk tb' i, (tk, nk, tb') <> (hash tok, hash name, tb) -> (tk, nk, tb', i) <> soa_key tok ->
       records s' !! (tk, nk, tb', i) = records s !! (tk, nk, tb', i)) /\
    names s' = names s /\ roots s' = roots s /\ supply s' = supply s /\ balances s' = balances s /\
    acctok s' = acctok s /\ price s' = price s /\ v = VNull /\ ns = [].
Proof. intros c s name typ data s' v ns. apply add_record_spec; exact hash_inj. Qed.

(** "exactly": a step that is not a successful addRecord / setRecord /
    deleteRecords leaves every list (and every key) of the record types
    other than SOA unchanged — registrations (re-registration of an expired
    name included: old records are kept), renewals, transfers, faulting calls.
    SOA records are written by register / registerTLD / updateSOA and
    refreshed by the three record methods (section 7). *)
Theorem C12_exactly : forall s c o tk nk tb,
  is_mutator o = false -> tb <> 6%N ->
  spec_recs (fst (fst (nstep s (c, o)))) tk nk tb = spec_recs s tk nk tb /\
  forall i, records (fst (fst (nstep s (c, o)))) !! (tk, nk, tb, i) = records s !! (tk, nk, tb, i).
Proof. intros s c o tk nk tb. apply (other_ops_keep_lists hash valid_name valid_data str_ok s (c, o)). Qed.

Theorem C12_fault_inert : forall s c o,
  nexec c s o = Fault -> nstep s (c, o) = (s, VFault, []).
Proof. intros s c o H. unfold NNS.nstep. simpl. rewrite H. reflexivity. Qed.

(** ** 4. setRecord replaces by index *)
(** A successful [setRecord name typ id data] replaces position [id] of exactly
    one list (length unchanged, [id] in range, no OTHER position holds [data]);
    all keys other than the written one and the token's SOA
    [(hash tok, hash tok, 6, 0)] are unchanged. *)
Theorem C12_set_replaces : forall c s name typ id data s' v ns,
  rec_inv s -> nexec c s (SetRecord name typ id data) = Halt (s', v, ns) ->
  exists tok tb,
    tok_of c s name = Halt tok /\ typ = Z.of_N tb /\ (tb = 1 \/ tb = 5 \/ tb = 16 \/ tb = 28)%N /\
    0 <= id /\ (Z.to_nat id < length (spec_recs s (hash tok) (hash name) tb))%nat /\
    (forall j, j <> Z.to_nat id -> spec_recs s (hash tok) (hash name) tb !! j <> Some data) /\
    spec_recs s' (hash tok) (hash name) tb = <[Z.to_nat id := data]> (spec_recs s (hash tok) (hash name) tb) /\
    (forall tk nk tb', (tk, nk, tb') <> (hash tok, hash name, tb) -> (tk, nk, tb') <> (hash tok, hash tok, 6%N) ->
       spec_recs s' tk nk tb' = spec_recs s tk nk tb') /\
    (forall tk nk tb' i, (tk, nk, tb', i) <> (hash tok, hash name, tb, Z.to_N id) -> (tk, nk, tb', i) <> soa_key tok ->
       records s' !! (tk, nk, tb', i) = records s !! (tk, nk, tb', i)) /\
    records s' !! (hash tok, hash name, tb, Z.to_N id) = Some (mkR name typ data id) /\
    names s' = names s /\ roots s' = roots s /\ supply s' = supply s /\ balances s' = balances s /\
    acctok s' = acctok s /\ price s' = price s /\ v = VNull /\ ns = [].
Proof. intros c s name typ id data s' v ns. apply set_record_spec; exact hash_inj. Qed.

(** ** 5. deleteRecords empties one type, never SOA *)
Theorem C12_delete_empties_one_type : forall c s name typ s' v ns,
  rec_inv s -> nexec c s (DeleteRecords name typ) = Halt (s', v, ns) ->
  exists tok tb,
    tok_of c s name = Halt tok /\ to_byte typ = Halt tb /\ tb <> 6%N /\
    spec_recs s' (hash tok) (hash name) tb = [] /\
    (forall tk nk tb', (tk, nk, tb') <> (hash tok, hash name, tb) -> (tk, nk, tb') <> (hash tok, hash tok, 6%N) ->
       spec_recs s' tk nk tb' = spec_recs s tk nk tb') /\
    (forall i, records s' !! (hash tok, hash name, tb, i) = None) /\
    (forall tk nk tb' i, (tk, nk, tb') <> (hash tok, hash name, tb) -> (tk, nk, tb', i) <> soa_key tok ->
       records s' !! (tk, nk, tb', i) = records s !! (tk, nk, tb', i)) /\
    is_Some (records s' !! soa_key tok) /\
    names s' = names s /\ roots s' = roots s /\ supply s' = supply s /\ balances s' = balances s /\
    acctok s' = acctok s /\ price s' = price s /\ v = VNull /\ ns = [].
Proof. intros c s name typ s' v ns. apply delete_records_spec. Qed.

(** "never SOA", for ALL states (no invariant) and ALL [typ] including
    byte-truncated ones: [typ = 6] is refused; no other accepted [typ] maps to
    type byte 6 ([to_byte] accepts -128..255 only, so -250 faults); hence a
    halting [deleteRecords] keeps every key of type byte 6, and all of them
    except the token's own SOA (whose serial is refreshed) keep their value. *)
Theorem C12_delete_never_soa : forall c s name typ s' v ns,
  nexec c s (DeleteRecords name typ) = Halt (s', v, ns) ->
  typ <> 6 /\
  exists tok, tok_of c s name = Halt tok /\
    (forall tk nk i, is_Some (records s !! (tk, nk, 6%N, i)) -> is_Some (records s' !! (tk, nk, 6%N, i))) /\
    (forall tk nk i, (tk, nk, 6%N, i) <> soa_key tok -> records s' !! (tk, nk, 6%N, i) = records s !! (tk, nk, 6%N, i)).
Proof. intros c s name typ s' v ns. apply delete_never_soa. Qed.

Theorem C12_delete_soa_refused : forall c s name,
  nexec c s (DeleteRecords name 6) = Fault /\ (forall z, to_byte z = Halt 6%N -> z = 6).
Proof. intros c s name. split; [reflexivity|exact to_byte_6]. Qed.

(** ** 6. Location: records live under the token of the name *)
(** The token of [name]: the longest live (stored and unexpired) suffix that is
    not the TLD — the first live one among [name], [name] minus one label, ... —
    else [name] itself. *)
Theorem C12_token_of_name : forall c s name tok,
  tok_of c s name = Halt tok ->
  valid_name name = true /\
  ((exists i, (i < length (split_dot name) - 1)%nat /\ tok = suffix_name name i /\ live hash c s tok = true /\
      forall j, (j < i)%nat -> live hash c s (suffix_name name j) = false) \/
   (tok = name /\ forall j, (j < length (split_dot name) - 1)%nat -> live hash c s (suffix_name name j) = false)).
Proof. intros c s name tok. apply tok_of_spec. Qed.

(** Every successful record mutation of [name] reads and writes only keys whose
    first component is the key of that token. *)
Theorem C12_location : forall c s o s' v ns name,
  rec_inv s -> nexec c s o = Halt (s', v, ns) ->
  (exists typ data, o = AddRecord name typ data) \/ (exists typ id data, o = SetRecord name typ id data) \/
  (exists typ, o = DeleteRecords name typ) ->
  exists tok, tok_of c s name = Halt tok /\
    forall tk nk tb i, tk <> hash tok -> records s' !! (tk, nk, tb, i) = records s !! (tk, nk, tb, i).
Proof. intros c s o s' v ns name. apply mutation_location; exact hash_inj. Qed.

(** ** 7. Every mutation refreshes the SOA serial of the token *)
(** [soa_refreshed c old new]: [old]'s data has seven space-separated fields
    f0 .. f6 and [new] = [old] with data f0 f1 itoa(now) f3 f4 f5 f6. *)
Theorem C12_soa_serial : forall c s o s' v ns name,
  rec_inv s -> nexec c s o = Halt (s', v, ns) ->
  (exists typ data, o = AddRecord name typ data) \/ (exists typ id data, o = SetRecord name typ id data) \/
  (exists typ, o = DeleteRecords name typ) ->
  exists tok old new, tok_of c s name = Halt tok /\
    records s !! soa_key tok = Some old /\ records s' !! soa_key tok = Some new /\
    exists f0 f1 f2 f3 f4 f5 f6, split_nonempty (r_data old) = [f0; f1; f2; f3; f4; f5; f6] /\
      new = mkR (r_name old) (r_type old)
              (f0 ++ SPACE :: f1 ++ SPACE :: itoa (now c) ++ SPACE :: f3 ++ SPACE :: f4 ++ SPACE :: f5 ++ SPACE :: f6)
              (r_id old).
Proof. intros c s o s' v ns name. apply mutation_soa_serial; exact hash_inj. Qed.

(** ** 8. Resolve *)
(** [rnode c s n T] = what [resolve] sees at a visited name [n] (one trailing
    dot stripped): (the T-records of [n], its CNAME target or [[]]); it faults
    when [n] is empty, invalid or not readable.  [resolve_spec] follows the
    links with a budget of visited names.  [Resolve] visits at most 3. *)
Theorem C12_resolve : forall c s name typ,
  rec_inv s ->
  nexec c s (Resolve name typ) =
    (_ <-! oassert (negb (length (split_dot name) =? 1)%nat);
     r <-! resolve_spec c s 3 name typ; Halt (s, VList (map VBytes r), [])).
Proof. intros c s name typ. apply resolve_op_spec. Qed.

Theorem C12_resolve_unfold : forall c s b name typ,
  resolve_spec c s (S b) name typ =
    (hl <-! rnode c s name typ;
     if (length (snd hl) =? 0)%nat || (typ =? 5) then Halt (fst hl)
     else rest <-! resolve_spec c s b (snd hl) typ; Halt (fst hl ++ rest)) /\
  resolve_spec c s 0 name typ = Fault /\
  rnode c s name typ =
    (if (length name =? 0)%nat then Fault else
     tok <-! tok_of c s (strip_dot name);
     _ <-! get_frag_ns hash c s tok [];
     Halt (typ_recs s (hash tok) (hash (strip_dot name)) typ,
           List.last (spec_recs s (hash tok) (hash (strip_dot name)) 5) [])).
Proof. intros c s b name typ. split; [reflexivity|]. split; reflexivity. Qed.

(** the T-records among all entries of a name: the list of type T for the
    five record types, nothing for any other T *)
Theorem C12_typ_recs_meaning : forall s tk nk typ,
  typ_recs s tk nk typ =
    if typ =? 1 then spec_recs s tk nk 1 else if typ =? 5 then spec_recs s tk nk 5
    else if typ =? 6 then spec_recs s tk nk 6 else if typ =? 16 then spec_recs s tk nk 16
    else if typ =? 28 then spec_recs s tk nk 28 else [].
Proof. intros s tk nk typ. reflexivity. Qed.

(** no CNAME at the name, or the CNAME type itself is requested: its records *)
Theorem C12_resolve_chain0 : forall c s name typ r0 l0,
  rnode c s name typ = Halt (r0, l0) -> l0 = [] \/ typ = 5 ->
  resolve_spec c s 3 name typ = Halt r0.
Proof. intros c s name typ r0 l0. apply resolve_spec_0. Qed.

(** one link *)
Theorem C12_resolve_chain1 : forall c s name typ r0 c1 r1,
  typ <> 5 -> rnode c s name typ = Halt (r0, c1) -> c1 <> [] ->
  rnode c s c1 typ = Halt (r1, []) ->
  resolve_spec c s 3 name typ = Halt (r0 ++ r1).
Proof. intros c s name typ r0 c1 r1 Ht H0 Hc H1. eapply resolve_chain_1; eauto. Qed.

(** two links *)
Theorem C12_resolve_chain2 : forall c s name typ r0 c1 r1 c2 r2,
  typ <> 5 -> rnode c s name typ = Halt (r0, c1) -> c1 <> [] ->
  rnode c s c1 typ = Halt (r1, c2) -> c2 <> [] ->
  rnode c s c2 typ = Halt (r2, []) ->
  resolve_spec c s 3 name typ = Halt (r0 ++ r1 ++ r2).
Proof. intros c s name typ r0 c1 r1 c2 r2 Ht H0 Hc1 H1 Hc2 H2. eapply resolve_chain_2; eauto. Qed.

(** three successive links (longer chains and cycles included): fault *)
Theorem C12_resolve_chain3_faults : forall c s name typ r0 c1 r1 c2 r2 c3,
  typ <> 5 -> rnode c s name typ = Halt (r0, c1) -> c1 <> [] ->
  rnode c s c1 typ = Halt (r1, c2) -> c2 <> [] ->
  rnode c s c2 typ = Halt (r2, c3) -> c3 <> [] ->
  resolve_spec c s 3 name typ = Fault.
Proof. intros c s name typ r0 c1 r1 c2 r2 c3. apply resolve_chain_3. Qed.

(** an unreadable / invalid / empty visited name: fault *)
Theorem C12_resolve_unreadable_faults : forall c s name typ r0 c1 r1 c2,
  (rnode c s name typ = Fault -> resolve_spec c s 3 name typ = Fault) /\
  (typ <> 5 -> rnode c s name typ = Halt (r0, c1) -> c1 <> [] -> rnode c s c1 typ = Fault ->
     resolve_spec c s 3 name typ = Fault) /\
  (typ <> 5 -> rnode c s name typ = Halt (r0, c1) -> c1 <> [] -> rnode c s c1 typ = Halt (r1, c2) -> c2 <> [] ->
     rnode c s c2 typ = Fault -> resolve_spec c s 3 name typ = Fault).
Proof.
  intros c s name typ r0 c1 r1 c2. split; [apply resolve_spec_fault_node|]. split.
  - intros Ht H0 Hc1 H1. erewrite resolve_spec_step by eassumption.
    erewrite resolve_spec_fault_node by eassumption. reflexivity.
  - intros Ht H0 Hc1 H1 Hc2 H2. erewrite resolve_spec_step by eassumption.
    erewrite resolve_spec_step by eassumption.
    erewrite resolve_spec_fault_node by eassumption. reflexivity.
Qed.

(** the link of a name is its single CNAME record *)
Theorem C12_resolve_link : forall s tk nk,
  rec_inv s ->
  (spec_recs s tk nk 5 = [] /\ List.last (spec_recs s tk nk 5) [] = []) \/
  (exists d, spec_recs s tk nk 5 = [d] /\ List.last (spec_recs s tk nk 5) [] = d).
Proof. intros s tk nk. apply link_spec. Qed.

(** ** 9. A name cannot be registered while its parent holds records of sub-names of it *)
Theorem C12_conflict : forall c s name owner email refresh retry expire ttl nk tb i r,
  records s !! (hash (join_dot (drop 1 (split_dot name))), nk, tb, i) = Some r ->
  proper_suffix name (r_name r) = true ->
  nexec c s (Register name owner email refresh retry expire ttl) = Fault.
Proof. intros c s name owner email refresh retry expire ttl nk tb i r. apply register_conflict. Qed.

(** ** 10. Records become unreachable when the name expires *)
(** [readable c s name]: the name is valid and its token and every name
    enclosing the token (TLD included) are stored and unexpired at [now c]. *)
Theorem C12_readable_meaning : forall c s name,
  readable c s name <->
  exists tok, tok_of c s name = Halt tok /\
    forall i, (i < length (split_dot tok))%nat -> live hash c s (join_dot (drop i (split_dot tok))) = true.
Proof.
  intros c s name. unfold NNSRecords.readable, parent_expired. split; intros [tok [Ht H]]; exists tok; (split; [exact Ht|]).
  - intros i Hi. destruct (live hash c s (join_dot (drop i (split_dot tok)))) eqn:El; [reflexivity|].
    exfalso. apply not_true_iff_false in H. apply H. apply existsb_exists. exists i.
    split; [apply in_seq; lia|]. rewrite El. reflexivity.
  - apply not_true_iff_false. intros He. apply existsb_exists in He as [i [Hi Hl]]. apply in_seq in Hi.
    rewrite H in Hl by lia. discriminate Hl.
Qed.

Theorem C12_expired_unreachable : forall c s name typ tok,
  tok_of c s name = Halt tok -> parent_expired hash c s 0 (split_dot tok) = true ->
  nexec c s (GetRecords name typ) = Fault /\ nexec c s (GetAllRecords name) = Fault /\
  (N.eqb (List.last name 0%N) DOT = false -> nexec c s (Resolve name typ) = Fault).
Proof. intros c s name typ tok. apply readers_fault_expired. Qed.

(** ** 11. Distinct values (finding F14, fixed in /repo by commit 63f40b8) *)
(** After every history, every list of every (token, name, type) is duplicate
    free: [addRecord] refuses a value already present, [setRecord] a value
    present at another id. *)
Theorem C12_distinct_step : forall c s o s' v ns,
  rec_inv s -> distinct_inv s -> nexec c s o = Halt (s', v, ns) -> distinct_inv s'.
Proof. intros c s o s' v ns. apply nexec_distinct; exact hash_inj. Qed.

Theorem C12_distinct : forall ops tk nk tb, NoDup (spec_recs (nrun ops) tk nk tb).
Proof. intros ops. apply nrun_distinct; exact hash_inj. Qed.

End C12.

Print Assumptions C12_invariant_meaning.
Print Assumptions C12_invariant_step.
Print Assumptions C12_invariant.
Print Assumptions C12_listing.
Print Assumptions C12_refines_shape.
Print Assumptions C12_refines.
Print Assumptions C12_refines_all.
Print Assumptions C12_all_vals_meaning.
Print Assumptions C12_readers_halt_iff.
Print Assumptions C12_refines_history.
Print Assumptions C12_add_appends.
Print Assumptions C12_exactly.
Print Assumptions C12_fault_inert.
Print Assumptions C12_set_replaces.
Print Assumptions C12_delete_empties_one_type.
Print Assumptions C12_delete_never_soa.
Print Assumptions C12_delete_soa_refused.
Print Assumptions C12_token_of_name.
Print Assumptions C12_location.
Print Assumptions C12_soa_serial.
Print Assumptions C12_resolve.
Print Assumptions C12_resolve_unfold.
Print Assumptions C12_typ_recs_meaning.
Print Assumptions C12_resolve_chain0.
Print Assumptions C12_resolve_chain1.
Print Assumptions C12_resolve_chain2.
Print Assumptions C12_resolve_chain3_faults.
Print Assumptions C12_resolve_unreadable_faults.
Print Assumptions C12_resolve_link.
Print Assumptions C12_conflict.
Print Assumptions C12_readable_meaning.
Print Assumptions C12_expired_unreachable.
Print Assumptions C12_distinct_step.
Print Assumptions C12_distinct.

(** ** Non-vacuity: concrete histories (hash := identity, every name / datum /
    string accepted), evaluated by [vm_compute]. *)
Module C12_examples.
Definition hid (b : bytes) : bytes := b.
Definition vn (b : bytes) : bool := true.
Definition vd (t : Z) (b : bytes) : bool := true.
Definition so (b : bytes) : bool := true.
Lemma hid_inj : forall a b, hid a = hid b -> a = b.
Proof. intros a b H. exact H. Qed.

Definition com : bytes := [99;111;109]%N.                       (* "com" *)
Definition acom : bytes := [97;46;99;111;109]%N.                (* "a.com" *)
Definition bacom : bytes := [98;46;97;46;99;111;109]%N.         (* "b.a.com" *)
Definition cacom : bytes := [99;46;97;46;99;111;109]%N.         (* "c.a.com" *)
Definition dacom : bytes := [100;46;97;46;99;111;109]%N.        (* "d.a.com" *)
Definition eacom : bytes := [101;46;97;46;99;111;109]%N.        (* "e.a.com" *)
Definition xbacom : bytes := [120;46;98;46;97;46;99;111;109]%N. (* "x.b.a.com" *)
Definition bacom_dot : bytes := bacom ++ [46]%N.                (* "b.a.com." *)
Definition x : bytes := [120]%N.
Definition y : bytes := [121]%N.
Definition z : bytes := [122]%N.
Definition o1 : bytes := repeat 1%N 20.
Definition cm : bytes := repeat 9%N 20.
Definition cx (t : Z) (w : list bytes) : nctx := mkNC t w cm [].

Definition run := nrun hid vn vd so.
Definition run_from := nrun_from hid vn vd so.
Definition obs (s : nstate) (c : nctx) (o : nop) : val := snd (fst (nstep hid vn vd so s (c, o))).
Definition after (s : nstate) (c : nctx) (o : nop) : nstate := fst (fst (nstep hid vn vd so s (c, o))).

(** TLD "com" (expires 1000100), "a.com" owned by o1 (expires 100200), two TXT
    records of the sub-name "b.a.com" *)
Definition h0 : list (nctx * nop) :=
  [(cx 100 [cm], RegisterTLD com [101]%N 1 2 1000 4);
   (cx 200 [o1], Register acom (Some o1) [101]%N 1 2 100 4);
   (cx 300 [o1], AddRecord bacom 16 x);
   (cx 301 [o1], AddRecord bacom 16 y)].
Definition s0 : nstate := run h0.

(** readers = specification lists; location under the token "a.com" *)
Example ex_getRecords : obs s0 (cx 400 []) (GetRecords bacom 16) = VList [VBytes x; VBytes y].
Proof. vm_compute. reflexivity. Qed.
Example ex_spec_recs : spec_recs s0 acom bacom 16 = [x; y] /\ token_id_from_name hid vn (cx 400 []) s0 bacom = Halt acom.
Proof. vm_compute. split; reflexivity. Qed.
Example ex_location : records s0 !! (acom, bacom, 16%N, 1%N) = Some (mkR bacom 16 y 1).
Proof. vm_compute. reflexivity. Qed.
Example ex_getAllRecords :
  obs s0 (cx 400 []) (GetAllRecords bacom) =
  VList [VList [VBytes bacom; VInt 16; VBytes x; VInt 0]; VList [VBytes bacom; VInt 16; VBytes y; VInt 1]].
Proof. vm_compute. reflexivity. Qed.

(** finding F14 (setRecord duplicate), now fixed: [add x; add y; set 0 y]
    faults and changes nothing; setting the same value at the same id and
    setting a fresh value still succeed *)
Example ex_F14_fixed :
  obs s0 (cx 302 [o1]) (SetRecord bacom 16 0 y) = VFault /\
  spec_recs (after s0 (cx 302 [o1]) (SetRecord bacom 16 0 y)) acom bacom 16 = [x; y] /\
  obs s0 (cx 302 [o1]) (SetRecord bacom 16 0 x) = VNull /\
  obs s0 (cx 302 [o1]) (SetRecord bacom 16 0 z) = VNull /\
  spec_recs (after s0 (cx 302 [o1]) (SetRecord bacom 16 0 z)) acom bacom 16 = [z; y] /\
  obs s0 (cx 302 [o1]) (SetRecord bacom 16 2 z) = VFault /\
  obs s0 (cx 302 [o1]) (AddRecord bacom 16 y) = VFault.
Proof. vm_compute. repeat split; reflexivity. Qed.

(** deleteRecords empties one type; SOA and aliases of it are refused; an
    alias byte (-1 -> 255) deletes nothing *)
Example ex_delete :
  obs (after s0 (cx 302 [o1]) (DeleteRecords bacom 16)) (cx 400 []) (GetRecords bacom 16) = VList [] /\
  obs s0 (cx 302 [o1]) (DeleteRecords acom 6) = VFault /\
  obs s0 (cx 302 [o1]) (DeleteRecords acom (-250)) = VFault /\
  obs s0 (cx 302 [o1]) (DeleteRecords bacom (-1)) = VNull /\
  spec_recs (after s0 (cx 302 [o1]) (DeleteRecords bacom (-1))) acom bacom 16 = [x; y].
Proof. vm_compute. repeat split; reflexivity. Qed.

(** every mutation refreshes the SOA serial of the token: "a.com e 200 1 2 100 4"
    becomes "... 301 ..." after the addRecord at time 301 *)
Example ex_soa_serial :
  r_data <$> records (run (firstn 2 h0)) !! (acom, acom, 6%N, 0%N) =
    Some (acom ++ [32; 101; 32; 50; 48; 48; 32; 49; 32; 50; 32; 49; 48; 48; 32; 52]%N) /\
  r_data <$> records s0 !! (acom, acom, 6%N, 0%N) =
    Some (acom ++ [32; 101; 32; 51; 48; 49; 32; 49; 32; 50; 32; 49; 48; 48; 32; 52]%N).
Proof. vm_compute. split; reflexivity. Qed.

(** 16 records at most, one CNAME at most *)
Definition many : list (nctx * nop) :=
  map (fun i => (cx 500 [o1], AddRecord cacom 16 [N.of_nat i])) (seq 0 16).
Example ex_limits :
  let s := run_from s0 many in
  length (spec_recs s acom cacom 16) = 16%nat /\
  obs s (cx 501 [o1]) (AddRecord cacom 16 [99]%N) = VFault /\
  obs s (cx 501 [o1]) (AddRecord cacom 5 dacom) = VNull /\
  obs (after s (cx 501 [o1]) (AddRecord cacom 5 dacom)) (cx 502 [o1]) (AddRecord cacom 5 eacom) = VFault.
Proof. vm_compute. repeat split; reflexivity. Qed.

(** resolve: chains of 0, 1, 2 links, 3 links and a cycle, trailing dot *)
Definition h2 : list (nctx * nop) :=
  [(cx 310 [o1], AddRecord bacom 5 cacom); (cx 311 [o1], AddRecord cacom 5 dacom);
   (cx 312 [o1], AddRecord dacom 16 z)].
Definition s2 : nstate := run_from s0 h2.
Example ex_resolve :
  obs s0 (cx 400 []) (Resolve bacom 16) = VList [VBytes x; VBytes y] /\
  obs (run_from s0 (firstn 1 h2)) (cx 400 []) (Resolve bacom 16) = VList [VBytes x; VBytes y] /\
  obs s2 (cx 400 []) (Resolve bacom 16) = VList [VBytes x; VBytes y; VBytes z] /\
  obs s2 (cx 400 []) (Resolve bacom_dot 16) = VList [VBytes x; VBytes y; VBytes z] /\
  obs s2 (cx 400 []) (Resolve bacom 5) = VList [VBytes cacom] /\
  obs (after s2 (cx 313 [o1]) (AddRecord dacom 5 eacom)) (cx 400 []) (Resolve bacom 16) = VFault /\
  obs (after s2 (cx 313 [o1]) (AddRecord dacom 5 bacom)) (cx 400 []) (Resolve bacom 16) = VFault /\
  obs (after s2 (cx 313 [o1]) (AddRecord dacom 5 eacom)) (cx 400 []) (Resolve cacom 16) = VList [VBytes z].
Proof. vm_compute. repeat split; reflexivity. Qed.
Example ex_rnode :
  rnode hid vn (cx 400 []) s2 bacom 16 = Halt ([x; y], cacom) /\
  rnode hid vn (cx 400 []) s2 cacom 16 = Halt ([], dacom) /\
  rnode hid vn (cx 400 []) s2 dacom 16 = Halt ([z], []) /\
  resolve_spec hid vn (cx 400 []) s2 3 bacom 16 = Halt [x; y; z].
Proof. vm_compute. repeat split; reflexivity. Qed.

(** conflict: "b.a.com" cannot be registered while "a.com" holds a record of
    "x.b.a.com"; without that record the same registration succeeds *)
Example ex_conflict :
  let s := after s0 (cx 320 [o1]) (AddRecord xbacom 16 z) in
  records s !! (acom, xbacom, 16%N, 0%N) = Some (mkR xbacom 16 z 0) /\
  proper_suffix bacom xbacom = true /\ join_dot (drop 1 (split_dot bacom)) = acom /\
  obs s (cx 330 [o1]) (Register bacom (Some o1) [101]%N 1 2 100 4) = VFault /\
  obs (after s (cx 325 [o1]) (DeleteRecords xbacom 16)) (cx 330 [o1]) (Register bacom (Some o1) [101]%N 1 2 100 4) = VBool true.
Proof. vm_compute. repeat split; reflexivity. Qed.

(** expiry: "a.com" expires at 100200 *)
Example ex_expired :
  obs s0 (cx 100199 []) (GetRecords bacom 16) = VList [VBytes x; VBytes y] /\
  obs s0 (cx 100200 []) (GetRecords bacom 16) = VFault /\
  obs s0 (cx 100200 []) (GetAllRecords bacom) = VFault /\
  obs s0 (cx 100200 []) (Resolve bacom 16) = VFault /\
  token_id_from_name hid vn (cx 100200 []) s0 bacom = Halt bacom /\
  parent_expired hid (cx 100200 []) s0 0 (split_dot bacom) = true.
Proof. vm_compute. repeat split; reflexivity. Qed.

(** the invariant and distinctness on these histories, from the theorems *)
Example ex_invariant : rec_inv hid s2 /\ distinct_inv s2.
Proof.
  split.
  - apply (nrun_from_inv hid vn vd so hid_inj). apply (C12_invariant hid vn vd so hid_inj).
  - apply (nrun_from_distinct hid vn vd so hid_inj); [apply (C12_invariant hid vn vd so hid_inj)|].
    intros tk nk tb. apply (C12_distinct hid vn vd so hid_inj).
Qed.
End C12_examples.
