(** Spec/Stores.v — reference objects of property C20, keyed by the NUMBERS
    (epoch, container id, node, owner, configuration key), never by storage
    encodings.  No proofs here. *)
From Verif Require Import Base.Prelude Base.IntCodec Model.StoreLib
  Model.Reputation Model.Audit Model.NeoFSID Model.Config Model.Estimations.
Local Open Scope Z_scope.

(** * Configuration: a map from configuration keys to values. *)
(** For the store, a vote is a [SetConfig] that is authorised exactly when a
    member's vote completes the tally. *)
Definition cop_as_set (o : cop) : bool * bytes * bytes * val :=
  match o with
  | CSet alpha id key v => (alpha, id, key, v)
  | CVote member applied id key v => (member && applied, id, key, v)
  end.
Definition spec_caccept (kd : ckind) (o : cop) : bool :=
  let '(alpha, _, key, v) := cop_as_set o in
    alpha && (length key <=? 58)%nat &&
    match val_bytes v with Some b => (Z.of_nat (length b) <=? 65535) | None => false end &&
    match kd with CNetmap => true | CNeoFS => is_bytes v end.
(** What is read back is the canonical byte form of the value passed. *)
Definition spec_cval (o : cop) : bytes :=
  let '(_, _, _, v) := cop_as_set o in default [] (val_bytes v).
Definition spec_ckey (o : cop) : bytes := let '(_, _, key, _) := cop_as_set o in key.
Definition spec_cstep (kd : ckind) (m : gmap bytes bytes) (o : cop) : gmap bytes bytes :=
  if spec_caccept kd o then <[spec_ckey o := spec_cval o]> m else m.
Definition spec_cinit (pairs : list (bytes * bytes)) : gmap bytes bytes :=
  fold_left (fun m kv => <[fst kv := snd kv]> m) pairs ∅.
Definition spec_crun (kd : ckind) (m0 : gmap bytes bytes) (ops : list cop) : gmap bytes bytes :=
  fold_left (spec_cstep kd) ops m0.

(** * NeoFSID: a set of (owner, key) bindings. *)
Definition naccept (o : nop) : bool :=
  match o with
  | NAdd a w ks | NRemove a w ks =>
      (length w =? owner_size)%nat && forallb (fun k => (length k =? pubkey_len)%nat) ks && a
  end.
Definition spec_nstep (S : gset (bytes * bytes)) (o : nop) : gset (bytes * bytes) :=
  if naccept o then
    match o with
    | NAdd _ w ks => S ∪ list_to_set (map (pair w) ks)
    | NRemove _ w ks => S ∖ list_to_set (map (pair w) ks)
    end
  else S.
Definition spec_nrun (ops : list nop) : gset (bytes * bytes) := fold_left spec_nstep ops ∅.

(** * Reputation: the values put under exactly (epoch, peer), in put order. *)
Definition spec_rget (l : list (Z * bytes * bytes)) (e : Z) (p : bytes) : list bytes :=
  omap (fun x => let '(e', p', v) := x in
                 if (e' =? e) && bytes_eqb p' p then Some v else None) l.

(** * Audit: the result stored last under exactly the id. *)
Definition spec_aget (l : list aentry) (id : bytes) : option bytes :=
  ae_raw <$> last (filter (fun x => ae_id x = id) l).

(** * Estimations: a map (epoch, cid, node-hash[:10]) |-> (reporter, size). *)
Notation ekey3 := (Z * bytes * bytes)%type.
Notation espec := (@gmap (Z * bytes * bytes)
  (@prod_eq_dec (Z * bytes) (@prod_eq_dec Z Z.eq_dec bytes (@list_eq_dec N N_eq_dec)) bytes (@list_eq_dec N N_eq_dec))
  (@prod_countable (Z * bytes) (@prod_eq_dec Z Z.eq_dec bytes (@list_eq_dec N N_eq_dec))
     (@prod_countable Z Z.eq_dec Z_countable bytes (@list_eq_dec N N_eq_dec) (@list_countable N N_eq_dec N_countable))
     bytes (@list_eq_dec N N_eq_dec) (@list_countable N N_eq_dec N_countable))
  bytes) (only parsing).

(** The accepted operations of a history (acceptance involves the limits of
    the VM and of the storage, so it is read off the model run). *)
Fixpoint eacc_from (d1 d2 : Z) (cap : list Z -> bool) (s : estate) (ops : list eop) : list eop :=
  match ops with
  | [] => []
  | o :: ops' =>
      match eexec d1 d2 cap s o with
      | Halt s' => o :: eacc_from d1 d2 cap s' ops'
      | Fault => eacc_from d1 d2 cap s ops'
      end
  end.
Definition eacc d1 d2 cap ops := eacc_from d1 d2 cap einit ops.

(** An accepted estimation of node [h] for container [c] at epoch [e] stores
    its value and removes exactly that node's entries for [c] that are more
    than [d1] (CleanupDelta) epochs older; an accepted tick [n] removes
    exactly the entries more than [d2] (TotalCleanupDelta) epochs older. *)
Definition spec_estep (d1 d2 : Z) (m : espec) (o : eop) : espec :=
  match o with
  | EPut _ _ _ e c size pub h20 =>
      let h := take postfix_size h20 in
      <[(e, c, h) := enc_est pub size]>
        (filter (fun kv : ekey3 * bytes =>
                   ~ (snd (fst (fst kv)) = c /\ snd (fst kv) = h /\ e - fst (fst (fst kv)) > d1)) m)
  | ETick _ n =>
      filter (fun kv : ekey3 * bytes => ~ (n - fst (fst (fst kv)) > d2)) m
  end.
Definition spec_erun (d1 d2 : Z) (cap : list Z -> bool) (ops : list eop) : espec :=
  fold_left (spec_estep d1 d2) (eacc d1 d2 cap ops) ∅.

(** Storage key of an entry, by the numbers. *)
Definition ekey' (k : ekey3) : bytes :=
  let '(e, c, h) := k in cnr_pfx ++ int_to_bytes e ++ c ++ h.

(** Premises on histories: container ids are SHA-256 digests (32 bytes),
    node hashes are RIPEMD-160 digests (20 bytes), and no two nodes of the
    history share the first 10 bytes of their hash (the truncation used in
    the storage key is collision-free on the history). *)
Definition eop_wf (o : eop) : Prop :=
  match o with
  | EPut live _ _ _ _ _ _ h20 => Forall (fun c => length c = cid_size) live /\ length h20 = 20%nat
  | ETick _ _ => True
  end.
Definition enodes (ops : list eop) : list bytes :=
  omap (fun o => match o with EPut _ _ _ _ _ _ _ h20 => Some h20 | ETick _ _ => None end) ops.
Definition ehist_ok (ops : list eop) : Prop :=
  Forall eop_wf ops /\
  forall h h', h ∈ enodes ops -> h' ∈ enodes ops -> take postfix_size h = take postfix_size h' -> h = h'.
