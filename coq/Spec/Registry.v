(** Spec/Registry.v — the reference object of C04: a registry of live
    containers and a set of tombstones, with the effect of each *successful*
    call written down independently of the contract's storage layout. *)
From Verif Require Import Base.Prelude Model.Container.

Record info := mkInfo {
  i_cnr : cnr;               (* blob, signature, public key, session token *)
  i_eacl : option cnr;       (* last eACL table set *)
  i_alias : option bytes;    (* last name set *)
  i_meta : bool              (* meta-on-chain flag *)
}.

Record registry := mkReg { live : gmap bytes info; dead : gset bytes }.

Definition reg_empty : registry := mkReg ∅ ∅.

(** put / putNamed / putMeta of a container with id [cid]: the descriptor is
    (re)written; the eACL is kept; the alias is replaced iff a name is given;
    the meta flag is sticky. *)
Definition reg_put (r : registry) (cid : bytes) (c : cnr) (name : option bytes) (meta : bool)
  : registry :=
  let old := live r !! cid in
  mkReg (<[cid := mkInfo c (old ≫= i_eacl)
                         (match name with Some d => Some d | None => old ≫= i_alias end)
                         (meta || default false (i_meta <$> old))]> (live r))
        (dead r).

(** delete: a live container disappears with all its satellites and gets a
    tombstone; deleting anything else does nothing. *)
Definition reg_delete (r : registry) (cid : bytes) : registry :=
  match live r !! cid with
  | Some _ => mkReg (delete cid (live r)) ({[cid]} ∪ dead r)
  | None => r
  end.

Definition reg_set_eacl (r : registry) (cid : bytes) (e : cnr) : registry :=
  match live r !! cid with
  | Some i => mkReg (<[cid := mkInfo (i_cnr i) (Some e) (i_alias i) (i_meta i)]> (live r)) (dead r)
  | None => r
  end.

(** The container id inside an eACL table (V2 format). *)
Definition eacl_cid (e : bytes) : option bytes :=
  match cnth 1 e with
  | Halt v => match cslice (2 + N.to_nat v + 4) 32 e with Halt c => Some c | Fault => None end
  | Fault => None
  end.

Section Spec.
  Variable cid_of : bytes -> bytes.

  (** Effect of a successful invocation [o] on the registry ([root] is the
      default alias zone of the deployment). *)
  Definition spec_apply (root : bytes) (r : registry) (o : wop) : registry :=
    match o with
    | Put b s p t => reg_put r (cid_of b) (mkCnr b s p t) None false
    | PutNamed b s p t n z =>
        reg_put r (cid_of b) (mkCnr b s p t)
          (if nonempty n then Some (n ++ dot :: (if nonempty z then z else root)) else None) false
    | PutMeta b s p t m => reg_put r (cid_of b) (mkCnr b s p t) None m
    | Delete cid _ _ => reg_delete r cid
    | SetEACL e s p t =>
        match eacl_cid e with Some cid => reg_set_eacl r cid (mkCnr e s p t) | None => r end
    | _ => r
    end.

  (** Read API of the registry. *)
  Definition spec_get (r : registry) (cid : bytes) : outcome cnr :=
    match live r !! cid with Some i => Halt (i_cnr i) | None => Fault end.
  Definition spec_owner (r : registry) (cid : bytes) : outcome bytes :=
    match live r !! cid with Some i => owner_of_blob (c_val (i_cnr i)) | None => Fault end.
  Definition spec_alias (r : registry) (cid : bytes) : outcome (option bytes) :=
    match live r !! cid with Some i => Halt (i_alias i) | None => Fault end.
  Definition spec_eacl (r : registry) (cid : bytes) : outcome cnr :=
    match live r !! cid with Some i => Halt (default empty_cnr (i_eacl i)) | None => Fault end.
  Definition spec_count (r : registry) : Z := Z.of_nat (size (live r)).
  (** [cid] is a live container whose owner has prefix [p]. *)
  Definition spec_owned (r : registry) (p cid : bytes) : Prop :=
    exists i o, live r !! cid = Some i /\ owner_of_blob (c_val (i_cnr i)) = Halt o /\
                is_prefix p o = true.
End Spec.
