(** Spec/NetmapSpec.v — reference objects for the Netmap properties, written
    from the property texts (C06, C07, C08), not from the contract:
    - the candidate registry implied by the successful add/update/remove
      calls (C07);
    - the publication history [epoch -> published map] with the ghost window
      of retrievable epochs (C08).
    Only definitions (executable where possible); no proofs. *)
From Verif Require Import Base.Prelude Base.IntCodec Model.Netmap.
Local Open Scope Z_scope.

(** * C07: the candidate registry *)

(** What is known about one public key: its legacy record (blob, state)
    and/or its structured record (addresses, attributes, state). *)
Record cand := mkCand {
  c_legacy : option (bytes * Z);
  c_struct : option (list bytes * list (bytes * bytes) * Z) }.
Definition no_cand : cand := mkCand None None.

Definition cspec := bytes -> cand.
Definition cs_init : cspec := fun _ => no_cand.
Definition cs_upd (f : cspec) (k : bytes) (c : cand) : cspec :=
  fun k' => if bytes_eqb k' k then c else f k'.

Definition present (c : cand) : bool :=
  match c_legacy c, c_struct c with None, None => false | _, _ => true end.

(** An Online/Maintenance update changes only the state, in every
    representation that holds the key. *)
Definition set_st (st : Z) (c : cand) : cand :=
  mkCand (option_map (fun p => (fst p, st)) (c_legacy c))
         (option_map (fun p => (fst p, st)) (c_struct c)).

(** The public key sewn into a legacy node info: bytes 2..34. *)
Definition info_key (info : bytes) : option bytes :=
  if (35 <=? length info)%nat then Some (take 33 (drop 2 info)) else None.

Definition st_ok (f : cspec) (st : Z) (k : bytes) : bool :=
  (st =? Offline) || (((st =? Online) || (st =? Maintenance)) && present (f k)).

(** When does a candidate request take effect: node requests need the node's
    own witness and the Alphabet's, IR requests the Alphabet's; the state
    must be a known one, an Online/Maintenance update needs an existing
    candidate; keys are 33-byte public keys. *)
Definition cs_ok (c : nctx) (f : cspec) (o : nop) : bool :=
  match o with
  | AddPeer info =>
      match info_key info with Some k => check_witness c k && alpha c | None => false end
  | AddPeerIR info =>
      match info_key info with Some _ => alpha c | None => false end
  | AddNode n => (n2st n =? Online) && pk_len (n2key n) && check_witness c (n2key n) && alpha c
  | DeleteNode k => pk_len k && alpha c
  | UpdateState st k => pk_len k && check_witness c k && alpha c && st_ok f st k
  | UpdateStateIR st k => pk_len k && alpha c && st_ok f st k
  | _ => false
  end.

Definition cs_apply (f : cspec) (o : nop) : cspec :=
  match o with
  | AddPeer info | AddPeerIR info =>
      match info_key info with
      | Some k => cs_upd f k (mkCand (Some (info, Online)) (c_struct (f k)))
      | None => f
      end
  | AddNode n =>
      cs_upd f (n2key n) (mkCand (c_legacy (f (n2key n))) (Some (n2addrs n, n2attrs n, Online)))
  | DeleteNode k => cs_upd f k no_cand
  | UpdateState st k | UpdateStateIR st k =>
      if st =? Offline then cs_upd f k no_cand else cs_upd f k (set_st st (f k))
  | _ => f
  end.

Definition cs_step (f : cspec) (co : nctx * nop) : cspec :=
  if cs_ok (fst co) f (snd co) then cs_apply f (snd co) else f.

Definition cs_run (ops : list (nctx * nop)) : cspec := fold_left cs_step ops cs_init.

(** The contract state represents the registry: both candidate lists are
    its projections. *)
Definition legacy_node (p : bytes * Z) : node := mkNode (fst p) (snd p).
Definition struct_node (k : bytes) (p : list bytes * list (bytes * bytes) * Z) : node2 :=
  mkNode2 (fst (fst p)) (snd (fst p)) k (snd p).

Definition refines (s : nstate) (f : cspec) : Prop :=
  forall k, cands s !! k = legacy_node <$> c_legacy (f k) /\
            cands2 s !! k = struct_node k <$> c_struct (f k).

Definition is_cand_op (o : nop) : bool :=
  match o with
  | AddPeer _ | AddPeerIR _ | AddNode _ | DeleteNode _ | UpdateState _ _ | UpdateStateIR _ _ => true
  | _ => false
  end.

(** * C08: publication history and ghost window *)

(** What the ticks of a history published, per epoch: the legacy map and
    the structured list. Before the first tick every epoch holds the empty
    map. *)
Record hist := mkH {
  pubL : Z -> list node;          (* published legacy map of epoch e *)
  pub2 : Z -> gmap bytes node2;   (* published structured list of epoch e *)
  win : Z;                        (* ghost: most recent epochs still held exactly (ring) *)
  win2 : Z                        (* ghost: the same for the per-epoch lists *)
}.

Definition h_init : hist := mkH (fun _ => []) (fun _ => ∅) DefaultSnapshotCount DefaultSnapshotCount.

Definition fupd {A} (f : Z -> A) (e : Z) (a : A) : Z -> A := fun e' => if e' =? e then a else f e'.

(** Ghost transitions: a tick records what was published and widens the
    window up to the count; an accepted resize narrows it to the new count. *)
Definition h_tick (h : hist) (e : Z) (cnt : Z) (l : list node) (m : gmap bytes node2) : hist :=
  mkH (fupd (pubL h) e l) (fupd (pub2 h) e m) (Z.min (win h + 1) cnt) (Z.min (win2 h + 1) cnt).
Definition h_resize (h : hist) (n : Z) : hist :=
  mkH (pubL h) (pub2 h) (Z.min (win h) n) (Z.min (win2 h) n).

(** The ghost history carried along a run of the model: every successful
    tick records what it published (the non-Offline legacy candidates and the
    structured candidates of the moment), every accepted resize narrows the
    windows. *)
Section Ghost.
  Variable sub_ok : bytes -> bool.
  Variable sub_accepts : bytes -> Z -> bool.

  Definition gstep (sh : nstate * hist) (co : nctx * nop) : nstate * hist :=
    let s := fst sh in let h := snd sh in
    let '(s', ok, _) := nstep sub_ok sub_accepts s co in
    (s', if ok then
           match snd co with
           | NewEpoch e => h_tick h e (count s) (filter_netmap s) (cands2 s)
           | UpdateSnapshotCount n => h_resize h n
           | _ => h
           end
         else h).

  Definition grun (cfg : list (bytes * bytes)) (ops : list (nctx * nop)) : nstate * hist :=
    fold_left gstep ops (ninit cfg, h_init).

  (** The quantifier's premise "epochs advance by one per tick as the Inner
      Ring does": every successful tick of the history is [epoch + 1]
      (a decidable predicate on the history). *)
  Fixpoint consecutive (s : nstate) (ops : list (nctx * nop)) : bool :=
    match ops with
    | [] => true
    | co :: rest =>
        let '(s', ok, _) := nstep sub_ok sub_accepts s co in
        (match snd co with
         | NewEpoch e => negb ok || (e =? epoch s + 1)
         | _ => true
         end) && consecutive s' rest
    end.
End Ghost.
