(** Spec/Tally.v — the abstract vote tally of property C17, written from the
    property text (not from common/vote.go), and the vocabulary in which the
    theorems of Props/C17.v are stated.  Definitions only, no proofs.

    Per decision id the tally is the list (without repetition, in voting
    order) of the keys that voted since the ballot was (re)opened, together
    with the height of the last *counted* vote.  A tally whose last counted
    vote is more than 20 blocks old is void: the next vote reopens it.  When
    the tally, including the vote being cast, reaches the threshold the
    decision is executed and the tally of that id is erased. *)
From Verif Require Import Base.Prelude Base.IntCodec Model.Vote Model.NeoFSVote.
Local Open Scope Z_scope.

Record tally := mkTally { tvoters : list bytes; tlast : Z }.

(** The tally box is a total function of the decision id. *)
Definition tbox := bytes -> option tally.
Definition tempty : tbox := fun _ => None.
Definition tupd (tb : tbox) (id : bytes) (v : option tally) : tbox :=
  fun i => if bytes_eqb i id then v else tb i.

(** 20-block freshness rule. *)
Definition tprune (h : Z) (t : option tally) : option tally :=
  match t with
  | Some t => if h - tlast t >? 20 then None else Some t
  | None => None
  end.

(** Keys that have voted for [id] and still count at height [h]. *)
Definition tlive (tb : tbox) (id : bytes) (h : Z) : list bytes :=
  match tprune h (tb id) with Some t => tvoters t | None => [] end.

(** The tally including the vote of [from] cast at height [h]. *)
Definition tally_incl (tb : tbox) (id from : bytes) (h : Z) : list bytes :=
  let vs := tlive tb id h in
  if existsb (bytes_eqb from) vs then vs else vs ++ [from].

(** [thr = floor(2n/3) + 1] *)
Definition thr (n : Z) : Z := 2 * n / 3 + 1.

(** One vote: a repeated vote changes nothing (it does not refresh the
    ballot either); a new vote is appended and stamps the height; at the
    threshold the decision is taken and the tally of [id] is erased. *)
Definition tcollect (alphabet : list bytes) (tb : tbox) (id from : bytes) (h : Z)
  : outcome (tbox * bool) :=
  let vs := tally_incl tb id from h in
  let tb1 := if existsb (bytes_eqb from) (tlive tb id h) then tb
             else tupd tb id (Some (mkTally vs h)) in
  if Z.of_nat (length vs) <? thr (Z.of_nat (length alphabet))
  then Halt (tb1, false)
  else Halt (tupd tb1 id None, true).

(** The spec machine: the methods of Model/NeoFSVote.v over the tally box. *)
Definition tstate := gstate (B := tbox).
Definition tinit (keys : list bytes) (cfg : gmap bytes bytes) (g : gmap bytes Z) : tstate :=
  mkG keys tempty cfg ∅ g.
Definition tstep valid_pub std_acc del_id := gstep valid_pub std_acc del_id (B := tbox) tcollect.
Definition trun_from valid_pub std_acc del_id := grun_from valid_pub std_acc del_id (B := tbox) tcollect.

(** What the stored ballots say about [id]: the first stored ballot with
    that id (there is never more than one, see [Proofs.Vote.box_inv]). *)
Definition find_id (id : bytes) (bs : list ballot) : option ballot :=
  find (fun b => bytes_eqb (bid b) id) bs.
Definition abs_box (bs : list ballot) : tbox :=
  fun id => match find_id id bs with
            | Some b => Some (mkTally (voters b) (bheight b))
            | None => None
            end.
(** Voters of the stored ballot of [id] that is still live at height [h]. *)
Definition stored_tally (bs : list ballot) (id : bytes) (h : Z) : list bytes :=
  tlive (abs_box bs) id h.

(** [ledger.CurrentIndex()] never decreases from one transaction to the
    next (several transactions of one block see the same value):
    [heights_from h0 ops] = the heights of [ops] are non-decreasing and not
    below [h0]. *)
Fixpoint heights_from (h0 : Z) (ops : list (nctx * nop)) : Prop :=
  match ops with
  | [] => True
  | co :: rest => h0 <= height (fst co) /\ heights_from (height (fst co)) rest
  end.

Section Vocabulary.
  Variable valid_pub : bytes -> bool.
  Variable del_id : bytes -> bytes.

  (** The decision an invocation votes for; [None] = the invocation is not
      vote-gated (candidate registration, funding, and the removal of a
      candidate requested by the candidate itself). *)
  Definition decision_id (c : nctx) (o : nop) : option bytes :=
    match o with
    | Cheque id _ _ _ => Some id
    | AlphabetUpdate id _ => Some id
    | SetConfig id _ _ => Some id
    | CandidateRemove key =>
        if existsb (bytes_eqb key) (witnessed c) then None else Some (del_id key)
    | CandidateAdd _ | Fund _ => None
    end.

  (** Well-formedness of the arguments, checked before the vote is counted. *)
  Definition args_ok (o : nop) : bool :=
    match o with
    | AlphabetUpdate _ keys =>
        negb (length keys =? 0)%nat && forallb (fun k => (length k =? 33)%nat) keys
    | CandidateRemove key => (length key =? 20)%nat || valid_pub key
    | _ => true
    end.

  (** Can the decided action be carried out in this state?  (If not, the
      completing invocation faults as a whole and its vote is not counted.) *)
  Definition action_ok {B} (c : nctx) (s : gstate (B := B)) (o : nop) : bool :=
    match o with
    | Cheque _ user amount _ =>
        (length (self c) =? 20)%nat && (length user =? 20)%nat
        && (0 <=? amount) && (amount <=? gas_bal (gas s) (self c))
    | SetConfig _ key _ => (length key <=? 58)%nat
    | _ => true
    end.

  (** The effect of the decided action on everything but the ballot box. *)
  Definition pay (g : gmap bytes Z) (from to : bytes) (amount : Z) : gmap bytes Z :=
    let g1 := <[from := gas_bal g from - amount]> g in
    <[to := gas_bal g1 to + amount]> g1.
  Definition effect {B} (c : nctx) (s : gstate (B := B)) (b : B) (o : nop) : gstate (B := B) :=
    match o with
    | Cheque _ user amount _ => mkG (alphabet s) b (config s) (cands s) (pay (gas s) (self c) user amount)
    | AlphabetUpdate _ keys => mkG keys b (config s) (cands s) (gas s)
    | SetConfig _ key val => mkG (alphabet s) b (<[key := val]> (config s)) (cands s) (gas s)
    | CandidateRemove key => mkG (alphabet s) b (config s) (delete key (cands s)) (gas s)
    | _ => set_box s b
    end.
  (** The notifications of the decided action: exactly one, except for the
      removal of a candidate, which has none. *)
  Definition notifs_of (o : nop) : list nnotif :=
    match o with
    | Cheque id user amount lockAcc => [NCheque id user amount lockAcc]
    | AlphabetUpdate id keys => [NAlphabetUpdate id keys]
    | SetConfig id key val => [NSetConfig id key val]
    | _ => []
    end.

  (** Everything but the ballot box is the same. *)
  Definition same_but_box {B1 B2} (s1 : gstate (B := B1)) (s2 : gstate (B := B2)) : Prop :=
    alphabet s1 = alphabet s2 /\ config s1 = config s2 /\ cands s1 = cands s2 /\ gas s1 = gas s2.
End Vocabulary.
