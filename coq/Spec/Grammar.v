(** Spec/Grammar.v — what C18 calls "well-formed", written from the property
    text and the RFCs (1035 names, 4291 §2.2 IPv6 text), NOT from the
    scanners of the contract.  Every notion is given twice: as a declarative
    proposition over the *text* (a string is well-formed iff it is the
    rendering [join] of parts with stated properties), and as a boolean
    decision procedure ([..b]); Proofs/NNSSyntax.v proves them equivalent.
    Nothing here mentions the model. *)
From Verif Require Import Base.Prelude.
Local Open Scope Z_scope.

(** Rendering: parts separated by one byte. *)
Fixpoint join (sep : N) (ls : list bytes) : bytes :=
  match ls with
  | [] => []
  | l :: ls' => match ls' with [] => l | _ :: _ => l ++ sep :: join sep ls' end
  end.

(** The inverse used by the decision procedures: the maximal [sep]-free
    fields of a string (never an empty list). *)
Fixpoint fields (sep : N) (s : bytes) : list bytes :=
  match s with
  | [] => [[]]
  | c :: r =>
      if (c =? sep)%N then [] :: fields sep r
      else match fields sep r with f :: fs => (c :: f) :: fs | [] => [[c]] end
  end.

(* ------------------------------------------------------------------ *)
(** ** Names: 3..255 bytes, dot-separated labels of 1..63 lowercase letters,
    digits and inner hyphens; the last label at most 16 bytes and starting
    with a letter. *)
Definition lower (c : N) : Prop := (97 <= c <= 122)%N.
Definition digit (c : N) : Prop := (48 <= c <= 57)%N.
Definition label_char (c : N) : Prop := lower c \/ digit c \/ c = 45%N.

Definition valid_label (l : bytes) : Prop :=
  (1 <= length l <= 63)%nat /\ Forall label_char l /\
  head l <> Some 45%N /\ last l <> Some 45%N.

Definition valid_tld (l : bytes) : Prop :=
  valid_label l /\ (length l <= 16)%nat /\ exists c, head l = Some c /\ lower c.

Definition valid_name (s : bytes) : Prop :=
  (3 <= length s <= 255)%nat /\
  exists labels tld, s = join 46 (labels ++ [tld]) /\ Forall valid_label labels /\ valid_tld tld.

Definition lowerb (c : N) : bool := ((97 <=? c) && (c <=? 122))%N.
Definition digitb (c : N) : bool := ((48 <=? c) && (c <=? 57))%N.
Definition label_charb (c : N) : bool := lowerb c || digitb c || (c =? 45)%N.
Definition is45 (o : option N) : bool := match o with Some c => (c =? 45)%N | None => false end.
Definition valid_labelb (l : bytes) : bool :=
  (1 <=? length l)%nat && (length l <=? 63)%nat && forallb label_charb l &&
  negb (is45 (head l)) && negb (is45 (last l)).
Definition valid_tldb (l : bytes) : bool :=
  valid_labelb l && (length l <=? 16)%nat &&
  match head l with Some c => lowerb c | None => false end.
Fixpoint labels_okb (ls : list bytes) : bool :=
  match ls with
  | [] => false
  | l :: ls' => match ls' with [] => valid_tldb l | _ :: _ => valid_labelb l && labels_okb ls' end
  end.
Definition valid_nameb (s : bytes) : bool :=
  (3 <=? length s)%nat && (length s <=? 255)%nat && labels_okb (fields 46 s).

(* ------------------------------------------------------------------ *)
(** ** A: canonical dotted quad (four decimal octets: digits only, no leading
    zero, at most 255) of a public unicast address.  The exclusions are the
    ones the source documents: 0/8, 10/8, 127/8, 224/3 (multicast and
    reserved), 169.254/16, 172.16/12, 192.168/16, host byte 0 or 255. *)
Definition dec_val (f : bytes) : Z := fold_left (fun a c => 10 * a + (Z.of_N c - 48)) f 0.

Definition octet (f : bytes) (n : Z) : Prop :=
  f <> [] /\ Forall digit f /\ (head f = Some 48%N -> f = [48%N]) /\ n = dec_val f /\ n <= 255.

Definition canonical_ipv4 (s : bytes) (a b c d : Z) : Prop :=
  exists fa fb fc fd, s = join 46 [fa; fb; fc; fd] /\
    octet fa a /\ octet fb b /\ octet fc c /\ octet fd d.

Definition public_unicast4 (a b c d : Z) : Prop :=
  a <> 0 /\ a <> 10 /\ a <> 127 /\ a < 224 /\
  ~ (a = 169 /\ b = 254) /\ ~ (a = 172 /\ 16 <= b <= 31) /\ ~ (a = 192 /\ b = 168) /\
  d <> 0 /\ d <> 255.

Definition valid_A (s : bytes) : Prop :=
  exists a b c d, canonical_ipv4 s a b c d /\ public_unicast4 a b c d.

Definition octetb (f : bytes) : option Z :=
  if negb (length f =? 0)%nat && forallb digitb f &&
     (match f with c :: _ :: _ => negb (c =? 48)%N | _ => true end) &&
     (dec_val f <=? 255)
  then Some (dec_val f) else None.
Definition public_unicast4b (a b c d : Z) : bool :=
  negb (a =? 0) && negb (a =? 10) && negb (a =? 127) && (a <? 224) &&
  negb ((a =? 169) && (b =? 254)) && negb ((a =? 172) && (16 <=? b) && (b <=? 31)) &&
  negb ((a =? 192) && (b =? 168)) && negb (d =? 0) && negb (d =? 255).
Definition valid_Ab (s : bytes) : bool :=
  match fields 46 s with
  | [fa; fb; fc; fd] =>
      match octetb fa, octetb fb, octetb fc, octetb fd with
      | Some a, Some b, Some c, Some d => public_unicast4b a b c d
      | _, _, _, _ => false
      end
  | _ => false
  end.

(* ------------------------------------------------------------------ *)
(** ** AAAA: RFC 4291 §2.2 text, forms 1 and 2 (no embedded IPv4): eight
    groups of 1..4 hexadecimal digits of either case separated by ':', or one
    "::" standing for one or more zero groups.  Global unicast per the IANA
    IPv6 address space table the source cites: 2000::/3 without 2002::/16
    (6to4) and 3ffe::/16 (6bone), and inside 2001::/16 without 2001:0000::/23
    (IETF protocol assignments) and 2001:db8::/32 (documentation). *)
Definition hexd (c : N) : option Z :=
  if ((48 <=? c) && (c <=? 57))%N then Some (Z.of_N c - 48)
  else if ((97 <=? c) && (c <=? 102))%N then Some (Z.of_N c - 97 + 10)
  else if ((65 <=? c) && (c <=? 70))%N then Some (Z.of_N c - 65 + 10)
  else None.
Definition hexdv (c : N) : Z := match hexd c with Some d => d | None => 0 end.
Definition hexval (g : bytes) : Z := fold_left (fun a c => 16 * a + hexdv c) g 0.
Definition hexgroup (g : bytes) : Prop :=
  (1 <= length g <= 4)%nat /\ Forall (fun c => hexd c <> None) g.

Inductive textual_ipv6 : bytes -> list Z -> Prop :=
| T6_full G :
    length G = 8%nat -> Forall hexgroup G ->
    textual_ipv6 (join 58 G) (map hexval G)
| T6_compressed L R :
    Forall hexgroup L -> Forall hexgroup R -> (length L + length R <= 7)%nat ->
    textual_ipv6 (join 58 L ++ [58; 58]%N ++ join 58 R)
                 (map hexval L ++ repeat 0 (8 - length L - length R) ++ map hexval R).

Definition global_unicast6 (g : list Z) : Prop :=
  exists g0 g1 rest, g = g0 :: g1 :: rest /\
    0x2000 <= g0 <= 0x3fff /\ g0 <> 0x2002 /\ g0 <> 0x3ffe /\
    (g0 = 0x2001 -> 0x200 <= g1 /\ g1 <> 0xdb8).

Definition valid_AAAA (s : bytes) : Prop :=
  exists g, textual_ipv6 s g /\ global_unicast6 g.

Definition hexgroupb (g : bytes) : bool :=
  (1 <=? length g)%nat && (length g <=? 4)%nat &&
  forallb (fun c => match hexd c with Some _ => true | None => false end) g.
(** One side of "::": absent (its field is the empty string) or a non-empty
    list of groups. *)
Definition side6 (x : list bytes) : option (list Z) :=
  match x with
  | [] => None
  | [[]] => Some []
  | _ => if forallb hexgroupb x then Some (map hexval x) else None
  end.
Definition form1_6 (fs : list bytes) : option (list Z) :=
  if (length fs =? 8)%nat && forallb hexgroupb fs then Some (map hexval fs) else None.
(** Form 2 with the "::" being the (empty) field number [k]. *)
Definition form2_6 (fs : list bytes) (k : nat) : option (list Z) :=
  match nth_error fs k with
  | Some [] =>
      match side6 (firstn k fs), side6 (skipn (S k) fs) with
      | Some L, Some R =>
          if (length L + length R <=? 7)%nat
          then Some (L ++ repeat 0 (8 - length L - length R) ++ R) else None
      | _, _ => None
      end
  | _ => None
  end.
Definition olist {A} (o : option A) : list A := match o with Some x => [x] | None => [] end.
(** All readings of a string (there is at most one). *)
Definition ipv6_readings (s : bytes) : list (list Z) :=
  let fs := fields 58 s in
  olist (form1_6 fs) ++ flat_map (fun k => olist (form2_6 fs k)) (seq 0 (length fs)).
Definition global_unicast6b (g : list Z) : bool :=
  match g with
  | g0 :: g1 :: _ =>
      (0x2000 <=? g0) && (g0 <=? 0x3fff) && negb (g0 =? 0x2002) && negb (g0 =? 0x3ffe) &&
      (negb (g0 =? 0x2001) || ((0x200 <=? g1) && negb (g1 =? 0xdb8)))
  | _ => false
  end.
Definition valid_AAAAb (s : bytes) : bool := existsb global_unicast6b (ipv6_readings s).

(* ------------------------------------------------------------------ *)
(** ** Record data by type: A = 1, CNAME = 5, TXT = 16, AAAA = 28; no other
    type carries data that addRecord / setRecord may accept. *)
Definition valid_record_data (typ : Z) (data : bytes) : Prop :=
  (typ = 1 /\ valid_A data) \/ (typ = 5 /\ valid_name data) \/
  (typ = 16 /\ (length data <= 255)%nat) \/ (typ = 28 /\ valid_AAAA data).

Definition valid_record_datab (typ : Z) (data : bytes) : bool :=
  if typ =? 1 then valid_Ab data
  else if typ =? 5 then valid_nameb data
  else if typ =? 16 then (length data <=? 255)%nat
  else if typ =? 28 then valid_AAAAb data
  else false.

(** The strings of (repaired) finding F12: seven groups followed by "::"
    (RFC-valid, the "::" standing for one zero group; nine ':'-fields).  Used
    only by the historical statements about the code before 7bd3a2c. *)
Definition f12_shape (s : bytes) : Prop :=
  exists L, length L = 7%nat /\ Forall hexgroup L /\ s = join 58 L ++ [58; 58]%N.
Definition f12_shapeb (s : bytes) : bool :=
  match fields 58 s with
  | [a; b; c; d; e; f; g; []; []] => forallb hexgroupb [a; b; c; d; e; f; g]
  | _ => false
  end.
