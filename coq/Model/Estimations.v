(** Model/Estimations.v — container size estimations of
    contracts/container/contract.go (PutContainerSize, GetContainerSize,
    ListContainerSizes, IterateContainerSizes, IterateAllContainerSizes,
    NewEpoch -> cleanupContainers, updateEstimations).
    Estimation key:  "cnr" ++ int_to_bytes epoch ++ cid ++ ripemd160(pub)[:10].
    Abstractions (stated, not hidden):
    - RIPEMD-160 is abstract: the op carries [h20] = ripemd160(pub) computed by
      the harness;
    - "container exists" ([getOwnerByID(cid) != nil]), the witness of [pub] and
      membership of [pub] in the Netmap snapshot of the previous epoch
      ([isStorageNode] via netmap.snapshot(1)) are inputs of the op, observed
      by the harness on the real chain before the call;
    - std.Serialize(Estimation{From,Size}) is modelled by a length-prefixed
      encoding; the per-node epoch lists "est"++cid++h20 |-> Serialize([]int)
      are kept as a typed map (their key cannot collide with "cnr…").
    The two cleanup deltas are parameters ([containerconst.CleanupDelta] = 3,
    [TotalCleanupDelta] = 4).  No proofs here. *)
From Verif Require Import Base.Prelude Base.IntCodec Model.StoreLib.
Local Open Scope Z_scope.

Definition cnr_pfx : bytes := [99; 110; 114]%N.   (* "cnr" *)
Definition cid_size : nat := 32.
Definition postfix_size : nat := 10.

Record estate := mkE { ests : store; elists : gmap bytes (list Z) }.
Definition einit : estate := mkE ∅ ∅.

Definition enc_est (pub : bytes) (size : Z) : bytes :=
  N.of_nat (length pub) :: pub ++ int_to_bytes size.
Definition dec_est (v : bytes) : val :=
  match v with
  | [] => VNull
  | n :: r => VList [VBytes (take (N.to_nat n) r); VInt (bytes_to_int (drop (N.to_nat n) r))]
  end.

(** [estimationKey] *)
Definition ekey (e : Z) (cid h20 : bytes) : bytes :=
  cnr_pfx ++ int_to_bytes e ++ cid ++ take postfix_size h20.

Inductive eop :=
| EPut (exists_ wit innet : bool) (e : Z) (cid : bytes) (size : Z) (pub h20 : bytes)
| ETick (alpha : bool) (n : Z).

Section Deltas.
  Variables (d1 d2 : Z).  (* CleanupDelta, TotalCleanupDelta *)

  (** [updateEstimations] with isUpdate = false *)
  Definition update_estimations (s : estate) (e : Z) (cid h20 : bytes) : outcome estate :=
    let est_key := cid ++ h20 in
    _ <-! oassert (3 + length est_key <=? 64)%nat;
    let old := default [] (elists s !! est_key) in
    let '(st, keep) :=
      fold_left (fun (acc : store * list Z) (oe : Z) =>
                   if e - oe >? d1 then (delete (ekey oe cid h20) (fst acc), snd acc)
                   else (fst acc, snd acc ++ [oe]))
                old (ests s, []) in
    Halt (mkE st (<[est_key := keep ++ [e]]> (elists s))).

  (** [PutContainerSize] *)
  Definition eput (s : estate) (exists_ wit innet : bool) (e : Z) (cid : bytes) (size : Z)
      (pub h20 : bytes) : outcome estate :=
    _ <-! oassert exists_;
    _ <-! oassert wit;
    _ <-! oassert innet;
    st <-! sput (ekey e cid h20) (enc_est pub size) (ests s);
    update_estimations (mkE st (elists s)) e cid h20.

  (** [cleanupContainers]: the epoch is parsed from the middle of the key. *)
  Definition key_epoch (k : bytes) : outcome Z :=
    _ <-! oassert (3 + cid_size + postfix_size <=? length k)%nat;
    nb <-! bslice 3 (length k - cid_size - postfix_size - 3) k;
    _ <-! oassert (length nb <=? 32)%nat;
    Halt (bytes_to_int nb).

  Definition cleanup (st : store) (n : Z) : outcome store :=
    fold_left (fun acc kv =>
                 st' <-! acc;
                 ke <-! key_epoch (fst kv);
                 if n - ke >? d2 then Halt (delete (fst kv) st') else Halt st')
              (sfind cnr_pfx st) (Halt st).

  (** [NewEpoch] *)
  Definition etick (s : estate) (alpha : bool) (n : Z) : outcome estate :=
    _ <-! oassert alpha;
    st <-! cleanup (ests s) n;
    Halt (mkE st (elists s)).

  Definition eexec (s : estate) (o : eop) : outcome estate :=
    match o with
    | EPut x w i e cid size pub h20 => eput s x w i e cid size pub h20
    | ETick a n => etick s a n
    end.

  Definition estep (s : estate) (o : eop) : estate * val :=
    match eexec s o with Halt s' => (s', VNull) | Fault => (s, VFault) end.

  Definition erun (ops : list eop) : estate := fold_left (fun s o => fst (estep s o)) ops einit.
End Deltas.

(** [ListContainerSizes]: storage keys without the 10-byte postfix, unique. *)
Definition elist (st : store) (e : Z) : list bytes :=
  dedup_first [] (map (fun kv => take (length (fst kv) - postfix_size) (fst kv))
                      (sfind (cnr_pfx ++ int_to_bytes e) st)).

(** [GetContainerSize] -> (cid, values) *)
Definition eget (st : store) (id : bytes) : outcome (bytes * list bytes) :=
  _ <-! oassert ((3 + cid_size <=? length id)%nat && bytes_eqb (take 3 id) cnr_pfx);
  Halt (drop (length id - cid_size) id, map snd (sfind id st)).

(** [IterateContainerSizes] *)
Definition eiter (st : store) (e : Z) (cid : bytes) : outcome (list bytes) :=
  _ <-! oassert (length cid =? cid_size)%nat;
  Halt (map snd (sfind (cnr_pfx ++ int_to_bytes e ++ cid) st)).

(** [IterateAllContainerSizes]: (key without the Find prefix, value). *)
Definition eiter_all (st : store) (e : Z) : list (bytes * bytes) :=
  map (fun kv => (drop (3 + length (int_to_bytes e)) (fst kv), snd kv))
      (sfind (cnr_pfx ++ int_to_bytes e) st).

Definition eobserve (q : list Z * list bytes) (s : estate) (r : val) : val :=
  let '(es, cs) := q in
  let st := ests s in
  VList [ r;
          VList (map (fun e => VBytesList (elist st e)) es);
          VList (map (fun e => VList (map (fun c =>
                   match eiter st e c with
                   | Halt l => VList (map dec_est l) | Fault => VFault end) cs)) es);
          VList (map (fun e => VList (map (fun kv => VList [VBytes (fst kv); dec_est (snd kv)])
                                          (eiter_all st e))) es);
          VList (map (fun id => match eget st id with
                                | Halt (c, l) => VList [VBytes c; VList (map dec_est l)]
                                | Fault => VFault end) (elist st 0)) ].

Definition estep_obs (d : Z * Z) (q : list Z * list bytes) (s : estate) (o : eop) : estate * val :=
  let '(s', r) := estep (fst d) (snd d) s o in (s', eobserve q s' r).

(** case = ((CleanupDelta, TotalCleanupDelta) read by the harness from
    containerconst, (epochs, cids), trace) *)
Definition echeck_case (c : (Z * Z) * (list Z * list bytes) * list (eop * val)) :=
  let '(d, q, tr) := c in run_case (estep_obs d q) einit 0 tr.
