(** Model/Estimations.v — container size estimations of
    contracts/container/contract.go (PutContainerSize, GetContainerSize,
    ListContainerSizes, IterateContainerSizes, IterateAllContainerSizes,
    NewEpoch -> cleanupContainers, updateEstimations).
    Estimation key:  "cnr" ++ int_to_bytes epoch ++ cid ++ ripemd160(pub)[:10].
    Abstractions (stated, not hidden):
    - RIPEMD-160 is abstract: the op carries [h20] = ripemd160(pub) computed by
      the harness;
    - the environment of a call is part of the op, read by the harness on the
      real chain just before the call: [live] = the ids of the containers that
      exist ([getOwnerByID(cid) != nil]; ids are SHA-256 digests computed by
      the contract's own Put, 32 bytes), [wit] = the public keys witnessing
      the transaction, [prev] = the node keys of the Netmap snapshot of the
      previous epoch ([isStorageNode] via netmap.snapshot(1), info[2:35]);
    - std.Serialize(Estimation{From,Size}) is modelled by a length-prefixed
      encoding (observed only through DeserializeValues); the per-node epoch
      lists "est"++cid++h20 |-> Serialize([]int) are kept as a typed map
      keyed by cid++h20 (a key starting with "est" cannot collide with
      "cnr…"), with the limits of std.Serialize (2048 items) and of
      storage.Put (65535 value bytes) made explicit.
    The two cleanup deltas are parameters ([containerconst.CleanupDelta] = 3,
    [TotalCleanupDelta] = CleanupDelta + 1 = 4), read by the harness from the
    Go package.  No proofs here. *)
From Verif Require Import Base.Prelude Base.IntCodec Model.StoreLib.
Local Open Scope Z_scope.

Definition cnr_pfx : bytes := [99; 110; 114]%N.   (* "cnr" *)
Definition cid_size : nat := 32.                  (* containerIDSize *)
Definition postfix_size : nat := 10.              (* estimatePostfixSize *)

Record estate := mkE { ests : store; elists : gmap bytes (list Z) }.
Definition einit : estate := mkE ∅ ∅.

Definition enc_est (pub : bytes) (size : Z) : bytes :=
  N.of_nat (length pub) :: pub ++ int_to_bytes size.
Definition dec_est (v : bytes) : val :=
  match v with
  | [] => VNull
  | n :: r => VList [VBytes (take (N.to_nat n) r); VInt (bytes_to_int (drop (N.to_nat n) r))]
  end.

(** Size of std.Serialize([]int): Array tag, var-uint count, then per item an
    Integer tag, one length byte and the minimal little-endian bytes. *)
Definition varuint_len (n : nat) : Z :=
  if Z.of_nat n <? 253 then 1 else if Z.of_nat n <? 65536 then 3 else 5.
Definition ser_ints_len (l : list Z) : Z :=
  1 + varuint_len (length l)
  + fold_right (fun e acc => 2 + Z.of_nat (length (int_to_bytes e)) + acc) 0 l.
(** stackitem.MaxSerialized = 2048 items, the array itself included;
    limits.MaxStorageValueLen = 65535. *)
Definition ser_ints_ok (l : list Z) : bool :=
  (Z.of_nat (length l) + 1 <=? 2048) && (ser_ints_len l <=? 65535).

(** The capacity actually met on the compiled contract: while the old and the
    new epoch list are both alive the VM's live-item limit (2048) is hit first
    ("stack is too big"): the estimation that would make a list of more than
    [cap_limit] epochs faults.  [cap_limit] is MEASURED by the harness on every
    run and compared with this constant (cases_C20_cap.v). *)
Definition cap_limit : Z := 1007.
Definition cap_real (l : list Z) : bool := (Z.of_nat (length l) <=? cap_limit) && ser_ints_ok l.

(** [estimationKey] *)
Definition ekey (e : Z) (cid h20 : bytes) : bytes :=
  cnr_pfx ++ int_to_bytes e ++ cid ++ take postfix_size h20.

Inductive eop :=
| EPut (live wit prev : list bytes) (e : Z) (cid : bytes) (size : Z) (pub h20 : bytes)
| ETick (alpha : bool) (n : Z).

Section Deltas.
  Variables (d1 d2 : Z).  (* CleanupDelta, TotalCleanupDelta *)
  (** Capacity of the platform for a node's epoch list (std.Serialize item
      limit, storage value limit, live-item limit of the VM stack while the
      old and the new list coexist).  The theorems hold for EVERY capacity
      predicate; the correspondence check instantiates it with [cap_real],
      whose constant is measured on the compiled contract on every run. *)
  Variable cap : list Z -> bool.

  (** The loop of [updateEstimations] (isUpdate = false) over the node's old
      epoch list: [epoch-oldEpoch > CleanupDelta] deletes the old key. *)
  Definition upd_loop (e : Z) (cid h20 : bytes) (old : list Z) (st : store)
      : outcome (store * list Z) :=
    fold_left (fun acc oe =>
                 '(st', keep) <-! acc;
                 d <-! vm_sub e oe;
                 if d >? d1 then Halt (delete (ekey oe cid h20) st', keep)
                 else Halt (st', keep ++ [oe]))
              old (Halt (st, [])).

  (** [updateEstimations] *)
  Definition update_estimations (s : estate) (e : Z) (cid h20 : bytes) : outcome estate :=
    let est_key := cid ++ h20 in
    let old := default [] (elists s !! est_key) in
    '(st, keep) <-! upd_loop e cid h20 old (ests s);
    let new := keep ++ [e] in
    (* common.SetSerialized: std.Serialize, then storage.Put("est"++cid++h, …) *)
    _ <-! oassert ((3 + length est_key <=? 64)%nat && cap new);
    Halt (mkE st (<[est_key := new]> (elists s))).

  (** [PutContainerSize] *)
  Definition eput (s : estate) (live wit prev : list bytes) (e : Z) (cid : bytes) (size : Z)
      (pub h20 : bytes) : outcome estate :=
    _ <-! oassert (existsb (bytes_eqb cid) live);   (* getOwnerByID(ctx, cid) != nil *)
    _ <-! oassert (existsb (bytes_eqb pub) wit);    (* common.CheckWitness(pubKey) *)
    _ <-! oassert (existsb (bytes_eqb pub) prev);   (* isStorageNode: netmap.snapshot(1) *)
    st <-! sput (ekey e cid h20) (enc_est pub size) (ests s);
    update_estimations (mkE st (elists s)) e cid h20.

  (** [cleanupContainers]: the epoch is parsed from the middle of the key,
      [k[3 : len(k)-32-10]], and converted to an integer (at most 32 bytes). *)
  Definition key_epoch (k : bytes) : outcome Z :=
    _ <-! oassert (3 + cid_size + postfix_size <=? length k)%nat;
    nb <-! bslice 3 (length k - cid_size - postfix_size - 3) k;
    _ <-! oassert (length nb <=? 32)%nat;
    Halt (bytes_to_int nb).

  Definition cleanup (st : store) (n : Z) : outcome store :=
    fold_left (fun acc kv =>
                 st' <-! acc;
                 ke <-! key_epoch (fst kv);
                 d <-! vm_sub n ke;
                 if d >? d2 then Halt (delete (fst kv) st') else Halt st')
              (sfind cnr_pfx st) (Halt st).

  (** [NewEpoch] *)
  Definition etick (s : estate) (alpha : bool) (n : Z) : outcome estate :=
    _ <-! oassert alpha;
    st <-! cleanup (ests s) n;
    Halt (mkE st (elists s)).

  Definition eexec (s : estate) (o : eop) : outcome estate :=
    match o with
    | EPut live wit prev e cid size pub h20 => eput s live wit prev e cid size pub h20
    | ETick a n => etick s a n
    end.

  Definition estep (s : estate) (o : eop) : estate * val :=
    match eexec s o with Halt s' => (s', VNull) | Fault => (s, VFault) end.

  Definition erun (ops : list eop) : estate := fold_left (fun s o => fst (estep s o)) ops einit.
End Deltas.

(** [ListContainerSizes]: storage keys without the 10-byte postfix
    ([storageKey[:ln-10]] faults on a shorter key), unique, in insertion
    order of the NeoVM map. *)
Definition cut_postfix (k : bytes) : outcome bytes :=
  _ <-! oassert (postfix_size <=? length k)%nat;
  Halt (take (length k - postfix_size) k).
Fixpoint omapM {A B} (f : A -> outcome B) (l : list A) : outcome (list B) :=
  match l with
  | [] => Halt []
  | x :: l' => y <-! f x; r <-! omapM f l'; Halt (y :: r)
  end.
Definition elist (st : store) (e : Z) : outcome (list bytes) :=
  l <-! omapM (fun kv => cut_postfix (fst kv)) (sfind (cnr_pfx ++ int_to_bytes e) st);
  Halt (dedup_first [] l).

(** [GetContainerSize] -> (cid, values) *)
Definition eget (st : store) (id : bytes) : outcome (bytes * list bytes) :=
  _ <-! oassert ((3 + cid_size <=? length id)%nat && bytes_eqb (take 3 id) cnr_pfx);
  vals <-! with_key id (map snd (sfind id st));   (* a scan prefix > 64 bytes faults *)
  Halt (drop (length id - cid_size) id, vals).

(** [IterateContainerSizes] *)
Definition eiter (st : store) (e : Z) (cid : bytes) : outcome (list bytes) :=
  _ <-! oassert (length cid =? cid_size)%nat;
  with_key (cnr_pfx ++ int_to_bytes e ++ cid)     (* a scan prefix > 64 bytes faults *)
           (map snd (sfind (cnr_pfx ++ int_to_bytes e ++ cid) st)).

(** [IterateAllContainerSizes]: (key without the Find prefix, value). *)
Definition eiter_all (st : store) (e : Z) : list (bytes * bytes) :=
  map (fun kv => (drop (3 + length (int_to_bytes e)) (fst kv), snd kv))
      (sfind (cnr_pfx ++ int_to_bytes e) st).

(** Observables after every op, for the history's pools of epochs and
    container ids: the four listings, and GetContainerSize on every id that
    ListContainerSizes(0) returns (epoch 0 encodes to the empty string, so this
    is every id). *)
Definition eobserve (q : list Z * list bytes) (s : estate) (r : val) : val :=
  let '(es, cs) := q in
  let st := ests s in
  VList [ r;
          VList (map (fun e => match elist st e with Halt l => VBytesList l | Fault => VFault end) es);
          VList (map (fun e => VList (map (fun c =>
                   match eiter st e c with
                   | Halt l => VList (map dec_est l) | Fault => VFault end) cs)) es);
          VList (map (fun e => VList (map (fun kv => VList [VBytes (fst kv); dec_est (snd kv)])
                                          (eiter_all st e))) es);
          match elist st 0 with
          | Halt ids =>
              VList (map (fun id => match eget st id with
                                    | Halt (c, l) => VList [VBytes c; VList (map dec_est l)]
                                    | Fault => VFault end) ids)
          | Fault => VFault
          end ].

Definition estep_obs (d : Z * Z) (q : list Z * list bytes) (s : estate) (o : eop) : estate * val :=
  let '(s', r) := estep (fst d) (snd d) cap_real s o in (s', eobserve q s' r).

(** case = ((CleanupDelta, TotalCleanupDelta) read by the harness from
    containerconst, (epochs, cids), trace) *)
Definition echeck_case (c : (Z * Z) * (list Z * list bytes) * list (eop * val)) :=
  let '(d, q, tr) := c in run_case (estep_obs d q) einit 0 tr.
