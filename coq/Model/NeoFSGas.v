(** Model/NeoFSGas.v — executable model of contracts/neofs/contract.go, the
    GAS side: [OnNEP17Payment], [Withdraw], [Cheque],
    [InnerRingCandidateAdd/Remove], [Bind/Unbind], and the two methods that
    change what the former read ([SetConfig], [AlphabetUpdate]); both modes
    (notary enabled / disabled).  Same guards, same order as the Go source.
    The vote collection of common/vote.go is restated here so that this family
    is self-contained (C17 studies it in its own right).  No proofs here.

    The methods are parametric in [cb], the [onNEP17Payment] of whatever is
    deployed at the receiver of a GAS transfer (Model/GasWorld.v instantiates
    it with the deployed contracts). *)
From Verif Require Import Base.Prelude Base.IntCodec Model.Gas.
Local Open Scope Z_scope.

(** Constants of the source. *)
Definition max_balance_amount : Z := 9000.
Definition max_balance_amount_gas : Z := max_balance_amount * 100000000.
(** [ignoreDepositNotification = "\x57\x0b"] *)
Definition marker : bytes := [87; 11]%N.
(** "WithdrawFee", "InnerRingCandidateFee" *)
Definition withdraw_fee_key : bytes := [87;105;116;104;100;114;97;119;70;101;101]%N.
Definition candidate_fee_key : bytes :=
  [73;110;110;101;114;82;105;110;103;67;97;110;100;105;100;97;116;101;70;101;101]%N.
(** "delete" *)
Definition delete_suffix : bytes := [100;101;108;101;116;101]%N.

(** ** common/vote.go *)
Record ballot := mkBallot { bid : bytes; voters : list bytes; bheight : Z }.
Definition block_diff : Z := 20.
Definition expired (h : Z) (b : ballot) : bool := h - bheight b >? block_diff.

Fixpoint vote_loop (id from : bytes) (h : Z) (cands : list ballot) (found : Z)
  : Z + (list ballot * Z) :=
  match cands with
  | [] => inr ([], found)
  | cnd :: rest =>
      if expired h cnd then vote_loop id from h rest found
      else if bytes_eqb (bid cnd) id then
        if inb from (voters cnd) then inl (Z.of_nat (length (voters cnd)))
        else
          let vs := voters cnd ++ [from] in
          match vote_loop id from h rest (Z.of_nat (length vs)) with
          | inl n => inl n
          | inr (nc, f) => inr (mkBallot id vs h :: nc, f)
          end
      else
        match vote_loop id from h rest found with
        | inl n => inl n
        | inr (nc, f) => inr (cnd :: nc, f)
        end
  end.

Definition vote (bs : list ballot) (id from : bytes) (h : Z) : list ballot * Z :=
  match vote_loop id from h bs (-1) with
  | inl n => (bs, n)
  | inr (nc, found) =>
      if found <? 0 then (nc ++ [mkBallot id [from] h], 1) else (nc, found)
  end.

Fixpoint find_idx (id : bytes) (bs : list ballot) (i : nat) : option nat :=
  match bs with
  | [] => None
  | b :: rest => if bytes_eqb (bid b) id then Some i else find_idx id rest (S i)
  end.

(** [RemoveVotes]: index of the first ballot with that id, 0 if none;
    [util.Remove] out of range faults. *)
Definition remove_votes (bs : list ballot) (id : bytes) : outcome (list ballot) :=
  let i := match find_idx id bs O with Some i => i | None => O end in
  if (i <? length bs)%nat then Halt (delete i bs) else Fault.

Definition threshold (alphabet : list bytes) : Z :=
  Z.of_nat (length alphabet) * 2 / 3 + 1.

(** <<n := common.Vote(ctx, id, nodeKey); if n < threshold { return }; common.RemoveVotes(ctx, id)>> *)
Definition collect (alphabet : list bytes) (bs : list ballot) (id from : bytes) (h : Z)
  : outcome (list ballot * bool) :=
  let '(bs1, n) := vote bs id from h in
  if n <? threshold alphabet then Halt (bs1, false)
  else bs2 <-! remove_votes bs1 id; Halt (bs2, true).

(** ** Contract state *)
Record fstate := mkF {
  notary_off : bool;            (* storage "notary" *)
  procH : bytes;                (* storage "processingScriptHash" *)
  alphabet : list bytes;        (* storage "alphabet" (deserialised) *)
  cands : gmap bytes unit;      (* storage "candidates" ++ key *)
  config : gmap bytes bytes;    (* storage "config" ++ key *)
  ballots : list ballot         (* storage "ballots" *)
}.

Record world := mkW { gas : ledger; fs : fstate }.

Definition set_ballots (s : fstate) (b : list ballot) : fstate :=
  mkF (notary_off s) (procH s) (alphabet s) (cands s) (config s) b.

(** ** OnNEP17Payment
    [caller]: calling script hash; [tx]: hash of the script container. *)
Definition neofs_on_payment (gasHash tx caller from : bytes) (amount : Z) (d : data)
  : outcome (list ev) :=
  rcv <-! data_bytes d;                                  (* rcv := data.(interop.Hash160) *)
  if match rcv with Some b => bytes_eqb b marker | None => false end
  then Halt []                                           (* rcv.Equals(ignoreDepositNotification) *)
  else if amount <=? 0 then Fault                        (* "amount must be positive" *)
  else if max_balance_amount_gas <? amount then Fault    (* "out of max amount limit" *)
  else if negb (bytes_eqb caller gasHash) then Fault     (* "only GAS can be accepted for deposit" *)
  else
    r <-! match rcv with
          | None => Halt from                            (* len(nil) = 0 *)
          | Some b => if hash_len b then Halt b
                      else if (length b =? 0)%nat then Halt from
                      else Fault                         (* "invalid data argument, expected Hash160" *)
          end;
    (* runtime.Notify("Deposit", from, amount, rcv, tx.Hash): Hash160 = Null or 20 bytes *)
    _ <-! oassert (hash160_ok from && hash160_ok r);
    Halt [EDeposit from amount r tx].

(** [getConfig(ctx, key).(int)]: Null when unset (the native call then rejects
    it: [None]); CONVERT to Integer faults on more than 32 bytes. *)
Definition config_int (s : fstate) (k : bytes) : outcome (option Z) :=
  match config s !! k with
  | None => Halt None
  | Some b => if (length b <=? 32)%nat then Halt (Some (bytes_to_int b)) else Fault
  end.

(** [common.InnerRingInvoker(ir)] followed by <<if len(nodeKey) == 0 { panic }>>. *)
Fixpoint inner_ring_invoker (e : env) (c : ctx) (nodes : list bytes) : outcome (option bytes) :=
  match nodes with
  | [] => Halt None
  | node :: rest =>
      w <-! check_witness e c node;
      if w then Halt (Some node) else inner_ring_invoker e c rest
  end.
Definition alphabet_invoker (e : env) (c : ctx) (s : fstate) : outcome bytes :=
  r <-! inner_ring_invoker e c (alphabet s);
  match r with
  | None => Fault
  | Some k => if (length k =? 0)%nat then Fault else Halt k
  end.

(** The authorisation block of Cheque / SetConfig / AlphabetUpdate: new ballot
    list and "go on with the action". *)
Definition alpha_gate (e : env) (c : ctx) (s : fstate) (id : bytes) : outcome (list ballot * bool) :=
  if notary_off s then
    nodeKey <-! alphabet_invoker e c s;
    collect (alphabet s) (ballots s) id nodeKey (height c)
  else
    _ <-! oassert (inb (alpha_addr c) (wit c));          (* common.CheckAlphabetWitness() *)
    Halt (ballots s, true).

Section Methods.
  Variable cb : callback.
  Variable e : env.
  Variable c : ctx.

  (** [gas.Transfer(from, to, fee, data)] called by NeoFS; [None] = Null amount. *)
  Definition fs_transfer (l : ledger) (f t : bytes) (a : option Z) (d : data)
    : outcome (ledger * bool * list ev) :=
    match a with
    | None => Fault
    | Some a => gas_transfer cb (gasH e) (bytes_eqb f (fsH e) || inb f (wit c)) l f t a d
    end.

  (** The loop of Withdraw in notary-disabled mode. *)
  Fixpoint withdraw_nodes (user : bytes) (fee : option Z) (nodes : list bytes) (l : ledger)
      (ns : list ev) : outcome (ledger * list ev) :=
    match nodes with
    | [] => Halt (l, ns)
    | node :: rest =>
        addr <-! std_acc_o e node;                        (* contract.CreateStandardAccount(node) *)
        '(l1, ok, ns1) <-! fs_transfer l user addr fee (DBytes []);
        _ <-! oassert ok;                                 (* "failed to transfer withdraw fee, aborting" *)
        withdraw_nodes user fee rest l1 (ns ++ ns1)
    end.

  Definition neofs_withdraw (w : world) (user : bytes) (amount : Z) : outcome (world * list ev) :=
    ok <-! check_witness e c user;
    _ <-! oassert ok;                                     (* "you should be the owner of the wallet" *)
    if amount <? 0 then Fault else                        (* "non positive amount number" *)
    if amount >? max_balance_amount then Fault else       (* "out of max amount limit" *)
    let s := fs w in
    fee <-! config_int s withdraw_fee_key;
    '(l, ns) <-! (if notary_off s then withdraw_nodes user fee (alphabet s) (gas w) []
                  else
                    '(l1, ok, ns1) <-! fs_transfer (gas w) user (procH s) fee (DBytes []);
                    _ <-! oassert ok;
                    Halt (l1, ns1));
    _ <-! oassert (hash160_ok user);                      (* Notify("Withdraw", user, ...) *)
    Halt (mkW l s, ns ++ [EWithdraw user (amount * 100000000) (txhash c)]).

  Definition neofs_cheque (w : world) (id user : bytes) (amount : Z) (lock : bytes)
    : outcome (world * list ev) :=
    let s := fs w in
    '(bs, go) <-! alpha_gate e c s id;
    let s' := set_ballots s bs in
    if negb go then Halt (mkW (gas w) s', []) else
    '(l, ok, ns) <-! gas_transfer cb (gasH e) true (gas w) (fsH e) user amount DNull;
    _ <-! oassert ok;                                     (* "failed to transfer funds, aborting" *)
    _ <-! oassert (hash160_ok user);
    Halt (mkW l s', ns ++ [ECheque id user amount lock]).

  Definition neofs_cand_add (w : world) (key : bytes) : outcome (world * list ev) :=
    let s := fs w in
    ok <-! check_witness e c key;
    _ <-! oassert ok;                                     (* common.CheckWitness(key) *)
    if bool_decide (is_Some (cands s !! key)) then Fault else   (* "candidate already in the list" *)
    from <-! std_acc_o e key;
    fee <-! config_int s candidate_fee_key;
    '(l, ok, ns) <-! fs_transfer (gas w) from (fsH e) fee (DBytes marker);
    _ <-! oassert ok;                                     (* "failed to transfer funds, aborting" *)
    _ <-! oassert (length key <=? 54)%nat;                (* storage key limit *)
    Halt (mkW l (mkF (notary_off s) (procH s) (alphabet s) (<[key := tt]> (cands s)) (config s) (ballots s)),
          ns).

  (** sha256 of [key ++ "delete"] is modelled by the injective [key ++ "delete"]. *)
  Definition neofs_cand_remove (w : world) (key : bytes) : outcome (world * list ev) :=
    let s := fs w in
    keyOwner <-! check_witness e c key;
    '(bs, go) <-! (if keyOwner then Halt (ballots s, true)
                   else if notary_off s then
                     nodeKey <-! alphabet_invoker e c s;
                     collect (alphabet s) (ballots s) (key ++ delete_suffix) nodeKey (height c)
                   else
                     aw <-! fs_alpha_witness c;                  (* multiaddr := AlphabetAddress() *)
                     _ <-! oassert aw;
                     Halt (ballots s, true));
    if negb go then Halt (mkW (gas w) (set_ballots s bs), []) else
    Halt (mkW (gas w) (mkF (notary_off s) (procH s) (alphabet s) (delete key (cands s)) (config s) bs), []).

  Definition neofs_bind (w : world) (unbind : bool) (user : bytes) (keys : list bytes)
    : outcome (world * list ev) :=
    ok <-! check_witness e c user;
    _ <-! oassert ok;
    _ <-! oassert (forallb key_len keys);                 (* "incorrect public key size" *)
    _ <-! oassert (hash160_ok user);
    Halt (w, [if unbind then EUnbind user keys else EBind user keys]).

  Definition neofs_set_config (w : world) (id key val : bytes) : outcome (world * list ev) :=
    let s := fs w in
    '(bs, go) <-! alpha_gate e c s id;
    if negb go then Halt (mkW (gas w) (set_ballots s bs), []) else
    _ <-! oassert (length key <=? 58)%nat;                (* "config" ++ key is a storage key *)
    Halt (mkW (gas w) (mkF (notary_off s) (procH s) (alphabet s) (cands s) (<[key := val]> (config s)) bs),
          [ESetConfig id key val]).

  Definition neofs_alphabet_update (w : world) (id : bytes) (keys : list bytes)
    : outcome (world * list ev) :=
    let s := fs w in
    _ <-! oassert (negb (length keys =? 0)%nat);          (* "bad arguments" *)
    '(bs, go) <-! alpha_gate e c s id;
    _ <-! oassert (forallb key_len keys);                 (* "invalid public key in alphabet list" *)
    if negb go then Halt (mkW (gas w) (set_ballots s bs), []) else
    Halt (mkW (gas w) (mkF (notary_off s) (procH s) keys (cands s) (config s) bs),
          [EAlphabetUpdate id keys]).
End Methods.
