(** Model/Config.v — the network configuration maps of the Netmap contract
    (contracts/netmap/contract.go: SetConfig/Config/ListConfig, setConfig/
    getConfig) and of the NeoFS contract (contracts/neofs/contract.go, notary
    enabled).  Both keep  "config" ++ key |-> value  and list with
    Find("config").  The model state is the part of the contract storage under
    the prefix "config" (no other key of either contract starts with it:
    "snapshot…", "candidate", "containerScriptHash", "e", "2", "p", "alphabet",
    "candidates", "notary", "processingScriptHash").  No proofs here. *)
From Verif Require Import Base.Prelude Base.IntCodec Model.StoreLib.
Local Open Scope Z_scope.

Definition config_pfx : bytes := [99; 111; 110; 102; 105; 103]%N.  (* "config" *)

Inductive ckind := CNetmap | CNeoFS.

(** [SetConfig(id, key, val)].  The value argument is a stack item: the ABI
    says ByteArray, but nothing converts it before [storage.Put], so an Integer
    or a Boolean is stored in its canonical byte form (minimal little-endian
    two's complement; true = 01, false = 00) and Null makes [storage.Put]
    fault.  A byte string is stored as it is, whatever its content (it may
    look like a non-minimal integer). *)
Inductive cop :=
| CSet (alpha : bool) (id key : bytes) (v : val)
(** NeoFS deployed with notaryDisabled: [SetConfig] is one VOTE of the invoking
    Alphabet key for the decision [id].  The vote mechanics (ballots, their
    expiry, the 2n/3+1 threshold) are C17's; here only: [member] = the
    transaction is witnessed by a key of the Alphabet list, [applied] = this
    vote completes the tally of [id] (then the ballot is closed) — both read
    off the chain history by the harness's tally.  The setConfig of the
    completing invocation takes effect, with ITS arguments; any other vote of a
    member halts without touching the configuration. *)
| CVote (member applied : bool) (id key : bytes) (v : val).

Definition val_bytes (v : val) : option bytes :=
  match v with
  | VBytes b => Some b
  | VInt z => Some (int_to_bytes z)
  | VBool b => Some [if b then 1%N else 0%N]
  | _ => None
  end.
Definition is_bytes (v : val) : bool := match v with VBytes _ => true | _ => false end.

(** NeoFS emits SetConfig(id, key, val) — [runtime.Notify] checks the value
    against the manifest type ByteArray and faults on an Integer or Boolean;
    Netmap emits nothing. *)
Definition cset (kd : ckind) (s : store) (id key : bytes) (v : val) : outcome (store * list val) :=
  b <-! (match val_bytes v with Some b => Halt b | None => Fault end);
  s' <-! sput (config_pfx ++ key) b s;
  match kd with
  | CNetmap => Halt (s', [])
  | CNeoFS => _ <-! oassert (is_bytes v); Halt (s', [VList [VBytes id; VBytes key; VBytes b]])
  end.

Definition cexec (kd : ckind) (s : store) (o : cop) : outcome (store * list val) :=
  match o with
  | CSet alpha id key v => _ <-! oassert alpha; cset kd s id key v
  | CVote member applied id key v =>
      _ <-! oassert member;
      if applied then cset kd s id key v else Halt (s, [])
  end.

(** [Config]: Null when absent. *)
Definition cget (s : store) (key : bytes) : option bytes := s !! (config_pfx ++ key).

(** The call: a storage key longer than 64 bytes faults (StoreLib). *)
Definition cget_call (s : store) (key : bytes) : outcome (option bytes) :=
  with_key (config_pfx ++ key) (cget s key).

(** [ListConfig]: pairs with the prefix removed, in Find order. *)
Definition clist (s : store) : list (bytes * bytes) :=
  map (fun kv => (drop (length config_pfx) (fst kv), snd kv)) (sfind config_pfx s).

Definition cstep (kd : ckind) (s : store) (o : cop) : store * val * list val :=
  match cexec kd s o with Halt (s', ns) => (s', VNull, ns) | Fault => (s, VFault, []) end.

(** [_deploy] stores the initial pairs in order with setConfig. *)
Definition cinit (pairs : list (bytes * bytes)) : store :=
  fold_left (fun s kv => <[config_pfx ++ fst kv := snd kv]> s) pairs ∅.

Definition crun (kd : ckind) (s0 : store) (ops : list cop) : store :=
  fold_left (fun s o => fst (fst (cstep kd s o))) ops s0.

Definition opt_val (o : option bytes) : val :=
  match o with Some b => VBytes b | None => VNull end.

Definition cobserve (keys : list bytes) (s : store) (r : val) (ns : list val) : val :=
  VList [ r; VList ns;
          VList (map (fun k => match cget_call s k with Halt o => opt_val o | Fault => VFault end) keys);
          VList (map (fun kv => VList [VBytes (fst kv); VBytes (snd kv)]) (clist s)) ].

Definition cstep_obs (kd : ckind) (keys : list bytes) (s : store) (o : cop) : store * val :=
  let '(s', r, ns) := cstep kd s o in (s', cobserve keys s' r ns).

(** case = (kind, initial pairs, observed keys, trace) *)
Definition ccheck_case (c : ckind * list (bytes * bytes) * list bytes * list (cop * val)) :=
  let '(kd, init, keys, tr) := c in
  run_case (cstep_obs kd keys) (cinit init) 0 tr.
