(** Model/Reputation.v — storage-level model of contracts/reputation/contract.go.
    Keys are built byte for byte as the contract does:
      count  'c' ++ int_to_bytes epoch ++ peerID                 |-> int_to_bytes cnt
      value  'r' ++ int_to_bytes epoch ++ peerID ++ int_to_bytes cnt |-> value
    No proofs here. *)
From Verif Require Import Base.Prelude Base.IntCodec Model.StoreLib.
Local Open Scope Z_scope.

Definition rep_cnt_pfx : N := 99.   (* 'c' *)
Definition rep_val_pfx : N := 114.  (* 'r' *)

(** [storageID] *)
Definition rep_id (e : Z) (p : bytes) : bytes := int_to_bytes e ++ p.

(** [Put]; [alpha] = the Alphabet multi-signature account witnesses the
    transaction ([common.CheckAlphabetWitness]). *)
Inductive rop := RPut (alpha : bool) (e : Z) (p v : bytes).

Definition rput (s : store) (alpha : bool) (e : Z) (p v : bytes) : outcome store :=
  _ <-! oassert alpha;
  let id := rep_id e p in
  let ck := rep_cnt_pfx :: id in
  let cnt := match s !! ck with Some raw => bytes_to_int raw | None => 0 end in
  cnt' <-! vm_add cnt 1;
  s1 <-! sput ck (int_to_bytes cnt') s;
  (* key[0] = 'r'; key = append(key, ToBytes(cnt)...) *)
  sput (rep_val_pfx :: id ++ int_to_bytes cnt') v s1.

(** [GetByID], [Get], [ListByEpoch]: first the result of the prefix scan, then
    the calls (a scan prefix longer than 64 bytes faults, see StoreLib). *)
Definition rget_by_id (s : store) (id : bytes) : list bytes :=
  map snd (sfind (rep_val_pfx :: id) s).
Definition rget (s : store) (e : Z) (p : bytes) : list bytes := rget_by_id s (rep_id e p).
Definition rlist (s : store) (e : Z) : list bytes :=
  map (fun kv => drop 1 (fst kv)) (sfind (rep_cnt_pfx :: int_to_bytes e) s).

Definition rget_by_id_call (s : store) (id : bytes) : outcome (list bytes) :=
  with_key (rep_val_pfx :: id) (rget_by_id s id).
Definition rget_call (s : store) (e : Z) (p : bytes) : outcome (list bytes) :=
  rget_by_id_call s (rep_id e p).

Definition rexec (s : store) (o : rop) : outcome store :=
  match o with RPut alpha e p v => rput s alpha e p v end.

(** Transaction wrapper: a fault changes nothing. *)
Definition rstep (s : store) (o : rop) : store * val :=
  match rexec s o with Halt s' => (s', VNull) | Fault => (s, VFault) end.

Definition rrun (ops : list rop) : store := fold_left (fun s o => fst (rstep s o)) ops ∅.

(** Accepted puts of a history, in order: the reference the property talks
    about ("what was put"), keyed by the numbers. *)
Fixpoint rlog_from (s : store) (ops : list rop) : list (Z * bytes * bytes) :=
  match ops with
  | [] => []
  | RPut alpha e p v as o :: ops' =>
      match rexec s o with
      | Halt s' => (e, p, v) :: rlog_from s' ops'
      | Fault => rlog_from s ops'
      end
  end.
Definition rlog (ops : list rop) := rlog_from ∅ ops.

(** Observables of the correspondence check: after every op, for the
    history's pools of epochs and peers, every listing and getter. *)
Definition out_list (o : outcome (list bytes)) : val :=
  match o with Halt l => VBytesList l | Fault => VFault end.
Definition robserve (q : list Z * list bytes) (s : store) (r : val) : val :=
  let '(es, ps) := q in
  VList [ r;
          VList (map (fun e => VBytesList (rlist s e)) es);
          VList (map (fun e => VList (map (fun p => out_list (rget_call s e p)) ps)) es);
          VList (map (fun id => out_list (rget_by_id_call s id)) (rlist s 0)) ].

Definition rstep_obs (q : list Z * list bytes) (s : store) (o : rop) : store * val :=
  let '(s', r) := rstep s o in (s', robserve q s' r).

Definition rcheck_case (c : (list Z * list bytes) * list (rop * val)) :=
  run_case (rstep_obs (fst c)) ∅ 0 (snd c).
