(** Model/NeoFSID.v — storage-level model of contracts/neofsid/contract.go.
    Binding key: 'o' ++ owner(25) ++ publicKey(33) |-> [1].  No proofs here. *)
From Verif Require Import Base.Prelude Base.IntCodec Model.StoreLib.
Local Open Scope Z_scope.

Definition owner_pfx : N := 111.  (* 'o' *)
Definition owner_size : nat := 25. (* 1 + Hash160Len + 4 *)
Definition pubkey_len : nat := 33.

Inductive nop :=
| NAdd (alpha : bool) (owner : bytes) (keys : list bytes)
| NRemove (alpha : bool) (owner : bytes) (keys : list bytes).

Definition nkey_of (owner k : bytes) : bytes := owner_pfx :: owner ++ k.

Definition nguards (alpha : bool) (owner : bytes) (keys : list bytes) : outcome unit :=
  _ <-! oassert (length owner =? owner_size)%nat;
  _ <-! oassert (forallb (fun k => (length k =? pubkey_len)%nat) keys);
  oassert alpha.

(** [AddKey] *)
Definition nadd (s : store) (alpha : bool) (owner : bytes) (keys : list bytes) : outcome store :=
  _ <-! nguards alpha owner keys;
  fold_left (fun acc k => s' <-! acc; sput (nkey_of owner k) [1%N] s') keys (Halt s).

(** [RemoveKey] *)
Definition nremove (s : store) (alpha : bool) (owner : bytes) (keys : list bytes) : outcome store :=
  _ <-! nguards alpha owner keys;
  Halt (fold_left (fun s' k => delete (nkey_of owner k) s') keys s).

(** [Key]: Find('o' ++ owner, KeysOnly|RemovePrefix). *)
Definition nkeys (s : store) (owner : bytes) : outcome (list bytes) :=
  _ <-! oassert (length owner =? owner_size)%nat;
  Halt (map (fun kv => drop (S (length owner)) (fst kv)) (sfind (owner_pfx :: owner) s)).

Definition nexec (s : store) (o : nop) : outcome store :=
  match o with
  | NAdd a w ks => nadd s a w ks
  | NRemove a w ks => nremove s a w ks
  end.

Definition nstep (s : store) (o : nop) : store * val :=
  match nexec s o with Halt s' => (s', VNull) | Fault => (s, VFault) end.

Definition nrun (ops : list nop) : store := fold_left (fun s o => fst (nstep s o)) ops ∅.

Definition nobserve (owners : list bytes) (s : store) (r : val) : val :=
  VList [ r;
          VList (map (fun w => match nkeys s w with Halt l => VBytesList l | Fault => VFault end) owners);
          VInt (Z.of_nat (size s)) ].

Definition nstep_obs (owners : list bytes) (s : store) (o : nop) : store * val :=
  let '(s', r) := nstep s o in (s', nobserve owners s' r).

Definition ncheck_case (c : list bytes * list (nop * val)) :=
  run_case (nstep_obs (fst c)) ∅ 0 (snd c).
