(** Model/Gas.v — native GAS as a ledger, and what is common to the models of
    the governance contracts that handle it (C19).

    TRUSTED SHAPE (neo-go v0.107.0, pkg/core/native/native_nep17.go):
    [transfer(from, to, amount, data)]
      - [from]/[to] that are not 20 bytes: the call faults ([toUint160]);
      - negative amount, no witness of [from] (unless [from] is the calling
        contract), balance of [from] below [amount]: returns [false], nothing
        happens;
      - otherwise debit [from], credit [to], emit [Transfer(from,to,amount)],
        and, if a contract is deployed at [to], call its
        [onNEP17Payment(from, amount, data)] with the GAS contract as the
        calling script hash, synchronously, before [transfer] returns; a fault
        of the callback faults the whole transaction.
    No proofs here. *)
From Verif Require Import Base.Prelude Base.IntCodec.
Local Open Scope Z_scope.

Notation ledger := (gmap bytes Z).
Definition gbal (l : ledger) (a : bytes) : Z := default 0 (l !! a).

Definition hash_len (b : bytes) : bool := (length b =? 20)%nat.
Definition key_len (b : bytes) : bool := (length b =? 33)%nat.
Definition inb (b : bytes) (l : list bytes) : bool := existsb (bytes_eqb b) l.

(** The [data any] argument of a NEP-17 transfer, as far as the contracts
    look at it: Null, a byte string, an integer, a boolean, anything else
    (Array, Map, Struct, ...). *)
Inductive data := DNull | DBytes (b : bytes) | DInt (z : Z) | DBool (b : bool) | DCompound.

(** [data.(interop.Hash160)]: the compiler emits CONVERT to Buffer; Null stays
    Null ([None]); primitive items are converted to their bytes; compound
    items make CONVERT fault. *)
Definition data_bytes (d : data) : outcome (option bytes) :=
  match d with
  | DNull => Halt None
  | DBytes b => Halt (Some b)
  | DInt z => Halt (Some (int_to_bytes z))
  | DBool b => Halt (Some [if b then 1%N else 0%N])
  | DCompound => Fault
  end.

(** Notifications of one transaction, in emission order.  A Null Hash160 /
    ByteArray is written [[]]. *)
Inductive ev :=
| EGas (f t : bytes) (a : Z)                       (* native GAS: Transfer(from, to, amount) *)
| EDeposit (f : bytes) (a : Z) (rcv tx : bytes)    (* neofs: Deposit(from, amount, receiver, txHash) *)
| EWithdraw (u : bytes) (a : Z) (tx : bytes)       (* neofs: Withdraw(user, amount, txHash) *)
| ECheque (id u : bytes) (a : Z) (lock : bytes)    (* neofs: Cheque(id, user, amount, lockAccount) *)
| EBind (u : bytes) (ks : list bytes)
| EUnbind (u : bytes) (ks : list bytes)
| EAlphabetUpdate (id : bytes) (ks : list bytes)
| ESetConfig (id k v : bytes).

(** [onNEP17Payment] of whatever is deployed at [to]:
    [cb token to from amount data] where [token] is the calling script hash
    seen by the callee; [from = []] is Null (mint). *)
Definition callback := bytes -> bytes -> bytes -> Z -> data -> outcome (list ev).

(** debit, credit *)
Definition gas_move (l : ledger) (f t : bytes) (a : Z) : ledger :=
  let l1 := <[f := gbal l f - a]> l in
  <[t := gbal l1 t + a]> l1.

(** [gasH]: hash of the native GAS contract; [witnessed]: [from] is the
    calling contract or [runtime.CheckWitness(from)] holds. *)
Definition gas_transfer (cb : callback) (gasH : bytes) (witnessed : bool) (l : ledger)
    (f t : bytes) (a : Z) (d : data) : outcome (ledger * bool * list ev) :=
  if negb (hash_len f && hash_len t) then Fault
  else if (a <? 0) || negb witnessed || (gbal l f <? a) then Halt (l, false, [])
  else
    ns <-! cb gasH t f a d;
    Halt (gas_move l f t a, true, EGas f t a :: ns).

(** GAS generated for a NEO holder ([GAS.mint], called by native NEO when the
    holder's NEO balance is touched): nothing when the amount is zero,
    otherwise credit, [Transfer(null, to, amount)], callback with Null data. *)
Definition gas_mint (cb : callback) (gasH : bytes) (l : ledger) (t : bytes) (a : Z)
  : outcome (ledger * list ev) :=
  if a =? 0 then Halt (l, [])
  else
    ns <-! cb gasH t [] a DNull;
    Halt (<[t := gbal l t + a]> l, EGas [] t a :: ns).

(** Deployment environment: contract hashes and the two hash functions the
    contracts apply to keys, as finite tables (abstract cryptography). *)
Inductive ckind :=
| KNone                                   (* no contract at this address *)
| KNeoFS
| KProcessing
| KProxy
| KAlphabet (index : Z) (proxy : bytes)   (* storage "index", "proxyScriptHash" *)
| KAccept                                 (* a contract whose onNEP17Payment accepts everything *)
| KNoMethod.                              (* a contract without onNEP17Payment *)

Record env := mkEnv {
  gasH : bytes;                     (* native GAS *)
  neoH : bytes;                     (* native NEO *)
  fsH : bytes;                      (* the NeoFS contract *)
  stdaccs : list (bytes * bytes);   (* contract.CreateStandardAccount: key -> script hash *)
  kinds : list (bytes * ckind)      (* what is deployed where *)
}.

Fixpoint assoc {V} (k : bytes) (l : list (bytes * V)) : option V :=
  match l with
  | [] => None
  | (k', v) :: r => if bytes_eqb k k' then Some v else assoc k r
  end.

(** [contract.CreateStandardAccount(key)]; [None]: not a valid public key,
    the interop faults. *)
Definition std_acc (e : env) (k : bytes) : option bytes := assoc k (stdaccs e).
Definition std_acc_o (e : env) (k : bytes) : outcome bytes :=
  match std_acc e k with Some h => Halt h | None => Fault end.

Definition kind_of (e : env) (a : bytes) : ckind :=
  if bytes_eqb a (fsH e) then KNeoFS
  else match assoc a (kinds e) with
       | Some KNeoFS | None => KNone
       | Some k => k
       end.

(** Invocation context.  [wit]: script hashes that signed the transaction
    (Global scope).  The three multi-signature addresses are values computed
    by the chain ([contract.CreateMultisigAccount]) and read back:
    [alpha_addr] = [common.AlphabetAddress()] (2n/3+1 of the committee),
    [cmt_addr] = [common.CommitteeAddress()] (n/2+1 of the committee),
    [fs_alpha_addr] = NeoFS' own [AlphabetAddress()] (2n/3+1 of its stored list;
    [[]] when that call faults because a stored key is not a curve point).
    [committee] = [neo.GetCommittee()], [ir] =
    [roles.GetDesignatedByRole(NeoFSAlphabet, height+1)], [height] =
    [ledger.CurrentIndex()], [txhash] = hash of the transaction. *)
Record ctx := mkCtx {
  wit : list bytes;
  alpha_addr : bytes;
  cmt_addr : bytes;
  fs_alpha_addr : bytes;
  committee : list bytes;
  ir : list bytes;
  height : Z;
  txhash : bytes
}.

(** [runtime.CheckWitness(b)] in a method invoked from the entry script: a
    20-byte argument is a script hash, anything else must be a public key. *)
Definition check_witness (e : env) (c : ctx) (b : bytes) : outcome bool :=
  if hash_len b then Halt (inb b (wit c))
  else match std_acc e b with
       | Some h => Halt (inb h (wit c))
       | None => Fault
       end.

(** [runtime.CheckWitness(AlphabetAddress())] of NeoFS. *)
Definition fs_alpha_witness (c : ctx) : outcome bool :=
  if (length (fs_alpha_addr c) =? 0)%nat then Fault else Halt (inb (fs_alpha_addr c) (wit c)).

(** [runtime.Notify] type check of a Hash160 parameter: Null or 20 bytes. *)
Definition hash160_ok (b : bytes) : bool := (length b =? 0)%nat || hash_len b.

Definition ev_val (n : ev) : val :=
  match n with
  | EGas f t a => VList [VInt 0; VBytes f; VBytes t; VInt a]
  | EDeposit f a r tx => VList [VInt 1; VBytes f; VInt a; VBytes r; VBytes tx]
  | EWithdraw u a tx => VList [VInt 2; VBytes u; VInt a; VBytes tx]
  | ECheque id u a lk => VList [VInt 3; VBytes id; VBytes u; VInt a; VBytes lk]
  | EBind u ks => VList [VInt 4; VBytes u; VList (map VBytes ks)]
  | EUnbind u ks => VList [VInt 5; VBytes u; VList (map VBytes ks)]
  | EAlphabetUpdate id ks => VList [VInt 6; VBytes id; VList (map VBytes ks)]
  | ESetConfig id k v => VList [VInt 7; VBytes id; VBytes k; VBytes v]
  end.
