(** Model/StoreLib.v — contract storage as seen by the storage interops of
    neo-go: a finite map from byte strings to byte strings, [storage.Find]
    as the prefix scan in ascending byte order of keys (snapshot taken at the
    call), [storage.Put] with the key/value length limits of the platform.
    No proofs here (lemmas: Proofs/StoreLib.v). *)
From Verif Require Import Base.Prelude Base.IntCodec.

Notation store := (@gmap bytes (@list_eq_dec N N_eq_dec) (@list_countable N N_eq_dec N_countable) bytes) (only parsing).

(** [storage.Find(ctx, p, None)]: the (key, value) pairs whose key has prefix
    [p], ascending in the byte order of the keys. *)
Definition sfind (p : bytes) (s : store) : list (bytes * bytes) :=
  omap (fun k => if is_prefix p k then (fun v => (k, v)) <$> (s !! k) else None) (skeys s).

(** limits.MaxStorageKeyLen = 64, limits.MaxStorageValueLen = 65535
    (pkg/core/interop/storage/basic.go: putWithContext).  Get/Find/Delete have
    no explicit check, but in neo-go 0.107 the private DAO of an invocation
    builds the database key in a buffer of 1+4+64 bytes, so a key or prefix
    longer than 64 bytes FAULTS there too (observed on the real contracts:
    "slice bounds out of range [:70] with capacity 69"): [with_key]. *)
Definition key_ok (k : bytes) : bool := (length k <=? 64)%nat.
Definition with_key {A} (k : bytes) (x : A) : outcome A := if key_ok k then Halt x else Fault.
Definition sput (k v : bytes) (s : store) : outcome store :=
  if (length k <=? 64)%nat && (Z.of_nat (length v) <=? 65535)%Z then Halt (<[k := v]> s) else Fault.

(** Go slicing [b[off:off+n]] and indexing [b[i]] fault when out of range. *)
Definition bslice (off n : nat) (b : bytes) : outcome bytes :=
  if (off + n <=? length b)%nat then Halt (take n (drop off b)) else Fault.
Definition bfrom (off : nat) (b : bytes) : outcome bytes :=
  if (off <=? length b)%nat then Halt (drop off b) else Fault.
Definition bnth (i : nat) (b : bytes) : outcome N :=
  match b !! i with Some x => Halt x | None => Fault end.

(** Keep the first occurrence of every element (a NeoVM map keeps insertion
    order; inserting an existing key keeps its place). *)
Fixpoint dedup_first (seen l : list bytes) : list bytes :=
  match l with
  | [] => []
  | x :: l' => if existsb (bytes_eqb x) seen then dedup_first seen l'
               else x :: dedup_first (x :: seen) l'
  end.

Definition VBytesList (l : list bytes) : val := VList (map VBytes l).
