(** Model/NNSSyntaxRun.v — evaluation support for the correspondence check of
    C18 (cases_C18*.v written by harness/nnssyntax_test.go).  No proofs.

    Strings are shipped packed in primitive 63-bit integers (seven bytes per
    word, little endian, plus a sentinel bit above the last byte), which Coq
    parses an order of magnitude faster than [list N] literals; [unpack] turns
    them back into [bytes].  Exhaustive families of strings are not shipped at
    all: the harness and [all_joined] enumerate them in the same order. *)
From Verif Require Import Base.Prelude Model.NNSSyntax Spec.Grammar.
From Coq Require Import Uint63.
Local Open Scope Z_scope.

Definition bit (w k : int) (v : N) : N :=
  if Uint63.eqb (Uint63.land (Uint63.lsr w k) 1) 0 then 0%N else v.
Definition byte_of (w : int) : N :=
  (bit w 0 1 + bit w 1 2 + bit w 2 4 + bit w 3 8 + bit w 4 16 + bit w 5 32 + bit w 6 64 + bit w 7 128)%N.
Fixpoint wbytes (n : nat) (w : int) : bytes :=
  match n with
  | O => []
  | S n' => if Uint63.eqb w 1 then [] else byte_of w :: wbytes n' (Uint63.lsr w 8)
  end.
Definition unpack (ws : list int) : bytes := List.concat (map (wbytes 8) ws).

(* ------------------------------------------------------------------ *)
(** * What the two sides say about one string *)

(** [typ <= 0]: a name given to [isAvailable] (0), [register] (-1) or
    [registerTLD] (-2); otherwise a record type given to [addRecord] /
    [setRecord]. *)
Definition model_obs (typ : Z) (s : bytes) : val :=
  if typ <=? 0 then name_obs s else record_obs typ s.

(** The grammar's verdict (boolean version, proved equivalent to the
    declarative one in Proofs/NNSSyntaxBool.v). *)
Definition grammar_b (typ : Z) (s : bytes) : bool :=
  if typ <=? 0 then valid_nameb s else valid_record_datab typ s.

Definition is_true (v : val) : bool := match v with VBool true => true | _ => false end.

(* ------------------------------------------------------------------ *)
(** * Listed strings: groups [(typ, observed, rows of packed strings)].
    The core observation is two-valued and does not look at fault texts:
    [VBool true] = the invocation HALTed, [VNull] = it FAULTed (the model may
    say [Halt false] or [Fault]).  When the harness recognises every fault
    text it refines FAULT into [VBool false] (the check's own panic) and
    [VFault] (a fault raised inside the check). *)

Definition group : Type := Z * val * list (list (list int)).

Definition obs_agrees (got expected : val) : bool :=
  match expected with
  | VNull => negb (is_true got)
  | _ => val_eqb got expected
  end.

Definition group_model (g : group) : list (Z * bytes * val) :=
  let '(typ, expected, rows) := g in
  flat_map (fun row =>
    flat_map (fun ws =>
      let s := unpack ws in
      let got := model_obs typ s in
      if obs_agrees got expected then [] else [(typ, s, got)]) row) rows.

Definition group_grammar (g : group) : list (Z * bytes * bool) :=
  let '(typ, expected, rows) := g in
  flat_map (fun row =>
    flat_map (fun ws =>
      let s := unpack ws in
      let gb := grammar_b typ s in
      if Bool.eqb gb (is_true expected) then [] else [(typ, s, gb)]) row) rows.

(* ------------------------------------------------------------------ *)
(** * Exhaustive families: all sequences of at most [n] tokens (at least
    one), joined by an optional separator and followed by a fixed suffix, by
    length and then in the order of the token list. *)

Fixpoint seqs_of_len {A} (toks : list A) (n : nat) : list (list A) :=
  match n with
  | O => [[]]
  | S n' => flat_map (fun t => map (cons t) (seqs_of_len toks n')) toks
  end.

Definition glue (sep : option N) (ts : list bytes) : bytes :=
  match sep with
  | Some c => join c ts
  | None => List.concat ts
  end.

Definition all_joined (sep : option N) (toks : list bytes) (n : nat) : list bytes :=
  flat_map (fun k => map (glue sep) (seqs_of_len toks k)) (seq 1 n).

Definition all_family (sep : option N) (toks : list bytes) (n : nat) (suffix : bytes) : list bytes :=
  map (fun s => s ++ suffix) (all_joined sep toks n).

(** Walk the enumeration against the observed sub-list with property [f]
    (same order): the strings on which [f] and the observation differ. *)
Fixpoint walk (f : bytes -> bool) (all obs : list bytes) (acc : list (bytes * bool)) : list (bytes * bool) :=
  match all with
  | [] => rev_append acc (map (fun s => (s, false)) obs)
  | s :: all' =>
      match obs with
      | o :: obs' =>
          if bytes_eqb s o then walk f all' obs' (if f s then acc else (s, false) :: acc)
          else walk f all' obs (if f s then (s, true) :: acc else acc)
      | [] => walk f all' [] (if f s then (s, true) :: acc else acc)
      end
  end.

(** [(typ, separator, tokens, n, suffix, accepted, faulted)]: the strings of
    the family on which the invocation HALTed, and (refinement, only when the
    harness recognises the fault texts; empty otherwise) those on which it
    faulted inside the check, in enumeration order.  The families are run in
    a prepared state where nothing but the syntactic check can fault. *)
Definition family : Type :=
  Z * option N * list bytes * nat * bytes * list (list (list int)) * list (list (list int)).

Definition unrows (rows : list (list (list int))) : list bytes := map unpack (List.concat rows).

Definition family_all (fm : family) : list bytes :=
  let '(typ, sep, toks, n, suffix, acc, flt) := fm in all_family sep toks n suffix.

(** HALT = the model accepts. *)
Definition family_model (fm : family) : list (Z * bytes * bool) :=
  let '(typ, sep, toks, n, suffix, acc, flt) := fm in
  map (fun x => (typ, fst x, snd x))
      (walk (fun s => is_true (model_obs typ s)) (family_all fm) (unrows acc) []).

(** Refinement: fault inside the check = the model faults. *)
Definition family_model_faults (fm : family) : list (Z * bytes * bool) :=
  let '(typ, sep, toks, n, suffix, acc, flt) := fm in
  map (fun x => (typ, fst x, snd x))
      (walk (fun s => match model_obs typ s with VFault => true | _ => false end) (family_all fm) (unrows flt) []).

(** HALT = the grammar accepts. *)
Definition family_grammar (fm : family) : list (Z * bytes * bool) :=
  let '(typ, sep, toks, n, suffix, acc, flt) := fm in
  map (fun x => (typ, fst x, snd x)) (walk (grammar_b typ) (family_all fm) (unrows acc) []).

Definition family_size (fm : family) : Z := Z.of_nat (length (family_all fm)).
