(** Model/WitnessSmall.v — executable models of the three witness-gated
    methods that belong to no family model, and of the platform rule that
    keeps the [_deploy] / [_initialize] entry points out of reach (C03).
    Same guards, same order as the Go source.  No proofs here.

      contracts/container/contract.go:996-1010  StartContainerEstimation,
                                                StopContainerEstimation
      contracts/alphabet/contract.go:309-330    Vote
      neo-go v0.107.0 pkg/core/interop/contract/call.go:64
                                                System.Contract.Call refuses a
                                                method whose name starts with '_' *)
From Coq Require Import String.
From Verif Require Import Base.Prelude.
Local Open Scope Z_scope.

(** * container.StartContainerEstimation / StopContainerEstimation
<<
    common.CheckAlphabetWitness()
    runtime.Notify("StartEstimation", epoch)
>>
    Neither touches the storage: the model is polymorphic in the state. *)
Inductive snotif := NStartEstimation (e : Z) | NStopEstimation (e : Z).
Inductive sop := SStart (alpha : bool) (e : Z) | SStop (alpha : bool) (e : Z).

Definition sexec (o : sop) : outcome (list snotif) :=
  match o with
  | SStart alpha e => _ <-! oassert alpha; Halt [NStartEstimation e]
  | SStop alpha e => _ <-! oassert alpha; Halt [NStopEstimation e]
  end.

Definition sstep {S : Type} (s : S) (o : sop) : S * val * list snotif :=
  match sexec o with
  | Halt ns => (s, VNull, ns)
  | Fault => (s, VFault, [])
  end.

(** * alphabet.Vote(epoch, candidates)
    [v_alpha]: [common.CheckAlphabetWitness]; [v_epoch]: netmap.epoch();
    [v_index]: storage "index"; [v_accepts]: the answer of native
    [neo.Vote(self, candidate)] (it is only logged).  The state is the
    candidate the contract's NEO currently votes for (native NEO state). *)
Record vctx := mkVC { v_alpha : bool; v_epoch : Z; v_index : Z; v_accepts : bytes -> bool }.

Definition vote_exec (c : vctx) (target : option bytes) (epoch : Z) (cands : list bytes)
  : outcome (option bytes) :=
  _ <-! oassert (v_alpha c);
  _ <-! oassert (epoch =? v_epoch c);                    (* panic("invalid epoch") *)
  if (length cands =? 0)%nat then Fault else             (* MOD by zero *)
  if v_index c <? 0 then Fault else                      (* PICKITEM with a negative index *)
  match nth_error cands (Z.to_nat (Z.rem (v_index c) (Z.of_nat (length cands)))) with
  | Some cd => Halt (if v_accepts c cd then Some cd else target)
  | None => Fault
  end.

Definition vote_step (target : option bytes) (c : vctx) (epoch : Z) (cands : list bytes)
  : option bytes * val :=
  match vote_exec c target epoch cands with
  | Halt t => (t, VNull)
  | Fault => (target, VFault)
  end.

(** * The platform's rule for methods whose name starts with an underscore
    [System.Contract.Call] (and so every invocation from a transaction script
    or from another contract) fails with "invalid method name (starts with
    '_')" before the callee is entered; only Management calls [_deploy], only
    the VM itself runs [_initialize]. *)
Definition vm_callable (m : string) : bool := negb (String.prefix "_" m).

(** An invocation of method [m] whose body is [body]. *)
Definition vm_invoke {S N : Type} (m : string) (body : S -> outcome (S * val * list N)) (s : S)
  : S * val * list N :=
  if vm_callable m then
    match body s with
    | Halt r => r
    | Fault => (s, VFault, [])
    end
  else (s, VFault, []).
